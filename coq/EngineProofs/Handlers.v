(* Packet handlers: single-step theorems used by C01 (own acknowledgement), C04 (QoS 2 handshake),
   C05 (inbound publishes) and C17 (resolvers reset at CONNACK).  Each holds for ANY state. *)
From GM Require Import Base.Prelude Base.Outcome Codec.Packets Codec.Settings Engine.Model
  EngineProofs.AssocLemmas EngineProofs.Frames.
From RecordUpdate Require Import RecordSet.
Import RecordSetNotations.
Open Scope N_scope.

Section Handlers.
  Variable enc : Type.
  Variable dec : Type.
  Variable ores : Type.
  Variable ores_reset : ores -> N -> ores.
  Variable ires : Type.
  Variable ires_reset : ires -> ires.
  Variable v_in : option settings -> packet -> outcome unit.
  Variable cfg : config.
  Notation state := (state enc dec ores ires).
  Notation handle_publish := (handle_publish enc dec ores ires).
  Notation handle_pubrel := (handle_pubrel enc dec ores ires).
  Notation handle_pubrec := (handle_pubrec enc dec ores ires cfg).
  Notation handle_pubcomp := (handle_pubcomp enc dec ores ires cfg).
  Notation handle_puback := (handle_puback enc dec ores ires cfg).
  Notation handle_suback := (handle_suback enc dec ores ires cfg).
  Notation handle_unsuback := (handle_unsuback enc dec ores ires cfg).
  Notation handle_connack := (handle_connack enc dec ores ores_reset ires ires_reset v_in cfg).
  Notation apply_session := (apply_session enc dec ores ires cfg).
  Notation pre_connack := (pre_connack enc dec ores ires).

  (* ---------------- C05: inbound PUBLISH / PUBREL ---------------- *)

  Theorem inbound_before_connack_rejected (s : state) pb a :
    pre_connack s = true ->
    h_out (handle_publish s pb) = Err EProtocolError /\ h_ev (handle_publish s pb) = [] /\
    h_out (handle_pubrel s a) = Err EProtocolError.
  Proof. intros H. unfold Model.handle_publish, Model.handle_pubrel. rewrite H. cbn. repeat split; reflexivity. Qed.

  Theorem inbound_qos0 (s : state) pb :
    pre_connack s = false -> pub_qos pb = 0 ->
    handle_publish s pb = mkHres s [] [Publish pb] (Ok tt).
  Proof. intros H Hq. unfold Model.handle_publish. rewrite H, Hq. reflexivity. Qed.

  (* QoS 1: surfaced, and exactly one PUBACK for its packet id is appended to the BACK of the
     high-priority queue *)
  Theorem inbound_qos1 (s : state) pb :
    pre_connack s = false -> pub_qos pb = 1 ->
    let h := handle_publish s pb in
    h_out h = Ok tt /\ h_ev h = [Publish pb] /\ h_done h = [] /\
    s_hq (h_s h) = s_hq s ++ [s_next_id s] /\
    s_ops (h_s h) = s_ops s ++ [(s_next_id s, new_op (Puback (default_ack (pub_pid pb))) false None)] /\
    s_q2in (h_s h) = s_q2in s.
  Proof.
    intros H Hq. unfold Model.handle_publish. rewrite H, Hq. cbn. repeat split; reflexivity.
  Qed.

  (* QoS 2, first delivery of this id: surfaced, remembered, PUBREC queued *)
  Theorem inbound_qos2_first (s : state) pb :
    pre_connack s = false -> pub_qos pb = 2 -> mem (pub_pid pb) (s_q2in s) = false ->
    let h := handle_publish s pb in
    h_out h = Ok tt /\ h_ev h = [Publish pb] /\
    s_hq (h_s h) = s_hq s ++ [s_next_id s] /\
    s_ops (h_s h) = s_ops s ++ [(s_next_id s, new_op (Pubrec (default_ack (pub_pid pb))) false None)] /\
    s_q2in (h_s h) = set_insert (pub_pid pb) (s_q2in s).
  Proof.
    intros H Hq Hm. unfold Model.handle_publish. rewrite H, Hq, Hm. cbn. repeat split; reflexivity.
  Qed.

  (* QoS 2, duplicate of an unreleased id: acknowledged again but NOT surfaced again *)
  Theorem inbound_qos2_duplicate (s : state) pb :
    pre_connack s = false -> pub_qos pb = 2 -> mem (pub_pid pb) (s_q2in s) = true ->
    let h := handle_publish s pb in
    h_out h = Ok tt /\ h_ev h = [] /\
    s_hq (h_s h) = s_hq s ++ [s_next_id s] /\
    s_ops (h_s h) = s_ops s ++ [(s_next_id s, new_op (Pubrec (default_ack (pub_pid pb))) false None)] /\
    s_q2in (h_s h) = s_q2in s.
  Proof.
    intros H Hq Hm. unfold Model.handle_publish. rewrite H, Hq, Hm. cbn. repeat split; reflexivity.
  Qed.

  (* PUBREL: the id is released and exactly one PUBCOMP for it is queued *)
  Theorem inbound_pubrel (s : state) a :
    pre_connack s = false ->
    let h := handle_pubrel s a in
    h_out h = Ok tt /\ h_ev h = [] /\ h_done h = [] /\
    s_hq (h_s h) = s_hq s ++ [s_next_id s] /\
    s_ops (h_s h) = s_ops s ++ [(s_next_id s, new_op (Pubcomp (default_ack (ack_pid a))) false None)] /\
    s_q2in (h_s h) = set_remove (ack_pid a) (s_q2in s).
  Proof.
    intros H. unfold Model.handle_pubrel. rewrite H. cbn. repeat split; reflexivity.
  Qed.

  (* ---------------- C01 / C04: acknowledgement handlers ---------------- *)

  (* an acknowledgement for an id nobody awaits is a protocol error and completes nothing *)
  Theorem unknown_ack_rejected (s : state) a sa ua :
    pre_connack s = false ->
    (lookup (ack_pid a) (s_ppub s) = None ->
       handle_puback s a = mkHres s [] [] (Err EProtocolError) /\
       handle_pubrec s a = mkHres s [] [] (Err EProtocolError) /\
       handle_pubcomp s a = mkHres s [] [] (Err EProtocolError)) /\
    (lookup (sa_pid sa) (s_pnon s) = None -> handle_suback s sa = mkHres s [] [] (Err EProtocolError)) /\
    (lookup (ua_pid ua) (s_pnon s) = None -> handle_unsuback s ua = mkHres s [] [] (Err EProtocolError)).
  Proof.
    intros H. unfold Model.handle_puback, Model.handle_pubrec, Model.handle_pubcomp, Model.handle_suback, Model.handle_unsuback.
    rewrite H. split; [intros Hl; rewrite Hl; repeat split; reflexivity|]. split; intros Hl; rewrite Hl; reflexivity.
  Qed.

  (* a PUBACK completes only a QoS 1 publish; a PUBCOMP only a QoS 2 publish whose PUBREC was
     received; a SUBACK only a subscribe with the right number of codes: never another operation
     kind, never another packet type's operation *)
  Theorem puback_needs_qos1 (s : state) a id :
    pre_connack s = false -> lookup (ack_pid a) (s_ppub s) = Some id ->
    publish_qos_of enc dec ores ires s id <> Some 1 ->
    handle_puback s a = mkHres s [] [] (Err EProtocolError).
  Proof.
    intros H Hl Hq. unfold Model.handle_puback. rewrite H, Hl.
    destruct (publish_qos_of enc dec ores ires s id) as [q|]; [|reflexivity].
    destruct q as [|p]; [reflexivity|]. destruct p; try reflexivity. contradiction.
  Qed.

  Theorem pubcomp_needs_pubrel (s : state) a id o pb :
    pre_connack s = false -> lookup (ack_pid a) (s_ppub s) = Some id -> lookup id (s_ops s) = Some o ->
    op_packet o = Publish pb -> (pub_qos pb <> 2 \/ op_pubrel o = None) ->
    handle_pubcomp s a = mkHres s [] [] (Err EProtocolError).
  Proof.
    intros H Hl Ho Hp Hc. unfold Model.handle_pubcomp. rewrite H, Hl, Ho, Hp.
    destruct (pub_qos pb =? 2) eqn:E; [|reflexivity].
    destruct Hc as [Hc|Hc]; [lia|]. rewrite Hc. reflexivity.
  Qed.

  Theorem suback_needs_matching_subscribe (s : state) sa id o :
    pre_connack s = false -> lookup (sa_pid sa) (s_pnon s) = Some id -> lookup id (s_ops s) = Some o ->
    (forall sub, op_packet o = Subscribe sub -> len (sa_codes sa) <> len (s_subs sub)) ->
    handle_suback s sa = mkHres s [] [] (Err EProtocolError).
  Proof.
    intros H Hl Ho Hc. unfold Model.handle_suback. rewrite H, Hl, Ho.
    destruct (op_packet o) eqn:Ep; try reflexivity.
    specialize (Hc _ eq_refl). destruct (len (sa_codes sa) =? len (s_subs p)) eqn:E; [lia|reflexivity].
  Qed.

  (* PUBREC with a success code: the operation is NOT completed; from now on it carries a PUBREL
     with the same packet id, queued at the back of the high-priority queue *)
  Theorem pubrec_success (s : state) a id o pb :
    pre_connack s = false -> lookup (ack_pid a) (s_ppub s) = Some id -> lookup id (s_ops s) = Some o ->
    op_packet o = Publish pb -> pub_qos pb = 2 -> ack_rc a < 128 ->
    let h := handle_pubrec s a in
    h_out h = Ok tt /\ h_done h = [] /\ s_hq (h_s h) = s_hq s ++ [id] /\
    s_ops (h_s h) = update id (fun o => o <| op_pubrel := Some (Pubrel (default_ack (ack_pid a))) |>) (s_ops s) /\
    s_ppub (h_s h) = s_ppub s.
  Proof.
    intros H Hl Ho Hp Hq Hrc. unfold Model.handle_pubrec. rewrite H, Hl, Ho, Hp, Hq. cbn [N.eqb].
    replace (2 =? 2) with true by reflexivity.
    destruct (128 <=? ack_rc a) eqn:E; [lia|]. cbn. repeat split; reflexivity.
  Qed.

  (* ---------------- C17 / C05: what a successful CONNACK resets ---------------- *)

  Lemma unbind_static (s : state) id : same_static enc dec ores ires s (unbind enc dec ores ires s id).
  Proof.
    unfold unbind. destruct (lookup id (s_ops s)) as [o|]; [|apply same_static_refl].
    destruct (op_pid o) as [pid|]; [destruct (with_pid 0 (op_packet o))|];
      unfold same_static; cbn; repeat split; reflexivity.
  Qed.

  Lemma fold_unbind_static l : forall (s : state), same_static enc dec ores ires s (fold_left (unbind enc dec ores ires) l s).
  Proof.
    induction l as [|x r IH]; intros s; cbn [fold_left]; [apply same_static_refl|].
    eapply same_static_trans; [apply unbind_static|apply IH].
  Qed.

  (* session present: the inbound QoS 2 set survives the reconnect; session absent: it is forgotten *)
  Theorem session_inbound_qos2 (s : state) sp :
    is_panic (r_out (apply_session s sp)) = false ->
    s_q2in (r_s (apply_session s sp)) = (if sp then s_q2in s else []) /\
    s_ores (r_s (apply_session s sp)) = s_ores s /\ s_ires (r_s (apply_session s sp)) = s_ires s /\
    s_settings (r_s (apply_session s sp)) = s_settings s.
  Proof.
    unfold Model.apply_session. destruct sp.
    - cbn [pure r_out r_s is_panic r_done].
      set (s2 := fold_left _ _ _).
      assert (H2 : same_static enc dec ores ires s s2) by (subst s2; apply fold_unbind_static).
      destruct H2 as (Hq & Ho & Hi & _ & Hs & _).
      clearbody s2.
      intros Hnp.
      repeat match goal with
      | |- context [if ?b then _ else _] => destruct b; cbn [r_s r_out is_panic] in *; try discriminate
      end; cbn; repeat split; assumption.
    - destruct (partition_policy enc dec ores ires cfg s (s_rq s)) as [kept rejected].
      set (s1 := s <| s_rq := [] |> <| s_ops := _ |> <| s_uq := _ |>).
      pose proof (fail_all_static enc dec ores ires cfg rejected s1 EOfflineQueuePolicyFailed) as Hf.
      destruct (is_panic (r_out (fail_all enc dec ores ires cfg s1 rejected EOfflineQueuePolicyFailed))) eqn:Ep.
      + cbn [r_out]. rewrite Ep. cbv iota. rewrite Ep. discriminate.
      + cbn [r_out r_s r_done]. rewrite Ep.
        set (sa := r_s _ <| s_q2in := [] |> <| s_alloc := [] |>).
        set (s2 := fold_left _ _ sa).
        assert (H2 : same_static enc dec ores ires sa s2) by (subst s2; apply fold_unbind_static).
        destruct H2 as (Hq & Ho & Hi & _ & Hs & _).
        destruct Hf as (_ & Ho1 & Hi1 & _ & Hs1 & _).
        assert (Hsa : s_q2in sa = [] /\ s_ores sa = s_ores s /\ s_ires sa = s_ires s /\ s_settings sa = s_settings s).
        { subst sa. cbn. repeat split; try reflexivity.
          - rewrite Ho1. subst s1. reflexivity.
          - rewrite Hi1. subst s1. reflexivity.
          - rewrite Hs1. subst s1. reflexivity. }
        destruct Hsa as (Ha & Hb & Hc & Hd).
        clearbody s2. clearbody sa.
        intros Hnp.
        repeat match goal with
        | |- context [if ?b then _ else _] => destruct b; cbn [r_s r_out is_panic] in *; try discriminate
        end; cbn; repeat split; congruence.
  Qed.

  (* a successful CONNACK resets BOTH alias resolvers (the outbound one with the server's Topic Alias
     Maximum, 0 if absent) and installs the negotiated settings *)
  Theorem connack_resets_aliases (s : state) now c :
    s_st s = PendingConnack -> ca_rc c = 0 -> h_out (handle_connack s now c) = Ok tt ->
    let s' := h_s (handle_connack s now c) in
    s_ores s' = ores_reset (s_ores s) (match ca_tam c with Some m => m | None => 0 end) /\
    s_ires s' = ires_reset (s_ires s) /\
    s_settings s' = Some (build_settings enc dec ores ires cfg s c) /\
    h_ev (handle_connack s now c) = [Connack c].
  Proof.
    intros Hs Hrc. unfold Model.handle_connack. rewrite Hs. cbn [pstate_eqb negb]. rewrite Hrc. cbn [N.eqb negb].
    replace (0 =? 0) with true by reflexivity. cbn [negb].
    destruct (v_in None (Connack c)); [|cbn; discriminate|cbn; discriminate].
    set (s1 := s <| s_st := Connected |> <| s_connected_before := true |> <| s_settings := _ |> <| s_connack_to := None |>
                  <| s_ores := _ |> <| s_ires := _ |> <| s_ping_to := None |> <| s_next_ping := _ |>).
    set (s2 := if cf_drain_one cfg then _ else s1).
    assert (Hs2 : s_ores s2 = s_ores s1 /\ s_ires s2 = s_ires s1 /\ s_settings s2 = s_settings s1).
    { subst s2. destruct (cf_drain_one cfg); cbn; repeat split; reflexivity. }
    destruct (r_out (apply_session s2 (ca_session_present c))) eqn:Er; cbn; try discriminate.
    intros _.
    assert (Hnp : is_panic (r_out (apply_session s2 (ca_session_present c))) = false) by (rewrite Er; reflexivity).
    destruct (session_inbound_qos2 s2 (ca_session_present c) Hnp) as (_ & Ho & Hi & Hset).
    destruct Hs2 as (Ha & Hb & Hc).
    repeat split.
    - rewrite Ho, Ha. subst s1. reflexivity.
    - rewrite Hi, Hb. subst s1. reflexivity.
    - rewrite Hset, Hc. subst s1. reflexivity.
  Qed.
End Handlers.
