(* C10 strict order, the placement invariant PL (PlaceRun.v) through the events other than inbound data and
   service: a fresh operation (PL_new / PL_newop: the id counter is above every id in any place), user
   submissions, connection opened, write completion, reset, and the connection close (OrderRunStrict2.close_DQ
   with its premise CP discharged by PlaceRun.PL_CP); then the inbound packet handlers, the session step and
   net_data. *)
From GM Require Import Base.Prelude Base.Outcome Codec.Packets Codec.Settings Engine.Model
  EngineProofs.AssocLemmas EngineProofs.WFLemmas EngineProofs.WFDefs EngineProofs.WFCore EngineProofs.WFComplete
  EngineProofs.WFClose EngineProofs.WFClose2 EngineProofs.WFService EngineProofs.WFEvents EngineProofs.WFData EngineProofs.WFData2
  EngineProofs.Order EngineProofs.OrderRunStrict EngineProofs.OrderRunStrict2 EngineProofs.PlaceRun.
From RecordUpdate Require Import RecordSet.
Import RecordSetNotations.
Open Scope N_scope.

(* the four component types are implicit in the engine functions, locally to this file *)
#[local] Arguments init {enc dec} _ {ores ires} _ _.
#[local] Arguments release {enc dec ores ires} _ _ _ _.
#[local] Arguments disconnect_completion {enc dec ores ires} _ _.
#[local] Arguments fail_op {enc dec ores ires} _ _ _ _.
#[local] Arguments ping_extension {enc dec ores ires} _ _.
#[local] Arguments succeed_op {enc dec ores ires} _ _ _ _.
#[local] Arguments fail_all {enc dec ores ires} _ _ _ _.
#[local] Arguments succeed_all {enc dec ores ires} _ _ _.
#[local] Arguments andthen {enc dec ores ires} _ _.
#[local] Arguments try_ {enc dec ores ires} _ _.
#[local] Arguments pure {enc dec ores ires} _.
#[local] Arguments create_operation {enc dec ores ires} _ _.
#[local] Arguments passes_now {enc dec ores ires} _ _ _.
#[local] Arguments user_event {enc dec ores ires} _ _ _ _.
#[local] Arguments create_connect {enc dec ores ires} _ _.
#[local] Arguments net_opened {enc dec} _ {ores ires} _ _ _.
#[local] Arguments op_exists {enc dec ores ires} _ _.
#[local] Arguments op_passes {enc dec ores ires} _ _ _.
#[local] Arguments partition_policy {enc dec ores ires} _ _ _.
#[local] Arguments closed_current {enc dec ores ires} _ _.
#[local] Arguments slow_start_init {enc dec ores ires} _ _.
#[local] Arguments update_retries {enc dec ores ires} _ _.
#[local] Arguments fail_exceeding {enc dec ores ires} _ _.
#[local] Arguments has_pubrel {enc dec ores ires} _ _.
#[local] Arguments net_closed_raw {enc dec ores ires} _ _.
#[local] Arguments net_closed {enc dec ores ires} _ _.
#[local] Arguments net_write_completion {enc dec ores ires} _ _.
#[local] Arguments acquire_free_pid {enc dec ores ires} _ _.
#[local] Arguments acquire_pid_for {enc dec ores ires} _ _.
#[local] Arguments unbind {enc dec ores ires} _ _.
#[local] Arguments passes_receive_max {enc dec ores ires} _ _.
#[local] Arguments throttled {enc dec ores ires} _ _.
#[local] Arguments has_pending_ack {enc dec ores ires} _.
#[local] Arguments dequeue {enc dec ores ires} _ _ _.
#[local] Arguments fully_written {enc dec ores ires} _ _.
#[local] Arguments service_keep_alive {enc dec ores ires} _ _ _.
#[local] Arguments process_ack_timeouts {enc dec ores ires} _ _ _.
#[local] Arguments halt_on_error {enc dec ores ires} _ _.
#[local] Arguments next_service_time {enc dec ores ires} _ _ _.
#[local] Arguments build_settings {enc dec ores ires} _ _ _.
#[local] Arguments apply_session {enc dec ores ires} _ _ _.
#[local] Arguments hres_of {enc dec ores ires} _ _.
#[local] Arguments pre_connack {enc dec ores ires} _.
#[local] Arguments sum_ss {enc dec ores ires} _.
#[local] Arguments handle_pingresp {enc dec ores ires} _.
#[local] Arguments handle_suback {enc dec ores ires} _ _ _.
#[local] Arguments handle_unsuback {enc dec ores ires} _ _ _.
#[local] Arguments publish_qos_of {enc dec ores ires} _ _.
#[local] Arguments handle_puback {enc dec ores ires} _ _ _.
#[local] Arguments handle_pubrec {enc dec ores ires} _ _ _.
#[local] Arguments handle_pubrel {enc dec ores ires} _ _.
#[local] Arguments handle_pubcomp {enc dec ores ires} _ _ _.
#[local] Arguments handle_publish {enc dec ores ires} _ _.
#[local] Arguments handle_disconnect {enc dec ores ires} _ _ _.
#[local] Arguments is_connect_op {enc dec ores ires} _ _.
#[local] Arguments connect_in_queue {enc dec ores ires} _.
#[local] Arguments reset {enc dec ores ires} _ _.
#[local] Arguments out_of_res {enc dec ores ires} _ _.
#[local] Arguments nst_queue {enc dec ores ires} _ _ _ _.
#[local] Arguments earliest_tmo {enc dec ores ires} _.
#[local] Arguments SeatStop {enc dec ores ires} _.
#[local] Arguments SeatContinue {enc dec ores ires} _ _.
#[local] Arguments SeatEncode {enc dec ores ires} _.

#[local] Arguments olist : simpl never.
#[local] Arguments keys : simpl never.

(* normalise counts over appends and conses *)
Ltac cn_norm :=
  rewrite ?cn_app;
  repeat match goal with
         | |- context [cn (?a :: ?l) ?x] => lazymatch l with [] => fail | _ => rewrite (cn_cons a l x) end
         end;
  rewrite ?cn_app, ?cn_nil.

Section Events.
  Context {enc dec ores ires : Type}.
  Notation state := (state enc dec ores ires).
  Notation res := (res enc dec ores ires).
  Variable cfg : config.

  (* ---- a fresh operation ---- *)
  Lemma PL_new (s s' : state) id o :
    PL s -> cn (mn1 s) id = 0%nat -> cn (map snd (s_ppub s)) id = 0%nat -> cn (ax s) id = 0%nat ->
    lookup id (s_ops s) = None -> s_ops s' = s_ops s ++ [(id, o)] -> s_ppub s' = s_ppub s ->
    (forall x, (cn (mn1 s') x + cn (ax s') x <= cn [id] x + cn (mn1 s) x + cn (ax s) x)%nat /\
               (cn (mn1 s') x <= cn [id] x + cn (mn1 s) x)%nat /\ (cn (ax s') x <= cn [id] x + cn (ax s) x)%nat) ->
    PL s'.
  Proof.
    intros HP F1 F2 F3 Hl Eo Ep Hc. apply (PL_gen s s' HP). intros x. destruct (N.eq_dec x id) as [->|Hne].
    - left. unfold once. rewrite Ep, F2. destruct (Hc id) as (H1 & _). rewrite cn_same in H1. lia.
    - right; right. destruct (Hc x) as (_ & H2 & H3). rewrite (cn_one id x Hne) in *. unfold shr. rewrite Ep.
      split; [lia|]. split; [apply le_n|]. split; [lia|]. split; [|tauto].
      intros o' Ho'. exists o'. split; [|tauto]. unfold getop in *. rewrite Eo, lookup_app in Ho'.
      destruct (lookup x (s_ops s)); [exact Ho'|]. cbn in Ho'. destruct (id =? x) eqn:E; [lia|discriminate].
  Qed.

  Lemma fresh_places (s : state) : WFS s ->
    cn (mn1 s) (s_next_id s) = 0%nat /\ cn (map snd (s_ppub s)) (s_next_id s) = 0%nat /\ cn (ax s) (s_next_id s) = 0%nat /\
    lookup (s_next_id s) (s_ops s) = None.
  Proof.
    intros HW.
    assert (Hq : forall i, inq (core_of s) i -> i <> s_next_id s).
    { intros i Hi. pose proof (w_qlt _ _ HW i Hi) as H. cbn in H. lia. }
    assert (Hk : forall i o, gop (core_of s) i = Some o -> i <> s_next_id s).
    { intros i o Hi. apply gop_in_keys in Hi. pose proof (w_lt _ _ HW i Hi) as H. cbn in H. lia. }
    unfold inq in Hq. cbn in Hq.
    split; [|split; [|split; [|apply fresh_id; exact HW]]]; apply cn_notin.
    - unfold mn1. rewrite !in_app_iff. intros [H|[H|[H|H]]].
      + apply (Hq (s_next_id s)); [tauto|reflexivity].
      + apply (Hq (s_next_id s)); [tauto|reflexivity].
      + apply (Hq (s_next_id s)); [tauto|reflexivity].
      + apply In_snd_inv in H. destruct H as (p & Hin). destruct (w_pnon _ _ HW p _ Hin) as (o & Ho & _). eapply Hk; [exact Ho|reflexivity].
    - intros H. apply In_snd_inv in H. destruct H as (p & Hin). destruct (w_ppub _ _ HW p _ Hin) as (o & Ho & _). eapply Hk; [exact Ho|reflexivity].
    - unfold ax. rewrite in_app_iff. intros [H|H]; [apply (Hq (s_next_id s)); [tauto|reflexivity]|].
      destruct (s_cur s) as [c|] eqn:Ec; [|destruct H]. destruct H as [H|[]]. apply (Hq (s_next_id s)); [subst c; tauto|reflexivity].
  Qed.

  (* a fresh operation enters the high-priority queue (front or back), the user queue (back), or no place *)
  Lemma PL_newop (s s' : state) o :
    WFS s -> PL s -> s_ops s' = s_ops s ++ [(s_next_id s, o)] -> s_ppub s' = s_ppub s -> s_pnon s' = s_pnon s ->
    s_pwco s' = s_pwco s -> s_rq s' = s_rq s -> (s_cur s' = s_cur s \/ s_cur s' = None) ->
    (s_uq s' = s_uq s /\ (s_hq s' = s_hq s \/ s_hq s' = s_next_id s :: s_hq s \/ s_hq s' = s_hq s ++ [s_next_id s])) \/
    (s_uq s' = s_uq s ++ [s_next_id s] /\ s_hq s' = s_hq s) ->
    PL s'.
  Proof.
    intros HW HP Eo E1 E2 E3 E4 E5 E6. destruct (fresh_places s HW) as (F1 & F2 & F3 & F4).
    apply (PL_new s s' (s_next_id s) o HP F1 F2 F3 F4 Eo E1). intros x. unfold mn1, ax. rewrite E2, E3, E4.
    assert (Hc : (cn (olist (s_cur s')) x <= cn (olist (s_cur s)) x)%nat) by (destruct E5 as [-> | ->]; [apply le_n|apply Nat.le_0_l]).
    destruct E6 as [(-> & [-> |[-> | ->]])|(-> & ->)]; cn_norm; lia.
  Qed.

  (* ---- user submissions ---- *)
  Lemma user_event_PL (s : state) p t : WFS s -> PL s -> PL (r_s (user_event cfg s p t)).
  Proof.
    intros HW HP. unfold user_event.
    set (o := new_op p (negb (is_disconnect p)) (if is_disconnect p then None else t)).
    destruct (create_op_spec [] s o HW eq_refl eq_refl) as (_ & C2 & _).
    cbn [create_operation fst snd] in *.
    set (s1 := s <| s_next_id := s_next_id s + 1 |> <| s_ops := s_ops s ++ [(s_next_id s, o)] |>) in *.
    destruct (passes_now cfg s1 p); cbn [negb].
    - destruct (is_disconnect p); cbn [pure r_s]; apply (PL_newop s _ o HW HP); try reflexivity; auto.
    - cbn [r_s]. apply fail_op_PL; [eapply WFS_PB; exact C2|].
      apply (PL_newop s _ o HW HP); try reflexivity; auto.
  Qed.

  (* ---- connection opened ---- *)
  Lemma net_opened_PL (dec_init : dec) (s : state) dl : WFS s -> PL s -> PL (r_s (net_opened dec_init cfg s dl)).
  Proof.
    intros HW HP. unfold net_opened. destruct (negb (pstate_eqb (s_st s) Disconnected)).
    - cbn [r_s]. eapply PL_core; [|exact HP]. reflexivity.
    - cbn [create_operation]. cbn [pure r_s]. eapply (PL_newop s _ _ HW HP); try reflexivity; auto.
  Qed.

  (* ---- write completion ---- *)
  Lemma net_write_completion_PL (s : state) : WFS s -> PL s -> PL (r_s (net_write_completion cfg s)).
  Proof.
    intros HW HP. unfold net_write_completion. destruct (_ || _); [exact HP|].
    destruct (negb (s_pwc s)); [eapply PL_core; [|exact HP]; reflexivity|].
    set (s1 := s <| s_pwc := false |> <| s_pwco := [] |>).
    apply succeed_all_PL.
    - apply (PB_same s); try reflexivity. eapply WFS_PB; exact HW.
    - apply (PL_gen s s1 HP). intros x. right; right. unfold shr, mn1, ax. cbn.
      split; [cn_norm; lia|]. split; [apply le_n|]. split; [apply le_n|]. split; [intros o' Ho'; exists o'; tauto|tauto].
  Qed.

  (* ---- reset ---- *)
  Lemma reset_PL (s : state) : WFS s -> PL (r_s (reset cfg s)).
  Proof.
    intros HW. unfold reset.
    set (s0 := if pstate_eqb (s_st s) Disconnected then s else s <| s_st := Halted |>).
    set (st0 := if pstate_eqb (s_st s) Disconnected then Disconnected else Halted).
    assert (Hst0 : st0 = Disconnected \/ st0 = Halted) by (unfold st0; destruct (pstate_eqb (s_st s) Disconnected); tauto).
    assert (Hinv0 : reset_inv st0 (pure s0)).
    { unfold reset_inv, pure. cbn [r_s r_out]. split; [reflexivity|]. unfold s0, st0.
      destruct (pstate_eqb (s_st s) Disconnected) eqn:E; [|split; [exact HW|reflexivity]].
      split; [exact HW|]. apply pstate_eqb_eq. exact E. }
    pose proof (reset_fold cfg st0 (map fst (s_ops s0)) (pure s0) Hst0 Hinv0) as (I1 & _). cbv zeta.
    match goal with |- context [fold_left ?f ?l ?a] => set (r := fold_left f l a) in * end. clearbody r.
    rewrite I1. cbn [is_panic r_s]. apply PL_closed; cbn; try reflexivity. constructor.
  Qed.

  (* ---- connection closed: OrderRunStrict2.close_DQ, whose premise CP follows from PL ---- *)
  Lemma net_closed_PL (s : state) : WFS s -> PL s -> PL (r_s (net_closed cfg s)).
  Proof.
    intros HW HP. destruct (pstate_eqb (s_st s) Disconnected) eqn:Est.
    - apply pstate_eqb_eq in Est. rewrite (net_closed_disconnected cfg s Est). exact HP.
    - apply pstate_eqb_neq in Est. destruct (net_closed_spec cfg s HW Est) as (_ & _ & _ & (F1 & F2 & F3 & F4 & F5 & F6) & _).
      apply PL_closed; try assumption. exact (close_DQ enc dec ores ires cfg s HW Est (PL_CP s HP)).
  Qed.

  Lemma halt_PL (s : state) (out : outcome unit) : PL s -> PL (halt_on_error s out).
  Proof. intros HP. destruct out; cbn [halt_on_error]; [exact HP| |]; (eapply PL_core; [|exact HP]; reflexivity). Qed.

  (* ---- inbound packet handlers ---- *)
  Ltac hdestruct := repeat match goal with |- context [match ?x with _ => _ end] => destruct x end.
  Ltac hfin HB HP := cbn [h_s hres_of]; first [exact HP | apply succeed_op_PL; [exact HB|exact HP]].

  Lemma handle_suback_PL (s : state) a : PB s -> PL s -> PL (h_s (handle_suback cfg s a)).
  Proof. intros HB HP. unfold handle_suback. hdestruct; hfin HB HP. Qed.

  Lemma handle_unsuback_PL (s : state) a : PB s -> PL s -> PL (h_s (handle_unsuback cfg s a)).
  Proof. intros HB HP. unfold handle_unsuback. hdestruct; hfin HB HP. Qed.

  Lemma handle_puback_PL (s : state) a : PB s -> PL s -> PL (h_s (handle_puback cfg s a)).
  Proof. intros HB HP. unfold handle_puback. hdestruct; hfin HB HP. Qed.

  Lemma handle_pubcomp_PL (s : state) a : PB s -> PL s -> PL (h_s (handle_pubcomp cfg s a)).
  Proof. intros HB HP. unfold handle_pubcomp. hdestruct; hfin HB HP. Qed.

  Lemma handle_pingresp_PL (s : state) : PL s -> PL (h_s (handle_pingresp s)).
  Proof. intros HP. unfold handle_pingresp. hdestruct; cbn [h_s]; first [exact HP|eapply PL_core; [|exact HP]; reflexivity]. Qed.

  Lemma handle_disconnect_PL (s : state) d : PL s -> PL (h_s (handle_disconnect cfg s d)).
  Proof. intros HP. unfold handle_disconnect. hdestruct; exact HP. Qed.

  Lemma handle_publish_PL (s : state) pb : WFS s -> PL s -> PL (h_s (handle_publish s pb)).
  Proof.
    intros HW HP. unfold handle_publish. destruct (pre_connack s); [exact HP|]. destruct (pub_qos pb =? 0); [exact HP|].
    destruct (pub_qos pb =? 1).
    - cbn [create_operation]. cbn [h_s]. eapply (PL_newop s _ _ HW HP); try reflexivity; auto 6.
    - destruct (mem (pub_pid pb) (s_q2in s)); cbn [create_operation]; cbn [h_s]; eapply (PL_newop s _ _ HW HP); try reflexivity; auto 6.
  Qed.

  Lemma handle_pubrel_PL (s : state) a : WFS s -> PL s -> PL (h_s (handle_pubrel s a)).
  Proof.
    intros HW HP. unfold handle_pubrel. destruct (pre_connack s); [exact HP|].
    cbn [create_operation]. cbn [h_s]. eapply (PL_newop s _ _ HW HP); try reflexivity; auto 6.
  Qed.

  (* a PUBREC: the pending QoS 2 publish becomes a PUBREL carrier and (also) enters the high-priority queue *)
  Lemma handle_pubrec_PL (s : state) a : PB s -> PL s -> PL (h_s (handle_pubrec cfg s a)).
  Proof.
    intros HB HP. unfold handle_pubrec. destruct (pre_connack s); [exact HP|].
    destruct (lookup (ack_pid a) (s_ppub s)) as [id|] eqn:El; [|exact HP].
    destruct (lookup id (s_ops s)) as [o|] eqn:Ho; [|exact HP].
    destruct (op_packet o) as [c|c|pb|a1|a1|a1|a1|sb|a1|un|a1| | |d|a1] eqn:Ep; try exact HP.
    destruct (pub_qos pb =? 2) eqn:Eq; [|exact HP].
    destruct (128 <=? ack_rc a); [cbn [h_s hres_of]; apply succeed_op_PL; assumption|].
    cbn [h_s]. apply lookup_In in El.
    apply (PL_gen s _ HP). intros x. destruct (N.eq_dec x id) as [->|Hne].
    - right; left. unfold carr, mn1. cbn. split; [apply le_n|]. split; [apply le_n|]. split; [eapply In_snd; exact El|].
      intros o' Ho'. unfold getop in Ho'. cbn in Ho'. rewrite (lookup_update_eq _ _ _ _ Ho) in Ho'. inversion Ho'; subst o'.
      exists pb. cbn. split; [exact Ep|]. split; [lia|discriminate].
    - right; right. unfold shr, mn1, ax. cbn. split; [apply le_n|]. split; [apply le_n|].
      split; [cn_norm; rewrite (cn_one id x Hne); lia|]. split; [|tauto].
      intros o' Ho'. exists o'. split; [|tauto]. unfold getop in *. cbn in Ho'. rewrite lookup_update_neq in Ho'; [exact Ho'|exact Hne].
  Qed.

  (* ---- the session step: no publish is pending, ids only lose places ---- *)
  Definition nsh (s s' : state) : Prop :=
    (forall x, (cn (mn1 s') x <= cn (mn1 s) x)%nat) /\
    (forall x, (cn (map snd (s_ppub s')) x <= cn (map snd (s_ppub s)) x)%nat) /\
    (forall x, (cn (ax s') x <= cn (ax s) x)%nat) /\ (forall x, getop s' x <> None -> getop s x <> None).

  Lemma nsh_refl s : nsh s s.
  Proof. unfold nsh. repeat split; auto. Qed.

  Lemma nsh_trans s1 s2 s3 : nsh s1 s2 -> nsh s2 s3 -> nsh s1 s3.
  Proof.
    intros (A1 & A2 & A3 & A4) (B1 & B2 & B3 & B4). unfold nsh. repeat split; auto.
    - intros x. specialize (A1 x). specialize (B1 x). lia.
    - intros x. specialize (A2 x). specialize (B2 x). lia.
    - intros x. specialize (A3 x). specialize (B3 x). lia.
  Qed.

  Lemma getop_keys (s : state) x : getop s x <> None <-> In x (keys (s_ops s)).
  Proof.
    unfold getop. pose proof (lookup_none_not_in x (s_ops s)) as H. destruct (in_dec N.eq_dec x (keys (s_ops s))) as [I|NI]; [|tauto].
    split; [tauto|]. intros _ Hn. apply H in Hn. contradiction.
  Qed.

  Lemma nsh_fields (s s' : state) :
    pv s' = pv s -> s_ppub s' = s_ppub s -> s_pnon s' = s_pnon s -> keys (s_ops s') = keys (s_ops s) -> nsh s s'.
  Proof.
    intros E1 E2 E3 E4. destruct (pv_fields _ _ E1) as (F1 & F2 & F3 & F4 & F5). unfold nsh, mn1, ax.
    rewrite F1, F2, F3, F4, F5, E2, E3. repeat split; auto. intros x. rewrite !getop_keys, E4. tauto.
  Qed.

  Lemma PL_nsh (s s' : state) : nsh s s' -> (forall x, cn (map snd (s_ppub s)) x = 0%nat) -> PL s -> PL s'.
  Proof.
    intros (A1 & A2 & A3 & A4) P0 HP. apply (PL_nopub s s' HP P0); auto. intros x. specialize (A2 x). rewrite P0 in A2. lia.
  Qed.

  Lemma release_nsh (s s' : state) id o : release cfg s id o = Ok s' -> nsh s s'.
  Proof.
    intros Hr. destruct (release_shape cfg _ _ _ _ Hr) as (E1 & E2 & E3 & E4 & E5).
    destruct (pv_fields _ _ E1) as (F1 & F2 & F3 & F4 & F5). unfold nsh, mn1, ax. rewrite F1, F2, F3, F4, F5, E3, E4.
    split; [intros x; rewrite !cn_app; pose proof (cn_vals_rmo (op_pid o) (s_pnon s) x); lia|]. split; [intros x; apply cn_vals_rmo|].
    split; [auto|]. intros x. unfold getop. rewrite E2. destruct (lookup x (remove id (s_ops s))) as [o'|] eqn:E; [|congruence].
    apply lookup_remove_inv in E. intros _. destruct E as [E _]. congruence.
  Qed.

  Lemma nsh_core (s s' : state) : core_of s' = core_of s -> nsh s s'.
  Proof. intros H. unfold core_of in H. inversion H. apply nsh_fields; unfold pv; congruence. Qed.

  Lemma fail_op_nsh (s : state) id e : nsh s (r_s (fail_op cfg s id e)).
  Proof.
    unfold fail_op. destruct (lookup id (s_ops s)) as [o|]; [|apply nsh_refl].
    destruct (release cfg s id o) as [s1|k|site] eqn:Er; [|apply nsh_refl|apply nsh_refl].
    apply release_nsh in Er. pose proof (disconnect_completion_core s1 o) as Hd.
    destruct (disconnect_completion s1 o) as [s2 r]. cbn [fst] in Hd.
    assert (H : nsh s s2) by (eapply nsh_trans; [exact Er|apply nsh_core; exact Hd]).
    destruct r; [destruct (op_user o)|..]; exact H.
  Qed.

  Lemma fail_all_nsh ids : forall (s : state) e, nsh s (r_s (fail_all cfg s ids e)).
  Proof.
    induction ids as [|a r IH]; intros s e; cbn [fail_all]; [apply nsh_refl|].
    pose proof (fail_op_nsh s a e) as H1. destruct (is_panic (r_out (fail_op cfg s a e))); [exact H1|].
    specialize (IH (r_s (fail_op cfg s a e)) e).
    destruct (is_panic (r_out (fail_all cfg (r_s (fail_op cfg s a e)) r e))); cbn [r_s]; eapply nsh_trans; eauto.
  Qed.

  Lemma unbind_nsh (s : state) id : nsh s (unbind s id).
  Proof.
    apply nsh_fields; unfold unbind; destruct (lookup id (s_ops s)) as [o|]; try reflexivity;
      (destruct (op_pid o); [destruct (with_pid 0 (op_packet o))|]); cbn; rewrite ?keys_update; reflexivity.
  Qed.

  Lemma fold_unbind_nsh ids : forall s : state, nsh s (fold_left unbind ids s).
  Proof.
    induction ids as [|a r IH]; intros s; cbn [fold_left]; [apply nsh_refl|].
    eapply nsh_trans; [apply unbind_nsh|apply IH].
  Qed.

  Lemma sess_tail_s (s2 : state) d out :
    r_s (sess_tail s2 d out) = s2 <| s_rq := Model.sort (s_rq s2) |> <| s_uq := Model.sort (s_uq s2) |>.
  Proof. unfold sess_tail. cbv zeta. repeat match goal with |- context [if ?b then _ else _] => destruct b end; reflexivity. Qed.

  Lemma sess_head_nsh (s : state) sp : nsh s (r_s (sess_head cfg s sp)).
  Proof.
    unfold sess_head. destruct sp; [apply nsh_refl|].
    pose proof (fun x => partition_kept_cn enc dec ores ires cfg s (s_rq s) x) as Hk.
    destruct (partition_policy cfg s (s_rq s)) as [kept rejected]. cbn [fst] in Hk.
    match goal with |- context [fail_all cfg ?sx ?l ?e] => pose proof (fail_all_nsh l sx e) as Hf; set (rf := fail_all cfg sx l e) in * end.
    assert (H1 : nsh s (r_s rf)).
    { eapply nsh_trans; [|exact Hf]. unfold nsh. split; [intros x; unfold mn1; cbn; specialize (Hk x); rewrite !cn_app, ?cn_nil; lia|].
      split; [intros x; apply le_n|]. split; [intros x; apply le_n|]. intros x. rewrite !getop_keys. cbn.
      match goal with |- context [keys (fold_left ?f ?l ?o)] => change (fold_left f l o) with (upd_all (set_dup false) l o) end.
      rewrite keys_upd_all. tauto. }
    clearbody rf. destruct (is_panic (r_out rf)); [exact H1|]. cbn [r_s].
    eapply nsh_trans; [exact H1|]. apply nsh_fields; reflexivity.
  Qed.

  Lemma apply_session_nsh (s : state) sp : nsh s (r_s (apply_session cfg s sp)).
  Proof.
    rewrite apply_session_unfold. cbv zeta. pose proof (sess_head_nsh s sp) as H1. set (r1 := sess_head cfg s sp) in *. clearbody r1.
    destruct (is_panic (r_out r1)); [exact H1|]. rewrite sess_tail_s.
    eapply nsh_trans; [exact H1|]. set (s2 := fold_left unbind (s_uq (r_s r1)) (r_s r1)).
    apply (nsh_trans _ s2); [apply fold_unbind_nsh|]. unfold nsh, mn1, ax. cbn.
    split; [intros x; rewrite !cn_app, !cn_sort; lia|]. repeat split; auto.
  Qed.

  Lemma apply_session_PL (s : state) sp : s_ppub s = [] -> PL s -> PL (r_s (apply_session cfg s sp)).
  Proof. intros E. apply PL_nsh; [apply apply_session_nsh|]. intros x. rewrite E. reflexivity. Qed.
End Events.
