(* Corollaries of the well-formedness invariant in the form exported by Properties/C06.v and
   Properties/C11.v: statements over event histories from the initial state, mentioning only
   Engine/Model.v notions (plus ok_event / ok_cfg / comps_ok of WFDefs.v). *)
From GM Require Import Base.Prelude Base.Outcome Codec.Packets Codec.Settings Engine.Model
  EngineProofs.AssocLemmas EngineProofs.PacketIds EngineProofs.WFLemmas EngineProofs.WFDefs EngineProofs.WFCore
  EngineProofs.WFComplete EngineProofs.WFClose EngineProofs.WFClose2 EngineProofs.WFStep EngineProofs.WFTrack.
From Coq Require Import Sorting.Sorted.
From RecordUpdate Require Import RecordSet.
Import RecordSetNotations.
Open Scope N_scope.

(* the four component types are implicit in the engine functions, locally to this file *)
#[local] Arguments init {enc dec} _ {ores ires} _ _.
#[local] Arguments release {enc dec ores ires} _ _ _ _.
#[local] Arguments disconnect_completion {enc dec ores ires} _ _.
#[local] Arguments fail_op {enc dec ores ires} _ _ _ _.
#[local] Arguments ping_extension {enc dec ores ires} _ _.
#[local] Arguments succeed_op {enc dec ores ires} _ _ _ _.
#[local] Arguments fail_all {enc dec ores ires} _ _ _ _.
#[local] Arguments succeed_all {enc dec ores ires} _ _ _.
#[local] Arguments andthen {enc dec ores ires} _ _.
#[local] Arguments try_ {enc dec ores ires} _ _.
#[local] Arguments pure {enc dec ores ires} _.
#[local] Arguments create_operation {enc dec ores ires} _ _.
#[local] Arguments passes_now {enc dec ores ires} _ _ _.
#[local] Arguments user_event {enc dec ores ires} _ _ _ _.
#[local] Arguments create_connect {enc dec ores ires} _ _.
#[local] Arguments net_opened {enc dec} _ {ores ires} _ _ _.
#[local] Arguments op_exists {enc dec ores ires} _ _.
#[local] Arguments op_passes {enc dec ores ires} _ _ _.
#[local] Arguments partition_policy {enc dec ores ires} _ _ _.
#[local] Arguments closed_current {enc dec ores ires} _ _.
#[local] Arguments slow_start_init {enc dec ores ires} _ _.
#[local] Arguments update_retries {enc dec ores ires} _ _.
#[local] Arguments fail_exceeding {enc dec ores ires} _ _.
#[local] Arguments has_pubrel {enc dec ores ires} _ _.
#[local] Arguments net_closed_raw {enc dec ores ires} _ _.
#[local] Arguments net_closed {enc dec ores ires} _ _.
#[local] Arguments net_write_completion {enc dec ores ires} _ _.
#[local] Arguments acquire_free_pid {enc dec ores ires} _ _.
#[local] Arguments acquire_pid_for {enc dec ores ires} _ _.
#[local] Arguments unbind {enc dec ores ires} _ _.
#[local] Arguments passes_receive_max {enc dec ores ires} _ _.
#[local] Arguments throttled {enc dec ores ires} _ _.
#[local] Arguments has_pending_ack {enc dec ores ires} _.
#[local] Arguments dequeue {enc dec ores ires} _ _ _.
#[local] Arguments fully_written {enc dec ores ires} _ _.
#[local] Arguments service_keep_alive {enc dec ores ires} _ _ _.
#[local] Arguments process_ack_timeouts {enc dec ores ires} _ _ _.
#[local] Arguments halt_on_error {enc dec ores ires} _ _.
#[local] Arguments next_service_time {enc dec ores ires} _ _ _.
#[local] Arguments build_settings {enc dec ores ires} _ _ _.
#[local] Arguments apply_session {enc dec ores ires} _ _ _.
#[local] Arguments hres_of {enc dec ores ires} _ _.
#[local] Arguments pre_connack {enc dec ores ires} _.
#[local] Arguments sum_ss {enc dec ores ires} _.
#[local] Arguments handle_pingresp {enc dec ores ires} _.
#[local] Arguments handle_suback {enc dec ores ires} _ _ _.
#[local] Arguments handle_unsuback {enc dec ores ires} _ _ _.
#[local] Arguments publish_qos_of {enc dec ores ires} _ _.
#[local] Arguments handle_puback {enc dec ores ires} _ _ _.
#[local] Arguments handle_pubrec {enc dec ores ires} _ _ _.
#[local] Arguments handle_pubrel {enc dec ores ires} _ _.
#[local] Arguments handle_pubcomp {enc dec ores ires} _ _ _.
#[local] Arguments handle_publish {enc dec ores ires} _ _.
#[local] Arguments handle_disconnect {enc dec ores ires} _ _ _.
#[local] Arguments is_connect_op {enc dec ores ires} _ _.
#[local] Arguments connect_in_queue {enc dec ores ires} _.
#[local] Arguments reset {enc dec ores ires} _ _.
#[local] Arguments out_of_res {enc dec ores ires} _ _.
#[local] Arguments nst_queue {enc dec ores ires} _ _ _ _.
#[local] Arguments earliest_tmo {enc dec ores ires} _.
#[local] Arguments SeatStop {enc dec ores ires} _.
#[local] Arguments SeatContinue {enc dec ores ires} _ _.
#[local] Arguments SeatEncode {enc dec ores ires} _.


Section Props.
  Variable enc : Type.
  Variable enc_reset : version -> packet -> resolution -> outcome enc.
  Variable enc_call : enc -> N -> N -> outcome (bytes * enc).
  Variable enc_done : enc -> bool.
  Variable dec : Type.
  Variable dec_init : dec.
  Variable dec_feed : version -> N -> dec -> bytes -> dec * list packet * outcome unit.
  Variable ores : Type.
  Variable ores_reset : ores -> N -> ores.
  Variable ores_resolve : ores -> option N -> bytes -> outcome (ores * resolution).
  Variable ires : Type.
  Variable ires_reset : ires -> ires.
  Variable ires_resolve : ires -> option N -> bytes -> outcome (ires * bytes).
  Variable v_out : option settings -> connect_opts -> resolution -> packet -> outcome unit.
  Variable v_in : option settings -> packet -> outcome unit.
  Variable cfg : config.
  Variable HC : comps_ok enc enc_reset enc_call dec dec_init dec_feed ores ores_reset ores_resolve ires ires_reset ires_resolve v_out v_in.
  Hypothesis Hcfg : ok_cfg cfg.

  Notation state := (state enc dec ores ires).
  Notation step := (step enc enc_reset enc_call enc_done dec dec_init dec_feed ores ores_reset ores_resolve
                         ires ires_reset ires_resolve v_out v_in cfg).
  Notation run := (run enc enc_reset enc_call enc_done dec dec_init dec_feed ores ores_reset ores_resolve
                       ires ires_reset ires_resolve v_out v_in cfg).
  Notation init := (init (enc:=enc) dec_init).

  Ltac splits := repeat match goal with |- _ /\ _ => split end.

  (* every reachable state is well formed *)
  Theorem reachable_wf (o : ores) (i : ires) h :
    ores_inv HC o -> ires_inv HC i -> Forall ok_event h ->
    WF cfg (fst (run (init o i) h)) /\ cinv HC (fst (run (init o i) h)).
  Proof.
    intros Ho Hi Hall. exact (WF_run _ _ _ _ _ _ _ _ _ _ _ _ _ _ _ _ HC Hcfg h _ (WF_init _ _ _ _ _ _ _ _ _ _ _ _ _ _ _ HC o i Ho Hi) Hall).
  Qed.

  (* ---- C11 ---- *)
  Theorem no_panic (o : ores) (i : ires) h :
    ores_inv HC o -> ires_inv HC i ->
    Forall ok_event h -> forall out, In out (snd (run (init o i) h)) -> forall site, o_res out <> Panic site.
  Proof. intros Ho Hi Hall. exact (run_no_panic _ _ _ _ _ _ _ _ _ _ _ _ _ _ _ _ HC Hcfg h _ (WF_init _ _ _ _ _ _ _ _ _ _ _ _ _ _ _ HC o i Ho Hi) Hall). Qed.

  Definition halting_event (e : event) : bool :=
    match e with
    | EvOpen _ _ | EvClose _ | EvData _ _ | EvWriteComplete _ | EvService _ _ _ => true
    | _ => false
    end.

  (* an error outcome of a network / service event halts the engine (no hypothesis needed) *)
  Theorem error_halts (s : state) e k :
    halting_event e = true -> o_res (snd (step s e)) = Err k -> s_st (fst (step s e)) = Halted.
  Proof.
    destruct e; cbn [halting_event]; try discriminate; intros _; cbn [Model.step]; unfold out_of_res; cbn [fst snd o_res].
    - intros E. rewrite E. reflexivity.
    - intros E. rewrite E. reflexivity.
    - intros E. rewrite E. reflexivity.
    - intros E. rewrite E. reflexivity.
    - unfold Model.service. cbn [sr_s sr_out]. intros E. rewrite E. reflexivity.
  Qed.

  (* closing a connection of a reachable engine is clean *)
  Theorem close_clean (o : ores) (i : ires) h now :
    ores_inv HC o -> ires_inv HC i ->
    Forall ok_event h -> s_st (fst (run (init o i) h)) <> Disconnected ->
    o_res (snd (step (fst (run (init o i) h)) (EvClose now))) = Ok tt /\
    s_st (fst (step (fst (run (init o i) h)) (EvClose now))) = Disconnected.
  Proof.
    intros Ho Hi Hall Hst. destruct (reachable_wf o i h Ho Hi Hall) as [[HW HP] _].
    set (s := fst (run (init o i) h)) in *. cbn [Model.step]. unfold out_of_res. cbn [fst snd o_res].
    destruct (net_closed_spec cfg s HW Hst) as (E & W1 & S1 & _). rewrite E. cbn [halt_on_error]. split; [reflexivity|exact S1].
  Qed.

  Definition io_event (e : event) : bool :=
    match e with EvData _ _ | EvWriteComplete _ | EvService _ _ _ => true | _ => false end.

  (* a halted engine refuses all traffic: error, no bytes, no completions, stays halted *)
  Theorem halted_rejects (s : state) e :
    s_st s = Halted -> io_event e = true ->
    o_res (snd (step s e)) = Err EInternalStateError /\ o_bytes (snd (step s e)) = [] /\ o_done (snd (step s e)) = [] /\
    o_events (snd (step s e)) = [] /\ s_st (fst (step s e)) = Halted.
  Proof.
    intros Hst. destruct e; cbn [io_event]; try discriminate; intros _; cbn [Model.step].
    - unfold Model.net_data. rewrite Hst. cbn. rewrite ?Hst. splits; reflexivity.
    - unfold net_write_completion. rewrite Hst. cbn. rewrite ?Hst. splits; reflexivity.
    - unfold Model.service. rewrite Hst. cbn. splits; reflexivity.
  Qed.

  (* ---- C06 ---- *)
  Theorem nonzero_unique (o0 : ores) (i0 : ires) h :
    ores_inv HC o0 -> ires_inv HC i0 -> Forall ok_event h ->
    forall i o p, lookup i (s_ops (fst (run (init o0 i0) h))) = Some o -> op_pid o = Some p ->
      1 <= p <= 65535 /\ lookup p (s_alloc (fst (run (init o0 i0) h))) = Some i /\
      forall j o', lookup j (s_ops (fst (run (init o0 i0) h))) = Some o' -> op_pid o' = Some p -> j = i.
  Proof.
    intros Ho0 Hi0 Hall i o p Hi Hp. destruct (reachable_wf o0 i0 h Ho0 Hi0 Hall) as [[HW _] _].
    set (s := fst (run (init o0 i0) h)) in *.
    destruct (w_bound _ _ HW i o p Hi Hp) as (B1 & _). split; [|split; [exact B1|]].
    - destruct (w_pids _ _ HW) as (_ & Hr & _). rewrite Forall_forall in Hr. apply Hr. eapply lookup_in_keys. exact B1.
    - intros j o' Hj Hp'. eapply (wfc_unique [] (core_of s)); eauto.
  Qed.

  Theorem no_leak (o0 : ores) (i0 : ires) h :
    ores_inv HC o0 -> ires_inv HC i0 -> Forall ok_event h ->
    (forall p i, lookup p (s_alloc (fst (run (init o0 i0) h))) = Some i ->
       exists o, lookup i (s_ops (fst (run (init o0 i0) h))) = Some o /\ op_pid o = Some p) /\
    (s_ops (fst (run (init o0 i0) h)) = [] -> s_alloc (fst (run (init o0 i0) h)) = []).
  Proof.
    intros Ho0 Hi0 Hall. destruct (reachable_wf o0 i0 h Ho0 Hi0 Hall) as [[HW _] _].
    set (s := fst (run (init o0 i0) h)) in *.
    assert (H1 : forall p i, lookup p (s_alloc s) = Some i -> exists o, lookup i (s_ops s) = Some o /\ op_pid o = Some p).
    { intros p i Hl. exact (w_alloc _ _ HW p i Hl). }
    split; [exact H1|]. intros Hops. destruct (s_alloc s) as [|[p i] r] eqn:Ea; [reflexivity|].
    destruct (H1 p i) as (o & Ho & _); [cbn; rewrite N.eqb_refl; reflexivity|]. rewrite Hops in Ho. discriminate.
  Qed.

  (* operations that survive a connection close keep their packet id (it is reused by the retransmission;
     only unbind, at a CONNACK, clears it) *)
  Theorem retransmission_same_id (o0 : ores) (i0 : ires) h now :
    ores_inv HC o0 -> ires_inv HC i0 -> Forall ok_event h -> s_st (fst (run (init o0 i0) h)) <> Disconnected ->
    forall i o', lookup i (s_ops (fst (step (fst (run (init o0 i0) h)) (EvClose now)))) = Some o' ->
      exists o, lookup i (s_ops (fst (run (init o0 i0) h))) = Some o /\ op_pid o' = op_pid o.
  Proof.
    intros Ho0 Hi0 Hall Hst. destruct (reachable_wf o0 i0 h Ho0 Hi0 Hall) as [[HW HP] _].
    set (s := fst (run (init o0 i0) h)) in *. cbn [Model.step]. unfold out_of_res. cbn [fst snd o_res].
    destruct (net_closed_spec cfg s HW Hst) as (E & W1 & S1 & _ & Hpid). rewrite E. cbn [halt_on_error].
    exact (proj1 (proj1 Hpid)).
  Qed.
  (* ---- no operation is silently dropped (needs: submitted PUBLISH packets are not duplicates) ---- *)
  Theorem no_silent_drop (o0 : ores) (i0 : ires) h :
    ores_inv HC o0 -> ires_inv HC i0 -> Forall ok_event h -> Forall ok_submit h ->
    forall id op, lookup id (s_ops (fst (run (init o0 i0) h))) = Some op ->
      In id (s_uq (fst (run (init o0 i0) h))) \/ In id (s_rq (fst (run (init o0 i0) h))) \/
      In id (s_hq (fst (run (init o0 i0) h))) \/ s_cur (fst (run (init o0 i0) h)) = Some id \/
      In id (s_pwco (fst (run (init o0 i0) h))) \/
      In id (map snd (s_ppub (fst (run (init o0 i0) h)))) \/ In id (map snd (s_pnon (fst (run (init o0 i0) h)))).
  Proof.
    intros Ho Hi Hall Hsub id op Hop.
    pose proof (WF_run _ _ _ enc_done _ _ _ _ _ _ _ _ _ _ _ _ HC Hcfg h _ (WF_init _ _ _ _ _ _ _ _ _ _ _ _ _ _ _ HC o0 i0 Ho Hi) Hall) as HWX.
    pose proof (run_tr _ _ _ enc_done _ _ _ _ _ _ _ _ _ _ _ _ HC Hcfg h _ (WF_init _ _ _ _ _ _ _ _ _ _ _ _ _ _ _ HC o0 i0 Ho Hi)
                  (TR_init enc dec dec_init ores ires o0 i0) Hall Hsub) as HT.
    destruct HWX as [[HW _] _].
    destruct (all_tracked _ HW HT id op Hop) as [Q|Q]; [|tauto]. unfold inQ in Q. tauto.
  Qed.
End Props.
