(* C07 — handshake discipline, as theorems about the engine model (each about ANY state / input). *)
From GM Require Import Base.Prelude Base.Outcome Codec.Packets Codec.Settings Engine.Model
  EngineProofs.AssocLemmas EngineProofs.Order.
From RecordUpdate Require Import RecordSet.
Import RecordSetNotations.
Open Scope N_scope.

Section Handshake.
  Variable enc : Type.
  Variable enc_reset : version -> packet -> resolution -> outcome enc.
  Variable enc_call : enc -> N -> N -> outcome (bytes * enc).
  Variable enc_done : enc -> bool.
  Variable dec : Type.
  Variable dec_init : dec.
  Variable dec_feed : version -> N -> dec -> bytes -> dec * list packet * outcome unit.
  Variable ores : Type.
  Variable ores_reset : ores -> N -> ores.
  Variable ores_resolve : ores -> option N -> bytes -> outcome (ores * resolution).
  Variable ires : Type.
  Variable ires_reset : ires -> ires.
  Variable ires_resolve : ires -> option N -> bytes -> outcome (ires * bytes).
  Variable v_out : option settings -> connect_opts -> resolution -> packet -> outcome unit.
  Variable v_in : option settings -> packet -> outcome unit.
  Variable cfg : config.

  Notation state := (state enc dec ores ires).
  Notation handle_connack := (handle_connack enc dec ores ores_reset ires ires_reset v_in cfg).
  Notation net_data := (net_data enc dec dec_feed ores ores_reset ires ires_reset ires_resolve v_in cfg).
  Notation net_opened := (net_opened enc dec dec_init ores ires cfg).
  Notation service := (service enc enc_reset enc_call enc_done dec ores ores_reset ores_resolve ires v_out cfg).
  Notation dequeue := (dequeue enc dec ores ires cfg).
  Notation build_settings := (build_settings enc dec ores ires cfg).
  Notation create_connect := (create_connect enc dec ores ires cfg).
  Notation fully_written := (fully_written enc dec ores ires).

  (* a CONNACK is only acceptable while one is awaited: repeated / unsolicited CONNACKs are errors *)
  Theorem connack_wrong_state (s : state) now c :
    s_st s <> PendingConnack -> h_out (handle_connack s now c) = Err EProtocolError /\ h_s (handle_connack s now c) = s.
  Proof.
    intros H. unfold Model.handle_connack. destruct (s_st s); cbn; try (split; reflexivity). contradiction.
  Qed.

  (* a failing CONNACK is surfaced and yields a connection-establishment error; nothing else changes *)
  Theorem connack_failing (s : state) now c :
    s_st s = PendingConnack -> ca_rc c <> 0 ->
    h_out (handle_connack s now c) = Err EConnectionEstablishmentFailure /\
    h_s (handle_connack s now c) = s /\ h_ev (handle_connack s now c) = [Connack c].
  Proof.
    intros Hs Hrc. unfold Model.handle_connack. rewrite Hs. cbn [pstate_eqb negb].
    destruct (ca_rc c =? 0) eqn:E; [lia|]. cbn. repeat split; reflexivity.
  Qed.

  (* data arriving before the CONNECT has been flushed is a protocol error: the decoder is not even run *)
  Theorem data_before_connect_flushed (s : state) now d :
    s_st s = PendingConnack -> connect_in_queue enc dec ores ires s = true ->
    h_out (net_data s now d) = Err EProtocolError /\ s_st (h_s (net_data s now d)) = Halted /\
    h_done (net_data s now d) = [] /\ h_ev (net_data s now d) = [].
  Proof.
    intros Hs Hc. unfold Model.net_data. rewrite Hs, Hc. cbn. repeat split; reflexivity.
  Qed.

  (* no CONNACK by the establishment deadline: connection error, nothing emitted *)
  Theorem connack_deadline (s : state) now cap fill t :
    s_st s = PendingConnack -> s_connack_to s = Some t -> t <= now ->
    sr_out (service s now cap fill) = Err EConnectionEstablishmentFailure /\
    sr_bytes (service s now cap fill) = [] /\ s_st (sr_s (service s now cap fill)) = Halted.
  Proof.
    intros Hs Ht Hle. unfold Model.service. rewrite Hs, Ht.
    destruct (t <=? now) eqn:E; [|lia]. cbn. repeat split; reflexivity.
  Qed.

  (* while the CONNACK is awaited only the high-priority queue (which holds the CONNECT) is served *)
  Theorem pending_connack_high_priority_only (s s' : state) id :
    dequeue s false = (s', Some id) -> exists r, s_hq s = id :: r.
  Proof.
    intros H. destruct (dequeue_priority enc dec ores ires cfg s s' false id H) as [_ [(r & Hr & _)|[(Hm & _)|(Hm & _)]]];
      [exists r; exact Hr|discriminate|discriminate].
  Qed.

  (* opening a connection queues exactly one CONNECT at the very front and arms the deadline *)
  Theorem opened_state (s : state) deadline :
    s_st s = Disconnected ->
    r_out (net_opened s deadline) = Ok tt /\ s_st (r_s (net_opened s deadline)) = PendingConnack /\
    s_hq (r_s (net_opened s deadline)) = s_next_id s :: s_hq s /\
    s_connack_to (r_s (net_opened s deadline)) = Some deadline /\ s_cur (r_s (net_opened s deadline)) = None /\
    s_pwc (r_s (net_opened s deadline)) = false.
  Proof.
    intros Hs. unfold Model.net_opened. rewrite Hs. cbn. repeat split; reflexivity.
  Qed.

  Theorem opened_wrong_state (s : state) deadline :
    s_st s <> Disconnected -> r_out (net_opened s deadline) = Err EInternalStateError.
  Proof.
    intros Hs. unfold Model.net_opened. destruct (s_st s); cbn; try reflexivity. contradiction.
  Qed.

  (* clean start: PostSuccess (0) -> not connected before; Always (1) -> false; Never (2) -> true *)
  Theorem clean_start_table (o : connect_opts) cb :
    con_clean_start (to_connect_packet o cb) =
      (if co_rejoin o =? 0 then negb cb else if co_rejoin o =? 1 then false else true).
  Proof. reflexivity. Qed.

  (* the CONNECT reflects the configured options field by field *)
  Theorem connect_reflects_options (o : connect_opts) cb :
    let c := to_connect_packet o cb in
    con_keep_alive c = match co_keep_alive o with Some k => k | None => 0 end /\
    con_client_id c = co_client_id o /\ con_username c = co_username o /\ con_password c = co_password o /\
    con_sei c = co_sei o /\ con_rri c = co_rri o /\ con_rpi c = co_rpi o /\ con_receive_max c = co_receive_max o /\
    con_tam c = co_tam o /\ con_max_packet c = co_max_packet o /\ con_auth_method c = None /\ con_auth_data c = None /\
    con_will_delay c = co_will_delay o /\ con_will c = co_will o /\ con_up c = co_up o.
  Proof. cbn. repeat split; reflexivity. Qed.

  (* a server-assigned client identifier is reused when the options have none *)
  Theorem connect_client_id (s : state) :
    match create_connect s with
    | Connect c =>
        con_client_id c = match co_client_id (cf_connect cfg), s_settings s with
                          | Some i, _ => Some i
                          | None, Some st => Some (st_client_id st)
                          | None, None => None
                          end
    | _ => False
    end.
  Proof.
    unfold Model.create_connect, to_connect_packet. cbn [con_client_id].
    destruct (co_client_id (cf_connect cfg)) as [i|] eqn:E; cbn [con_client_id]; [reflexivity|].
    destruct (s_settings s); cbn [con_client_id]; reflexivity.
  Qed.

  (* negotiated settings: the CONNACK's value, else the CONNECT's, else the specification default *)
  Theorem settings_negotiated (s : state) (c : connack) :
    let st := build_settings s c in
    let co := cf_connect cfg in
    st_maximum_qos st = match ca_max_qos c with Some x => x | None => 2 end /\
    st_session_expiry_interval st = match ca_sei c with Some x => x | None => match co_sei co with Some y => y | None => 0 end end /\
    st_receive_maximum_from_server st = match ca_receive_max c with Some x => x | None => 65535 end /\
    st_maximum_packet_size_to_server st = match ca_max_packet c with Some x => x | None => 268435455 end /\
    st_topic_alias_maximum_to_server st = match ca_tam c with Some x => x | None => 0 end /\
    st_server_keep_alive st = match ca_server_keep_alive c with Some x => x | None => match co_keep_alive co with Some y => y | None => 0 end end /\
    st_retain_available st = match ca_retain_avail c with Some x => x | None => true end /\
    st_wildcard_subscriptions_available st = match ca_wildcard c with Some x => x | None => true end /\
    st_subscription_identifiers_available st = match ca_subid_avail c with Some x => x | None => true end /\
    st_shared_subscriptions_available st = match ca_shared c with Some x => x | None => true end /\
    st_rejoined_session st = ca_session_present c /\
    st_client_id st = match ca_assigned_id c with
                      | Some i => i
                      | None => match co_client_id co with
                                | Some i => i
                                | None => match s_settings s with Some p => st_client_id p | None => [] end
                                end
                      end.
  Proof. cbn. repeat split; reflexivity. Qed.

  (* once the DISCONNECT is completely written the engine is PendingDisconnect, and in that state a
     service call emits nothing *)
  Theorem disconnect_written (s s' : state) now id o d :
    s_cur s = Some id -> lookup id (s_ops s) = Some o -> op_packet o = Disconnect d ->
    fully_written s now = Ok s' -> s_st s' = PendingDisconnect /\ s_cur s' = None.
  Proof.
    intros Hc Hl Hp. unfold Model.fully_written. rewrite Hc, Hl, Hp.
    destruct (if op_user o then op_timeout o else None) as [t|]; [destruct (IMAX <? now + t)|];
      cbn; intros H; inversion H; subst; cbn; split; reflexivity.
  Qed.

  Theorem pending_disconnect_silent (s : state) now cap fill :
    s_st s = PendingDisconnect -> sr_bytes (service s now cap fill) = [].
  Proof. intros Hs. unfold Model.service. rewrite Hs. reflexivity. Qed.

  Theorem halted_silent (s : state) now cap fill :
    s_st s = Halted ->
    sr_bytes (service s now cap fill) = [] /\ sr_out (service s now cap fill) = Err EInternalStateError /\
    sr_done (service s now cap fill) = [].
  Proof. intros Hs. unfold Model.service. rewrite Hs. cbn. repeat split; reflexivity. Qed.

  Theorem disconnected_silent (s : state) now cap fill :
    s_st s = Disconnected -> sr_bytes (service s now cap fill) = [] /\ sr_s (service s now cap fill) = s.
  Proof. intros Hs. unfold Model.service. rewrite Hs. cbn. split; reflexivity. Qed.
End Handshake.
