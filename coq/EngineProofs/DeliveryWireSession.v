(* C04, run level: the invariant J (DeliveryWireDefs.v) through an accepted CONNACK (the session rules,
   DeliverySession.session_present_keeps / session_absent_restarts) and through a PUBREC that sets the PUBREL slot of
   the operation.  While the CONNACK is awaited no publish is pending and the encoder seat holds only the CONNECT (WFP),
   so the operation is in phase GNot, GInt or GRelInt; with a session it is untouched (an interrupted operation is in
   the resubmit queue, hence not in the user queue: PL), without one it restarts or fails. *)
From GM Require Import Base.Prelude Base.Outcome Codec.Packets Codec.Settings Engine.Model
  EngineProofs.AssocLemmas EngineProofs.WFLemmas EngineProofs.WFDefs EngineProofs.IdsFrame EngineProofs.SvcTimeout
  EngineProofs.InboundSpec EngineProofs.HandshakeRunTrace EngineProofs.AliasRunLog EngineProofs.InboundLoop EngineProofs.WFCore EngineProofs.WFComplete EngineProofs.WFData EngineProofs.WFData2
  EngineProofs.OrderRunStrict2 EngineProofs.PlaceRun EngineProofs.PlaceRunEvents
  EngineProofs.DeliveryBase EngineProofs.DeliverySession EngineProofs.DeliveryRun EngineProofs.DeliveryWireDefs EngineProofs.DeliveryWireFrames EngineProofs.DeliveryWireEvents.
From RecordUpdate Require Import RecordSet.
Import RecordSetNotations.
Open Scope N_scope.

(* the four component types are implicit in the engine functions, locally to this file *)
#[local] Arguments init {enc dec} _ {ores ires} _ _.
#[local] Arguments release {enc dec ores ires} _ _ _ _.
#[local] Arguments disconnect_completion {enc dec ores ires} _ _.
#[local] Arguments fail_op {enc dec ores ires} _ _ _ _.
#[local] Arguments ping_extension {enc dec ores ires} _ _.
#[local] Arguments succeed_op {enc dec ores ires} _ _ _ _.
#[local] Arguments fail_all {enc dec ores ires} _ _ _ _.
#[local] Arguments succeed_all {enc dec ores ires} _ _ _.
#[local] Arguments andthen {enc dec ores ires} _ _.
#[local] Arguments try_ {enc dec ores ires} _ _.
#[local] Arguments pure {enc dec ores ires} _.
#[local] Arguments create_operation {enc dec ores ires} _ _.
#[local] Arguments passes_now {enc dec ores ires} _ _ _.
#[local] Arguments user_event {enc dec ores ires} _ _ _ _.
#[local] Arguments create_connect {enc dec ores ires} _ _.
#[local] Arguments net_opened {enc dec} _ {ores ires} _ _ _.
#[local] Arguments op_exists {enc dec ores ires} _ _.
#[local] Arguments op_passes {enc dec ores ires} _ _ _.
#[local] Arguments partition_policy {enc dec ores ires} _ _ _.
#[local] Arguments closed_current {enc dec ores ires} _ _.
#[local] Arguments slow_start_init {enc dec ores ires} _ _.
#[local] Arguments update_retries {enc dec ores ires} _ _.
#[local] Arguments fail_exceeding {enc dec ores ires} _ _.
#[local] Arguments has_pubrel {enc dec ores ires} _ _.
#[local] Arguments net_closed_raw {enc dec ores ires} _ _.
#[local] Arguments net_closed {enc dec ores ires} _ _.
#[local] Arguments net_write_completion {enc dec ores ires} _ _.
#[local] Arguments acquire_free_pid {enc dec ores ires} _ _.
#[local] Arguments acquire_pid_for {enc dec ores ires} _ _.
#[local] Arguments unbind {enc dec ores ires} _ _.
#[local] Arguments passes_receive_max {enc dec ores ires} _ _.
#[local] Arguments throttled {enc dec ores ires} _ _.
#[local] Arguments has_pending_ack {enc dec ores ires} _.
#[local] Arguments dequeue {enc dec ores ires} _ _ _.
#[local] Arguments fully_written {enc dec ores ires} _ _.
#[local] Arguments service_keep_alive {enc dec ores ires} _ _ _.
#[local] Arguments process_ack_timeouts {enc dec ores ires} _ _ _.
#[local] Arguments halt_on_error {enc dec ores ires} _ _.
#[local] Arguments next_service_time {enc dec ores ires} _ _ _.
#[local] Arguments build_settings {enc dec ores ires} _ _ _.
#[local] Arguments apply_session {enc dec ores ires} _ _ _.
#[local] Arguments hres_of {enc dec ores ires} _ _.
#[local] Arguments pre_connack {enc dec ores ires} _.
#[local] Arguments sum_ss {enc dec ores ires} _.
#[local] Arguments handle_pingresp {enc dec ores ires} _.
#[local] Arguments handle_suback {enc dec ores ires} _ _ _.
#[local] Arguments handle_unsuback {enc dec ores ires} _ _ _.
#[local] Arguments publish_qos_of {enc dec ores ires} _ _.
#[local] Arguments handle_puback {enc dec ores ires} _ _ _.
#[local] Arguments handle_pubrec {enc dec ores ires} _ _ _.
#[local] Arguments handle_pubrel {enc dec ores ires} _ _.
#[local] Arguments handle_pubcomp {enc dec ores ires} _ _ _.
#[local] Arguments handle_publish {enc dec ores ires} _ _.
#[local] Arguments handle_disconnect {enc dec ores ires} _ _ _.
#[local] Arguments is_connect_op {enc dec ores ires} _ _.
#[local] Arguments connect_in_queue {enc dec ores ires} _.
#[local] Arguments reset {enc dec ores ires} _ _.
#[local] Arguments out_of_res {enc dec ores ires} _ _.
#[local] Arguments nst_queue {enc dec ores ires} _ _ _ _.
#[local] Arguments earliest_tmo {enc dec ores ires} _.
#[local] Arguments SeatStop {enc dec ores ires} _.
#[local] Arguments SeatContinue {enc dec ores ires} _ _.
#[local] Arguments SeatEncode {enc dec ores ires} _.

Lemma unbound_publish o pb : op_packet o = Publish pb ->
  exists pb', op_packet (unbound o) = Publish pb' /\ pub_qos pb' = pub_qos pb /\ pub_dup pb' = pub_dup pb /\
              norm (Publish pb') = norm (Publish pb) /\ op_pubrel (unbound o) = None /\ op_pid (unbound o) = None.
Proof.
  intros E. unfold unbound. destruct (op_pid o) as [p|] eqn:Ep.
  - rewrite E. cbn. eexists. split; [reflexivity|]. cbn. repeat split; reflexivity.
  - cbn. rewrite E, Ep. exists pb. repeat split; reflexivity.
Qed.

Lemma unbound_pubq o : pubq (op_packet (unbound o)) = pubq (op_packet o).
Proof.
  unfold unbound. destruct (op_pid o) as [p|]; [|reflexivity]. destruct (op_packet o) eqn:E; cbn; rewrite ?E; reflexivity.
Qed.

Section Session.
  Context {enc dec ores ires : Type}.
  Notation state := (state enc dec ores ires).
  Notation pid_consistent := (SvcTimeout.pid_consistent enc dec ores ires).
  Variable cfg : config.
  Variable i : N.
  Notation quiet := (quiet (enc:=enc) (dec:=dec) (ores:=ores) (ires:=ires) i).
  Notation J := (J (enc:=enc) (dec:=dec) (ores:=ores) (ires:=ires) i).
  Notation PJ := (PJ (enc:=enc) (dec:=dec) (ores:=ores) (ires:=ires) i).
  Notation dgop := (DeliveryBase.gop enc dec ores ires).

  Ltac splits := repeat match goal with |- _ /\ _ => split end.

  (* ---- the fields the session rules leave alone ---- *)
  Lemma unbind_nid (s : state) id : s_next_id (unbind s id) = s_next_id s.
  Proof.
    unfold unbind. destruct (lookup id (s_ops s)) as [o|]; [|reflexivity]. destruct (op_pid o); [|reflexivity].
    destruct (with_pid 0 (op_packet o)); reflexivity.
  Qed.
  Lemma fold_unbind_nid l : forall s : state, s_next_id (fold_left unbind l s) = s_next_id s.
  Proof. induction l as [|x r IH]; intros s; cbn [fold_left]; [reflexivity|]. rewrite IH. apply unbind_nid. Qed.

  Lemma apply_session_nid (s : state) sp : s_next_id (r_s (apply_session cfg s sp)) = s_next_id s.
  Proof.
    rewrite WFData2.apply_session_unfold. cbv zeta.
    assert (H1 : s_next_id (r_s (sess_head cfg s sp)) = s_next_id s).
    { unfold sess_head. destruct sp; [reflexivity|]. destruct (partition_policy cfg s (s_rq s)) as [kept rejected].
      match goal with |- context [fail_all cfg ?sx ?l ?e] =>
        pose proof (fail_all_fields enc dec ores ires cfg l sx e) as Hf; set (rf := fail_all cfg sx l e) in * end.
      unfold SvcTimeout.queue_fields in Hf. repeat match goal with H : (_, _) = (_, _) |- _ => apply pair_equal_spec in H; destruct H end.
      cbn in *. destruct (is_panic (r_out rf)); cbn; congruence. }
    destruct (is_panic _); [exact H1|]. rewrite sess_tail_s. cbn. rewrite fold_unbind_nid. exact H1.
  Qed.

  Lemma apply_session_noppub (s : state) sp : s_ppub s = [] -> noppub i (r_s (apply_session cfg s sp)).
  Proof.
    intros E p Hin. destruct (apply_session_nsh cfg s sp) as (_ & H & _). specialize (H i). rewrite E in H. cbn in H.
    apply In_snd in Hin. apply cn_in in Hin. rewrite cn_nil in H. lia.
  Qed.

  (* ---- while the CONNACK is awaited ---- *)
  Definition waiting (s : state) : Prop :=
    s_st s = PendingConnack /\ s_ppub s = [] /\ (forall x, s_cur s = Some x -> getop s x = None).

  (* ---- the session rules ---- *)
  Theorem session_J (s s2 : state) g sp :
    waiting s -> J s g -> PL s ->
    s_ops s2 = s_ops s -> s_ppub s2 = s_ppub s -> s_cur s2 = s_cur s -> s_rq s2 = s_rq s -> s_uq s2 = s_uq s ->
    s_next_id s2 = s_next_id s -> s_pwco s2 = s_pwco s -> s_pnon s2 = s_pnon s ->
    WFS s2 -> W9 cfg s2 -> s_st s2 = Connected -> s_hq s2 = [] -> s_pnon s2 = [] -> s_tmo s2 = [] -> s_pwco s2 = [] ->
    J (r_s (apply_session cfg s2 sp)) (mkG sp (g_sub g) (sess_ph sp (g_ph g))).
  Proof.
    intros (Wst & Wpp & Wcur) HJ HPL Eops Eppub Ecur Erq Euq Enid Epw Epn HW2 H92 Hst2 Ehq Epnon Etmo Epwco.
    assert (Epp2 : s_ppub s2 = []) by congruence.
    assert (Hcur2 : forall x, s_cur s2 = Some x -> getop s2 x = None) by (intros x Hx; unfold getop; rewrite Eops; apply Wcur; congruence).
    destruct (apply_session_spec cfg s2 sp HW2 H92 Hst2 Ehq Epp2 Epnon Etmo Epwco Hcur2) as (P1 & _ & _ & P4 & _ & P6 & _).
    pose proof (apply_session_nid s2 sp) as Pn. pose proof (apply_session_noppub s2 sp Epp2) as Pnp.
    assert (Hnp : is_panic (r_out (apply_session cfg s2 sp)) = false) by (apply is_panic_false_iff; exact P1).
    set (s' := r_s (apply_session cfg s2 sp)) in *.
    assert (Hal : alive s) by (left; exact Wst).
    assert (Hci : s_cur s' <> Some i \/ getop s i = None).
    { destruct (s_cur s) as [x|] eqn:Ex; [|left; rewrite P6, Ecur; discriminate].
      destruct (N.eq_dec x i) as [->|Hne]; [right; apply Wcur; reflexivity|left; rewrite P6, Ecur; congruence]. }
    (* how the operation changes *)
    assert (Hop : forall o', getop s' i = Some o' ->
              exists o, getop s i = Some o /\
                ((sp = true /\ In i (s_rq s) /\ o' = o /\ In i (s_rq s')) \/
                 (~ In i (s_rq s) /\ (o' = o \/ o' = unbound o)) \/
                 (sp = false /\ In i (s_rq s) /\ op_pubrel o' = None /\ op_pid o' = None /\
                  op_packet o' = match op_pid o with Some _ => norm (op_packet o) | None => with_dup false (op_packet o) end))).
    { intros o' Ho'. destruct sp.
      - destruct (session_present_keeps enc dec ores ires cfg s2) as (_ & Rq & _ & Ops & _). cbv zeta in *. fold s' in Rq, Ops.
        specialize (Ops i). unfold DeliveryBase.gop in Ops. unfold getop in Ho'. rewrite Ho', Eops in Ops.
        destruct (lookup i (s_ops s)) as [o|] eqn:Eo; [|destruct (mem i (s_uq s2)); discriminate].
        exists o. split; [exact Eo|]. destruct (in_dec N.eq_dec i (s_rq s)) as [Hr|Hr].
        + left. assert (Em : mem i (s_uq s2) = false).
          { apply mem_false_iff. rewrite Euq. intros Hu. destruct HPL as [A _]. specialize (A i). unfold mn1 in A. rewrite !cn_app in A.
            apply cn_in in Hr. apply cn_in in Hu. lia. }
          rewrite Em in Ops. inversion Ops. splits; auto.
          rewrite Rq, Erq. apply (Permutation.Permutation_in _ (Permutation.Permutation_sym (sort_perm _))). exact Hr.
        + right; left. split; [exact Hr|]. destruct (mem i (s_uq s2)); cbn in Ops; inversion Ops; auto.
      - destruct (session_absent_restarts enc dec ores ires cfg s2 Hnp) as (_ & _ & _ & _ & Kept & Rej & _ & Oth). cbv zeta in *.
        fold s' in Kept, Rej, Oth. unfold DeliveryBase.gop in *. unfold getop in Ho'.
        destruct (lookup i (s_ops s)) as [o|] eqn:Eo.
        2:{ exfalso. destruct (in_dec N.eq_dec i (s_rq s2)) as [Hr|Hr].
            - assert (Hx : getop s' i <> None -> getop s2 i <> None) by (destruct (apply_session_nsh cfg s2 false) as (_ & _ & _ & H); apply H).
              apply Hx; unfold getop; [fold s'; congruence|rewrite Eops; exact Eo].
            - specialize (Oth i Hr). rewrite Ho', Eops, Eo in Oth. destruct (mem i (s_uq s2)); discriminate. }
        exists o. split; [exact Eo|].
        destruct (in_dec N.eq_dec i (s_rq s2)) as [Hr|Hr].
        + right; right. destruct (passes_policy (cf_policy cfg) (op_packet o)) eqn:Epol.
          * assert (Hk : In i (kept_of enc dec ores ires cfg s2)).
            { apply kept_spec. split; [exact Hr|]. exists o. unfold DeliveryBase.gop. rewrite Eops. auto. }
            assert (Ho2 : lookup i (s_ops s2) = Some o) by (rewrite Eops; exact Eo).
            destruct (Kept i o Hk Ho2) as (o1 & Ho1 & _ & K1 & K2 & _ & _ & K3).
            assert (o1 = o') by congruence. subst o1. splits; auto. congruence.
          * assert (Hk : In i (rejected_of enc dec ores ires cfg s2)).
            { apply rejected_spec. split; [exact Hr|]. exists o. unfold DeliveryBase.gop. rewrite Eops. auto. }
            rewrite (Rej i Hk) in Ho'. discriminate.
        + right; left. rewrite Erq in Hr. split; [exact Hr|]. specialize (Oth i ltac:(rewrite Erq; exact Hr)). rewrite Ho', Eops, Eo in Oth.
          destruct (mem i (s_uq s2)); cbn in Oth; inversion Oth; auto. }
    assert (Hdc : forall o, getop s i = Some o -> dead_cur i s').
    { intros o Ho Hx. destruct Hci as [Hy|Hy]; congruence. }
    (* an operation in phase GNot stays there; a restarted operation enters it *)
    assert (Hnot : forall sub o o' pb, getop s i = Some o -> op_packet o = Publish pb -> pub_qos pb <> 0 ->
              (forall p, op_pid o = Some p -> pub_pid pb = p /\ 1 <= p <= 65535) ->
              ((pub_dup pb = false /\ op_pubrel o = None /\ (o' = o \/ o' = unbound o)) \/
               (op_pubrel o' = None /\ op_pid o' = None /\
                op_packet o' = match op_pid o with Some _ => norm (op_packet o) | None => with_dup false (op_packet o) end)) ->
              exists pb', op_packet o' = Publish pb' /\ pub_qos pb' <> 0 /\ norm (Publish pb') = norm (Publish pb) /\
                          PJ s' (mkG sp sub GNot) o' pb').
    { intros sub o o' pb Ho Epb Hq Hpid Hc. pose proof (Hdc o Ho) as Hd. unfold DeliveryWireDefs.PJ. cbn [g_ph].
      destruct Hc as [(D & R & [->| ->])|(K1 & K2 & K3)].
      - exists pb. splits; auto.
      - destruct (unbound_publish o pb Epb) as (pb' & U1 & U2 & U3 & U4 & U5 & U6). exists pb'. splits; auto; try congruence; try (intros p; rewrite U6; discriminate).
      - rewrite Epb in K3. destruct (op_pid o); cbn in K3; eexists; (split; [exact K3|]); cbn; splits; auto; intros p; rewrite K2; discriminate. }
    unfold DeliveryWireDefs.J in *.
    destruct (g_ph g) as [| |pid d|pid|pid|pid|pid|pid| |] eqn:Eph.
    { (* not a QoS 1/2 publish *)
      assert (Hg : forall o', getop s' i = Some o' -> pubq (op_packet o') = false).
      { intros o' Ho'. destruct (Hop o' Ho') as (o & Ho & [(_ & _ & -> & _)|[(_ & [->| ->])|(_ & _ & _ & _ & Hp)]]);
          [eapply HJ; exact Ho|eapply HJ; exact Ho|rewrite unbound_pubq; eapply HJ; exact Ho|].
        rewrite Hp. specialize (HJ o Ho). destruct (op_pid o); destruct (op_packet o); cbn in *; auto. }
      exact Hg. }
    9:{ (* handed to the encoder, but no QoS 1/2 publish *)
      destruct HJ as [Hlt HJ]. cbn [sess_ph g_ph]. split; [fold s'; lia|].
      intros o' Ho'. destruct (Hop o' Ho') as (o & Ho & [(_ & _ & -> & _)|[(_ & [->| ->])|(_ & _ & _ & _ & Hp)]]);
        [eapply HJ; exact Ho|eapply HJ; exact Ho|rewrite unbound_pubq; eapply HJ; exact Ho|].
      rewrite Hp. specialize (HJ o Ho). destruct (op_pid o); destruct (op_packet o); cbn in *; auto. }
    all: destruct HJ as [Hlt HJ]; unfold DeliveryWireDefs.JP in *; cbn [g_sub g_ph g_sp].
    all: destruct sp; cbn [sess_ph].
    all: (split; [fold s'; lia|]); intros o' Ho'; destruct (Hop o' Ho') as (o & Ho & Hc); destruct (HJ o Ho) as (pb & Epb & Hq & Hn & HP);
      unfold DeliveryWireDefs.PJ in HP; rewrite Eph in HP.
    (* the encoder seat holds no publish, no publish is pending *)
    all: try (exfalso; destruct HP as (Hx & _); rewrite (Wcur i Hx) in Ho; discriminate).
    all: try (exfalso; destruct HP as (Hx & _); unfold onlyppub in Hx; rewrite Wpp in Hx; exact (proj2 (Hx pid) eq_refl)).
    all: try (exfalso; exact HP).
    (* GNot *)
    1,2: destruct HP as (Q1 & Q2 & Q3 & Q4 & Q5);
      destruct (Hnot (g_sub g) o o' pb Ho Epb Hq Q5) as (pb' & A1 & A2 & A3 & A4);
      [destruct Hc as [(_ & _ & -> & _)|[(_ & Hc)|(_ & _ & Hc)]]; [left; auto|left; auto|right; exact Hc]
      |exists pb'; splits; auto; congruence].
    (* GInt / GRelInt: in the resubmit queue *)
    all: assert (Hrq : In i (s_rq s)) by (repeat match goal with H : _ /\ _ |- _ => destruct H end;
           match goal with H : parked _ _ |- _ => destruct H as [H|[_ H]]; [exact H|contradiction] end).
    all: destruct Hc as [(Hs & _ & -> & Hrq')|[(Hc & _)|(Hs & _ & Hc)]]; try discriminate; try contradiction.
    (* session present: untouched *)
    1,3: exists pb; splits; auto; unfold DeliveryWireDefs.PJ; cbn [g_ph g_sp]; repeat match goal with H : _ /\ _ |- _ => destruct H end;
         splits; auto; [left; exact Hrq'|eapply Hdc; exact Ho].
    (* no session: restarted *)
    all: repeat match goal with H : _ /\ _ |- _ => destruct H end;
      match goal with H : bnd _ _ _ |- _ => destruct H as (B1 & B2 & B3) end;
      destruct (Hnot (g_sub g) o o' pb Ho Epb Hq) as (pb' & A1 & A2 & A3 & A4);
      [intros p Hp; assert (p = pid) by congruence; subst p; split; [exact B2|exact B3]
      |right; splits; auto
      |exists pb'; splits; auto; congruence].
  Qed.

  (* ---- a PUBREC that sets the PUBREL slot of the operation ---- *)
  Notation pubrel_target := (InboundLoop.pubrel_target enc dec ores ires).

  Theorem pubrec_J (s : state) g a :
    pubrel_target s a = Some i -> J s g ->
    J (h_s (handle_pubrec cfg s a))
      (match g_ph g with GPend pid => mkG (g_sp g) (g_sub g) (GRel pid) | _ => g end).
  Proof.
    unfold InboundLoop.pubrel_target, handle_pubrec. destruct (pre_connack s); [discriminate|].
    destruct (lookup (ack_pid a) (s_ppub s)) as [id|] eqn:El; [|discriminate].
    destruct (lookup id (s_ops s)) as [o|] eqn:Eo; [|discriminate].
    destruct (op_packet o) as [ | |pb| | | | | | | | | | | | ] eqn:Epb; try discriminate.
    destruct (pub_qos pb =? 2) eqn:Eq; cbn [andb]; [|discriminate]. destruct (128 <=? ack_rc a); cbn [negb]; [discriminate|].
    intros H HJ. inversion H; subst id. apply N.eqb_eq in Eq. apply lookup_In in El. cbn [h_s].
    set (f := fun o0 : op => o0 <| op_pubrel := Some (Pubrel (default_ack (ack_pid a))) |>).
    set (s' := s <| s_ops := update i f (s_ops s) |> <| s_hq := s_hq s ++ [i] |>).
    assert (Ho' : getop s' i = Some (f o)) by (unfold getop; cbn; apply lookup_update_eq; exact Eo).
    unfold DeliveryWireDefs.J in *. destruct (g_ph g) as [| |pid d|pid|pid|pid|pid|pid| |] eqn:Eph.
    { specialize (HJ o Eo). rewrite Epb in HJ. cbn in HJ. rewrite Eq in HJ. discriminate. }
    9:{ destruct HJ as [_ HJ]. specialize (HJ o Eo). rewrite Epb in HJ. cbn in HJ. rewrite Eq in HJ. discriminate. }
    all: destruct HJ as [Hlt HJ]; destruct (HJ o Eo) as (pb0 & E0 & Hq & Hn & HP); rewrite Epb in E0; inversion E0; subst pb0;
      unfold DeliveryWireDefs.PJ in HP; rewrite Eph in HP.
    (* the phases in which no publish of i is pending *)
    all: try (exfalso; repeat match goal with H : _ /\ _ |- _ => destruct H end;
              match goal with H : noppub _ _ |- _ => exact (H _ El) end).
    - (* GPend -> GRel *)
      destruct HP as (P1 & P2 & P3). assert (Ea : ack_pid a = pid) by (apply P1; exact El).
      unfold DeliveryWireDefs.JP. cbn [g_ph g_sub]. split; [exact Hlt|]. intros o1 Ho1. rewrite Ho' in Ho1. inversion Ho1; subst o1.
      exists pb. splits; auto. unfold DeliveryWireDefs.PJ. cbn [g_ph]. splits; auto. cbn. rewrite Ea. reflexivity.
    - (* GRel: a repeated PUBREC *)
      destruct HP as (P1 & P2 & P3 & P4). assert (Ea : ack_pid a = pid) by (apply P1; exact El).
      unfold DeliveryWireDefs.JP. rewrite Eph. split; [exact Hlt|]. intros o1 Ho1. rewrite Ho' in Ho1. inversion Ho1; subst o1.
      exists pb. splits; auto. unfold DeliveryWireDefs.PJ. rewrite Eph. splits; auto. cbn. rewrite Ea. reflexivity.
    - destruct HP.
  Qed.

  Theorem pubrec_ok (s : state) g a :
    pubrel_target s a = Some i -> J s g -> match g_ph g with GPend pid | GRel pid => ack_pid a = pid | _ => False end.
  Proof.
    unfold InboundLoop.pubrel_target. destruct (pre_connack s); [discriminate|].
    destruct (lookup (ack_pid a) (s_ppub s)) as [id|] eqn:El; [|discriminate].
    destruct (lookup id (s_ops s)) as [o|] eqn:Eo; [|discriminate].
    destruct (op_packet o) as [ | |pb| | | | | | | | | | | | ] eqn:Epb; try discriminate.
    destruct (pub_qos pb =? 2) eqn:Eq; cbn [andb]; [|discriminate]. destruct (128 <=? ack_rc a); cbn [negb]; [discriminate|].
    intros H HJ. inversion H; subst id. apply lookup_In in El.
    apply N.eqb_eq in Eq.
    unfold DeliveryWireDefs.J in HJ. destruct (g_ph g) as [| |pid d|pid|pid|pid|pid|pid| |] eqn:Eph.
    1:{ specialize (HJ o Eo). rewrite Epb in HJ. cbn in HJ. rewrite Eq in HJ. discriminate. }
    9:{ destruct HJ as [_ HJ]. specialize (HJ o Eo). rewrite Epb in HJ. cbn in HJ. rewrite Eq in HJ. discriminate. }
    all: destruct HJ as [_ HJ]; destruct (HJ o Eo) as (pb0 & _ & _ & _ & HP); unfold DeliveryWireDefs.PJ in HP; rewrite Eph in HP.
    all: try (destruct HP as (P1 & _); apply P1; exact El).
    all: try exact HP.
    all: repeat match goal with H : _ /\ _ |- _ => destruct H end; match goal with H : noppub _ _ |- _ => exact (H _ El) end.
  Qed.
End Session.
