(* A concrete run of the instantiated engine (Engine/Instance.v) used as the non-vacuity witness of
   the WF corollaries in Properties/C06.v and Properties/C11.v: connect, CONNACK, a QoS 1 publish is
   written (it holds packet id 1), then the connection closes and the publish is re-queued with
   the same packet id. *)
From GM Require Import Base.Prelude Base.Outcome Codec.Packets Codec.Settings Alias.Outbound Engine.Model Engine.Instance
  EngineProofs.WFDefs.
Open Scope N_scope.

Definition w_connect : connect_opts :=
  {| co_keep_alive := Some 0; co_rejoin := 0; co_client_id := Some [97; 97]; co_username := None; co_password := None;
     co_sei := None; co_rri := None; co_rpi := None; co_receive_max := None; co_tam := None; co_max_packet := None;
     co_will_delay := None; co_will := None; co_up := None |}.
Definition w_cfg : config := mkConfig V5 0 false None 10000 w_connect.
Definition w_pub : packet :=
  Publish {| pub_pid := 0; pub_topic := [116]; pub_qos := 1; pub_dup := false; pub_retain := false;
             pub_payload := None; pub_pfi := None; pub_mei := None; pub_alias := None; pub_response_topic := None;
             pub_correlation := None; pub_subids := None; pub_content_type := None; pub_up := None |}.
Definition w_hist : list event :=
  [EvOpen 0 1000; EvService 0 4096 0; EvWriteComplete 0; EvData 0 [32; 3; 0; 0; 0]; EvUser 1 w_pub (Some 5000);
   EvService 1 4096 0].
Definition w_state : istate := fst (i_run w_cfg (i_init w_cfg RNull) w_hist).
Definition w_outs : list output := snd (i_run w_cfg (i_init w_cfg RNull) w_hist).
Definition w_closed : istate := fst (i_step w_cfg w_state (EvClose 2)).

Lemma w_hist_ok : Forall ok_event w_hist.
Proof. unfold w_hist. repeat constructor; cbn; unfold TMAX; lia. Qed.

Lemma w_cfg_ok : ok_cfg w_cfg.
Proof. unfold ok_cfg, TMAX. cbn. lia. Qed.

(* the premises of the C11 theorems are satisfiable and the run is not trivial *)
Lemma w_c11 :
  Forall ok_event w_hist /\ ok_cfg w_cfg /\ s_st w_state = Connected /\
  map o_res w_outs = [Ok tt; Ok tt; Ok tt; Ok tt; Ok tt; Ok tt] /\
  o_res (snd (i_step w_cfg w_state (EvClose 2))) = Ok tt /\ s_st w_closed = Disconnected.
Proof.
  split; [exact w_hist_ok|]. split; [exact w_cfg_ok|]. vm_compute. repeat split; reflexivity.
Qed.

(* an operation holding packet id 1 exists in a reachable state, and keeps it across the close *)
Lemma w_c06 :
  Forall ok_event w_hist /\ s_alloc w_state = [(1, 2)] /\
  map (fun x => (fst x, op_pid (snd x))) (s_ops w_state) = [(2, Some 1)] /\
  map (fun x => (fst x, op_pid (snd x))) (s_ops w_closed) = [(2, Some 1)] /\ s_rq w_closed = [2].
Proof.
  split; [exact w_hist_ok|]. vm_compute. repeat split; reflexivity.
Qed.

(* ---- the submission guarantee of the no-silent-drop theorem is necessary ----
   A QoS 0 PUBLISH submitted WITH the duplicate flag and WITH packet id 1 (both rejected by the
   clients' submission-time validator validate_packet_outbound) is half encoded when the
   connection closes while packet id 1 is pending for operation 2: closed_current takes it for
   "already pending" and operation 3 stays in the table without being in any queue. *)
Definition w_bad_pub : packet :=
  Publish {| pub_pid := 1; pub_topic := [116]; pub_qos := 0; pub_dup := true; pub_retain := false;
             pub_payload := Some (repeat 0 40); pub_pfi := None; pub_mei := None; pub_alias := None; pub_response_topic := None;
             pub_correlation := None; pub_subids := None; pub_content_type := None; pub_up := None |}.
Definition w_hist_bad : list event :=
  w_hist ++ [EvWriteComplete 1; EvUser 2 w_bad_pub None; EvService 2 16 0; EvClose 3].
Definition w_state_bad : istate := fst (i_run w_cfg (i_init w_cfg RNull) w_hist_bad).

Lemma w_drop :
  Forall ok_event w_hist_bad /\
  Validate.Rules.validate_outbound w_bad_pub = Err EPacketValidationFailure /\
  map o_res (snd (i_run w_cfg (i_init w_cfg RNull) w_hist_bad)) = repeat (Ok tt) 10 /\
  map fst (s_ops w_state_bad) = [2; 3] /\
  (s_uq w_state_bad, s_rq w_state_bad, s_hq w_state_bad, s_cur w_state_bad, s_pwco w_state_bad,
   s_ppub w_state_bad, s_pnon w_state_bad) = ([], [2], [], None, [], [], []).
Proof.
  split; [unfold w_hist_bad, w_hist; repeat constructor; cbn; unfold TMAX; lia|]. vm_compute. repeat split; reflexivity.
Qed.
