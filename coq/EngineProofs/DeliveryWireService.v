(* C04, run level: the invariant J (DeliveryWireDefs.v) through one service call.  The delivery log of the call is the
   outbound log of AliasRunLog.service_log (every encoder construction with its operation id, every completed write).
   [seat_current_J]: one seat; [encode_next_J]: the encode half of an iteration; [service_loop_J]: the loop, with the
   well-formedness and placement of the intermediate states threaded as in PlaceRunService.service_loop_PL;
   [service_J]: keep-alive, loop, ack timeouts, halt on error.  The machine accepts the log of the call. *)
From GM Require Import Base.Prelude Base.Outcome Codec.Packets Codec.Settings Engine.Model
  EngineProofs.AssocLemmas EngineProofs.WFLemmas EngineProofs.WFDefs EngineProofs.IdsFrame EngineProofs.SvcTimeout
  EngineProofs.InboundSpec EngineProofs.HandshakeRunTrace EngineProofs.AliasRunLog EngineProofs.WFCore EngineProofs.WFComplete EngineProofs.WFClose EngineProofs.WFClose2 EngineProofs.WFService EngineProofs.WFService2 EngineProofs.WFService3
  EngineProofs.WFService4 EngineProofs.WFEvents EngineProofs.OrderRunStrict EngineProofs.OrderRunStrict2 EngineProofs.PlaceRun EngineProofs.PlaceRunEvents EngineProofs.PlaceRunService
  EngineProofs.DeliveryRun EngineProofs.DeliveryWireDefs EngineProofs.DeliveryWireFrames EngineProofs.DeliveryWireEvents EngineProofs.DeliveryWireSeat.
From RecordUpdate Require Import RecordSet.
Import RecordSetNotations.
Open Scope N_scope.

(* the four component types are implicit in the engine functions, locally to this file *)
#[local] Arguments init {enc dec} _ {ores ires} _ _.
#[local] Arguments release {enc dec ores ires} _ _ _ _.
#[local] Arguments disconnect_completion {enc dec ores ires} _ _.
#[local] Arguments fail_op {enc dec ores ires} _ _ _ _.
#[local] Arguments ping_extension {enc dec ores ires} _ _.
#[local] Arguments succeed_op {enc dec ores ires} _ _ _ _.
#[local] Arguments fail_all {enc dec ores ires} _ _ _ _.
#[local] Arguments succeed_all {enc dec ores ires} _ _ _.
#[local] Arguments andthen {enc dec ores ires} _ _.
#[local] Arguments try_ {enc dec ores ires} _ _.
#[local] Arguments pure {enc dec ores ires} _.
#[local] Arguments create_operation {enc dec ores ires} _ _.
#[local] Arguments passes_now {enc dec ores ires} _ _ _.
#[local] Arguments user_event {enc dec ores ires} _ _ _ _.
#[local] Arguments create_connect {enc dec ores ires} _ _.
#[local] Arguments net_opened {enc dec} _ {ores ires} _ _ _.
#[local] Arguments op_exists {enc dec ores ires} _ _.
#[local] Arguments op_passes {enc dec ores ires} _ _ _.
#[local] Arguments partition_policy {enc dec ores ires} _ _ _.
#[local] Arguments closed_current {enc dec ores ires} _ _.
#[local] Arguments slow_start_init {enc dec ores ires} _ _.
#[local] Arguments update_retries {enc dec ores ires} _ _.
#[local] Arguments fail_exceeding {enc dec ores ires} _ _.
#[local] Arguments has_pubrel {enc dec ores ires} _ _.
#[local] Arguments net_closed_raw {enc dec ores ires} _ _.
#[local] Arguments net_closed {enc dec ores ires} _ _.
#[local] Arguments net_write_completion {enc dec ores ires} _ _.
#[local] Arguments acquire_free_pid {enc dec ores ires} _ _.
#[local] Arguments acquire_pid_for {enc dec ores ires} _ _.
#[local] Arguments unbind {enc dec ores ires} _ _.
#[local] Arguments passes_receive_max {enc dec ores ires} _ _.
#[local] Arguments throttled {enc dec ores ires} _ _.
#[local] Arguments has_pending_ack {enc dec ores ires} _.
#[local] Arguments dequeue {enc dec ores ires} _ _ _.
#[local] Arguments fully_written {enc dec ores ires} _ _.
#[local] Arguments service_keep_alive {enc dec ores ires} _ _ _.
#[local] Arguments process_ack_timeouts {enc dec ores ires} _ _ _.
#[local] Arguments halt_on_error {enc dec ores ires} _ _.
#[local] Arguments next_service_time {enc dec ores ires} _ _ _.
#[local] Arguments build_settings {enc dec ores ires} _ _ _.
#[local] Arguments apply_session {enc dec ores ires} _ _ _.
#[local] Arguments hres_of {enc dec ores ires} _ _.
#[local] Arguments pre_connack {enc dec ores ires} _.
#[local] Arguments sum_ss {enc dec ores ires} _.
#[local] Arguments handle_pingresp {enc dec ores ires} _.
#[local] Arguments handle_suback {enc dec ores ires} _ _ _.
#[local] Arguments handle_unsuback {enc dec ores ires} _ _ _.
#[local] Arguments publish_qos_of {enc dec ores ires} _ _.
#[local] Arguments handle_puback {enc dec ores ires} _ _ _.
#[local] Arguments handle_pubrec {enc dec ores ires} _ _ _.
#[local] Arguments handle_pubrel {enc dec ores ires} _ _.
#[local] Arguments handle_pubcomp {enc dec ores ires} _ _ _.
#[local] Arguments handle_publish {enc dec ores ires} _ _.
#[local] Arguments handle_disconnect {enc dec ores ires} _ _ _.
#[local] Arguments is_connect_op {enc dec ores ires} _ _.
#[local] Arguments connect_in_queue {enc dec ores ires} _.
#[local] Arguments reset {enc dec ores ires} _ _.
#[local] Arguments out_of_res {enc dec ores ires} _ _.
#[local] Arguments nst_queue {enc dec ores ires} _ _ _ _.
#[local] Arguments earliest_tmo {enc dec ores ires} _.
#[local] Arguments SeatStop {enc dec ores ires} _.
#[local] Arguments SeatContinue {enc dec ores ires} _ _.
#[local] Arguments SeatEncode {enc dec ores ires} _.

Section Serve.
  Variable enc : Type.
  Variable enc_reset : version -> packet -> resolution -> outcome enc.
  Variable enc_call : enc -> N -> N -> outcome (bytes * enc).
  Variable enc_done : enc -> bool.
  Variable dec : Type.
  Variable dec_init : dec.
  Variable dec_feed : version -> N -> dec -> bytes -> dec * list packet * outcome unit.
  Variable ores : Type.
  Variable ores_reset : ores -> N -> ores.
  Variable ores_resolve : ores -> option N -> bytes -> outcome (ores * resolution).
  Variable ires : Type.
  Variable ires_reset : ires -> ires.
  Variable ires_resolve : ires -> option N -> bytes -> outcome (ires * bytes).
  Variable v_out : option settings -> connect_opts -> resolution -> packet -> outcome unit.
  Variable v_in : option settings -> packet -> outcome unit.
  Variable cfg : config.
  Variable HC : comps_ok enc enc_reset enc_call dec dec_init dec_feed ores ores_reset ores_resolve ires ires_reset ires_resolve v_out v_in.
  Hypothesis Hcfg : ok_cfg cfg.
  Variable i : N.

  Notation state := (state enc dec ores ires).
  Notation seat := (seat enc dec ores ires).
  Notation sres := (sres enc dec ores ires).
  Notation seat_current := (seat_current enc enc_reset dec ores ores_reset ores_resolve ires v_out cfg).
  Notation seat_current_a := (seat_current_a enc enc_reset dec ores ores_reset ores_resolve ires v_out cfg).
  Notation service_loop := (service_loop enc enc_reset enc_call enc_done dec ores ores_reset ores_resolve ires v_out cfg).
  Notation service_loop_a := (service_loop_a enc enc_reset enc_call enc_done dec ores ores_reset ores_resolve ires v_out cfg).
  Notation service_queue := (service_queue enc enc_reset enc_call enc_done dec ores ores_reset ores_resolve ires v_out cfg).
  Notation service := (service enc enc_reset enc_call enc_done dec ores ores_reset ores_resolve ires v_out cfg).
  Notation service_log := (service_log enc enc_reset enc_call enc_done dec ores ores_reset ores_resolve ires v_out cfg).
  Notation encode_next := (encode_next enc enc_call enc_done dec ores ires).
  Notation mu := (mu enc dec ores ires).
  Notation J := (J (enc:=enc) (dec:=dec) (ores:=ores) (ires:=ires) i).
  Notation quiet := (quiet (enc:=enc) (dec:=dec) (ores:=ores) (ires:=ires) i).

  Ltac splits := repeat match goal with |- _ /\ _ => split end.
  Ltac tuple_eqs H := repeat (apply pair_equal_spec in H; destruct H as [H ?]).
  Ltac core_cbn := unfold tracked, inq; cbn [core_of c_ops c_uq c_rq c_hq c_cur c_alloc c_ppub c_pnon c_pwco c_nid c_npid].

  Lemma J_core (s s' : state) g : core_of s' = core_of s -> s_st s' = s_st s -> J s g -> J s' g.
  Proof.
    intros Hc Hst. unfold core_of in Hc. inversion Hc. apply quiet_J. apply quiet_fields; auto.
  Qed.

  Lemma quiet_unseat (s : state) : s_cur s <> Some i -> quiet s (s <| s_cur := None |>).
  Proof.
    intros Hne. constructor; unfold getop; cbn; try tauto; [| |lia].
    - intros o' H. left. exists o'. auto.
    - intros _ _. split; [tauto|]. split; [|tauto]. split; intros H; congruence.
  Qed.

  (* the result of one seat: the machine accepts its log, the invariant holds in the state it hands on *)
  Definition seat_J (g : gst) (x : seat * list oev) : Prop :=
    accepts i g (map DO (snd x)) /\
    match fst x with
    | SeatStop r => J (halt_on_error (sr_s r) (sr_out r)) (grun i g (map DO (snd x)))
    | SeatContinue s' _ => J s' (grun i g (map DO (snd x)))
    | SeatEncode s' => J s' (grun i g (map DO (snd x)))
    end.

  Lemma neutral_seat g (x : seat) l :
    forallb (neutralb i) l = true ->
    match x with
    | SeatStop r => J (halt_on_error (sr_s r) (sr_out r)) g
    | SeatContinue s' _ => J s' g
    | SeatEncode s' => J s' g
    end -> seat_J g (x, l).
  Proof. intros Hn H. destruct (neutral_run i l g Hn) as [E1 E2]. unfold seat_J. cbn [fst snd]. rewrite E1. split; [exact E2|exact H]. Qed.

  Lemma neutral_cons e l : neutralb i e = true -> forallb (neutralb i) l = true -> forallb (neutralb i) (e :: l) = true.
  Proof. intros H1 H2. cbn. rewrite H1, H2. reflexivity. Qed.
  Lemma neutral_app a b : forallb (neutralb i) a = true -> forallb (neutralb i) b = true -> forallb (neutralb i) (a ++ b) = true.
  Proof. intros H1 H2. rewrite forallb_app, H1, H2. reflexivity. Qed.

  Lemma halted_eq (s : state) k : halt_on_error s (Err k) = s <| s_st := Halted |>.
  Proof. reflexivity. Qed.

  (* ---- one seat ---- *)
  Lemma seat_current_J (s : state) m acc dn g :
    WFS s -> s_cur s = None -> W9 cfg s ->
    (s_settings s <> None \/
     (m = false /\ forall id o, In id (s_hq s) -> getop s id = Some o -> is_connect (op_packet o) = true)) ->
    cinv HC s -> PL s -> alive s -> (s_st s = PendingConnack -> m = false) ->
    J s g -> seat_J g (seat_current_a s m acc dn).
  Proof.
    intros HW Hcur H9 Hv HI HPL Hal Hm HJ.
    pose proof (seat_gen _ _ _ _ _ _ _ _ _ _ _ _ _ _ _ HC s m acc dn HW Hcur H9 Hv HI) as Hpost.
    rewrite <- (seat_current_a_fst enc enc_reset dec ores ores_reset ores_resolve ires v_out cfg s m acc dn) in Hpost.
    unfold AliasRunLog.seat_current_a in *. rewrite Hcur in *.
    destruct (dequeue cfg s m) as [s1 next] eqn:Edq.
    assert (E1 : fst (dequeue cfg s m) = s1) by (rewrite Edq; reflexivity).
    assert (E2 : snd (dequeue cfg s m) = next) by (rewrite Edq; reflexivity).
    destruct next as [id|].
    2:{ apply neutral_seat; [reflexivity|]. cbn [sr_s sr_out halt_on_error]. rewrite <- E1, (dequeue_none cfg s m E2). exact HJ. }
    destruct (dequeue_some cfg s m id E2) as (B & Q & D). rewrite E1 in B, Q, D.
    destruct (but_queues_fields _ _ B) as (B1 & B2 & B3 & B4 & B5 & B6 & B7 & B8 & B9 & B10 & B11 & B12 & B13 & B14 & B15).
    assert (Dq : dq_rel m s s1 id) by exact D.
    set (s2 := s1 <| s_cur := Some id |>) in *.
    assert (HW2 : WFS s2).
    { eapply WFS_queues; [exact HW| | | | | | | | | | |]; cbn; auto; try tauto.
      - core_cbn. cbn. rewrite Hcur, B7, B8. intros p x o Hi Hp T.
        destruct D as [(D1 & D2 & D3)|(D0 & D1 & D2 & [(D3 & D4)|(D3 & D4)])]; rewrite ?D1, ?D2, ?D3, ?D4 in *; cbn in T;
          intuition (subst; auto; try discriminate).
      - core_cbn. cbn. rewrite B9. intros x.
        destruct D as [(D1 & D2 & D3)|(D0 & D1 & D2 & [(D3 & D4)|(D3 & D4)])]; rewrite ?D1, ?D2, ?D3, ?D4 in *; cbn;
          intuition (try (match goal with H : Some _ = Some _ |- _ => inversion H; subst end); auto).
      - intros x Hi. left. destruct D as [(D1 & D2 & D3)|(D0 & D1 & D2 & _)]; [rewrite D1; right; exact Hi|rewrite D2 in Hi; destruct Hi].
      - rewrite B9. auto. }
    assert (Hpc2 : SvcTimeout.pid_consistent enc dec ores ires s2) by (apply wfs_pid_consistent; exact HW2).
    cbv zeta in *.
    destruct (N.eq_dec id i) as [Ei|Hne].
    - (* operation i is seated *)
      subst id.
      destruct (op_exists s2 i) eqn:Eex; cbn [negb] in *.
      2:{ apply neutral_seat; [reflexivity|]. apply J_gone.
          - intros Hph. pose proof (J_lt i s g Hph HJ) as Hlt. cbn. lia.
          - unfold op_exists in Eex. unfold getop. cbn in *. destruct (lookup i (s_ops s1)); [discriminate|reflexivity]. }
      assert (Hex : exists o, getop s2 i = Some o).
      { unfold op_exists in Eex. unfold getop. destruct (lookup i (s_ops s2)) as [o|]; [eauto|discriminate]. }
      destruct Hex as (o & Ho2).
      assert (Ho : getop s i = Some o) by (unfold getop in *; cbn in Ho2; rewrite <- B2; exact Ho2).
      pose proof (acquire_pid_for_spec [] s2 i o HW2 eq_refl Ho2) as Haq.
      assert (Hdq2 : dq_rel m s s2 i) by exact Dq.
      destruct (acquire_pid_for s2 i) as [s3|k|site] eqn:Eaq; [| |destruct Haq].
      2:{ (* no packet id available *)
          apply neutral_seat; [reflexivity|]. cbn [sr_s sr_out]. rewrite halted_eq.
          refine (proj1 (seat_self i s s2 g m o o HJ HPL Hcur Hal Hm Hdq2 _ _ _ eq_refl Ho Ho2 eq_refl (or_introl eq_refl) HW2)); cbn; auto. }
      destruct Haq as (HW3 & Baq & (o3 & Ho3 & _ & Hbound) & _ & _).
      destruct (acquire_self i s2 s3 o Ho2 Eaq) as (Hc3 & Hst3 & o3' & Ho3' & Hrel3 & Hor3).
      assert (o3' = o3) by (unfold getop in Ho3; congruence). subst o3'.
      assert (F3 : s_ppub s3 = s_ppub s /\ s_next_id s3 = s_next_id s /\ s_cur s3 = Some i /\ s_uq s3 = s_uq s1 /\ s_rq s3 = s_rq s1 /\ s_hq s3 = s_hq s1).
      { unfold core_of in Hc3. inversion Hc3. cbn in *. splits; congruence. }
      destruct F3 as (F31 & F32 & F33 & F34 & F35 & F36).
      assert (Hdq3 : dq_rel m s s3 i) by (unfold dq_rel in *; rewrite F34, F35, F36; exact Dq).
      assert (Hst3' : s_st s3 = s_st s) by (rewrite Hst3; exact B1).
      destruct (seat_self i s s3 g m o o3 HJ HPL Hcur Hal Hm Hdq3 F31 Hst3' F32 F33 Ho Ho3 Hrel3 Hor3 HW3) as [Hhalt Hgo].
      unfold getop in Ho3. rewrite Ho3 in *.
      set (packet := match op_pubrel o3 with Some pr => pr | None => op_packet o3 end) in *.
      match goal with |- context [OPick i :: ?l ++ _] => set (lr := l) in * end.
      assert (Hlr : forallb (neutralb i) lr = true) by (unfold lr; destruct packet; reflexivity).
      assert (Hres : match (match packet with
                            | Publish pb => do (o2, r) <- ores_resolve (s_ores s3) (pub_alias pb) (pub_topic pb) ; Ok (s3 <| s_ores := o2 |>, r)
                            | _ => Ok (s3, no_resolution) end) with
                     | Ok (s4, r) => core_of s4 = core_of s3 /\ s_st s4 = s_st s3
                     | _ => True end).
      { destruct packet; try (split; reflexivity). destruct (ores_resolve (s_ores s3) (pub_alias p) (pub_topic p)) as [[o2 r]|k|site]; cbn [obind]; [split; reflexivity|exact I|exact I]. }
      destruct (match packet with
                | Publish pb => do (o2, r) <- ores_resolve (s_ores s3) (pub_alias pb) (pub_topic pb) ; Ok (s3 <| s_ores := o2 |>, r)
                | _ => Ok (s3, no_resolution) end) as [[s4 r]|k|site].
      2,3: apply neutral_seat; [apply neutral_cons; [reflexivity|exact Hlr]|]; cbn [sr_s sr_out halt_on_error]; exact Hhalt.
      destruct Hres as [Hc4 Hst4].
      assert (Hhalt4 : J (s4 <| s_st := Halted |>) g).
      { eapply J_core; [| |exact Hhalt]; [unfold core_of in *; cbn; inversion Hc4; reflexivity|reflexivity]. }
      destruct (v_out (s_settings s4) (cf_connect cfg) r packet) as [u|k|site] eqn:Ev.
      + (* validated *)
        destruct (enc_reset (cf_version cfg) packet r) as [e|k|site].
        * (* handed to the encoder *)
          destruct (Hgo r Hbound) as [Hok Hnext].
          replace (OPick i :: lr ++ [OValid i packet r (Ok tt); OEncode i packet r true])
            with ((OPick i :: lr ++ [OValid i packet r (Ok tt)]) ++ [OEncode i packet r true]) by (cbn; rewrite <- app_assoc; reflexivity).
          assert (Hn : forallb (neutralb i) (OPick i :: lr ++ [OValid i packet r (Ok tt)]) = true)
            by (apply neutral_cons; [reflexivity|apply neutral_app; [exact Hlr|reflexivity]]).
          destruct (neutral_then i _ (OEncode i packet r true) g Hn) as [G1 G2].
          unfold seat_J. cbn [fst snd]. rewrite G1. split; [apply G2; exact Hok|].
          apply Hnext; [unfold core_of in *; cbn; inversion Hc4; reflexivity|cbn; exact Hst4].
        * apply neutral_seat; [apply neutral_cons; [reflexivity|apply neutral_app; [exact Hlr|reflexivity]]|]. cbn [sr_s sr_out halt_on_error]. exact Hhalt4.
        * apply neutral_seat; [apply neutral_cons; [reflexivity|apply neutral_app; [exact Hlr|reflexivity]]|]. cbn [sr_s sr_out halt_on_error]. exact Hhalt4.
      + (* rejected by the last-chance validation: the operation is failed *)
        match goal with |- context [fail_op cfg ?sx i k] => set (s4c := sx) in * end.
        assert (Hnid : s_next_id (r_s (fail_op cfg s4c i k)) = s_next_id s).
        { pose proof (fail_op_fields enc dec ores ires cfg s4c i k) as Hf. unfold SvcTimeout.queue_fields in Hf.
          repeat match goal with H : (_, _) = (_, _) |- _ => apply pair_equal_spec in H; destruct H end.
          assert (E : s_next_id s4c = s_next_id s4) by (unfold s4c; destruct (r_alias r); reflexivity).
          unfold core_of in Hc4. inversion Hc4. congruence. }
        assert (Hgone : is_panic (r_out (fail_op cfg s4c i k)) = false -> forall x, J (halt_on_error (r_s (fail_op cfg s4c i k)) x) g).
        { intros Hnp x. apply halt_J. apply J_gone.
          - intros Hph. pose proof (J_lt i s g Hph HJ) as Hlt. lia.
          - unfold getop. rewrite (fail_op_lookup enc dec ores ires cfg s4c i k i Hnp), N.eqb_refl. reflexivity. }
        assert (Hnl : forallb (neutralb i)
                  (OPick i :: lr ++ OValid i packet r (Err k) ::
                     match r_alias r with Some _ => [OReset (match s_settings s4 with Some st => st_topic_alias_maximum_to_server st | None => 0 end)] | None => [] end ++ [ORejected i k]) = true).
        { apply neutral_cons; [reflexivity|]. apply neutral_app; [exact Hlr|]. apply neutral_cons; [reflexivity|]. destruct (r_alias r); reflexivity. }
        destruct (r_out (fail_op cfg s4c i k)) as [u|k'|site] eqn:Eo; cbn [seat_post] in Hpost.
        * apply neutral_seat; [exact Hnl|]. exact (Hgone eq_refl (Ok tt)).
        * apply neutral_seat; [exact Hnl|]. cbn [sr_s sr_out]. exact (Hgone eq_refl (Err k')).
        * exfalso. destruct Hpost as (_ & _ & Hnp & _). eapply Hnp. reflexivity.
      + apply neutral_seat; [apply neutral_cons; [reflexivity|apply neutral_app; [exact Hlr|reflexivity]]|]. cbn [sr_s sr_out halt_on_error]. exact Hhalt4.
    - (* another operation is seated: a frame *)
      assert (HJ2 : J s2 g) by (eapply quiet_J; [|exact HJ]; apply (seat_other_quiet i s s1 m id Hcur B Dq Hne)).
      assert (Hen : forall p r, neutralb i (OEncode id p r true) = true) by (intros; cbn; apply negb_true_iff, N.eqb_neq; exact Hne).
      destruct (op_exists s2 id) eqn:Eex; cbn [negb] in *.
      2:{ apply neutral_seat; [reflexivity|]. eapply quiet_J; [|exact HJ2]. apply quiet_unseat. cbn. congruence. }
      assert (Hex : exists o, getop s2 id = Some o).
      { unfold op_exists in Eex. unfold getop. destruct (lookup id (s_ops s2)) as [o|]; [eauto|discriminate]. }
      destruct Hex as (o & Ho2).
      pose proof (acquire_pid_for_spec [] s2 id o HW2 eq_refl Ho2) as Haq.
      destruct (acquire_pid_for s2 id) as [s3|k|site] eqn:Eaq; [| |destruct Haq].
      2:{ apply neutral_seat; [reflexivity|]. cbn [sr_s sr_out]. apply halt_J. exact HJ2. }
      destruct Haq as (HW3 & Baq & _).
      assert (HJ3 : J s3 g) by (eapply quiet_J; [|exact HJ2]; apply (acquire_quiet i s2 s3 id Eaq Hne)).
      assert (Hc3 : s_cur s3 = Some id) by (unfold but_aq in Baq; tuple_eqs Baq; cbn in *; congruence).
      destruct (lookup id (s_ops s3)) as [o3|] eqn:Ho3.
      2:{ apply neutral_seat; [reflexivity|]. cbn [sr_s sr_out]. apply halt_J. exact HJ3. }
      set (packet := match op_pubrel o3 with Some pr => pr | None => op_packet o3 end) in *.
      match goal with |- context [OPick id :: ?l ++ _] => set (lr := l) in * end.
      assert (Hlr : forallb (neutralb i) lr = true) by (unfold lr; destruct packet; reflexivity).
      assert (Hres : match (match packet with
                            | Publish pb => do (o2, r) <- ores_resolve (s_ores s3) (pub_alias pb) (pub_topic pb) ; Ok (s3 <| s_ores := o2 |>, r)
                            | _ => Ok (s3, no_resolution) end) with
                     | Ok (s4, r) => core_of s4 = core_of s3 /\ s_st s4 = s_st s3
                     | _ => True end).
      { destruct packet; try (split; reflexivity). destruct (ores_resolve (s_ores s3) (pub_alias p) (pub_topic p)) as [[o2 r]|k|site]; cbn [obind]; [split; reflexivity|exact I|exact I]. }
      destruct (match packet with
                | Publish pb => do (o2, r) <- ores_resolve (s_ores s3) (pub_alias pb) (pub_topic pb) ; Ok (s3 <| s_ores := o2 |>, r)
                | _ => Ok (s3, no_resolution) end) as [[s4 r]|k|site].
      2,3: apply neutral_seat; [apply neutral_cons; [reflexivity|exact Hlr]|]; cbn [sr_s sr_out]; apply halt_J; exact HJ3.
      destruct Hres as [Hc4 Hst4].
      assert (HJ4 : J s4 g) by (eapply J_core; [exact Hc4|exact Hst4|exact HJ3]).
      destruct (v_out (s_settings s4) (cf_connect cfg) r packet) as [u|k|site] eqn:Ev.
      + destruct (enc_reset (cf_version cfg) packet r) as [e|k|site].
        * apply neutral_seat; [apply neutral_cons; [reflexivity|apply neutral_app; [exact Hlr|apply neutral_cons; [reflexivity|apply neutral_cons; [apply Hen|reflexivity]]]]|].
          eapply J_core; [| |exact HJ4]; reflexivity.
        * apply neutral_seat; [apply neutral_cons; [reflexivity|apply neutral_app; [exact Hlr|reflexivity]]|]. cbn [sr_s sr_out]. apply halt_J. exact HJ4.
        * apply neutral_seat; [apply neutral_cons; [reflexivity|apply neutral_app; [exact Hlr|reflexivity]]|]. cbn [sr_s sr_out]. apply halt_J. exact HJ4.
      + match goal with |- context [fail_op cfg ?sx id k] => set (s4c := sx) in * end.
        assert (HJc : J s4c g).
        { assert (HJ4' : J (match r_alias r with
                           | Some _ => s4 <| s_ores := ores_reset (s_ores s4) (match s_settings s4 with Some st => st_topic_alias_maximum_to_server st | None => 0 end) |>
                           | None => s4 end) g) by (destruct (r_alias r); [eapply J_core; [| |exact HJ4]; reflexivity|exact HJ4]).
          eapply quiet_J; [|exact HJ4']. apply quiet_unseat. unfold core_of in Hc4. inversion Hc4. destruct (r_alias r); cbn; congruence. }
        assert (Hpcc : SvcTimeout.pid_consistent enc dec ores ires s4c).
        { eapply (pc_fields s3); [| |apply wfs_pid_consistent; exact HW3]; unfold core_of in Hc4; inversion Hc4; unfold s4c; destruct (r_alias r); cbn; congruence. }
        assert (HJf : J (r_s (fail_op cfg s4c id k)) g) by (eapply quiet_J; [|exact HJc]; apply shrink_quiet, fail_op_shrink; exact Hpcc).
        assert (Hnl : forallb (neutralb i)
                  (OPick id :: lr ++ OValid id packet r (Err k) ::
                     match r_alias r with Some _ => [OReset (match s_settings s4 with Some st => st_topic_alias_maximum_to_server st | None => 0 end)] | None => [] end ++ [ORejected id k]) = true).
        { apply neutral_cons; [reflexivity|]. apply neutral_app; [exact Hlr|]. apply neutral_cons; [reflexivity|]. destruct (r_alias r); reflexivity. }
        destruct (r_out (fail_op cfg s4c id k)) as [u|k'|site] eqn:Eo.
        * apply neutral_seat; [exact Hnl|]. exact HJf.
        * apply neutral_seat; [exact Hnl|]. cbn [sr_s sr_out]. apply halt_J. exact HJf.
        * apply neutral_seat; [exact Hnl|]. cbn [sr_s sr_out]. apply halt_J. exact HJf.
      + apply neutral_seat; [apply neutral_cons; [reflexivity|apply neutral_app; [exact Hlr|reflexivity]]|]. cbn [sr_s sr_out]. apply halt_J. exact HJ4.
  Qed.

  (* ---- the encode half of an iteration ---- *)
  Lemma encode_next_J now cap fill (s5 : state) acc dn g id :
    WF cfg s5 -> cinv HC s5 -> WFService3.live s5 -> s_cur s5 = Some id -> 4 <= cap -> PL s5 -> J s5 g ->
    match encode_next now cap fill s5 acc dn with
    | inl r => J (halt_on_error (sr_s r) (sr_out r)) g
    | inr (s7, _) =>
        J s7 (gnext i g (DO (ODone id))) /\ WF cfg s7 /\ cinv HC s7 /\ s_cur s7 = None /\ qlen s7 = qlen s5 /\
        (s_st s7 = s_st s5 \/ s_st s7 = PendingDisconnect) /\ PL s7
    end.
  Proof.
    intros [HW HP0] HI Hl Ec Hcap HP HJ. unfold HandshakeRunTrace.encode_next. rewrite Ec.
    destruct (op_exists s5 id) eqn:Eex; cbn [negb]; [|cbn [sr_s sr_out]; apply halt_J; exact HJ].
    assert (Hex : exists o, getop s5 id = Some o).
    { unfold op_exists in Eex. unfold getop. destruct (lookup id (s_ops s5)) as [o|]; [eauto|discriminate]. }
    destruct Hex as (o & Ho).
    assert (Hcok : cur_ok s5).
    { unfold WFP in HP0. destruct Hl as [E|E]; rewrite E in HP0; tauto. }
    destruct (Hcok id o Ec Ho) as (Henc & Hbound).
    destruct (s_enc s5) as [e|] eqn:Ee; [|congruence].
    destruct (co_enc_call HC e (fill + len acc) cap (proj1 HI e Ee) Hcap) as (Hnpc & Hinvc).
    destruct (enc_call e (fill + len acc) cap) as [[out e']|kk|site] eqn:Ecall; [|cbn [sr_s sr_out]; apply halt_J; exact HJ|cbn [sr_s sr_out]; apply halt_J; exact HJ].
    cbv zeta. set (s6 := s5 <| s_enc := Some e' |>).
    assert (HI6 : cinv HC s6).
    { destruct HI as (_ & B & C & D). unfold cinv. cbn. splits; auto. intros e0 He0. inversion He0; subst. eapply Hinvc. reflexivity. }
    assert (HW6 : WFS s6) by exact HW.
    assert (HP6 : WFP cfg s6).
    { eapply (WFP_view cfg s5 s6); [reflexivity| |exact HP0]. intros _. cbn. discriminate. }
    assert (HPL6 : PL s6) by (eapply PL_core; [|exact HP]; reflexivity).
    assert (HJ6 : J s6 g) by (eapply J_core; [| |exact HJ]; reflexivity).
    destruct (enc_done e'); [|cbn [sr_s sr_out halt_on_error]; exact HJ6].
    destruct (fully_written_spec [] s6 now id o HW6 Ec Ho Hbound) as (s7 & E7 & HW7 & K7 & C7 & O7 & S7 & T7 & M7 & P7).
    rewrite E7.
    assert (Hst7 : s_st s7 = s_st s6 \/ s_st s7 = PendingDisconnect).
    { rewrite S7. destruct (is_disconnect (op_packet o)); tauto. }
    assert (Hal6 : alive s6) by exact Hl.
    split; [|splits].
    - destruct (N.eq_dec id i) as [->|Hne].
      + eapply (written_self i s6 s7 g now o HJ6 Hal6 E7); [exact Ec|exact Ho].
      + assert (Eg : gnext i g (DO (ODone id)) = g) by (cbn; apply N.eqb_neq in Hne; rewrite Hne; reflexivity).
        rewrite Eg. eapply quiet_J; [|exact HJ6].
        eapply (fully_written_other i s6 s7 now id o E7 Ec Ho Hne); [apply wfs_pid_consistent; exact HW6|].
        intros p Hp Hn. destruct (op_pid o) as [p'|] eqn:Hp'; [|exfalso; apply (Hbound Hn); reflexivity].
        destruct (w_bound _ _ HW6 _ _ _ Ho Hp') as (_ & Hk & _). congruence.
    - split; [exact HW7|]. eapply (WFP_written _ _ _ _ cfg s6 s7 id o now); eauto.
    - eapply cinv_comp; [|exact HI6]. unfold comp_of. pose proof K7 as Kt. unfold but_fw in Kt. tuple_eqs Kt. congruence.
    - exact C7.
    - unfold but_fw in K7. tuple_eqs K7. unfold qlen. cbn in *. congruence.
    - exact Hst7.
    - apply (fully_written_PL s6 s7 now id o); auto.
      + eapply WFS_PB; exact HW6.
      + exact (w_ppub_inc _ _ HW6).
      + intros Hn. destruct (op_pid o) as [p|] eqn:Hp; [|exfalso; apply (Hbound Hn); reflexivity].
        exists p. split; [reflexivity|]. apply (w_bound _ _ HW6 _ _ _ Ho Hp).
  Qed.

  (* ---- the loop ---- *)
  Definition loop_J (g : gst) (x : sres * list oev) : Prop :=
    accepts i g (map DO (snd x)) /\ J (halt_on_error (sr_s (fst x)) (sr_out (fst x))) (grun i g (map DO (snd x))).

  Lemma loop_J_app g l (x : sres * list oev) :
    accepts i g (map DO l) -> loop_J (grun i g (map DO l)) x -> loop_J g (fst x, l ++ snd x).
  Proof.
    intros Ha [Hb Hc]. unfold loop_J. cbn [fst snd]. rewrite map_app, grun_app. split; [apply accepts_app; split; assumption|exact Hc].
  Qed.

  Lemma service_loop_J : forall f (s : state) m now cap fill acc dn g,
    WF cfg s -> cinv HC s -> (s_st s = PendingConnack -> m = false) -> (mu s < f)%nat -> 4 <= cap -> PL s -> J s g ->
    loop_J g (service_loop_a f s m now cap fill acc dn).
  Proof.
    induction f as [|f IH]; intros s m now cap fill acc dn g [HW HP0] HI Hm Hmu Hcap HP HJ; [lia|].
    cbn [AliasRunLog.service_loop_a].
    destruct (negb (pstate_eqb (s_st s) PendingConnack || pstate_eqb (s_st s) Connected)) eqn:Eg.
    { unfold loop_J. cbn. split; [exact I|exact HJ]. }
    pose proof (live_guard _ _ _ _ s Eg) as Hl.
    (* the encode half and the rest of the loop *)
    assert (Henc : forall (s5 : state) l id, WF cfg s5 -> cinv HC s5 -> WFService3.live s5 -> s_cur s5 = Some id -> PL s5 ->
              (s_st s5 = PendingConnack -> m = false) -> (qlen s5 < f)%nat ->
              accepts i g (map DO l) -> J s5 (grun i g (map DO l)) ->
              loop_J g (match encode_next now cap fill s5 acc dn with
                        | inl r => (r, l)
                        | inr (s7, acc') =>
                            let rt := service_loop_a f s7 m now cap fill acc' dn in
                            (fst rt, l ++ match s_cur s5 with Some id => [ODone id] | None => [] end ++ snd rt)
                        end)).
    { intros s5 l id HWF5 HI5 Hl5 Hc5 HP5 Hm5 Hq5 Ha5 HJ5.
      pose proof (encode_next_J now cap fill s5 acc dn (grun i g (map DO l)) id HWF5 HI5 Hl5 Hc5 Hcap HP5 HJ5) as He.
      destruct (encode_next now cap fill s5 acc dn) as [r|[s7 acc']].
      - unfold loop_J. cbn [fst snd]. split; assumption.
      - destruct He as (HJ7 & HWF7 & HI7 & Hc7 & Hq7 & Hst7 & HP7). rewrite Hc5. cbv zeta.
        apply (loop_J_app g l (fst (service_loop_a f s7 m now cap fill acc' dn), ODone id :: snd (service_loop_a f s7 m now cap fill acc' dn))); [exact Ha5|].
        assert (Hd : gok i (grun i g (map DO l)) (DO (ODone id))) by exact I.
        assert (IH7 : loop_J (gnext i (grun i g (map DO l)) (DO (ODone id))) (service_loop_a f s7 m now cap fill acc' dn)).
        { apply IH; auto.
          - intros E. apply Hm5. destruct Hst7; congruence.
          - unfold WFService3.mu. rewrite Hc7, Hq7. lia. }
        destruct IH7 as [A7 B7]. unfold loop_J. cbn [fst snd map accepts]. split; [split; [exact Hd|exact A7]|].
        unfold grun. cbn [fold_left]. exact B7. }
    destruct (s_cur s) as [id0|] eqn:Ec.
    - (* an operation is seated already *)
      assert (Es : seat_current_a s m acc dn = (SeatEncode s, [])) by (unfold AliasRunLog.seat_current_a; rewrite Ec; reflexivity).
      rewrite Es. apply (Henc s [] id0); auto; [split; assumption| |exact I].
      unfold WFService3.mu in Hmu. rewrite Ec in Hmu. lia.
    - assert (H9 : W9 cfg s).
      { intros E. unfold WFP in HP0. rewrite E in HP0. tauto. }
      assert (Hv : s_settings s <> None \/
                   (m = false /\ forall id o, In id (s_hq s) -> getop s id = Some o -> is_connect (op_packet o) = true)).
      { unfold WFP in HP0. destruct Hl as [E|E]; rewrite E in HP0.
        - right. split; [auto|]. intros id o Hi Ho. destruct HP0 as (_ & _ & _ & _ & A5 & _).
          destruct (A5 id (or_introl Hi)) as (o1 & Ho1 & C1 & _). congruence.
        - left. tauto. }
      pose proof (seat_gen _ _ _ _ _ _ _ _ _ _ _ _ _ _ _ HC s m acc dn HW Ec H9 Hv HI) as Hpost.
      pose proof (seat_current_PL enc enc_reset dec ores ores_reset ores_resolve ires v_out cfg s m acc dn HW Ec HP) as Hpl.
      pose proof (seat_current_J s m acc dn g HW Ec H9 Hv HI HP Hl Hm HJ) as Hsj.
      pose proof (seat_current_a_fst enc enc_reset dec ores ores_reset ores_resolve ires v_out cfg s m acc dn) as Efst.
      destruct (seat_current_a s m acc dn) as [x l] eqn:Esa. cbn [fst] in Efst. rewrite <- Efst in Hpost, Hpl.
      destruct Hsj as [Ha Hj]. cbn [fst snd] in Ha, Hj.
      destruct x as [r|s5 dn'|s5]; cbn [seat_post seat_PL] in Hpost, Hpl.
      + unfold loop_J. cbn [fst snd]. split; assumption.
      + destruct Hpost as (HI5 & _ & HW5 & Hc5 & id & Hcase).
        assert (H5 : WFP cfg s5 /\ s_st s5 = s_st s /\ qlen s = S (qlen s5)).
        { destruct Hcase as [(G & K & D & Eo & Ee)|(s4 & Hsd & F & Hc4 & H95 & Hg)].
          - split; [eapply WFP_skip; eauto|]. split; [|eapply dq_rel_qlen; eauto].
            unfold seat_keep in K. tuple_eqs K. congruence.
          - split; [eapply WFP_failed; eauto|].
            destruct Hsd as [K D _ _ _]. unfold seat_keep in K. tuple_eqs K.
            destruct (rest_fields _ _ (fc_rest _ _ _ F)) as (R1 & R2 & R3 & _).
            split.
            + destruct (fc_st _ _ _ F) as [E|[E _]]; [congruence|]. destruct Hl; congruence.
            + rewrite (dq_rel_qlen _ _ _ _ _ _ _ _ D). unfold qlen. congruence. }
        destruct H5 as (HP5 & Hst5 & Hq5).
        apply loop_J_app; [exact Ha|].
        apply IH; [split; assumption|exact HI5|rewrite Hst5; exact Hm| |exact Hcap|exact Hpl|exact Hj].
        unfold WFService3.mu in *. rewrite Hc5, Ec in *. lia.
      + destruct Hpost as (HI5 & _ & HW5 & id & Hsd & Hc5 & He5).
        assert (HP5 : WFP cfg s5) by exact (WFP_seated _ _ _ _ cfg m s s5 id HW HP0 Hl Ec Hm Hsd Hc5 He5).
        assert (Hst5 : s_st s5 = s_st s) by (destruct Hsd as [K _ _ _ _]; unfold seat_keep in K; tuple_eqs K; congruence).
        assert (Hq5 : qlen s = S (qlen s5)) by (destruct Hsd as [_ D _ _ _]; eapply dq_rel_qlen; eauto).
        apply (Henc s5 l id); auto; [split; assumption|unfold WFService3.live in *; rewrite Hst5; exact Hl|rewrite Hst5; exact Hm|].
        unfold WFService3.mu in Hmu. rewrite Ec in Hmu. lia.
  Qed.

  (* ---- the service call ---- *)
  Lemma service_queue_J (s : state) m now cap fill g :
    WF cfg s -> cinv HC s -> (s_st s = PendingConnack -> m = false) -> 4 <= cap -> PL s -> J s g ->
    let l := snd (service_loop_a (queue_fuel enc dec ores ires s) s m now cap fill [] []) in
    let q := service_queue s m now cap fill in
    accepts i g (map DO l) /\ J (halt_on_error (sr_s q) (sr_out q)) (grun i g (map DO l)).
  Proof.
    intros HWF HI Hm Hcap HP HJ. cbv zeta.
    rewrite (service_queue_a enc enc_reset enc_call enc_done dec ores ores_reset ores_resolve ires v_out cfg s m now cap fill). cbv zeta.
    assert (L : loop_J g (service_loop_a (queue_fuel enc dec ores ires s) s m now cap fill [] [])).
    { apply service_loop_J; auto. unfold WFService3.mu, qlen, HandshakeRunTrace.queue_fuel. destruct (s_cur s); lia. }
    destruct L as [La Lb]. split; [exact La|].
    set (r := fst (service_loop_a (queue_fuel enc dec ores ires s) s m now cap fill [] [])) in *.
    destruct (sr_bytes r); [exact Lb|]. cbn [sr_s sr_out].
    eapply J_core; [| |exact Lb]; destruct (sr_out r); reflexivity.
  Qed.

  Theorem service_J (s : state) now cap fill g :
    WF cfg s -> cinv HC s -> now <= TMAX -> 4 <= cap -> PL s -> J s g ->
    accepts i g (map DO (service_log s now cap fill)) /\
    J (sr_s (service s now cap fill)) (grun i g (map DO (service_log s now cap fill))).
  Proof.
    intros HWF HI Hnow Hcap HP HJ. pose proof HWF as [HW HP0]. unfold Model.service, AliasRunLog.service_log. cbv zeta. cbn [sr_s].
    destruct (s_st s) eqn:Est.
    - cbn. split; [exact I|exact HJ].
    - destruct (s_connack_to s) as [t|]; [|cbn; split; [exact I|apply halted_J; exact HJ]].
      destruct (t <=? now); [cbn; split; [exact I|apply halted_J; exact HJ]|].
      apply service_queue_J; auto.
    - pose proof (service_keep_alive_spec _ _ _ _ cfg Hcfg s now HWF Est Hnow) as Hka.
      destruct (service_keep_alive cfg s now) as [s1|k|site] eqn:Ek; [|cbn; split; [exact I|apply halted_J; exact HJ]|destruct Hka].
      destruct Hka as (HWF1 & Hst1 & Hc1 & _). pose proof (service_keep_alive_PL _ _ _ _ cfg s s1 now HW HP Ek) as Hkp.
      assert (HI1 : cinv HC s1) by (eapply cinv_comp; [exact Hc1|exact HI]).
      assert (HJ1 : J s1 g) by (eapply quiet_J; [|exact HJ]; eapply service_keep_alive_quiet; exact Ek).
      pose proof (service_queue_spec _ _ _ enc_done _ _ _ _ _ _ _ _ _ _ _ _ HC s1 true now cap fill HWF1 HI1 (fun E => ltac:(congruence)) Hcap) as (L1 & L2 & _).
      destruct (service_queue_J s1 true now cap fill g HWF1 HI1 (fun E => ltac:(congruence)) Hcap Hkp HJ1) as [Qa Qb].
      unfold AliasRunLog.service_queue_log. split; [exact Qa|].
      set (q := service_queue s1 true now cap fill) in *.
      destruct (sr_out q) as [u|k|site] eqn:Eq; [|rewrite Eq; exact Qb|rewrite Eq; exact Qb].
      cbn [sr_s sr_out halt_on_error] in *. apply halt_J. eapply quiet_J; [|exact Qb].
      apply process_ack_timeouts_quiet. apply wfs_pid_consistent. exact L2.
    - cbn [sr_s sr_out map grun fold_left accepts]. split; [exact I|]. apply halt_J. eapply quiet_J; [|exact HJ].
      apply process_ack_timeouts_quiet. apply wfs_pid_consistent. exact HW.
    - cbn. split; [exact I|apply halted_J; exact HJ].
  Qed.
End Serve.
