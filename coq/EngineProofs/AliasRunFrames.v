(* C17, engine level: frame lemmas.  Nothing but seat_current (outbound resolver, current operation),
   handle_connack (both resolvers, settings), handle_packets (inbound resolver), fully_written /
   close / open / reset (current operation, settings) touches the fields the alias theorems read. *)
From GM Require Import Base.Prelude Base.Outcome Codec.Packets Codec.Settings Engine.Model
  EngineProofs.AssocLemmas.
From RecordUpdate Require Import RecordSet.
Import RecordSetNotations.
Open Scope N_scope.
#[local] Set Default Proof Using "Type".

(* the four component types are implicit in the engine functions, locally to this file *)
#[local] Arguments init {enc dec} _ {ores ires} _ _.
#[local] Arguments release {enc dec ores ires} _ _ _ _.
#[local] Arguments disconnect_completion {enc dec ores ires} _ _.
#[local] Arguments fail_op {enc dec ores ires} _ _ _ _.
#[local] Arguments ping_extension {enc dec ores ires} _ _.
#[local] Arguments succeed_op {enc dec ores ires} _ _ _ _.
#[local] Arguments fail_all {enc dec ores ires} _ _ _ _.
#[local] Arguments succeed_all {enc dec ores ires} _ _ _.
#[local] Arguments andthen {enc dec ores ires} _ _.
#[local] Arguments try_ {enc dec ores ires} _ _.
#[local] Arguments pure {enc dec ores ires} _.
#[local] Arguments create_operation {enc dec ores ires} _ _.
#[local] Arguments passes_now {enc dec ores ires} _ _ _.
#[local] Arguments user_event {enc dec ores ires} _ _ _ _.
#[local] Arguments create_connect {enc dec ores ires} _ _.
#[local] Arguments net_opened {enc dec} _ {ores ires} _ _ _.
#[local] Arguments op_exists {enc dec ores ires} _ _.
#[local] Arguments op_passes {enc dec ores ires} _ _ _.
#[local] Arguments partition_policy {enc dec ores ires} _ _ _.
#[local] Arguments closed_current {enc dec ores ires} _ _.
#[local] Arguments slow_start_init {enc dec ores ires} _ _.
#[local] Arguments update_retries {enc dec ores ires} _ _.
#[local] Arguments fail_exceeding {enc dec ores ires} _ _.
#[local] Arguments has_pubrel {enc dec ores ires} _ _.
#[local] Arguments net_closed_raw {enc dec ores ires} _ _.
#[local] Arguments net_closed {enc dec ores ires} _ _.
#[local] Arguments net_write_completion {enc dec ores ires} _ _.
#[local] Arguments acquire_free_pid {enc dec ores ires} _ _.
#[local] Arguments acquire_pid_for {enc dec ores ires} _ _.
#[local] Arguments unbind {enc dec ores ires} _ _.
#[local] Arguments passes_receive_max {enc dec ores ires} _ _.
#[local] Arguments throttled {enc dec ores ires} _ _.
#[local] Arguments has_pending_ack {enc dec ores ires} _.
#[local] Arguments dequeue {enc dec ores ires} _ _ _.
#[local] Arguments fully_written {enc dec ores ires} _ _.
#[local] Arguments service_keep_alive {enc dec ores ires} _ _ _.
#[local] Arguments process_ack_timeouts {enc dec ores ires} _ _ _.
#[local] Arguments halt_on_error {enc dec ores ires} _ _.
#[local] Arguments next_service_time {enc dec ores ires} _ _ _.
#[local] Arguments build_settings {enc dec ores ires} _ _ _.
#[local] Arguments apply_session {enc dec ores ires} _ _ _.
#[local] Arguments hres_of {enc dec ores ires} _ _.
#[local] Arguments pre_connack {enc dec ores ires} _.
#[local] Arguments sum_ss {enc dec ores ires} _.
#[local] Arguments handle_pingresp {enc dec ores ires} _.
#[local] Arguments handle_suback {enc dec ores ires} _ _ _.
#[local] Arguments handle_unsuback {enc dec ores ires} _ _ _.
#[local] Arguments publish_qos_of {enc dec ores ires} _ _.
#[local] Arguments handle_puback {enc dec ores ires} _ _ _.
#[local] Arguments handle_pubrec {enc dec ores ires} _ _ _.
#[local] Arguments handle_pubrel {enc dec ores ires} _ _.
#[local] Arguments handle_pubcomp {enc dec ores ires} _ _ _.
#[local] Arguments handle_publish {enc dec ores ires} _ _.
#[local] Arguments handle_disconnect {enc dec ores ires} _ _ _.
#[local] Arguments is_connect_op {enc dec ores ires} _ _.
#[local] Arguments connect_in_queue {enc dec ores ires} _.
#[local] Arguments reset {enc dec ores ires} _ _.
#[local] Arguments out_of_res {enc dec ores ires} _ _.
#[local] Arguments nst_queue {enc dec ores ires} _ _ _ _.
#[local] Arguments earliest_tmo {enc dec ores ires} _.
#[local] Arguments SeatStop {enc dec ores ires} _.
#[local] Arguments SeatContinue {enc dec ores ires} _ _.
#[local] Arguments SeatEncode {enc dec ores ires} _.



Section Frames.
  Context {enc dec ores ires : Type}.
  Variable cfg : config.
  Notation state := (state enc dec ores ires).
  Notation res := (res enc dec ores ires).

  (* the fields the alias theorems read *)
  Definition al_of (s : state) := (s_ores s, s_ires s, s_cur s, s_settings s).

  Lemma al_fields (s s' : state) : al_of s' = al_of s ->
    s_ores s' = s_ores s /\ s_ires s' = s_ires s /\ s_cur s' = s_cur s /\ s_settings s' = s_settings s.
  Proof. unfold al_of. intros H. inversion H. auto. Qed.

  Lemma release_al (s s' : state) id o : release cfg s id o = Ok s' -> al_of s' = al_of s.
  Proof.
    unfold release. destruct (op_pid o);
      destruct (_ && _ && _); try destruct (_ <=? _); intros H; inversion H; subst; reflexivity.
  Qed.

  Lemma disconnect_completion_al (s : state) o : al_of (fst (disconnect_completion s o)) = al_of s.
  Proof.
    unfold disconnect_completion. destruct (is_disconnect (op_packet o)); cbn; [|reflexivity].
    destruct (pstate_eqb (s_st s) PendingDisconnect); reflexivity.
  Qed.

  Lemma fail_op_al (s : state) id e : al_of (r_s (fail_op cfg s id e)) = al_of s.
  Proof.
    unfold fail_op. destruct (lookup id (s_ops s)) as [o|]; [|reflexivity].
    destruct (release cfg s id o) as [s1|k|site] eqn:Er; cbn; try reflexivity.
    pose proof (release_al _ _ _ _ Er) as H1.
    pose proof (disconnect_completion_al s1 o) as H2.
    destruct (disconnect_completion s1 o) as [s2 r]. cbn in H2.
    destruct r; [destruct (op_user o)|..]; cbn; congruence.
  Qed.

  Lemma ping_extension_al (s : state) o : al_of (ping_extension s o) = al_of s.
  Proof.
    unfold ping_extension.
    destruct (match op_packet o with Subscribe _ | Unsubscribe _ => op_ext o | Publish pb => _ | _ => None end); [|reflexivity].
    destruct (s_settings s) eqn:E; [|reflexivity]. destruct (s_next_ping s); [|reflexivity].
    destruct (_ <? _); reflexivity.
  Qed.

  Lemma succeed_op_al (s : state) id resp : al_of (r_s (succeed_op cfg s id resp)) = al_of s.
  Proof.
    unfold succeed_op. destruct (lookup id (s_ops s)) as [o|]; [|reflexivity].
    destruct (release cfg s id o) as [s1|k|site] eqn:Er; cbn; try reflexivity.
    pose proof (release_al _ _ _ _ Er) as H1.
    pose proof (ping_extension_al s1 o) as H1'.
    pose proof (disconnect_completion_al (ping_extension s1 o) o) as H2.
    destruct (disconnect_completion (ping_extension s1 o) o) as [s2 r]. cbn in H2.
    assert (al_of s2 = al_of s) by congruence.
    destruct r; [destruct (op_user o); [destruct (success_value o resp)|]|..]; cbn; assumption.
  Qed.

  Lemma fail_all_al ids : forall (s : state) e, al_of (r_s (fail_all cfg s ids e)) = al_of s.
  Proof.
    induction ids as [|id rest IH]; intros s e; cbn [fail_all]; [reflexivity|].
    pose proof (fail_op_al s id e) as H1.
    destruct (is_panic (r_out (fail_op cfg s id e))); [exact H1|].
    pose proof (IH (r_s (fail_op cfg s id e)) e) as H2.
    destruct (is_panic _); cbn; congruence.
  Qed.

  Lemma succeed_all_al ids : forall (s : state), al_of (r_s (succeed_all cfg s ids)) = al_of s.
  Proof.
    induction ids as [|id rest IH]; intros s; cbn [succeed_all]; [reflexivity|].
    pose proof (succeed_op_al s id None) as H1.
    destruct (is_panic (r_out (succeed_op cfg s id None))); [exact H1|].
    pose proof (IH (r_s (succeed_op cfg s id None))) as H2.
    destruct (is_panic _); cbn; congruence.
  Qed.

  Lemma user_event_al (s : state) p t : al_of (r_s (user_event cfg s p t)) = al_of s.
  Proof.
    unfold user_event. cbn [create_operation].
    match goal with |- context [negb (passes_now cfg ?x p)] => destruct (negb (passes_now cfg x p)) end.
    - cbn [r_s]. rewrite fail_op_al. reflexivity.
    - destruct (is_disconnect p); reflexivity.
  Qed.

  Lemma net_write_completion_al (s : state) : al_of (r_s (net_write_completion cfg s)) = al_of s.
  Proof.
    unfold net_write_completion. destruct (_ || _); [reflexivity|]. destruct (negb (s_pwc s)); [reflexivity|].
    rewrite succeed_all_al. reflexivity.
  Qed.

  Lemma dequeue_al (s : state) m : al_of (fst (dequeue cfg s m)) = al_of s.
  Proof.
    unfold dequeue. destruct (s_pwc s); [reflexivity|]. destruct (s_hq s); [|reflexivity].
    destruct (negb m); [reflexivity|]. destruct (throttled cfg s && has_pending_ack s); [reflexivity|].
    destruct (s_rq s) as [|a r]; [destruct (s_uq s) as [|a r]; [reflexivity|]|]; destruct (passes_receive_max s a); reflexivity.
  Qed.

  Lemma acquire_pid_for_al (s s' : state) id : acquire_pid_for s id = Ok s' -> al_of s' = al_of s.
  Proof.
    unfold acquire_pid_for. destruct (lookup id (s_ops s)) as [o|]; [|discriminate].
    destruct (op_pid o); [intros H; inversion H; reflexivity|].
    destruct (negb (needs_pid (op_packet o))); [intros H; inversion H; reflexivity|].
    unfold acquire_free_pid. destruct (match first_gap _ _ _ with Some c => Some c | None => _ end) as [c|]; cbn; [|discriminate].
    destruct (with_pid c (op_packet o)); cbn; [|discriminate|discriminate]. intros H; inversion H; reflexivity.
  Qed.

  Lemma fully_written_al (s s' : state) now : fully_written s now = Ok s' ->
    s_cur s' = None /\ s_ores s' = s_ores s /\ s_ires s' = s_ires s /\ s_settings s' = s_settings s /\ s_enc s' = s_enc s.
  Proof.
    unfold fully_written. destruct (s_cur s) as [id|]; [|discriminate]. destruct (lookup id (s_ops s)) as [o|]; [|discriminate].
    destruct (if op_user o then op_timeout o else None) as [d|]; [destruct (IMAX <? now + d)|];
      destruct (op_packet o) as [| |pb| | | | | | | | | | | |]; cbn; try destruct (pub_qos pb =? 0); cbn;
      intros H; inversion H; repeat split; reflexivity.
  Qed.

  Lemma service_keep_alive_al (s s' : state) now : service_keep_alive cfg s now = Ok s' -> al_of s' = al_of s.
  Proof.
    unfold service_keep_alive. destruct (s_ping_to s) as [pt|].
    { destruct (pt <=? now); [discriminate|]. intros H; inversion H; reflexivity. }
    destruct (s_next_ping s) as [np|]; [|intros H; inversion H; reflexivity].
    destruct (np <=? now); [|intros H; inversion H; reflexivity].
    cbn [create_operation]. cbn. destruct (s_settings s) as [st|] eqn:Es; [|discriminate].
    unfold add_time. destruct (IMAX <? _); cbn; [discriminate|].
    destruct (0 <? st_server_keep_alive st); intros H; inversion H; unfold al_of; cbn; rewrite Es; reflexivity.
  Qed.

  Lemma process_ack_timeouts_al (s : state) now : al_of (r_s (process_ack_timeouts cfg s now)) = al_of s.
  Proof. unfold process_ack_timeouts. rewrite fail_all_al. reflexivity. Qed.

  Lemma halt_on_error_al (s : state) r : al_of (halt_on_error s r) = al_of s.
  Proof. destruct r; reflexivity. Qed.

  (* ---- session handling and the packet handlers ---- *)
  Lemma unbind_al (s : state) id : al_of (unbind s id) = al_of s.
  Proof.
    unfold unbind. destruct (lookup id (s_ops s)) as [o|]; [|reflexivity].
    destruct (op_pid o); [|reflexivity]. destruct (with_pid 0 (op_packet o)); reflexivity.
  Qed.

  Lemma fold_unbind_al l : forall (s : state), al_of (fold_left unbind l s) = al_of s.
  Proof. induction l as [|a l IH]; intros s; cbn; [reflexivity|]. rewrite IH. apply unbind_al. Qed.

  Lemma apply_session_al (s : state) sp : al_of (r_s (apply_session cfg s sp)) = al_of s.
  Proof.
    unfold apply_session.
    set (r1 := if sp then pure s else _).
    assert (H1 : al_of (r_s r1) = al_of s).
    { subst r1. destruct sp; [reflexivity|].
      destruct (partition_policy cfg s (s_rq s)) as [kept rejected].
      match goal with |- context [fail_all cfg ?x rejected ?e] => pose proof (fail_all_al rejected x e) as Hf; set (rf := fail_all cfg x rejected e) in * end.
      destruct (is_panic (r_out rf)); [exact Hf|]. cbn [r_s]. unfold al_of in *. cbn. exact Hf. }
    destruct (is_panic (r_out r1)); [exact H1|].
    set (s2 := fold_left unbind (s_uq (r_s r1)) (r_s r1)).
    assert (H2 : al_of s2 = al_of s) by (subst s2; rewrite fold_unbind_al; exact H1).
    set (s3 := s2 <| s_rq := Model.sort (s_rq s2) |> <| s_uq := Model.sort (s_uq s2) |>).
    assert (H3 : al_of s3 = al_of s) by exact H2.
    destruct (s_hq s3); [|exact H3]. destruct (s_ppub s3); [|exact H3]. destruct (s_pnon s3); [|exact H3].
    destruct (s_tmo s3); [|exact H3]. destruct (s_pwco s3); exact H3.
  Qed.

  (* what a packet handler surfaces as PUBLISH events: at most the packet itself *)
  Definition publishes (l : list packet) : list publish :=
    flat_map (fun p => match p with Publish pb => [pb] | _ => [] end) l.

  Lemma handle_pingresp_al (s : state) : al_of (h_s (handle_pingresp s)) = al_of s.
  Proof. unfold handle_pingresp. destruct (s_st s); try reflexivity; destruct (s_ping_to s); reflexivity. Qed.

  Lemma handle_suback_al (s : state) a : al_of (h_s (handle_suback cfg s a)) = al_of s.
  Proof.
    unfold handle_suback. destruct (pre_connack s); [reflexivity|]. destruct (lookup _ (s_pnon s)) as [id|]; [|reflexivity].
    destruct (lookup id (s_ops s)) as [o|]; [|reflexivity]. destruct (op_packet o); try reflexivity.
    destruct (negb _); [reflexivity|]. cbn. apply succeed_op_al.
  Qed.

  Lemma handle_unsuback_al (s : state) a : al_of (h_s (handle_unsuback cfg s a)) = al_of s.
  Proof.
    unfold handle_unsuback. destruct (pre_connack s); [reflexivity|]. destruct (lookup _ (s_pnon s)) as [id|]; [|reflexivity].
    destruct (lookup id (s_ops s)) as [o|]; [|reflexivity]. destruct (op_packet o); try reflexivity.
    destruct (version_eqb _ _); [cbn; apply succeed_op_al|]. destruct (negb _); [reflexivity|]. cbn. apply succeed_op_al.
  Qed.

  Lemma handle_puback_al (s : state) a : al_of (h_s (handle_puback cfg s a)) = al_of s.
  Proof.
    unfold handle_puback. destruct (pre_connack s); [reflexivity|]. destruct (lookup _ (s_ppub s)) as [id|]; [|reflexivity].
    destruct (publish_qos_of s id) as [q|]; [|reflexivity]. destruct q as [|q]; [reflexivity|].
    destruct q; try reflexivity. cbn. apply succeed_op_al.
  Qed.

  Lemma handle_pubrec_al (s : state) a : al_of (h_s (handle_pubrec cfg s a)) = al_of s.
  Proof.
    unfold handle_pubrec. destruct (pre_connack s); [reflexivity|]. destruct (lookup _ (s_ppub s)) as [id|]; [|reflexivity].
    destruct (lookup id (s_ops s)) as [o|]; [|reflexivity]. destruct (op_packet o); try reflexivity.
    destruct (_ =? 2); [|reflexivity]. destruct (128 <=? _); [cbn; apply succeed_op_al|reflexivity].
  Qed.

  Lemma handle_pubrel_al (s : state) a : al_of (h_s (handle_pubrel s a)) = al_of s.
  Proof. unfold handle_pubrel. destruct (pre_connack s); reflexivity. Qed.

  Lemma handle_pubcomp_al (s : state) a : al_of (h_s (handle_pubcomp cfg s a)) = al_of s.
  Proof.
    unfold handle_pubcomp. destruct (pre_connack s); [reflexivity|]. destruct (lookup _ (s_ppub s)) as [id|]; [|reflexivity].
    destruct (lookup id (s_ops s)) as [o|]; [|reflexivity]. destruct (op_packet o); try reflexivity.
    destruct (_ =? 2); [|reflexivity]. destruct (op_pubrel o); [cbn; apply succeed_op_al|reflexivity].
  Qed.

  Lemma handle_publish_al (s : state) pb : al_of (h_s (handle_publish s pb)) = al_of s.
  Proof.
    unfold handle_publish. destruct (pre_connack s); [reflexivity|]. destruct (_ =? 0); [reflexivity|].
    destruct (_ =? 1); [reflexivity|]. destruct (mem _ _); reflexivity.
  Qed.

  Lemma handle_disconnect_al (s : state) d : al_of (h_s (handle_disconnect cfg s d)) = al_of s.
  Proof. unfold handle_disconnect. destruct (pre_connack s); [reflexivity|]. destruct (version_eqb _ _); reflexivity. Qed.

  Lemma handle_pingresp_ev (s : state) : publishes (h_ev (handle_pingresp s)) = [].
  Proof. unfold handle_pingresp. destruct (s_st s); try reflexivity; destruct (s_ping_to s); reflexivity. Qed.

  Lemma handle_suback_ev (s : state) a : publishes (h_ev (handle_suback cfg s a)) = [].
  Proof.
    unfold handle_suback. destruct (pre_connack s); [reflexivity|]. destruct (lookup _ (s_pnon s)) as [id|]; [|reflexivity].
    destruct (lookup id (s_ops s)) as [o|]; [|reflexivity]. destruct (op_packet o); try reflexivity.
    destruct (negb _); [reflexivity|]. reflexivity.
  Qed.

  Lemma handle_unsuback_ev (s : state) a : publishes (h_ev (handle_unsuback cfg s a)) = [].
  Proof.
    unfold handle_unsuback. destruct (pre_connack s); [reflexivity|]. destruct (lookup _ (s_pnon s)) as [id|]; [|reflexivity].
    destruct (lookup id (s_ops s)) as [o|]; [|reflexivity]. destruct (op_packet o); try reflexivity.
    destruct (version_eqb _ _); [reflexivity|]. destruct (negb _); [reflexivity|]. reflexivity.
  Qed.

  Lemma handle_puback_ev (s : state) a : publishes (h_ev (handle_puback cfg s a)) = [].
  Proof.
    unfold handle_puback. destruct (pre_connack s); [reflexivity|]. destruct (lookup _ (s_ppub s)) as [id|]; [|reflexivity].
    destruct (publish_qos_of s id) as [q|]; [|reflexivity]. destruct q as [|q]; [reflexivity|].
    destruct q; reflexivity.
  Qed.

  Lemma handle_pubrec_ev (s : state) a : publishes (h_ev (handle_pubrec cfg s a)) = [].
  Proof.
    unfold handle_pubrec. destruct (pre_connack s); [reflexivity|]. destruct (lookup _ (s_ppub s)) as [id|]; [|reflexivity].
    destruct (lookup id (s_ops s)) as [o|]; [|reflexivity]. destruct (op_packet o); try reflexivity.
    destruct (_ =? 2); [|reflexivity]. destruct (128 <=? _); [reflexivity|reflexivity].
  Qed.

  Lemma handle_pubrel_ev (s : state) a : publishes (h_ev (handle_pubrel s a)) = [].
  Proof. unfold handle_pubrel. destruct (pre_connack s); reflexivity. Qed.

  Lemma handle_pubcomp_ev (s : state) a : publishes (h_ev (handle_pubcomp cfg s a)) = [].
  Proof.
    unfold handle_pubcomp. destruct (pre_connack s); [reflexivity|]. destruct (lookup _ (s_ppub s)) as [id|]; [|reflexivity].
    destruct (lookup id (s_ops s)) as [o|]; [|reflexivity]. destruct (op_packet o); try reflexivity.
    destruct (_ =? 2); [|reflexivity]. destruct (op_pubrel o); [reflexivity|reflexivity].
  Qed.

  Lemma handle_disconnect_ev (s : state) d : publishes (h_ev (handle_disconnect cfg s d)) = [].
  Proof. unfold handle_disconnect. destruct (pre_connack s); [reflexivity|]. destruct (version_eqb _ _); reflexivity. Qed.

  Lemma handle_publish_ev (s : state) pb :
    publishes (h_ev (handle_publish s pb)) = [] \/ publishes (h_ev (handle_publish s pb)) = [pb].
  Proof.
    unfold handle_publish. destruct (pre_connack s); [left; reflexivity|]. destruct (_ =? 0); [right; reflexivity|].
    destruct (_ =? 1); [right; reflexivity|]. destruct (mem _ _); [left|right]; reflexivity.
  Qed.

End Frames.
