(* C07 / wire level, continued: PF (no operation acquires a CONNECT packet in its PUBREL slot) for the packet
   handlers, session handling, close, write completion, reset and hence for EVERY step; the invariant over runs. *)
From GM Require Import Base.Prelude Base.Outcome Codec.Packets Codec.Settings Engine.Model
  EngineProofs.AssocLemmas EngineProofs.WFLemmas EngineProofs.HandshakeRunTrace EngineProofs.HandshakeRunFrame EngineProofs.WireRunPubrel.
From RecordUpdate Require Import RecordSet.
Import RecordSetNotations.
Open Scope N_scope.
#[local] Set Default Proof Using "Type".

(* the four component types are implicit in the engine functions, locally to this file *)
#[local] Arguments init {enc dec} _ {ores ires} _ _.
#[local] Arguments release {enc dec ores ires} _ _ _ _.
#[local] Arguments disconnect_completion {enc dec ores ires} _ _.
#[local] Arguments fail_op {enc dec ores ires} _ _ _ _.
#[local] Arguments ping_extension {enc dec ores ires} _ _.
#[local] Arguments succeed_op {enc dec ores ires} _ _ _ _.
#[local] Arguments fail_all {enc dec ores ires} _ _ _ _.
#[local] Arguments succeed_all {enc dec ores ires} _ _ _.
#[local] Arguments andthen {enc dec ores ires} _ _.
#[local] Arguments try_ {enc dec ores ires} _ _.
#[local] Arguments pure {enc dec ores ires} _.
#[local] Arguments create_operation {enc dec ores ires} _ _.
#[local] Arguments passes_now {enc dec ores ires} _ _ _.
#[local] Arguments user_event {enc dec ores ires} _ _ _ _.
#[local] Arguments create_connect {enc dec ores ires} _ _.
#[local] Arguments net_opened {enc dec} _ {ores ires} _ _ _.
#[local] Arguments op_exists {enc dec ores ires} _ _.
#[local] Arguments op_passes {enc dec ores ires} _ _ _.
#[local] Arguments partition_policy {enc dec ores ires} _ _ _.
#[local] Arguments closed_current {enc dec ores ires} _ _.
#[local] Arguments slow_start_init {enc dec ores ires} _ _.
#[local] Arguments update_retries {enc dec ores ires} _ _.
#[local] Arguments fail_exceeding {enc dec ores ires} _ _.
#[local] Arguments has_pubrel {enc dec ores ires} _ _.
#[local] Arguments net_closed_raw {enc dec ores ires} _ _.
#[local] Arguments net_closed {enc dec ores ires} _ _.
#[local] Arguments net_write_completion {enc dec ores ires} _ _.
#[local] Arguments acquire_free_pid {enc dec ores ires} _ _.
#[local] Arguments acquire_pid_for {enc dec ores ires} _ _.
#[local] Arguments unbind {enc dec ores ires} _ _.
#[local] Arguments passes_receive_max {enc dec ores ires} _ _.
#[local] Arguments throttled {enc dec ores ires} _ _.
#[local] Arguments has_pending_ack {enc dec ores ires} _.
#[local] Arguments dequeue {enc dec ores ires} _ _ _.
#[local] Arguments fully_written {enc dec ores ires} _ _.
#[local] Arguments service_keep_alive {enc dec ores ires} _ _ _.
#[local] Arguments process_ack_timeouts {enc dec ores ires} _ _ _.
#[local] Arguments halt_on_error {enc dec ores ires} _ _.
#[local] Arguments next_service_time {enc dec ores ires} _ _ _.
#[local] Arguments build_settings {enc dec ores ires} _ _ _.
#[local] Arguments apply_session {enc dec ores ires} _ _ _.
#[local] Arguments hres_of {enc dec ores ires} _ _.
#[local] Arguments pre_connack {enc dec ores ires} _.
#[local] Arguments sum_ss {enc dec ores ires} _.
#[local] Arguments handle_pingresp {enc dec ores ires} _.
#[local] Arguments handle_suback {enc dec ores ires} _ _ _.
#[local] Arguments handle_unsuback {enc dec ores ires} _ _ _.
#[local] Arguments publish_qos_of {enc dec ores ires} _ _.
#[local] Arguments handle_puback {enc dec ores ires} _ _ _.
#[local] Arguments handle_pubrec {enc dec ores ires} _ _ _.
#[local] Arguments handle_pubrel {enc dec ores ires} _ _.
#[local] Arguments handle_pubcomp {enc dec ores ires} _ _ _.
#[local] Arguments handle_publish {enc dec ores ires} _ _.
#[local] Arguments handle_disconnect {enc dec ores ires} _ _ _.
#[local] Arguments is_connect_op {enc dec ores ires} _ _.
#[local] Arguments connect_in_queue {enc dec ores ires} _.
#[local] Arguments reset {enc dec ores ires} _ _.
#[local] Arguments out_of_res {enc dec ores ires} _ _.
#[local] Arguments nst_queue {enc dec ores ires} _ _ _ _.
#[local] Arguments earliest_tmo {enc dec ores ires} _.
#[local] Arguments SeatStop {enc dec ores ires} _.
#[local] Arguments SeatContinue {enc dec ores ires} _ _.
#[local] Arguments SeatEncode {enc dec ores ires} _.

Section PFrame2.
  Variable enc : Type.
  Variable enc_reset : version -> packet -> resolution -> outcome enc.
  Variable enc_call : enc -> N -> N -> outcome (bytes * enc).
  Variable enc_done : enc -> bool.
  Variable dec : Type.
  Variable dec_init : dec.
  Variable dec_feed : version -> N -> dec -> bytes -> dec * list packet * outcome unit.
  Variable ores : Type.
  Variable ores_reset : ores -> N -> ores.
  Variable ores_resolve : ores -> option N -> bytes -> outcome (ores * resolution).
  Variable ires : Type.
  Variable ires_reset : ires -> ires.
  Variable ires_resolve : ires -> option N -> bytes -> outcome (ires * bytes).
  Variable v_out : option settings -> connect_opts -> resolution -> packet -> outcome unit.
  Variable v_in : option settings -> packet -> outcome unit.
  Variable cfg : config.

  Notation state := (state enc dec ores ires).
  Notation res := (res enc dec ores ires).
  Notation step := (step enc enc_reset enc_call enc_done dec dec_init dec_feed ores ores_reset ores_resolve
                         ires ires_reset ires_resolve v_out v_in cfg).
  Notation service := (service enc enc_reset enc_call enc_done dec ores ores_reset ores_resolve ires v_out cfg).
  Notation handle_connack := (handle_connack enc dec ores ores_reset ires ires_reset v_in cfg).
  Notation handle_packet := (handle_packet enc dec ores ores_reset ires ires_reset v_in cfg).
  Notation handle_packets := (handle_packets enc dec ores ores_reset ires ires_reset ires_resolve v_in cfg).
  Notation net_data := (net_data enc dec dec_feed ores ores_reset ires ires_reset ires_resolve v_in cfg).
  Notation PF := (PF enc dec ores ires).
  Notation SUB := (SUB enc dec ores ires).

  Ltac kf_sub := apply SUB_PF.
  Ltac kf_id := first [apply PF_refl | apply PF_ops; reflexivity].

  (* ---- session handling ---- *)
  Lemma unbind_PF (s : state) id : PF s (unbind s id).
  Proof.
    unfold unbind. destruct (lookup id (s_ops s)) as [o|]; [|kf_id].
    assert (Hk : pkind (fun o : op => o <| op_pubrel := None |>)) by (intros o0; cbn; discriminate).
    destruct (op_pid o) as [pid|]; [|unfold WireRunPubrel.PF; cbn; apply PT_update; exact Hk].
    destruct (with_pid 0 (op_packet o)) as [p'| |] eqn:Ew; try (unfold WireRunPubrel.PF; cbn; apply PT_update; exact Hk).
    unfold WireRunPubrel.PF. cbn. eapply PT_trans; [|apply PT_update; exact Hk].
    apply PT_update. intros o0. cbn. auto.
  Qed.

  Lemma fold_unbind_PF ids : forall s : state, PF s (fold_left unbind ids s).
  Proof.
    induction ids as [|a r IH]; intros s; cbn [fold_left]; [kf_id|].
    eapply PF_trans; [apply unbind_PF|apply IH].
  Qed.

  Lemma apply_session_PF (s : state) sp : PF s (r_s (apply_session cfg s sp)).
  Proof.
    unfold apply_session.
    set (r1 := if sp then _ else _).
    assert (H1 : PF s (r_s r1)).
    { unfold r1. destruct sp; [kf_id|].
      destruct (partition_policy cfg s (s_rq s)) as [kept rejected].
      match goal with |- context [fail_all cfg ?sx rejected ?e] => pose proof (fail_all_sub enc dec ores ires cfg rejected sx e) as Hf;
        set (rf := fail_all cfg sx rejected e) in * end.
      assert (Hq : PF s (r_s rf)).
      { eapply PF_trans; [|kf_sub; exact Hf]. unfold WireRunPubrel.PF. cbn. apply PT_fold_update. apply pkind_set_dup. }
      destruct (is_panic (r_out rf)); [exact Hq|]. cbn [r_s]. eapply PF_trans; [exact Hq|kf_id]. }
    clearbody r1. destruct (is_panic (r_out r1)); [exact H1|].
    set (s2 := fold_left unbind (s_uq (r_s r1)) (r_s r1)).
    assert (H2 : PF s s2) by (eapply PF_trans; [exact H1|apply fold_unbind_PF]).
    set (s3 := s2 <| s_rq := sort (s_rq s2) |> <| s_uq := sort (s_uq s2) |>).
    assert (H3 : PF s s3) by exact H2.
    cbv zeta.
    repeat match goal with |- context [if ?b then _ else _] => destruct b end; cbn [r_s]; exact H3.
  Qed.

  Lemma handle_connack_PF (s : state) now c : PF s (h_s (handle_connack s now c)).
  Proof.
    unfold Model.handle_connack. destruct (negb (pstate_eqb (s_st s) PendingConnack)); [kf_id|].
    destruct (negb (ca_rc c =? 0)); [kf_id|]. destruct (v_in None (Connack c)); [|kf_id|kf_id].
    cbv zeta.
    match goal with |- context [apply_session cfg ?sx ?sp] => pose proof (apply_session_PF sx sp) as Ha; set (r := apply_session cfg sx sp) in * end.
    assert (H : PF s (r_s r)).
    { eapply PF_trans; [|exact Ha]. apply PF_ops. destruct (cf_drain_one cfg); reflexivity. }
    destruct (r_out r); cbn [h_s]; exact H.
  Qed.

  (* ---- the other handlers ---- *)
  Lemma hres_of_PF (s : state) (r : res) ev : PF s (r_s r) -> PF s (h_s (hres_of r ev)).
  Proof. intros H. exact H. Qed.

  Lemma handle_packet_PF (s : state) now p : PF s (h_s (handle_packet s now p)).
  Proof.
    destruct p as [c|c|p|a|a|a|a|sb|s0|un|u| | |d|au]; cbn [Model.handle_packet h_s]; try kf_id.
    - apply handle_connack_PF.
    - unfold handle_publish. destruct (pre_connack s); [kf_id|]. destruct (pub_qos p =? 0); [kf_id|].
      destruct (pub_qos p =? 1); unfold create_operation; cbn; [unfold WireRunPubrel.PF; cbn; apply PT_new; reflexivity|].
      destruct (mem (pub_pid p) (s_q2in s)); unfold WireRunPubrel.PF; cbn; apply PT_new; reflexivity.
    - unfold handle_puback. destruct (pre_connack s); [kf_id|]. destruct (lookup (ack_pid a) (s_ppub s)) as [id|]; [|kf_id].
      destruct (publish_qos_of s id) as [[|q]|]; try kf_id. destruct q; try kf_id.
      apply hres_of_PF. kf_sub. apply succeed_op_sub.
    - unfold handle_pubrec. destruct (pre_connack s); [kf_id|]. destruct (lookup (ack_pid a) (s_ppub s)) as [id|]; [|kf_id].
      destruct (lookup id (s_ops s)) as [o|]; [|kf_id]. destruct (op_packet o); try kf_id.
      destruct (pub_qos p =? 2); [|kf_id]. destruct (128 <=? ack_rc a); [apply hres_of_PF; kf_sub; apply succeed_op_sub|].
      unfold WireRunPubrel.PF. cbn. apply PT_update. intros o0. cbn. discriminate.
    - unfold handle_pubrel. destruct (pre_connack s); [kf_id|]. unfold create_operation. cbn.
      unfold WireRunPubrel.PF. cbn. apply PT_new. reflexivity.
    - unfold handle_pubcomp. destruct (pre_connack s); [kf_id|]. destruct (lookup (ack_pid a) (s_ppub s)) as [id|]; [|kf_id].
      destruct (lookup id (s_ops s)) as [o|]; [|kf_id]. destruct (op_packet o); try kf_id.
      destruct (pub_qos p =? 2); [|kf_id]. destruct (op_pubrel o); [|kf_id].
      apply hres_of_PF; kf_sub; apply succeed_op_sub.
    - unfold handle_suback. destruct (pre_connack s); [kf_id|]. destruct (lookup (sa_pid s0) (s_pnon s)) as [id|]; [|kf_id].
      destruct (lookup id (s_ops s)) as [o|]; [|kf_id]. destruct (op_packet o); try kf_id.
      destruct (negb _); [kf_id|]. apply hres_of_PF; kf_sub; apply succeed_op_sub.
    - unfold handle_unsuback. destruct (pre_connack s); [kf_id|]. destruct (lookup (ua_pid u) (s_pnon s)) as [id|]; [|kf_id].
      destruct (lookup id (s_ops s)) as [o|]; [|kf_id]. destruct (op_packet o); try kf_id.
      destruct (version_eqb _ _); [apply hres_of_PF; kf_sub; apply succeed_op_sub|].
      destruct (negb _); [kf_id|]. apply hres_of_PF; kf_sub; apply succeed_op_sub.
    - unfold handle_pingresp. destruct (s_st s); try kf_id; destruct (s_ping_to s); kf_id.
    - unfold handle_disconnect. destruct (pre_connack s); [kf_id|]. destruct (version_eqb _ _); kf_id.
  Qed.

  Lemma handle_packets_PF now : forall ps (s : state) dn ev, PF s (h_s (handle_packets s now ps dn ev)).
  Proof.
    induction ps as [|p rest IH]; intros s dn ev; cbn [Model.handle_packets]; [kf_id|].
    assert (Hres : forall x : outcome (state * packet),
              x = match p with
                  | Publish pb => do (i', t) <- ires_resolve (s_ires s) (pub_alias pb) (pub_topic pb) ;
                                  Ok (s <| s_ires := i' |>, Publish (with_topic pb t))
                  | _ => Ok (s, p) end ->
              match x with Ok (s1, _) => s_ops s1 = s_ops s | _ => True end).
    { intros x ->. destruct p; try reflexivity. destruct (ires_resolve _ _ _) as [[i' t]| |]; cbn; try exact I. reflexivity. }
    specialize (Hres _ eq_refl).
    destruct (match p with Publish pb => _ | _ => _ end) as [[s1 p1]|k|site]; [|kf_id|kf_id].
    assert (H1 : PF s s1) by (apply PF_ops; exact Hres).
    destruct (v_in (s_settings s1) p1); [|exact H1|exact H1].
    pose proof (handle_packet_PF s1 now p1) as Hh.
    destruct (h_out (handle_packet s1 now p1)); cbn [h_s]; try (eapply PF_trans; [exact H1|exact Hh]).
    eapply PF_trans; [exact H1|]. eapply PF_trans; [exact Hh|apply IH].
  Qed.

  Theorem net_data_PF (s : state) now data : PF s (h_s (net_data s now data)).
  Proof.
    unfold Model.net_data. destruct (_ || _); [kf_id|]. destruct (_ && _); [kf_id|].
    destruct (dec_feed _ _ _ _) as [[d' ps] r]. destruct r; [|kf_id|kf_id].
    eapply PF_trans; [|apply handle_packets_PF]. kf_id.
  Qed.

  (* ---- write completion ---- *)
  Theorem net_write_completion_PF (s : state) : PF s (r_s (net_write_completion cfg s)).
  Proof.
    unfold net_write_completion. destruct (_ || _); [kf_id|]. destruct (negb (s_pwc s)); [kf_id|].
    eapply PF_trans; [|kf_sub; apply succeed_all_sub]. kf_id.
  Qed.

  (* ---- connection close ---- *)
  Lemma closed_current_PF (s : state) : PF s (r_s (closed_current cfg s)).
  Proof.
    unfold closed_current. destruct (s_cur s) as [id|]; [|kf_id].
    match goal with |- context [try_ ?r _] => assert (Hin : PF s (r_s r)); [|set (r0 := r) in *; clearbody r0] end.
    2:{ unfold try_. destruct (r_out r0); cbn [r_s]; exact Hin. }
    destruct (lookup id (s_ops s)) as [o|]; [|kf_id].
    pose proof (fun e => SUB_PF _ _ _ _ _ _ (fail_op_sub enc dec ores ires cfg s id e)) as Hf.
    destruct (op_packet o); cbn [r_s]; try apply Hf.
    - destruct (pub_dup p); [destruct (lookup (pub_pid p) (s_ppub s)); kf_id|].
      destruct (_ && _); [kf_id|]. destruct (passes_policy _ _); [kf_id|apply Hf].
    - destruct (passes_policy _ _); [kf_id|apply Hf].
    - destruct (passes_policy _ _); [kf_id|apply Hf].
  Qed.

  Lemma fail_exceeding_PF (s : state) : PF s (r_s (fail_exceeding cfg s)).
  Proof.
    unfold fail_exceeding. destruct (cf_retry cfg) as [limit|]; [|kf_id].
    destruct (negb _); [kf_id|]. apply andthen_PF; [kf_sub; apply fail_all_sub|].
    intros s1. destruct (negb _); [kf_id|kf_sub; apply fail_all_sub].
  Qed.

  Lemma net_closed_raw_PF (s : state) : PF s (r_s (net_closed_raw cfg s)).
  Proof.
    unfold net_closed_raw. destruct (pstate_eqb (s_st s) Disconnected); [kf_id|].
    match goal with |- context [closed_current cfg ?sx] => pose proof (closed_current_PF sx) as Hc; set (s0 := sx) in * end.
    assert (H0 : PF s s0) by (kf_id).
    unfold try_. destruct (r_out (closed_current cfg s0)); [|eapply PF_trans; eauto|eapply PF_trans; eauto].
    cbn [r_s]. eapply PF_trans; [exact H0|]. eapply PF_trans; [exact Hc|]. set (s1 := r_s (closed_current cfg s0)). clearbody s1.
    assert (H2 : match slow_start_init cfg s1 with Ok s2 => PF s1 s2 | _ => True end).
    { unfold slow_start_init. destruct (negb (cf_drain_one cfg)); [kf_id|]. destruct (forallb _ _); [|exact I].
      unfold WireRunPubrel.PF. cbn. apply PT_fold_update. intros o. cbn. auto. }
    destruct (slow_start_init cfg s1) as [s2|k|site]; [|kf_id|kf_id].
    eapply PF_trans; [exact H2|]. clear H2.
    assert (H3 : match update_retries cfg s2 with Ok s3 => PF s2 s3 | _ => True end).
    { unfold update_retries. destruct (cf_retry cfg); [|kf_id]. destruct (forallb _ _); [|exact I].
      unfold WireRunPubrel.PF. cbn. apply PT_fold_update. intros o. cbn. auto. }
    destruct (update_retries cfg s2) as [s3|k|site]; [|kf_id|kf_id].
    eapply PF_trans; [exact H3|]. clear H3.
    cbv zeta. apply andthen_PF; [eapply PF_trans; [|kf_sub; apply fail_all_sub]; kf_id|]. intros s5.
    destruct (partition_policy cfg s5 (s_pwco s5)) as [kept rejected].
    apply andthen_PF; [eapply PF_trans; [|kf_sub; apply fail_all_sub]; kf_id|]. intros s7.
    apply andthen_PF; [apply fail_exceeding_PF|]. intros s8.
    match goal with |- context [partition_policy cfg ?sx ?q] => destruct (partition_policy cfg sx q) as [kept_u rejected_u] end.
    apply andthen_PF.
    - eapply PF_trans; [|kf_sub; apply fail_all_sub]. unfold WireRunPubrel.PF. cbn. apply PT_fold_update. apply pkind_set_dup.
    - intros s12. kf_id.
  Qed.

  Theorem net_closed_PF (s : state) : PF s (r_s (net_closed cfg s)).
  Proof.
    unfold net_closed. pose proof (net_closed_raw_PF s) as H. destruct (pstate_eqb (s_st s) Disconnected); [exact H|].
    destruct (r_out (net_closed_raw cfg s)) as [u|k|site]; try exact H. destruct k; exact H.
  Qed.

  (* ---- reset ---- *)
  Theorem reset_PF (s : state) : PF s (r_s (reset cfg s)).
  Proof.
    unfold reset.
    set (s0 := if pstate_eqb (s_st s) Disconnected then s else s <| s_st := Halted |>).
    assert (H0 : PF s s0) by (unfold s0; destruct (pstate_eqb (s_st s) Disconnected); kf_id).
    assert (Hf : forall ids (acc : res), PF s (r_s acc) ->
              PF s (r_s (fold_left (fun (acc : res) (id : N) =>
                          if is_panic (r_out acc) then acc else
                          let r1 := fail_op cfg (r_s acc) id EClientClosed in
                          mkRes (r_s r1) (r_done acc ++ r_done r1) (if is_panic (r_out r1) then r_out r1 else Ok tt)) ids acc))).
    { induction ids as [|a r IH]; intros acc Ha; cbn [fold_left]; [exact Ha|]. apply IH.
      destruct (is_panic (r_out acc)); [exact Ha|]. cbn [r_s]. eapply PF_trans; [exact Ha|kf_sub; apply fail_op_sub]. }
    specialize (Hf (map fst (s_ops s0)) (pure s0) H0). cbv zeta.
    destruct (is_panic _); [exact Hf|]. unfold WireRunPubrel.PF. cbn. apply PT_nil.
  Qed.

  (* ---- every step ---- *)
  Theorem step_PF (s : state) e : PF s (fst (step s e)).
  Proof.
    destruct e as [now p t|now dl|now|now data|now|now cap fill|now|now]; cbn [Model.step].
    - unfold out_of_res. cbn [fst]. apply user_event_PF.
    - unfold out_of_res, net_opened. destruct (negb (pstate_eqb (s_st s) Disconnected)); cbn [fst r_s r_out halt_on_error]; [kf_id|].
      unfold create_operation. cbn [fst snd pure r_s r_out halt_on_error]. unfold WireRunPubrel.PF. cbn. apply PT_new. reflexivity.
    - unfold out_of_res. cbn [fst]. unfold WireRunPubrel.PF. rewrite halt_on_error_ops. apply net_closed_PF.
    - cbn [fst]. unfold WireRunPubrel.PF. rewrite halt_on_error_ops. apply net_data_PF.
    - unfold out_of_res. cbn [fst]. unfold WireRunPubrel.PF. rewrite halt_on_error_ops. apply net_write_completion_PF.
    - cbn [fst]. apply service_PF.
    - destruct (next_service_time cfg s now); kf_id.
    - unfold out_of_res. cbn [fst]. apply reset_PF.
  Qed.

  (* ---- the invariant: no operation holds a CONNECT packet in its PUBREL slot ---- *)
  Definition PRS (s : state) : Prop := forall i o, lookup i (s_ops s) = Some o -> pq o = false.

  Lemma PRS_PF (s s' : state) : PRS s -> PF s s' -> PRS s'.
  Proof.
    intros H K i o' Hi. destruct (pq o') eqn:E; [|reflexivity]. destruct (K i o' Hi E) as (o & Ho & Hq). rewrite (H i o Ho) in Hq. discriminate.
  Qed.

  Theorem PRS_step (s : state) e : PRS s -> PRS (fst (step s e)).
  Proof. intros H. eapply PRS_PF; [exact H|apply step_PF]. Qed.

  Notation run := (run enc enc_reset enc_call enc_done dec dec_init dec_feed ores ores_reset ores_resolve
                       ires ires_reset ires_resolve v_out v_in cfg).

  Theorem PRS_run : forall h (s : state), PRS s -> PRS (fst (run s h)).
  Proof.
    induction h as [|e r IH]; intros s H; cbn [Model.run]; [exact H|].
    pose proof (PRS_step s e H) as H1. destruct (step s e) as [s1 o]. cbn [fst] in H1. specialize (IH s1 H1).
    destruct (run s1 r) as [s2 os]. exact IH.
  Qed.

  Lemma PRS_init (o : ores) (i : ires) : PRS (init (enc:=enc) dec_init o i).
  Proof. intros j x H. discriminate. Qed.

  (* the packet seated for an operation is a CONNECT only if the operation's own packet is *)
  Lemma PRS_wire_packet (s : state) i o : PRS s -> lookup i (s_ops s) = Some o ->
    is_connect (match op_pubrel o with Some pr => pr | None => op_packet o end) = true -> is_connect (op_packet o) = true.
  Proof. intros H Hi. specialize (H i o Hi). unfold pq in H. destruct (op_pubrel o); [congruence|auto]. Qed.
End PFrame2.
