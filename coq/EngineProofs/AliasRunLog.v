(* C17, engine level: the log of alias-resolver calls of a run of the engine model, and the reference
   machine that accepts it.  [seat_current_a] / [service_loop_a] / [handle_packets_a] are the model's
   functions instrumented with the list of calls they make (proved equal to the model's functions);
   [gstep] is the grammar of the outbound log.  Theorems in AliasRun*.v. *)
From GM Require Import Base.Prelude Base.Outcome Codec.Packets Codec.Settings Engine.Model
  EngineProofs.AssocLemmas EngineProofs.HandshakeRunTrace EngineProofs.AliasRunFrames.
From RecordUpdate Require Import RecordSet.
Import RecordSetNotations.
Open Scope N_scope.
#[local] Set Default Proof Using "Type".

(* the four component types are implicit in the engine functions, locally to this file *)
#[local] Arguments init {enc dec} _ {ores ires} _ _.
#[local] Arguments release {enc dec ores ires} _ _ _ _.
#[local] Arguments disconnect_completion {enc dec ores ires} _ _.
#[local] Arguments fail_op {enc dec ores ires} _ _ _ _.
#[local] Arguments ping_extension {enc dec ores ires} _ _.
#[local] Arguments succeed_op {enc dec ores ires} _ _ _ _.
#[local] Arguments fail_all {enc dec ores ires} _ _ _ _.
#[local] Arguments succeed_all {enc dec ores ires} _ _ _.
#[local] Arguments andthen {enc dec ores ires} _ _.
#[local] Arguments try_ {enc dec ores ires} _ _.
#[local] Arguments pure {enc dec ores ires} _.
#[local] Arguments create_operation {enc dec ores ires} _ _.
#[local] Arguments passes_now {enc dec ores ires} _ _ _.
#[local] Arguments user_event {enc dec ores ires} _ _ _ _.
#[local] Arguments create_connect {enc dec ores ires} _ _.
#[local] Arguments net_opened {enc dec} _ {ores ires} _ _ _.
#[local] Arguments op_exists {enc dec ores ires} _ _.
#[local] Arguments op_passes {enc dec ores ires} _ _ _.
#[local] Arguments partition_policy {enc dec ores ires} _ _ _.
#[local] Arguments closed_current {enc dec ores ires} _ _.
#[local] Arguments slow_start_init {enc dec ores ires} _ _.
#[local] Arguments update_retries {enc dec ores ires} _ _.
#[local] Arguments fail_exceeding {enc dec ores ires} _ _.
#[local] Arguments has_pubrel {enc dec ores ires} _ _.
#[local] Arguments net_closed_raw {enc dec ores ires} _ _.
#[local] Arguments net_closed {enc dec ores ires} _ _.
#[local] Arguments net_write_completion {enc dec ores ires} _ _.
#[local] Arguments acquire_free_pid {enc dec ores ires} _ _.
#[local] Arguments acquire_pid_for {enc dec ores ires} _ _.
#[local] Arguments unbind {enc dec ores ires} _ _.
#[local] Arguments passes_receive_max {enc dec ores ires} _ _.
#[local] Arguments throttled {enc dec ores ires} _ _.
#[local] Arguments has_pending_ack {enc dec ores ires} _.
#[local] Arguments dequeue {enc dec ores ires} _ _ _.
#[local] Arguments fully_written {enc dec ores ires} _ _.
#[local] Arguments service_keep_alive {enc dec ores ires} _ _ _.
#[local] Arguments process_ack_timeouts {enc dec ores ires} _ _ _.
#[local] Arguments halt_on_error {enc dec ores ires} _ _.
#[local] Arguments next_service_time {enc dec ores ires} _ _ _.
#[local] Arguments build_settings {enc dec ores ires} _ _ _.
#[local] Arguments apply_session {enc dec ores ires} _ _ _.
#[local] Arguments hres_of {enc dec ores ires} _ _.
#[local] Arguments pre_connack {enc dec ores ires} _.
#[local] Arguments sum_ss {enc dec ores ires} _.
#[local] Arguments handle_pingresp {enc dec ores ires} _.
#[local] Arguments handle_suback {enc dec ores ires} _ _ _.
#[local] Arguments handle_unsuback {enc dec ores ires} _ _ _.
#[local] Arguments publish_qos_of {enc dec ores ires} _ _.
#[local] Arguments handle_puback {enc dec ores ires} _ _ _.
#[local] Arguments handle_pubrec {enc dec ores ires} _ _ _.
#[local] Arguments handle_pubrel {enc dec ores ires} _ _.
#[local] Arguments handle_pubcomp {enc dec ores ires} _ _ _.
#[local] Arguments handle_publish {enc dec ores ires} _ _.
#[local] Arguments handle_disconnect {enc dec ores ires} _ _ _.
#[local] Arguments is_connect_op {enc dec ores ires} _ _.
#[local] Arguments connect_in_queue {enc dec ores ires} _.
#[local] Arguments reset {enc dec ores ires} _ _.
#[local] Arguments out_of_res {enc dec ores ires} _ _.
#[local] Arguments nst_queue {enc dec ores ires} _ _ _ _.
#[local] Arguments earliest_tmo {enc dec ores ires} _.
#[local] Arguments SeatStop {enc dec ores ires} _.
#[local] Arguments SeatContinue {enc dec ores ires} _ _.
#[local] Arguments SeatEncode {enc dec ores ires} _.



(* ---- the events of the alias log ----
   Outbound: every call the engine makes to the outbound resolver, to the last-chance validator and
   to the encoder constructor while it seats an operation, with the arguments passed and the
   result returned, plus the events that free the encoder slot. *)
Inductive oev :=
| OPick (id : N)                                   (* dequeued: s_cur := Some id *)
| OGone (id : N)                                   (* the operation no longer exists: s_cur := None *)
| OStall (id : N)                                  (* packet-id acquisition / lookup failed: the service call fails with id seated *)
| OResolve (id : N) (a : option N) (t : bytes) (res : outcome resolution)   (* ores_resolve _ a t returned res *)
| OValid (id : N) (p : packet) (r : resolution) (v : outcome unit)          (* v_out settings connect r p = v *)
| OReset (m : N)                                   (* ores_reset _ m after a rejected packet (fix of D7) *)
| ORejected (id : N) (k : errkind)                 (* the operation is failed with k: s_cur := None *)
| OEncode (id : N) (p : packet) (r : resolution) (ok : bool)  (* enc_reset version p r; ok: the encoder is installed *)
| ODone (id : N)                                   (* encoder done, fully_written: s_cur := None *)
| OConnack (m : N)                                 (* accepted CONNACK: ores_reset _ m (and ires_reset) *)
| OOpen | OClose | OClear.                         (* connection opened / closed, engine reset: s_cur := None *)

(* Inbound: the calls to the inbound resolver and what is surfaced to the application *)
Inductive iev :=
| IConnack                                         (* accepted CONNACK: ires_reset *)
| IResolve (pb : publish) (res : outcome bytes)    (* ires_resolve _ (pub_alias pb) (pub_topic pb) returned res *)
| ISurface (pb : publish).                         (* a PUBLISH packet event handed to the application *)

(* events after which the client's table may hold a binding the server never saw, or the server's
   table is gone: a seat that failed between resolution and encoder construction, a connection
   opened / closed, an engine reset *)
Definition breaks (e : oev) : bool :=
  match e with
  | OOpen | OClose | OClear | OStall _ => true
  | OResolve _ _ _ (Ok _) => false
  | OResolve _ _ _ _ => true
  | OValid _ _ _ (Panic _) => true
  | OEncode _ _ _ false => true
  | _ => false
  end.

(* [pcc live l]: every PUBLISH handed to the encoder is handed over on a connection whose CONNACK was
   accepted, with no break since *)
Fixpoint pcc (live : bool) (l : list oev) : Prop :=
  match l with
  | [] => True
  | OConnack _ :: r => pcc true r
  | OEncode _ (Publish _) _ true :: r => live = true /\ pcc live r
  | e :: r => pcc (if breaks e then false else live) r
  end.

(* is the connection live after the log *)
Definition live_step (live : bool) (e : oev) : bool :=
  match e with OConnack _ => true | _ => if breaks e then false else live end.
Definition live_after (live : bool) (l : list oev) : bool := fold_left live_step l live.

Lemma pcc_app l1 : forall live l2, pcc live (l1 ++ l2) <-> pcc live l1 /\ pcc (live_after live l1) l2.
Proof.
  induction l1 as [|e l1 IH]; intros live l2; [cbn; tauto|].
  cbn [app live_after fold_left]. fold (live_after (live_step live e) l1).
  destruct e as [id|id|id|id a t res|id p r v|m|id k|id p r ok|id|m| | | ]; cbn [pcc live_step breaks]; try apply IH.
  destruct p; try (destruct ok; apply IH). destruct ok; [|apply IH]. rewrite IH. tauto.
Qed.

(* breaks occur only as the last event of a log / somewhere in it *)
Fixpoint brk_pos (l : list oev) : bool :=
  match l with
  | [] => true
  | e :: r => match r with [] => true | _ => negb (breaks e) && brk_pos r end
  end.
Definition has_brk (l : list oev) : bool := existsb breaks l.

Lemma has_brk_app a b : has_brk (a ++ b) = has_brk a || has_brk b.
Proof. unfold has_brk. apply existsb_app. Qed.

Lemma brk_pos_app_clean a : has_brk a = false -> forall b, brk_pos (a ++ b) = brk_pos b.
Proof.
  induction a as [|e a IH]; intros H b; [reflexivity|]. cbn in H. apply orb_false_iff in H as [H1 H2].
  cbn [app brk_pos]. rewrite H1, (IH H2). cbn. destruct (a ++ b) eqn:E; [|reflexivity].
  apply app_eq_nil in E as [_ ->]. reflexivity.
Qed.

Lemma brk_pos_clean a : has_brk a = false -> brk_pos a = true.
Proof. intros H. rewrite (app_nil_end a), brk_pos_app_clean; auto. Qed.

Lemma live_clean a : has_brk a = false -> forall live, live = true -> live_after live a = true.
Proof.
  induction a as [|e a IH]; intros H live Hl; [exact Hl|]. cbn in H. apply orb_false_iff in H as [H1 H2].
  cbn [live_after fold_left]. apply (IH H2). unfold live_step. rewrite H1. destruct e; auto.
Qed.

Lemma pcc_brk_pos l : brk_pos l = true -> pcc true l.
Proof.
  induction l as [|e l IH]; intros H; [exact I|]. cbn [brk_pos] in H.
  destruct l as [|e' l'].
  - destruct e as [id|id|id|id a t res|id p r v|m|id k|id p r ok|id|m| | | ]; cbn; auto. destruct p; cbn; auto. destruct ok; cbn; auto.
  - apply andb_true_iff in H as [H1 H2]. apply negb_true_iff in H1. specialize (IH H2).
    destruct e as [id|id|id|id a t res|id p r v|m|id k|id p r ok|id|m| | | ]; cbn [pcc]; try (rewrite H1; exact IH); try exact IH.
    destruct p; try (rewrite H1; exact IH). destruct ok; [split; [reflexivity|exact IH]|rewrite H1; exact IH].
Qed.

(* a log without PUBLISH packets handed to the encoder *)
Definition no_pub_ev (e : oev) : bool := match e with OEncode _ (Publish _) _ true => false | _ => true end.
Lemma pcc_no_pub l : forallb no_pub_ev l = true -> forall live, pcc live l.
Proof.
  induction l as [|e l IH]; intros H live; [exact I|]. cbn in H. apply andb_true_iff in H as [H1 H2].
  destruct e as [id|id|id|id a t res|id p r v|m|id k|id p r ok|id|m| | | ]; cbn [pcc]; try apply (IH H2).
  destruct p; try apply (IH H2). destruct ok; [discriminate|apply (IH H2)].
Qed.

Definition res_of {A B} (x : outcome (A * B)) : outcome B :=
  match x with Ok (_, b) => Ok b | Err k => Err k | Panic n => Panic n end.

Definition dflt_tam (st : option settings) : N :=
  match st with Some x => st_topic_alias_maximum_to_server x | None => 0 end.

Section Log.
  Variable enc : Type.
  Variable enc_reset : version -> packet -> resolution -> outcome enc.
  Variable enc_call : enc -> N -> N -> outcome (bytes * enc).
  Variable enc_done : enc -> bool.
  Variable dec : Type.
  Variable dec_init : dec.
  Variable dec_feed : version -> N -> dec -> bytes -> dec * list packet * outcome unit.
  Variable ores : Type.
  Variable ores_reset : ores -> N -> ores.
  Variable ores_resolve : ores -> option N -> bytes -> outcome (ores * resolution).
  Variable ires : Type.
  Variable ires_reset : ires -> ires.
  Variable ires_resolve : ires -> option N -> bytes -> outcome (ires * bytes).
  Variable v_out : option settings -> connect_opts -> resolution -> packet -> outcome unit.
  Variable v_in : option settings -> packet -> outcome unit.
  Variable cfg : config.

  Notation state := (state enc dec ores ires).
  Notation sres := (sres enc dec ores ires).
  Notation hres := (hres enc dec ores ires).
  Notation res := (res enc dec ores ires).
  Notation seat := (seat enc dec ores ires).
  Notation step := (step enc enc_reset enc_call enc_done dec dec_init dec_feed ores ores_reset ores_resolve
                         ires ires_reset ires_resolve v_out v_in cfg).
  Notation run := (run enc enc_reset enc_call enc_done dec dec_init dec_feed ores ores_reset ores_resolve
                       ires ires_reset ires_resolve v_out v_in cfg).
  Notation seat_current := (seat_current enc enc_reset dec ores ores_reset ores_resolve ires v_out cfg).
  Notation service_loop := (service_loop enc enc_reset enc_call enc_done dec ores ores_reset ores_resolve ires v_out cfg).
  Notation service_queue := (service_queue enc enc_reset enc_call enc_done dec ores ores_reset ores_resolve ires v_out cfg).
  Notation service := (service enc enc_reset enc_call enc_done dec ores ores_reset ores_resolve ires v_out cfg).
  Notation handle_connack := (handle_connack enc dec ores ores_reset ires ires_reset v_in cfg).
  Notation handle_packet := (handle_packet enc dec ores ores_reset ires ires_reset v_in cfg).
  Notation handle_packets := (handle_packets enc dec ores ores_reset ires ires_reset ires_resolve v_in cfg).
  Notation net_data := (net_data enc dec dec_feed ores ores_reset ires ires_reset ires_resolve v_in cfg).
  Notation encode_next := (encode_next enc enc_call enc_done dec ores ires).
  Notation queue_fuel := (queue_fuel enc dec ores ires).
  Notation seat_state := (seat_state enc dec ores ires).

  (* ---- seat_current with the log of the calls it makes ---- *)
  Definition seat_current_a (s : state) (mode_all : bool) (acc : bytes) (dn : dones) : seat * list oev :=
    match s_cur s with
    | Some _ => (SeatEncode s, [])
    | None =>
        let (s1, next) := dequeue cfg s mode_all in
        match next with
        | None => (SeatStop (mkSres s1 acc dn (Ok tt)), [])
        | Some id =>
            let s2 := s1 <| s_cur := Some id |> in
            if negb (op_exists s2 id) then (SeatContinue (s2 <| s_cur := None |>) dn, [OPick id; OGone id]) else
            match acquire_pid_for s2 id with
            | Err k => (SeatStop (mkSres s2 acc dn (Err k)), [OPick id; OStall id])
            | Panic site => (SeatStop (mkSres s2 acc dn (Panic site)), [OPick id; OStall id])
            | Ok s3 =>
                match lookup id (s_ops s3) with
                | None => (SeatStop (mkSres s3 acc dn (Panic 1399)), [OPick id; OStall id])
                | Some o =>
                    let packet := match op_pubrel o with Some pr => pr | None => op_packet o end in
                    let resolved : outcome (state * resolution) :=
                      match packet with
                      | Publish pb =>
                          do (o', r) <- ores_resolve (s_ores s3) (pub_alias pb) (pub_topic pb) ;
                          Ok (s3 <| s_ores := o' |>, r)
                      | _ => Ok (s3, no_resolution)
                      end in
                    let lr := match packet with
                              | Publish pb => [OResolve id (pub_alias pb) (pub_topic pb)
                                                 (res_of (ores_resolve (s_ores s3) (pub_alias pb) (pub_topic pb)))]
                              | _ => [] end in
                    match resolved with
                    | Err k => (SeatStop (mkSres s3 acc dn (Err k)), OPick id :: lr)
                    | Panic site => (SeatStop (mkSres s3 acc dn (Panic site)), OPick id :: lr)
                    | Ok (s4, r) =>
                        match v_out (s_settings s4) (cf_connect cfg) r packet with
                        | Err k =>
                            let mx := match s_settings s4 with Some st => st_topic_alias_maximum_to_server st | None => 0 end in
                            let s4' := match r_alias r with
                                      | Some _ => s4 <| s_ores := ores_reset (s_ores s4) mx |>
                                      | None => s4 end in
                            let rf := fail_op cfg (s4' <| s_cur := None |>) id k in
                            let l := OPick id :: lr ++ OValid id packet r (Err k)
                                       :: match r_alias r with Some _ => [OReset mx] | None => [] end ++ [ORejected id k] in
                            match r_out rf with
                            | Ok _ => (SeatContinue (r_s rf) (dn ++ r_done rf), l)
                            | _ => (SeatStop (mkSres (r_s rf) acc (dn ++ r_done rf) (r_out rf)), l)
                            end
                        | Panic site => (SeatStop (mkSres s4 acc dn (Panic site)), OPick id :: lr ++ [OValid id packet r (Panic site)])
                        | Ok _ =>
                            match enc_reset (cf_version cfg) packet r with
                            | Err k => (SeatStop (mkSres s4 acc dn (Err k)), OPick id :: lr ++ [OValid id packet r (Ok tt); OEncode id packet r false])
                            | Panic site => (SeatStop (mkSres s4 acc dn (Panic site)), OPick id :: lr ++ [OValid id packet r (Ok tt); OEncode id packet r false])
                            | Ok e => (SeatEncode (s4 <| s_enc := Some e |>), OPick id :: lr ++ [OValid id packet r (Ok tt); OEncode id packet r true])
                            end
                        end
                    end
                end
            end
        end
    end.

  (* the instrumented function computes exactly the model's *)
  Lemma seat_current_a_fst (s : state) m acc dn : fst (seat_current_a s m acc dn) = seat_current s m acc dn.
  Proof.
    unfold seat_current_a, Model.seat_current. destruct (s_cur s); [reflexivity|].
    destruct (dequeue cfg s m) as [s1 next]. destruct next as [id|]; [|reflexivity].
    destruct (negb (op_exists (s1 <| s_cur := Some id |>) id)); [reflexivity|].
    destruct (acquire_pid_for (s1 <| s_cur := Some id |>) id) as [s3|k|site]; [|reflexivity|reflexivity].
    destruct (lookup id (s_ops s3)) as [o|]; [|reflexivity].
    set (packet := match op_pubrel o with Some pr => pr | None => op_packet o end).
    destruct (match packet with
              | Publish pb => do (o', r) <- ores_resolve (s_ores s3) (pub_alias pb) (pub_topic pb) ; Ok (s3 <| s_ores := o' |>, r)
              | _ => Ok (s3, no_resolution) end) as [[s4 r]|k|site]; [|reflexivity|reflexivity].
    destruct (v_out (s_settings s4) (cf_connect cfg) r packet) as [u|k|site]; [| |reflexivity].
    - destruct (enc_reset (cf_version cfg) packet r); reflexivity.
    - cbv zeta. match goal with |- context [r_out ?x] => destruct (r_out x) end; reflexivity.
  Qed.

  (* ---- the service loop with its log ---- *)
  Fixpoint service_loop_a (fuel : nat) (s : state) (m : bool) (now cap fill : N) (acc : bytes) (dn : dones)
    : sres * list oev :=
    match fuel with
    | O => (mkSres s acc dn (Panic 9999), [])
    | S f =>
      if negb (pstate_eqb (s_st s) PendingConnack || pstate_eqb (s_st s) Connected) then (mkSres s acc dn (Ok tt), []) else
      match seat_current_a s m acc dn with
      | (SeatStop r, l) => (r, l)
      | (SeatContinue s5 dn', l) =>
          let rt := service_loop_a f s5 m now cap fill acc dn' in (fst rt, l ++ snd rt)
      | (SeatEncode s5, l) =>
          match encode_next now cap fill s5 acc dn with
          | inl r => (r, l)
          | inr (s7, acc') =>
              let rt := service_loop_a f s7 m now cap fill acc' dn in
              (fst rt, l ++ match s_cur s5 with Some id => [ODone id] | None => [] end ++ snd rt)
          end
      end
    end.

  Lemma service_loop_a_fst : forall f (s : state) m now cap fill acc dn,
    fst (service_loop_a f s m now cap fill acc dn) = service_loop f s m now cap fill acc dn.
  Proof.
    induction f as [|f IH]; intros s m now cap fill acc dn; [reflexivity|].
    cbn [service_loop_a Model.service_loop].
    destruct (negb (pstate_eqb (s_st s) PendingConnack || pstate_eqb (s_st s) Connected)); [reflexivity|].
    rewrite <- (seat_current_a_fst s m acc dn).
    destruct (seat_current_a s m acc dn) as [[r|s5 dn'|s5] l]; cbn [fst]; [reflexivity|apply IH|].
    unfold HandshakeRunTrace.encode_next. destruct (s_cur s5) as [id|]; [|reflexivity].
    destruct (negb (op_exists s5 id)); [reflexivity|]. destruct (s_enc s5) as [e|]; [|reflexivity].
    destruct (enc_call e (fill + len acc) cap) as [[out e']|k|site]; [|reflexivity|reflexivity].
    cbv zeta. destruct (enc_done e'); [|reflexivity].
    destruct (fully_written (s5 <| s_enc := Some e' |>) now) as [s7|k|site]; [|reflexivity|reflexivity].
    cbn [fst]. apply IH.
  Qed.

  Definition service_queue_log (s : state) (m : bool) (now cap fill : N) : list oev :=
    snd (service_loop_a (queue_fuel s) s m now cap fill [] []).

  (* the outbound log of one [service] call *)
  Definition service_log (s : state) (now cap fill : N) : list oev :=
    match s_st s with
    | PendingConnack =>
        match s_connack_to s with
        | Some t => if t <=? now then [] else service_queue_log s false now cap fill
        | None => []
        end
    | Connected =>
        match service_keep_alive cfg s now with
        | Ok s1 => service_queue_log s1 true now cap fill
        | _ => []
        end
    | _ => []
    end.

  Lemma service_queue_a (s : state) m now cap fill :
    service_queue s m now cap fill =
    let r := fst (service_loop_a (queue_fuel s) s m now cap fill [] []) in
    match sr_bytes r with
    | [] => r
    | _ => mkSres (sr_s r <| s_pwc := true |>) (sr_bytes r) (sr_done r) (sr_out r)
    end.
  Proof. unfold Model.service_queue, HandshakeRunTrace.queue_fuel. cbv zeta. rewrite service_loop_a_fst. reflexivity. Qed.

  (* ---- inbound packets with their log ---- *)
  Definition connack_accepted (s : state) (c : connack) : bool :=
    pstate_eqb (s_st s) PendingConnack && (ca_rc c =? 0) && is_ok (v_in None (Connack c)).

  (* what handling one (already resolved, validated) packet contributes *)
  Definition packet_log (s1 : state) (now : N) (p1 : packet) : list iev :=
    match p1 with
    | Connack c => if connack_accepted s1 c then [IConnack] else []
    | _ => []
    end ++ map ISurface (publishes (h_ev (handle_packet s1 now p1))).
  Definition packet_olog (s1 : state) (p1 : packet) : list oev :=
    match p1 with
    | Connack c => if connack_accepted s1 c then [OConnack (match ca_tam c with Some m => m | None => 0 end)] else []
    | _ => []
    end.

  Fixpoint handle_packets_a (s : state) (now : N) (ps : list packet) (dn : dones) (ev : list packet)
    : hres * (list iev * list oev) :=
    match ps with
    | [] => (mkHres s dn ev (Ok tt), ([], []))
    | p :: rest =>
        let resolved : outcome (state * packet) :=
          match p with
          | Publish pb =>
              do (i', t) <- ires_resolve (s_ires s) (pub_alias pb) (pub_topic pb) ;
              Ok (s <| s_ires := i' |>, Publish (with_topic pb t))
          | _ => Ok (s, p)
          end in
        let li := match p with
                  | Publish pb => [IResolve pb (res_of (ires_resolve (s_ires s) (pub_alias pb) (pub_topic pb)))]
                  | _ => [] end in
        match resolved with
        | Err k => (mkHres s dn ev (Err k), (li, []))
        | Panic site => (mkHres s dn ev (Panic site), (li, []))
        | Ok (s1, p1) =>
            match v_in (s_settings s1) p1 with
            | Err k => (mkHres (s1 <| s_st := Halted |>) dn ev (Err k), (li, []))
            | Panic site => (mkHres s1 dn ev (Panic site), (li, []))
            | Ok _ =>
                let h := handle_packet s1 now p1 in
                let li' := li ++ packet_log s1 now p1 in
                let lo := packet_olog s1 p1 in
                match h_out h with
                | Ok _ => let rt := handle_packets_a (h_s h) now rest (dn ++ h_done h) (ev ++ h_ev h) in
                          (fst rt, (li' ++ fst (snd rt), lo ++ snd (snd rt)))
                | Err k => (mkHres (h_s h <| s_st := Halted |>) (dn ++ h_done h) (ev ++ h_ev h) (Err k), (li', lo))
                | Panic site => (mkHres (h_s h) (dn ++ h_done h) (ev ++ h_ev h) (Panic site), (li', lo))
                end
            end
        end
    end.

  Lemma handle_packets_a_fst now : forall ps (s : state) dn ev,
    fst (handle_packets_a s now ps dn ev) = handle_packets s now ps dn ev.
  Proof.
    induction ps as [|p rest IH]; intros s dn ev; [reflexivity|]. cbn [handle_packets_a Model.handle_packets].
    destruct (match p with
              | Publish pb => do (i', t) <- ires_resolve (s_ires s) (pub_alias pb) (pub_topic pb) ; Ok (s <| s_ires := i' |>, Publish (with_topic pb t))
              | _ => Ok (s, p) end) as [[s1 p1]|k|site]; [|reflexivity|reflexivity].
    destruct (v_in (s_settings s1) p1); [|reflexivity|reflexivity].
    cbv zeta. destruct (h_out (handle_packet s1 now p1)); [|reflexivity|reflexivity]. cbn [fst]. apply IH.
  Qed.

  Definition data_logs (s : state) (now : N) (data : bytes) : list iev * list oev :=
    if pstate_eqb (s_st s) Disconnected || pstate_eqb (s_st s) Halted then ([], [])
    else if pstate_eqb (s_st s) PendingConnack && connect_in_queue s then ([], [])
    else
      match dec_feed (cf_version cfg) (max_incoming_size cfg) (s_dec s) data with
      | (d', ps, r) =>
          match r with
          | Ok _ => snd (handle_packets_a (s <| s_dec := d' |>) now ps [] [])
          | _ => ([], [])
          end
      end.

  (* ---- the logs of one step and of a history ---- *)
  Definition step_olog (s : state) (e : event) : list oev :=
    match e with
    | EvOpen _ _ => if pstate_eqb (s_st s) Disconnected then [OOpen] else []
    | EvClose _ => if pstate_eqb (s_st s) Disconnected then [] else [OClose]
    | EvReset _ => [OClear]
    | EvService now cap fill => service_log s now cap fill
    | EvData now data => snd (data_logs s now data)
    | _ => []
    end.
  Definition step_ilog (s : state) (e : event) : list iev :=
    match e with
    | EvData now data => fst (data_logs s now data)
    | _ => []
    end.

  Fixpoint run_olog (s : state) (h : list event) : list oev :=
    match h with [] => [] | e :: r => step_olog s e ++ run_olog (fst (step s e)) r end.
  Fixpoint run_ilog (s : state) (h : list event) : list iev :=
    match h with [] => [] | e :: r => step_ilog s e ++ run_ilog (fst (step s e)) r end.

  (* ---- the reference machine that accepts the outbound log ---- *)
  Inductive phase :=
  | PIdle
  | PPicked (id : N)
  | PResolved (id : N) (a : option N) (t : bytes) (r : resolution)
  | PChecked (id : N) (p : packet) (r : resolution) (v : outcome unit)
  | PUndone (id : N) (k : errkind)
  | PBusy (id : N).

  Definition cur_of (ph : phase) : option N :=
    match ph with
    | PIdle => None
    | PPicked id | PResolved id _ _ _ | PChecked id _ _ _ | PUndone id _ | PBusy id => Some id
    end.

  (* between two seats: the encoder slot is free, or holds an operation being encoded *)
  Definition stable (ph : phase) : Prop := ph = PIdle \/ exists id, ph = PBusy id.

  Record gst := mkG { g_ores : ores; g_ph : phase; g_cm : N }.

  Definition gstep (g : gst) (e : oev) (g' : gst) : Prop :=
    match e with
    | OOpen | OClose | OClear => stable (g_ph g) /\ g' = mkG (g_ores g) PIdle (g_cm g)
    | OConnack m => stable (g_ph g) /\ g' = mkG (ores_reset (g_ores g) m) (g_ph g) m
    | OPick id => g_ph g = PIdle /\ g' = mkG (g_ores g) (PPicked id) (g_cm g)
    | OGone id => g_ph g = PPicked id /\ g' = mkG (g_ores g) PIdle (g_cm g)
    | OStall id => g_ph g = PPicked id /\ g' = mkG (g_ores g) (PBusy id) (g_cm g)
    | OResolve id a t res =>
        g_ph g = PPicked id /\ res = res_of (ores_resolve (g_ores g) a t) /\
        g' = match ores_resolve (g_ores g) a t with
             | Ok (o', r) => mkG o' (PResolved id a t r) (g_cm g)
             | _ => mkG (g_ores g) (PBusy id) (g_cm g)
             end
    | OValid id p r v =>
        match p with
        | Publish pb => g_ph g = PResolved id (pub_alias pb) (pub_topic pb) r
        | _ => g_ph g = PPicked id /\ r = no_resolution
        end /\
        g' = mkG (g_ores g) (match v with Panic _ => PBusy id | _ => PChecked id p r v end) (g_cm g)
    | OReset m =>
        exists id p r k, g_ph g = PChecked id p r (Err k) /\ r_alias r <> None /\ (m = g_cm g \/ m = 0) /\
                         g' = mkG (ores_reset (g_ores g) m) (PUndone id k) (g_cm g)
    | ORejected id k =>
        (g_ph g = PUndone id k \/ exists p r, g_ph g = PChecked id p r (Err k) /\ r_alias r = None) /\
        g' = mkG (g_ores g) PIdle (g_cm g)
    | OEncode id p r ok => g_ph g = PChecked id p r (Ok tt) /\ g' = mkG (g_ores g) (PBusy id) (g_cm g)
    | ODone id => g_ph g = PBusy id /\ g' = mkG (g_ores g) PIdle (g_cm g)
    end.

  Fixpoint gruns (g : gst) (l : list oev) (g' : gst) : Prop :=
    match l with
    | [] => g' = g
    | e :: r => exists g1, gstep g e g1 /\ gruns g1 r g'
    end.

  Lemma gruns_app l1 : forall g l2 g1 g2, gruns g l1 g1 -> gruns g1 l2 g2 -> gruns g (l1 ++ l2) g2.
  Proof.
    induction l1 as [|e l1 IH]; intros g l2 g1 g2 H1 H2; cbn in *; [subst; exact H2|].
    destruct H1 as (g' & S1 & R1). exists g'. split; [exact S1|]. eapply IH; eauto.
  Qed.

  Lemma gruns_app_inv l1 : forall g l2 g2, gruns g (l1 ++ l2) g2 -> exists g1, gruns g l1 g1 /\ gruns g1 l2 g2.
  Proof.
    induction l1 as [|e l1 IH]; intros g l2 g2 H; cbn in *; [exists g; auto|].
    destruct H as (g' & S1 & R1). destruct (IH _ _ _ R1) as (g1 & A & B). exists g1. split; [exists g'; auto|exact B].
  Qed.

  (* the machine is deterministic: the log determines the ghost state *)
  (* the defining equation of the successor state is the last conjunct *)
  Ltac last_eq H :=
    lazymatch type of H with
    | _ /\ _ => let H' := fresh in destruct H as [H' H]; clear H'; last_eq H
    | _ => idtac
    end.

  Lemma gstep_det g e g1 g2 : gstep g e g1 -> gstep g e g2 -> g1 = g2.
  Proof.
    destruct e; cbn; intros H1 H2.
    6:{ destruct H1 as (i1 & p1 & r1 & k1 & A1 & _ & _ & E1). destruct H2 as (i2 & p2 & r2 & k2 & A2 & _ & _ & E2).
        rewrite A1 in A2. inversion A2; subst. reflexivity. }
    all: last_eq H1; last_eq H2; congruence.
  Qed.

  Lemma gruns_det l : forall g g1 g2, gruns g l g1 -> gruns g l g2 -> g1 = g2.
  Proof.
    induction l as [|e l IH]; intros g g1 g2 H1 H2; cbn in *; [congruence|].
    destruct H1 as (a & S1 & R1). destruct H2 as (b & S2 & R2). rewrite (gstep_det _ _ _ _ S1 S2) in R1. eapply IH; eauto.
  Qed.

  (* the resolver component of the machine is the plain replay of the resolver calls of the log *)
  Definition replay_step (o : ores) (e : oev) : ores :=
    match e with
    | OConnack m | OReset m => ores_reset o m
    | OResolve _ a t _ => match ores_resolve o a t with Ok (o', _) => o' | _ => o end
    | _ => o
    end.
  Definition replay (o : ores) (l : list oev) : ores := fold_left replay_step l o.

  Lemma gstep_replay g e g' : gstep g e g' -> g_ores g' = replay_step (g_ores g) e.
  Proof.
    destruct e; cbn; intros H.
    6:{ destruct H as (i & p & r & k & _ & _ & _ & E). subst. reflexivity. }
    all: last_eq H; subst; try reflexivity.
    destruct (ores_resolve (g_ores g) a t) as [[o' r]| |]; reflexivity.
  Qed.

  Lemma gruns_replay l : forall g g', gruns g l g' -> g_ores g' = replay (g_ores g) l.
  Proof.
    induction l as [|e l IH]; intros g g' H; cbn in *; [subst; reflexivity|].
    destruct H as (g1 & S1 & R1). rewrite (IH _ _ R1), (gstep_replay _ _ _ S1). reflexivity.
  Qed.

  (* the maximum of the last accepted CONNACK *)
  Definition cmax_step (c : N) (e : oev) : N := match e with OConnack m => m | _ => c end.
  Definition cmax (c : N) (l : list oev) : N := fold_left cmax_step l c.

  Lemma gstep_cm g e g' : gstep g e g' -> g_cm g' = cmax_step (g_cm g) e.
  Proof.
    destruct e; cbn; intros H.
    6:{ destruct H as (i & p & r & k & _ & _ & _ & E). subst. reflexivity. }
    all: last_eq H; subst; try reflexivity.
    destruct (ores_resolve (g_ores g) a t) as [[o' r]| |]; reflexivity.
  Qed.

  Lemma gruns_cm l : forall g g', gruns g l g' -> g_cm g' = cmax (g_cm g) l.
  Proof.
    induction l as [|e l IH]; intros g g' H; cbn in *; [subst; reflexivity|].
    destruct H as (g1 & S1 & R1). rewrite (IH _ _ R1), (gstep_cm _ _ _ S1). reflexivity.
  Qed.
End Log.
