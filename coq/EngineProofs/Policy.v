(* C15, part 1: the offline-queue policy table and its application at submission.
   [passes_policy] (protocol.rs does_packet_pass_offline_queue_policy 2316-2332) is compared with
   the documented meaning of the four policies, written independently as a predicate, for ALL
   packets and ALL policy numbers; then the single-step behaviour of [user_event] when offline. *)
From GM Require Import Base.Prelude Base.Outcome Codec.Packets Codec.Settings Engine.Model EngineProofs.AssocLemmas.
From RecordUpdate Require Import RecordSet.
From Coq Require Import Sorting.Sorted.
Import RecordSetNotations.
Open Scope N_scope.

(* ---- the documented table (client/config.rs:792-808) ---- *)
Inductive policy := PreserveAll | PreserveAcknowledged | PreserveQos1PlusPublishes | PreserveNothing.

(* the numbering used by the model's [cf_policy]; numbers above 3 are not produced by the
   configuration layer; the model treats them like PreserveAll (the `_ => true` arms) *)
Definition policy_of (n : N) : policy :=
  if n =? 1 then PreserveAcknowledged else if n =? 2 then PreserveQos1PlusPublishes
  else if n =? 3 then PreserveNothing else PreserveAll.

(* what the documentation says is kept while offline *)
Definition keeps (pol : policy) (p : packet) : Prop :=
  match pol with
  | PreserveAll => (exists pb, p = Publish pb) \/ (exists x, p = Subscribe x) \/ (exists x, p = Unsubscribe x)
  | PreserveAcknowledged =>
      (exists pb, p = Publish pb /\ pub_qos pb <> 0) \/ (exists x, p = Subscribe x) \/ (exists x, p = Unsubscribe x)
  | PreserveQos1PlusPublishes => exists pb, p = Publish pb /\ pub_qos pb <> 0
  | PreserveNothing => False
  end.

Lemma policy_table (n : N) (p : packet) : passes_policy n p = true <-> keeps (policy_of n) p.
Proof.
  unfold policy_of, passes_policy.
  destruct (n =? 1) eqn:E1; [assert (n = 1) by lia; subst; cbn [keeps] |
  destruct (n =? 2) eqn:E2; [assert (n = 2) by lia; subst; cbn [keeps] |
  destruct (n =? 3) eqn:E3; [assert (n = 3) by lia; subst; cbn [keeps] | cbn [keeps]]]].
  all: destruct p; cbn [N.eqb orb negb].
  all: try (split; [discriminate|]).
  all: try (intros [(? & ? & ?) | [(? & ?) | (? & ?)]]; discriminate).
  all: try (intros [(? & ?) | [(? & ?) | (? & ?)]]; discriminate).
  all: try (intros (? & ? & ?); discriminate).
  all: try (intros []; fail).
  all: try (change (1 =? 3) with false; change (1 =? 2) with false; change (1 =? 1) with true;
            change (2 =? 3) with false; change (2 =? 2) with true; change (3 =? 3) with true;
            rewrite ?E1, ?E2, ?E3; cbn [orb negb]).
  all: try (split; [intros _; eauto 6 | reflexivity]).
  all: try (split; [intros H; left; eexists; split; [reflexivity|lia]
                   | intros [(pb & Hp & Hq) | [(? & ?) | (? & ?)]]; [inversion Hp; subst; lia | discriminate | discriminate]]).
  all: try (split; [intros H; eexists; split; [reflexivity|lia] | intros (pb & Hp & Hq); inversion Hp; subst; lia]).
  all: try (split; [discriminate | intros (pb & Hp & Hq); discriminate]).
Qed.

(* the kinds that are never kept, whatever the policy number *)
Lemma policy_other_kinds (n : N) (p : packet) :
  (forall pb, p <> Publish pb) -> (forall x, p <> Subscribe x) -> (forall x, p <> Unsubscribe x) ->
  passes_policy n p = false.
Proof.
  intros H1 H2 H3. destruct p; try reflexivity; exfalso; [eapply H1 | eapply H2 | eapply H3]; reflexivity.
Qed.

(* the policy only looks at the kind and the QoS *)
Definition kind_qos (p : packet) : N * N :=
  (packet_type p, match p with Publish pb => pub_qos pb | _ => 0 end).
Lemma policy_kind_qos n p q : kind_qos p = kind_qos q -> passes_policy n p = passes_policy n q.
Proof.
  unfold kind_qos. destruct p, q; cbn [packet_type]; intros H; inversion H; try reflexivity.
  cbn [passes_policy]. rewrite H1. reflexivity.
Qed.

Section Engine.
  Variable enc : Type.
  Variable enc_reset : version -> packet -> resolution -> outcome enc.
  Variable enc_call : enc -> N -> N -> outcome (bytes * enc).
  Variable enc_done : enc -> bool.
  Variable dec : Type.
  Variable dec_init : dec.
  Variable dec_feed : version -> N -> dec -> bytes -> dec * list packet * outcome unit.
  Variable ores : Type.
  Variable ores_reset : ores -> N -> ores.
  Variable ores_resolve : ores -> option N -> bytes -> outcome (ores * resolution).
  Variable ires : Type.
  Variable ires_reset : ires -> ires.
  Variable ires_resolve : ires -> option N -> bytes -> outcome (ires * bytes).
  Variable v_out : option settings -> connect_opts -> resolution -> packet -> outcome unit.
  Variable v_in : option settings -> packet -> outcome unit.
  Variable cfg : config.

  (* lia generalises over every hypothesis mentioning N, including the Section variables: clear them first *)
  Ltac slia := try clear v_in; try clear v_out; try clear ires_resolve; try clear ires_reset; try clear ores_resolve;
    try clear ores_reset; try clear dec_feed; try clear dec_init; try clear enc_done; try clear enc_call; try clear enc_reset; lia.
  Notation state := (state enc dec ores ires).
  Notation user_event := (user_event enc dec ores ires cfg).
  Notation fail_op := (fail_op enc dec ores ires cfg).
  Notation release := (release enc dec ores ires cfg).

  (* operation ids of the table are below the id counter: the new id is fresh *)
  Definition fresh_next (s : state) : Prop := forall id, In id (keys (s_ops s)) -> id < s_next_id s.

  Lemma lookup_app_fresh (l : list (N * op)) id o k :
    ~ In id (keys l) -> lookup k (l ++ [(id, o)]) = if id =? k then Some o else lookup k l.
  Proof.
    intros Hn. induction l as [|[k' v'] r IH]; cbn [app lookup]; [reflexivity|].
    cbn [keys map fst In] in Hn. destruct (k' =? k) eqn:E.
    - destruct (id =? k) eqn:E2; [exfalso; apply Hn; left; slia | reflexivity].
    - apply IH. intros H. apply Hn. right. exact H.
  Qed.

  Lemma remove_app_fresh (l : list (N * op)) id o : ~ In id (keys l) -> remove id (l ++ [(id, o)]) = l.
  Proof.
    intros Hn. induction l as [|[k' v'] r IH]; cbn [app remove].
    - rewrite N.eqb_refl. reflexivity.
    - cbn [keys map fst In] in Hn. destruct (k' =? id) eqn:E; [exfalso; apply Hn; left; slia|].
      f_equal. apply IH. intros H. apply Hn. right. exact H.
  Qed.

  (* offline + rejected kind: failed with the offline-policy error in the same step, never queued,
     nothing else changes except the id counter *)
  Lemma submit_offline_rejected (s : state) p t :
    fresh_next s -> s_st s <> Connected -> is_disconnect p = false ->
    passes_policy (cf_policy cfg) p = false ->
    let r := user_event s p t in
    r_done r = [(s_next_id s, CompErr EOfflineQueuePolicyFailed)] /\ r_out r = Ok tt /\
    r_s r = s <| s_next_id := s_next_id s + 1 |>.
  Proof.
    intros Hf Hst Hd Hp. unfold Model.user_event, create_operation, passes_now. rewrite Hd. cbn.
    assert (Hne : pstate_eqb (s_st s) Connected = false) by (destruct (s_st s); try reflexivity; congruence).
    rewrite Hne, Hp. cbn [negb].
    assert (Hfr : ~ In (s_next_id s) (keys (s_ops s))) by (intros H; apply Hf in H; slia).
    unfold Model.fail_op. cbn. rewrite (lookup_app_fresh _ _ _ _ Hfr), N.eqb_refl.
    unfold Model.release. cbn. rewrite Hne, andb_false_r. cbn.
    rewrite (remove_app_fresh _ _ _ Hfr). unfold disconnect_completion. cbn. rewrite Hd. cbn.
    repeat split.
  Qed.

  (* a kept kind (or any non-DISCONNECT packet while connected) is queued at the back of the user
     queue and nothing is completed *)
  Lemma submit_kept (s : state) p t :
    is_disconnect p = false ->
    (s_st s = Connected \/ passes_policy (cf_policy cfg) p = true) ->
    let r := user_event s p t in
    r_done r = [] /\ r_out r = Ok tt /\
    r_s r = s <| s_next_id := s_next_id s + 1 |> <| s_ops := s_ops s ++ [(s_next_id s, new_op p true t)] |>
              <| s_uq := s_uq s ++ [s_next_id s] |>.
  Proof.
    intros Hd Hk. unfold Model.user_event, create_operation, passes_now. rewrite Hd. cbn.
    assert (Hpass : (if pstate_eqb (s_st s) Connected then true else passes_policy (cf_policy cfg) p) = true).
    { destruct Hk as [-> | ->]; [reflexivity | destruct (pstate_eqb _ _); reflexivity]. }
    rewrite Hpass. cbn. repeat split.
  Qed.
End Engine.
