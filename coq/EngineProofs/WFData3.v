(* Well-formedness through the inbound path, part 3: packet handlers, handle_packets, net_data. *)
From GM Require Import Base.Prelude Base.Outcome Codec.Packets Codec.Settings Engine.Model
  EngineProofs.AssocLemmas EngineProofs.PacketIds EngineProofs.WFLemmas EngineProofs.WFDefs EngineProofs.WFCore
  EngineProofs.WFComplete EngineProofs.WFClose EngineProofs.WFClose2 EngineProofs.WFService EngineProofs.WFService4
  EngineProofs.WFEvents EngineProofs.WFData EngineProofs.WFData2 EngineProofs.WFTrack.
From Coq Require Import Sorting.Sorted Sorting.Permutation.
From RecordUpdate Require Import RecordSet.
Import RecordSetNotations.
Open Scope N_scope.

(* the four component types are implicit in the engine functions, locally to this file *)
#[local] Arguments init {enc dec} _ {ores ires} _ _.
#[local] Arguments release {enc dec ores ires} _ _ _ _.
#[local] Arguments disconnect_completion {enc dec ores ires} _ _.
#[local] Arguments fail_op {enc dec ores ires} _ _ _ _.
#[local] Arguments ping_extension {enc dec ores ires} _ _.
#[local] Arguments succeed_op {enc dec ores ires} _ _ _ _.
#[local] Arguments fail_all {enc dec ores ires} _ _ _ _.
#[local] Arguments succeed_all {enc dec ores ires} _ _ _.
#[local] Arguments andthen {enc dec ores ires} _ _.
#[local] Arguments try_ {enc dec ores ires} _ _.
#[local] Arguments pure {enc dec ores ires} _.
#[local] Arguments create_operation {enc dec ores ires} _ _.
#[local] Arguments passes_now {enc dec ores ires} _ _ _.
#[local] Arguments user_event {enc dec ores ires} _ _ _ _.
#[local] Arguments create_connect {enc dec ores ires} _ _.
#[local] Arguments net_opened {enc dec} _ {ores ires} _ _ _.
#[local] Arguments op_exists {enc dec ores ires} _ _.
#[local] Arguments op_passes {enc dec ores ires} _ _ _.
#[local] Arguments partition_policy {enc dec ores ires} _ _ _.
#[local] Arguments closed_current {enc dec ores ires} _ _.
#[local] Arguments slow_start_init {enc dec ores ires} _ _.
#[local] Arguments update_retries {enc dec ores ires} _ _.
#[local] Arguments fail_exceeding {enc dec ores ires} _ _.
#[local] Arguments has_pubrel {enc dec ores ires} _ _.
#[local] Arguments net_closed_raw {enc dec ores ires} _ _.
#[local] Arguments net_closed {enc dec ores ires} _ _.
#[local] Arguments net_write_completion {enc dec ores ires} _ _.
#[local] Arguments acquire_free_pid {enc dec ores ires} _ _.
#[local] Arguments acquire_pid_for {enc dec ores ires} _ _.
#[local] Arguments unbind {enc dec ores ires} _ _.
#[local] Arguments passes_receive_max {enc dec ores ires} _ _.
#[local] Arguments throttled {enc dec ores ires} _ _.
#[local] Arguments has_pending_ack {enc dec ores ires} _.
#[local] Arguments dequeue {enc dec ores ires} _ _ _.
#[local] Arguments fully_written {enc dec ores ires} _ _.
#[local] Arguments service_keep_alive {enc dec ores ires} _ _ _.
#[local] Arguments process_ack_timeouts {enc dec ores ires} _ _ _.
#[local] Arguments halt_on_error {enc dec ores ires} _ _.
#[local] Arguments next_service_time {enc dec ores ires} _ _ _.
#[local] Arguments build_settings {enc dec ores ires} _ _ _.
#[local] Arguments apply_session {enc dec ores ires} _ _ _.
#[local] Arguments hres_of {enc dec ores ires} _ _.
#[local] Arguments pre_connack {enc dec ores ires} _.
#[local] Arguments sum_ss {enc dec ores ires} _.
#[local] Arguments handle_pingresp {enc dec ores ires} _.
#[local] Arguments handle_suback {enc dec ores ires} _ _ _.
#[local] Arguments handle_unsuback {enc dec ores ires} _ _ _.
#[local] Arguments publish_qos_of {enc dec ores ires} _ _.
#[local] Arguments handle_puback {enc dec ores ires} _ _ _.
#[local] Arguments handle_pubrec {enc dec ores ires} _ _ _.
#[local] Arguments handle_pubrel {enc dec ores ires} _ _.
#[local] Arguments handle_pubcomp {enc dec ores ires} _ _ _.
#[local] Arguments handle_publish {enc dec ores ires} _ _.
#[local] Arguments handle_disconnect {enc dec ores ires} _ _ _.
#[local] Arguments is_connect_op {enc dec ores ires} _ _.
#[local] Arguments connect_in_queue {enc dec ores ires} _.
#[local] Arguments reset {enc dec ores ires} _ _.
#[local] Arguments out_of_res {enc dec ores ires} _ _.
#[local] Arguments nst_queue {enc dec ores ires} _ _ _ _.
#[local] Arguments earliest_tmo {enc dec ores ires} _.
#[local] Arguments SeatStop {enc dec ores ires} _.
#[local] Arguments SeatContinue {enc dec ores ires} _ _.
#[local] Arguments SeatEncode {enc dec ores ires} _.


Lemma sum_ss_fold (l : list (N * op)) : forall a, fold_left (fun acc '(_, o) => acc + op_ss o) l a = a + sumss l.
Proof.
  induction l as [|[k v] r IH]; intros a; cbn [fold_left].
  - change (sumss []) with 0. lia.
  - rewrite IH, sumss_cons. lia.
Qed.

Section Data.
  Variable enc : Type.
  Variable enc_reset : version -> packet -> resolution -> outcome enc.
  Variable enc_call : enc -> N -> N -> outcome (bytes * enc).
  Variable enc_done : enc -> bool.
  Variable dec : Type.
  Variable dec_init : dec.
  Variable dec_feed : version -> N -> dec -> bytes -> dec * list packet * outcome unit.
  Variable ores : Type.
  Variable ores_reset : ores -> N -> ores.
  Variable ores_resolve : ores -> option N -> bytes -> outcome (ores * resolution).
  Variable ires : Type.
  Variable ires_reset : ires -> ires.
  Variable ires_resolve : ires -> option N -> bytes -> outcome (ires * bytes).
  Variable v_out : option settings -> connect_opts -> resolution -> packet -> outcome unit.
  Variable v_in : option settings -> packet -> outcome unit.
  Variable cfg : config.
  Variable HC : comps_ok enc enc_reset enc_call dec dec_init dec_feed ores ores_reset ores_resolve ires ires_reset ires_resolve v_out v_in.

  Notation state := (state enc dec ores ires).
  Notation hres := (hres enc dec ores ires).
  Notation handle_connack := (handle_connack enc dec ores ores_reset ires ires_reset v_in cfg).
  Notation handle_packet := (handle_packet enc dec ores ores_reset ires ires_reset v_in cfg).
  Notation handle_packets := (handle_packets enc dec ores ores_reset ires ires_reset ires_resolve v_in cfg).
  Notation net_data := (net_data enc dec dec_feed ores ores_reset ires ires_reset ires_resolve v_in cfg).

  Ltac splits := repeat match goal with |- _ /\ _ => split end.
  Ltac tuple_eqs H := repeat (apply pair_equal_spec in H; destruct H as [H ?]).
  Ltac core_cbn := unfold tracked, inq; cbn [core_of c_ops c_uq c_rq c_hq c_cur c_alloc c_ppub c_pnon c_pwco c_nid c_npid].

  Definition hpost (T : Prop) (h : hres) : Prop :=
    (forall site, h_out h <> Panic site) /\ WFS (h_s h) /\
    (h_out h = Ok tt -> WFP cfg (h_s h) /\ s_st (h_s h) <> PendingConnack) /\ cinv HC (h_s h) /\ (T -> TR (h_s h)).

  Lemma hpost_err (s : state) d ev k : WFS s -> cinv HC s -> hpost (TR s) (mkHres s d ev (Err k)).
  Proof. intros H HI. unfold hpost. cbn. splits; auto; intros; discriminate. Qed.

  Definition pcq (s : state) : Prop := s_st s = PendingConnack -> connect_in_queue s = false.

  Lemma existsb_false_nil {A} (f : A -> bool) l : existsb f l = false -> (forall x, In x l -> f x = true) -> l = [].
  Proof. destruct l as [|a r]; [reflexivity|]. cbn. intros H Hall. rewrite (Hall a (or_introl eq_refl)) in H. discriminate. Qed.

  Lemma handle_connack_spec (s : state) now c :
    WF cfg s -> cinv HC s -> pcq s -> hpost (TR s) (handle_connack s now c).
  Proof.
    intros [HW HP] HI Hq. unfold Model.handle_connack.
    destruct (pstate_eqb (s_st s) PendingConnack) eqn:Est; cbn [negb]; [|apply hpost_err; assumption].
    apply pstate_eqb_eq in Est.
    destruct (ca_rc c =? 0); cbn [negb]; [|apply hpost_err; assumption].
    destruct (v_in None (Connack c)) as [u|k|site] eqn:Ev; [|apply hpost_err; assumption|].
    2:{ exfalso. exact (co_v_in HC _ _ _ Ev). }
    (* what the handshake state tells us *)
    unfold WFP in HP. rewrite Est in HP. destruct HP as (A1 & A2 & A3 & A4 & A5 & A6 & A7 & A8).
    specialize (Hq Est). unfold connect_in_queue in Hq.
    apply orb_false_elim in Hq. destruct Hq as [Hq Hq3]. apply orb_false_elim in Hq. destruct Hq as [Hq1 Hq2].
    assert (Hconn : forall i, is_conn_op s i -> is_connect_op s i = true).
    { intros i (o & Ho & Hc & _). unfold is_connect_op. unfold getop in Ho. rewrite Ho. exact Hc. }
    assert (Ehq : s_hq s = []) by (apply (existsb_false_nil _ _ Hq1); intros i Hi; apply Hconn, A5; tauto).
    assert (Epw : s_pwco s = []) by (apply (existsb_false_nil _ _ Hq3); intros i Hi; apply Hconn, A5; tauto).
    assert (Hcur : forall i, s_cur s = Some i -> getop s i = None).
    { intros i Hi. rewrite Hi in Hq2. destruct (getop s i) as [o|] eqn:Ho; [|reflexivity]. exfalso.
      destruct (A6 i o Hi Ho) as (Hc & _). unfold is_connect_op in Hq2. unfold getop in Ho. rewrite Ho in Hq2. congruence. }
    set (st := build_settings cfg s c).
    set (s1 := s <| s_st := Connected |> <| s_connected_before := true |> <| s_settings := Some st |>
                 <| s_connack_to := None |>
                 <| s_ores := ores_reset (s_ores s) (match ca_tam c with Some m => m | None => 0 end) |>
                 <| s_ires := ires_reset (s_ires s) |>
                 <| s_ping_to := None |>
                 <| s_next_ping := (if 0 <? st_server_keep_alive st then Some (now + st_server_keep_alive st * 1000) else None) |>).
    set (s2 := if cf_drain_one cfg then s1 <| s_ss_count := sum_ss s1 |> else s1).
    assert (HW2 : WFS s2) by (unfold s2; destruct (cf_drain_one cfg); exact HW).
    assert (H92 : W9 cfg s2).
    { intros _ Hd. unfold s2. rewrite Hd. cbn. unfold sum_ss. cbn. rewrite sum_ss_fold. lia. }
    assert (F2 : s_st s2 = Connected /\ s_hq s2 = [] /\ s_ppub s2 = [] /\ s_pnon s2 = [] /\ s_tmo s2 = [] /\ s_pwco s2 = [] /\
                 s_cur s2 = s_cur s /\ s_ops s2 = s_ops s /\ s_settings s2 = Some st).
    { unfold s2; destruct (cf_drain_one cfg); cbn; splits; auto. }
    destruct F2 as (G1 & G2 & G3 & G4 & G5 & G6 & G7 & G8 & G9).
    assert (Hcur2 : forall i, s_cur s2 = Some i -> getop s2 i = None).
    { intros i Hi. unfold getop. rewrite G8. apply Hcur. congruence. }
    assert (HI2 : cinv HC s2).
    { destruct HI as (I1 & I2 & I3 & I4). unfold s2. destruct (cf_drain_one cfg); unfold cinv; cbn; splits; auto;
        try (apply (co_ores_reset HC); exact I3); try (apply (co_ires_reset HC); exact I4). }
    destruct (apply_session_spec cfg s2 (ca_session_present c) HW2 H92 G1 G2 G3 G4 G5 G6 Hcur2)
      as (P1 & P2 & P3 & P4 & P5 & P6 & P7 & P8 & P9 & P10).
    assert (HT2 : TR s -> TR s2).
    { apply TR_queues; [exact G8|]. unfold inQ. rewrite G7. unfold s2. destruct (cf_drain_one cfg); cbn; tauto. }
    assert (HIr : cinv HC (r_s (apply_session cfg s2 (ca_session_present c)))) by (eapply cinv_comp; [exact P9|exact HI2]).
    fold st. fold s1. fold s2. set (r := apply_session cfg s2 (ca_session_present c)) in *. clearbody r.
    destruct (r_out r) as [[]|k|site] eqn:Eo.
    - unfold hpost. cbn. split; [intros; discriminate|]. split; [exact P2|]. split; [|split; [exact HIr|auto]]. intros _. split; [|congruence].
      unfold WFP. rewrite P4. splits.
      + rewrite P5, G9. discriminate.
      + intros i o Hi Ho. rewrite P6 in Hi. rewrite (P8 i Hi) in Ho. discriminate.
      + apply P3. exact P4.
    - unfold hpost. cbn. splits; auto; intros; discriminate.
    - exfalso. eapply P1. reflexivity.
  Qed.

  Lemma pre_connack_false (s : state) :
    pre_connack s = false -> s_st s = Connected \/ s_st s = PendingDisconnect \/ s_st s = Halted.
  Proof. unfold pre_connack. destruct (s_st s); cbn; intros H; try discriminate; tauto. Qed.

  Lemma st_frame_npc ids (s s' : state) :
    frame_c ids s s' -> s_st s = Connected \/ s_st s = PendingDisconnect \/ s_st s = Halted -> s_st s' <> PendingConnack.
  Proof. intros F Hst. destruct (fc_st _ _ _ F) as [E|[_ E]]; rewrite E; [destruct Hst as [H|[H|H]]; rewrite H|]; discriminate. Qed.

  (* (H1) an acknowledgement completes its operation *)
  Lemma hpost_succeed (s : state) id resp ev :
    WF cfg s -> cinv HC s -> pre_connack s = false -> resp <> None -> hpost (TR s) (hres_of (succeed_op cfg s id resp) ev).
  Proof.
    intros [HW HP] HI Hpre Hr. pose proof (pre_connack_false s Hpre) as Hst.
    pose proof (succeed_op_spec cfg [] s id resp HW (W9_of_WFP cfg s HP) (or_introl Hr)) as F.
    unfold hpost, hres_of. cbn [h_s h_out]. split; [apply F|]. split; [apply F|]. split.
    2:{ split; [eapply cinv_comp; [|exact HI]; apply rest_comp; apply F|]. intros T. eapply TR_frame_c; [apply F|exact T]. }
    intros _. split.
    - eapply (WFP_after_fail cfg _ s); [exact HP|exact Hst|apply F|apply F].
    - eapply st_frame_npc; [apply F|exact Hst].
  Qed.

  (* (H2) an inbound packet is answered by a fresh internal operation at the back of the high-priority queue *)
  Lemma hpost_newop (s : state) p ev :
    WF cfg s -> cinv HC s -> pre_connack s = false -> needs_pid p = false -> sub_ok p ->
    hpost (TR s) (let (s1, id) := create_operation s (new_op p false None) in mkHres (s1 <| s_hq := s_hq s1 ++ [id] |>) [] ev (Ok tt)).
  Proof.
    intros [HW HP] HI Hpre Hn Hsub. pose proof (pre_connack_false s Hpre) as Hst.
    set (o := new_op p false None).
    destruct (create_op_spec [] s o HW eq_refl eq_refl) as (C1 & C2 & C3 & C4 & C5 & C6 & C7 & C8 & C9 & C10).
    cbn [create_operation fst snd] in *. unfold hpost. cbn [h_s h_out].
    split; [intros; discriminate|]. split; [|split; [intros _; split|split; [exact HI|]]].
    4:{ intros T. apply (TR_newop s _ o T (fresh_id s HW)); [reflexivity| |]; unfold inQ; cbn.
        - intros i [Q|[Q|[Q|Q]]]; try tauto. right; right; left. apply in_or_app. tauto.
        - intros _. split; [right; right; left; apply in_or_app; right; left; reflexivity|apply unb_ok_new; exact Hsub]. }
    - eapply WFS_queues; [exact C2| | | | | | | | | | |]; cbn; auto; try tauto.
      + core_cbn. cbn. intros i. cbn. intros [H|[H|[H|[H|H]]]]; try tauto.
        apply in_app_or in H. destruct H as [H|[<-|[]]]; [tauto|]. right; right. lia.
      + intros i Hi. apply in_app_or in Hi. destruct Hi as [Hi|[<-|[]]]; [tauto|]. right. intros o1 Ho1.
        unfold getop in Ho1, C6. cbn in Ho1, C6. assert (o1 = o) by congruence. subst o1. cbn. rewrite Hn. discriminate.
    - eapply (WFP_newop cfg s _ o); try eassumption; try reflexivity; auto. right.
      destruct Hst as [H|[H|H]]; rewrite H; split; discriminate.
    - cbn. destruct Hst as [H|[H|H]]; rewrite H; discriminate.
  Qed.

  Lemma hpost_same (s : state) ev : WF cfg s -> cinv HC s -> pre_connack s = false -> hpost (TR s) (mkHres s [] ev (Ok tt)).
  Proof.
    intros [HW HP] HI Hpre. unfold hpost. cbn. split; [intros; discriminate|]. split; [exact HW|]. split; [|split; [exact HI|auto]]. intros _. split; [exact HP|].
    destruct (pre_connack_false s Hpre) as [H|[H|H]]; rewrite H; discriminate.
  Qed.

  Lemma handle_pingresp_spec (s : state) : WF cfg s -> cinv HC s -> hpost (TR s) (handle_pingresp s).
  Proof.
    intros [HW HP] HI. unfold handle_pingresp.
    destruct (s_st s) eqn:Est; try (apply hpost_err; assumption);
      (destruct (s_ping_to s); [|apply hpost_err; assumption]);
      unfold hpost; cbn; (split; [intros; discriminate|]); (split; [exact HW|]); (split; [|split; [exact HI|auto]]); intros _; rewrite Est;
      (split; [|discriminate]); unfold WFP in *; cbn; rewrite Est in *; exact HP.
  Qed.

  Lemma handle_suback_spec (s : state) a : WF cfg s -> cinv HC s -> hpost (TR s) (handle_suback cfg s a).
  Proof.
    intros HWF HI. pose proof HWF as [HW HP]. unfold handle_suback.
    destruct (pre_connack s) eqn:Hpre; [apply hpost_err; assumption|].
    destruct (lookup (sa_pid a) (s_pnon s)) as [id|] eqn:El; [|apply hpost_err; assumption].
    apply lookup_In in El. destruct (w_pnon _ _ HW _ _ El) as (o & Ho & _). unfold gop in Ho. cbn in Ho. rewrite Ho.
    destruct (op_packet o); try (apply hpost_err; assumption).
    match goal with |- context [if ?b then _ else _] => destruct b end; [apply hpost_err; assumption|].
    apply hpost_succeed; [exact HWF|exact HI|exact Hpre|discriminate].
  Qed.

  Lemma handle_unsuback_spec (s : state) a : WF cfg s -> cinv HC s -> hpost (TR s) (handle_unsuback cfg s a).
  Proof.
    intros HWF HI. pose proof HWF as [HW HP]. unfold handle_unsuback.
    destruct (pre_connack s) eqn:Hpre; [apply hpost_err; assumption|].
    destruct (lookup (ua_pid a) (s_pnon s)) as [id|] eqn:El; [|apply hpost_err; assumption].
    apply lookup_In in El. destruct (w_pnon _ _ HW _ _ El) as (o & Ho & _). unfold gop in Ho. cbn in Ho. rewrite Ho.
    destruct (op_packet o); try (apply hpost_err; assumption).
    destruct (version_eqb (cf_version cfg) V311); [apply hpost_succeed; [exact HWF|exact HI|exact Hpre|discriminate]|].
    match goal with |- context [if ?b then _ else _] => destruct b end; [apply hpost_err; assumption|].
    apply hpost_succeed; [exact HWF|exact HI|exact Hpre|discriminate].
  Qed.

  Lemma handle_puback_spec (s : state) a : WF cfg s -> cinv HC s -> hpost (TR s) (handle_puback cfg s a).
  Proof.
    intros HWF HI. pose proof HWF as [HW HP]. unfold handle_puback.
    destruct (pre_connack s) eqn:Hpre; [apply hpost_err; assumption|].
    destruct (lookup (ack_pid a) (s_ppub s)) as [id|]; [|apply hpost_err; assumption].
    destruct (publish_qos_of s id) as [[|[q|q|]]|]; try (apply hpost_err; assumption).
    apply hpost_succeed; [exact HWF|exact HI|exact Hpre|discriminate].
  Qed.

  Lemma handle_pubcomp_spec (s : state) a : WF cfg s -> cinv HC s -> hpost (TR s) (handle_pubcomp cfg s a).
  Proof.
    intros HWF HI. pose proof HWF as [HW HP]. unfold handle_pubcomp.
    destruct (pre_connack s) eqn:Hpre; [apply hpost_err; assumption|].
    destruct (lookup (ack_pid a) (s_ppub s)) as [id|] eqn:El; [|apply hpost_err; assumption].
    apply lookup_In in El. destruct (w_ppub _ _ HW _ _ El) as (o & Ho & _ & Hk). unfold gop in Ho. cbn in Ho. rewrite Ho.
    destruct (op_packet o); try discriminate.
    destruct (pub_qos p =? 2); [|apply hpost_err; assumption].
    destruct (op_pubrel o); [|apply hpost_err; assumption].
    apply hpost_succeed; [exact HWF|exact HI|exact Hpre|discriminate].
  Qed.

  Lemma handle_pubrel_spec (s : state) a : WF cfg s -> cinv HC s -> hpost (TR s) (handle_pubrel s a).
  Proof.
    intros HWF HI. pose proof HWF as [HW HP]. unfold handle_pubrel.
    destruct (pre_connack s) eqn:Hpre; [apply hpost_err; assumption|].
    set (s1 := s <| s_q2in := set_remove (ack_pid a) (s_q2in s) |>).
    apply (hpost_newop s1); [split; [exact HW|exact HP]|exact HI|exact Hpre|reflexivity|exact I].
  Qed.

  Lemma handle_publish_spec (s : state) pb : WF cfg s -> cinv HC s -> hpost (TR s) (handle_publish s pb).
  Proof.
    intros HWF HI. pose proof HWF as [HW HP]. unfold handle_publish.
    destruct (pre_connack s) eqn:Hpre; [apply hpost_err; assumption|].
    destruct (pub_qos pb =? 0); [apply hpost_same; assumption|].
    destruct (pub_qos pb =? 1); [apply (hpost_newop s); [exact HWF|exact HI|exact Hpre|reflexivity|exact I]|].
    destruct (mem (pub_pid pb) (s_q2in s)).
    - apply (hpost_newop s); [exact HWF|exact HI|exact Hpre|reflexivity|exact I].
    - set (s0 := s <| s_q2in := set_insert (pub_pid pb) (s_q2in s) |>).
      apply (hpost_newop s0); [split; [exact HW|exact HP]|exact HI|exact Hpre|reflexivity|exact I].
  Qed.

  Lemma handle_disconnect_spec (s : state) d : WF cfg s -> cinv HC s -> hpost (TR s) (handle_disconnect cfg s d).
  Proof.
    intros [HW HP] HI. unfold handle_disconnect. destruct (pre_connack s); [apply hpost_err; assumption|].
    destruct (version_eqb (cf_version cfg) V311); apply hpost_err; assumption.
  Qed.

  Lemma handle_pubrec_spec (s : state) a : WF cfg s -> cinv HC s -> hpost (TR s) (handle_pubrec cfg s a).
  Proof.
    intros HWF HI. pose proof HWF as [HW HP]. unfold handle_pubrec.
    destruct (pre_connack s) eqn:Hpre; [apply hpost_err; assumption|].
    destruct (lookup (ack_pid a) (s_ppub s)) as [id|] eqn:El; [|apply hpost_err; assumption].
    apply lookup_In in El.
    destruct (lookup id (s_ops s)) as [o|] eqn:Ho; [|apply hpost_same; assumption].
    destruct (op_packet o) eqn:Ep; try (apply hpost_err; assumption).
    destruct (pub_qos p =? 2); [|apply hpost_err; assumption].
    destruct (128 <=? ack_rc a); [apply hpost_succeed; [exact HWF|exact HI|exact Hpre|discriminate]|].
    pose proof (pre_connack_false s Hpre) as Hst.
    set (f := fun o : op => o <| op_pubrel := Some (Pubrel (default_ack (ack_pid a))) |>).
    set (sM := s <| s_ops := update id f (s_ops s) |>).
    assert (HWM : WFS sM).
    { eapply (WFc_set_pubrel [] (core_of s) _ id (ack_pid a)); [exact HW|exact El|reflexivity]. }
    unfold hpost. cbn [h_s h_out]. split; [intros; discriminate|]. split; [|split; [intros _; split|split; [exact HI|]]].
    4:{ intros T. apply (TR_gen s _ T). intros i o1 Hi Hp. right. unfold getop in Hi. cbn in Hi. apply lookup_update_inv in Hi.
        destruct Hi as (o0 & Ho0 & [[Hne ->]|[-> ->]]).
        - exists o0. splits; auto. unfold inQ. cbn. intros [Q|[Q|[Q|Q]]]; try tauto. right; right; left. apply in_or_app. tauto.
        - exfalso. destruct (w_ppub _ _ HW _ _ El) as (o2 & Ho2 & Hp2 & _). unfold gop in Ho2. cbn in Ho2, Hp.
          assert (o2 = o0) by congruence. subst o2. congruence. }
    - eapply (WFS_queues [] [] sM); [exact HWM| | | | | | | | | | |]; cbn; auto; try tauto.
      + core_cbn. cbn. intros i [H|[H|[H|[H|H]]]]; try tauto. apply in_app_or in H. destruct H as [H|[<-|[]]]; [tauto|].
        right; left. eapply (lookup_in_keys id (update id f (s_ops s))). apply lookup_update_eq. exact Ho.
      + intros i Hi. apply in_app_or in Hi. destruct Hi as [Hi|[<-|[]]]; [tauto|]. right. intros o1 _ _. eauto.
    - (* per-state facts: only op_pubrel of one operation and the queue changed *)
      unfold WFP in *. cbn. destruct Hst as [H|[H|H]]; rewrite H in *; try exact I; try exact HP.
      destruct HP as (A1 & A2 & A3). splits; auto.
      + intros i o1 Hc Hi. unfold getop in Hi. cbn in Hi. apply lookup_update_inv in Hi.
        destruct Hi as (o0 & Ho0 & [[Hne ->]|[-> ->]]); [exact (A2 i o0 Hc Ho0)|].
        destruct (A2 id o0 Hc Ho0) as (B1 & B2). split; [exact B1|exact B2].
      + unfold ss_ok in *. cbn. rewrite sumss_update by reflexivity. exact A3.
    - cbn. destruct Hst as [H|[H|H]]; rewrite H; discriminate.
  Qed.

  Lemma handle_packet_spec (s : state) now p : WF cfg s -> cinv HC s -> pcq s -> hpost (TR s) (handle_packet s now p).
  Proof.
    intros HWF HI Hq. pose proof HWF as [HW HP]. destruct p; cbn [Model.handle_packet]; try (apply hpost_err; assumption).
    - apply handle_connack_spec; assumption.
    - apply handle_publish_spec; assumption.
    - apply handle_puback_spec; assumption.
    - apply handle_pubrec_spec; assumption.
    - apply handle_pubrel_spec; assumption.
    - apply handle_pubcomp_spec; assumption.
    - apply handle_suback_spec; assumption.
    - apply handle_unsuback_spec; assumption.
    - apply handle_pingresp_spec; assumption.
    - apply handle_disconnect_spec; assumption.
  Qed.

  Definition hps_post (T : Prop) (h : hres) : Prop :=
    (forall site, h_out h <> Panic site) /\ WFS (h_s h) /\ (h_out h = Ok tt -> WFP cfg (h_s h)) /\ cinv HC (h_s h) /\
    (T -> TR (h_s h)).

  Lemma hps_err (T : Prop) (s : state) d ev k : WFS s -> cinv HC s -> (T -> TR s) -> hps_post T (mkHres s d ev (Err k)).
  Proof. intros H HI HT. unfold hps_post. cbn. splits; auto; intros; discriminate. Qed.

  Lemma hps_weaken (T T' : Prop) h : hps_post T' h -> (T -> T') -> hps_post T h.
  Proof. intros (A & B & C & D & E) H. unfold hps_post. splits; auto. Qed.

  Lemma handle_packets_spec now : forall ps (s : state) dn ev,
    WF cfg s -> cinv HC s -> pcq s -> hps_post (TR s) (handle_packets s now ps dn ev).
  Proof.
    induction ps as [|p rest IH]; intros s dn ev HWF HI Hq; pose proof HWF as [HW HP]; cbn [Model.handle_packets].
    { unfold hps_post. cbn. splits; auto. intros; discriminate. }
    assert (Hres : match (match p with
                          | Publish pb => do (i', t) <- ires_resolve (s_ires s) (pub_alias pb) (pub_topic pb) ;
                                          Ok (s <| s_ires := i' |>, Publish (with_topic pb t))
                          | _ => Ok (s, p) end) with
                   | Ok (s1, p1) => WF cfg s1 /\ pcq s1 /\ cinv HC s1 /\ (TR s -> TR s1)
                   | Err _ => True
                   | Panic _ => False end).
    { destruct p; try (splits; auto; fail).
      destruct (co_ires HC (s_ires s) (pub_alias p) (pub_topic p) (proj2 (proj2 (proj2 HI)))) as (Hnp & Hinv).
      destruct (ires_resolve (s_ires s) (pub_alias p) (pub_topic p)) as [[i' t]|k|site] eqn:Er; cbn [obind]; try exact I.
      - split; [split; [exact HW|exact HP]|split; [exact Hq|split]].
        + destruct HI as (I1 & I2 & I3 & I4). unfold cinv. cbn. splits; auto. eapply Hinv. reflexivity.
        + apply TR_queues; [reflexivity|]. unfold inQ. cbn. tauto.
      - eapply Hnp. reflexivity. }
    destruct (match p with
              | Publish pb => do (i', t) <- ires_resolve (s_ires s) (pub_alias pb) (pub_topic pb) ;
                              Ok (s <| s_ires := i' |>, Publish (with_topic pb t))
              | _ => Ok (s, p) end) as [[s1 p1]|k|site]; [|apply hps_err; auto|destruct Hres].
    destruct Hres as (HWF1 & Hq1 & HI1 & HT1). pose proof HWF1 as [HW1 HP1].
    destruct (v_in (s_settings s1) p1) as [u|k|site] eqn:Ev; [|apply hps_err; auto|].
    2:{ exfalso. exact (co_v_in HC _ _ _ Ev). }
    destruct (handle_packet_spec s1 now p1 HWF1 HI1 Hq1) as (N1 & W1 & P1 & J1 & K1).
    destruct (h_out (handle_packet s1 now p1)) as [[]|k|site] eqn:Eo.
    - destruct (P1 eq_refl) as (P2 & P3). eapply hps_weaken; [apply IH; [split; assumption|exact J1|]|auto]. intros E. congruence.
    - apply hps_err; auto.
    - exfalso. eapply N1. reflexivity.
  Qed.

  Lemma net_data_spec (s : state) now data : WF cfg s -> cinv HC s -> hps_post (TR s) (net_data s now data).
  Proof.
    intros HWF HI. pose proof HWF as [HW HP]. unfold Model.net_data.
    destruct (pstate_eqb (s_st s) Disconnected || pstate_eqb (s_st s) Halted); [apply hps_err; auto|].
    destruct (pstate_eqb (s_st s) PendingConnack && connect_in_queue s) eqn:Eg; [apply hps_err; auto|].
    destruct (co_dec_feed HC (cf_version cfg) (max_incoming_size cfg) (s_dec s) data (proj1 (proj2 HI))) as (Hnpd & Hinvd).
    destruct (dec_feed (cf_version cfg) (max_incoming_size cfg) (s_dec s) data) as [[d' ps] r] eqn:Ed.
    set (s1 := s <| s_dec := d' |>).
    assert (HI1 : cinv HC s1) by (destruct HI as (I1 & I2 & I3 & I4); unfold cinv; cbn; splits; auto).
    assert (HWF1 : WF cfg s1) by (split; [exact HW|exact HP]).
    assert (HT1 : TR s -> TR s1) by (apply TR_queues; [reflexivity|unfold inQ; cbn; tauto]).
    assert (Hq1 : pcq s1).
    { intros E. change (connect_in_queue s1) with (connect_in_queue s). change (s_st s1) with (s_st s) in E.
      rewrite E in Eg. cbn in Eg. exact Eg. }
    destruct r as [u|k|site].
    - eapply hps_weaken; [apply handle_packets_spec; assumption|exact HT1].
    - apply hps_err; auto.
    - exfalso. eapply Hnpd. reflexivity.
  Qed.
End Data.

Arguments hps_post {enc enc_reset enc_call dec dec_init dec_feed ores ores_reset ores_resolve ires ires_reset ires_resolve v_out v_in} cfg HC T h.
Arguments pcq {enc dec ores ires} s.
