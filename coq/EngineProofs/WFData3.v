(* Well-formedness through the inbound path, part 3: packet handlers, handle_packets, net_data. *)
From GM Require Import Base.Prelude Base.Outcome Codec.Packets Codec.Settings Engine.Model
  EngineProofs.AssocLemmas EngineProofs.PacketIds EngineProofs.WFLemmas EngineProofs.WFDefs EngineProofs.WFCore
  EngineProofs.WFComplete EngineProofs.WFClose EngineProofs.WFClose2 EngineProofs.WFService EngineProofs.WFService4
  EngineProofs.WFEvents EngineProofs.WFData EngineProofs.WFData2.
From Coq Require Import Sorting.Sorted Sorting.Permutation.
From RecordUpdate Require Import RecordSet.
Import RecordSetNotations.
Open Scope N_scope.

Lemma sum_ss_fold (l : list (N * op)) : forall a, fold_left (fun acc '(_, o) => acc + op_ss o) l a = a + sumss l.
Proof.
  induction l as [|[k v] r IH]; intros a; cbn [fold_left].
  - change (sumss []) with 0. lia.
  - rewrite IH, sumss_cons. lia.
Qed.

Section Data.
  Variable enc : Type.
  Variable enc_reset : version -> packet -> resolution -> outcome enc.
  Variable enc_call : enc -> N -> N -> outcome (bytes * enc).
  Variable enc_done : enc -> bool.
  Variable dec : Type.
  Variable dec_init : dec.
  Variable dec_feed : version -> N -> dec -> bytes -> dec * list packet * outcome unit.
  Variable ores : Type.
  Variable ores_reset : ores -> N -> ores.
  Variable ores_resolve : ores -> option N -> bytes -> outcome (ores * resolution).
  Variable ires : Type.
  Variable ires_reset : ires -> ires.
  Variable ires_resolve : ires -> option N -> bytes -> outcome (ires * bytes).
  Variable v_out : option settings -> connect_opts -> resolution -> packet -> outcome unit.
  Variable v_in : option settings -> packet -> outcome unit.
  Variable cfg : config.
  Hypothesis HC : comps_ok enc enc_reset enc_call dec dec_feed ores ores_resolve ires ires_resolve v_out v_in.

  Notation state := (state enc dec ores ires).
  Notation hres := (hres enc dec ores ires).
  Notation handle_connack := (handle_connack enc dec ores ores_reset ires ires_reset v_in cfg).
  Notation handle_packet := (handle_packet enc dec ores ores_reset ires ires_reset v_in cfg).
  Notation handle_packets := (handle_packets enc dec ores ores_reset ires ires_reset ires_resolve v_in cfg).
  Notation net_data := (net_data enc dec dec_feed ores ores_reset ires ires_reset ires_resolve v_in cfg).

  Ltac splits := repeat match goal with |- _ /\ _ => split end.
  Ltac tuple_eqs H := repeat (apply pair_equal_spec in H; destruct H as [H ?]).
  Ltac core_cbn := unfold tracked, inq; cbn [core_of c_ops c_uq c_rq c_hq c_cur c_alloc c_ppub c_pnon c_pwco c_nid c_npid].

  Definition hpost (h : hres) : Prop :=
    (forall site, h_out h <> Panic site) /\ WFS (h_s h) /\
    (h_out h = Ok tt -> WFP cfg (h_s h) /\ s_st (h_s h) <> PendingConnack).

  Lemma hpost_err (s : state) d ev k : WFS s -> hpost (mkHres s d ev (Err k)).
  Proof. intros H. unfold hpost. cbn. splits; auto; intros; discriminate. Qed.

  Definition pcq (s : state) : Prop := s_st s = PendingConnack -> connect_in_queue s = false.

  Lemma existsb_false_nil {A} (f : A -> bool) l : existsb f l = false -> (forall x, In x l -> f x = true) -> l = [].
  Proof. destruct l as [|a r]; [reflexivity|]. cbn. intros H Hall. rewrite (Hall a (or_introl eq_refl)) in H. discriminate. Qed.

  Lemma handle_connack_spec (s : state) now c :
    WF cfg s -> pcq s -> hpost (handle_connack s now c).
  Proof.
    intros [HW HP] Hq. unfold Model.handle_connack.
    destruct (pstate_eqb (s_st s) PendingConnack) eqn:Est; cbn [negb]; [|apply hpost_err; exact HW].
    apply pstate_eqb_eq in Est.
    destruct (ca_rc c =? 0); cbn [negb]; [|apply hpost_err; exact HW].
    destruct (v_in None (Connack c)) as [u|k|site] eqn:Ev; [|apply hpost_err; exact HW|].
    2:{ exfalso. exact (co_v_in _ _ _ _ _ _ _ _ _ _ _ HC _ _ _ Ev). }
    (* what the handshake state tells us *)
    unfold WFP in HP. rewrite Est in HP. destruct HP as (A1 & A2 & A3 & A4 & A5 & A6 & A7 & A8).
    specialize (Hq Est). unfold connect_in_queue in Hq.
    apply orb_false_elim in Hq. destruct Hq as [Hq Hq3]. apply orb_false_elim in Hq. destruct Hq as [Hq1 Hq2].
    assert (Hconn : forall i, is_conn_op s i -> is_connect_op s i = true).
    { intros i (o & Ho & Hc & _). unfold is_connect_op. unfold getop in Ho. rewrite Ho. exact Hc. }
    assert (Ehq : s_hq s = []) by (apply (existsb_false_nil _ _ Hq1); intros i Hi; apply Hconn, A5; tauto).
    assert (Epw : s_pwco s = []) by (apply (existsb_false_nil _ _ Hq3); intros i Hi; apply Hconn, A5; tauto).
    assert (Hcur : forall i, s_cur s = Some i -> getop s i = None).
    { intros i Hi. rewrite Hi in Hq2. destruct (getop s i) as [o|] eqn:Ho; [|reflexivity]. exfalso.
      destruct (A6 i o Hi Ho) as (Hc & _). unfold is_connect_op in Hq2. unfold getop in Ho. rewrite Ho in Hq2. congruence. }
    set (st := build_settings cfg s c).
    set (s1 := s <| s_st := Connected |> <| s_connected_before := true |> <| s_settings := Some st |>
                 <| s_connack_to := None |>
                 <| s_ores := ores_reset (s_ores s) (match ca_tam c with Some m => m | None => 0 end) |>
                 <| s_ires := ires_reset (s_ires s) |>
                 <| s_ping_to := None |>
                 <| s_next_ping := (if 0 <? st_server_keep_alive st then Some (now + st_server_keep_alive st * 1000) else None) |>).
    set (s2 := if cf_drain_one cfg then s1 <| s_ss_count := sum_ss s1 |> else s1).
    assert (HW2 : WFS s2) by (unfold s2; destruct (cf_drain_one cfg); exact HW).
    assert (H92 : W9 cfg s2).
    { intros _ Hd. unfold s2. rewrite Hd. cbn. unfold sum_ss. cbn. rewrite sum_ss_fold. lia. }
    assert (F2 : s_st s2 = Connected /\ s_hq s2 = [] /\ s_ppub s2 = [] /\ s_pnon s2 = [] /\ s_tmo s2 = [] /\ s_pwco s2 = [] /\
                 s_cur s2 = s_cur s /\ s_ops s2 = s_ops s /\ s_settings s2 = Some st).
    { unfold s2; destruct (cf_drain_one cfg); cbn; splits; auto. }
    destruct F2 as (G1 & G2 & G3 & G4 & G5 & G6 & G7 & G8 & G9).
    assert (Hcur2 : forall i, s_cur s2 = Some i -> getop s2 i = None).
    { intros i Hi. unfold getop. rewrite G8. apply Hcur. congruence. }
    destruct (apply_session_spec cfg s2 (ca_session_present c) HW2 H92 G1 G2 G3 G4 G5 G6 Hcur2)
      as (P1 & P2 & P3 & P4 & P5 & P6 & P7 & P8).
    fold st. fold s1. fold s2. set (r := apply_session cfg s2 (ca_session_present c)) in *. clearbody r.
    destruct (r_out r) as [[]|k|site] eqn:Eo.
    - unfold hpost. cbn. split; [intros; discriminate|]. split; [exact P2|]. intros _. split; [|congruence].
      unfold WFP. rewrite P4. splits.
      + rewrite P5, G9. discriminate.
      + intros i o Hi Ho. rewrite P6 in Hi. rewrite (P8 i Hi) in Ho. discriminate.
      + apply P3. exact P4.
    - unfold hpost. cbn. splits; auto; intros; discriminate.
    - exfalso. eapply P1. reflexivity.
  Qed.

  Lemma pre_connack_false (s : state) :
    pre_connack s = false -> s_st s = Connected \/ s_st s = PendingDisconnect \/ s_st s = Halted.
  Proof. unfold pre_connack. destruct (s_st s); cbn; intros H; try discriminate; tauto. Qed.

  Lemma st_frame_npc ids (s s' : state) :
    frame_c ids s s' -> s_st s = Connected \/ s_st s = PendingDisconnect \/ s_st s = Halted -> s_st s' <> PendingConnack.
  Proof. intros F Hst. destruct (fc_st _ _ _ F) as [E|[_ E]]; rewrite E; [destruct Hst as [H|[H|H]]; rewrite H|]; discriminate. Qed.

  (* (H1) an acknowledgement completes its operation *)
  Lemma hpost_succeed (s : state) id resp ev :
    WF cfg s -> pre_connack s = false -> resp <> None -> hpost (hres_of (succeed_op cfg s id resp) ev).
  Proof.
    intros [HW HP] Hpre Hr. pose proof (pre_connack_false s Hpre) as Hst.
    pose proof (succeed_op_spec cfg [] s id resp HW (W9_of_WFP cfg s HP) (or_introl Hr)) as F.
    unfold hpost, hres_of. cbn [h_s h_out]. split; [apply F|]. split; [apply F|]. intros _. split.
    - eapply (WFP_after_fail cfg _ s); [exact HP|exact Hst|apply F|apply F].
    - eapply st_frame_npc; [apply F|exact Hst].
  Qed.

  (* (H2) an inbound packet is answered by a fresh internal operation at the back of the high-priority queue *)
  Lemma hpost_newop (s : state) p ev :
    WF cfg s -> pre_connack s = false -> needs_pid p = false ->
    hpost (let (s1, id) := create_operation s (new_op p false None) in mkHres (s1 <| s_hq := s_hq s1 ++ [id] |>) [] ev (Ok tt)).
  Proof.
    intros [HW HP] Hpre Hn. pose proof (pre_connack_false s Hpre) as Hst.
    set (o := new_op p false None).
    destruct (create_op_spec [] s o HW eq_refl eq_refl) as (C1 & C2 & C3 & C4 & C5 & C6 & C7 & C8 & C9 & C10).
    cbn [create_operation fst snd] in *. unfold hpost. cbn [h_s h_out].
    split; [intros; discriminate|]. split; [|intros _; split].
    - eapply WFS_queues; [exact C2| | | | | | | | | | |]; cbn; auto; try tauto.
      + core_cbn. cbn. intros i. cbn. intros [H|[H|[H|[H|H]]]]; try tauto.
        apply in_app_or in H. destruct H as [H|[<-|[]]]; [tauto|]. right; right. lia.
      + intros i Hi. apply in_app_or in Hi. destruct Hi as [Hi|[<-|[]]]; [tauto|]. right. intros o1 Ho1.
        unfold getop in Ho1, C6. cbn in Ho1, C6. assert (o1 = o) by congruence. subst o1. cbn. rewrite Hn. discriminate.
    - eapply (WFP_newop cfg s _ o); try eassumption; try reflexivity; auto. right.
      destruct Hst as [H|[H|H]]; rewrite H; split; discriminate.
    - cbn. destruct Hst as [H|[H|H]]; rewrite H; discriminate.
  Qed.

  Lemma hpost_same (s : state) ev : WF cfg s -> pre_connack s = false -> hpost (mkHres s [] ev (Ok tt)).
  Proof.
    intros [HW HP] Hpre. unfold hpost. cbn. split; [intros; discriminate|]. split; [exact HW|]. intros _. split; [exact HP|].
    destruct (pre_connack_false s Hpre) as [H|[H|H]]; rewrite H; discriminate.
  Qed.

  Lemma handle_pingresp_spec (s : state) : WF cfg s -> hpost (handle_pingresp s).
  Proof.
    intros [HW HP]. unfold handle_pingresp.
    destruct (s_st s) eqn:Est; try (apply hpost_err; exact HW);
      (destruct (s_ping_to s); [|apply hpost_err; exact HW]);
      unfold hpost; cbn; (split; [intros; discriminate|]); (split; [exact HW|]); intros _; rewrite Est;
      (split; [|discriminate]); unfold WFP in *; cbn; rewrite Est in *; exact HP.
  Qed.

  Lemma handle_suback_spec (s : state) a : WF cfg s -> hpost (handle_suback cfg s a).
  Proof.
    intros HWF. pose proof HWF as [HW HP]. unfold handle_suback.
    destruct (pre_connack s) eqn:Hpre; [apply hpost_err; exact HW|].
    destruct (lookup (sa_pid a) (s_pnon s)) as [id|] eqn:El; [|apply hpost_err; exact HW].
    apply lookup_In in El. destruct (w_pnon _ _ HW _ _ El) as (o & Ho & _). unfold gop in Ho. cbn in Ho. rewrite Ho.
    destruct (op_packet o); try (apply hpost_err; exact HW).
    match goal with |- context [if ?b then _ else _] => destruct b end; [apply hpost_err; exact HW|].
    apply hpost_succeed; [exact HWF|exact Hpre|discriminate].
  Qed.

  Lemma handle_unsuback_spec (s : state) a : WF cfg s -> hpost (handle_unsuback cfg s a).
  Proof.
    intros HWF. pose proof HWF as [HW HP]. unfold handle_unsuback.
    destruct (pre_connack s) eqn:Hpre; [apply hpost_err; exact HW|].
    destruct (lookup (ua_pid a) (s_pnon s)) as [id|] eqn:El; [|apply hpost_err; exact HW].
    apply lookup_In in El. destruct (w_pnon _ _ HW _ _ El) as (o & Ho & _). unfold gop in Ho. cbn in Ho. rewrite Ho.
    destruct (op_packet o); try (apply hpost_err; exact HW).
    destruct (version_eqb (cf_version cfg) V311); [apply hpost_succeed; [exact HWF|exact Hpre|discriminate]|].
    match goal with |- context [if ?b then _ else _] => destruct b end; [apply hpost_err; exact HW|].
    apply hpost_succeed; [exact HWF|exact Hpre|discriminate].
  Qed.

  Lemma handle_puback_spec (s : state) a : WF cfg s -> hpost (handle_puback cfg s a).
  Proof.
    intros HWF. pose proof HWF as [HW HP]. unfold handle_puback.
    destruct (pre_connack s) eqn:Hpre; [apply hpost_err; exact HW|].
    destruct (lookup (ack_pid a) (s_ppub s)) as [id|]; [|apply hpost_err; exact HW].
    destruct (publish_qos_of s id) as [[|[q|q|]]|]; try (apply hpost_err; exact HW).
    apply hpost_succeed; [exact HWF|exact Hpre|discriminate].
  Qed.

  Lemma handle_pubcomp_spec (s : state) a : WF cfg s -> hpost (handle_pubcomp cfg s a).
  Proof.
    intros HWF. pose proof HWF as [HW HP]. unfold handle_pubcomp.
    destruct (pre_connack s) eqn:Hpre; [apply hpost_err; exact HW|].
    destruct (lookup (ack_pid a) (s_ppub s)) as [id|] eqn:El; [|apply hpost_err; exact HW].
    apply lookup_In in El. destruct (w_ppub _ _ HW _ _ El) as (o & Ho & _ & Hk). unfold gop in Ho. cbn in Ho. rewrite Ho.
    destruct (op_packet o); try discriminate.
    destruct (pub_qos p =? 2); [|apply hpost_err; exact HW].
    destruct (op_pubrel o); [|apply hpost_err; exact HW].
    apply hpost_succeed; [exact HWF|exact Hpre|discriminate].
  Qed.

  Lemma handle_pubrel_spec (s : state) a : WF cfg s -> hpost (handle_pubrel s a).
  Proof.
    intros HWF. pose proof HWF as [HW HP]. unfold handle_pubrel.
    destruct (pre_connack s) eqn:Hpre; [apply hpost_err; exact HW|].
    set (s1 := s <| s_q2in := set_remove (ack_pid a) (s_q2in s) |>).
    apply (hpost_newop s1); [split; [exact HW|exact HP]|exact Hpre|reflexivity].
  Qed.

  Lemma handle_publish_spec (s : state) pb : WF cfg s -> hpost (handle_publish s pb).
  Proof.
    intros HWF. pose proof HWF as [HW HP]. unfold handle_publish.
    destruct (pre_connack s) eqn:Hpre; [apply hpost_err; exact HW|].
    destruct (pub_qos pb =? 0); [apply hpost_same; assumption|].
    destruct (pub_qos pb =? 1); [apply (hpost_newop s); [exact HWF|exact Hpre|reflexivity]|].
    destruct (mem (pub_pid pb) (s_q2in s)).
    - apply (hpost_newop s); [exact HWF|exact Hpre|reflexivity].
    - set (s0 := s <| s_q2in := set_insert (pub_pid pb) (s_q2in s) |>).
      apply (hpost_newop s0); [split; [exact HW|exact HP]|exact Hpre|reflexivity].
  Qed.

  Lemma handle_disconnect_spec (s : state) d : WF cfg s -> hpost (handle_disconnect cfg s d).
  Proof.
    intros [HW HP]. unfold handle_disconnect. destruct (pre_connack s); [apply hpost_err; exact HW|].
    destruct (version_eqb (cf_version cfg) V311); apply hpost_err; exact HW.
  Qed.
End Data.
