(* C05, run level, part 2: what every OTHER entry point does to the inbound QoS 2 set and to the
   high-priority queue.
   - the set [s_q2in] is changed by nothing but incoming data (InboundLoop.v) and reset:
     submissions, connection opened / closed, write completion, service (keep-alive, queue service,
     ack timeouts), next-service-time queries leave it alone ([*_q2] lemmas, [step_frame]);
   - the high-priority queue only ever changes by: pushing at the FRONT (user DISCONNECT, CONNECT,
     PINGREQ, a half-sent PUBREL carrier at close), removing a PREFIX (service takes the head; close
     and reset drop everything) and, for incoming data, appending at the BACK ([qrel]).
   Everything holds for ANY state. *)
From GM Require Import Base.Prelude Base.Outcome Codec.Packets Codec.Settings Engine.Model
  EngineProofs.Frames EngineProofs.InboundSpec EngineProofs.InboundLoop.
From RecordUpdate Require Import RecordSet.
Import RecordSetNotations.
Open Scope N_scope.

Lemma skipn_skipn_add {A} (k2 k1 : nat) (l : list A) : skipn k2 (skipn k1 l) = skipn (k1 + k2) l.
Proof.
  revert l. induction k1 as [|k1 IH]; intros l; [reflexivity|].
  destruct l as [|x r]; [rewrite !skipn_nil; reflexivity|]. cbn [skipn Nat.add]. apply IH.
Qed.

Set Default Proof Using "Type".
Section Engine.
  Variable enc : Type.
  Variable enc_reset : version -> packet -> resolution -> outcome enc.
  Variable enc_call : enc -> N -> N -> outcome (bytes * enc).
  Variable enc_done : enc -> bool.
  Variable dec : Type.
  Variable dec_init : dec.
  Variable ores : Type.
  Variable ores_reset : ores -> N -> ores.
  Variable ores_resolve : ores -> option N -> bytes -> outcome (ores * resolution).
  Variable ires : Type.
  Variable v_out : option settings -> connect_opts -> resolution -> packet -> outcome unit.
  Variable cfg : config.

  Notation state := (Model.state enc dec ores ires).
  Notation res := (Model.res enc dec ores ires).
  Notation fail_op := (Model.fail_op enc dec ores ires cfg).
  Notation fail_all := (Model.fail_all enc dec ores ires cfg).
  Notation succeed_all := (Model.succeed_all enc dec ores ires cfg).
  Notation andthen := (Model.andthen enc dec ores ires).
  Notation try_ := (Model.try_ enc dec ores ires).
  Notation create_operation := (Model.create_operation enc dec ores ires).
  Notation user_event := (Model.user_event enc dec ores ires cfg).
  Notation net_opened := (Model.net_opened enc dec dec_init ores ires cfg).
  Notation partition_policy := (Model.partition_policy enc dec ores ires cfg).
  Notation closed_current := (Model.closed_current enc dec ores ires cfg).
  Notation slow_start_init := (Model.slow_start_init enc dec ores ires cfg).
  Notation update_retries := (Model.update_retries enc dec ores ires cfg).
  Notation fail_exceeding := (Model.fail_exceeding enc dec ores ires cfg).
  Notation net_closed_raw := (Model.net_closed_raw enc dec ores ires cfg).
  Notation net_closed := (Model.net_closed enc dec ores ires cfg).
  Notation net_write_completion := (Model.net_write_completion enc dec ores ires cfg).
  Notation acquire_free_pid := (Model.acquire_free_pid enc dec ores ires).
  Notation acquire_pid_for := (Model.acquire_pid_for enc dec ores ires).
  Notation dequeue := (Model.dequeue enc dec ores ires cfg).
  Notation fully_written := (Model.fully_written enc dec ores ires).
  Notation op_exists := (Model.op_exists enc dec ores ires).
  Notation seat := (Model.seat enc dec ores ires).
  Notation seat_current := (Model.seat_current enc enc_reset dec ores ores_reset ores_resolve ires v_out cfg).
  Notation service_loop := (Model.service_loop enc enc_reset enc_call enc_done dec ores ores_reset ores_resolve ires v_out cfg).
  Notation service_queue := (Model.service_queue enc enc_reset enc_call enc_done dec ores ores_reset ores_resolve ires v_out cfg).
  Notation service_keep_alive := (Model.service_keep_alive enc dec ores ires cfg).
  Notation process_ack_timeouts := (Model.process_ack_timeouts enc dec ores ires cfg).
  Notation halt_on_error := (Model.halt_on_error enc dec ores ires).
  Notation service := (Model.service enc enc_reset enc_call enc_done dec ores ores_reset ores_resolve ires v_out cfg).
  Notation reset := (Model.reset enc dec ores ires cfg).
  Notation keep := (InboundLoop.keep enc dec ores ires).
  Notation keep_refl := (InboundLoop.keep_refl enc dec ores ires).
  Notation keep_trans := (InboundLoop.keep_trans enc dec ores ires).
  Notation fail_op_keep := (InboundLoop.fail_op_keep enc dec ores ires cfg).
  Notation fail_all_keep := (InboundLoop.fail_all_keep enc dec ores ires cfg).
  Notation succeed_all_keep := (InboundLoop.succeed_all_keep enc dec ores ires cfg).

  Ltac kk := unfold InboundLoop.keep; cbn; split; reflexivity.

  (* the set is unchanged; the queue is the old one minus a prefix, plus new entries at the front *)
  Definition qrel (s s' : state) : Prop :=
    s_q2in s' = s_q2in s /\ exists front k, s_hq s' = front ++ skipn k (s_hq s).
  (* ... no new entries *)
  Definition rel (s s' : state) : Prop :=
    s_q2in s' = s_q2in s /\ exists k, s_hq s' = skipn k (s_hq s).

  Lemma rel_refl s : rel s s.
  Proof. split; [reflexivity|]. exists 0%nat. reflexivity. Qed.
  Lemma rel_trans s1 s2 s3 : rel s1 s2 -> rel s2 s3 -> rel s1 s3.
  Proof.
    intros [Hq1 [k1 Hh1]] [Hq2 [k2 Hh2]]. split; [congruence|]. exists (k1 + k2)%nat.
    rewrite Hh2, Hh1. apply skipn_skipn_add.
  Qed.
  Lemma keep_rel s s' : keep s s' -> rel s s'.
  Proof. intros [Hq Hh]. split; [exact Hq|]. exists 0%nat. exact Hh. Qed.
  Lemma rel_qrel s s' : rel s s' -> qrel s s'.
  Proof. intros [Hq [k Hh]]. split; [exact Hq|]. exists [], k. exact Hh. Qed.
  Lemma keep_qrel s s' : keep s s' -> qrel s s'.
  Proof. intros H. apply rel_qrel, keep_rel, H. Qed.
  Lemma qrel_keep s1 s2 s3 : qrel s1 s2 -> keep s2 s3 -> qrel s1 s3.
  Proof. intros [Hq [f [k Hh]]] [Hq2 Hh2]. split; [congruence|]. exists f, k. congruence. Qed.
  Lemma keep_qrel_trans s1 s2 s3 : keep s1 s2 -> qrel s2 s3 -> qrel s1 s3.
  Proof. intros [Hq2 Hh2] [Hq [f [k Hh]]]. split; [congruence|]. exists f, k. congruence. Qed.
  (* pushing at the front, then removing a prefix *)
  Lemma push_rel s1 s2 s3 f : s_q2in s2 = s_q2in s1 -> s_hq s2 = f ++ s_hq s1 -> rel s2 s3 -> qrel s1 s3.
  Proof.
    intros Hq Hh [Hq3 [k Hh3]]. split; [congruence|].
    exists (skipn k f), (k - length f)%nat. rewrite Hh3, Hh. apply skipn_app.
  Qed.
  Lemma emptied_qrel s s' : s_q2in s' = s_q2in s -> s_hq s' = [] -> qrel s s'.
  Proof. intros Hq Hh. split; [exact Hq|]. exists [], (length (s_hq s)). rewrite Hh, skipn_all. reflexivity. Qed.

  (* ---------------- submissions ---------------- *)
  Lemma user_event_qrel s p t : qrel s (r_s (user_event s p t)).
  Proof.
    unfold Model.user_event, Model.create_operation.
    set (s1 := s <| s_next_id := _ |> <| s_ops := _ |>).
    assert (H1 : keep s s1) by (subst s1; kk).
    destruct (negb (passes_now enc dec ores ires cfg s1 p)).
    - cbn [r_s]. apply keep_qrel. eapply keep_trans; [exact H1|apply fail_op_keep].
    - destruct (is_disconnect p); cbn [Model.pure r_s].
      + split; [reflexivity|]. exists [s_next_id s], 0%nat. reflexivity.
      + apply keep_qrel. kk.
  Qed.

  (* ---------------- connection opened ---------------- *)
  Lemma net_opened_qrel s deadline : qrel s (r_s (net_opened s deadline)).
  Proof.
    unfold Model.net_opened. destruct (negb _); cbn [r_s]; [apply keep_qrel; kk|].
    unfold Model.create_operation. cbn [Model.pure r_s]. split; [reflexivity|].
    eexists [_], 0%nat. cbn. reflexivity.
  Qed.

  (* ---------------- connection closed ---------------- *)
  (* a predicate that the completion helpers preserve is preserved by the sequencing combinators *)
  Lemma andthen_inv (P : state -> Prop) (r : res) f :
    P (r_s r) -> (forall s, P s -> P (r_s (f s))) -> P (r_s (andthen r f)).
  Proof.
    intros H1 Hf. unfold Model.andthen. destruct (is_panic (r_out r)); [exact H1|].
    specialize (Hf (r_s r) H1). destruct (is_panic _); cbn; exact Hf.
  Qed.

  Lemma closed_current_hq (s : state) :
    let s' := r_s (closed_current s) in
    s_q2in s' = s_q2in s /\ (s_hq s' = s_hq s \/ exists id, s_hq s' = id :: s_hq s).
  Proof.
    cbv zeta. unfold Model.closed_current. destruct (s_cur s) as [id|]; [|cbn; auto].
    set (r := match lookup id (s_ops s) with Some _ => _ | None => _ end).
    assert (Hr : s_q2in (r_s r) = s_q2in s /\ (s_hq (r_s r) = s_hq s \/ exists id, s_hq (r_s r) = id :: s_hq s)).
    { subst r. destruct (lookup id (s_ops s)) as [o|]; [|cbn; auto].
      assert (Hf : forall e, s_q2in (r_s (fail_op s id e)) = s_q2in s /\
                             (s_hq (r_s (fail_op s id e)) = s_hq s \/ exists id', s_hq (r_s (fail_op s id e)) = id' :: s_hq s)).
      { intros e. destruct (fail_op_keep s id e) as [A B]. auto. }
      destruct (op_packet o);
        repeat match goal with
               | |- context [if ?b then _ else _] => destruct b
               | |- context [match lookup ?k ?l with _ => _ end] => destruct (lookup k l)
               end; cbn [r_s Model.pure]; try apply Hf; cbn; eauto. }
    clearbody r. unfold Model.try_. destruct (r_out r); cbn [r_s Model.pure]; exact Hr.
  Qed.

  Lemma slow_start_init_keep (s s' : state) : slow_start_init s = Ok s' -> keep s s'.
  Proof.
    unfold Model.slow_start_init. destruct (negb (cf_drain_one cfg)); [intros H; inversion H; apply keep_refl|].
    destruct (forallb _ _); [|discriminate]. intros H; inversion H; subst. kk.
  Qed.

  Lemma update_retries_keep (s s' : state) : update_retries s = Ok s' -> keep s s'.
  Proof.
    unfold Model.update_retries. destruct (cf_retry cfg); [|intros H; inversion H; apply keep_refl].
    destruct (forallb _ _); [|discriminate]. intros H; inversion H; subst. kk.
  Qed.

  Lemma fail_exceeding_keep (s : state) : keep s (r_s (fail_exceeding s)).
  Proof.
    unfold Model.fail_exceeding. destruct (cf_retry cfg) as [limit|]; [|cbn; apply keep_refl].
    destruct (negb (forallb _ _)); [cbn; apply keep_refl|].
    apply (andthen_inv (fun s' => keep s s')); [apply fail_all_keep|].
    intros s1 H1. destruct (negb (forallb _ _)); [cbn; exact H1|].
    eapply keep_trans; [exact H1|apply fail_all_keep].
  Qed.

  Lemma net_closed_raw_qrel (s : state) : qrel s (r_s (net_closed_raw s)).
  Proof.
    unfold Model.net_closed_raw. destruct (pstate_eqb (s_st s) Disconnected); [cbn; apply keep_qrel, keep_refl|].
    set (s0 := s <| s_st := Disconnected |> <| s_connack_to := None |> <| s_next_ping := None |> <| s_ping_to := None |> <| s_tmo := [] |>).
    assert (H0 : keep s s0) by (subst s0; kk).
    eapply keep_qrel_trans; [exact H0|]. clearbody s0.
    destruct (closed_current_hq s0) as [Hcq Hch]. cbv zeta in Hcq, Hch.
    assert (Hc : qrel s0 (r_s (closed_current s0))).
    { split; [exact Hcq|]. destruct Hch as [Hh|[id Hh]]; [exists [], 0%nat|exists [id], 0%nat]; rewrite Hh; reflexivity. }
    unfold Model.try_. destruct (r_out (closed_current s0)); [|exact Hc..].
    cbn [r_s]. set (s1 := r_s (closed_current s0)) in *. clearbody s1.
    destruct (slow_start_init s1) as [s2|k|site] eqn:E2; cbn [r_s]; [|exact Hc..].
    pose proof (slow_start_init_keep _ _ E2) as H2.
    destruct (update_retries s2) as [s3|k|site] eqn:E3; cbn [r_s]; [|eapply qrel_keep; eauto..].
    pose proof (update_retries_keep _ _ E3) as H3.
    (* from here on the queue is empty *)
    set (P := fun s' : state => s_q2in s' = s_q2in s0 /\ s_hq s' = []).
    assert (HP : forall s' s'', P s' -> keep s' s'' -> P s'').
    { intros s' s'' [A B] [C D]. split; congruence. }
    assert (Hfin : P (r_s (andthen
               (fail_all (s3 <| s_hq := [] |>)
                  (filter (fun id => negb (has_pubrel enc dec ores ires (s3 <| s_hq := [] |>) id)) (s_hq s3)) EConnectionClosed)
               (fun s5 =>
                  let pwco := s_pwco s5 in
                  let (kept, rejected) := partition_policy s5 pwco in
                  let s6 := s5 <| s_pwco := [] |> <| s_uq := s_uq s5 ++ kept |> in
                  andthen (fail_all s6 rejected EOfflineQueuePolicyFailed) (fun s7 =>
                    andthen (fail_exceeding s7) (fun s8 =>
                      let pubs := map snd (s_ppub s8) in
                      let s9 := s8 <| s_ppub := [] |>
                                   <| s_ops := fold_left (fun ops id => update id (set_dup true) ops) pubs (s_ops s8) |>
                                   <| s_rq := s_rq s8 ++ pubs |> in
                      let nons := map snd (s_pnon s9) in
                      let s10 := s9 <| s_pnon := [] |> <| s_uq := rev nons ++ s_uq s9 |> in
                      let (kept_u, rejected_u) := partition_policy s10 (s_uq s10) in
                      let s11 := s10 <| s_uq := [] |> in
                      andthen (fail_all s11 rejected_u EOfflineQueuePolicyFailed) (fun s12 =>
                        Model.pure enc dec ores ires (s12 <| s_uq := s_uq s12 ++ kept_u |>)))))))).
    { apply andthen_inv.
      { eapply HP; [|apply fail_all_keep]. split; [|reflexivity]. cbn.
        destruct H2 as [A _], H3 as [B _], Hc as [C _]. congruence. }
      intros s5 H5. cbv zeta. destruct (partition_policy s5 (s_pwco s5)) as [kept rejected].
      apply andthen_inv.
      { eapply HP; [|apply fail_all_keep]. eapply HP; [exact H5|kk]. }
      intros s7 H7. apply andthen_inv; [eapply HP; [exact H7|apply fail_exceeding_keep]|].
      intros s8 H8.
      match goal with |- context [partition_policy ?a ?b] => destruct (partition_policy a b) as [kept_u rejected_u] end.
      apply andthen_inv.
      { eapply HP; [|apply fail_all_keep]. eapply HP; [exact H8|kk]. }
      intros s12 H12. cbn [Model.pure r_s]. eapply HP; [exact H12|kk]. }
    destruct Hfin as [Hq Hh]. apply emptied_qrel; assumption.
  Qed.

  Lemma net_closed_qrel (s : state) : qrel s (r_s (net_closed s)).
  Proof.
    unfold Model.net_closed. pose proof (net_closed_raw_qrel s) as H.
    destruct (pstate_eqb (s_st s) Disconnected); [exact H|].
    destruct (r_out (net_closed_raw s)) as [|k|]; try exact H.
    destruct k; cbn; exact H.
  Qed.

  (* ---------------- write completion ---------------- *)
  Lemma net_write_completion_keep (s : state) : keep s (r_s (net_write_completion s)).
  Proof.
    unfold Model.net_write_completion. destruct (_ || _); [cbn; apply keep_refl|].
    destruct (negb (s_pwc s)); [cbn; kk|].
    eapply keep_trans; [|apply succeed_all_keep]. kk.
  Qed.

  (* ---------------- service ---------------- *)
  Lemma dequeue_rel s m : rel s (fst (dequeue s m)).
  Proof.
    unfold Model.dequeue. destruct (s_pwc s); [apply rel_refl|].
    destruct (s_hq s) as [|h r] eqn:Eh.
    - destruct (negb m); [apply rel_refl|]. destruct (_ && _); [apply rel_refl|].
      destruct (s_rq s) as [|h2 r2].
      + destruct (s_uq s) as [|h3 r3]; [apply rel_refl|].
        destruct (passes_receive_max enc dec ores ires s h3); [apply keep_rel; kk|apply rel_refl].
      + destruct (passes_receive_max enc dec ores ires s h2); [apply keep_rel; kk|apply rel_refl].
    - cbn [fst]. split; [reflexivity|]. exists 1%nat. rewrite Eh. reflexivity.
  Qed.

  Lemma acquire_pid_for_keep s id s' : acquire_pid_for s id = Ok s' -> keep s s'.
  Proof.
    unfold Model.acquire_pid_for. destruct (lookup id (s_ops s)) as [o|]; [|discriminate].
    destruct (op_pid o); [intros H; inversion H; apply keep_refl|].
    destruct (negb _); [intros H; inversion H; apply keep_refl|].
    unfold Model.acquire_free_pid.
    destruct (match first_gap _ _ _ with Some c => Some c | None => _ end); cbn [obind]; [|discriminate].
    destruct (with_pid _ _); cbn [obind]; [|discriminate..]. intros H; inversion H. kk.
  Qed.

  Lemma fully_written_keep s now s' : fully_written s now = Ok s' -> keep s s'.
  Proof.
    unfold Model.fully_written. destruct (s_cur s) as [id|]; [|discriminate].
    destruct (lookup id (s_ops s)) as [o|]; [|discriminate].
    destruct (op_packet o); try destruct (pub_qos _ =? 0);
      destruct (if op_user o then op_timeout o else None); try destruct (IMAX <? _);
      cbn [obind]; intros H; inversion H; kk.
  Qed.

  Definition seat_ok (s : state) (r : seat) : Prop :=
    match r with
    | Model.SeatStop _ _ _ _ r => rel s (sr_s r)
    | Model.SeatContinue _ _ _ _ s' _ => rel s s'
    | Model.SeatEncode _ _ _ _ s' => rel s s'
    end.

  Lemma seat_current_rel s m acc dn : seat_ok s (seat_current s m acc dn).
  Proof.
    unfold Model.seat_current. destruct (s_cur s); [apply rel_refl|].
    pose proof (dequeue_rel s m) as Hd. destruct (dequeue s m) as [s1 next]. cbn [fst] in Hd.
    destruct next as [id|]; [|exact Hd].
    set (s2 := s1 <| s_cur := Some id |>).
    assert (H2 : rel s s2) by (eapply rel_trans; [exact Hd|apply keep_rel; subst s2; kk]).
    clearbody s2.
    destruct (negb (op_exists s2 id)); [cbn; eapply rel_trans; [exact H2|apply keep_rel; kk]|].
    destruct (acquire_pid_for s2 id) as [s3|k|site] eqn:Ea; [|exact H2..].
    assert (H3 : rel s s3) by (eapply rel_trans; [exact H2|apply keep_rel; eapply acquire_pid_for_keep; exact Ea]).
    destruct (lookup id (s_ops s3)) as [o|]; [|exact H3].
    cbv zeta.
    set (packet := match op_pubrel o with Some pr => pr | None => op_packet o end). clearbody packet.
    match goal with
    | |- context [match ?x with Ok _ => _ | Err _ => _ | Panic _ => _ end] =>
        match type of x with outcome (_ * resolution) => destruct x as [[s4 r]|k|site] eqn:Eres end
    end; [|exact H3..].
    assert (H34 : keep s3 s4).
    { destruct packet; try (inversion Eres; apply keep_refl).
      destruct (ores_resolve _ _ _) as [[o' r']| |]; cbn [obind] in Eres; [|discriminate..].
      inversion Eres. kk. }
    assert (H4 : rel s s4) by (eapply rel_trans; [exact H3|apply keep_rel; exact H34]).
    destruct (v_out (s_settings s4) (cf_connect cfg) r packet) as [u|k|site]; [| |exact H4].
    - destruct (enc_reset (cf_version cfg) packet r); [|exact H4..].
      cbn. eapply rel_trans; [exact H4|apply keep_rel; kk].
    - set (s4' := match r_alias r with Some _ => _ | None => s4 end).
      assert (H4' : keep s4 s4') by (subst s4'; destruct (r_alias r); [kk|apply keep_refl]).
      assert (Hf : rel s (r_s (fail_op (s4' <| s_cur := None |>) id k))).
      { eapply rel_trans; [exact H4|]. apply keep_rel. eapply keep_trans; [exact H4'|].
        eapply keep_trans; [|apply fail_op_keep]. kk. }
      destruct (r_out (fail_op (s4' <| s_cur := None |>) id k)); exact Hf.
  Qed.

  Lemma service_loop_rel fuel : forall s m now cap fill acc dn,
    rel s (sr_s (service_loop fuel s m now cap fill acc dn)).
  Proof.
    induction fuel as [|f IH]; intros s m now cap fill acc dn; cbn [Model.service_loop]; [apply rel_refl|].
    destruct (negb _); [apply rel_refl|].
    pose proof (seat_current_rel s m acc dn) as Hs.
    destruct (seat_current s m acc dn) as [r|s5 dn'|s5]; cbn [seat_ok] in Hs.
    - exact Hs.
    - eapply rel_trans; [exact Hs|apply IH].
    - destruct (s_cur s5) as [id|]; [|exact Hs].
      destruct (negb (op_exists s5 id)); [exact Hs|].
      destruct (s_enc s5) as [e|]; [|exact Hs].
      destruct (enc_call e (fill + len acc) cap) as [[out e']|k|site]; [|exact Hs..].
      assert (H6 : rel s (s5 <| s_enc := Some e' |>)) by (eapply rel_trans; [exact Hs|apply keep_rel; kk]).
      destruct (enc_done e'); [|exact H6].
      destruct (fully_written (s5 <| s_enc := Some e' |>) now) as [s7|k|site] eqn:Ef; [|exact H6..].
      eapply rel_trans; [|apply IH]. eapply rel_trans; [exact H6|apply keep_rel; eapply fully_written_keep; exact Ef].
  Qed.

  Lemma service_queue_rel s m now cap fill : rel s (sr_s (service_queue s m now cap fill)).
  Proof.
    unfold Model.service_queue. cbv zeta.
    set (r := service_loop _ s m now cap fill [] []).
    assert (Hr : rel s (sr_s r)) by apply service_loop_rel. clearbody r.
    destruct (sr_bytes r); [exact Hr|]. cbn [sr_s]. eapply rel_trans; [exact Hr|apply keep_rel; kk].
  Qed.

  Lemma service_keep_alive_push s now s1 : service_keep_alive s now = Ok s1 ->
    s_q2in s1 = s_q2in s /\ exists f, s_hq s1 = f ++ s_hq s.
  Proof.
    unfold Model.service_keep_alive.
    destruct (s_ping_to s) as [pt|].
    { destruct (pt <=? now); [discriminate|]. intros H; inversion H. split; [reflexivity|]. exists []. reflexivity. }
    destruct (s_next_ping s) as [np|]; [|intros H; inversion H; split; [reflexivity|]; exists []; reflexivity].
    destruct (np <=? now); [|intros H; inversion H; split; [reflexivity|]; exists []; reflexivity].
    unfold Model.create_operation. cbn [s_settings set].
    destruct (s_settings _) as [st|] eqn:Es; [|discriminate].
    unfold add_time. destruct (IMAX <? _); cbn [obind]; [discriminate|].
    destruct (0 <? _); intros H; inversion H; (split; [reflexivity|]); eexists [_]; reflexivity.
  Qed.

  Lemma process_ack_timeouts_keep s now : keep s (r_s (process_ack_timeouts s now)).
  Proof. unfold Model.process_ack_timeouts. cbv zeta. eapply keep_trans; [|apply fail_all_keep]. kk. Qed.

  Lemma halt_on_error_keep s r : keep s (halt_on_error s r).
  Proof. unfold Model.halt_on_error. destruct r; [apply keep_refl|kk..]. Qed.

  Lemma service_qrel s now cap fill : qrel s (sr_s (service s now cap fill)).
  Proof.
    unfold Model.service. cbv zeta. cbn [sr_s]. eapply qrel_keep; [|apply halt_on_error_keep].
    destruct (s_st s); cbn [sr_s]; try (apply keep_qrel, keep_refl).
    - destruct (s_connack_to s) as [t|]; [|apply keep_qrel, keep_refl].
      destruct (t <=? now); [apply keep_qrel, keep_refl|]. apply rel_qrel, service_queue_rel.
    - destruct (service_keep_alive s now) as [s1|k|site] eqn:Ek; [|apply keep_qrel, keep_refl..].
      destruct (service_keep_alive_push _ _ _ Ek) as [Hq [f Hh]].
      pose proof (service_queue_rel s1 true now cap fill) as Hr.
      destruct (sr_out (service_queue s1 true now cap fill)); cbn [sr_s].
      + eapply qrel_keep; [|apply process_ack_timeouts_keep]. eapply push_rel; eauto.
      + eapply push_rel; eauto.
      + eapply push_rel; eauto.
    - apply keep_qrel, process_ack_timeouts_keep.
  Qed.

  (* ---------------- reset ---------------- *)
  Lemma reset_spec s :
    (is_panic (r_out (reset s)) = false -> s_q2in (r_s (reset s)) = [] /\ s_hq (r_s (reset s)) = []) /\
    (is_panic (r_out (reset s)) = true -> keep s (r_s (reset s))).
  Proof.
    unfold Model.reset. cbv zeta.
    set (s0 := if pstate_eqb (s_st s) Disconnected then s else s <| s_st := Halted |>).
    assert (H0 : keep s s0) by (subst s0; destruct (pstate_eqb _ _); [apply keep_refl|kk]).
    set (F := fun (acc : res) (id : N) => if is_panic (r_out acc) then acc else _).
    assert (HF : forall ids acc, keep s (r_s acc) -> keep s (r_s (fold_left F ids acc))).
    { induction ids as [|id r IH]; intros acc Ha; [exact Ha|]. cbn [fold_left]. apply IH.
      subst F. cbv beta. destruct (is_panic (r_out acc)); [exact Ha|]. cbn [r_s].
      eapply keep_trans; [exact Ha|apply fail_op_keep]. }
    specialize (HF (map fst (s_ops s0)) (Model.pure enc dec ores ires s0) H0).
    destruct (is_panic (r_out (fold_left F (map fst (s_ops s0)) (Model.pure enc dec ores ires s0)))) eqn:Ep.
    - split; [intros H; rewrite H in Ep; discriminate|]. intros _. exact HF.
    - split; [|discriminate]. intros _. cbn. split; reflexivity.
  Qed.
End Engine.
