(* C17, engine level: shape of a service call's outbound log.  A seat that fails between the dequeue and
   the construction of the encoder (a 'break') is the last event of the log, fails the call and halts
   the engine. *)
From GM Require Import Base.Prelude Base.Outcome Codec.Packets Codec.Settings Engine.Model
  EngineProofs.AssocLemmas EngineProofs.HandshakeRunTrace EngineProofs.WFDefs EngineProofs.AliasRunFrames EngineProofs.AliasRunLog.
From RecordUpdate Require Import RecordSet.
Import RecordSetNotations.
Open Scope N_scope.
#[local] Set Default Proof Using "Type".

(* the four component types are implicit in the engine functions, locally to this file *)
#[local] Arguments init {enc dec} _ {ores ires} _ _.
#[local] Arguments release {enc dec ores ires} _ _ _ _.
#[local] Arguments disconnect_completion {enc dec ores ires} _ _.
#[local] Arguments fail_op {enc dec ores ires} _ _ _ _.
#[local] Arguments ping_extension {enc dec ores ires} _ _.
#[local] Arguments succeed_op {enc dec ores ires} _ _ _ _.
#[local] Arguments fail_all {enc dec ores ires} _ _ _ _.
#[local] Arguments succeed_all {enc dec ores ires} _ _ _.
#[local] Arguments andthen {enc dec ores ires} _ _.
#[local] Arguments try_ {enc dec ores ires} _ _.
#[local] Arguments pure {enc dec ores ires} _.
#[local] Arguments create_operation {enc dec ores ires} _ _.
#[local] Arguments passes_now {enc dec ores ires} _ _ _.
#[local] Arguments user_event {enc dec ores ires} _ _ _ _.
#[local] Arguments create_connect {enc dec ores ires} _ _.
#[local] Arguments net_opened {enc dec} _ {ores ires} _ _ _.
#[local] Arguments op_exists {enc dec ores ires} _ _.
#[local] Arguments op_passes {enc dec ores ires} _ _ _.
#[local] Arguments partition_policy {enc dec ores ires} _ _ _.
#[local] Arguments closed_current {enc dec ores ires} _ _.
#[local] Arguments slow_start_init {enc dec ores ires} _ _.
#[local] Arguments update_retries {enc dec ores ires} _ _.
#[local] Arguments fail_exceeding {enc dec ores ires} _ _.
#[local] Arguments has_pubrel {enc dec ores ires} _ _.
#[local] Arguments net_closed_raw {enc dec ores ires} _ _.
#[local] Arguments net_closed {enc dec ores ires} _ _.
#[local] Arguments net_write_completion {enc dec ores ires} _ _.
#[local] Arguments acquire_free_pid {enc dec ores ires} _ _.
#[local] Arguments acquire_pid_for {enc dec ores ires} _ _.
#[local] Arguments unbind {enc dec ores ires} _ _.
#[local] Arguments passes_receive_max {enc dec ores ires} _ _.
#[local] Arguments throttled {enc dec ores ires} _ _.
#[local] Arguments has_pending_ack {enc dec ores ires} _.
#[local] Arguments dequeue {enc dec ores ires} _ _ _.
#[local] Arguments fully_written {enc dec ores ires} _ _.
#[local] Arguments service_keep_alive {enc dec ores ires} _ _ _.
#[local] Arguments process_ack_timeouts {enc dec ores ires} _ _ _.
#[local] Arguments halt_on_error {enc dec ores ires} _ _.
#[local] Arguments next_service_time {enc dec ores ires} _ _ _.
#[local] Arguments build_settings {enc dec ores ires} _ _ _.
#[local] Arguments apply_session {enc dec ores ires} _ _ _.
#[local] Arguments hres_of {enc dec ores ires} _ _.
#[local] Arguments pre_connack {enc dec ores ires} _.
#[local] Arguments sum_ss {enc dec ores ires} _.
#[local] Arguments handle_pingresp {enc dec ores ires} _.
#[local] Arguments handle_suback {enc dec ores ires} _ _ _.
#[local] Arguments handle_unsuback {enc dec ores ires} _ _ _.
#[local] Arguments publish_qos_of {enc dec ores ires} _ _.
#[local] Arguments handle_puback {enc dec ores ires} _ _ _.
#[local] Arguments handle_pubrec {enc dec ores ires} _ _ _.
#[local] Arguments handle_pubrel {enc dec ores ires} _ _.
#[local] Arguments handle_pubcomp {enc dec ores ires} _ _ _.
#[local] Arguments handle_publish {enc dec ores ires} _ _.
#[local] Arguments handle_disconnect {enc dec ores ires} _ _ _.
#[local] Arguments is_connect_op {enc dec ores ires} _ _.
#[local] Arguments connect_in_queue {enc dec ores ires} _.
#[local] Arguments reset {enc dec ores ires} _ _.
#[local] Arguments out_of_res {enc dec ores ires} _ _.
#[local] Arguments nst_queue {enc dec ores ires} _ _ _ _.
#[local] Arguments earliest_tmo {enc dec ores ires} _.
#[local] Arguments SeatStop {enc dec ores ires} _.
#[local] Arguments SeatContinue {enc dec ores ires} _ _.
#[local] Arguments SeatEncode {enc dec ores ires} _.



Section Shape.
  Variable enc : Type.
  Variable enc_reset : version -> packet -> resolution -> outcome enc.
  Variable enc_call : enc -> N -> N -> outcome (bytes * enc).
  Variable enc_done : enc -> bool.
  Variable dec : Type.
  Variable dec_init : dec.
  Variable dec_feed : version -> N -> dec -> bytes -> dec * list packet * outcome unit.
  Variable ores : Type.
  Variable ores_reset : ores -> N -> ores.
  Variable ores_resolve : ores -> option N -> bytes -> outcome (ores * resolution).
  Variable ires : Type.
  Variable ires_reset : ires -> ires.
  Variable ires_resolve : ires -> option N -> bytes -> outcome (ires * bytes).
  Variable v_out : option settings -> connect_opts -> resolution -> packet -> outcome unit.
  Variable v_in : option settings -> packet -> outcome unit.
  Variable cfg : config.

  Notation state := (state enc dec ores ires).
  Notation sres := (sres enc dec ores ires).
  Notation hres := (hres enc dec ores ires).
  Notation res := (res enc dec ores ires).
  Notation seat := (seat enc dec ores ires).
  Notation step := (step enc enc_reset enc_call enc_done dec dec_init dec_feed ores ores_reset ores_resolve
                         ires ires_reset ires_resolve v_out v_in cfg).
  Notation run := (run enc enc_reset enc_call enc_done dec dec_init dec_feed ores ores_reset ores_resolve
                       ires ires_reset ires_resolve v_out v_in cfg).
  Notation seat_current := (seat_current enc enc_reset dec ores ores_reset ores_resolve ires v_out cfg).
  Notation service_loop := (service_loop enc enc_reset enc_call enc_done dec ores ores_reset ores_resolve ires v_out cfg).
  Notation service_queue := (service_queue enc enc_reset enc_call enc_done dec ores ores_reset ores_resolve ires v_out cfg).
  Notation service := (service enc enc_reset enc_call enc_done dec ores ores_reset ores_resolve ires v_out cfg).
  Notation handle_connack := (handle_connack enc dec ores ores_reset ires ires_reset v_in cfg).
  Notation handle_packet := (handle_packet enc dec ores ores_reset ires ires_reset v_in cfg).
  Notation handle_packets := (handle_packets enc dec ores ores_reset ires ires_reset ires_resolve v_in cfg).
  Notation net_data := (net_data enc dec dec_feed ores ores_reset ires ires_reset ires_resolve v_in cfg).
  Notation encode_next := (encode_next enc enc_call enc_done dec ores ires).
  Notation queue_fuel := (queue_fuel enc dec ores ires).
  Notation seat_state := (seat_state enc dec ores ires).

  Notation seat_current_a := (seat_current_a enc enc_reset dec ores ores_reset ores_resolve ires v_out cfg).
  Notation service_loop_a := (service_loop_a enc enc_reset enc_call enc_done dec ores ores_reset ores_resolve ires v_out cfg).
  Notation service_log := (service_log enc enc_reset enc_call enc_done dec ores ores_reset ores_resolve ires v_out cfg).

  (* ---- P1: a seat that fails between dequeue and encoder construction ends the log and the call ---- *)
  Definition stops_bad (x : seat) : Prop := exists r, x = SeatStop r /\ sr_out r <> Ok tt.

  Ltac leaf :=
    cbn; split; [reflexivity|];
    first [ intros H; discriminate H
          | intros _; eexists; split; [reflexivity|cbn; discriminate] ].

  Lemma seat_shape (s : state) m acc dn :
    brk_pos (snd (seat_current_a s m acc dn)) = true /\
    (has_brk (snd (seat_current_a s m acc dn)) = true -> stops_bad (fst (seat_current_a s m acc dn))).
  Proof.
    unfold AliasRunLog.seat_current_a, stops_bad. destruct (s_cur s); [leaf|].
    destruct (dequeue cfg s m) as [s1 [id|]]; [|leaf].
    destruct (negb (op_exists (s1 <| s_cur := Some id |>) id)); [leaf|].
    destruct (acquire_pid_for (s1 <| s_cur := Some id |>) id) as [s3|k|site]; [|leaf|leaf].
    destruct (lookup id (s_ops s3)) as [o|]; [|leaf].
    set (packet := match op_pubrel o with Some pr => pr | None => op_packet o end).
    assert (Htail : forall (s4 : state) (r : resolution) (lr : list oev), has_brk lr = false ->
      let res := match v_out (s_settings s4) (cf_connect cfg) r packet with
        | Err k =>
            let mx := match s_settings s4 with Some st => st_topic_alias_maximum_to_server st | None => 0 end in
            let s4' := match r_alias r with Some _ => s4 <| s_ores := ores_reset (s_ores s4) mx |> | None => s4 end in
            let rf := fail_op cfg (s4' <| s_cur := None |>) id k in
            let l := OPick id :: lr ++ OValid id packet r (Err k)
                       :: match r_alias r with Some _ => [OReset mx] | None => [] end ++ [ORejected id k] in
            match r_out rf with
            | Ok _ => (SeatContinue (r_s rf) (dn ++ r_done rf), l)
            | _ => (SeatStop (mkSres (r_s rf) acc (dn ++ r_done rf) (r_out rf)), l)
            end
        | Panic site => (SeatStop (mkSres s4 acc dn (Panic site)), OPick id :: lr ++ [OValid id packet r (Panic site)])
        | Ok _ =>
            match enc_reset (cf_version cfg) packet r with
            | Err k => (SeatStop (mkSres s4 acc dn (Err k)), OPick id :: lr ++ [OValid id packet r (Ok tt); OEncode id packet r false])
            | Panic site => (SeatStop (mkSres s4 acc dn (Panic site)), OPick id :: lr ++ [OValid id packet r (Ok tt); OEncode id packet r false])
            | Ok e => (SeatEncode (s4 <| s_enc := Some e |>), OPick id :: lr ++ [OValid id packet r (Ok tt); OEncode id packet r true])
            end
        end in
      brk_pos (snd res) = true /\ (has_brk (snd res) = true -> exists r0, fst res = SeatStop r0 /\ sr_out r0 <> Ok tt)).
    { intros s4 r lr Hlr. cbv zeta.
      assert (Hpos : forall tl, brk_pos (OPick id :: lr ++ tl) = brk_pos (OPick id :: tl)).
      { intros tl. change (OPick id :: lr ++ tl) with ((OPick id :: lr) ++ tl). rewrite brk_pos_app_clean; [|exact Hlr].
        change (OPick id :: tl) with ([OPick id] ++ tl). rewrite brk_pos_app_clean; reflexivity. }
      assert (Hhas : forall tl, has_brk (OPick id :: lr ++ tl) = has_brk tl).
      { intros tl. change (OPick id :: lr ++ tl) with ((OPick id :: lr) ++ tl). rewrite has_brk_app. change (has_brk (OPick id :: lr)) with (has_brk lr). rewrite Hlr. reflexivity. }
      destruct (v_out (s_settings s4) (cf_connect cfg) r packet) as [u|k|site].
      - destruct (enc_reset (cf_version cfg) packet r) as [e|k|site]; cbn [fst snd]; rewrite Hpos, Hhas; leaf.
      - match goal with |- context [r_out ?x] => destruct (r_out x) end; cbn [fst snd]; rewrite Hpos, Hhas; destruct (r_alias r); leaf.
      - cbn [fst snd]. rewrite Hpos, Hhas. leaf. }
    destruct packet as [c|c|pb|a|a|a|a|sb|a|un|a| | |d|a] eqn:Ep;
      try (cbn [obind]; specialize (Htail s3 no_resolution [] eq_refl); cbv zeta in Htail; cbn [app] in Htail |- *; exact Htail).
    destruct (ores_resolve (s_ores s3) (pub_alias pb) (pub_topic pb)) as [[o' r]|k|site]; cbn [obind res_of]; [|leaf|leaf].
    specialize (Htail (s3 <| s_ores := o' |>) r [OResolve id (pub_alias pb) (pub_topic pb) (Ok r)] eq_refl). cbv zeta in Htail. exact Htail.
  Qed.

  Lemma loop_shape : forall f (s : state) m now cap fill acc dn,
    brk_pos (snd (service_loop_a f s m now cap fill acc dn)) = true /\
    (has_brk (snd (service_loop_a f s m now cap fill acc dn)) = true -> sr_out (fst (service_loop_a f s m now cap fill acc dn)) <> Ok tt).
  Proof.
    induction f as [|f IH]; intros s m now cap fill acc dn; cbn [AliasRunLog.service_loop_a]; [cbn; split; [reflexivity|discriminate]|].
    destruct (negb (pstate_eqb (s_st s) PendingConnack || pstate_eqb (s_st s) Connected)); [cbn; split; [reflexivity|discriminate]|].
    destruct (seat_shape s m acc dn) as [S1 S2].
    destruct (seat_current_a s m acc dn) as [[r|s5 dn'|s5] l]; cbn [fst snd] in *.
    - split; [exact S1|]. intros H. destruct (S2 H) as (r0 & E & Hn). inversion E; subst. exact Hn.
    - destruct (has_brk l) eqn:Hb; [destruct (S2 eq_refl) as (r0 & E & _); discriminate|].
      destruct (IH s5 m now cap fill acc dn') as [I1 I2]. rewrite brk_pos_app_clean, has_brk_app, Hb by exact Hb. auto.
    - destruct (has_brk l) eqn:Hb; [destruct (S2 eq_refl) as (r0 & E & _); discriminate|].
      destruct (encode_next now cap fill s5 acc dn) as [r|[s7 acc']]; cbn [fst snd].
      + split; [exact S1|]. intros H. rewrite H in Hb. discriminate.
      + destruct (IH s7 m now cap fill acc' dn) as [I1 I2].
        assert (Hd : has_brk (match s_cur s5 with Some id => [ODone id] | None => [] end) = false) by (destruct (s_cur s5); reflexivity).
        rewrite brk_pos_app_clean, has_brk_app, Hb by exact Hb. rewrite brk_pos_app_clean, has_brk_app, Hd by exact Hd. auto.
  Qed.

  (* one service call: the log is fine for a live connection; a break halts the engine *)
  Theorem service_shape (s : state) now cap fill :
    brk_pos (service_log s now cap fill) = true /\
    (has_brk (service_log s now cap fill) = true -> s_st (sr_s (service s now cap fill)) = Halted).
  Proof.
    unfold Model.service, AliasRunLog.service_log, AliasRunLog.service_queue_log. cbv zeta. cbn [sr_s].
    assert (Hq : forall (s1 : state) m,
              has_brk (snd (service_loop_a (queue_fuel s1) s1 m now cap fill [] [])) = true ->
              sr_out (service_queue s1 m now cap fill) <> Ok tt).
    { intros s1 m H. rewrite service_queue_a. cbv zeta. destruct (loop_shape (queue_fuel s1) s1 m now cap fill [] []) as [_ L2].
      specialize (L2 H). destruct (sr_bytes _); exact L2. }
    destruct (s_st s); try (cbn; split; [reflexivity|discriminate]).
    - destruct (s_connack_to s) as [t|]; [|cbn; split; [reflexivity|discriminate]].
      destruct (t <=? now); [cbn; split; [reflexivity|discriminate]|].
      split; [apply loop_shape|]. intros H. specialize (Hq s false H).
      destruct (sr_out (service_queue s false now cap fill)) as [[]|k|site]; [congruence|reflexivity|reflexivity].
    - destruct (service_keep_alive cfg s now) as [s1|k|site]; [|cbn; split; [reflexivity|discriminate]..].
      split; [apply loop_shape|]. intros H. specialize (Hq s1 true H).
      destruct (sr_out (service_queue s1 true now cap fill)) as [[]|k|site] eqn:Eo; [congruence|rewrite Eo; reflexivity|rewrite Eo; reflexivity].
  Qed.

  (* ---- P2: while the CONNACK is awaited no PUBLISH is handed to the encoder ---- *)
  (* every existing operation of the high-priority queue is a CONNECT (without PUBREL) *)
  Definition Pq (s : state) : Prop :=
    forall i o, In i (s_hq s) -> lookup i (s_ops s) = Some o -> is_connect (op_packet o) = true /\ op_pubrel o = None.

  Lemma Pq_sub (s s' : state) :
    (forall i, In i (s_hq s') -> In i (s_hq s)) ->
    (forall i o, lookup i (s_ops s') = Some o ->
       exists o0, lookup i (s_ops s) = Some o0 /\ op_packet o = op_packet o0 /\ op_pubrel o = op_pubrel o0) ->
    Pq s -> Pq s'.
  Proof. intros H1 H2 HP i o Hi Ho. destruct (H2 _ _ Ho) as (o0 & A & B & C). rewrite B, C. apply (HP i o0); auto. Qed.

  Lemma lookup_remove_some {A} (l : list (N * A)) k i o : lookup i (remove k l) = Some o -> lookup i l = Some o.
  Proof.
    destruct (N.eq_dec i k) as [->|Hn]; [rewrite lookup_remove_eq; discriminate|rewrite lookup_remove_neq by exact Hn; auto].
  Qed.

  Lemma release_ops (s s' : state) id o : release cfg s id o = Ok s' -> s_ops s' = remove id (s_ops s).
  Proof.
    unfold release. destruct (op_pid o); destruct (_ && _ && _); try destruct (_ <=? _); intros H; inversion H; reflexivity.
  Qed.

  Lemma fail_op_lookup (s : state) id e i o :
    lookup i (s_ops (r_s (fail_op cfg s id e))) = Some o -> lookup i (s_ops s) = Some o.
  Proof.
    unfold fail_op. destruct (lookup id (s_ops s)) as [o0|]; [|auto].
    destruct (release cfg s id o0) as [s1|k|site] eqn:Er; cbn [r_s]; auto.
    pose proof (release_ops _ _ _ _ Er) as E1.
    assert (E2 : s_ops (fst (disconnect_completion s1 o0)) = s_ops s1).
    { unfold disconnect_completion. destruct (is_disconnect _); [destruct (pstate_eqb _ _)|]; reflexivity. }
    destruct (disconnect_completion s1 o0) as [s2 r]. cbn [fst] in E2.
    assert (Hs2 : lookup i (s_ops s2) = Some o -> lookup i (s_ops s) = Some o) by (rewrite E2, E1; apply lookup_remove_some).
    destruct r; [destruct (op_user o0)|..]; cbn [r_s]; exact Hs2.
  Qed.

  Lemma fully_written_ops (s s' : state) now : fully_written s now = Ok s' ->
    s_hq s' = s_hq s /\ exists id, s_ops s' = update id (fun o => o <| op_ext := Some now |>) (s_ops s).
  Proof.
    unfold fully_written. destruct (s_cur s) as [id|]; [|discriminate]. destruct (lookup id (s_ops s)) as [o|]; [|discriminate].
    destruct (if op_user o then op_timeout o else None) as [d|]; [destruct (IMAX <? now + d)|];
      destruct (op_packet o) as [| |pb| | | | | | | | | | | |]; cbn; try destruct (pub_qos pb =? 0); cbn;
      intros H; inversion H; (split; [reflexivity|exists id; reflexivity]).
  Qed.

  Lemma lookup_update_some {A} (l : list (N * A)) k f i o :
    lookup i (update k f l) = Some o -> exists o0, lookup i l = Some o0 /\ (o = o0 \/ o = f o0).
  Proof.
    destruct (N.eq_dec i k) as [->|Hn].
    - destruct (lookup k l) as [o0|] eqn:E; [rewrite (lookup_update_eq _ _ _ _ E)|rewrite (lookup_update_none _ _ _ E); discriminate].
      intros H; inversion H. exists o0. auto.
    - rewrite lookup_update_neq by exact Hn. intros H. exists o. auto.
  Qed.

  Lemma seat_pc (s : state) acc dn :
    Pq s ->
    forallb no_pub_ev (snd (seat_current_a s false acc dn)) = true /\ Pq (seat_state (fst (seat_current_a s false acc dn))).
  Proof.
    intros HP. unfold AliasRunLog.seat_current_a. destruct (s_cur s); [split; [reflexivity|exact HP]|].
    unfold dequeue. destruct (s_pwc s); [split; [reflexivity|exact HP]|].
    destruct (s_hq s) as [|id rq] eqn:Eh; [cbn; split; [reflexivity|exact HP]|].
    set (s2 := s <| s_hq := rq |> <| s_cur := Some id |>).
    assert (Htl : forall s' : state, (forall i, In i (s_hq s') -> In i rq) ->
              (forall i o, lookup i (s_ops s') = Some o -> lookup i (s_ops s) = Some o) -> Pq s').
    { intros s' H1 H2. eapply (Pq_sub s); [|intros i o Ho; exists o; auto|exact HP]. intros i Hi. rewrite Eh. right. auto. }
    unfold op_exists. change (s_ops (s2 <| s_cur := None |>)) with (s_ops s). change (s_ops s2) with (s_ops s).
    destruct (lookup id (s_ops s)) as [o0|] eqn:El; cbn [negb].
    2:{ cbn [fst snd seat_state HandshakeRunTrace.seat_state]. split; [reflexivity|]. apply Htl; auto. }
    destruct (HP id o0 ltac:(rewrite Eh; left; reflexivity) El) as [Hc Hr].
    assert (Ea : acquire_pid_for s2 id = Ok s2).
    { unfold acquire_pid_for. change (s_ops s2) with (s_ops s). rewrite El. destruct (op_pid o0); [reflexivity|].
      destruct (op_packet o0); try discriminate. reflexivity. }
    rewrite Ea. change (s_ops s2) with (s_ops s). rewrite El, Hr.
    destruct (op_packet o0) as [c| | | | | | | | | | | | | |] eqn:Ep; try discriminate. cbn [app].
    destruct (v_out (s_settings s2) (cf_connect cfg) no_resolution (Connect c)) as [u|k|site].
    - destruct (enc_reset (cf_version cfg) (Connect c) no_resolution); cbn [fst snd seat_state HandshakeRunTrace.seat_state sr_s];
        (split; [reflexivity|apply Htl; auto]).
    - cbv zeta. cbn [r_alias no_resolution].
      match goal with |- context [fail_op cfg ?x id k] => set (sx := x); pose proof (fail_op_qs enc dec ores ires cfg sx id k) as Hq;
        pose proof (fail_op_lookup sx id k) as Hl; set (rf := fail_op cfg sx id k) in * end.
      apply (qs_fields enc dec ores ires) in Hq. destruct Hq as (Q1 & _ & _).
      assert (HPf : Pq (r_s rf)) by (apply Htl; [rewrite Q1; auto|exact Hl]).
      destruct (r_out rf); cbn [fst snd seat_state HandshakeRunTrace.seat_state sr_s]; (split; [reflexivity|exact HPf]).
    - cbn [fst snd seat_state HandshakeRunTrace.seat_state sr_s]. split; [reflexivity|apply Htl; auto].
  Qed.

  Lemma encode_next_pq now cap fill (s5 : state) acc dn :
    Pq s5 ->
    match encode_next now cap fill s5 acc dn with
    | inl r => True
    | inr (s7, _) => Pq s7
    end.
  Proof.
    intros HP. unfold HandshakeRunTrace.encode_next. destruct (s_cur s5) as [id|]; [|exact I].
    destruct (negb (op_exists s5 id)); [exact I|]. destruct (s_enc s5) as [e|]; [|exact I].
    destruct (enc_call e (fill + len acc) cap) as [[out e']|k|site]; [|exact I|exact I].
    cbv zeta. destruct (enc_done e'); [|exact I].
    destruct (fully_written (s5 <| s_enc := Some e' |>) now) as [s7|k|site] eqn:Ef; [|exact I|exact I].
    apply fully_written_ops in Ef. destruct Ef as (F1 & id' & F2).
    eapply (Pq_sub s5); [intros i Hi; rewrite F1 in Hi; exact Hi| |exact HP].
    intros i o Ho. rewrite F2 in Ho. apply lookup_update_some in Ho. destruct Ho as (o0 & L0 & [->| ->]); exists o0; auto.
  Qed.

  Lemma loop_pc : forall f (s : state) now cap fill acc dn,
    Pq s -> forallb no_pub_ev (snd (service_loop_a f s false now cap fill acc dn)) = true.
  Proof.
    induction f as [|f IH]; intros s now cap fill acc dn HP; cbn [AliasRunLog.service_loop_a]; [reflexivity|].
    destruct (negb (pstate_eqb (s_st s) PendingConnack || pstate_eqb (s_st s) Connected)); [reflexivity|].
    destruct (seat_pc s acc dn HP) as [S1 S2].
    destruct (seat_current_a s false acc dn) as [[r|s5 dn'|s5] l]; cbn [fst snd seat_state HandshakeRunTrace.seat_state] in *.
    - exact S1.
    - rewrite forallb_app, S1. apply IH. exact S2.
    - pose proof (encode_next_pq now cap fill s5 acc dn S2) as He.
      destruct (encode_next now cap fill s5 acc dn) as [r|[s7 acc']]; cbn [fst snd]; [exact S1|].
      rewrite !forallb_app, S1, (IH s7 now cap fill acc' dn He). destruct (s_cur s5); reflexivity.
  Qed.

  Theorem service_pc (s : state) now cap fill :
    WF cfg s -> s_st s = PendingConnack -> forallb no_pub_ev (service_log s now cap fill) = true.
  Proof.
    intros [HW HP] Hst. unfold AliasRunLog.service_log, AliasRunLog.service_queue_log. rewrite Hst.
    destruct (s_connack_to s) as [t|]; [|reflexivity]. destruct (t <=? now); [reflexivity|].
    apply loop_pc. unfold WFP in HP. rewrite Hst in HP. destruct HP as (_ & _ & _ & _ & Hq & _).
    intros i o Hi Ho. destruct (Hq i (or_introl Hi)) as (o' & G1 & G2 & _). unfold getop in G1. rewrite Ho in G1. inversion G1; subst o'.
    split; [exact G2|]. destruct (op_pubrel o) as [pr|] eqn:Epr; [|reflexivity].
    destruct (w_pubrel _ _ HW i o) as (pb & Epb & _); [exact Ho|congruence|]. rewrite Epb in G2. discriminate.
  Qed.
End Shape.
