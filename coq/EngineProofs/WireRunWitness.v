(* C02 / wire level: non-vacuity witnesses, by computation on the instantiated engine.
   Connection 1: CONNECT (one call), CONNACK, a QoS 1 publish with a 10-byte payload written by THREE service calls
   into 8-byte buffers (5 + 8 + 5 bytes), a second publish of which 5 of 14 bytes are out when the connection closes.
   Connection 2: a fresh CONNECT, a session-present CONNACK, then the first publish again (DUP = 1, same id) and the
   second publish RE-ENCODED FROM SCRATCH (all 14 bytes, with the packet id it is bound to now): the 9 missing bytes
   of the interrupted encoding are never sent.  On both connections the stream is the concatenation of the complete
   encodings of the completed packets of the alias log plus a prefix of the held one, and the specification decoder
   reads the completed part back as the canonical packets. *)
From GM Require Import Base.Prelude Base.Outcome Codec.Prim Codec.Packets Codec.Settings Codec.Steps Codec.ImplEncode
  Codec.SpecDecodeC2S Codec.ValidC2S Engine.Model Engine.Instance EngineProofs.WFDefs EngineProofs.IdsWitness
  EngineProofs.AliasRunLog EngineProofs.AliasRunInstance EngineProofs.HandshakeRunInv EngineProofs.WireRunConnect
  EngineProofs.WireRunLog EngineProofs.WireRun EngineProofs.WireRunConn EngineProofs.WireRunCodec EngineProofs.WireRunInstance.
Open Scope N_scope.

Definition ww_pub (payload : bytes) : packet :=
  Publish {| pub_pid := 0; pub_topic := [116]; pub_qos := 1; pub_dup := false; pub_retain := false;
             pub_payload := Some payload; pub_pfi := None; pub_mei := None; pub_alias := None; pub_response_topic := None;
             pub_correlation := None; pub_subids := None; pub_content_type := None; pub_up := None |}.
Definition ww_cfg : config := x_cfg 0.
Definition ww_conn1 : list event :=
  [EvService 0 4096 0; EvWriteComplete 0; EvData 0 x_connack_bytes;
   EvUser 1 (ww_pub [1; 2; 3; 4; 5; 6; 7; 8; 9; 10]) (Some 5000);
   EvService 1 8 0; EvWriteComplete 1; EvService 1 8 0; EvWriteComplete 1; EvService 1 8 0; EvWriteComplete 1;
   EvUser 2 (ww_pub [11; 12; 13; 14; 15; 16]) (Some 5000);
   EvService 2 8 0; EvWriteComplete 2; EvClose 3].
Definition ww_conn2 : list event :=
  [EvService 4 4096 0; EvWriteComplete 4; EvData 4 [32; 3; 1; 0; 0]; EvService 5 4096 0].
Definition ww_hist : list event := (EvOpen 0 1000 :: ww_conn1) ++ EvOpen 4 1000 :: ww_conn2.
Definition ww_s1 : istate := fst (i_run ww_cfg (x_init ww_cfg) ([] ++ [EvOpen 0 1000])).
Definition ww_s2 : istate := fst (i_run ww_cfg (x_init ww_cfg) ((EvOpen 0 1000 :: ww_conn1) ++ [EvOpen 4 1000])).

Definition ww_connect1 : bytes := [16; 15; 0; 4; 77; 81; 84; 84; 5; 2; 0; 0; 0; 0; 2; 97; 97].   (* clean start *)
Definition ww_connect2 : bytes := [16; 15; 0; 4; 77; 81; 84; 84; 5; 0; 0; 0; 0; 0; 2; 97; 97].   (* rejoin *)
Definition ww_pub1 : bytes := [50; 16; 0; 1; 116; 0; 1; 0; 1; 2; 3; 4; 5; 6; 7; 8; 9; 10].
Definition ww_pub1_dup : bytes := [58; 16; 0; 1; 116; 0; 1; 0; 1; 2; 3; 4; 5; 6; 7; 8; 9; 10].
Definition ww_pub2_id2 : bytes := [50; 12; 0; 1; 116; 0; 2; 0; 11; 12; 13; 14; 15; 16].
Definition ww_pub2_id3 : bytes := [50; 12; 0; 1; 116; 0; 3; 0; 11; 12; 13; 14; 15; 16].

Lemma ww_hist_ok : Forall ok_event ww_hist /\ Forall not_open ww_conn1 /\ Forall not_open ww_conn2.
Proof. unfold ww_hist, ww_conn1, ww_conn2. cbn [app]. repeat split; repeat constructor; cbn; unfold TMAX; lia. Qed.

(* connection 1: what each step emitted, and the decomposition the theorem speaks about *)
Example ww_connection1 :
  map o_bytes (snd (i_run ww_cfg ww_s1 ww_conn1)) =
    [ww_connect1; []; []; []; [50; 16; 0; 1; 116]; []; [0; 1; 0; 1; 2; 3; 4; 5]; []; [6; 7; 8; 9; 10]; []; []; [50; 12; 0; 1; 116]; []; []] /\
  map (i_full ww_cfg) (fst (packets_of (i_olog ww_cfg ww_s1 ww_conn1))) = [ww_connect1; ww_pub1] /\
  option_map (i_full ww_cfg) (snd (packets_of (i_olog ww_cfg ww_s1 ww_conn1))) = Some ww_pub2_id2 /\
  concat (map o_bytes (snd (i_run ww_cfg ww_s1 ww_conn1))) = (ww_connect1 ++ ww_pub1) ++ [50; 12; 0; 1; 116] /\
  forallb (fun x => valid V5 (snd x) (fst x)) (encodes (i_olog ww_cfg ww_s1 ww_conn1)) = true /\
  spec_decode_all 2 V5 (ww_connect1 ++ ww_pub1) = Some (map (pr_canon V5) (fst (packets_of (i_olog ww_cfg ww_s1 ww_conn1)))).
Proof. vm_compute. repeat split; reflexivity. Qed.

(* connection 2: starts with its own CONNECT; the interrupted publish is encoded again from its first byte *)
Example ww_connection2 :
  map o_bytes (snd (i_run ww_cfg ww_s2 ww_conn2)) = [ww_connect2; []; []; ww_pub1_dup ++ ww_pub2_id3] /\
  map (i_full ww_cfg) (fst (packets_of (i_olog ww_cfg ww_s2 ww_conn2))) = [ww_connect2; ww_pub1_dup; ww_pub2_id3] /\
  snd (packets_of (i_olog ww_cfg ww_s2 ww_conn2)) = None /\
  forallb (fun x => valid V5 (snd x) (fst x)) (encodes (i_olog ww_cfg ww_s2 ww_conn2)) = true /\
  spec_decode_all 3 V5 (concat (map o_bytes (snd (i_run ww_cfg ww_s2 ww_conn2)))) =
    Some (map (pr_canon V5) (fst (packets_of (i_olog ww_cfg ww_s2 ww_conn2)))).
Proof. vm_compute. repeat split; reflexivity. Qed.

(* the run form on the whole history: the bytes since the last EvOpen *)
Example ww_run_form :
  let g := wfold wg0 (i_wlog ww_cfg (x_init ww_cfg) ww_hist) in
  conn_bytes ww_hist (snd (i_run ww_cfg (x_init ww_cfg) ww_hist)) [] = ww_connect2 ++ ww_pub1_dup ++ ww_pub2_id3 /\
  map (i_full ww_cfg) (w_done g) = [ww_connect2; ww_pub1_dup; ww_pub2_id3] /\ w_cur g = None /\ w_part g = [].
Proof. vm_compute. repeat split; reflexivity. Qed.

(* the CONNECT is the first packet of both connections and the only CONNECT (premises of instance_connect_first hold) *)
Example ww_connect_first :
  Forall user_ok ww_hist /\
  map (fun x => is_connect (fst x)) (encodes (i_olog ww_cfg ww_s1 ww_conn1)) = [true; false; false] /\
  map (fun x => is_connect (fst x)) (encodes (i_olog ww_cfg ww_s2 ww_conn2)) = [true; false; false] /\
  hd_error (encodes (i_olog ww_cfg ww_s2 ww_conn2)) =
    Some (create_connect enc Framing.decoder Outbound.ores Inbound.ires ww_cfg (fst (i_run ww_cfg (x_init ww_cfg) (EvOpen 0 1000 :: ww_conn1))), no_resolution).
Proof. split; [unfold ww_hist, ww_conn1, ww_conn2; cbn [app]; repeat constructor|]. vm_compute. repeat split; reflexivity. Qed.
