(* Well-formedness through user_event, net_opened, net_write_completion, reset. *)
From GM Require Import Base.Prelude Base.Outcome Codec.Packets Codec.Settings Engine.Model
  EngineProofs.AssocLemmas EngineProofs.PacketIds EngineProofs.WFLemmas EngineProofs.WFDefs EngineProofs.WFCore
  EngineProofs.WFComplete EngineProofs.WFClose EngineProofs.WFClose2 EngineProofs.WFService EngineProofs.WFService4
  EngineProofs.WFTrack.
From Coq Require Import Sorting.Sorted.
From RecordUpdate Require Import RecordSet.
Import RecordSetNotations.
Open Scope N_scope.

(* the four component types are implicit in the engine functions, locally to this file *)
#[local] Arguments init {enc dec} _ {ores ires} _ _.
#[local] Arguments release {enc dec ores ires} _ _ _ _.
#[local] Arguments disconnect_completion {enc dec ores ires} _ _.
#[local] Arguments fail_op {enc dec ores ires} _ _ _ _.
#[local] Arguments ping_extension {enc dec ores ires} _ _.
#[local] Arguments succeed_op {enc dec ores ires} _ _ _ _.
#[local] Arguments fail_all {enc dec ores ires} _ _ _ _.
#[local] Arguments succeed_all {enc dec ores ires} _ _ _.
#[local] Arguments andthen {enc dec ores ires} _ _.
#[local] Arguments try_ {enc dec ores ires} _ _.
#[local] Arguments pure {enc dec ores ires} _.
#[local] Arguments create_operation {enc dec ores ires} _ _.
#[local] Arguments passes_now {enc dec ores ires} _ _ _.
#[local] Arguments user_event {enc dec ores ires} _ _ _ _.
#[local] Arguments create_connect {enc dec ores ires} _ _.
#[local] Arguments net_opened {enc dec} _ {ores ires} _ _ _.
#[local] Arguments op_exists {enc dec ores ires} _ _.
#[local] Arguments op_passes {enc dec ores ires} _ _ _.
#[local] Arguments partition_policy {enc dec ores ires} _ _ _.
#[local] Arguments closed_current {enc dec ores ires} _ _.
#[local] Arguments slow_start_init {enc dec ores ires} _ _.
#[local] Arguments update_retries {enc dec ores ires} _ _.
#[local] Arguments fail_exceeding {enc dec ores ires} _ _.
#[local] Arguments has_pubrel {enc dec ores ires} _ _.
#[local] Arguments net_closed_raw {enc dec ores ires} _ _.
#[local] Arguments net_closed {enc dec ores ires} _ _.
#[local] Arguments net_write_completion {enc dec ores ires} _ _.
#[local] Arguments acquire_free_pid {enc dec ores ires} _ _.
#[local] Arguments acquire_pid_for {enc dec ores ires} _ _.
#[local] Arguments unbind {enc dec ores ires} _ _.
#[local] Arguments passes_receive_max {enc dec ores ires} _ _.
#[local] Arguments throttled {enc dec ores ires} _ _.
#[local] Arguments has_pending_ack {enc dec ores ires} _.
#[local] Arguments dequeue {enc dec ores ires} _ _ _.
#[local] Arguments fully_written {enc dec ores ires} _ _.
#[local] Arguments service_keep_alive {enc dec ores ires} _ _ _.
#[local] Arguments process_ack_timeouts {enc dec ores ires} _ _ _.
#[local] Arguments halt_on_error {enc dec ores ires} _ _.
#[local] Arguments next_service_time {enc dec ores ires} _ _ _.
#[local] Arguments build_settings {enc dec ores ires} _ _ _.
#[local] Arguments apply_session {enc dec ores ires} _ _ _.
#[local] Arguments hres_of {enc dec ores ires} _ _.
#[local] Arguments pre_connack {enc dec ores ires} _.
#[local] Arguments sum_ss {enc dec ores ires} _.
#[local] Arguments handle_pingresp {enc dec ores ires} _.
#[local] Arguments handle_suback {enc dec ores ires} _ _ _.
#[local] Arguments handle_unsuback {enc dec ores ires} _ _ _.
#[local] Arguments publish_qos_of {enc dec ores ires} _ _.
#[local] Arguments handle_puback {enc dec ores ires} _ _ _.
#[local] Arguments handle_pubrec {enc dec ores ires} _ _ _.
#[local] Arguments handle_pubrel {enc dec ores ires} _ _.
#[local] Arguments handle_pubcomp {enc dec ores ires} _ _ _.
#[local] Arguments handle_publish {enc dec ores ires} _ _.
#[local] Arguments handle_disconnect {enc dec ores ires} _ _ _.
#[local] Arguments is_connect_op {enc dec ores ires} _ _.
#[local] Arguments connect_in_queue {enc dec ores ires} _.
#[local] Arguments reset {enc dec ores ires} _ _.
#[local] Arguments out_of_res {enc dec ores ires} _ _.
#[local] Arguments nst_queue {enc dec ores ires} _ _ _ _.
#[local] Arguments earliest_tmo {enc dec ores ires} _.
#[local] Arguments SeatStop {enc dec ores ires} _.
#[local] Arguments SeatContinue {enc dec ores ires} _ _.
#[local] Arguments SeatEncode {enc dec ores ires} _.


Lemma nodup_app_inv {A} (l m : list A) : NoDup (l ++ m) -> NoDup l /\ NoDup m /\ forall x, In x l -> ~ In x m.
Proof.
  induction l as [|a l IH]; cbn; intros H.
  - split; [constructor|]. split; [exact H|]. intros x [].
  - inversion H as [|? ? Hn Hd]; subst. destruct (IH Hd) as (I1 & I2 & I3). split; [|split; [exact I2|]].
    + constructor; [|exact I1]. intros Hin. apply Hn. apply in_or_app. tauto.
    + intros x [<-|Hx]; [|auto]. intros Hin. apply Hn. apply in_or_app. tauto.
Qed.

Lemma nodup_app_intro {A} (l m : list A) : NoDup l -> NoDup m -> (forall x, In x l -> ~ In x m) -> NoDup (l ++ m).
Proof.
  induction l as [|a l IH]; cbn; intros Hl Hm Hd; [exact Hm|].
  inversion Hl as [|? ? Hn Hl']; subst. constructor.
  - intros Hin. apply in_app_or in Hin. destruct Hin as [Hin|Hin]; [contradiction|]. exact (Hd a (or_introl eq_refl) Hin).
  - apply IH; auto.
Qed.

Lemma nodup_mid {A} (a b c : list A) :
  NoDup (a ++ b ++ c) -> NoDup (a ++ c) /\ forall x, In x b -> ~ In x a /\ ~ In x c.
Proof.
  intros H. destruct (nodup_app_inv _ _ H) as (H1 & H2 & H3). destruct (nodup_app_inv _ _ H2) as (H4 & H5 & H6). split.
  - apply nodup_app_intro; auto. intros x Hx Hc. apply (H3 x Hx). apply in_or_app. tauto.
  - intros x Hx. split; [|auto]. intros Ha. apply (H3 x Ha). apply in_or_app. tauto.
Qed.

Section Events.
  Context {enc dec ores ires : Type}.
  Notation state := (state enc dec ores ires).
  Notation res := (res enc dec ores ires).
  Variable cfg : config.

  Ltac splits := repeat match goal with |- _ /\ _ => split end.
  Ltac tuple_eqs H := repeat (apply pair_equal_spec in H; destruct H as [H ?]).
  Ltac core_cbn := unfold tracked, inq; cbn [core_of c_ops c_uq c_rq c_hq c_cur c_alloc c_ppub c_pnon c_pwco c_nid c_npid].

  Lemma W9_of_WFP (s : state) : WFP cfg s -> W9 cfg s.
  Proof. intros HP E. unfold WFP in HP. rewrite E in HP. tauto. Qed.

  (* per-state facts after completing operations that no queue position refers to *)
  Lemma WFP_frame_unref ids (s0 s' : state) :
    WFP cfg s0 -> frame_c ids s0 s' -> W9 cfg s' ->
    (forall i, In i ids -> ~ In i (s_hq s0) /\ ~ In i (s_pwco s0) /\ s_cur s0 <> Some i) ->
    WFP cfg s'.
  Proof.
    intros HP F H9 Hun.
    destruct (rest_fields _ _ (fc_rest _ _ _ F)) as (R1 & R2 & R3 & R4 & R5 & R6 & R7 & R8 & R9 & R10 & R11 & R12 & R13).
    assert (Hkeep : forall i, In i (s_hq s0) \/ In i (s_pwco s0) \/ s_cur s0 = Some i -> getop s' i = getop s0 i).
    { intros i Hi. apply (fc_keep _ _ _ F). intros Hin. destruct (Hun i Hin) as (U1 & U2 & U3). tauto. }
    unfold WFP in *. destruct (fc_st _ _ _ F) as [E|[E1 E2]]; [|rewrite E2; exact I].
    rewrite E. destruct (s_st s0) eqn:Est; try exact I.
    - destruct HP as (A1 & A2 & A3 & A4 & A5 & A6). splits; try congruence.
      + eapply subset_nil; [apply (fc_ppub _ _ _ F)|exact A1].
      + eapply subset_nil; [apply (fc_pnon _ _ _ F)|exact A2].
    - destruct HP as (A1 & A2 & A3 & A4 & A5 & A6 & A7 & A8). splits; try congruence.
      + eapply subset_nil; [apply (fc_ppub _ _ _ F)|exact A1].
      + eapply subset_nil; [apply (fc_pnon _ _ _ F)|exact A2].
      + intros i Hi. rewrite R3, R5 in Hi. unfold is_conn_op. rewrite Hkeep by tauto. apply A5. exact Hi.
      + intros i o Hc Hi. rewrite R4 in Hc. rewrite Hkeep in Hi by tauto. eauto.
      + intros i o Hc Hi. rewrite R4 in Hc. rewrite Hkeep in Hi by tauto. destruct (A7 i o Hc Hi). split; [rewrite R11; assumption|assumption].
    - destruct HP as (A1 & A2 & A3). splits; try congruence.
      + intros i o Hc Hi. rewrite R4 in Hc. destruct (A2 i o Hc (fc_sub _ _ _ F _ _ Hi)). split; [rewrite R11; assumption|assumption].
      + apply H9. congruence.
    - congruence.
  Qed.

  (* ---- user_event ---- *)
  Lemma user_event_spec (s : state) p t :
    WF cfg s ->
    let r := user_event cfg s p t in
    r_out r = Ok tt /\ WF cfg (r_s r) /\ comp_of (r_s r) = comp_of s.
  Proof.
    intros [HW HP]. unfold user_event.
    set (o := new_op p (negb (is_disconnect p)) (if is_disconnect p then None else t)).
    destruct (create_op_spec [] s o HW eq_refl eq_refl) as (C1 & C2 & C3 & C4 & C5 & C6 & C7 & C8 & C9 & C10).
    cbn [create_operation fst snd] in *.
    set (s1 := s <| s_next_id := s_next_id s + 1 |> <| s_ops := s_ops s ++ [(s_next_id s, o)] |>) in *.
    assert (HP1 : WFP cfg s1).
    { eapply (WFP_newop cfg s s1 o); try eassumption; try reflexivity; auto. }
    destruct (passes_now cfg s1 p) eqn:Epass; cbn [negb].
    - destruct (is_disconnect p) eqn:Ed.
      + (* a DISCONNECT submitted while connected: front of the high-priority queue *)
        assert (Hst : s_st s = Connected).
        { unfold passes_now in Epass. cbn in Epass. destruct (s_st s); cbn in Epass; try reflexivity;
            destruct p; cbn in Ed, Epass; discriminate. }
        cbn. split; [reflexivity|]. split; [|reflexivity]. split.
        * eapply WFS_queues; [exact C2| | | | | | | | | | |]; cbn; auto; try tauto.
          -- core_cbn. cbn. intros i. cbn. intros [H|[H|[[H|H]|[H|H]]]]; try tauto; try (right; right; lia).
          -- intros i [<-|H]; [|tauto]. right. intros o1 Ho1. unfold getop in Ho1, C6. cbn in Ho1, C6.
             assert (o1 = o) by congruence. subst o1. unfold o. cbn. destruct p; cbn in Ed; try discriminate; try reflexivity.
        * eapply (WFP_newop cfg s _ o); try eassumption; try reflexivity; auto. right. rewrite Hst. split; discriminate.
      + cbn. split; [reflexivity|]. split; [|reflexivity]. split.
        * eapply WFS_queues; [exact C2| | | | | | | | | | |]; cbn; auto; try tauto.
          -- core_cbn. cbn. intros q i o1 Hi Hp T. destruct T as [T|[T|T]]; try tauto. right; left. apply in_or_app. tauto.
          -- core_cbn. cbn. intros i [H|H]; [|tauto]. apply in_app_or in H. destruct H as [H|[<-|[]]]; [tauto|]. right; right. lia.
        * eapply (WFP_newop cfg s _ o); try eassumption; try reflexivity; auto.
    - (* rejected by the offline-queue policy: failed at once, the submission itself succeeds *)
      pose proof (fail_op_spec cfg [] s1 (s_next_id s) EOfflineQueuePolicyFailed C2 (W9_of_WFP s1 HP1)) as F.
      set (r := fail_op cfg s1 (s_next_id s) EOfflineQueuePolicyFailed) in *.
      cbn [r_s r_out r_done]. rewrite (nopanic_is_panic _ (fs_nopanic _ _ _ _ _ F)).
      split; [reflexivity|]. split; [|rewrite (rest_comp _ _ (fc_rest _ _ _ (fs_frame _ _ _ _ _ F))); reflexivity]. split; [apply F|].
      eapply WFP_frame_unref; [exact HP1|apply F|apply F|].
      intros i [<-|[]].
      assert (Hq : forall j, inq (core_of s) j -> j <> s_next_id s).
      { intros j Hj. pose proof (w_qlt _ _ HW j Hj) as Hlt. cbn in Hlt. lia. }
      unfold inq in Hq. cbn in Hq. splits.
      + intros Hin. apply (Hq (s_next_id s)); [tauto|reflexivity].
      + intros Hin. apply (Hq (s_next_id s)); [tauto|reflexivity].
      + intros Hin. apply (Hq (s_next_id s)); [tauto|reflexivity].
  Qed.

  Lemma fresh_id (s : state) : WFS s -> lookup (s_next_id s) (s_ops s) = None.
  Proof. intros HW. apply lookup_none_not_in. intros Hin. pose proof (w_lt _ _ HW _ Hin) as Hlt. cbn in Hlt. lia. Qed.

  Lemma user_event_tr (s : state) p t :
    WF cfg s -> sub_ok p -> TR s -> TR (r_s (user_event cfg s p t)).
  Proof.
    intros [HW HP] Hsub HT. unfold user_event.
    set (o := new_op p (negb (is_disconnect p)) (if is_disconnect p then None else t)).
    destruct (create_op_spec [] s o HW eq_refl eq_refl) as (C1 & C2 & C3 & C4 & C5 & C6 & C7 & C8 & C9 & C10).
    cbn [create_operation fst snd] in *.
    set (s1 := s <| s_next_id := s_next_id s + 1 |> <| s_ops := s_ops s ++ [(s_next_id s, o)] |>) in *.
    assert (HP1 : WFP cfg s1).
    { eapply (WFP_newop cfg s s1 o); try eassumption; try reflexivity; auto. }
    assert (Huo : unb_ok o) by (apply unb_ok_new; exact Hsub).
    destruct (passes_now cfg s1 p) eqn:Epass; cbn [negb].
    - destruct (is_disconnect p); cbn.
      + apply (TR_newop s _ o HT (fresh_id s HW)); [reflexivity| |]; unfold inQ; cbn; [tauto|]. intros _. split; [tauto|exact Huo].
      + apply (TR_newop s _ o HT (fresh_id s HW)); [reflexivity| |]; unfold inQ; cbn.
        * intros i [Q|Q]; [left; apply in_or_app; tauto|tauto].
        * intros _. split; [left; apply in_or_app; right; left; reflexivity|exact Huo].
    - pose proof (fail_op_spec cfg [] s1 (s_next_id s) EOfflineQueuePolicyFailed C2 (W9_of_WFP s1 HP1)) as F.
      cbn [r_s]. apply (TR_gen s _ HT). intros i o1 Hi Hp. right.
      pose proof (fc_sub _ _ _ (fs_frame _ _ _ _ _ F) _ _ Hi) as Hi1.
      destruct (C8 i o1 Hi1) as [Hold|[-> _]].
      + exists o1. splits; auto. destruct (rest_fields _ _ (fc_rest _ _ _ (fs_frame _ _ _ _ _ F))) as (R1 & R2 & R3 & R4 & R5 & _).
        unfold inQ. rewrite R1, R2, R3, R4, R5. cbn. tauto.
      + rewrite (fs_gone _ _ _ _ _ F (s_next_id s)) in Hi; [discriminate|left; reflexivity].
  Qed.

  (* ---- net_opened ---- *)
  Lemma is_connect_create (s : state) : is_connect (create_connect cfg s) = true.
  Proof.
    unfold create_connect. destruct (con_client_id _); [reflexivity|]. destruct (s_settings s); reflexivity.
  Qed.

  Lemma net_opened_spec (dec_init : dec) (s : state) deadline :
    WF cfg s ->
    let r := net_opened dec_init cfg s deadline in
    (forall site, r_out r <> Panic site) /\ WFS (r_s r) /\ (r_out r = Ok tt -> WFP cfg (r_s r)) /\
    (s_st s = Disconnected -> r_out r = Ok tt /\ s_st (r_s r) = PendingConnack) /\
    (s_st s <> Disconnected -> r_out r = Err EInternalStateError) /\
    s_enc (r_s r) = s_enc s /\ s_ores (r_s r) = s_ores s /\ s_ires (r_s r) = s_ires s /\
    (s_dec (r_s r) = s_dec s \/ s_dec (r_s r) = dec_init).
  Proof.
    intros [HW HP]. unfold net_opened. destruct (pstate_eqb (s_st s) Disconnected) eqn:Est; cbn [negb].
    2:{ apply pstate_eqb_neq in Est. cbn. splits; auto; try (intros; discriminate). intros; congruence. }
    apply pstate_eqb_eq in Est. unfold WFP in HP. rewrite Est in HP. destruct HP as (A1 & A2 & A3 & A4 & A5 & A6).
    set (s1 := s <| s_st := PendingConnack |> <| s_cur := None |> <| s_pwc := false |> <| s_dec := dec_init |>).
    assert (HW1 : WFS s1).
    { eapply WFS_queues; [exact HW| | | | | | | | | | |]; cbn; auto; try tauto.
      - core_cbn. cbn. rewrite A6. tauto.
      - core_cbn. cbn. rewrite A6. tauto. }
    set (o := new_op (create_connect cfg s1) false None).
    destruct (create_op_spec [] s1 o HW1 eq_refl eq_refl) as (C1 & C2 & C3 & C4 & C5 & C6 & C7 & C8 & C9 & C10).
    cbn [create_operation fst snd] in *. cbv zeta. cbn [pure r_s r_out r_done].
    split; [intros; discriminate|]. split; [|split; [|split; [intros _; split; reflexivity|split; [intros; congruence|cbn; splits; auto]]]].
    - eapply WFS_queues; [exact C2| | | | | | | | | | |]; cbn; auto; try tauto.
      + core_cbn. cbn. intros i. cbn. intros [H|[H|[[H|H]|[H|H]]]]; try tauto; try (right; right; lia).
      + intros i [<-|H]; [|tauto]. right. intros o1 Ho1. unfold getop in Ho1, C6. cbn in Ho1, C6.
        assert (o1 = o) by congruence. subst o1. unfold o. cbn. pose proof (is_connect_create s1) as Hc.
        destruct (create_connect cfg s1); try discriminate; try reflexivity.
    - intros _. unfold WFP. cbn. rewrite A1, A2, A3, A4, A5. splits; auto; try discriminate; try (intros i o1 Hx; discriminate).
      + intros i [[<-|[]]|[]]. exists o. unfold getop in *. cbn in *. splits; auto. apply is_connect_create.
      + cbn. constructor; [intros []|constructor].
  Qed.

  Lemma net_opened_tr (dec_init : dec) (s : state) deadline :
    WF cfg s -> TR s -> TR (r_s (net_opened dec_init cfg s deadline)).
  Proof.
    intros [HW HP] HT. unfold net_opened. destruct (pstate_eqb (s_st s) Disconnected) eqn:Est; cbn [negb].
    2:{ cbn. apply (TR_queues s); [reflexivity|unfold inQ; cbn; tauto|exact HT]. }
    apply pstate_eqb_eq in Est. unfold WFP in HP. rewrite Est in HP. destruct HP as (A1 & A2 & A3 & A4 & A5 & A6).
    cbn. eapply (TR_newop s _ _ HT (fresh_id s HW)); [reflexivity| |]; unfold inQ; cbn.
    - rewrite A6. intros i [Q|[Q|[Q|[Q|Q]]]]; try tauto; try discriminate.
    - intros _. split; [tauto|]. unfold unb_ok. cbn. split; [reflexivity|].
      intros pb Hx. assert (Hc : is_connect (Publish pb) = true) by (rewrite <- Hx; apply is_connect_create). discriminate.
  Qed.

  (* ---- net_write_completion ---- *)
  Lemma net_write_completion_spec (s : state) :
    WF cfg s ->
    let r := net_write_completion cfg s in
    (forall site, r_out r <> Panic site) /\ WFS (r_s r) /\ (r_out r = Ok tt -> WFP cfg (r_s r)) /\ comp_of (r_s r) = comp_of s /\
    (TR s -> TR (r_s r)).
  Proof.
    intros [HW HP]. unfold net_write_completion.
    destruct (pstate_eqb (s_st s) Halted || pstate_eqb (s_st s) Disconnected) eqn:Est.
    { cbn. splits; auto; intros; discriminate. }
    destruct (s_pwc s); cbn [negb].
    2:{ cbn. splits; auto; intros; discriminate. }
    set (s1 := s <| s_pwc := false |> <| s_pwco := [] |>).
    assert (HW1 : WFS s1).
    { eapply WFS_queues; [exact HW| | | | | | | | | | |]; cbn; auto; try tauto.
      core_cbn. cbn. tauto. }
    assert (H91 : W9 cfg s1) by exact (W9_of_WFP s HP).
    assert (Hk : forall i o, In i (s_pwco s) -> getop s1 i = Some o -> nonk (op_packet o) = false).
    { intros i o Hi Ho. pose proof (w_pwco _ _ HW i o Hi Ho) as Hn. rewrite needs_pid_split in Hn.
      destruct (pubq (op_packet o)), (nonk (op_packet o)); cbn in Hn; congruence. }
    pose proof (succeed_all_spec cfg [] (s_pwco s) s1 HW1 H91 Hk) as F.
    assert (HTR : TR s -> TR (r_s (succeed_all cfg s1 (s_pwco s)))).
    { intros T. apply (TR_gen s _ T). intros i o1 Hi Hp. right. exists o1.
      pose proof (fc_sub _ _ _ (ss_frame _ _ _ _ _ F) _ _ Hi) as Hi1. split; [exact Hi1|]. splits; auto.
      destruct (rest_fields _ _ (fc_rest _ _ _ (ss_frame _ _ _ _ _ F))) as (R1 & R2 & R3 & R4 & R5 & _).
      unfold inQ. rewrite R1, R2, R3, R4, R5. cbn. intros [Q|[Q|[Q|[Q|Q]]]]; try tauto. exfalso.
      rewrite (ss_gone _ _ _ _ _ F i Q) in Hi. discriminate. }
    split; [apply F|]. split; [apply F|]. split; [|split; [rewrite (rest_comp _ _ (fc_rest _ _ _ (ss_frame _ _ _ _ _ F))); reflexivity|exact HTR]]. intros _.
    unfold WFP in HP. destruct (s_st s) eqn:E; try discriminate.
    - (* PendingConnack: the written CONNECT is completed *)
      destruct HP as (A1 & A2 & A3 & A4 & A5 & A6 & A7 & A8).
      destruct (nodup_mid _ _ _ A8) as (N1 & N2).
      assert (HP1 : WFP cfg s1).
      { unfold WFP. change (s_st s1) with (s_st s). rewrite E. cbn. splits; auto. intros i [Hi|[]]. apply A5. tauto. }
      eapply WFP_frame_unref; [exact HP1|apply F|apply F|].
      intros i Hi. cbn. destruct (N2 i Hi) as (N3 & N4). splits; auto.
      intros Hc. apply N4. rewrite Hc. left. reflexivity.
    - eapply (WFP_after_fail cfg _ s1); [|left; exact E|apply F|apply F].
      unfold WFP. change (s_st s1) with (s_st s). rewrite E. exact HP.
    - eapply (WFP_after_fail cfg _ s1); [|right; left; exact E|apply F|apply F].
      unfold WFP. change (s_st s1) with (s_st s). rewrite E. exact HP.
  Qed.

  (* ---- reset ---- *)
  Notation reset_step :=
    (fun (acc : res) (id : N) =>
       if is_panic (r_out acc) then acc else
       let r1 := fail_op cfg (r_s acc) id EClientClosed in
       mkRes (r_s r1) (r_done acc ++ r_done r1) (if is_panic (r_out r1) then r_out r1 else Ok tt)).

  Definition reset_inv (st0 : pstate) (acc : res) : Prop :=
    r_out acc = Ok tt /\ WFS (r_s acc) /\ s_st (r_s acc) = st0.

  Definition reset_cinv (c0 : option enc * dec * ores * ires) (acc : res) : Prop := comp_of (r_s acc) = c0.

  Lemma reset_fold_comp c0 ids : forall acc, reset_cinv c0 acc -> reset_cinv c0 (fold_left reset_step ids acc).
  Proof.
    induction ids as [|id rest IH]; intros acc Hinv; cbn [fold_left]; [exact Hinv|]. apply IH.
    destruct (is_panic (r_out acc)); [exact Hinv|]. unfold reset_cinv in *. cbn [r_s].
    set (r1 := fail_op cfg (r_s acc) id EClientClosed).
    assert (Hc : comp_of (r_s r1) = comp_of (r_s acc)).
    { unfold r1, fail_op. destruct (lookup id (s_ops (r_s acc))) as [o|]; [|reflexivity].
      unfold release. destruct (op_pid o); cbn;
        repeat match goal with |- context [if ?b then _ else _] => destruct b; cbn end;
        unfold disconnect_completion; repeat match goal with |- context [if ?b then _ else _] => destruct b; cbn end; reflexivity. }
    congruence.
  Qed.

  Lemma reset_fold st0 ids : forall acc,
    st0 = Disconnected \/ st0 = Halted -> reset_inv st0 acc -> reset_inv st0 (fold_left reset_step ids acc).
  Proof.
    induction ids as [|id rest IH]; intros acc Hst0 Hinv; cbn [fold_left]; [exact Hinv|].
    apply IH; [exact Hst0|]. destruct Hinv as (I1 & I2 & I3). rewrite I1. cbn [is_panic].
    assert (H9 : W9 cfg (r_s acc)) by (intros E; destruct Hst0; congruence).
    pose proof (fail_op_spec cfg [] (r_s acc) id EClientClosed I2 H9) as F.
    cbv zeta. unfold reset_inv. cbn [r_s r_out]. rewrite (nopanic_is_panic _ (fs_nopanic _ _ _ _ _ F)).
    split; [reflexivity|]. split; [apply F|].
    destruct (fc_st _ _ _ (fs_frame _ _ _ _ _ F)) as [E|[E _]]; [congruence|]. destruct Hst0; congruence.
  Qed.

  Lemma reset_spec (s : state) :
    WFS s ->
    r_out (reset cfg s) = Ok tt /\ WF cfg (r_s (reset cfg s)) /\
    s_st (r_s (reset cfg s)) = (if pstate_eqb (s_st s) Disconnected then Disconnected else Halted) /\
    s_ops (r_s (reset cfg s)) = [] /\ comp_of (r_s (reset cfg s)) = comp_of s.
  Proof.
    intros HW. unfold reset.
    set (s0 := if pstate_eqb (s_st s) Disconnected then s else s <| s_st := Halted |>).
    set (st0 := if pstate_eqb (s_st s) Disconnected then Disconnected else Halted).
    assert (Hst0 : st0 = Disconnected \/ st0 = Halted) by (unfold st0; destruct (pstate_eqb (s_st s) Disconnected); tauto).
    assert (Hinv0 : reset_inv st0 (pure s0)).
    { unfold reset_inv, pure. cbn [r_s r_out]. split; [reflexivity|]. unfold s0, st0.
      destruct (pstate_eqb (s_st s) Disconnected) eqn:E; [|split; [exact HW|reflexivity]].
      split; [exact HW|]. apply pstate_eqb_eq. exact E. }
    pose proof (reset_fold st0 (map fst (s_ops s0)) (pure s0) Hst0 Hinv0) as (I1 & I2 & I3).
    assert (Hc0 : reset_cinv (comp_of s) (pure s0)) by (unfold reset_cinv, s0; destruct (pstate_eqb (s_st s) Disconnected); reflexivity).
    pose proof (reset_fold_comp (comp_of s) (map fst (s_ops s0)) (pure s0) Hc0) as I4. unfold reset_cinv in I4.
    cbv zeta.
    set (r := fold_left reset_step (map fst (s_ops s0)) (pure s0)) in *. clearbody r.
    rewrite I1. cbn [is_panic r_s r_out].
    split; [reflexivity|]. split; [|split; [exact I3|split; [reflexivity|exact I4]]].
    split.
    - eapply (WFc_reset [] _ (s_next_id (r_s r))). reflexivity.
    - unfold WFP. cbn [s_st set]. 
      match goal with |- match ?x with _ => _ end => change x with (s_st (r_s r)) end.
      rewrite I3. destruct Hst0 as [-> | ->]; [|exact I]. splits; reflexivity.
  Qed.
End Events.
