(* C02 / wire level: the stream of ONE connection, stated with the alias log of AliasRunLog.v and the outputs only.
   [packets_of L] reads off an alias log the packets whose encoder was constructed and ran to completion (OEncode ..
   true followed by ODone) and the packet the encoder holds at the end.  For a history h1 ++ EvOpen :: h2 without
   EvOpen in h2, the bytes of the outputs of h2 are the complete encodings of the completed packets of the log of h2,
   in order, followed by a prefix of the encoding of the held one: nothing else is ever emitted, two packets are never
   interleaved, and a new connection never continues a packet of the previous one. *)
From GM Require Import Base.Prelude Base.Outcome Codec.Packets Codec.Settings Engine.Model
  EngineProofs.AssocLemmas EngineProofs.HandshakeRunTrace EngineProofs.WFDefs EngineProofs.WFStep EngineProofs.HandshakeRunSt EngineProofs.HandshakeRunInv
  EngineProofs.AliasRunFrames EngineProofs.AliasRunLog EngineProofs.WireRunFrames EngineProofs.WireRunLog EngineProofs.WireRun.
From RecordUpdate Require Import RecordSet.
Import RecordSetNotations.
Open Scope N_scope.

(* the four component types are implicit in the engine functions, locally to this file *)
#[local] Arguments init {enc dec} _ {ores ires} _ _.
#[local] Arguments release {enc dec ores ires} _ _ _ _.
#[local] Arguments disconnect_completion {enc dec ores ires} _ _.
#[local] Arguments fail_op {enc dec ores ires} _ _ _ _.
#[local] Arguments ping_extension {enc dec ores ires} _ _.
#[local] Arguments succeed_op {enc dec ores ires} _ _ _ _.
#[local] Arguments fail_all {enc dec ores ires} _ _ _ _.
#[local] Arguments succeed_all {enc dec ores ires} _ _ _.
#[local] Arguments andthen {enc dec ores ires} _ _.
#[local] Arguments try_ {enc dec ores ires} _ _.
#[local] Arguments pure {enc dec ores ires} _.
#[local] Arguments create_operation {enc dec ores ires} _ _.
#[local] Arguments passes_now {enc dec ores ires} _ _ _.
#[local] Arguments user_event {enc dec ores ires} _ _ _ _.
#[local] Arguments create_connect {enc dec ores ires} _ _.
#[local] Arguments net_opened {enc dec} _ {ores ires} _ _ _.
#[local] Arguments op_exists {enc dec ores ires} _ _.
#[local] Arguments op_passes {enc dec ores ires} _ _ _.
#[local] Arguments partition_policy {enc dec ores ires} _ _ _.
#[local] Arguments closed_current {enc dec ores ires} _ _.
#[local] Arguments slow_start_init {enc dec ores ires} _ _.
#[local] Arguments update_retries {enc dec ores ires} _ _.
#[local] Arguments fail_exceeding {enc dec ores ires} _ _.
#[local] Arguments has_pubrel {enc dec ores ires} _ _.
#[local] Arguments net_closed_raw {enc dec ores ires} _ _.
#[local] Arguments net_closed {enc dec ores ires} _ _.
#[local] Arguments net_write_completion {enc dec ores ires} _ _.
#[local] Arguments acquire_free_pid {enc dec ores ires} _ _.
#[local] Arguments acquire_pid_for {enc dec ores ires} _ _.
#[local] Arguments unbind {enc dec ores ires} _ _.
#[local] Arguments passes_receive_max {enc dec ores ires} _ _.
#[local] Arguments throttled {enc dec ores ires} _ _.
#[local] Arguments has_pending_ack {enc dec ores ires} _.
#[local] Arguments dequeue {enc dec ores ires} _ _ _.
#[local] Arguments fully_written {enc dec ores ires} _ _.
#[local] Arguments service_keep_alive {enc dec ores ires} _ _ _.
#[local] Arguments process_ack_timeouts {enc dec ores ires} _ _ _.
#[local] Arguments halt_on_error {enc dec ores ires} _ _.
#[local] Arguments next_service_time {enc dec ores ires} _ _ _.
#[local] Arguments build_settings {enc dec ores ires} _ _ _.
#[local] Arguments apply_session {enc dec ores ires} _ _ _.
#[local] Arguments hres_of {enc dec ores ires} _ _.
#[local] Arguments pre_connack {enc dec ores ires} _.
#[local] Arguments sum_ss {enc dec ores ires} _.
#[local] Arguments handle_pingresp {enc dec ores ires} _.
#[local] Arguments handle_suback {enc dec ores ires} _ _ _.
#[local] Arguments handle_unsuback {enc dec ores ires} _ _ _.
#[local] Arguments publish_qos_of {enc dec ores ires} _ _.
#[local] Arguments handle_puback {enc dec ores ires} _ _ _.
#[local] Arguments handle_pubrec {enc dec ores ires} _ _ _.
#[local] Arguments handle_pubrel {enc dec ores ires} _ _.
#[local] Arguments handle_pubcomp {enc dec ores ires} _ _ _.
#[local] Arguments handle_publish {enc dec ores ires} _ _.
#[local] Arguments handle_disconnect {enc dec ores ires} _ _ _.
#[local] Arguments is_connect_op {enc dec ores ires} _ _.
#[local] Arguments connect_in_queue {enc dec ores ires} _.
#[local] Arguments reset {enc dec ores ires} _ _.
#[local] Arguments out_of_res {enc dec ores ires} _ _.
#[local] Arguments nst_queue {enc dec ores ires} _ _ _ _.
#[local] Arguments earliest_tmo {enc dec ores ires} _.
#[local] Arguments SeatStop {enc dec ores ires} _.
#[local] Arguments SeatContinue {enc dec ores ires} _ _.
#[local] Arguments SeatEncode {enc dec ores ires} _.


(* completed packets and the held packet of an alias log *)
Definition pkt_step (dc : list pr * option pr) (e : oev) : list pr * option pr :=
  match e with
  | OEncode _ p r true => (fst dc, Some (p, r))
  | ODone _ => (fst dc ++ olist (snd dc), None)
  | _ => dc
  end.
Definition packets_from (dc : list pr * option pr) (l : list oev) : list pr * option pr := fold_left pkt_step l dc.
Definition packets_of (l : list oev) : list pr * option pr := packets_from ([], None) l.

Lemma wfold_packets l : no_wopen l = true -> forall g,
  (w_done (wfold g l), w_cur (wfold g l)) = packets_from (w_done g, w_cur g) (olog_of l).
Proof.
  induction l as [|e l IH]; intros H g; [reflexivity|]. cbn in H. apply andb_true_iff in H as [H1 H2].
  cbn [wfold fold_left]. fold (wfold (wstep g e) l). rewrite (IH H2).
  destruct e as [x|b|]; [| |discriminate]; [|reflexivity].
  cbn [olog_of flat_map app]. fold (olog_of l). unfold packets_from. cbn [fold_left]. f_equal.
  destruct x as [id|id|id|id a t res|id p r v|m|id k|id p r ok|id|m| | | ]; try reflexivity. destruct ok; reflexivity.
Qed.

Definition not_open (e : event) : Prop := match e with EvOpen _ _ => False | _ => True end.

Section Conn.
  Variable enc : Type.
  Variable enc_reset : version -> packet -> resolution -> outcome enc.
  Variable enc_call : enc -> N -> N -> outcome (bytes * enc).
  Variable enc_done : enc -> bool.
  Variable dec : Type.
  Variable dec_init : dec.
  Variable dec_feed : version -> N -> dec -> bytes -> dec * list packet * outcome unit.
  Variable ores : Type.
  Variable ores_reset : ores -> N -> ores.
  Variable ores_resolve : ores -> option N -> bytes -> outcome (ores * resolution).
  Variable ires : Type.
  Variable ires_reset : ires -> ires.
  Variable ires_resolve : ires -> option N -> bytes -> outcome (ires * bytes).
  Variable v_out : option settings -> connect_opts -> resolution -> packet -> outcome unit.
  Variable v_in : option settings -> packet -> outcome unit.
  Variable cfg : config.
  Variable HC : comps_ok enc enc_reset enc_call dec dec_init dec_feed ores ores_reset ores_resolve ires ires_reset ires_resolve v_out v_in.
  Hypothesis Hcfg : ok_cfg cfg.
  Variable enc_rem : enc -> bytes.
  Variable enc_full : version -> packet -> resolution -> bytes.
  Hypothesis enc_reset_full : forall v p r e, enc_reset v p r = Ok e -> enc_rem e = enc_full v p r.
  Hypothesis enc_call_rem : forall e fill cap out e', enc_call e fill cap = Ok (out, e') -> enc_rem e = out ++ enc_rem e'.
  Hypothesis enc_done_rem : forall e, enc_done e = true -> enc_rem e = [].
  Variable enc_good : enc -> Prop.
  Variable pkt_good : version -> packet -> resolution -> Prop.
  Hypothesis enc_reset_good : forall v p r e, enc_reset v p r = Ok e -> enc_good e -> pkt_good v p r.
  Hypothesis enc_call_good : forall e fill cap out e', enc_call e fill cap = Ok (out, e') -> enc_good e' -> enc_good e.
  Hypothesis enc_done_good : forall e, enc_done e = true -> enc_good e.

  Notation state := (state enc dec ores ires).
  Notation step := (step enc enc_reset enc_call enc_done dec dec_init dec_feed ores ores_reset ores_resolve
                         ires ires_reset ires_resolve v_out v_in cfg).
  Notation run := (run enc enc_reset enc_call enc_done dec dec_init dec_feed ores ores_reset ores_resolve
                       ires ires_reset ires_resolve v_out v_in cfg).
  Notation init := (init (enc:=enc) dec_init).
  Notation WFX := (WFX enc enc_reset enc_call dec dec_init dec_feed ores ores_reset ores_resolve ires ires_reset ires_resolve v_out v_in cfg HC).
  Notation step_wlog := (step_wlog enc enc_reset enc_call enc_done dec dec_feed ores ores_reset ores_resolve ires ires_reset ires_resolve v_out v_in cfg).
  Notation run_wlog := (run_wlog enc enc_reset enc_call enc_done dec dec_init dec_feed ores ores_reset ores_resolve ires ires_reset ires_resolve v_out v_in cfg).
  Notation run_olog := (run_olog enc enc_reset enc_call enc_done dec dec_init dec_feed ores ores_reset ores_resolve ires ires_reset ires_resolve v_out v_in cfg).
  Notation full := (full cfg enc_full).
  Notation GI := (GI cfg enc_full pkt_good).
  Notation good := (good cfg pkt_good).
  Notation C := (C enc dec ores ires cfg enc_rem enc_full enc_good pkt_good).
  Notation Inv := (Inv enc dec ores ires cfg enc_rem enc_full enc_good pkt_good).
  Notation live := (live enc dec ores ires).

  Ltac splits := repeat match goal with |- _ /\ _ => split end.

  Lemma run_wlog_no_open : forall h (s : state), Forall not_open h -> no_wopen (run_wlog s h) = true.
  Proof.
    induction h as [|e r IH]; intros s H; [reflexivity|]. inversion H as [|? ? He Hr]; subst.
    cbn [WireRunLog.run_wlog]. rewrite no_wopen_app, step_wlog_open, IH by exact Hr. destruct e; try reflexivity. destruct He.
  Qed.

  Lemma run_wlog_bytes : forall h (s : state), wbytes (run_wlog s h) = concat (map o_bytes (snd (run s h))).
  Proof.
    induction h as [|e r IH]; intros s; [reflexivity|]. cbn [WireRunLog.run_wlog Model.run].
    rewrite wbytes_app, (step_wlog_bytes enc enc_reset enc_call enc_done dec dec_init dec_feed ores ores_reset ores_resolve ires ires_reset ires_resolve v_out v_in cfg s e), IH. destruct (step s e) as [s1 o]. cbn [fst snd]. destruct (run s1 r) as [s2 os]. reflexivity.
  Qed.

  (* from a state whose encoder slot is free whenever it can send: the outputs of a history without EvOpen *)
  Theorem wire_stream_from (s1 : state) h2 :
    WFX s1 -> (live s1 -> s_cur s1 = None) -> Forall ok_event h2 -> Forall not_open h2 ->
    let dc := packets_of (run_olog s1 h2) in
    exists part,
      concat (map o_bytes (snd (run s1 h2))) = concat (map full (fst dc)) ++ part /\
      match snd dc with
      | None => part = []
      | Some x => exists rest, full x = part ++ rest
      end /\
      encodes (run_olog s1 h2) = fst dc ++ olist (snd dc) /\
      Forall good (fst dc).
  Proof.
    intros HW Hfree Hev Hno. cbv zeta.
    assert (HI0 : Inv s1 wg0) by (intros Hl; unfold WireRun.C; rewrite (Hfree Hl); reflexivity).
    destruct (run_w_spec enc enc_reset enc_call enc_done dec dec_init dec_feed ores ores_reset ores_resolve ires ires_reset ires_resolve
                v_out v_in cfg HC Hcfg enc_rem enc_full enc_reset_full enc_call_rem enc_done_rem enc_good pkt_good enc_reset_good enc_call_good enc_done_good
                h2 s1 wg0 HW Hev (GI_wg0 cfg enc_full pkt_good) HI0)
      as ((G1 & G2 & G3 & G4) & _). cbv zeta in G1, G2, G3, G4.
    pose proof (run_wlog_no_open h2 s1 Hno) as Hn.
    pose proof (wfold_packets _ Hn wg0) as Hp. rewrite run_wlog_olog in Hp. cbn [w_done w_cur wg0] in Hp. fold (packets_of (run_olog s1 h2)) in Hp.
    set (g := wfold wg0 (run_wlog s1 h2)) in *. rewrite <- Hp. cbn [fst snd].
    exists (w_part g). splits.
    - rewrite <- G1. unfold g. rewrite wfold_stream, (conn_stream_no_open _ Hn), run_wlog_bytes. reflexivity.
    - exact G3.
    - rewrite <- G2. unfold g. rewrite wfold_seated, (conn_seated_no_open _ Hn), run_wlog_olog. reflexivity.
    - exact G4.
  Qed.

  Lemma run_app : forall h1 h2 (s : state),
    fst (run s (h1 ++ h2)) = fst (run (fst (run s h1)) h2).
  Proof.
    induction h1 as [|e r IH]; intros h2 s; [reflexivity|]. cbn [app Model.run].
    destruct (step s e) as [s1 o]. specialize (IH h2 s1).
    destruct (run s1 (r ++ h2)) as [sa oa]. destruct (run s1 r) as [sb ob]. cbn [fst] in *. exact IH.
  Qed.

  (* the state right after an EvOpen: a connection that can send starts with a free encoder slot *)
  Lemma after_open_free (s0 : state) now dl : live (fst (step s0 (EvOpen now dl))) -> s_cur (fst (step s0 (EvOpen now dl))) = None.
  Proof.
    cbn [Model.step]. unfold out_of_res, net_opened. destruct (pstate_eqb (s_st s0) Disconnected); cbn [negb r_s r_out fst halt_on_error].
    - intros _. reflexivity.
    - intros [H|H]; cbn in H; discriminate.
  Qed.

  (* ================= one connection of a history from the initial state ================= *)
  Theorem wire_stream_connection (o : ores) (i : ires) h1 now dl h2 :
    ores_inv HC o -> ires_inv HC i -> Forall ok_event (h1 ++ EvOpen now dl :: h2) -> Forall not_open h2 ->
    let s1 := fst (run (init o i) (h1 ++ [EvOpen now dl])) in
    let dc := packets_of (run_olog s1 h2) in
    exists part,
      concat (map o_bytes (snd (run s1 h2))) = concat (map full (fst dc)) ++ part /\
      match snd dc with
      | None => part = []
      | Some x => exists rest, full x = part ++ rest
      end /\
      encodes (run_olog s1 h2) = fst dc ++ olist (snd dc) /\
      Forall good (fst dc).
  Proof.
    intros Ho Hi Hev Hno. cbv zeta.
    apply Forall_app in Hev. destruct Hev as [Hev1 Hev2]. inversion Hev2 as [|? ? He Hev3]; subst.
    assert (Hev1' : Forall ok_event (h1 ++ [EvOpen now dl])) by (apply Forall_app; split; [exact Hev1|constructor; [exact He|constructor]]).
    pose proof (WF_run enc enc_reset enc_call enc_done dec dec_init dec_feed ores ores_reset ores_resolve ires ires_reset ires_resolve v_out v_in cfg HC Hcfg
                  _ _ (WF_init _ _ _ _ _ _ _ _ _ _ _ _ _ _ _ HC o i Ho Hi) Hev1') as HW1.
    apply wire_stream_from; try assumption.
    rewrite run_app. cbn [Model.run]. destruct (step (fst (run (init o i) h1)) (EvOpen now dl)) as [sx ox] eqn:Es. cbn [fst].
    change sx with (fst (sx, ox)). rewrite <- Es. apply after_open_free.
  Qed.

  (* before the first EvOpen nothing is emitted *)
  Theorem wire_silent_before_open (o : ores) (i : ires) h :
    ores_inv HC o -> ires_inv HC i -> Forall ok_event h -> Forall not_open h ->
    concat (map o_bytes (snd (run (init o i) h))) = [].
  Proof.
    intros Ho Hi Hev Hno.
    assert (H : forall h (s : state), WFX s -> s_st s = Disconnected \/ s_st s = Halted -> Forall ok_event h -> Forall not_open h ->
                concat (map o_bytes (snd (run s h))) = [] ).
    { clear - Hcfg. induction h as [|e r IH]; intros s HW Hs Hev Hn; [reflexivity|].
      inversion Hn as [|? ? He Hr]; subst. inversion Hev as [|? ? Hoe Hevr]; subst. cbn [Model.run].
      pose proof (step_st enc enc_reset enc_call enc_done dec dec_init dec_feed ores ores_reset ores_resolve ires ires_reset ires_resolve v_out v_in cfg s e (proj1 (proj1 HW))) as Hst.
      pose proof (WF_step enc enc_reset enc_call enc_done dec dec_init dec_feed ores ores_reset ores_resolve ires ires_reset ires_resolve v_out v_in cfg HC Hcfg s e HW Hoe) as HW1.
      pose proof (only_service_emits enc enc_reset enc_call enc_done dec dec_init dec_feed ores ores_reset ores_resolve ires ires_reset ires_resolve v_out v_in cfg s e) as Hq.
      assert (Hb : o_bytes (snd (step s e)) = []).
      { destruct e as [now p t|now dl|now|now data|now|now cap fill|now|now]; try exact Hq.
        cbn [Model.step snd o_bytes]. unfold Model.service. cbv zeta. destruct Hs as [Hs|Hs]; rewrite Hs; reflexivity. }
      assert (Hs1 : s_st (fst (step s e)) = Disconnected \/ s_st (fst (step s e)) = Halted).
      { destruct e as [now p t|now dl|now|now data|now|now cap fill|now|now]; cbn [HandshakeRunSt.st_step] in Hst; try destruct He;
          destruct Hs as [Hs|Hs]; rewrite Hs in Hst; intuition congruence. }
      destruct (step s e) as [s1 o1]. cbn [fst snd] in *. specialize (IH s1 HW1 Hs1 Hevr Hr).
      destruct (run s1 r) as [s2 os]. cbn [snd map concat] in *. rewrite Hb, IH. reflexivity. }
    apply H; [apply WF_init; assumption|left; reflexivity|exact Hev|exact Hno].
  Qed.
End Conn.
