(* C07 / wire level: on every connection the FIRST packet an encoder is constructed for is the CONNECT
   [create_connect] of the state in which the connection opened (with no alias resolution), and no other packet an
   encoder is constructed for on that connection is a CONNECT.  With WireRun*.v: the byte stream of every connection
   starts with the complete encoding of that CONNECT and contains no other CONNECT frame.
   Hypotheses: comps_ok / ok_cfg / Forall ok_event, no CONNECT submitted as a user operation (user_ok, necessary:
   C07_run_example_user_connect_is_sent), and the last-chance validator accepts CONNECT packets ([Hvc]; the
   validator of the instance returns Ok for every CONNECT: Validate/Rules.v validate_outbound_internal). *)
From GM Require Import Base.Prelude Base.Outcome Codec.Packets Codec.Settings Engine.Model
  EngineProofs.AssocLemmas EngineProofs.Frames EngineProofs.HandshakeRunTrace EngineProofs.WFDefs EngineProofs.WFStep
  EngineProofs.HandshakeRunFrame EngineProofs.HandshakeRunFrame2 EngineProofs.HandshakeRunSt EngineProofs.HandshakeRunClose
  EngineProofs.HandshakeRunPC EngineProofs.HandshakeRunInv EngineProofs.HandshakeRun
  EngineProofs.AliasRunFrames EngineProofs.AliasRunLog EngineProofs.WireRunFrames EngineProofs.WireRunLog EngineProofs.WireRun
  EngineProofs.WireRunConn EngineProofs.WireRunPubrel EngineProofs.WireRunPubrel2.
From RecordUpdate Require Import RecordSet.
Import RecordSetNotations.
Open Scope N_scope.

(* the four component types are implicit in the engine functions, locally to this file *)
#[local] Arguments init {enc dec} _ {ores ires} _ _.
#[local] Arguments release {enc dec ores ires} _ _ _ _.
#[local] Arguments disconnect_completion {enc dec ores ires} _ _.
#[local] Arguments fail_op {enc dec ores ires} _ _ _ _.
#[local] Arguments ping_extension {enc dec ores ires} _ _.
#[local] Arguments succeed_op {enc dec ores ires} _ _ _ _.
#[local] Arguments fail_all {enc dec ores ires} _ _ _ _.
#[local] Arguments succeed_all {enc dec ores ires} _ _ _.
#[local] Arguments andthen {enc dec ores ires} _ _.
#[local] Arguments try_ {enc dec ores ires} _ _.
#[local] Arguments pure {enc dec ores ires} _.
#[local] Arguments create_operation {enc dec ores ires} _ _.
#[local] Arguments passes_now {enc dec ores ires} _ _ _.
#[local] Arguments user_event {enc dec ores ires} _ _ _ _.
#[local] Arguments create_connect {enc dec ores ires} _ _.
#[local] Arguments net_opened {enc dec} _ {ores ires} _ _ _.
#[local] Arguments op_exists {enc dec ores ires} _ _.
#[local] Arguments op_passes {enc dec ores ires} _ _ _.
#[local] Arguments partition_policy {enc dec ores ires} _ _ _.
#[local] Arguments closed_current {enc dec ores ires} _ _.
#[local] Arguments slow_start_init {enc dec ores ires} _ _.
#[local] Arguments update_retries {enc dec ores ires} _ _.
#[local] Arguments fail_exceeding {enc dec ores ires} _ _.
#[local] Arguments has_pubrel {enc dec ores ires} _ _.
#[local] Arguments net_closed_raw {enc dec ores ires} _ _.
#[local] Arguments net_closed {enc dec ores ires} _ _.
#[local] Arguments net_write_completion {enc dec ores ires} _ _.
#[local] Arguments acquire_free_pid {enc dec ores ires} _ _.
#[local] Arguments acquire_pid_for {enc dec ores ires} _ _.
#[local] Arguments unbind {enc dec ores ires} _ _.
#[local] Arguments passes_receive_max {enc dec ores ires} _ _.
#[local] Arguments throttled {enc dec ores ires} _ _.
#[local] Arguments has_pending_ack {enc dec ores ires} _.
#[local] Arguments dequeue {enc dec ores ires} _ _ _.
#[local] Arguments fully_written {enc dec ores ires} _ _.
#[local] Arguments service_keep_alive {enc dec ores ires} _ _ _.
#[local] Arguments process_ack_timeouts {enc dec ores ires} _ _ _.
#[local] Arguments halt_on_error {enc dec ores ires} _ _.
#[local] Arguments next_service_time {enc dec ores ires} _ _ _.
#[local] Arguments build_settings {enc dec ores ires} _ _ _.
#[local] Arguments apply_session {enc dec ores ires} _ _ _.
#[local] Arguments hres_of {enc dec ores ires} _ _.
#[local] Arguments pre_connack {enc dec ores ires} _.
#[local] Arguments sum_ss {enc dec ores ires} _.
#[local] Arguments handle_pingresp {enc dec ores ires} _.
#[local] Arguments handle_suback {enc dec ores ires} _ _ _.
#[local] Arguments handle_unsuback {enc dec ores ires} _ _ _.
#[local] Arguments publish_qos_of {enc dec ores ires} _ _.
#[local] Arguments handle_puback {enc dec ores ires} _ _ _.
#[local] Arguments handle_pubrec {enc dec ores ires} _ _ _.
#[local] Arguments handle_pubrel {enc dec ores ires} _ _.
#[local] Arguments handle_pubcomp {enc dec ores ires} _ _ _.
#[local] Arguments handle_publish {enc dec ores ires} _ _.
#[local] Arguments handle_disconnect {enc dec ores ires} _ _ _.
#[local] Arguments is_connect_op {enc dec ores ires} _ _.
#[local] Arguments connect_in_queue {enc dec ores ires} _.
#[local] Arguments reset {enc dec ores ires} _ _.
#[local] Arguments out_of_res {enc dec ores ires} _ _.
#[local] Arguments nst_queue {enc dec ores ires} _ _ _ _.
#[local] Arguments earliest_tmo {enc dec ores ires} _.
#[local] Arguments SeatStop {enc dec ores ires} _.
#[local] Arguments SeatContinue {enc dec ores ires} _ _.
#[local] Arguments SeatEncode {enc dec ores ires} _.


Definition nonconnect (x : pr) : Prop := is_connect (fst x) = false.

(* the packets of a connection: nothing yet, or the CONNECT X first and no other CONNECT *)
Definition shape (X : pr) (sl : list pr) : Prop :=
  match sl with
  | [] => True
  | x :: rest => x = X /\ Forall nonconnect rest
  end.

Lemma encodes_app a b : encodes (a ++ b) = encodes a ++ encodes b.
Proof. apply flat_map_app. Qed.

Lemma encodes_inert l : forallb inert l = true -> encodes l = [].
Proof.
  induction l as [|e l IH]; intros H; [reflexivity|]. cbn in H. apply andb_true_iff in H as [H1 H2].
  cbn [encodes flat_map]. fold (encodes l). rewrite (IH H2).
  destruct e as [id|id|id|id a t res|id p r v|m|id k|id p r ok|id|m| | | ]; try reflexivity. destruct ok; [discriminate|reflexivity].
Qed.

Lemma shape_app X sl l : sl <> [] -> shape X sl -> Forall nonconnect l -> shape X (sl ++ l).
Proof.
  destruct sl as [|x rest]; [congruence|]. intros _ [E F] H. cbn. split; [exact E|apply Forall_app; auto].
Qed.

Section Connect.
  Variable enc : Type.
  Variable enc_reset : version -> packet -> resolution -> outcome enc.
  Variable enc_call : enc -> N -> N -> outcome (bytes * enc).
  Variable enc_done : enc -> bool.
  Variable dec : Type.
  Variable dec_init : dec.
  Variable dec_feed : version -> N -> dec -> bytes -> dec * list packet * outcome unit.
  Variable ores : Type.
  Variable ores_reset : ores -> N -> ores.
  Variable ores_resolve : ores -> option N -> bytes -> outcome (ores * resolution).
  Variable ires : Type.
  Variable ires_reset : ires -> ires.
  Variable ires_resolve : ires -> option N -> bytes -> outcome (ires * bytes).
  Variable v_out : option settings -> connect_opts -> resolution -> packet -> outcome unit.
  Variable v_in : option settings -> packet -> outcome unit.
  Variable cfg : config.
  Variable HC : comps_ok enc enc_reset enc_call dec dec_init dec_feed ores ores_reset ores_resolve ires ires_reset ires_resolve v_out v_in.
  Hypothesis Hcfg : ok_cfg cfg.
  (* the last-chance validator lets every CONNECT through *)
  Hypothesis Hvc : forall st co c, v_out st co no_resolution (Connect c) = Ok tt.

  Notation state := (state enc dec ores ires).
  Notation sres := (sres enc dec ores ires).
  Notation step := (step enc enc_reset enc_call enc_done dec dec_init dec_feed ores ores_reset ores_resolve
                         ires ires_reset ires_resolve v_out v_in cfg).
  Notation run := (run enc enc_reset enc_call enc_done dec dec_init dec_feed ores ores_reset ores_resolve
                       ires ires_reset ires_resolve v_out v_in cfg).
  Notation seat_current := (seat_current enc enc_reset dec ores ores_reset ores_resolve ires v_out cfg).
  Notation service_queue := (service_queue enc enc_reset enc_call enc_done dec ores ores_reset ores_resolve ires v_out cfg).
  Notation service := (service enc enc_reset enc_call enc_done dec ores ores_reset ores_resolve ires v_out cfg).
  Notation net_data := (net_data enc dec dec_feed ores ores_reset ires ires_reset ires_resolve v_in cfg).
  Notation handle_packets := (handle_packets enc dec ores ores_reset ires ires_reset ires_resolve v_in cfg).
  Notation encode_next := (encode_next enc enc_call enc_done dec ores ires).
  Notation queue_fuel := (queue_fuel enc dec ores ires).
  Notation init := (init (enc:=enc) dec_init).
  Notation WFX := (WFX enc enc_reset enc_call dec dec_init dec_feed ores ores_reset ores_resolve ires ires_reset ires_resolve v_out v_in cfg HC).
  Notation seat_current_a := (seat_current_a enc enc_reset dec ores ores_reset ores_resolve ires v_out cfg).
  Notation service_loop_a := (service_loop_a enc enc_reset enc_call enc_done dec ores ores_reset ores_resolve ires v_out cfg).
  Notation service_log := (service_log enc enc_reset enc_call enc_done dec ores ores_reset ores_resolve ires v_out cfg).
  Notation step_olog := (step_olog enc enc_reset enc_call enc_done dec dec_feed ores ores_reset ores_resolve ires ires_reset ires_resolve v_out v_in cfg).
  Notation run_olog := (run_olog enc enc_reset enc_call enc_done dec dec_init dec_feed ores ores_reset ores_resolve ires ires_reset ires_resolve v_out v_in cfg).
  Notation HS := (HS enc dec ores ires cfg).
  Notation PCI := (PCI enc dec ores ires cfg).
  Notation J := (J enc dec ores ires cfg).
  Notation conn_op := (conn_op enc dec ores ires cfg).
  Notation CP := (CP enc dec ores ires).
  Notation NC := (NC enc dec ores ires).
  Notation KF := (KF enc dec ores ires).
  Notation PF := (PF enc dec ores ires).
  Notation PRS := (PRS enc dec ores ires).
  Notation places := (places enc dec ores ires).

  Ltac splits := repeat match goal with |- _ /\ _ => split end.

  (* ================= once connected: no packet an encoder is constructed for is a CONNECT ================= *)
  Lemma NC_PRS_KF (s s' : state) : NC s /\ PRS s -> KF s s' -> PF s s' -> NC s' /\ PRS s'.
  Proof. intros [A B] K P. split; [eapply NC_KF; eauto|eapply PRS_PF; eauto]. Qed.

  Lemma seat_nonconnect (s : state) m acc dn :
    NC s /\ PRS s -> Forall nonconnect (encodes (snd (seat_current_a s m acc dn))).
  Proof.
    intros HN. unfold AliasRunLog.seat_current_a. destruct (s_cur s); [constructor|].
    assert (Hd : s_ops (fst (dequeue cfg s m)) = s_ops s).
    { unfold dequeue. repeat match goal with |- context [if ?b then _ else _] => destruct b; cbn end;
        repeat match goal with |- context [match ?l with [] => _ | _ :: _ => _ end] => destruct l; cbn end;
        repeat match goal with |- context [if ?b then _ else _] => destruct b; cbn end; reflexivity. }
    destruct (dequeue cfg s m) as [s1 next]. cbn [fst] in Hd. destruct next as [id|]; [|constructor].
    set (s2 := s1 <| s_cur := Some id |>).
    destruct (negb (op_exists s2 id)); [constructor|].
    destruct (acquire_pid_for s2 id) as [s3|k|site] eqn:Ea; [|constructor..].
    assert (HN3 : NC s3 /\ PRS s3).
    { apply (NC_PRS_KF s2); [|eapply acquire_pid_for_KF; exact Ea|eapply acquire_pid_for_PF; exact Ea].
      apply (NC_PRS_KF s); [exact HN|apply KF_ops; exact Hd|apply PF_ops; exact Hd]. }
    destruct (lookup id (s_ops s3)) as [o|] eqn:Eo; [|constructor].
    set (packet := match op_pubrel o with Some pr => pr | None => op_packet o end).
    assert (Hp : is_connect packet = false).
    { destruct (is_connect packet) eqn:E; [|reflexivity].
      pose proof (PRS_wire_packet enc dec ores ires s3 id o (proj2 HN3) Eo E) as H. rewrite (proj1 HN3 id o Eo) in H. discriminate. }
    set (lr := match packet with
               | Publish pb => [OResolve id (pub_alias pb) (pub_topic pb) (res_of (ores_resolve (s_ores s3) (pub_alias pb) (pub_topic pb)))]
               | _ => [] end).
    assert (Hlr : encodes lr = []) by (subst lr; destruct packet; reflexivity).
    assert (Hpre : forall tl, encodes (OPick id :: lr ++ tl) = encodes tl).
    { intros tl. change (OPick id :: lr ++ tl) with ([OPick id] ++ lr ++ tl). rewrite !encodes_app, Hlr. reflexivity. }
    destruct (match packet with
              | Publish pb => do (o', r) <- ores_resolve (s_ores s3) (pub_alias pb) (pub_topic pb) ; Ok (s3 <| s_ores := o' |>, r)
              | _ => Ok (s3, no_resolution) end) as [[s4 r]|k|site];
      [|cbn [snd]; rewrite (app_nil_end lr), Hpre; constructor..].
    destruct (v_out (s_settings s4) (cf_connect cfg) r packet) as [u|k|site].
    - destruct (enc_reset (cf_version cfg) packet r); cbn [snd]; rewrite Hpre; cbn; repeat constructor. exact Hp.
    - cbv zeta. match goal with |- context [r_out ?x] => destruct (r_out x) end; cbn [snd]; rewrite Hpre; cbn;
        rewrite encodes_app; destruct (r_alias r); cbn; constructor.
    - cbn [snd]. rewrite Hpre. constructor.
  Qed.

  Lemma loop_nonconnect now cap fill : forall f (s : state) m acc dn,
    NC s /\ PRS s -> Forall nonconnect (encodes (snd (service_loop_a f s m now cap fill acc dn))).
  Proof.
    induction f as [|f IH]; intros s m acc dn HN; cbn [AliasRunLog.service_loop_a]; [constructor|].
    destruct (negb (pstate_eqb (s_st s) PendingConnack || pstate_eqb (s_st s) Connected)); [constructor|].
    pose proof (seat_nonconnect s m acc dn HN) as Hs.
    pose proof (seat_current_KF enc enc_reset dec ores ores_reset ores_resolve ires v_out cfg s m acc dn) as HK.
    pose proof (seat_current_PF enc enc_reset dec ores ores_reset ores_resolve ires v_out cfg s m acc dn) as HP.
    rewrite <- (seat_current_a_fst _ _ _ _ _ _ _ _ _ s m acc dn) in HK, HP.
    destruct (seat_current_a s m acc dn) as [[r|s5 dn'|s5] l]; cbn [fst snd seat_state HandshakeRunTrace.seat_state] in *.
    - exact Hs.
    - rewrite encodes_app. apply Forall_app. split; [exact Hs|]. apply IH. eapply NC_PRS_KF; eauto.
    - pose proof (encode_next_KF enc enc_call enc_done dec ores ires now cap fill s5 acc dn) as EK.
      pose proof (encode_next_PF enc enc_call enc_done dec ores ires now cap fill s5 acc dn) as EP.
      destruct (encode_next now cap fill s5 acc dn) as [r|[s7 acc']]; cbn [fst snd]; [exact Hs|].
      rewrite !encodes_app. apply Forall_app. split; [exact Hs|]. apply Forall_app. split; [destruct (s_cur s5); cbn; constructor|].
      apply IH. eapply NC_PRS_KF; [eapply NC_PRS_KF; eauto|exact EK|exact EP].
  Qed.

  (* ================= while the CONNACK is awaited: exactly the CONNECT, once ================= *)
  (* X = (the CONNECT of this connection, no resolution); sl = the packets an encoder was constructed for so far *)
  Definition PCK (X : pr) (s : state) (sl : list pr) : Prop :=
    create_connect cfg s = fst X /\ snd X = no_resolution /\
    ((sl = [] /\ s_cur s = None /\ s_hq s <> []) \/ (sl = [X] /\ s_hq s = [])).

  Lemma PCK_view X (s s' : state) sl :
    s_hq s' = s_hq s -> s_cur s' = s_cur s -> s_settings s' = s_settings s -> s_connected_before s' = s_connected_before s ->
    PCK X s sl -> PCK X s' sl.
  Proof.
    intros E1 E2 E3 E4 (A & B & D). unfold PCK. rewrite E1, E2, (create_connect_frame _ _ _ _ cfg s s' E3 E4). auto.
  Qed.

  Lemma PCK_cases X (s : state) sl : PCK X s sl -> sl = [] \/ sl = [X].
  Proof. intros (_ & _ & [[H _]|[H _]]); auto. Qed.

  Lemma fully_written_frame (s s' : state) now : fully_written s now = Ok s' ->
    s_hq s' = s_hq s /\ s_settings s' = s_settings s /\ s_connected_before s' = s_connected_before s.
  Proof.
    unfold fully_written. destruct (s_cur s) as [id|]; [|discriminate]. destruct (lookup id (s_ops s)) as [o|]; [|discriminate].
    destruct (if op_user o then op_timeout o else None) as [d|]; [destruct (IMAX <? now + d)|];
      destruct (op_packet o) as [| |pb| | | | | | | | | | | |]; cbn; try destruct (pub_qos pb =? 0); cbn;
      intros H; inversion H; repeat split; reflexivity.
  Qed.

  (* seating with a free encoder slot *)
  Lemma pc_seat_K X (s : state) acc dn sl :
    PCI s -> s_cur s = None -> PCK X s sl ->
    let sl' := sl ++ encodes (snd (seat_current_a s false acc dn)) in
    match fst (seat_current_a s false acc dn) with
    | SeatStop r => (sl' = [] \/ sl' = [X]) /\ (sr_out r = Ok tt -> sr_s r = s /\ sl' = sl)
    | SeatContinue _ _ => False
    | SeatEncode s' => PCI s' /\ s_cur s' <> None /\ PCK X s' sl'
    end.
  Proof.
    intros HP Hcur HK. pose proof HP as (Hst & (Hlen & Hpl) & HCP). pose proof (PCK_cases _ _ _ HK) as Hsl.
    pose proof (pc_seat enc enc_reset enc_call enc_done dec ores ores_reset ores_resolve ires v_out cfg s acc dn HP Hcur) as [Hps _].
    rewrite <- (seat_current_a_fst _ _ _ _ _ _ _ _ _ s false acc dn) in Hps.
    cbv zeta. unfold AliasRunLog.seat_current_a in *. rewrite Hcur in *. unfold dequeue in *.
    destruct (s_pwc s); [cbn; rewrite app_nil_r; auto|].
    destruct (s_hq s) as [|c r] eqn:Eh; [cbn; rewrite app_nil_r; auto|].
    destruct HK as (K1 & K2 & [(K3 & _ & _)|(_ & K3)]); [|rewrite Eh in K3; discriminate K3]. subst sl. cbn [app].
    unfold HandshakeRunClose.places in Hlen, Hpl. rewrite Eh, Hcur in Hlen, Hpl. cbn in Hlen.
    assert (Er : r = []) by (destruct r; [reflexivity|cbn in Hlen; lia]). subst r.
    assert (Epw : s_pwco s = []) by (destruct (s_pwco s); [reflexivity|cbn in Hlen; lia]).
    destruct (Hpl c (or_introl eq_refl)) as (o & Ho & Hpk & Hu & Hpr).
    destruct (create_connect_is enc dec ores ires cfg s) as (c0 & Hc0).
    set (s1 := s <| s_hq := [] |>) in *. set (s2 := s1 <| s_cur := Some c |>) in *.
    assert (Ho2 : lookup c (s_ops s2) = Some o) by exact Ho.
    unfold op_exists in *. rewrite Ho2 in *. cbn [negb] in *.
    assert (Haq : acquire_pid_for s2 c = Ok s2).
    { unfold acquire_pid_for. rewrite Ho2. destruct (op_pid o); [reflexivity|]. rewrite Hpk, Hc0. reflexivity. }
    rewrite Haq, Ho2, Hpr, Hpk, Hc0 in *. rewrite Hvc in *.
    destruct (enc_reset (cf_version cfg) (Connect c0) no_resolution) as [e|k|site]; cbn [fst snd] in *; cbn [encodes flat_map app];
      [|split; [auto|discriminate]..].
    destruct Hps as (P1 & P2). split; [exact P1|]. split; [exact P2|].
    unfold PCK. split; [rewrite <- K1, <- Hc0; apply create_connect_frame; reflexivity|]. split; [exact K2|].
    right. split; [|reflexivity]. destruct X as [xp xr]. cbn in K1, K2. subst xp xr. reflexivity.
  Qed.

  (* the encode half of an iteration while the CONNECT is on the encoder *)
  Lemma pc_encode_K X now cap fill (s5 : state) acc dn sl :
    PCI s5 -> s_cur s5 <> None -> PCK X s5 sl ->
    match encode_next now cap fill s5 acc dn with
    | inl r => sr_out r = Ok tt -> PCI (sr_s r) /\ PCK X (sr_s r) sl
    | inr (s7, _) => PCI s7 /\ s_cur s7 = None /\ PCK X s7 sl
    end.
  Proof.
    intros HP Hcur HK.
    pose proof (pc_encode enc enc_call enc_done dec ores ores_reset ires cfg now cap fill s5 acc dn HP Hcur) as He.
    unfold HandshakeRunTrace.encode_next in *. destruct (s_cur s5) as [c|] eqn:Ec; [|congruence].
    destruct (negb (op_exists s5 c)); [discriminate|]. destruct (s_enc s5) as [e|]; [|discriminate].
    destruct (enc_call e (fill + len acc) cap) as [[out e']|k|site]; [|discriminate..].
    cbv zeta in *. set (s6 := s5 <| s_enc := Some e' |>) in *.
    assert (HK6 : PCK X s6 sl) by (apply (PCK_view X s5); auto).
    destruct (enc_done e'); [|cbn [sr_s sr_out] in *; intros _; split; [apply He; reflexivity|exact HK6]].
    destruct (fully_written s6 now) as [s7|k|site] eqn:Efw; [|discriminate..].
    destruct He as (A & B & D). split; [exact A|]. split; [exact B|].
    destruct (fully_written_frame _ _ _ Efw) as (F1 & F2 & F3).
    destruct HK6 as (K1 & K2 & [(_ & K3 & _)|(K3 & K4)]); [cbn in K3; congruence|].
    unfold PCK. rewrite (create_connect_frame _ _ _ _ cfg s6 s7 F2 F3). split; [exact K1|]. split; [exact K2|]. right. split; [exact K3|congruence].
  Qed.

  Theorem pc_loop_K X now cap fill : forall f (s : state) acc dn sl,
    PCI s -> PCK X s sl ->
    let rt := service_loop_a f s false now cap fill acc dn in
    let sl' := sl ++ encodes (snd rt) in
    (sl' = [] \/ sl' = [X]) /\ (sr_out (fst rt) = Ok tt -> s_st (sr_s (fst rt)) = PendingConnack -> PCK X (sr_s (fst rt)) sl').
  Proof.
    induction f as [|f IH]; intros s acc dn sl HP HK; cbn [AliasRunLog.service_loop_a].
    { cbn. rewrite app_nil_r. split; [eapply PCK_cases; eauto|discriminate]. }
    pose proof HP as (Hst & _). rewrite Hst. cbn [pstate_eqb orb negb].
    destruct (s_cur s) as [c|] eqn:Ec.
    - assert (Es : seat_current_a s false acc dn = (SeatEncode s, [])) by (unfold AliasRunLog.seat_current_a; rewrite Ec; reflexivity).
      rewrite Es. assert (Hc : s_cur s <> None) by congruence.
      pose proof (pc_encode_K X now cap fill s acc dn sl HP Hc HK) as He.
      destruct (encode_next now cap fill s acc dn) as [r|[s7 acc']]; cbn [fst snd].
      + rewrite app_nil_r. split; [eapply PCK_cases; eauto|]. intros Ho _. apply He. exact Ho.
      + destruct He as (A & B & D). rewrite Ec. cbn [app]. change (encodes (ODone c :: ?l)) with (encodes l). apply IH; assumption.
    - pose proof (pc_seat_K X s acc dn sl HP Ec HK) as Hs. cbv zeta in Hs.
      destruct (seat_current_a s false acc dn) as [[r|s5 dn'|s5] l]; cbn [fst snd] in Hs |- *.
      + destruct Hs as (A & B). split; [exact A|]. intros Ho _. destruct (B Ho) as (-> & ->). exact HK.
      + contradiction.
      + destruct Hs as (A & B & D).
        pose proof (pc_encode_K X now cap fill s5 acc dn _ A B D) as He.
        destruct (encode_next now cap fill s5 acc dn) as [r|[s7 acc']]; cbn [fst snd].
        * split; [eapply PCK_cases; eauto|]. intros Ho _. apply He. exact Ho.
        * destruct He as (A7 & B7 & D7). rewrite !encodes_app, app_assoc.
          assert (En : encodes (match s_cur s5 with Some id => [ODone id] | None => [] end) = []) by (destruct (s_cur s5); reflexivity).
          rewrite En. cbn [app]. apply IH; assumption.
  Qed.

  (* one service call while the CONNACK is awaited *)
  Theorem pc_service_K X (s : state) now cap fill sl :
    PCI s -> PCK X s sl ->
    let sl' := sl ++ encodes (service_log s now cap fill) in
    (sl' = [] \/ sl' = [X]) /\ (s_st (sr_s (service s now cap fill)) = PendingConnack -> PCK X (sr_s (service s now cap fill)) sl').
  Proof.
    intros HP HK. pose proof HP as (Hst & _). pose proof (PCK_cases _ _ _ HK) as Hsl. cbv zeta.
    unfold Model.service, AliasRunLog.service_log, AliasRunLog.service_queue_log. rewrite Hst. cbv zeta. cbn [sr_s].
    destruct (s_connack_to s) as [t|]; [|cbn; rewrite app_nil_r; split; [exact Hsl|discriminate]].
    destruct (t <=? now); [cbn; rewrite app_nil_r; split; [exact Hsl|discriminate]|].
    destruct (pc_loop_K X now cap fill (queue_fuel s) s [] [] sl HP HK) as (L1 & L2). cbv zeta in L1, L2.
    split; [exact L1|]. rewrite service_queue_a. cbv zeta.
    set (r0 := fst (service_loop_a (queue_fuel s) s false now cap fill [] [])) in *.
    destruct (sr_bytes r0); cbn [sr_s sr_out]; destruct (sr_out r0) as [[]|k|site]; cbn [halt_on_error]; try discriminate.
    - intros H. apply L2; [reflexivity|exact H].
    - intros H. apply (PCK_view X (sr_s r0)); try reflexivity. apply L2; [reflexivity|exact H].
  Qed.

  (* ================= every step of a connection ================= *)
  Definition K (X : pr) (s : state) (sl : list pr) : Prop :=
    shape X sl /\ (s_st s = PendingConnack -> PCK X s sl) /\ (s_st s = Connected -> sl <> []).

  Lemma shape_cases X sl : sl = [] \/ sl = [X] -> shape X sl.
  Proof. intros [->| ->]; cbn; auto. Qed.

  Lemma succeed_all_pc ids : forall (s : state), s_st s = PendingConnack ->
    pcview enc dec ores ires (r_s (succeed_all cfg s ids)) = pcview enc dec ores ires s.
  Proof.
    induction ids as [|a r IH]; intros s Hst; cbn [succeed_all]; [reflexivity|].
    destruct (succeed_op_pc enc dec ores ires cfg s a None Hst) as (S1 & _). cbv zeta in S1.
    destruct (is_panic (r_out (succeed_op cfg s a None))); [exact S1|].
    assert (Hst1 : s_st (r_s (succeed_op cfg s a None)) = PendingConnack) by (unfold pcview in S1; inversion S1; congruence).
    specialize (IH _ Hst1). destruct (is_panic _); cbn [r_s]; congruence.
  Qed.

  Lemma write_pc_frame (s : state) : s_st s = PendingConnack ->
    let s' := halt_on_error (r_s (net_write_completion cfg s)) (r_out (net_write_completion cfg s)) in
    s_hq s' = s_hq s /\ s_cur s' = s_cur s /\ s_settings s' = s_settings s /\ s_connected_before s' = s_connected_before s.
  Proof.
    intros Hst. cbv zeta. unfold net_write_completion. rewrite Hst. cbn [pstate_eqb orb].
    destruct (s_pwc s); cbn [negb]; [|cbn; auto].
    set (s1 := s <| s_pwc := false |> <| s_pwco := [] |>).
    pose proof (succeed_all_pc (s_pwco s) s1 Hst) as Hv. unfold pcview in Hv. inversion Hv as [[V1 V2 V3 V4 V5 V6]].
    destruct (r_out (succeed_all cfg s1 (s_pwco s))); cbn [halt_on_error]; cbn; auto.
  Qed.

  Lemma data_pc_stay (s : state) now data : s_st s = PendingConnack ->
    let s' := halt_on_error (h_s (net_data s now data)) (h_out (net_data s now data)) in
    s_st s' = PendingConnack ->
    s_hq s' = s_hq s /\ s_cur s' = s_cur s /\ s_settings s' = s_settings s /\ s_connected_before s' = s_connected_before s.
  Proof.
    intros Hst. cbv zeta. unfold Model.net_data. rewrite Hst. cbn [pstate_eqb orb andb].
    destruct (connect_in_queue s); [cbn; discriminate|].
    destruct (dec_feed _ _ _ _) as [[d' ps] r]. destruct r as [u|k|site]; [|cbn; discriminate..].
    set (s1 := s <| s_dec := d' |>). assert (Hst1 : s_st s1 = PendingConnack) by exact Hst.
    pose proof (handle_packets_pc_stay enc dec ores ores_reset ires ires_reset ires_resolve v_in cfg now ps s1 [] [] Hst1) as Hstay.
    destruct (h_out (handle_packets s1 now ps [] [])) as [[]|k|site]; cbn [halt_on_error]; [|cbn; discriminate..].
    intros H. rewrite (Hstay eq_refl H). cbn. auto.
  Qed.

  Lemma data_pc_unsent (s : state) now data : PCI s -> s_hq s <> [] ->
    s_st (halt_on_error (h_s (net_data s now data)) (h_out (net_data s now data))) = Halted.
  Proof.
    intros (Hst & (_ & Hpl) & _) Hq. unfold Model.net_data. rewrite Hst. cbn [pstate_eqb orb andb].
    assert (Hciq : connect_in_queue s = true).
    { destruct (s_hq s) as [|c r] eqn:Eh; [congruence|].
      destruct (Hpl c) as (o & Ho & Hpk & _); [unfold HandshakeRunClose.places; rewrite Eh; left; reflexivity|].
      destruct (create_connect_is enc dec ores ires cfg s) as (c0 & Hc0).
      unfold connect_in_queue. rewrite Eh. cbn [existsb]. unfold is_connect_op at 1. unfold getop in Ho. rewrite Ho, Hpk, Hc0. reflexivity. }
    rewrite Hciq. reflexivity.
  Qed.

  Theorem step_K X (s : state) e sl :
    WFX s -> HS s -> PRS s -> user_ok e -> not_open e -> K X s sl ->
    K X (fst (step s e)) (sl ++ encodes (step_olog s e)).
  Proof.
    intros HW HH HR Hu Hno (K1 & K2 & K3).
    pose proof (step_st enc enc_reset enc_call enc_done dec dec_init dec_feed ores ores_reset ores_resolve ires ires_reset ires_resolve v_out v_in cfg s e (proj1 (proj1 HW))) as Hst.
    assert (HPCI : s_st s = PendingConnack -> PCI s).
    { intros E. unfold HandshakeRunInv.HS in HH. rewrite E in HH. split; [exact E|tauto]. }
    (* events that leave the log empty and keep the fields PCK reads *)
    assert (Hquiet : forall s' : state, encodes (step_olog s e) = [] ->
              (s_st s' = PendingConnack -> s_st s = PendingConnack /\ s_hq s' = s_hq s /\ s_cur s' = s_cur s /\
                                           s_settings s' = s_settings s /\ s_connected_before s' = s_connected_before s) ->
              (s_st s' = Connected -> s_st s = Connected \/ sl <> []) ->
              K X s' (sl ++ encodes (step_olog s e))).
    { intros s' El Hpc Hco. rewrite El, app_nil_r. split; [exact K1|]. split.
      - intros E. destruct (Hpc E) as (E0 & E1 & E2 & E3 & E4). apply (PCK_view X s); auto.
      - intros E. destruct (Hco E) as [E0|E0]; auto. }
    destruct e as [now p t|now dl|now|now data|now|now cap fill|now|now]; cbn [HandshakeRunSt.st_step] in Hst; try destruct Hno.
    - (* user submission *)
      cbn [Model.step] in *. unfold out_of_res in *. cbn [fst] in *. apply Hquiet; [reflexivity| |].
      + intros E. assert (E0 : s_st s = PendingConnack) by (destruct Hst as [Hst|[Hst Hst']]; congruence).
        assert (Hn : s_st s <> Connected) by congruence.
        destruct (user_event_pc enc enc_reset enc_call dec dec_init dec_feed ores ores_reset ores_resolve ires ires_resolve v_in cfg s p t Hn) as (Hv & _).
        cbv zeta in Hv. inversion Hv. auto.
      + intros E. left. destruct Hst as [Hst|[Hst Hst']]; congruence.
    - (* connection closed *)
      apply Hquiet; [cbn [AliasRunLog.step_olog]; destruct (pstate_eqb (s_st s) Disconnected); reflexivity| |];
        intros E; rewrite E in Hst; destruct (s_st s); discriminate.
    - (* inbound bytes *)
      cbn [Model.step fst] in *.
      apply Hquiet; [apply encodes_inert; apply (data_logs_inert enc dec dec_feed ores ores_reset ires ires_reset ires_resolve v_in cfg)| |].
      + intros E. assert (E0 : s_st s = PendingConnack) by (rewrite E in Hst; destruct (s_st s); intuition discriminate).
        split; [exact E0|]. apply (data_pc_stay s now data E0). exact E.
      + intros E. destruct (s_st s) eqn:E0; rewrite E in Hst;
          [discriminate Hst| |left; reflexivity|destruct Hst as [H|H]; discriminate H|discriminate Hst].
        right. intros ->. destruct (K2 eq_refl) as (_ & _ & [(_ & _ & Hq)|(Hq & _)]); [|discriminate].
        rewrite (data_pc_unsent s now data (HPCI eq_refl) Hq) in E. discriminate.
    - (* write completion *)
      cbn [Model.step] in *. unfold out_of_res in *. cbn [fst] in *. apply Hquiet; [reflexivity| |].
      + intros E. assert (E0 : s_st s = PendingConnack) by (rewrite E in Hst; destruct (s_st s); intuition discriminate).
        split; [exact E0|]. apply (write_pc_frame s E0).
      + intros E. left. rewrite E in Hst. destruct (s_st s); intuition discriminate.
    - (* service *)
      cbn [Model.step fst AliasRunLog.step_olog] in *.
      destruct (s_st s) eqn:Est.
      + unfold AliasRunLog.service_log. rewrite Est, app_nil_r. split; [exact K1|]. split; intros E; rewrite E in Hst; discriminate.
      + destruct (pc_service_K X s now cap fill sl (HPCI eq_refl) (K2 eq_refl)) as (A & B). cbv zeta in A, B.
        split; [apply shape_cases; exact A|]. split; [exact B|]. intros E. rewrite E in Hst. intuition discriminate.
      + assert (HN : NC s /\ PRS s) by (split; [unfold HandshakeRunInv.HS in HH; rewrite Est in HH; exact HH|exact HR]).
        assert (Hl : Forall nonconnect (encodes (service_log s now cap fill))).
        { unfold AliasRunLog.service_log, AliasRunLog.service_queue_log. rewrite Est.
          destruct (service_keep_alive cfg s now) as [s1|k|site] eqn:Ek; [|constructor..].
          apply loop_nonconnect. apply (NC_PRS_KF s); [exact HN|eapply service_keep_alive_KF; exact Ek|eapply service_keep_alive_PF; exact Ek]. }
        split; [apply shape_app; auto|]. split; [intros E; rewrite E in Hst; intuition discriminate|].
        intros _ E. apply app_eq_nil in E. destruct E as [E _]. exact (K3 eq_refl E).
      + unfold AliasRunLog.service_log. rewrite Est, app_nil_r. split; [exact K1|]. split; intros E; rewrite E in Hst; intuition discriminate.
      + unfold AliasRunLog.service_log. rewrite Est, app_nil_r. split; [exact K1|]. split; intros E; rewrite E in Hst; discriminate.
    - (* next service time *)
      cbn [Model.step]. destruct (next_service_time cfg s now); cbn [fst]; (apply Hquiet; [reflexivity|intros E; auto|intros E; auto]).
    - (* reset *)
      apply Hquiet; [reflexivity| |]; intros E; rewrite E in Hst; destruct (s_st s); discriminate.
  Qed.

  Theorem run_K X : forall h (s : state) sl,
    WFX s -> HS s -> PRS s -> Forall ok_event h -> Forall user_ok h -> Forall not_open h -> K X s sl ->
    K X (fst (run s h)) (sl ++ encodes (run_olog s h)).
  Proof.
    induction h as [|e r IH]; intros s sl HW HH HR Hev Hus Hno HK; cbn [Model.run AliasRunLog.run_olog]; [cbn; rewrite app_nil_r; exact HK|].
    inversion Hev as [|? ? He Hevr]; subst. inversion Hus as [|? ? Hu Hur]; subst. inversion Hno as [|? ? Hn Hnr]; subst.
    pose proof (WF_step enc enc_reset enc_call enc_done dec dec_init dec_feed ores ores_reset ores_resolve ires ires_reset ires_resolve v_out v_in cfg HC Hcfg s e HW He) as HW1.
    pose proof (HS_step enc enc_reset enc_call enc_done dec dec_init dec_feed ores ores_reset ores_resolve ires ires_reset ires_resolve v_out v_in cfg s e (proj1 HW) HH Hu) as HH1.
    pose proof (PRS_step enc enc_reset enc_call enc_done dec dec_init dec_feed ores ores_reset ores_resolve ires ires_reset ires_resolve v_out v_in cfg s e HR) as HR1.
    pose proof (step_K X s e sl HW HH HR Hu Hn HK) as HK1.
    destruct (step s e) as [s1 o]. cbn [fst] in *. specialize (IH s1 _ HW1 HH1 HR1 Hevr Hur Hnr HK1).
    destruct (run s1 r) as [s2 os]. cbn [fst] in *. rewrite encodes_app, app_assoc. exact IH.
  Qed.

  (* ================= the theorem: one connection of a history from the initial state ================= *)
  Theorem connect_first (o : ores) (i : ires) h1 now dl h2 :
    ores_inv HC o -> ires_inv HC i ->
    Forall ok_event (h1 ++ EvOpen now dl :: h2) -> Forall user_ok (h1 ++ EvOpen now dl :: h2) -> Forall not_open h2 ->
    let s0 := fst (run (init o i) h1) in
    let s1 := fst (run (init o i) (h1 ++ [EvOpen now dl])) in
    match encodes (run_olog s1 h2) with
    | [] => True
    | x :: rest => x = (create_connect cfg s0, no_resolution) /\ Forall nonconnect rest
    end.
  Proof.
    intros Ho Hi Hev Hus Hno. cbv zeta.
    apply Forall_app in Hev. destruct Hev as [Hev1 Hev2]. inversion Hev2 as [|? ? He Hev3]; subst.
    apply Forall_app in Hus. destruct Hus as [Hus1 Hus2]. inversion Hus2 as [|? ? Hu Hus3]; subst.
    set (s0 := fst (run (init o i) h1)).
    destruct (reachable_hs enc enc_reset enc_call enc_done dec dec_init dec_feed ores ores_reset ores_resolve ires ires_reset ires_resolve v_out v_in cfg HC Hcfg o i h1 Ho Hi Hev1 Hus1) as (HW0 & HH0).
    fold s0 in HW0, HH0.
    assert (HR0 : PRS s0) by (apply PRS_run; apply PRS_init).
    assert (E1 : fst (run (init o i) (h1 ++ [EvOpen now dl])) = fst (step s0 (EvOpen now dl))).
    { rewrite (run_app enc enc_reset enc_call enc_done dec dec_init dec_feed ores ores_reset ores_resolve ires ires_reset ires_resolve v_out v_in cfg).
      fold s0. cbn [Model.run]. destruct (step s0 (EvOpen now dl)) as [sx ox]. reflexivity. }
    rewrite E1. set (s1 := fst (step s0 (EvOpen now dl))).
    pose proof (WF_step enc enc_reset enc_call enc_done dec dec_init dec_feed ores ores_reset ores_resolve ires ires_reset ires_resolve v_out v_in cfg HC Hcfg s0 _ HW0 He) as HW1.
    pose proof (HS_step enc enc_reset enc_call enc_done dec dec_init dec_feed ores ores_reset ores_resolve ires ires_reset ires_resolve v_out v_in cfg s0 _ (proj1 HW0) HH0 Hu) as HH1.
    pose proof (PRS_step enc enc_reset enc_call enc_done dec dec_init dec_feed ores ores_reset ores_resolve ires ires_reset ires_resolve v_out v_in cfg s0 (EvOpen now dl) HR0) as HR1.
    fold s1 in HW1, HH1, HR1.
    set (X := (create_connect cfg s0, no_resolution)).
    assert (HK1 : K X s1 []).
    { split; [exact I|]. unfold s1. cbn [Model.step]. unfold out_of_res.
      destruct (pstate_eqb (s_st s0) Disconnected) eqn:Ed.
      - assert (Ed' : s_st s0 = Disconnected) by (destruct (s_st s0); cbn in Ed; congruence). clear Ed. rename Ed' into Ed.
        destruct (opened_creates_the_connect enc dec dec_init ores ires cfg s0 dl Ed) as (O1 & O2 & O3 & O4). cbv zeta in O1, O2, O3, O4.
        assert (Eo : r_out (net_opened dec_init cfg s0 dl) = Ok tt) by (unfold net_opened; rewrite Ed; reflexivity).
        rewrite Eo. cbn [fst halt_on_error]. split; [|unfold net_opened; rewrite Ed; cbn; discriminate].
        intros _. unfold PCK. split; [exact O3|]. split; [reflexivity|]. left. split; [reflexivity|]. split; [|rewrite O2; discriminate].
        unfold net_opened. rewrite Ed. reflexivity.
      - unfold net_opened. rewrite Ed. cbn. split; discriminate. }
    pose proof (run_K X h2 s1 [] HW1 HH1 HR1 Hev3 Hus3 Hno HK1) as (Hshape & _). cbn [app] in Hshape. exact Hshape.
  Qed.
End Connect.
