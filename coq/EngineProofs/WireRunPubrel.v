(* C07 / wire level: the PUBREL slot of an operation never holds a CONNECT packet.
   [PF s s'] = every operation of s' whose PUBREL slot holds a CONNECT packet is such an operation of s under the same
   id.  Proved for EVERY function of Engine/Model.v and every event on ARBITRARY states (the proof scripts are those of
   HandshakeRunFrame.v / HandshakeRunFrame2.v for the relation KF, the predicate "the operation's own packet is a
   CONNECT" replaced by "the PUBREL slot holds a CONNECT": operations are only removed, updated by functions that
   keep the slot, clear it or store a PUBREL packet, or created with an empty slot).  Hence in every reachable state
   the packet seated for an operation (its PUBREL slot if set, else its own packet) is a CONNECT only if the
   operation's own packet is. *)
From GM Require Import Base.Prelude Base.Outcome Codec.Packets Codec.Settings Engine.Model
  EngineProofs.AssocLemmas EngineProofs.WFLemmas EngineProofs.HandshakeRunTrace EngineProofs.HandshakeRunFrame.
From RecordUpdate Require Import RecordSet.
Import RecordSetNotations.
Open Scope N_scope.
#[local] Set Default Proof Using "Type".

(* the four component types are implicit in the engine functions, locally to this file *)
#[local] Arguments init {enc dec} _ {ores ires} _ _.
#[local] Arguments release {enc dec ores ires} _ _ _ _.
#[local] Arguments disconnect_completion {enc dec ores ires} _ _.
#[local] Arguments fail_op {enc dec ores ires} _ _ _ _.
#[local] Arguments ping_extension {enc dec ores ires} _ _.
#[local] Arguments succeed_op {enc dec ores ires} _ _ _ _.
#[local] Arguments fail_all {enc dec ores ires} _ _ _ _.
#[local] Arguments succeed_all {enc dec ores ires} _ _ _.
#[local] Arguments andthen {enc dec ores ires} _ _.
#[local] Arguments try_ {enc dec ores ires} _ _.
#[local] Arguments pure {enc dec ores ires} _.
#[local] Arguments create_operation {enc dec ores ires} _ _.
#[local] Arguments passes_now {enc dec ores ires} _ _ _.
#[local] Arguments user_event {enc dec ores ires} _ _ _ _.
#[local] Arguments create_connect {enc dec ores ires} _ _.
#[local] Arguments net_opened {enc dec} _ {ores ires} _ _ _.
#[local] Arguments op_exists {enc dec ores ires} _ _.
#[local] Arguments op_passes {enc dec ores ires} _ _ _.
#[local] Arguments partition_policy {enc dec ores ires} _ _ _.
#[local] Arguments closed_current {enc dec ores ires} _ _.
#[local] Arguments slow_start_init {enc dec ores ires} _ _.
#[local] Arguments update_retries {enc dec ores ires} _ _.
#[local] Arguments fail_exceeding {enc dec ores ires} _ _.
#[local] Arguments has_pubrel {enc dec ores ires} _ _.
#[local] Arguments net_closed_raw {enc dec ores ires} _ _.
#[local] Arguments net_closed {enc dec ores ires} _ _.
#[local] Arguments net_write_completion {enc dec ores ires} _ _.
#[local] Arguments acquire_free_pid {enc dec ores ires} _ _.
#[local] Arguments acquire_pid_for {enc dec ores ires} _ _.
#[local] Arguments unbind {enc dec ores ires} _ _.
#[local] Arguments passes_receive_max {enc dec ores ires} _ _.
#[local] Arguments throttled {enc dec ores ires} _ _.
#[local] Arguments has_pending_ack {enc dec ores ires} _.
#[local] Arguments dequeue {enc dec ores ires} _ _ _.
#[local] Arguments fully_written {enc dec ores ires} _ _.
#[local] Arguments service_keep_alive {enc dec ores ires} _ _ _.
#[local] Arguments process_ack_timeouts {enc dec ores ires} _ _ _.
#[local] Arguments halt_on_error {enc dec ores ires} _ _.
#[local] Arguments next_service_time {enc dec ores ires} _ _ _.
#[local] Arguments build_settings {enc dec ores ires} _ _ _.
#[local] Arguments apply_session {enc dec ores ires} _ _ _.
#[local] Arguments hres_of {enc dec ores ires} _ _.
#[local] Arguments pre_connack {enc dec ores ires} _.
#[local] Arguments sum_ss {enc dec ores ires} _.
#[local] Arguments handle_pingresp {enc dec ores ires} _.
#[local] Arguments handle_suback {enc dec ores ires} _ _ _.
#[local] Arguments handle_unsuback {enc dec ores ires} _ _ _.
#[local] Arguments publish_qos_of {enc dec ores ires} _ _.
#[local] Arguments handle_puback {enc dec ores ires} _ _ _.
#[local] Arguments handle_pubrec {enc dec ores ires} _ _ _.
#[local] Arguments handle_pubrel {enc dec ores ires} _ _.
#[local] Arguments handle_pubcomp {enc dec ores ires} _ _ _.
#[local] Arguments handle_publish {enc dec ores ires} _ _.
#[local] Arguments handle_disconnect {enc dec ores ires} _ _ _.
#[local] Arguments is_connect_op {enc dec ores ires} _ _.
#[local] Arguments connect_in_queue {enc dec ores ires} _.
#[local] Arguments reset {enc dec ores ires} _ _.
#[local] Arguments out_of_res {enc dec ores ires} _ _.
#[local] Arguments nst_queue {enc dec ores ires} _ _ _ _.
#[local] Arguments earliest_tmo {enc dec ores ires} _.
#[local] Arguments SeatStop {enc dec ores ires} _.
#[local] Arguments SeatContinue {enc dec ores ires} _ _.
#[local] Arguments SeatEncode {enc dec ores ires} _.


(* the PUBREL slot holds a CONNECT packet *)
Definition pq (o : op) : bool := match op_pubrel o with Some pr => is_connect pr | None => false end.

(* ---- operation tables ---- *)
Definition PT (l l' : list (N * op)) : Prop :=
  forall i o', lookup i l' = Some o' -> pq o' = true -> exists o, lookup i l = Some o /\ pq o = true.

Lemma PT_refl l : PT l l.
Proof. intros i o H C. eauto. Qed.

Lemma PT_trans l1 l2 l3 : PT l1 l2 -> PT l2 l3 -> PT l1 l3.
Proof. intros A B i o3 H C. destruct (B _ _ H C) as (o2 & H2 & C2). exact (A _ _ H2 C2). Qed.

Lemma PT_sub l l' : (forall i o, lookup i l' = Some o -> lookup i l = Some o) -> PT l l'.
Proof. intros S i o H C. eauto. Qed.

Lemma PT_remove k l : PT l (remove k l).
Proof. apply PT_sub. intros i o H. apply lookup_remove_inv in H. tauto. Qed.

Definition pkind (f : op -> op) : Prop := forall o, pq (f o) = true -> pq o = true.

Lemma PT_update k f l : pkind f -> PT l (update k f l).
Proof.
  intros Hf i o' H C. apply lookup_update_inv in H. destruct H as (o & Ho & [[_ ->]|[_ ->]]); eauto.
Qed.

Lemma PT_fold_update f ids : pkind f -> forall l, PT l (fold_left (fun ops id => update id f ops) ids l).
Proof.
  intros Hf. induction ids as [|a r IH]; intros l; cbn [fold_left]; [apply PT_refl|].
  eapply PT_trans; [apply PT_update; exact Hf|apply IH].
Qed.

Lemma PT_new k o l : pq o = false -> PT l (l ++ [(k, o)]).
Proof.
  intros Hn i o' H C. rewrite lookup_app in H. destruct (lookup i l) as [o1|] eqn:E.
  - inversion H; subst. eauto.
  - cbn in H. destruct (k =? i); [|discriminate]. inversion H; subst. congruence.
Qed.

Lemma PT_nil l : PT l [].
Proof. intros i o H. discriminate. Qed.

Lemma pkind_set_dup v : pkind (set_dup v).
Proof. intros o. unfold set_dup. destruct (op_packet o) eqn:E; cbn; auto. Qed.

Section PFrame.
  Variable enc : Type.
  Variable enc_reset : version -> packet -> resolution -> outcome enc.
  Variable enc_call : enc -> N -> N -> outcome (bytes * enc).
  Variable enc_done : enc -> bool.
  Variable dec : Type.
  Variable dec_init : dec.
  Variable dec_feed : version -> N -> dec -> bytes -> dec * list packet * outcome unit.
  Variable ores : Type.
  Variable ores_reset : ores -> N -> ores.
  Variable ores_resolve : ores -> option N -> bytes -> outcome (ores * resolution).
  Variable ires : Type.
  Variable ires_reset : ires -> ires.
  Variable ires_resolve : ires -> option N -> bytes -> outcome (ires * bytes).
  Variable v_out : option settings -> connect_opts -> resolution -> packet -> outcome unit.
  Variable v_in : option settings -> packet -> outcome unit.
  Variable cfg : config.

  Notation state := (state enc dec ores ires).
  Notation res := (res enc dec ores ires).
  Notation step := (step enc enc_reset enc_call enc_done dec dec_init dec_feed ores ores_reset ores_resolve
                         ires ires_reset ires_resolve v_out v_in cfg).
  Notation seat_current := (seat_current enc enc_reset dec ores ores_reset ores_resolve ires v_out cfg).
  Notation service_loop := (service_loop enc enc_reset enc_call enc_done dec ores ores_reset ores_resolve ires v_out cfg).
  Notation service_loop_t := (service_loop_t enc enc_reset enc_call enc_done dec ores ores_reset ores_resolve ires v_out cfg).
  Notation service_queue := (service_queue enc enc_reset enc_call enc_done dec ores ores_reset ores_resolve ires v_out cfg).
  Notation service := (service enc enc_reset enc_call enc_done dec ores ores_reset ores_resolve ires v_out cfg).
  Notation handle_connack := (handle_connack enc dec ores ores_reset ires ires_reset v_in cfg).
  Notation handle_packet := (handle_packet enc dec ores ores_reset ires ires_reset v_in cfg).
  Notation handle_packets := (handle_packets enc dec ores ores_reset ires ires_reset ires_resolve v_in cfg).
  Notation net_data := (net_data enc dec dec_feed ores ores_reset ires ires_reset ires_resolve v_in cfg).
  Notation encode_next := (encode_next enc enc_call enc_done dec ores ires).

  Definition PF (s s' : state) : Prop := PT (s_ops s) (s_ops s').
  Notation SUB := (SUB enc dec ores ires).

  Lemma PF_refl s : PF s s.
  Proof. apply PT_refl. Qed.
  Lemma PF_trans s1 s2 s3 : PF s1 s2 -> PF s2 s3 -> PF s1 s3.
  Proof. apply PT_trans. Qed.
  Lemma SUB_PF s s' : SUB s s' -> PF s s'.
  Proof. apply PT_sub. Qed.
  Lemma PF_ops (s s' : state) : s_ops s' = s_ops s -> PF s s'.
  Proof. unfold PF. intros ->. apply PT_refl. Qed.

  Lemma andthen_PF (s : state) (r : res) f : PF s (r_s r) -> (forall s1, PF s1 (r_s (f s1))) -> PF s (r_s (andthen r f)).
  Proof.
    intros H1 H2. unfold andthen. destruct (is_panic (r_out r)); [exact H1|].
    destruct (is_panic (r_out (f (r_s r)))); cbn [r_s]; eapply PF_trans; eauto.
  Qed.

  (* ---- user submissions ---- *)
  Lemma user_event_PF (s : state) p t : PF s (r_s (user_event cfg s p t)).
  Proof.
    unfold user_event, create_operation.
    set (o := new_op p _ _).
    set (s1 := s <| s_next_id := s_next_id s + 1 |> <| s_ops := s_ops s ++ [(s_next_id s, o)] |>).
    assert (H1 : PF s s1) by (apply PT_new; reflexivity).
    destruct (negb (passes_now cfg s1 p)).
    - cbn [r_s]. eapply PF_trans; [exact H1|apply SUB_PF, fail_op_sub].
    - destruct (is_disconnect p); exact H1.
  Qed.

  (* ---- the service loop ---- *)
  Lemma with_pid_kind pid p p' : with_pid pid p = Ok p' -> is_connect p' = false.
  Proof. destruct p; cbn; intros H; inversion H; reflexivity. Qed.

  Lemma acquire_pid_for_PF (s s' : state) id : acquire_pid_for s id = Ok s' -> PF s s'.
  Proof.
    unfold acquire_pid_for. destruct (lookup id (s_ops s)) as [o|]; [|discriminate].
    destruct (op_pid o); [intros H; inversion H; apply PF_refl|].
    destruct (negb (needs_pid (op_packet o))); [intros H; inversion H; apply PF_refl|].
    unfold acquire_free_pid. destruct (match first_gap _ _ _ with Some c => Some c | None => _ end) as [c|]; cbn; [|discriminate].
    destruct (with_pid c (op_packet o)) as [p'| |] eqn:Ew; cbn; [|discriminate|discriminate]. intros H; inversion H; subst.
    unfold PF. cbn. apply PT_update. intros o0. cbn. auto.
  Qed.

  Lemma seat_current_PF (s : state) m acc dn : PF s (seat_state _ _ _ _ (seat_current s m acc dn)).
  Proof.
    unfold Model.seat_current. destruct (s_cur s); [apply PF_refl|].
    assert (Hd : s_ops (fst (dequeue cfg s m)) = s_ops s).
    { unfold dequeue. repeat match goal with |- context [if ?b then _ else _] => destruct b; cbn end;
        repeat match goal with |- context [match ?l with [] => _ | _ :: _ => _ end] => destruct l; cbn end;
        repeat match goal with |- context [if ?b then _ else _] => destruct b; cbn end; reflexivity. }
    destruct (dequeue cfg s m) as [s1 next]. cbn [fst] in Hd. destruct next as [id|]; [|cbn; apply PF_ops; exact Hd].
    destruct (negb (op_exists (s1 <| s_cur := Some id |>) id)); [cbn; apply PF_ops; exact Hd|].
    destruct (acquire_pid_for (s1 <| s_cur := Some id |>) id) as [s3|k|site] eqn:Ea; [|cbn; apply PF_ops; exact Hd|cbn; apply PF_ops; exact Hd].
    apply acquire_pid_for_PF in Ea.
    assert (H3 : PF s s3) by (eapply PF_trans; [apply (PF_ops s (s1 <| s_cur := Some id |>)); exact Hd|exact Ea]).
    destruct (lookup id (s_ops s3)) as [o|]; [|exact H3].
    set (packet := match op_pubrel o with Some pr => pr | None => op_packet o end).
    assert (Hres : forall x : outcome (state * resolution),
              x = match packet with
                  | Publish pb => do (o', r) <- ores_resolve (s_ores s3) (pub_alias pb) (pub_topic pb) ; Ok (s3 <| s_ores := o' |>, r)
                  | _ => Ok (s3, no_resolution) end ->
              match x with Ok (s4, _) => s_ops s4 = s_ops s3 | _ => True end).
    { intros x ->. destruct packet; try reflexivity.
      destruct (ores_resolve _ _ _) as [[o' r]| |]; cbn; try exact I. reflexivity. }
    specialize (Hres _ eq_refl).
    destruct (match packet with Publish pb => _ | _ => _ end) as [[s4 r]|k|site]; [|exact H3|exact H3].
    assert (H4 : PF s s4) by (eapply PF_trans; [exact H3|apply PF_ops; exact Hres]).
    destruct (v_out (s_settings s4) (cf_connect cfg) r packet) as [u|k|site]; [| |exact H4].
    - destruct (enc_reset (cf_version cfg) packet r); cbn; exact H4.
    - match goal with |- context [fail_op cfg ?sx id k] => pose proof (fail_op_sub enc dec ores ires cfg sx id k) as Hf; set (rf := fail_op cfg sx id k) in * end.
      assert (Hq : PF s (r_s rf)).
      { eapply PF_trans; [|apply SUB_PF; exact Hf]. eapply PF_trans; [exact H4|]. apply PF_ops. destruct (r_alias r); reflexivity. }
      destruct (r_out rf); cbn; exact Hq.
  Qed.

  Lemma fully_written_PF (s s' : state) now : fully_written s now = Ok s' -> PF s s'.
  Proof.
    unfold fully_written. destruct (s_cur s) as [id|]; [|discriminate]. destruct (lookup id (s_ops s)) as [o|]; [|discriminate].
    assert (Hk : pkind (fun o : op => o <| op_ext := Some now |>)) by (intros o0; cbn; auto).
    destruct (if op_user o then op_timeout o else None) as [d|]; [destruct (IMAX <? now + d)|];
      destruct (op_packet o) as [| |pb| | | | | | | | | | | |]; cbn; try destruct (pub_qos pb =? 0); cbn;
      intros H; inversion H; unfold PF; cbn; apply PT_update; exact Hk.
  Qed.

  Lemma encode_next_PF now cap fill (s5 : state) acc dn :
    match encode_next now cap fill s5 acc dn with
    | inl r => PF s5 (sr_s r)
    | inr (s7, _) => PF s5 s7
    end.
  Proof.
    unfold HandshakeRunTrace.encode_next. destruct (s_cur s5) as [id|]; [|apply PF_refl].
    destruct (negb (op_exists s5 id)); [apply PF_refl|]. destruct (s_enc s5) as [e|]; [|apply PF_refl].
    destruct (enc_call e (fill + len acc) cap) as [[out e']|k|site]; [|apply PF_refl|apply PF_refl].
    cbv zeta. destruct (enc_done e'); [|apply PF_ops; reflexivity].
    destruct (fully_written (s5 <| s_enc := Some e' |>) now) as [s7|k|site] eqn:Ef; [|apply PF_ops; reflexivity|apply PF_ops; reflexivity].
    apply fully_written_PF in Ef. exact Ef.
  Qed.

  Lemma service_loop_PF : forall f (s : state) m now cap fill acc dn,
    PF s (sr_s (service_loop f s m now cap fill acc dn)).
  Proof.
    intros f s m now cap fill acc dn. rewrite <- service_loop_t_fst. revert s m now cap fill acc dn.
    induction f as [|f IH]; intros s m now cap fill acc dn; cbn [HandshakeRunTrace.service_loop_t]; [apply PF_refl|].
    destruct (negb (pstate_eqb (s_st s) PendingConnack || pstate_eqb (s_st s) Connected)); [apply PF_refl|].
    pose proof (seat_current_PF s m acc dn) as Hs.
    destruct (seat_current s m acc dn) as [r|s5 dn'|s5]; cbn [seat_state fst] in *; [exact Hs|eapply PF_trans; [exact Hs|apply IH]|].
    pose proof (encode_next_PF now cap fill s5 acc dn) as He.
    destruct (encode_next now cap fill s5 acc dn) as [r|[s7 acc']]; cbn [fst]; [eapply PF_trans; eauto|].
    eapply PF_trans; [exact Hs|]. eapply PF_trans; [exact He|apply IH].
  Qed.

  Lemma service_queue_PF (s : state) m now cap fill : PF s (sr_s (service_queue s m now cap fill)).
  Proof.
    unfold Model.service_queue. cbv zeta.
    match goal with |- context [service_loop ?f s m now cap fill [] []] => pose proof (service_loop_PF f s m now cap fill [] []) as H;
      destruct (sr_bytes (service_loop f s m now cap fill [] [])) end; exact H.
  Qed.

  Lemma service_keep_alive_PF (s s' : state) now : service_keep_alive cfg s now = Ok s' -> PF s s'.
  Proof.
    unfold service_keep_alive. destruct (s_ping_to s) as [pt|]; [destruct (pt <=? now); [discriminate|intros H; inversion H; apply PF_refl]|].
    destruct (s_next_ping s) as [np|]; [|intros H; inversion H; apply PF_refl].
    destruct (np <=? now); [|intros H; inversion H; apply PF_refl].
    unfold create_operation. cbn. destruct (s_settings s) as [st|]; [|discriminate].
    unfold add_time. destruct (IMAX <? _); cbn; [discriminate|].
    destruct (0 <? st_server_keep_alive st); intros H; inversion H; unfold PF; cbn; apply PT_new; reflexivity.
  Qed.

  Theorem service_PF (s : state) now cap fill : PF s (sr_s (service s now cap fill)).
  Proof.
    unfold Model.service. cbv zeta. cbn [sr_s]. unfold PF. rewrite halt_on_error_ops. fold (PF s).
    destruct (s_st s).
    - apply PF_refl.
    - destruct (s_connack_to s) as [t|]; [|apply PF_refl]. destruct (t <=? now); [apply PF_refl|apply service_queue_PF].
    - destruct (service_keep_alive cfg s now) as [s1|k|site] eqn:Ek; [|apply PF_refl|apply PF_refl].
      apply service_keep_alive_PF in Ek. pose proof (service_queue_PF s1 true now cap fill) as Hq.
      destruct (sr_out (service_queue s1 true now cap fill)); cbn [sr_s]; [|eapply PF_trans; eauto|eapply PF_trans; eauto].
      eapply PF_trans; [exact Ek|]. eapply PF_trans; [exact Hq|]. apply SUB_PF, process_ack_timeouts_sub.
    - cbn [sr_s]. apply SUB_PF, process_ack_timeouts_sub.
    - apply PF_refl.
  Qed.
End PFrame.
