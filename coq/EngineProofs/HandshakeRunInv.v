(* C07: the handshake invariant HS over runs.
   HS s = in PendingConnack: every CONNECT operation is in one of the three places (CP) and the places hold at
          most the one CONNECT of this connection attempt (J); in Halted: CP; otherwise: no CONNECT operation
          exists at all (NC).
   HS_init, HS_step (from a well-formed state, for events that do not submit a CONNECT packet), HS_run. *)
From GM Require Import Base.Prelude Base.Outcome Codec.Packets Codec.Settings Engine.Model
  EngineProofs.AssocLemmas EngineProofs.PacketIds EngineProofs.WFLemmas EngineProofs.WFDefs EngineProofs.WFCore
  EngineProofs.WFComplete EngineProofs.WFClose EngineProofs.WFClose2 EngineProofs.WFEvents EngineProofs.WFStep
  EngineProofs.HandshakeRunTrace EngineProofs.HandshakeRunFrame EngineProofs.HandshakeRunFrame2 EngineProofs.HandshakeRunSt
  EngineProofs.HandshakeRunClose EngineProofs.HandshakeRunPC.
From RecordUpdate Require Import RecordSet.
Import RecordSetNotations.
Open Scope N_scope.

(* the four component types are implicit in the engine functions, locally to this file *)
#[local] Arguments init {enc dec} _ {ores ires} _ _.
#[local] Arguments release {enc dec ores ires} _ _ _ _.
#[local] Arguments disconnect_completion {enc dec ores ires} _ _.
#[local] Arguments fail_op {enc dec ores ires} _ _ _ _.
#[local] Arguments ping_extension {enc dec ores ires} _ _.
#[local] Arguments succeed_op {enc dec ores ires} _ _ _ _.
#[local] Arguments fail_all {enc dec ores ires} _ _ _ _.
#[local] Arguments succeed_all {enc dec ores ires} _ _ _.
#[local] Arguments andthen {enc dec ores ires} _ _.
#[local] Arguments try_ {enc dec ores ires} _ _.
#[local] Arguments pure {enc dec ores ires} _.
#[local] Arguments create_operation {enc dec ores ires} _ _.
#[local] Arguments passes_now {enc dec ores ires} _ _ _.
#[local] Arguments user_event {enc dec ores ires} _ _ _ _.
#[local] Arguments create_connect {enc dec ores ires} _ _.
#[local] Arguments net_opened {enc dec} _ {ores ires} _ _ _.
#[local] Arguments op_exists {enc dec ores ires} _ _.
#[local] Arguments op_passes {enc dec ores ires} _ _ _.
#[local] Arguments partition_policy {enc dec ores ires} _ _ _.
#[local] Arguments closed_current {enc dec ores ires} _ _.
#[local] Arguments slow_start_init {enc dec ores ires} _ _.
#[local] Arguments update_retries {enc dec ores ires} _ _.
#[local] Arguments fail_exceeding {enc dec ores ires} _ _.
#[local] Arguments has_pubrel {enc dec ores ires} _ _.
#[local] Arguments net_closed_raw {enc dec ores ires} _ _.
#[local] Arguments net_closed {enc dec ores ires} _ _.
#[local] Arguments net_write_completion {enc dec ores ires} _ _.
#[local] Arguments acquire_free_pid {enc dec ores ires} _ _.
#[local] Arguments acquire_pid_for {enc dec ores ires} _ _.
#[local] Arguments unbind {enc dec ores ires} _ _.
#[local] Arguments passes_receive_max {enc dec ores ires} _ _.
#[local] Arguments throttled {enc dec ores ires} _ _.
#[local] Arguments has_pending_ack {enc dec ores ires} _.
#[local] Arguments dequeue {enc dec ores ires} _ _ _.
#[local] Arguments fully_written {enc dec ores ires} _ _.
#[local] Arguments service_keep_alive {enc dec ores ires} _ _ _.
#[local] Arguments process_ack_timeouts {enc dec ores ires} _ _ _.
#[local] Arguments halt_on_error {enc dec ores ires} _ _.
#[local] Arguments next_service_time {enc dec ores ires} _ _ _.
#[local] Arguments build_settings {enc dec ores ires} _ _ _.
#[local] Arguments apply_session {enc dec ores ires} _ _ _.
#[local] Arguments hres_of {enc dec ores ires} _ _.
#[local] Arguments pre_connack {enc dec ores ires} _.
#[local] Arguments sum_ss {enc dec ores ires} _.
#[local] Arguments handle_pingresp {enc dec ores ires} _.
#[local] Arguments handle_suback {enc dec ores ires} _ _ _.
#[local] Arguments handle_unsuback {enc dec ores ires} _ _ _.
#[local] Arguments publish_qos_of {enc dec ores ires} _ _.
#[local] Arguments handle_puback {enc dec ores ires} _ _ _.
#[local] Arguments handle_pubrec {enc dec ores ires} _ _ _.
#[local] Arguments handle_pubrel {enc dec ores ires} _ _.
#[local] Arguments handle_pubcomp {enc dec ores ires} _ _ _.
#[local] Arguments handle_publish {enc dec ores ires} _ _.
#[local] Arguments handle_disconnect {enc dec ores ires} _ _ _.
#[local] Arguments is_connect_op {enc dec ores ires} _ _.
#[local] Arguments connect_in_queue {enc dec ores ires} _.
#[local] Arguments reset {enc dec ores ires} _ _.
#[local] Arguments out_of_res {enc dec ores ires} _ _.
#[local] Arguments nst_queue {enc dec ores ires} _ _ _ _.
#[local] Arguments earliest_tmo {enc dec ores ires} _.
#[local] Arguments SeatStop {enc dec ores ires} _.
#[local] Arguments SeatContinue {enc dec ores ires} _ _.
#[local] Arguments SeatEncode {enc dec ores ires} _.


Section Inv.
  Variable enc : Type.
  Variable enc_reset : version -> packet -> resolution -> outcome enc.
  Variable enc_call : enc -> N -> N -> outcome (bytes * enc).
  Variable enc_done : enc -> bool.
  Variable dec : Type.
  Variable dec_init : dec.
  Variable dec_feed : version -> N -> dec -> bytes -> dec * list packet * outcome unit.
  Variable ores : Type.
  Variable ores_reset : ores -> N -> ores.
  Variable ores_resolve : ores -> option N -> bytes -> outcome (ores * resolution).
  Variable ires : Type.
  Variable ires_reset : ires -> ires.
  Variable ires_resolve : ires -> option N -> bytes -> outcome (ires * bytes).
  Variable v_out : option settings -> connect_opts -> resolution -> packet -> outcome unit.
  Variable v_in : option settings -> packet -> outcome unit.
  Variable cfg : config.

  Notation state := (state enc dec ores ires).
  Notation res := (res enc dec ores ires).
  Notation step := (step enc enc_reset enc_call enc_done dec dec_init dec_feed ores ores_reset ores_resolve
                         ires ires_reset ires_resolve v_out v_in cfg).
  Notation run := (run enc enc_reset enc_call enc_done dec dec_init dec_feed ores ores_reset ores_resolve
                       ires ires_reset ires_resolve v_out v_in cfg).
  Notation service := (service enc enc_reset enc_call enc_done dec ores ores_reset ores_resolve ires v_out cfg).
  Notation handle_connack := (handle_connack enc dec ores ores_reset ires ires_reset v_in cfg).
  Notation handle_packet := (handle_packet enc dec ores ores_reset ires ires_reset v_in cfg).
  Notation handle_packets := (handle_packets enc dec ores ores_reset ires ires_reset ires_resolve v_in cfg).
  Notation net_data := (net_data enc dec dec_feed ores ores_reset ires ires_reset ires_resolve v_in cfg).
  Notation KF := (KF enc dec ores ires).
  Notation places := (places enc dec ores ires).
  Notation CP := (CP enc dec ores ires).
  Notation NC := (NC enc dec ores ires).
  Notation J := (J enc dec ores ires cfg).
  Notation PCI := (PCI enc dec ores ires cfg).
  Notation conn_op := (conn_op enc dec ores ires cfg).
  Notation ST := (ST enc dec ores ires).

  Ltac splits := repeat match goal with |- _ /\ _ => split end.

  Definition HS (s : state) : Prop :=
    match s_st s with
    | PendingConnack => CP s /\ J s
    | Halted => CP s
    | _ => NC s
    end.

  (* events that do not ask the engine to send a CONNECT packet as a user operation *)
  Definition user_ok (e : event) : Prop := match e with EvUser _ p _ => is_connect p = false | _ => True end.

  Lemma HS_CP (s : state) : HS s -> CP s.
  Proof. unfold HS. destruct (s_st s); try tauto; apply NC_CP. Qed.

  Lemma HS_of_NC (s : state) : NC s -> s_st s <> PendingConnack -> HS s.
  Proof. intros H Hn. unfold HS. destruct (s_st s); try exact H; [congruence|apply NC_CP; exact H]. Qed.

  (* ---- the protocol-state table for [step] ---- *)
  Theorem step_st (s : state) e : WFS s -> st_step (s_st s) e (s_st (fst (step s e))).
  Proof.
    intros HW. destruct e as [now p t|now dl|now|now data|now|now cap fill|now|now]; cbn [Model.step].
    - unfold out_of_res. cbn [fst HandshakeRunSt.st_step]. exact (user_event_ST _ _ _ _ cfg s p t).
    - unfold out_of_res. cbn [fst HandshakeRunSt.st_step]. apply net_opened_st.
    - unfold out_of_res. cbn [fst HandshakeRunSt.st_step]. destruct (pstate_eqb (s_st s) Disconnected) eqn:Est.
      + apply pstate_eqb_eq in Est. rewrite (net_closed_disconnected cfg s Est), Est. reflexivity.
      + apply pstate_eqb_neq in Est. destruct (net_closed_spec cfg s HW Est) as (E & _ & S1 & _). rewrite E. cbn [halt_on_error].
        rewrite S1. destruct (s_st s); try reflexivity. congruence.
    - cbn [fst]. apply (net_data_st enc dec dec_feed ores ores_reset ires ires_reset ires_resolve v_in cfg s now data).
    - unfold out_of_res. cbn [fst]. exact (net_write_completion_st enc dec ores ires cfg s).
    - cbn [fst]. apply service_st.
    - destruct (next_service_time cfg s now); reflexivity.
    - unfold out_of_res. cbn [fst HandshakeRunSt.st_step]. apply reset_st.
  Qed.

  (* ---- completions while the CONNACK is awaited ---- *)
  Definition pcview (s : state) := (s_st s, s_hq s, s_cur s, s_pwco s, s_settings s, s_connected_before s).

  Lemma release_pc (s : state) id o : s_st s = PendingConnack ->
    exists s', release cfg s id o = Ok s' /\ s_ops s' = remove id (s_ops s) /\ pcview s' = pcview s.
  Proof.
    intros Hst. unfold release.
    assert (Hc : forall s2 : state, s_st s2 = PendingConnack -> cf_drain_one cfg && pstate_eqb (s_st s2) Connected && negb (op_ss o =? 0) = false).
    { intros s2 ->. cbn. rewrite andb_false_r. reflexivity. }
    destruct (op_pid o) as [p|]; cbv zeta; rewrite Hc by exact Hst; eexists; splits; reflexivity.
  Qed.

  Lemma fail_op_pc' (s : state) id e : s_st s = PendingConnack ->
    let r := fail_op cfg s id e in
    pcview (r_s r) = pcview s /\ (forall i, i <> id -> getop (r_s r) i = getop s i).
  Proof.
    intros Hst. unfold fail_op. destruct (lookup id (s_ops s)) as [o|]; [|cbn; auto].
    destruct (release_pc s id o Hst) as (s1 & -> & Ho & Hv).
    assert (Hst1 : s_st s1 = PendingConnack) by (unfold pcview in Hv; inversion Hv; congruence).
    unfold disconnect_completion. rewrite Hst1. cbn [pstate_eqb].
    assert (Hk : forall i, i <> id -> getop s1 i = getop s i) by (intros i Hi; unfold getop; rewrite Ho; apply lookup_remove_neq; exact Hi).
    destruct (is_disconnect (op_packet o)); [|destruct (op_user o)]; cbn; auto.
  Qed.

  Lemma succeed_op_pc (s : state) id resp : s_st s = PendingConnack ->
    let r := succeed_op cfg s id resp in
    pcview (r_s r) = pcview s /\ (forall i, i <> id -> getop (r_s r) i = getop s i) /\
    (forall o, getop s id = Some o -> getop (r_s r) id = None).
  Proof.
    intros Hst. unfold succeed_op, getop. destruct (lookup id (s_ops s)) as [o|] eqn:El; [|cbn; splits; auto; intros; discriminate].
    destruct (release_pc s id o Hst) as (s1 & -> & Ho & Hv).
    assert (Hv' : pcview (ping_extension s1 o) = pcview s).
    { rewrite <- Hv. unfold ping_extension.
      destruct (match op_packet o with Subscribe _ | Unsubscribe _ => op_ext o | Publish pb => _ | _ => None end); [|reflexivity].
      destruct (s_settings s1); [|reflexivity]. destruct (s_next_ping s1); [|reflexivity]. destruct (_ <? _); reflexivity. }
    assert (Hops : s_ops (ping_extension s1 o) = remove id (s_ops s)) by (rewrite ping_extension_ops; exact Ho).
    set (s1' := ping_extension s1 o) in *. clearbody s1'.
    assert (Hst1 : s_st s1' = PendingConnack) by (unfold pcview in Hv'; inversion Hv'; congruence).
    unfold disconnect_completion. rewrite Hst1. cbn [pstate_eqb].
    assert (Hk : forall i, i <> id -> lookup i (s_ops s1') = lookup i (s_ops s)) by (intros i Hi; rewrite Hops; apply lookup_remove_neq; exact Hi).
    assert (Hg : forall o0 : op, Some o = Some o0 -> lookup id (s_ops s1') = None) by (intros _ _; rewrite Hops; apply lookup_remove_eq).
    destruct (is_disconnect (op_packet o)); [|destruct (op_user o); [destruct (success_value o resp)|]]; cbn; auto.
  Qed.

  Lemma pcview_fields (s s' : state) : pcview s' = pcview s ->
    s_st s' = s_st s /\ places s' = places s /\ s_settings s' = s_settings s /\ s_connected_before s' = s_connected_before s.
  Proof. unfold pcview, HandshakeRunClose.places. intros H. inversion H. splits; congruence. Qed.

  (* J and CP across a change of the operation table that keeps the operations of the places *)
  Lemma PCI_frame (s s' : state) :
    PCI s -> pcview s' = pcview s -> KF s s' -> (forall i, In i (places s) -> getop s' i = getop s i) -> PCI s'.
  Proof.
    intros (Hst & (Hlen & Hpl) & HCP) Hv HK Hkeep. destruct (pcview_fields _ _ Hv) as (V1 & V2 & V3 & V4).
    split; [congruence|]. split; [split|].
    - rewrite V2. exact Hlen.
    - rewrite V2. intros i Hi. destruct (Hpl i Hi) as (o & Ho & Hpk & Hu & Hpr). exists o.
      rewrite (Hkeep i Hi), (create_connect_frame _ _ _ _ cfg s s' V3 V4). auto.
    - intros i o' Hi Hk. rewrite V2. destruct (HK i o' Hi Hk) as (o & Ho & Hko). exact (HCP i o Ho Hko).
  Qed.

  (* ---- user submissions outside Connected never reach the high-priority queue ---- *)
  Lemma user_event_pc (s : state) p t :
    s_st s <> Connected ->
    let r := user_event cfg s p t in
    (s_hq (r_s r), s_cur (r_s r), s_pwco (r_s r), s_settings (r_s r), s_connected_before (r_s r)) =
    (s_hq s, s_cur s, s_pwco s, s_settings s, s_connected_before s) /\
    (forall i, i <> s_next_id s -> getop (r_s r) i = getop s i).
  Proof.
    intros Hst. unfold user_event, create_operation.
    set (o := new_op p _ _).
    set (s1 := s <| s_next_id := s_next_id s + 1 |> <| s_ops := s_ops s ++ [(s_next_id s, o)] |>).
    assert (H1 : forall i, i <> s_next_id s -> getop s1 i = getop s i).
    { intros i Hi. unfold getop, s1. cbn. rewrite lookup_app. destruct (lookup i (s_ops s)); [reflexivity|]. cbn.
      destruct (s_next_id s =? i) eqn:E; [lia|reflexivity]. }
    assert (Hp : passes_now cfg s1 p = passes_policy (cf_policy cfg) p).
    { unfold passes_now. change (s_st s1) with (s_st s). destruct (s_st s); try reflexivity. congruence. }
    rewrite Hp. destruct (passes_policy (cf_policy cfg) p) eqn:Epol; cbn [negb].
    - assert (Hd : is_disconnect p = false) by (destruct p; try reflexivity; discriminate).
      rewrite Hd. cbn. auto.
    - cbn [r_s]. pose proof (fail_op_pl enc dec ores ires cfg s1 (s_next_id s) EOfflineQueuePolicyFailed) as Hpl.
      set (r := fail_op cfg s1 (s_next_id s) EOfflineQueuePolicyFailed) in *.
      destruct (pl_fields _ _ _ _ _ _ Hpl) as (P1 & P2 & P3).
      assert (Hrest : s_settings (r_s r) = s_settings s /\ s_connected_before (r_s r) = s_connected_before s /\
                      forall i, i <> s_next_id s -> getop (r_s r) i = getop s1 i).
      { unfold r, fail_op. destruct (lookup (s_next_id s) (s_ops s1)) as [o1|]; [|cbn; auto].
        destruct (release cfg s1 (s_next_id s) o1) as [s2|k|site] eqn:Er; [|cbn; auto|cbn; auto].
        assert (Hs2 : s_settings s2 = s_settings s /\ s_connected_before s2 = s_connected_before s /\ s_ops s2 = remove (s_next_id s) (s_ops s1)).
        { unfold release in Er. destruct (op_pid o1); cbn in Er;
            repeat match type of Er with context [if ?b then _ else _] => destruct b; cbn in Er end; inversion Er; cbn; auto. }
        destruct Hs2 as (A & B & C).
        assert (Hk : forall i, i <> s_next_id s -> getop s2 i = getop s1 i) by (intros i Hi; unfold getop; rewrite C; apply lookup_remove_neq; exact Hi).
        unfold disconnect_completion.
        destruct (is_disconnect (op_packet o1)); [destruct (pstate_eqb (s_st s2) PendingDisconnect)|destruct (op_user o1)]; cbn; auto. }
      destruct Hrest as (R1 & R2 & R3). split; [change (s_hq s1) with (s_hq s) in P1; change (s_cur s1) with (s_cur s) in P2;
        change (s_pwco s1) with (s_pwco s) in P3; congruence|].
      intros i Hi. rewrite (R3 i Hi). apply H1. exact Hi.
  Qed.

  Lemma places_lt (s : state) i : WFS s -> In i (places s) -> i < s_next_id s.
  Proof.
    intros HW Hi. apply (w_qlt _ _ HW). unfold inq. cbn. unfold HandshakeRunClose.places in Hi.
    apply in_app_or in Hi. destruct Hi as [Hi|Hi]; [tauto|]. apply in_app_or in Hi. destruct Hi as [Hi|Hi]; [|tauto].
    destruct (s_cur s) as [c|]; [|destruct Hi]. destruct Hi as [<-|[]]. tauto.
  Qed.

  Lemma pc_user (s : state) p t : WFS s -> PCI s -> is_connect p = false -> PCI (r_s (user_event cfg s p t)).
  Proof.
    intros HW HP Hp. pose proof HP as (Hst & _).
    assert (Hn : s_st s <> Connected) by congruence.
    destruct (user_event_pc s p t Hn) as (Hv & Hk). cbv zeta in Hv, Hk.
    eapply PCI_frame; [exact HP| |apply user_event_KF; exact Hp|].
    - unfold pcview. inversion Hv as [[V1 V2 V3 V4 V5]].
      destruct (user_event_ST _ _ _ _ cfg s p t) as [E|[E _]]; [|congruence]. rewrite E. reflexivity.
    - intros i Hi. apply Hk. pose proof (places_lt s i HW Hi). lia.
  Qed.

  Lemma CP_halt_inv (s : state) r : CP s -> CP (halt_on_error s r).
  Proof. apply CP_halt. Qed.

  (* ---- write completion while the CONNACK is awaited ---- *)
  Lemma pc_write (s : state) :
    PCI s ->
    let r := net_write_completion cfg s in
    CP (halt_on_error (r_s r) (r_out r)) /\ (s_st (halt_on_error (r_s r) (r_out r)) = PendingConnack -> J (halt_on_error (r_s r) (r_out r))).
  Proof.
    intros HP. pose proof HP as (Hst & (Hlen & Hpl) & HCP). cbv zeta. unfold net_write_completion. rewrite Hst. cbn [pstate_eqb orb].
    destruct (s_pwc s); cbn [negb].
    2:{ cbn. split; [eapply (CP_view _ _ _ _ s); [reflexivity|exact HCP]|discriminate]. }
    set (s1 := s <| s_pwc := false |> <| s_pwco := [] |>).
    assert (Hst1 : s_st s1 = PendingConnack) by exact Hst.
    assert (Hfin : forall sF : state, pcview sF = pcview s1 ->
              (forall i o, getop sF i = Some o -> getop s i = Some o /\ ~ In i (s_pwco s)) ->
              (forall i, In i (s_hq s ++ olist (s_cur s)) -> getop sF i = getop s i) -> forall out,
              CP (halt_on_error sF out) /\ (s_st (halt_on_error sF out) = PendingConnack -> J (halt_on_error sF out))).
    { intros sF Hv Hsub Hkeep out. destruct (pcview_fields _ _ Hv) as (V1 & V2 & V3 & V4).
      assert (Epl : places sF = s_hq s ++ olist (s_cur s)) by (rewrite V2; unfold HandshakeRunClose.places; cbn; rewrite app_nil_r; reflexivity).
      assert (HCF : CP sF).
      { intros i o Hi Hk. destruct (Hsub i o Hi) as (Hi0 & Hnp). specialize (HCP i o Hi0 Hk). rewrite Epl.
        unfold HandshakeRunClose.places in HCP. rewrite app_assoc in HCP. apply in_app_or in HCP. tauto. }
      assert (HJF : J sF).
      { split.
        - rewrite Epl. unfold HandshakeRunClose.places in Hlen. rewrite app_assoc, app_length in Hlen. lia.
        - rewrite Epl. intros i Hi. destruct (Hpl i) as (o & Ho & Hpk & Hu & Hpr).
          { unfold HandshakeRunClose.places. rewrite app_assoc. apply in_or_app. tauto. }
          exists o. rewrite (Hkeep i Hi), (create_connect_frame _ _ _ _ cfg s1 sF V3 V4). auto. }
      split; [apply CP_halt; exact HCF|]. destruct out; cbn [halt_on_error]; [intros _; exact HJF|discriminate|discriminate]. }
    unfold HandshakeRunClose.places in Hlen.
    destruct (s_pwco s) as [|c l] eqn:Epw.
    - cbn [succeed_all r_s r_out]. apply Hfin; [reflexivity|intros i o Hi; split; [exact Hi|intros []]|reflexivity].
    - assert (l = [] /\ s_hq s = [] /\ s_cur s = None).
      { rewrite !app_length in Hlen. cbn in Hlen. destruct l; [|cbn in Hlen; lia]. destruct (s_hq s); [|cbn in Hlen; lia].
        destruct (s_cur s); [cbn in Hlen; lia|auto]. }
      destruct H as (-> & Eh & Ec). cbn [succeed_all].
      destruct (succeed_op_pc s1 c None Hst1) as (S1 & S2 & S3). cbv zeta in S1, S2, S3.
      set (r1 := succeed_op cfg s1 c None) in *.
      assert (Hgoal : forall out, CP (halt_on_error (r_s r1) out) /\ (s_st (halt_on_error (r_s r1) out) = PendingConnack -> J (halt_on_error (r_s r1) out))).
      { apply Hfin; [exact S1| |rewrite Eh, Ec; intros i []].
        intros i o Hi. destruct (N.eq_dec i c) as [->|Hne].
        - exfalso. destruct (Hpl c) as (oc & Hoc & _); [unfold HandshakeRunClose.places; rewrite Epw; apply in_or_app; right; apply in_or_app; right; left; reflexivity|].
          rewrite (S3 oc Hoc) in Hi. discriminate.
        - rewrite (S2 i Hne) in Hi. split; [exact Hi|]. intros [E|[]]. congruence. }
      destruct (is_panic (r_out r1)); [apply Hgoal|]. cbn [r_s r_out is_panic]. apply Hgoal.
  Qed.

  (* ---- inbound data while the CONNACK is awaited ---- *)
  Lemma pre_connack_pc (s : state) : s_st s = PendingConnack -> pre_connack s = true.
  Proof. intros H. unfold pre_connack. rewrite H. reflexivity. Qed.

  Lemma handle_packet_pc_ok (s : state) now p :
    s_st s = PendingConnack -> h_out (handle_packet s now p) = Ok tt -> s_st (h_s (handle_packet s now p)) = Connected.
  Proof.
    intros Hst. pose proof (pre_connack_pc s Hst) as Hpre.
    destruct p as [c|c|p|a|a|a|a|sb|s0|un|u| | |d|au]; cbn [Model.handle_packet]; try discriminate.
    - unfold Model.handle_connack. rewrite Hst. cbn [pstate_eqb negb]. destruct (negb (ca_rc c =? 0)); [discriminate|].
      destruct (v_in None (Connack c)); [|discriminate|discriminate]. cbv zeta.
      match goal with |- context [apply_session cfg ?sx ?sp] => pose proof (apply_session_ST _ _ _ _ cfg sx sp) as Ha; set (r := apply_session cfg sx sp) in Ha |- *;
        assert (Hx : s_st sx = Connected) by (destruct (cf_drain_one cfg); reflexivity) end.
      assert (H : s_st (r_s r) = Connected) by (destruct Ha as [Ha|[Ha _]]; congruence).
      destruct (r_out r) as [[]|k|site]; cbn [h_s h_out]; [intros _; exact H|discriminate|discriminate].
    - unfold handle_publish. rewrite Hpre. discriminate.
    - unfold handle_puback. rewrite Hpre. discriminate.
    - unfold handle_pubrec. rewrite Hpre. discriminate.
    - unfold handle_pubrel. rewrite Hpre. discriminate.
    - unfold handle_pubcomp. rewrite Hpre. discriminate.
    - unfold handle_suback. rewrite Hpre. discriminate.
    - unfold handle_unsuback. rewrite Hpre. discriminate.
    - unfold handle_pingresp. rewrite Hst. discriminate.
    - unfold handle_disconnect. rewrite Hpre. discriminate.
  Qed.

  Lemma handle_packets_pc_stay now ps (s : state) dn ev :
    s_st s = PendingConnack -> h_out (handle_packets s now ps dn ev) = Ok tt ->
    s_st (h_s (handle_packets s now ps dn ev)) = PendingConnack -> h_s (handle_packets s now ps dn ev) = s.
  Proof.
    intros Hst. destruct ps as [|p rest]; cbn [Model.handle_packets]; [reflexivity|].
    assert (Hres : forall x : outcome (state * packet),
              x = match p with
                  | Publish pb => do (i', t) <- ires_resolve (s_ires s) (pub_alias pb) (pub_topic pb) ;
                                  Ok (s <| s_ires := i' |>, Publish (with_topic pb t))
                  | _ => Ok (s, p) end ->
              match x with Ok (s1, _) => s_st s1 = s_st s | _ => True end).
    { intros x ->. destruct p; try reflexivity. destruct (ires_resolve _ _ _) as [[i' t]| |]; cbn; try exact I. reflexivity. }
    specialize (Hres _ eq_refl).
    destruct (match p with Publish pb => _ | _ => _ end) as [[s1 p1]|k|site]; [|discriminate|discriminate].
    destruct (v_in (s_settings s1) p1); [|discriminate|discriminate].
    assert (Hst1 : s_st s1 = PendingConnack) by congruence.
    pose proof (handle_packet_pc_ok s1 now p1 Hst1) as Hc.
    destruct (h_out (handle_packet s1 now p1)) as [[]|k|site]; [|discriminate|discriminate].
    specialize (Hc eq_refl). intros Ho Hpc. exfalso.
    destruct (handle_packets_DT enc dec ores ores_reset ires ires_reset ires_resolve v_in cfg now rest
                (h_s (handle_packet s1 now p1)) (dn ++ h_done (handle_packet s1 now p1)) (ev ++ h_ev (handle_packet s1 now p1))) as [D _].
    unfold DT in D. rewrite Hc, Hpc in D. destruct D as [D|[D|[D _]]]; discriminate.
  Qed.

  Lemma ciq_false_NC (s : state) : CP s -> connect_in_queue s = false -> NC s.
  Proof.
    intros HCP Hq i o Hi. destruct (is_connect (op_packet o)) eqn:Ek; [exfalso|reflexivity].
    specialize (HCP i o Hi Ek). unfold connect_in_queue in Hq.
    apply orb_false_elim in Hq. destruct Hq as [Hq Hq3]. apply orb_false_elim in Hq. destruct Hq as [Hq1 Hq2].
    assert (Hop : is_connect_op s i = true) by (unfold is_connect_op; unfold getop in Hi; rewrite Hi; exact Ek).
    unfold HandshakeRunClose.places in HCP. apply in_app_or in HCP. destruct HCP as [H|H]; [|apply in_app_or in H; destruct H as [H|H]].
    - assert (existsb (is_connect_op s) (s_hq s) = true) by (apply existsb_exists; eauto). congruence.
    - destruct (s_cur s) as [c|]; [|destruct H]. destruct H as [<-|[]]. congruence.
    - assert (existsb (is_connect_op s) (s_pwco s) = true) by (apply existsb_exists; eauto). congruence.
  Qed.

  Lemma NC_halt (s : state) r : NC s -> NC (halt_on_error s r).
  Proof. intros H. destruct r; exact H. Qed.

  (* inbound data from any state satisfying HS *)
  Lemma HS_data (s : state) now data :
    WFS s -> HS s -> let h := net_data s now data in HS (halt_on_error (h_s h) (h_out h)).
  Proof.
    intros HW HH. cbv zeta.
    pose proof (step_st s (EvData now data) HW) as Hstep. cbn [Model.step fst] in Hstep.
    unfold Model.net_data in *.
    destruct (pstate_eqb (s_st s) Disconnected || pstate_eqb (s_st s) Halted) eqn:E1.
    { cbn. apply HS_CP in HH. exact HH. }
    destruct (pstate_eqb (s_st s) PendingConnack && connect_in_queue s) eqn:E2.
    { cbn. apply HS_CP in HH. exact HH. }
    assert (HNC : NC s).
    { unfold HS in HH. destruct (s_st s) eqn:Es; cbn in E1; try discriminate; try exact HH.
      cbn in E2. apply ciq_false_NC; tauto. }
    destruct (dec_feed _ _ _ _) as [[d' ps] r]. destruct r as [u|k|site].
    - set (s1 := s <| s_dec := d' |>) in *.
      pose proof (handle_packets_KF enc dec ores ores_reset ires ires_reset ires_resolve v_in cfg now ps s1 [] []) as HK.
      set (h := handle_packets s1 now ps [] []) in *.
      assert (HN : NC (halt_on_error (h_s h) (h_out h))) by (apply NC_halt; eapply NC_KF; [exact HNC|exact HK]).
      destruct (pstate_eqb (s_st (halt_on_error (h_s h) (h_out h))) PendingConnack) eqn:Epc.
      2:{ apply HS_of_NC; [exact HN|]. intros E. rewrite E in Epc. discriminate. }
      assert (Epc' : s_st (halt_on_error (h_s h) (h_out h)) = PendingConnack) by (destruct (s_st (halt_on_error (h_s h) (h_out h))); cbn in Epc; congruence).
      (* still awaiting the CONNACK: nothing was handled *)
      destruct (h_out h) as [[]|k|site] eqn:Eo; cbn [halt_on_error] in Epc' |- *; try discriminate.
      assert (Hs : s_st s = PendingConnack).
      { destruct (handle_packets_DT enc dec ores ores_reset ires ires_reset ires_resolve v_in cfg now ps s1 [] []) as [D _]. fold h in D.
        unfold DT in D. rewrite Epc' in D. change (s_st s1) with (s_st s) in D. destruct D as [D|[D|[_ D]]]; congruence. }
      pose proof (handle_packets_pc_stay now ps s1 [] [] Hs Eo Epc') as Hstay. fold h in Hstay. rewrite Hstay.
      unfold HS in HH |- *. change (s_st s1) with (s_st s). rewrite Hs in HH |- *. destruct HH as [A B].
      split; [eapply (CP_view _ _ _ _ s); [reflexivity|exact A]|eapply (J_view _ _ _ _ cfg s); [reflexivity|exact B]].
    - cbn. apply NC_CP. exact HNC.
    - cbn. apply NC_CP. exact HNC.
  Qed.

  (* ---- the step ---- *)
  Lemma HS_generic (s s' : state) : NC s -> KF s s' -> s_st s' <> PendingConnack -> HS s'.
  Proof. intros H K Hn. apply HS_of_NC; [eapply NC_KF; eauto|exact Hn]. Qed.

  Lemma HS_halted_same (s s' : state) : HS s -> s_st s' = Halted -> jview enc dec ores ires s' = jview enc dec ores ires s -> HS s'.
  Proof. intros H E V. unfold HS. rewrite E. eapply (CP_view _ _ _ _ s); [exact V|apply HS_CP; exact H]. Qed.

  Lemma st_not_pc (s : state) e :
    WFS s -> s_st s <> PendingConnack -> (s_st s = Disconnected -> match e with EvOpen _ _ => False | _ => True end) ->
    s_st (fst (step s e)) <> PendingConnack.
  Proof.
    intros HW Hn Ho. pose proof (step_st s e HW) as H. intros E. rewrite E in H.
    destruct e; cbn [HandshakeRunSt.st_step] in H; destruct (s_st s) eqn:Es; try (exact (Ho eq_refl)); try congruence; intuition congruence.
  Qed.

  Theorem HS_step (s : state) e : WF cfg s -> HS s -> user_ok e -> HS (fst (step s e)).
  Proof.
    intros [HW HP] HH He.
    destruct (s_st s) eqn:Est.
    - (* Disconnected *)
      assert (HN : NC s) by (unfold HS in HH; rewrite Est in HH; exact HH).
      destruct e as [now p t|now dl|now|now data|now|now cap fill|now|now].
      2:{ (* the connection opens: the one CONNECT of this attempt is created *)
          unfold WFP in HP. rewrite Est in HP. destruct HP as (_ & _ & Epw & Eh & _ & Ec).
          cbn [Model.step]. unfold out_of_res, net_opened. rewrite Est. cbn [pstate_eqb negb]. unfold create_operation. cbn [fst snd pure r_s r_out halt_on_error].
          set (s1 := s <| s_st := PendingConnack |> <| s_cur := None |> <| s_pwc := false |> <| s_dec := dec_init |>).
          set (o := new_op (create_connect cfg s1) false None).
          assert (Hfresh : lookup (s_next_id s) (s_ops s) = None).
          { apply lookup_none_not_in. intros Hin. pose proof (w_lt _ _ HW _ Hin) as Hlt. cbn in Hlt. lia. }
          unfold HS. cbn [s_st set]. cbn.
          assert (Hget : lookup (s_next_id s) (s_ops s ++ [(s_next_id s, o)]) = Some o).
          { rewrite lookup_app, Hfresh. cbn. rewrite N.eqb_refl. reflexivity. }
          split.
          - intros i o1 Hi Hk. unfold getop in Hi. cbn in Hi. rewrite lookup_app in Hi. destruct (lookup i (s_ops s)) as [o2|] eqn:E2.
            + inversion Hi; subst. rewrite (HN i o1 E2) in Hk. discriminate.
            + cbn in Hi. destruct (s_next_id s =? i) eqn:E; [|discriminate]. assert (i = s_next_id s) by lia. subst i.
              unfold HandshakeRunClose.places. cbn. left. reflexivity.
          - split; [unfold HandshakeRunClose.places; cbn; rewrite Eh, Epw; cbn; lia|].
            unfold HandshakeRunClose.places. cbn. rewrite Eh, Epw. cbn. intros i [<-|[]].
            exists o. unfold getop. cbn. splits; auto. }
      all: eapply HS_generic; [exact HN|apply step_KF; exact He|apply st_not_pc; [exact HW|congruence|intros _; exact I]].
    - (* PendingConnack *)
      assert (HPCI : PCI s) by (unfold HS in HH; rewrite Est in HH; split; [exact Est|tauto]).
      destruct e as [now p t|now dl|now|now data|now|now cap fill|now|now]; cbn [Model.step].
      + unfold out_of_res. cbn [fst]. destruct (pc_user s p t HW HPCI He) as (A & B & C). unfold HS. rewrite A. tauto.
      + unfold out_of_res, net_opened. rewrite Est. cbn [pstate_eqb negb orb andb fst r_s r_out h_s h_out sr_s sr_out halt_on_error]. apply (HS_halted_same s); [exact HH|reflexivity|reflexivity].
      + unfold out_of_res. cbn [fst]. assert (Hn : s_st s <> Disconnected) by congruence.
        destruct (net_closed_spec cfg s HW Hn) as (E & _ & S1 & _). rewrite E. cbn [halt_on_error].
        unfold HS. rewrite S1. apply close_NC; [exact HW|exact Hn|apply HS_CP; exact HH].
      + cbn [fst]. apply HS_data; assumption.
      + unfold out_of_res. cbn [fst]. destruct (pc_write s HPCI) as (A & B). cbv zeta in A, B.
        pose proof (net_write_completion_st enc dec ores ires cfg s) as Hs. cbv zeta in Hs. rewrite Est in Hs. cbn in Hs.
        unfold HS. destruct Hs as [Hs|Hs]; rewrite Hs; [split; [exact A|exact (B Hs)]|exact A].
      + cbn [fst]. destruct (pc_service enc enc_reset enc_call enc_done dec ores ores_reset ores_resolve ires v_out cfg s now cap fill HPCI) as (A & _ & B & C & _). cbv zeta in A, B, C.
        unfold HS. destruct B as [B|B]; rewrite B; [split; [exact A|exact (C B)]|exact A].
      + destruct (next_service_time cfg s now); exact HH.
      + unfold out_of_res. cbn [fst]. destruct (reset_spec cfg s HW) as (_ & _ & S1 & S2 & _).
        apply HS_of_NC; [intros i o Hi; unfold getop in Hi; rewrite S2 in Hi; discriminate|]. rewrite S1, Est. cbn. discriminate.
    - (* Connected *)
      assert (HN : NC s) by (unfold HS in HH; rewrite Est in HH; exact HH).
      destruct e as [now p t|now dl|now|now data|now|now cap fill|now|now].
      2:{ cbn [Model.step]. unfold out_of_res, net_opened. rewrite Est. cbn [pstate_eqb negb orb andb fst r_s r_out h_s h_out sr_s sr_out halt_on_error]. apply (HS_halted_same s); [exact HH|reflexivity|reflexivity]. }
      all: eapply HS_generic; [exact HN|apply step_KF; exact He|apply st_not_pc; [exact HW|congruence|intros E; congruence]].
    - (* PendingDisconnect *)
      assert (HN : NC s) by (unfold HS in HH; rewrite Est in HH; exact HH).
      destruct e as [now p t|now dl|now|now data|now|now cap fill|now|now].
      2:{ cbn [Model.step]. unfold out_of_res, net_opened. rewrite Est. cbn [pstate_eqb negb orb andb fst r_s r_out h_s h_out sr_s sr_out halt_on_error]. apply (HS_halted_same s); [exact HH|reflexivity|reflexivity]. }
      all: eapply HS_generic; [exact HN|apply step_KF; exact He|apply st_not_pc; [exact HW|congruence|intros E; congruence]].
    - (* Halted *)
      assert (HC0 : CP s) by (apply HS_CP; exact HH).
      destruct e as [now p t|now dl|now|now data|now|now cap fill|now|now]; cbn [Model.step].
      + unfold out_of_res. cbn [fst]. assert (Hn : s_st s <> Connected) by congruence.
        destruct (user_event_pc s p t Hn) as (Hv & Hk). cbv zeta in Hv, Hk. inversion Hv as [[V1 V2 V3 V4 V5]].
        destruct (user_event_ST _ _ _ _ cfg s p t) as [E|[E _]]; [|congruence].
        unfold HS. rewrite E, Est. intros i o' Hi Hc.
        destruct (user_event_KF _ _ _ _ cfg s p t He i o' Hi Hc) as (o & Ho & Hco). specialize (HC0 i o Ho Hco).
        unfold HandshakeRunClose.places in *. rewrite V1, V2, V3. exact HC0.
      + unfold out_of_res, net_opened. rewrite Est. cbn [pstate_eqb negb orb andb fst r_s r_out h_s h_out sr_s sr_out halt_on_error]. apply (HS_halted_same s); [exact HH|reflexivity|reflexivity].
      + unfold out_of_res. cbn [fst]. assert (Hn : s_st s <> Disconnected) by congruence.
        destruct (net_closed_spec cfg s HW Hn) as (E & _ & S1 & _). rewrite E. cbn [halt_on_error].
        unfold HS. rewrite S1. apply close_NC; [exact HW|exact Hn|exact HC0].
      + cbn [fst]. unfold Model.net_data. rewrite Est. cbn [pstate_eqb negb orb andb fst r_s r_out h_s h_out sr_s sr_out halt_on_error]. apply (HS_halted_same s); [exact HH|reflexivity|reflexivity].
      + unfold out_of_res, net_write_completion. rewrite Est. cbn [pstate_eqb negb orb andb fst r_s r_out h_s h_out sr_s sr_out halt_on_error]. apply (HS_halted_same s); [exact HH|reflexivity|reflexivity].
      + cbn [fst]. unfold Model.service. rewrite Est. cbn [pstate_eqb negb orb andb fst r_s r_out h_s h_out sr_s sr_out halt_on_error]. apply (HS_halted_same s); [exact HH|reflexivity|reflexivity].
      + destruct (next_service_time cfg s now); exact HH.
      + unfold out_of_res. cbn [fst]. destruct (reset_spec cfg s HW) as (_ & _ & S1 & S2 & _).
        apply HS_of_NC; [intros i o Hi; unfold getop in Hi; rewrite S2 in Hi; discriminate|]. rewrite S1, Est. cbn. discriminate.
  Qed.

  Theorem HS_init (o : ores) (i : ires) : HS (init (enc:=enc) dec_init o i).
  Proof. unfold HS. cbn. intros j oj Hj. discriminate. Qed.
End Inv.
