(* C07 (a): while the CONNACK is awaited the service loop seats nothing but the CONNECT operation created
   by the last connection opening.  [J s]: the three places hold at most one operation id, and it names a
   non-user operation whose packet is [create_connect s].  The loop analysis is on arbitrary states
   satisfying J and CP (no well-formedness needed). *)
From GM Require Import Base.Prelude Base.Outcome Codec.Packets Codec.Settings Engine.Model
  EngineProofs.AssocLemmas EngineProofs.WFLemmas EngineProofs.WFDefs
  EngineProofs.HandshakeRunTrace EngineProofs.HandshakeRunFrame EngineProofs.HandshakeRunFrame2 EngineProofs.HandshakeRunClose.
From RecordUpdate Require Import RecordSet.
Import RecordSetNotations.
Open Scope N_scope.

(* the four component types are implicit in the engine functions, locally to this file *)
#[local] Arguments init {enc dec} _ {ores ires} _ _.
#[local] Arguments release {enc dec ores ires} _ _ _ _.
#[local] Arguments disconnect_completion {enc dec ores ires} _ _.
#[local] Arguments fail_op {enc dec ores ires} _ _ _ _.
#[local] Arguments ping_extension {enc dec ores ires} _ _.
#[local] Arguments succeed_op {enc dec ores ires} _ _ _ _.
#[local] Arguments fail_all {enc dec ores ires} _ _ _ _.
#[local] Arguments succeed_all {enc dec ores ires} _ _ _.
#[local] Arguments andthen {enc dec ores ires} _ _.
#[local] Arguments try_ {enc dec ores ires} _ _.
#[local] Arguments pure {enc dec ores ires} _.
#[local] Arguments create_operation {enc dec ores ires} _ _.
#[local] Arguments passes_now {enc dec ores ires} _ _ _.
#[local] Arguments user_event {enc dec ores ires} _ _ _ _.
#[local] Arguments create_connect {enc dec ores ires} _ _.
#[local] Arguments net_opened {enc dec} _ {ores ires} _ _ _.
#[local] Arguments op_exists {enc dec ores ires} _ _.
#[local] Arguments op_passes {enc dec ores ires} _ _ _.
#[local] Arguments partition_policy {enc dec ores ires} _ _ _.
#[local] Arguments closed_current {enc dec ores ires} _ _.
#[local] Arguments slow_start_init {enc dec ores ires} _ _.
#[local] Arguments update_retries {enc dec ores ires} _ _.
#[local] Arguments fail_exceeding {enc dec ores ires} _ _.
#[local] Arguments has_pubrel {enc dec ores ires} _ _.
#[local] Arguments net_closed_raw {enc dec ores ires} _ _.
#[local] Arguments net_closed {enc dec ores ires} _ _.
#[local] Arguments net_write_completion {enc dec ores ires} _ _.
#[local] Arguments acquire_free_pid {enc dec ores ires} _ _.
#[local] Arguments acquire_pid_for {enc dec ores ires} _ _.
#[local] Arguments unbind {enc dec ores ires} _ _.
#[local] Arguments passes_receive_max {enc dec ores ires} _ _.
#[local] Arguments throttled {enc dec ores ires} _ _.
#[local] Arguments has_pending_ack {enc dec ores ires} _.
#[local] Arguments dequeue {enc dec ores ires} _ _ _.
#[local] Arguments fully_written {enc dec ores ires} _ _.
#[local] Arguments service_keep_alive {enc dec ores ires} _ _ _.
#[local] Arguments process_ack_timeouts {enc dec ores ires} _ _ _.
#[local] Arguments halt_on_error {enc dec ores ires} _ _.
#[local] Arguments next_service_time {enc dec ores ires} _ _ _.
#[local] Arguments build_settings {enc dec ores ires} _ _ _.
#[local] Arguments apply_session {enc dec ores ires} _ _ _.
#[local] Arguments hres_of {enc dec ores ires} _ _.
#[local] Arguments pre_connack {enc dec ores ires} _.
#[local] Arguments sum_ss {enc dec ores ires} _.
#[local] Arguments handle_pingresp {enc dec ores ires} _.
#[local] Arguments handle_suback {enc dec ores ires} _ _ _.
#[local] Arguments handle_unsuback {enc dec ores ires} _ _ _.
#[local] Arguments publish_qos_of {enc dec ores ires} _ _.
#[local] Arguments handle_puback {enc dec ores ires} _ _ _.
#[local] Arguments handle_pubrec {enc dec ores ires} _ _ _.
#[local] Arguments handle_pubrel {enc dec ores ires} _ _.
#[local] Arguments handle_pubcomp {enc dec ores ires} _ _ _.
#[local] Arguments handle_publish {enc dec ores ires} _ _.
#[local] Arguments handle_disconnect {enc dec ores ires} _ _ _.
#[local] Arguments is_connect_op {enc dec ores ires} _ _.
#[local] Arguments connect_in_queue {enc dec ores ires} _.
#[local] Arguments reset {enc dec ores ires} _ _.
#[local] Arguments out_of_res {enc dec ores ires} _ _.
#[local] Arguments nst_queue {enc dec ores ires} _ _ _ _.
#[local] Arguments earliest_tmo {enc dec ores ires} _.
#[local] Arguments SeatStop {enc dec ores ires} _.
#[local] Arguments SeatContinue {enc dec ores ires} _ _.
#[local] Arguments SeatEncode {enc dec ores ires} _.


Section PC.
  Variable enc : Type.
  Variable enc_reset : version -> packet -> resolution -> outcome enc.
  Variable enc_call : enc -> N -> N -> outcome (bytes * enc).
  Variable enc_done : enc -> bool.
  Variable dec : Type.
  Variable ores : Type.
  Variable ores_reset : ores -> N -> ores.
  Variable ores_resolve : ores -> option N -> bytes -> outcome (ores * resolution).
  Variable ires : Type.
  Variable v_out : option settings -> connect_opts -> resolution -> packet -> outcome unit.
  Variable cfg : config.

  Notation state := (state enc dec ores ires).
  Notation sres := (sres enc dec ores ires).
  Notation seat_current := (seat_current enc enc_reset dec ores ores_reset ores_resolve ires v_out cfg).
  Notation service_loop_t := (service_loop_t enc enc_reset enc_call enc_done dec ores ores_reset ores_resolve ires v_out cfg).
  Notation encode_next := (encode_next enc enc_call enc_done dec ores ires).
  Notation seat_here := (seat_here enc dec ores ires cfg).
  Notation KF := (KF enc dec ores ires).
  Notation places := (places enc dec ores ires).
  Notation CP := (CP enc dec ores ires).
  Notation NC := (NC enc dec ores ires).

  Ltac splits := repeat match goal with |- _ /\ _ => split end.

  (* the CONNECT operation of the handshake in progress *)
  Definition conn_op (s : state) (i : N) : Prop :=
    exists o, getop s i = Some o /\ op_packet o = create_connect cfg s /\ op_user o = false /\ op_pubrel o = None.

  Definition J (s : state) : Prop :=
    (length (places s) <= 1)%nat /\ forall i, In i (places s) -> conn_op s i.

  Definition PCI (s : state) : Prop := s_st s = PendingConnack /\ J s /\ CP s.

  Lemma create_connect_is (s : state) : exists c0, create_connect cfg s = Connect c0.
  Proof. unfold create_connect. destruct (con_client_id _); [eauto|]. destruct (s_settings s); eauto. Qed.

  Lemma create_connect_frame (s s' : state) :
    s_settings s' = s_settings s -> s_connected_before s' = s_connected_before s -> create_connect cfg s' = create_connect cfg s.
  Proof. intros A B. unfold create_connect. rewrite A, B. reflexivity. Qed.

  (* J and CP only read these fields *)
  Definition jview (s : state) := (s_hq s, s_cur s, s_pwco s, s_ops s, s_settings s, s_connected_before s).

  Lemma jview_fields (s s' : state) : jview s' = jview s ->
    s_hq s' = s_hq s /\ s_cur s' = s_cur s /\ s_pwco s' = s_pwco s /\ s_ops s' = s_ops s /\ s_settings s' = s_settings s /\
    s_connected_before s' = s_connected_before s.
  Proof. unfold jview. intros H. inversion H. splits; auto. Qed.

  Lemma J_view (s s' : state) : jview s' = jview s -> J s -> J s'.
  Proof.
    intros H. destruct (jview_fields _ _ H) as (A & B & C & D & E & F). unfold J, conn_op, HandshakeRunClose.places, getop.
    rewrite A, B, C, D, (create_connect_frame s s' E F). tauto.
  Qed.

  Lemma CP_view (s s' : state) : jview s' = jview s -> CP s -> CP s'.
  Proof.
    intros H. destruct (jview_fields _ _ H) as (A & B & C & D & E & F). unfold HandshakeRunClose.CP, HandshakeRunClose.places, getop.
    rewrite A, B, C, D. tauto.
  Qed.

  Lemma PCI_view (s s' : state) : jview s' = jview s -> s_st s' = s_st s -> PCI s -> PCI s'.
  Proof. intros H E (A & B & C). split; [congruence|]. split; [eapply J_view; eauto|eapply CP_view; eauto]. Qed.

  (* failing an operation while the CONNACK is awaited: no slow-start accounting, hence no panic *)
  Lemma fail_op_pc (s : state) id o e :
    s_st s = PendingConnack -> getop s id = Some o -> op_user o = false -> is_disconnect (op_packet o) = false ->
    let r := fail_op cfg s id e in
    r_out r = Ok tt /\ r_done r = [] /\ s_ops (r_s r) = remove id (s_ops s) /\ s_st (r_s r) = PendingConnack /\
    s_hq (r_s r) = s_hq s /\ s_cur (r_s r) = s_cur s /\ s_pwco (r_s r) = s_pwco s /\ s_settings (r_s r) = s_settings s /\
    s_connected_before (r_s r) = s_connected_before s.
  Proof.
    intros Hst Ho Hu Hd. unfold fail_op. unfold getop in Ho. rewrite Ho. unfold release.
    assert (Hc : forall s2 : state, s_st s2 = PendingConnack -> cf_drain_one cfg && pstate_eqb (s_st s2) Connected && negb (op_ss o =? 0) = false).
    { intros s2 ->. cbn. rewrite andb_false_r. reflexivity. }
    destruct (op_pid o) as [p|]; cbv zeta; rewrite Hc by exact Hst; unfold disconnect_completion; rewrite Hd, Hu; cbn; splits; auto.
  Qed.

  (* ---- seating ---- *)
  Lemma pc_seat (s : state) acc dn :
    PCI s -> s_cur s = None ->
    match seat_current s false acc dn with
    | SeatStop r => sr_done r = dn /\ CP (sr_s r) /\ (sr_out r = Ok tt -> sr_s r = s)
    | SeatContinue s' dn' => dn' = dn /\ PCI s' /\ s_cur s' = None /\ s_hq s' = []
    | SeatEncode s' => PCI s' /\ s_cur s' <> None
    end /\
    (seat_here s false = [] \/ exists i, seat_here s false = [(QH, i)] /\ s_hq s = [i] /\ conn_op s i).
  Proof.
    intros (Hst & (Hlen & Hpl) & HCP) Hcur. unfold HandshakeRunTrace.seat_here. rewrite Hcur.
    unfold Model.seat_current. rewrite Hcur. unfold dequeue, dequeue_src.
    destruct (s_pwc s); [cbn; splits; auto|].
    destruct (s_hq s) as [|c r] eqn:Eh; [cbn; splits; auto|].
    unfold HandshakeRunClose.places in Hlen, Hpl. rewrite Eh, Hcur in Hlen, Hpl. cbn in Hlen.
    assert (Er : r = []) by (destruct r; [reflexivity|cbn in Hlen; lia]). subst r.
    assert (Epw : s_pwco s = []) by (destruct (s_pwco s); [reflexivity|cbn in Hlen; lia]).
    destruct (Hpl c (or_introl eq_refl)) as (o & Ho & Hpk & Hu & Hpr).
    split; [|right; exists c; splits; auto; exists o; splits; auto].
    destruct (create_connect_is s) as (c0 & Hc0).
    set (s1 := s <| s_hq := [] |>). set (s2 := s1 <| s_cur := Some c |>).
    assert (Ho2 : lookup c (s_ops s2) = Some o) by exact Ho.
    assert (V2 : CP s2).
    { intros i o1 Hi Hk. specialize (HCP i o1 Hi Hk). unfold HandshakeRunClose.places in HCP |- *. rewrite Eh, Hcur, Epw in HCP. cbn in HCP |- *. tauto. }
    unfold op_exists. rewrite Ho2. cbn [negb].
    assert (Haq : acquire_pid_for s2 c = Ok s2).
    { unfold acquire_pid_for. rewrite Ho2. destruct (op_pid o); [reflexivity|]. rewrite Hpk, Hc0. reflexivity. }
    rewrite Haq, Ho2, Hpr, Hpk, Hc0.
    destruct (v_out (s_settings s2) (cf_connect cfg) no_resolution (Connect c0)) as [u|k|site].
    - (* the CONNECT is handed to the encoder *)
      destruct (enc_reset (cf_version cfg) (Connect c0) no_resolution) as [e|k|site]; [|cbn; splits; auto; discriminate|cbn; splits; auto; discriminate].
      split; [|cbn; discriminate]. split; [exact Hst|]. split; [|exact V2].
      split; [unfold HandshakeRunClose.places; cbn; rewrite Epw; cbn; lia|].
      unfold HandshakeRunClose.places. cbn. rewrite Epw. cbn. intros i [<-|[]]. exists o. splits; auto.
    - (* the CONNECT fails last-chance validation: dropped, the loop goes on *)
      cbn [r_alias no_resolution].
      assert (Hd : is_disconnect (op_packet o) = false) by (rewrite Hpk, Hc0; reflexivity).
      set (s3 := s2 <| s_cur := None |>).
      assert (Hst3 : s_st s3 = PendingConnack) by exact Hst. assert (Ho3 : getop s3 c = Some o) by exact Ho.
      destruct (fail_op_pc s3 c o k Hst3 Ho3 Hu Hd) as (F1 & F2 & F3 & F4 & F5 & F6 & F7 & F8 & F9).
      rewrite F1. rewrite F2, app_nil_r. split; [reflexivity|]. split; [|split; [exact F6|exact F5]].
      split; [exact F4|]. split.
      + unfold J, HandshakeRunClose.places. rewrite F5, F6, F7. cbn. rewrite Epw. cbn. split; [lia|intros i []].
      + intros i o1 Hi Hk. exfalso. unfold getop in Hi. rewrite F3 in Hi. cbn in Hi. apply lookup_remove_inv in Hi. destruct Hi as (Hi & Hne).
        specialize (HCP i o1 Hi Hk). unfold HandshakeRunClose.places in HCP. rewrite Eh, Hcur, Epw in HCP. cbn in HCP. destruct HCP as [E|[]]. congruence.
    - cbn. splits; auto. discriminate.
  Qed.

  (* ---- encoding ---- *)
  Lemma pc_encode now cap fill (s5 : state) acc dn :
    PCI s5 -> s_cur s5 <> None ->
    match encode_next now cap fill s5 acc dn with
    | inl r => sr_done r = dn /\ CP (sr_s r) /\ (sr_out r = Ok tt -> PCI (sr_s r))
    | inr (s7, _) => PCI s7 /\ s_cur s7 = None /\ s_hq s7 = []
    end.
  Proof.
    intros HP Hcur. pose proof HP as (Hst & (Hlen & Hpl) & HCP).
    destruct (s_cur s5) as [c|] eqn:Ec; [clear Hcur|congruence].
    unfold HandshakeRunClose.places in Hlen, Hpl. rewrite Ec in Hlen, Hpl.
    assert (Eh : s_hq s5 = []) by (destruct (s_hq s5); [reflexivity|cbn in Hlen; rewrite app_length in Hlen; cbn in Hlen; lia]).
    rewrite Eh in Hlen, Hpl. cbn in Hlen, Hpl.
    assert (Epw : s_pwco s5 = []) by (destruct (s_pwco s5); [reflexivity|cbn in Hlen; lia]).
    destruct (Hpl c (or_introl eq_refl)) as (o & Ho & Hpk & Hu & Hpr).
    destruct (create_connect_is s5) as (c0 & Hc0).
    unfold HandshakeRunTrace.encode_next. rewrite Ec. unfold op_exists. unfold getop in Ho. rewrite Ho. cbn [negb].
    destruct (s_enc s5) as [e|]; [|cbn; splits; auto; discriminate].
    destruct (enc_call e (fill + len acc) cap) as [[out e']|k|site]; [|cbn; splits; auto; discriminate|cbn; splits; auto; discriminate].
    cbv zeta. set (s6 := s5 <| s_enc := Some e' |>).
    assert (HP6 : PCI s6) by (eapply (PCI_view s5 s6); [reflexivity|reflexivity|exact HP]).
    destruct (enc_done e'); [|cbn; splits; auto; apply HP6].
    assert (Hfw : fully_written s6 now =
                  Ok (s6 <| s_pwco := s_pwco s6 ++ [c] |>
                         <| s_ops := update c (fun o => o <| op_ext := Some now |>) (s_ops s6) |> <| s_cur := None |>)).
    { unfold fully_written. change (s_cur s6) with (s_cur s5). rewrite Ec. change (s_ops s6) with (s_ops s5). rewrite Ho, Hpk, Hc0, Hu. reflexivity. }
    rewrite Hfw. split; [|split; [reflexivity|exact Eh]].
    split; [exact Hst|]. split; [split|].
    - unfold HandshakeRunClose.places. cbn. rewrite Eh, Epw. cbn. lia.
    - unfold HandshakeRunClose.places. cbn. rewrite Eh, Epw. cbn. intros i [<-|[]].
      exists (o <| op_ext := Some now |>). unfold getop. cbn. splits; auto. apply lookup_update_eq. exact Ho.
    - intros i o1 Hi Hk. unfold getop in Hi. cbn in Hi. apply lookup_update_inv in Hi. destruct Hi as (o2 & Ho2 & Hcase).
      assert (Hk2 : is_connect (op_packet o2) = true) by (destruct Hcase as [[_ ->]|[_ ->]]; exact Hk).
      specialize (HCP i o2 Ho2 Hk2). unfold HandshakeRunClose.places in HCP |- *. rewrite Ec, Eh, Epw in HCP. cbn in HCP |- *.
      rewrite Eh, Epw. cbn. tauto.
  Qed.

  (* ---- the loop ---- *)
  Definition pc_trace (s : state) (t : list seat_ev) : Prop :=
    t = [] \/ exists i, t = [(QH, i)] /\ s_cur s = None /\ s_hq s = [i] /\ conn_op s i.

  Lemma pc_trace_nil (s : state) t : s_hq s = [] -> pc_trace s t -> t = [].
  Proof. intros E [H|(i & _ & _ & H & _)]; [exact H|congruence]. Qed.

  Theorem pc_loop now cap fill : forall f (s : state) acc dn,
    PCI s ->
    let rt := service_loop_t f s false now cap fill acc dn in
    sr_done (fst rt) = dn /\ CP (sr_s (fst rt)) /\ (sr_out (fst rt) = Ok tt -> PCI (sr_s (fst rt))) /\ pc_trace s (snd rt).
  Proof.
    induction f as [|f IH]; intros s acc dn HP; cbn [HandshakeRunTrace.service_loop_t].
    { cbn [fst snd sr_done sr_s sr_out]. split; [reflexivity|]. split; [apply HP|]. split; [discriminate|left; reflexivity]. }
    pose proof HP as (Hst & HJ & HCP). rewrite Hst. cbn [pstate_eqb orb negb].
    destruct (s_cur s) as [c|] eqn:Ec.
    - assert (Es : seat_current s false acc dn = SeatEncode s) by (unfold Model.seat_current; rewrite Ec; reflexivity).
      assert (Eh : seat_here s false = []) by (unfold HandshakeRunTrace.seat_here; rewrite Ec; reflexivity).
      rewrite Es, Eh. assert (Hc : s_cur s <> None) by congruence.
      pose proof (pc_encode now cap fill s acc dn HP Hc) as He.
      destruct (encode_next now cap fill s acc dn) as [r|[s7 acc']].
      + cbn [fst snd]. destruct He as (A & B & C). splits; auto. left. reflexivity.
      + destruct He as (A & B & C). destruct (IH s7 acc' dn A) as (I1 & I2 & I3 & I4). cbn [fst snd]. splits; auto.
        rewrite (pc_trace_nil _ _ C I4). left. reflexivity.
    - destruct (pc_seat s acc dn HP Ec) as (Hs & Hh).
      assert (Hhere : pc_trace s (seat_here s false)).
      { destruct Hh as [->|(i & -> & E1 & E2)]; [left; reflexivity|right; exists i; splits; auto]. }
      destruct (seat_current s false acc dn) as [r|s5 dn'|s5].
      + cbn [fst snd]. destruct Hs as (A & B & C). splits; auto. intros E. rewrite (C E). exact HP.
      + destruct Hs as (-> & A & B & C). destruct (IH s5 acc dn A) as (I1 & I2 & I3 & I4). cbn [fst snd]. splits; auto.
        rewrite (pc_trace_nil _ _ C I4), app_nil_r. exact Hhere.
      + destruct Hs as (A & B). pose proof (pc_encode now cap fill s5 acc dn A B) as He.
        destruct (encode_next now cap fill s5 acc dn) as [r|[s7 acc']].
        * cbn [fst snd]. destruct He as (X & Y & Z). splits; auto.
        * destruct He as (X & Y & Z). destruct (IH s7 acc' dn X) as (I1 & I2 & I3 & I4). cbn [fst snd]. splits; auto.
          rewrite (pc_trace_nil _ _ Z I4), app_nil_r. exact Hhere.
  Qed.

  Notation service := (service enc enc_reset enc_call enc_done dec ores ores_reset ores_resolve ires v_out cfg).
  Notation service_queue := (service_queue enc enc_reset enc_call enc_done dec ores ores_reset ores_resolve ires v_out cfg).
  Notation service_seats := (service_seats enc enc_reset enc_call enc_done dec ores ores_reset ores_resolve ires v_out cfg).

  Lemma CP_halt (s : state) r : CP s -> CP (halt_on_error s r).
  Proof. intros H. destruct r; [exact H|..]; (eapply (CP_view s); [reflexivity|exact H]). Qed.

  (* one [service] call while the CONNACK is awaited *)
  Theorem pc_service (s : state) now cap fill :
    PCI s ->
    let r := service s now cap fill in
    CP (sr_s r) /\ sr_done r = [] /\ (s_st (sr_s r) = PendingConnack \/ s_st (sr_s r) = Halted) /\
    (s_st (sr_s r) = PendingConnack -> J (sr_s r)) /\ pc_trace s (service_seats s now cap fill).
  Proof.
    intros HP. pose proof HP as (Hst & HJ & HCP). cbv zeta. unfold Model.service, HandshakeRunTrace.service_seats. rewrite Hst. cbv zeta.
    destruct (s_connack_to s) as [t|].
    2:{ cbn. split; [eapply (CP_view s); [reflexivity|exact HCP]|]. split; [reflexivity|]. split; [right; reflexivity|].
        split; [discriminate|left; reflexivity]. }
    destruct (t <=? now).
    { cbn. split; [eapply (CP_view s); [reflexivity|exact HCP]|]. split; [reflexivity|]. split; [right; reflexivity|].
      split; [discriminate|left; reflexivity]. }
    rewrite service_queue_loop. cbv zeta. unfold HandshakeRunTrace.service_queue_seats.
    destruct (pc_loop now cap fill (queue_fuel _ _ _ _ s) s [] [] HP) as (L1 & L2 & L3 & L4).
    set (rt := service_loop_t (queue_fuel _ _ _ _ s) s false now cap fill [] []) in L1, L2, L3, L4 |- *.
    assert (Hq : let q := match sr_bytes (fst rt) with
                          | [] => fst rt
                          | _ => mkSres (sr_s (fst rt) <| s_pwc := true |>) (sr_bytes (fst rt)) (sr_done (fst rt)) (sr_out (fst rt))
                          end in
                 sr_done q = [] /\ CP (sr_s q) /\ (sr_out q = Ok tt -> PCI (sr_s q))).
    { cbv zeta. destruct (sr_bytes (fst rt)); [split; [exact L1|split; [exact L2|exact L3]]|]. cbn [sr_done sr_s sr_out].
      split; [exact L1|]. split; [eapply (CP_view (sr_s (fst rt))); [reflexivity|exact L2]|].
      intros E. eapply (PCI_view (sr_s (fst rt))); [reflexivity|reflexivity|exact (L3 E)]. }
    cbv zeta in Hq. destruct Hq as (Q1 & Q2 & Q3).
    match goal with |- context [halt_on_error (sr_s ?q0) (sr_out ?q0)] => set (q := q0) in Q1, Q2, Q3 |- * end. cbn [sr_s sr_done].
    split; [apply CP_halt; exact Q2|]. split; [exact Q1|].
    destruct (sr_out q) as [[]|k|site]; cbn [halt_on_error].
    - destruct (Q3 eq_refl) as (A & B & C). splits; auto.
    - cbn. splits; auto. discriminate.
    - cbn. splits; auto. discriminate.
  Qed.
End PC.
