(* C10 strict order, the placement invariant PL (PlaceRun.v) through one service call: dequeue (a queue head is
   seated), acquire_pid_for, the validation failure of the seated operation, fully_written (the seated operation
   moves to the written list / a pending table; a PUBREL carrier is already pending), the service loop (with the
   well-formedness of the intermediate states from WFService2.seat_gen and WFService.fully_written_spec),
   keep-alive and ack timeouts. *)
From GM Require Import Base.Prelude Base.Outcome Codec.Packets Codec.Settings Engine.Model
  EngineProofs.AssocLemmas EngineProofs.WFLemmas EngineProofs.WFDefs EngineProofs.WFCore EngineProofs.WFComplete
  EngineProofs.WFClose EngineProofs.WFClose2 EngineProofs.WFService EngineProofs.WFService2 EngineProofs.WFService3
  EngineProofs.WFService4 EngineProofs.WFEvents
  EngineProofs.OrderRunStrict EngineProofs.OrderRunStrict2 EngineProofs.PlaceRun EngineProofs.PlaceRunEvents.
From RecordUpdate Require Import RecordSet.
Import RecordSetNotations.
Open Scope N_scope.

(* the four component types are implicit in the engine functions, locally to this file *)
#[local] Arguments init {enc dec} _ {ores ires} _ _.
#[local] Arguments release {enc dec ores ires} _ _ _ _.
#[local] Arguments disconnect_completion {enc dec ores ires} _ _.
#[local] Arguments fail_op {enc dec ores ires} _ _ _ _.
#[local] Arguments ping_extension {enc dec ores ires} _ _.
#[local] Arguments succeed_op {enc dec ores ires} _ _ _ _.
#[local] Arguments fail_all {enc dec ores ires} _ _ _ _.
#[local] Arguments succeed_all {enc dec ores ires} _ _ _.
#[local] Arguments andthen {enc dec ores ires} _ _.
#[local] Arguments try_ {enc dec ores ires} _ _.
#[local] Arguments pure {enc dec ores ires} _.
#[local] Arguments create_operation {enc dec ores ires} _ _.
#[local] Arguments passes_now {enc dec ores ires} _ _ _.
#[local] Arguments user_event {enc dec ores ires} _ _ _ _.
#[local] Arguments create_connect {enc dec ores ires} _ _.
#[local] Arguments net_opened {enc dec} _ {ores ires} _ _ _.
#[local] Arguments op_exists {enc dec ores ires} _ _.
#[local] Arguments op_passes {enc dec ores ires} _ _ _.
#[local] Arguments partition_policy {enc dec ores ires} _ _ _.
#[local] Arguments closed_current {enc dec ores ires} _ _.
#[local] Arguments slow_start_init {enc dec ores ires} _ _.
#[local] Arguments update_retries {enc dec ores ires} _ _.
#[local] Arguments fail_exceeding {enc dec ores ires} _ _.
#[local] Arguments has_pubrel {enc dec ores ires} _ _.
#[local] Arguments net_closed_raw {enc dec ores ires} _ _.
#[local] Arguments net_closed {enc dec ores ires} _ _.
#[local] Arguments net_write_completion {enc dec ores ires} _ _.
#[local] Arguments acquire_free_pid {enc dec ores ires} _ _.
#[local] Arguments acquire_pid_for {enc dec ores ires} _ _.
#[local] Arguments unbind {enc dec ores ires} _ _.
#[local] Arguments passes_receive_max {enc dec ores ires} _ _.
#[local] Arguments throttled {enc dec ores ires} _ _.
#[local] Arguments has_pending_ack {enc dec ores ires} _.
#[local] Arguments dequeue {enc dec ores ires} _ _ _.
#[local] Arguments fully_written {enc dec ores ires} _ _.
#[local] Arguments service_keep_alive {enc dec ores ires} _ _ _.
#[local] Arguments process_ack_timeouts {enc dec ores ires} _ _ _.
#[local] Arguments halt_on_error {enc dec ores ires} _ _.
#[local] Arguments next_service_time {enc dec ores ires} _ _ _.
#[local] Arguments build_settings {enc dec ores ires} _ _ _.
#[local] Arguments apply_session {enc dec ores ires} _ _ _.
#[local] Arguments hres_of {enc dec ores ires} _ _.
#[local] Arguments pre_connack {enc dec ores ires} _.
#[local] Arguments sum_ss {enc dec ores ires} _.
#[local] Arguments handle_pingresp {enc dec ores ires} _.
#[local] Arguments handle_suback {enc dec ores ires} _ _ _.
#[local] Arguments handle_unsuback {enc dec ores ires} _ _ _.
#[local] Arguments publish_qos_of {enc dec ores ires} _ _.
#[local] Arguments handle_puback {enc dec ores ires} _ _ _.
#[local] Arguments handle_pubrec {enc dec ores ires} _ _ _.
#[local] Arguments handle_pubrel {enc dec ores ires} _ _.
#[local] Arguments handle_pubcomp {enc dec ores ires} _ _ _.
#[local] Arguments handle_publish {enc dec ores ires} _ _.
#[local] Arguments handle_disconnect {enc dec ores ires} _ _ _.
#[local] Arguments is_connect_op {enc dec ores ires} _ _.
#[local] Arguments connect_in_queue {enc dec ores ires} _.
#[local] Arguments reset {enc dec ores ires} _ _.
#[local] Arguments out_of_res {enc dec ores ires} _ _.
#[local] Arguments nst_queue {enc dec ores ires} _ _ _ _.
#[local] Arguments earliest_tmo {enc dec ores ires} _.
#[local] Arguments SeatStop {enc dec ores ires} _.
#[local] Arguments SeatContinue {enc dec ores ires} _ _.
#[local] Arguments SeatEncode {enc dec ores ires} _.

#[local] Arguments olist : simpl never.
#[local] Arguments keys : simpl never.

Ltac cn_norm :=
  rewrite ?cn_app;
  repeat match goal with
         | |- context [cn (?a :: ?l) ?x] => lazymatch l with [] => fail | _ => rewrite (cn_cons a l x) end
         end;
  rewrite ?cn_app, ?cn_nil.

Section ServeLight.
  Context {enc dec ores ires : Type}.
  Notation state := (state enc dec ores ires).
  Variable cfg : config.

  (* ---- dequeue: the head of a queue is seated ---- *)
  Lemma dequeue_PL (s s1 : state) m id :
    PL s -> s_cur s = None -> but_queues s1 = but_queues s -> dq_rel m s s1 id -> PL (s1 <| s_cur := Some id |>).
  Proof.
    intros HP Hc B D. destruct (but_queues_fields _ _ B) as (_ & B2 & _ & _ & _ & _ & B7 & B8 & B9 & _).
    pose proof HP as [A _]. apply (PL_gen s _ HP). intros x.
    assert (H4 : forall o', getop (s1 <| s_cur := Some id |>) x = Some o' -> exists o, getop s x = Some o /\ (carrier o -> carrier o')).
    { intros o' Ho'. exists o'. split; [|tauto]. unfold getop in *. cbn in Ho'. rewrite B2 in Ho'. exact Ho'. }
    destruct D as [(D1 & D2 & D3)|(_ & D1 & D2 & [(D3 & D4)|(D3 & D4)])].
    - right; right. unfold shr, mn1, ax. cbn. rewrite B7, B8, B9, D1, D2, D3, Hc. unfold olist.
      split; [apply le_n|]. split; [apply le_n|]. split; [cn_norm; lia|]. split; [exact H4|tauto].
    - destruct (N.eq_dec x id) as [->|Hne].
      + left. specialize (A id). unfold once, mn1, ax in *. cbn. rewrite B7, B8, B9, D2, D4 in *. rewrite D3 in A. unfold olist.
        revert A. cn_norm. rewrite cn_same. lia.
      + right; right. unfold shr, mn1, ax. cbn. rewrite B7, B8, B9, D1, D2, D3, D4, Hc. unfold olist.
        split; [cn_norm; rewrite (cn_one id x Hne); lia|]. split; [apply le_n|]. split; [cbn; cn_norm; rewrite (cn_one id x Hne); lia|]. split; [exact H4|tauto].
    - destruct (N.eq_dec x id) as [->|Hne].
      + left. specialize (A id). unfold once, mn1, ax in *. cbn. rewrite B7, B8, B9, D2, D4 in *. rewrite D3 in A. unfold olist.
        revert A. cn_norm. rewrite cn_same. lia.
      + right; right. unfold shr, mn1, ax. cbn. rewrite B7, B8, B9, D1, D2, D3, D4, Hc. unfold olist.
        split; [cn_norm; rewrite (cn_one id x Hne); lia|]. split; [apply le_n|]. split; [cbn; cn_norm; rewrite (cn_one id x Hne); lia|]. split; [exact H4|tauto].
  Qed.

  (* the seat is vacated *)
  Lemma unseat_PL (s : state) : PL s -> PL (s <| s_cur := None |>).
  Proof.
    intros HP. apply (PL_gen s _ HP). intros x. right; right. unfold shr, mn1, ax. cbn. unfold olist.
    split; [apply le_n|]. split; [apply le_n|]. split; [cn_norm; lia|]. split; [intros o' Ho'; exists o'; tauto|tauto].
  Qed.

  (* an operation is rewritten by a function that keeps it a carrier if it was one *)
  Lemma PL_upd (s s' : state) id g :
    PL s -> pv s' = pv s -> s_ppub s' = s_ppub s -> s_pnon s' = s_pnon s -> s_ops s' = update id g (s_ops s) ->
    (forall o, lookup id (s_ops s) = Some o -> carrier o -> carrier (g o)) -> PL s'.
  Proof.
    intros HP E1 E2 E3 E4 Hg. destruct (pv_fields _ _ E1) as (F1 & F2 & F3 & F4 & F5).
    apply (PL_gen s _ HP). intros x. right; right. unfold shr, mn1, ax. rewrite F1, F2, F3, F4, F5, E2, E3.
    split; [apply le_n|]. split; [apply le_n|]. split; [apply le_n|]. split; [|tauto].
    intros o' Ho'. unfold getop in *. rewrite E4 in Ho'. apply lookup_update_inv in Ho'.
    destruct Ho' as (o0 & Ho0 & [[Hne ->]|[-> ->]]); exists o0; (split; [exact Ho0|auto]).
  Qed.

  Lemma with_pid_carrier pid (o : op) p' :
    with_pid pid (op_packet o) = Ok p' -> carrier o -> carrier (o <| op_pid := Some pid |> <| op_packet := p' |>).
  Proof.
    intros Hw (pb & Hp & Hq & Hr). rewrite Hp in Hw. cbn in Hw. inversion Hw; subst p'. eexists. cbn. split; [reflexivity|]. split; [exact Hq|exact Hr].
  Qed.

  Lemma acquire_PL (s s' : state) id : acquire_pid_for s id = Ok s' -> PL s -> PL s'.
  Proof.
    unfold acquire_pid_for. destruct (lookup id (s_ops s)) as [o|] eqn:Ho; [|discriminate].
    destruct (op_pid o); [intros H; inversion H; subst; auto|].
    destruct (negb (needs_pid (op_packet o))); [intros H; inversion H; subst; auto|].
    unfold acquire_free_pid.
    destruct (match first_gap (map fst (s_alloc s)) (s_next_pid s) 65535 with
              | Some c => Some c | None => first_gap (map fst (s_alloc s)) 1 (s_next_pid s - 1) end) as [c|]; [|discriminate].
    cbn [obind]. destruct (with_pid c (op_packet o)) as [p'|k|site] eqn:Ew; cbn [obind]; [|discriminate|discriminate].
    intros H HP. inversion H; subst s'; clear H.
    eapply (PL_upd s _ id _ HP); try reflexivity.
    intros o0 Ho0 Hc. cbn in Ho0. assert (o0 = o) by congruence. subst o0. apply with_pid_carrier; assumption.
  Qed.

  (* ---- fully written: the seated operation moves to the written list or to a pending table ---- *)
  Lemma fully_written_shape (s s' : state) now id o :
    fully_written s now = Ok s' -> s_cur s = Some id -> lookup id (s_ops s) = Some o ->
    s_uq s' = s_uq s /\ s_rq s' = s_rq s /\ s_hq s' = s_hq s /\ s_cur s' = None /\
    s_ops s' = update id (fun o => o <| op_ext := Some now |>) (s_ops s) /\
    ((needs_pid (op_packet o) = false /\ s_pwco s' = s_pwco s ++ [id] /\ s_ppub s' = s_ppub s /\ s_pnon s' = s_pnon s) \/
     (exists p, pkt_pid (op_packet o) = Some p /\ pubq (op_packet o) = true /\
                s_pwco s' = s_pwco s /\ s_ppub s' = insert p id (s_ppub s) /\ s_pnon s' = s_pnon s) \/
     (exists p, pkt_pid (op_packet o) = Some p /\ nonk (op_packet o) = true /\
                s_pwco s' = s_pwco s /\ s_ppub s' = s_ppub s /\ s_pnon s' = insert p id (s_pnon s))).
  Proof.
    unfold fully_written. intros H Hc Hid. rewrite Hc, Hid in H.
    destruct (op_user o); [destruct (op_timeout o) as [d|]; [destruct (IMAX <? now + d)|]|];
    (destruct (op_packet o) as [c|c|pb|a|a|a|a|sb|a|un|a| | |dd|a] eqn:Ep;
     [ | |destruct (pub_qos pb =? 0) eqn:Eq| | | | | | | | | | | | ]);
    cbn [obind] in H; inversion H; subst s'; clear H;
    (split; [reflexivity|]); (split; [reflexivity|]); (split; [reflexivity|]); (split; [reflexivity|]); (split; [reflexivity|]);
    first [ left; cbn; rewrite ?Eq; cbn; repeat split; reflexivity
          | right; left; eexists; cbn; rewrite ?Eq; cbn; repeat split; reflexivity
          | right; right; eexists; cbn; repeat split; reflexivity ].
  Qed.

  Lemma fully_written_PL (s s' : state) now id o :
    PB s -> inc (keys (s_ppub s)) -> s_cur s = Some id -> getop s id = Some o ->
    (needs_pid (op_packet o) = true -> exists p, op_pid o = Some p /\ pkt_pid (op_packet o) = Some p) ->
    PL s -> fully_written s now = Ok s' -> PL s'.
  Proof.
    intros [B1 B2] Hinc Hc Hid Hbound HP Hfw. destruct (fully_written_shape _ _ _ _ _ Hfw Hc Hid) as (E1 & E2 & E3 & E4 & E5 & Hsh).
    pose proof HP as [A B].
    assert (Hax : In id (ax s)) by (unfold ax; rewrite Hc; apply in_or_app; right; left; reflexivity).
    assert (Haxc : forall x, cn (ax s) x = (cn (s_hq s) x + cn [id] x)%nat) by (intros x; unfold ax; rewrite Hc, cn_app; reflexivity).
    assert (Hax' : forall x, cn (ax s') x = cn (s_hq s) x) by (intros x; unfold ax; rewrite E3, E4, cn_app; cbn; rewrite cn_nil; lia).
    assert (H4 : forall x o', getop s' x = Some o' -> exists o0, getop s x = Some o0 /\ (carrier o0 -> carrier o')).
    { intros x o' Ho'. unfold getop in *. rewrite E5 in Ho'. apply lookup_update_inv in Ho'.
      destruct Ho' as (o0 & Ho0 & [[Hne ->]|[-> ->]]); exists o0; (split; [exact Ho0|]); [tauto|].
      intros (pb & Q1 & Q2 & Q3). exists pb. cbn. auto. }
    assert (Hnc : ~ carrier o -> cn (mn1 s) id = 0%nat /\ cn (map snd (s_ppub s)) id = 0%nat /\ cn (s_hq s) id = 0%nat).
    { intros Hn. destruct (B id Hax) as [[_ C]|(Z1 & Z2 & Z3)]; [exfalso; apply Hn; apply C; exact Hid|].
      assert (Hne : getop s id <> None) by congruence. specialize (Z3 Hne). rewrite Haxc, cn_same in Z3. split; [exact Z1|]. split; [exact Z2|lia]. }
    destruct Hsh as [(Hn & P1 & P2 & P3)|[(p & Hk & Hq & P1 & P2 & P3)|(p & Hk & Hq & P1 & P2 & P3)]].
    - (* written list *)
      assert (Hncar : ~ carrier o) by (intros (pb & Q1 & Q2 & _); rewrite Q1 in Hn; cbn in Hn; rewrite Q2 in Hn; discriminate).
      destruct (Hnc Hncar) as (Z1 & Z2 & Z3).
      assert (Hm : forall x, cn (mn1 s') x = (cn (mn1 s) x + cn [id] x)%nat).
      { intros x. unfold mn1. rewrite E1, E2, P1, P3, !cn_app. lia. }
      apply (PL_gen s s' HP). intros x. destruct (N.eq_dec x id) as [->|Hne].
      + left. unfold once. rewrite Hm, Hax', P2, cn_same. lia.
      + right; right. unfold shr. rewrite Hm, Hax', Haxc, P2, (cn_one id x Hne). split; [lia|]. split; [apply le_n|]. split; [lia|]. split; [apply H4|tauto].
    - (* pending publish *)
      assert (Hnp : needs_pid (op_packet o) = true) by (rewrite needs_pid_split, Hq; reflexivity).
      destruct (Hbound Hnp) as (p0 & Hp0 & Hk0). assert (p0 = p) by congruence. subst p0.
      assert (Hoth : forall p' x, In (p', x) (s_ppub s) -> x <> id -> In (p', x) (s_ppub s')).
      { intros p' x Hin Hne. rewrite P2. apply In_insert_other; [exact Hin|]. intros ->.
        destruct (B1 p x Hin) as (ox & Hox & Hpx). pose proof (B2 x ox p Hox Hpx) as L1. pose proof (B2 id o p Hid Hp0) as L2. congruence. }
      assert (Hm : forall x, cn (mn1 s') x = cn (mn1 s) x) by (intros x; unfold mn1; rewrite E1, E2, P1, P3; reflexivity).
      destruct (in_dec N.eq_dec id (map snd (s_ppub s))) as [Iin|Inot].
      + (* a carrier re-written: the entry is already there *)
        assert (Esame : s_ppub s' = s_ppub s).
        { rewrite P2. apply insert_same; [exact Hinc|]. apply In_snd_inv in Iin. destruct Iin as (p' & Hin).
          destruct (B1 p' id Hin) as (ox & Hox & Hpx). assert (ox = o) by congruence. subst ox. assert (p' = p) by congruence. subst p'. exact Hin. }
        apply (PL_gen s s' HP). intros x. right; right. unfold shr. rewrite Hm, Hax', Haxc, Esame.
        split; [apply le_n|]. split; [apply le_n|]. split; [lia|]. split; [apply H4|tauto].
      + assert (Z2 : cn (map snd (s_ppub s)) id = 0%nat) by (apply cn_notin; exact Inot).
        assert (Z13 : cn (mn1 s) id = 0%nat /\ cn (s_hq s) id = 0%nat).
        { destruct (B id Hax) as [[P _]|(Z1 & _ & Z3)]; [contradiction|]. assert (Hne : getop s id <> None) by congruence.
          specialize (Z3 Hne). rewrite Haxc, cn_same in Z3. split; [exact Z1|lia]. }
        destruct Z13 as [Z1 Z3].
        assert (Hpp : forall x, (cn (map snd (s_ppub s')) x <= cn [id] x + cn (map snd (s_ppub s)) x)%nat) by (intros x; rewrite P2; apply cn_vals_insert).
        apply (PL_gen s s' HP). intros x. destruct (N.eq_dec x id) as [->|Hne].
        * left. unfold once. specialize (Hpp id). rewrite cn_same in Hpp. rewrite Hm, Hax'. lia.
        * right; right. unfold shr. specialize (Hpp x). rewrite (cn_one id x Hne) in Hpp. rewrite Hm, Hax', Haxc.
          split; [apply le_n|]. split; [lia|]. split; [lia|]. split; [apply H4|].
          intros Hin. left. apply In_snd_inv in Hin. destruct Hin as (p' & Hin). apply (In_snd p'). apply Hoth; assumption.
    - (* pending subscribe / unsubscribe *)
      assert (Hncar : ~ carrier o) by (intros (pb & Q1 & _); rewrite Q1 in Hq; discriminate).
      destruct (Hnc Hncar) as (Z1 & Z2 & Z3).
      assert (Hm : forall x, (cn (mn1 s') x <= cn (mn1 s) x + cn [id] x)%nat).
      { intros x. unfold mn1. rewrite E1, E2, P1, P3, !cn_app. pose proof (cn_vals_insert p id (s_pnon s) x). lia. }
      apply (PL_gen s s' HP). intros x. destruct (N.eq_dec x id) as [->|Hne].
      + left. unfold once. specialize (Hm id). rewrite cn_same in Hm. rewrite Hax', P2. lia.
      + right; right. unfold shr. specialize (Hm x). rewrite (cn_one id x Hne) in Hm. rewrite Hax', Haxc, P2.
        split; [lia|]. split; [apply le_n|]. split; [lia|]. split; [apply H4|tauto].
  Qed.
End ServeLight.

Section Serve.
  Variable enc : Type.
  Variable enc_reset : version -> packet -> resolution -> outcome enc.
  Variable enc_call : enc -> N -> N -> outcome (bytes * enc).
  Variable enc_done : enc -> bool.
  Variable dec : Type.
  Variable dec_init : dec.
  Variable dec_feed : version -> N -> dec -> bytes -> dec * list packet * outcome unit.
  Variable ores : Type.
  Variable ores_reset : ores -> N -> ores.
  Variable ores_resolve : ores -> option N -> bytes -> outcome (ores * resolution).
  Variable ires : Type.
  Variable ires_reset : ires -> ires.
  Variable ires_resolve : ires -> option N -> bytes -> outcome (ires * bytes).
  Variable v_out : option settings -> connect_opts -> resolution -> packet -> outcome unit.
  Variable v_in : option settings -> packet -> outcome unit.
  Variable cfg : config.
  Variable HC : comps_ok enc enc_reset enc_call dec dec_init dec_feed ores ores_reset ores_resolve ires ires_reset ires_resolve v_out v_in.
  Hypothesis Hcfg : ok_cfg cfg.

  Notation state := (state enc dec ores ires).
  Notation seat_current := (seat_current enc enc_reset dec ores ores_reset ores_resolve ires v_out cfg).
  Notation seat_tail := (seat_tail enc enc_reset dec ores ores_reset ores_resolve ires v_out cfg).
  Notation encode_step := (encode_step enc enc_call enc_done dec ores ires).
  Notation service_loop := (service_loop enc enc_reset enc_call enc_done dec ores ores_reset ores_resolve ires v_out cfg).
  Notation service_queue := (service_queue enc enc_reset enc_call enc_done dec ores ores_reset ores_resolve ires v_out cfg).
  Notation service := (service enc enc_reset enc_call enc_done dec ores ores_reset ores_resolve ires v_out cfg).
  Notation mu := (mu enc dec ores ires).

  Ltac splits := repeat match goal with |- _ /\ _ => split end.
  Ltac tuple_eqs H := repeat (apply pair_equal_spec in H; destruct H as [H ?]).
  Ltac core_cbn := unfold tracked, inq; cbn [core_of c_ops c_uq c_rq c_hq c_cur c_alloc c_ppub c_pnon c_pwco c_nid c_npid].

  Definition seat_PL (r : seat enc dec ores ires) : Prop :=
    match r with SeatStop r => PL (sr_s r) | SeatContinue s' _ => PL s' | SeatEncode s' => PL s' end.

  (* the part of seat_current after the packet id is bound *)
  Lemma seat_tail_PL (s3 : state) id o acc dn : PB s3 -> PL s3 -> seat_PL (seat_tail s3 id o acc dn).
  Proof.
    intros HB HP. unfold WFService2.seat_tail.
    set (packet := match op_pubrel o with Some pr => pr | None => op_packet o end).
    assert (Hres : match (match packet with
                          | Publish pb => do (o2, r) <- ores_resolve (s_ores s3) (pub_alias pb) (pub_topic pb) ; Ok (s3 <| s_ores := o2 |>, r)
                          | _ => Ok (s3, no_resolution) end) with
                   | Ok (s4, r) => core_of s4 = core_of s3
                   | _ => True end).
    { destruct packet; try reflexivity. destruct (ores_resolve (s_ores s3) (pub_alias p) (pub_topic p)) as [[o2 r]|k|site]; cbn [obind]; [reflexivity|exact I|exact I]. }
    destruct (match packet with
              | Publish pb => do (o2, r) <- ores_resolve (s_ores s3) (pub_alias pb) (pub_topic pb) ; Ok (s3 <| s_ores := o2 |>, r)
              | _ => Ok (s3, no_resolution) end) as [[s4 r]|k|site]; [|exact HP|exact HP].
    pose proof (PL_core _ _ Hres HP) as HP4. pose proof (PB_core _ _ Hres HB) as HB4.
    destruct (v_out (s_settings s4) (cf_connect cfg) r packet) as [u|k|site]; [| |exact HP4].
    - destruct (enc_reset (cf_version cfg) packet r) as [e|k|site]; [|exact HP4|exact HP4].
      cbn [seat_PL]. eapply PL_core; [|exact HP4]. reflexivity.
    - set (s4' := match r_alias r with
                  | Some _ => s4 <| s_ores := ores_reset (s_ores s4)
                                (match s_settings s4 with Some st => st_topic_alias_maximum_to_server st | None => 0 end) |>
                  | None => s4 end).
      assert (Hc' : core_of s4' = core_of s4) by (unfold s4'; destruct (r_alias r); reflexivity).
      pose proof (PL_core _ _ Hc' HP4) as HP4'. pose proof (PB_core _ _ Hc' HB4) as HB4'. clearbody s4'.
      assert (HPf : PL (r_s (fail_op cfg (s4' <| s_cur := None |>) id k))).
      { apply fail_op_PL; [apply (PB_same s4'); try reflexivity; exact HB4'|apply unseat_PL; exact HP4']. }
      destruct (r_out (fail_op cfg (s4' <| s_cur := None |>) id k)); exact HPf.
  Qed.

  Lemma seat_current_PL (s : state) m acc dn : WFS s -> s_cur s = None -> PL s -> seat_PL (seat_current s m acc dn).
  Proof.
    intros HW Hcur HP. rewrite seat_current_unfold, Hcur.
    destruct (dequeue cfg s m) as [s1 next] eqn:Edq.
    assert (E1 : fst (dequeue cfg s m) = s1) by (rewrite Edq; reflexivity).
    assert (E2 : snd (dequeue cfg s m) = next) by (rewrite Edq; reflexivity).
    destruct next as [id|].
    2:{ rewrite <- E1, (dequeue_none cfg s m E2). exact HP. }
    destruct (dequeue_some cfg s m id E2) as (B & Q & D). rewrite E1 in B, Q, D.
    destruct (but_queues_fields _ _ B) as (B1 & B2 & B3 & B4 & B5 & B6 & B7 & B8 & B9 & B10 & B11 & B12 & B13 & B14 & B15).
    assert (Dq : dq_rel m s s1 id) by exact D.
    set (s2 := s1 <| s_cur := Some id |>).
    assert (HP2 : PL s2) by (apply (dequeue_PL s s1 m id HP Hcur B Dq)).
    assert (HW2 : WFS s2).
    { eapply WFS_queues; [exact HW| | | | | | | | | | |]; cbn; auto; try tauto.
      - core_cbn. cbn. rewrite Hcur, B7, B8. intros p i o Hi Hp T.
        destruct D as [(D1 & D2 & D3)|(D0 & D1 & D2 & [(D3 & D4)|(D3 & D4)])]; rewrite ?D1, ?D2, ?D3, ?D4 in *; cbn in T;
          intuition (subst; auto; try discriminate).
      - core_cbn. cbn. rewrite B9. intros i.
        destruct D as [(D1 & D2 & D3)|(D0 & D1 & D2 & [(D3 & D4)|(D3 & D4)])]; rewrite ?D1, ?D2, ?D3, ?D4 in *; cbn;
          intuition (try (match goal with H : Some _ = Some _ |- _ => inversion H; subst end); auto).
      - intros i Hi. left. destruct D as [(D1 & D2 & D3)|(D0 & D1 & D2 & _)]; [rewrite D1; right; exact Hi|rewrite D2 in Hi; destruct Hi].
      - rewrite B9. auto. }
    cbv zeta. fold s2.
    destruct (op_exists s2 id) eqn:Eex; cbn [negb].
    2:{ cbn [seat_PL]. apply unseat_PL. exact HP2. }
    assert (Hex : exists o, getop s2 id = Some o).
    { unfold op_exists in Eex. unfold getop. destruct (lookup id (s_ops s2)) as [o|]; [eauto|discriminate]. }
    destruct Hex as (o & Ho).
    pose proof (acquire_pid_for_spec [] s2 id o HW2 eq_refl Ho) as Haq.
    destruct (acquire_pid_for s2 id) as [s3|k|site] eqn:Eaq; [|exact HP2|exact HP2].
    destruct Haq as (HW3 & _). pose proof (acquire_PL _ _ _ Eaq HP2) as HP3.
    destruct (lookup id (s_ops s3)) as [o'|]; [|exact HP3].
    apply seat_tail_PL; [eapply WFS_PB; exact HW3|exact HP3].
  Qed.

  (* ---- the encode half of an iteration ---- *)
  Lemma encode_step_PL k now cap fill (s5 : state) acc dn :
    WF cfg s5 -> cinv HC s5 -> live s5 -> s_cur s5 <> None -> 4 <= cap -> PL s5 ->
    (forall s7 acc', WF cfg s7 -> cinv HC s7 -> s_cur s7 = None -> qlen s7 = qlen s5 ->
                     (s_st s7 = s_st s5 \/ s_st s7 = PendingDisconnect) -> PL s7 -> PL (sr_s (k s7 acc'))) ->
    PL (sr_s (encode_step k now cap fill s5 acc dn)).
  Proof.
    intros [HW HP0] HI Hl Hc Hcap HP Hk. unfold WFService3.encode_step. destruct (s_cur s5) as [id|] eqn:Ec; [|congruence].
    destruct (op_exists s5 id) eqn:Eex; cbn [negb]; [|exact HP].
    assert (Hex : exists o, getop s5 id = Some o).
    { unfold op_exists in Eex. unfold getop. destruct (lookup id (s_ops s5)) as [o|]; [eauto|discriminate]. }
    destruct Hex as (o & Ho).
    assert (Hcok : cur_ok s5).
    { unfold WFP in HP0. destruct Hl as [E|E]; rewrite E in HP0; tauto. }
    destruct (Hcok id o Ec Ho) as (Henc & Hbound).
    destruct (s_enc s5) as [e|] eqn:Ee; [|congruence].
    destruct (co_enc_call HC e (fill + len acc) cap (proj1 HI e Ee) Hcap) as (Hnpc & Hinvc).
    destruct (enc_call e (fill + len acc) cap) as [[out e']|kk|site] eqn:Ecall; [|exact HP|exact HP].
    cbv zeta. set (s6 := s5 <| s_enc := Some e' |>).
    assert (HI6 : cinv HC s6).
    { destruct HI as (_ & B & C & D). unfold cinv. cbn. splits; auto. intros e0 He0. inversion He0; subst. eapply Hinvc. reflexivity. }
    assert (HW6 : WFS s6) by exact HW.
    assert (HP6 : WFP cfg s6).
    { eapply (WFP_view cfg s5 s6); [reflexivity| |exact HP0]. intros _. cbn. discriminate. }
    assert (HPL6 : PL s6) by (eapply PL_core; [|exact HP]; reflexivity).
    destruct (enc_done e'); [|exact HPL6].
    destruct (fully_written_spec [] s6 now id o HW6 Ec Ho Hbound) as (s7 & E7 & HW7 & K7 & C7 & O7 & S7 & T7 & M7 & P7).
    rewrite E7.
    assert (Hst7 : s_st s7 = s_st s6 \/ s_st s7 = PendingDisconnect).
    { rewrite S7. destruct (is_disconnect (op_packet o)); tauto. }
    apply Hk.
    - split; [exact HW7|]. eapply (WFP_written _ _ _ _ cfg s6 s7 id o now); eauto.
    - eapply cinv_comp; [|exact HI6]. unfold comp_of. pose proof K7 as Kt. unfold but_fw in Kt. tuple_eqs Kt. congruence.
    - exact C7.
    - unfold but_fw in K7. tuple_eqs K7. unfold qlen. cbn in *. congruence.
    - exact Hst7.
    - apply (fully_written_PL s6 s7 now id o); auto.
      + eapply WFS_PB; exact HW6.
      + exact (w_ppub_inc _ _ HW6).
      + intros Hn. destruct (op_pid o) as [p|] eqn:Hp; [|exfalso; apply (Hbound Hn); reflexivity].
        exists p. split; [reflexivity|]. apply (w_bound _ _ HW6 _ _ _ Ho Hp).
  Qed.

  Lemma service_loop_PL : forall f (s : state) m now cap fill acc dn,
    WF cfg s -> cinv HC s -> (s_st s = PendingConnack -> m = false) -> (mu s < f)%nat -> 4 <= cap -> PL s ->
    PL (sr_s (service_loop f s m now cap fill acc dn)).
  Proof.
    induction f as [|f IH]; intros s m now cap fill acc dn [HW HP0] HI Hm Hmu Hcap HP; [lia|].
    rewrite service_loop_S.
    destruct (negb (pstate_eqb (s_st s) PendingConnack || pstate_eqb (s_st s) Connected)) eqn:Eg; [exact HP|].
    pose proof (live_guard _ _ _ _ s Eg) as Hl.
    destruct (s_cur s) as [id0|] eqn:Ec.
    - assert (Es : seat_current s m acc dn = SeatEncode s) by (unfold Model.seat_current; rewrite Ec; reflexivity).
      rewrite Es. apply encode_step_PL; auto; [split; assumption|congruence|].
      intros s7 acc' HW7 HI7 Hc7 Hq Hst HP7.
      apply IH; [exact HW7|exact HI7|intros E; apply Hm; destruct Hst; congruence| |exact Hcap|exact HP7].
      unfold WFService3.mu in *. rewrite Hc7, Hq, Ec in *. lia.
    - assert (H9 : W9 cfg s).
      { intros E. unfold WFP in HP0. rewrite E in HP0. tauto. }
      assert (Hv : s_settings s <> None \/
                   (m = false /\ forall id o, In id (s_hq s) -> getop s id = Some o -> is_connect (op_packet o) = true)).
      { unfold WFP in HP0. destruct Hl as [E|E]; rewrite E in HP0.
        - right. split; [auto|]. intros id o Hi Ho. destruct HP0 as (_ & _ & _ & _ & A5 & _).
          destruct (A5 id (or_introl Hi)) as (o1 & Ho1 & C1 & _). congruence.
        - left. tauto. }
      pose proof (seat_gen _ _ _ _ _ _ _ _ _ _ _ _ _ _ _ HC s m acc dn HW Ec H9 Hv HI) as Hpost.
      pose proof (seat_current_PL s m acc dn HW Ec HP) as Hpl.
      destruct (seat_current s m acc dn) as [r|s5 dn'|s5]; cbn [seat_post seat_PL] in Hpost, Hpl.
      + exact Hpl.
      + destruct Hpost as (HI5 & _ & HW5 & Hc5 & id & Hcase).
        assert (H5 : WFP cfg s5 /\ s_st s5 = s_st s /\ qlen s = S (qlen s5)).
        { destruct Hcase as [(G & K & D & Eo & Ee)|(s4 & Hsd & F & Hc4 & H95 & Hg)].
          - split; [eapply WFP_skip; eauto|]. split; [|eapply dq_rel_qlen; eauto].
            unfold seat_keep in K. tuple_eqs K. congruence.
          - split; [eapply WFP_failed; eauto|].
            destruct Hsd as [K D _ _ _]. unfold seat_keep in K. tuple_eqs K.
            destruct (rest_fields _ _ (fc_rest _ _ _ F)) as (R1 & R2 & R3 & _).
            split.
            + destruct (fc_st _ _ _ F) as [E|[E _]]; [congruence|]. destruct Hl; congruence.
            + rewrite (dq_rel_qlen _ _ _ _ _ _ _ _ D). unfold qlen. congruence. }
        destruct H5 as (HP5 & Hst5 & Hq5).
        apply IH; [split; assumption|exact HI5|rewrite Hst5; exact Hm| |exact Hcap|exact Hpl].
        unfold WFService3.mu in *. rewrite Hc5, Ec in *. lia.
      + destruct Hpost as (HI5 & _ & HW5 & id & Hsd & Hc5 & He5).
        assert (HP5 : WFP cfg s5) by exact (WFP_seated _ _ _ _ cfg m s s5 id HW HP0 Hl Ec Hm Hsd Hc5 He5).
        assert (Hst5 : s_st s5 = s_st s) by (destruct Hsd as [K _ _ _ _]; unfold seat_keep in K; tuple_eqs K; congruence).
        assert (Hq5 : qlen s = S (qlen s5)) by (destruct Hsd as [_ D _ _ _]; eapply dq_rel_qlen; eauto).
        apply encode_step_PL; auto; [split; assumption|unfold live in *; rewrite Hst5; exact Hl|congruence|].
        intros s7 acc' HW7 HI7 Hc7 Hq Hst HP7.
        apply IH; [exact HW7|exact HI7|intros E; apply Hm; rewrite <- Hst5; destruct Hst; congruence| |exact Hcap|exact HP7].
        unfold WFService3.mu in *. rewrite Hc7, Hq, Ec in *. lia.
  Qed.

  Lemma service_queue_PL (s : state) m now cap fill :
    WF cfg s -> cinv HC s -> (s_st s = PendingConnack -> m = false) -> 4 <= cap -> PL s ->
    PL (sr_s (service_queue s m now cap fill)).
  Proof.
    intros HW HI Hm Hcap HP. unfold Model.service_queue.
    set (fuel := S (S (length (s_hq s) + length (s_rq s) + length (s_uq s)))).
    assert (L : PL (sr_s (service_loop (fuel + fuel) s m now cap fill [] []))).
    { apply service_loop_PL; auto. unfold WFService3.mu, qlen, fuel. destruct (s_cur s); lia. }
    set (r := service_loop (fuel + fuel) s m now cap fill [] []) in *.
    destruct (sr_bytes r); [exact L|]. cbn [sr_s]. eapply PL_core; [|exact L]. reflexivity.
  Qed.

  (* ---- keep-alive: a PINGREQ operation enters the high-priority queue ---- *)
  Lemma service_keep_alive_PL (s s1 : state) now : WFS s -> PL s -> service_keep_alive cfg s now = Ok s1 -> PL s1.
  Proof.
    intros HW HP. unfold service_keep_alive.
    destruct (s_ping_to s) as [pt|]; [destruct (pt <=? now); [discriminate|intros H; inversion H; subst; exact HP]|].
    destruct (s_next_ping s) as [np|]; [|intros H; inversion H; subst; exact HP].
    destruct (np <=? now); [|intros H; inversion H; subst; exact HP].
    cbn [create_operation]. cbv zeta. cbn [s_settings]. destruct (s_settings _) as [st|]; [|discriminate].
    destruct (add_time 1493 now _) as [pt|k|site]; cbn [obind]; [|discriminate|discriminate].
    destruct (0 <? st_server_keep_alive st); intros H; inversion H; subst s1; eapply (PL_newop s _ _ HW HP); try reflexivity; auto 6.
  Qed.

  Lemma process_ack_timeouts_PL (s : state) now : PB s -> PL s -> PL (r_s (process_ack_timeouts cfg s now)).
  Proof.
    intros HB HP. unfold process_ack_timeouts. apply fail_all_PL.
    - apply (PB_same s); try reflexivity. exact HB.
    - eapply PL_core; [|exact HP]. reflexivity.
  Qed.

  Theorem service_PL (s : state) now cap fill :
    WF cfg s -> cinv HC s -> now <= TMAX -> 4 <= cap -> PL s -> PL (sr_s (service s now cap fill)).
  Proof.
    intros HWF HI Hnow Hcap HP. pose proof HWF as [HW HP0]. unfold Model.service. cbv zeta. cbn [sr_s]. apply halt_PL.
    destruct (s_st s) eqn:Est.
    - exact HP.
    - destruct (s_connack_to s) as [t|]; [|exact HP]. destruct (t <=? now); [exact HP|].
      apply service_queue_PL; auto.
    - pose proof (service_keep_alive_spec _ _ _ _ cfg Hcfg s now HWF Est Hnow) as Hka.
      destruct (service_keep_alive cfg s now) as [s1|k|site] eqn:Ek; [|exact HP|exact HP].
      destruct Hka as (HWF1 & Hst1 & Hc1 & _). pose proof (service_keep_alive_PL s s1 now HW HP Ek) as Hkp.
      assert (HI1 : cinv HC s1) by (eapply cinv_comp; [exact Hc1|exact HI]).
      pose proof (service_queue_spec _ _ _ enc_done _ _ _ _ _ _ _ _ _ _ _ _ HC s1 true now cap fill HWF1 HI1 (fun E => ltac:(congruence)) Hcap) as (L1 & L2 & _).
      pose proof (service_queue_PL s1 true now cap fill HWF1 HI1 (fun E => ltac:(congruence)) Hcap Hkp) as Lp.
      set (q := service_queue s1 true now cap fill) in *.
      destruct (sr_out q); [|exact Lp|exact Lp]. cbn [sr_s]. apply process_ack_timeouts_PL; [eapply WFS_PB; exact L2|exact Lp].
    - cbn [sr_s]. apply process_ack_timeouts_PL; [eapply WFS_PB; exact HW|exact HP].
    - exact HP.
  Qed.
End Serve.
