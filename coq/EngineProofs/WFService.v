(* Well-formedness through the service path, part 1: create_operation, dequeue, acquire_pid_for,
   fully_written. *)
From GM Require Import Base.Prelude Base.Outcome Codec.Packets Codec.Settings Engine.Model
  EngineProofs.AssocLemmas EngineProofs.PacketIds EngineProofs.WFLemmas EngineProofs.WFDefs EngineProofs.WFCore
  EngineProofs.WFComplete EngineProofs.WFClose.
From Coq Require Import Sorting.Sorted.
From RecordUpdate Require Import RecordSet.
Import RecordSetNotations.
Open Scope N_scope.

(* the four component types are implicit in the engine functions, locally to this file *)
#[local] Arguments init {enc dec} _ {ores ires} _ _.
#[local] Arguments release {enc dec ores ires} _ _ _ _.
#[local] Arguments disconnect_completion {enc dec ores ires} _ _.
#[local] Arguments fail_op {enc dec ores ires} _ _ _ _.
#[local] Arguments ping_extension {enc dec ores ires} _ _.
#[local] Arguments succeed_op {enc dec ores ires} _ _ _ _.
#[local] Arguments fail_all {enc dec ores ires} _ _ _ _.
#[local] Arguments succeed_all {enc dec ores ires} _ _ _.
#[local] Arguments andthen {enc dec ores ires} _ _.
#[local] Arguments try_ {enc dec ores ires} _ _.
#[local] Arguments pure {enc dec ores ires} _.
#[local] Arguments create_operation {enc dec ores ires} _ _.
#[local] Arguments passes_now {enc dec ores ires} _ _ _.
#[local] Arguments user_event {enc dec ores ires} _ _ _ _.
#[local] Arguments create_connect {enc dec ores ires} _ _.
#[local] Arguments net_opened {enc dec} _ {ores ires} _ _ _.
#[local] Arguments op_exists {enc dec ores ires} _ _.
#[local] Arguments op_passes {enc dec ores ires} _ _ _.
#[local] Arguments partition_policy {enc dec ores ires} _ _ _.
#[local] Arguments closed_current {enc dec ores ires} _ _.
#[local] Arguments slow_start_init {enc dec ores ires} _ _.
#[local] Arguments update_retries {enc dec ores ires} _ _.
#[local] Arguments fail_exceeding {enc dec ores ires} _ _.
#[local] Arguments has_pubrel {enc dec ores ires} _ _.
#[local] Arguments net_closed_raw {enc dec ores ires} _ _.
#[local] Arguments net_closed {enc dec ores ires} _ _.
#[local] Arguments net_write_completion {enc dec ores ires} _ _.
#[local] Arguments acquire_free_pid {enc dec ores ires} _ _.
#[local] Arguments acquire_pid_for {enc dec ores ires} _ _.
#[local] Arguments unbind {enc dec ores ires} _ _.
#[local] Arguments passes_receive_max {enc dec ores ires} _ _.
#[local] Arguments throttled {enc dec ores ires} _ _.
#[local] Arguments has_pending_ack {enc dec ores ires} _.
#[local] Arguments dequeue {enc dec ores ires} _ _ _.
#[local] Arguments fully_written {enc dec ores ires} _ _.
#[local] Arguments service_keep_alive {enc dec ores ires} _ _ _.
#[local] Arguments process_ack_timeouts {enc dec ores ires} _ _ _.
#[local] Arguments halt_on_error {enc dec ores ires} _ _.
#[local] Arguments next_service_time {enc dec ores ires} _ _ _.
#[local] Arguments build_settings {enc dec ores ires} _ _ _.
#[local] Arguments apply_session {enc dec ores ires} _ _ _.
#[local] Arguments hres_of {enc dec ores ires} _ _.
#[local] Arguments pre_connack {enc dec ores ires} _.
#[local] Arguments sum_ss {enc dec ores ires} _.
#[local] Arguments handle_pingresp {enc dec ores ires} _.
#[local] Arguments handle_suback {enc dec ores ires} _ _ _.
#[local] Arguments handle_unsuback {enc dec ores ires} _ _ _.
#[local] Arguments publish_qos_of {enc dec ores ires} _ _.
#[local] Arguments handle_puback {enc dec ores ires} _ _ _.
#[local] Arguments handle_pubrec {enc dec ores ires} _ _ _.
#[local] Arguments handle_pubrel {enc dec ores ires} _ _.
#[local] Arguments handle_pubcomp {enc dec ores ires} _ _ _.
#[local] Arguments handle_publish {enc dec ores ires} _ _.
#[local] Arguments handle_disconnect {enc dec ores ires} _ _ _.
#[local] Arguments is_connect_op {enc dec ores ires} _ _.
#[local] Arguments connect_in_queue {enc dec ores ires} _.
#[local] Arguments reset {enc dec ores ires} _ _.
#[local] Arguments out_of_res {enc dec ores ires} _ _.
#[local] Arguments nst_queue {enc dec ores ires} _ _ _ _.
#[local] Arguments earliest_tmo {enc dec ores ires} _.
#[local] Arguments SeatStop {enc dec ores ires} _.
#[local] Arguments SeatContinue {enc dec ores ires} _ _.
#[local] Arguments SeatEncode {enc dec ores ires} _.


Section Service.
  Context {enc dec ores ires : Type}.
  Notation state := (state enc dec ores ires).
  Notation res := (res enc dec ores ires).
  Variable cfg : config.

  Ltac splits := repeat match goal with |- _ /\ _ => split end.
  Ltac core_cbn := unfold tracked, inq; cbn [core_of c_ops c_uq c_rq c_hq c_cur c_alloc c_ppub c_pnon c_pwco c_nid c_npid].

  (* everything but the operation table, the id counter *)
  Definition but_ops (s : state) :=
    (s_st s, s_pwc s, s_tmo s, s_uq s, s_rq s, s_hq s, s_cur s, s_enc s, s_q2in s, s_alloc s, s_ppub s, s_pnon s, s_pwco s,
     s_settings s, s_next_pid s, s_connected_before s, s_dec s, s_next_ping s, s_ping_to s, s_connack_to s, s_ores s,
     s_ires s, s_ss_count s).

  Lemma create_op_spec X (s : state) o :
    WFSx X s -> op_pid o = None -> op_pubrel o = None ->
    let s' := fst (create_operation s o) in
    snd (create_operation s o) = s_next_id s /\ WFSx X s' /\ but_ops s' = but_ops s /\
    s_next_id s' = s_next_id s + 1 /\ s_ops s' = s_ops s ++ [(s_next_id s, o)] /\
    getop s' (s_next_id s) = Some o /\ getop s (s_next_id s) = None /\
    (forall i o', getop s' i = Some o' -> getop s i = Some o' \/ (i = s_next_id s /\ o' = o)) /\
    (forall i o', getop s i = Some o' -> getop s' i = Some o') /\
    sumss (s_ops s') = sumss (s_ops s) + op_ss o.
  Proof.
    intros HW Hp Hr. cbn.
    assert (Hfresh : lookup (s_next_id s) (s_ops s) = None).
    { apply lookup_none_not_in. intros Hin. pose proof (w_lt _ _ HW _ Hin) as Hlt. cbn in Hlt. lia. }
    splits; try reflexivity.
    - eapply WFc_add_op; [exact HW|exact Hp|exact Hr|reflexivity].
    - unfold getop. cbn. rewrite lookup_app, Hfresh. cbn. rewrite N.eqb_refl. reflexivity.
    - exact Hfresh.
    - intros i o'. unfold getop. cbn. rewrite lookup_app. destruct (lookup i (s_ops s)); [tauto|]. cbn.
      destruct (s_next_id s =? i) eqn:E; [|discriminate]. intros Hx; inversion Hx. right. split; [lia|reflexivity].
    - intros i o'. unfold getop. cbn. rewrite lookup_app. intros ->. reflexivity.
    - rewrite sumss_app. rewrite sumss_cons. change (sumss []) with 0. lia.
  Qed.

  (* ---- dequeue ---- *)
  Definition but_queues (s : state) :=
    (s_st s, s_pwc s, s_ops s, s_tmo s, s_cur s, s_enc s, s_q2in s, s_alloc s, s_ppub s, s_pnon s, s_pwco s,
     s_settings s, s_next_id s, s_next_pid s, s_connected_before s, s_dec s, s_next_ping s, s_ping_to s, s_connack_to s,
     s_ores s, s_ires s, s_ss_count s).

  Definition qlen (s : state) : nat := (length (s_hq s) + length (s_rq s) + length (s_uq s))%nat.

  Lemma dequeue_none (s : state) m : snd (dequeue cfg s m) = None -> fst (dequeue cfg s m) = s.
  Proof.
    unfold dequeue. destruct (s_pwc s); [reflexivity|]. destruct (s_hq s); [|discriminate].
    destruct (negb m); [reflexivity|]. destruct (throttled cfg s && has_pending_ack s); [reflexivity|].
    destruct (s_rq s).
    - destruct (s_uq s); [reflexivity|]. destruct (passes_receive_max s n); [discriminate|reflexivity].
    - destruct (passes_receive_max s n); [discriminate|reflexivity].
  Qed.

  Lemma dequeue_some (s : state) m id :
    snd (dequeue cfg s m) = Some id ->
    let s' := fst (dequeue cfg s m) in
    but_queues s' = but_queues s /\ qlen s = S (qlen s') /\
    ((s_hq s = id :: s_hq s' /\ s_rq s' = s_rq s /\ s_uq s' = s_uq s) \/
     (m = true /\ s_hq s = [] /\ s_hq s' = [] /\
      ((s_rq s = id :: s_rq s' /\ s_uq s' = s_uq s) \/ (s_uq s = id :: s_uq s' /\ s_rq s' = s_rq s)))).
  Proof.
    unfold dequeue, qlen. destruct (s_pwc s); [discriminate|]. destruct (s_hq s) as [|h r] eqn:Eh.
    2:{ cbn. intros Hx; inversion Hx; subst. cbn. rewrite ?Eh, ?Er, ?Eu. cbn. splits; try reflexivity. left. auto. }
    destruct m; cbn [negb]; [|discriminate]. destruct (throttled cfg s && has_pending_ack s); [discriminate|].
    destruct (s_rq s) as [|h r] eqn:Er.
    - destruct (s_uq s) as [|h r] eqn:Eu; [discriminate|]. destruct (passes_receive_max s h); [|discriminate].
      cbn. intros Hx; inversion Hx; subst. cbn. rewrite ?Eh, ?Er, ?Eu. cbn. splits; try reflexivity; try lia. right. auto 10.
    - destruct (passes_receive_max s h); [|discriminate].
      cbn. intros Hx; inversion Hx; subst. cbn. rewrite ?Eh, ?Er, ?Eu. cbn. splits; try reflexivity; try lia. right. auto 10.
  Qed.

  Lemma but_queues_fields (s s' : state) : but_queues s' = but_queues s ->
    s_st s' = s_st s /\ s_ops s' = s_ops s /\ s_tmo s' = s_tmo s /\ s_cur s' = s_cur s /\ s_enc s' = s_enc s /\
    s_alloc s' = s_alloc s /\ s_ppub s' = s_ppub s /\ s_pnon s' = s_pnon s /\ s_pwco s' = s_pwco s /\
    s_settings s' = s_settings s /\ s_next_id s' = s_next_id s /\ s_next_pid s' = s_next_pid s /\
    s_connack_to s' = s_connack_to s /\ s_ss_count s' = s_ss_count s /\ s_pwc s' = s_pwc s.
  Proof.
    unfold but_queues. intros H. repeat (apply pair_equal_spec in H; destruct H as [H ?]). splits; assumption.
  Qed.

  (* ---- acquire_pid_for ---- *)
  Definition but_aq (s : state) :=
    (s_st s, s_pwc s, s_tmo s, s_uq s, s_rq s, s_hq s, s_cur s, s_enc s, s_q2in s, s_ppub s, s_pnon s, s_pwco s,
     s_settings s, s_next_id s, s_connected_before s, s_dec s, s_next_ping s, s_ping_to s, s_connack_to s, s_ores s,
     s_ires s, s_ss_count s).

  (* what binding a packet id may change in an operation *)
  Definition aq_rel (o o' : op) : Prop :=
    op_pubrel o' = op_pubrel o /\ op_user o' = op_user o /\ op_timeout o' = op_timeout o /\ op_ss o' = op_ss o /\
    is_connect (op_packet o') = is_connect (op_packet o) /\ is_disconnect (op_packet o') = is_disconnect (op_packet o) /\
    needs_pid (op_packet o') = needs_pid (op_packet o) /\
    (needs_pid (op_packet o) = false -> o' = o).

  Lemma aq_rel_refl o : aq_rel o o.
  Proof. unfold aq_rel. splits; reflexivity. Qed.

  Lemma acquire_pid_for_spec X (s : state) id o :
    WFSx X s -> s_cur s = Some id -> getop s id = Some o ->
    match acquire_pid_for s id with
    | Panic _ => False
    | Err _ => True
    | Ok s' =>
        WFSx X s' /\ but_aq s' = but_aq s /\
        (exists o', getop s' id = Some o' /\ aq_rel o o' /\ (needs_pid (op_packet o') = true -> op_pid o' <> None)) /\
        (forall i, i <> id -> getop s' i = getop s i) /\ sumss (s_ops s') = sumss (s_ops s)
    end.
  Proof.
    intros HW Hc Hid. unfold acquire_pid_for. unfold getop in Hid. rewrite Hid.
    destruct (op_pid o) as [p|] eqn:Hp.
    { splits; auto. exists o. splits; auto using aq_rel_refl. congruence. }
    destruct (needs_pid (op_packet o)) eqn:Hn; cbn [negb].
    2:{ splits; auto. exists o. splits; auto using aq_rel_refl. congruence. }
    destruct (acquire_free_pid s id) as [[s1 pid]|k|site] eqn:Eaq; cbn [obind]; [| exact I | exact (acquire_never_panics _ _ _ Eaq)].
    assert (Hpok : pids_ok s) by exact (w_pids _ _ HW).
    destruct (acquire_ok _ _ _ _ Hpok Eaq) as (Hr & Hfree & _ & _ & Hpok1).
    unfold acquire_free_pid in Eaq.
    destruct (match first_gap (map fst (s_alloc s)) (s_next_pid s) 65535 with
              | Some c => Some c | None => first_gap (map fst (s_alloc s)) 1 (s_next_pid s - 1) end) as [c|]; [|discriminate].
    inversion Eaq; subst s1 pid; clear Eaq.
    destruct (with_pid_needs c _ Hn) as (p' & Hwp). rewrite Hwp. cbn [obind].
    destruct (with_pid_ok _ _ _ Hwp) as (P1 & P2 & P3 & P4).
    splits.
    - eapply (WFc_acquire X (core_of s) _ id o c p'); [exact HW|exact Hid|exact Hp|exact Hn|exact Hfree|exact Hwp| |exact Hpok1|reflexivity].
      core_cbn. tauto.
    - reflexivity.
    - eexists. split; [unfold getop; cbn; apply lookup_update_eq; exact Hid|]. cbn. split; [|discriminate].
      unfold aq_rel. cbn. splits; try reflexivity.
      + destruct (op_packet o); cbn in Hwp; inversion Hwp; reflexivity.
      + destruct (op_packet o); cbn in Hwp; inversion Hwp; reflexivity.
      + rewrite !needs_pid_split. congruence.
      + congruence.
    - intros i Hne. unfold getop. cbn. apply lookup_update_neq. exact Hne.
    - cbn. apply sumss_update. intros o0. reflexivity.
  Qed.

  (* ---- fully_written: the three shapes of the resulting core ---- *)
  Definition neutral (f : op -> op) : Prop :=
    forall o, op_pid (f o) = op_pid o /\ op_packet (f o) = op_packet o /\ op_pubrel (f o) = op_pubrel o.

  Lemma WFc_written_pwco X c c' id o f :
    WFc X c -> gop c id = Some o -> c_cur c = Some id -> needs_pid (op_packet o) = false -> neutral f ->
    c' = mkCore (update id f (c_ops c)) (c_uq c) (c_rq c) (c_hq c) None (c_alloc c) (c_ppub c) (c_pnon c)
                (c_pwco c ++ [id]) (c_nid c) (c_npid c) ->
    WFc X c'.
  Proof.
    intros H Hid Hc Hn Hf ->.
    set (c1 := mkCore (update id f (c_ops c)) (c_uq c) (c_rq c) (c_hq c) (c_cur c) (c_alloc c) (c_ppub c) (c_pnon c)
                      (c_pwco c) (c_nid c) (c_npid c)).
    assert (H1 : WFc X c1).
    { eapply WFc_update; [exact H| |reflexivity]. intros o0 _. destruct (Hf o0) as (F1 & F2 & F3). apply upd_ok_neutral; assumption. }
    assert (Hid1 : gop c1 id = Some (f o)) by (unfold gop, c1; cbn; apply lookup_update_eq; exact Hid).
    eapply (WFc_mono X X c1); [exact H1| | | | | | | | | | | |]; cbn; try reflexivity; try lia; try apply H1; auto.
    - core_cbn. cbn. intros p i o0 Hi Hp T. destruct T as [T|[T|[T|[T|T]]]]; try tauto.
      rewrite Hc in T. inversion T; subst i. assert (o0 = f o) by (unfold gop, c1 in *; cbn in *; congruence). subst o0.
      destruct (w_bound _ _ H1 _ _ _ Hid1 Hp) as (_ & _ & B). destruct (Hf o) as (_ & F2 & _). rewrite F2 in B. congruence.
    - core_cbn. cbn. rewrite Hc. intros i [Hi|[Hi|[Hi|[Hi|Hi]]]]; try tauto; [discriminate|].
      apply in_app_or in Hi. destruct Hi as [Hi|[<-|[]]]; tauto.
    - intros i Hi. apply in_app_or in Hi. destruct Hi as [Hi|[<-|[]]]; [tauto|]. right. intros o0 Ho0.
      assert (o0 = f o) by (unfold gop, c1 in *; cbn in *; congruence). subst o0.
      destruct (Hf o) as (_ & F2 & _). rewrite F2. exact Hn.
  Qed.

  Lemma WFc_written_ppub X c c' id o p f :
    WFc X c -> gop c id = Some o -> c_cur c = Some id -> op_pid o = Some p -> pubq (op_packet o) = true -> neutral f ->
    c' = mkCore (update id f (c_ops c)) (c_uq c) (c_rq c) (c_hq c) None (c_alloc c) (insert p id (c_ppub c)) (c_pnon c)
                (c_pwco c) (c_nid c) (c_npid c) ->
    WFc X c'.
  Proof.
    intros H Hid Hc Hp Hk Hf ->.
    set (c1 := mkCore (update id f (c_ops c)) (c_uq c) (c_rq c) (c_hq c) (c_cur c) (c_alloc c) (c_ppub c) (c_pnon c)
                      (c_pwco c) (c_nid c) (c_npid c)).
    assert (H1 : WFc X c1).
    { eapply WFc_update; [exact H| |reflexivity]. intros o0 _. destruct (Hf o0) as (F1 & F2 & F3). apply upd_ok_neutral; assumption. }
    assert (Hid1 : gop c1 id = Some (f o)) by (unfold gop, c1; cbn; apply lookup_update_eq; exact Hid).
    destruct (Hf o) as (F1 & F2 & F3).
    eapply (WFc_insert_ppub X c1 _ id (f o) p None); [exact H1|exact Hid1|congruence|congruence| |reflexivity].
    right. split; [reflexivity|exact Hc].
  Qed.

  Lemma WFc_written_pnon X c c' id o p f :
    WFc X c -> gop c id = Some o -> c_cur c = Some id -> op_pid o = Some p -> nonk (op_packet o) = true -> neutral f ->
    c' = mkCore (update id f (c_ops c)) (c_uq c) (c_rq c) (c_hq c) None (c_alloc c) (c_ppub c) (insert p id (c_pnon c))
                (c_pwco c) (c_nid c) (c_npid c) ->
    WFc X c'.
  Proof.
    intros H Hid Hc Hp Hk Hf ->.
    set (c1 := mkCore (update id f (c_ops c)) (c_uq c) (c_rq c) (c_hq c) (c_cur c) (c_alloc c) (c_ppub c) (c_pnon c)
                      (c_pwco c) (c_nid c) (c_npid c)).
    assert (H1 : WFc X c1).
    { eapply WFc_update; [exact H| |reflexivity]. intros o0 _. destruct (Hf o0) as (F1 & F2 & F3). apply upd_ok_neutral; assumption. }
    assert (Hid1 : gop c1 id = Some (f o)) by (unfold gop, c1; cbn; apply lookup_update_eq; exact Hid).
    destruct (Hf o) as (F1 & F2 & F3).
    eapply (WFc_insert_pnon X c1 _ id (f o) p None); [exact H1|exact Hid1|congruence|congruence| |reflexivity].
    right. split; [reflexivity|exact Hc].
  Qed.

  Definition but_fw (s : state) :=
    (s_pwc s, s_uq s, s_rq s, s_hq s, s_enc s, s_q2in s, s_alloc s, s_settings s, s_next_id s, s_next_pid s,
     s_connected_before s, s_dec s, s_next_ping s, s_ping_to s, s_connack_to s, s_ores s, s_ires s, s_ss_count s).

  Lemma neutral_ext now : neutral (fun o : op => o <| op_ext := Some now |>).
  Proof. intros o. cbn. tauto. Qed.

  Lemma fully_written_spec X (s : state) now id o :
    WFSx X s -> s_cur s = Some id -> getop s id = Some o -> (needs_pid (op_packet o) = true -> op_pid o <> None) ->
    exists s', fully_written s now = Ok s' /\ WFSx X s' /\ but_fw s' = but_fw s /\ s_cur s' = None /\
      s_ops s' = update id (fun o => o <| op_ext := Some now |>) (s_ops s) /\
      s_st s' = (if is_disconnect (op_packet o) then PendingDisconnect else s_st s) /\
      (op_user o = false -> s_tmo s' = s_tmo s) /\
      (forall j, In j (s_pwco s) -> In j (s_pwco s')) /\
      (needs_pid (op_packet o) = false -> s_pwco s' = s_pwco s ++ [id] /\ s_ppub s' = s_ppub s /\ s_pnon s' = s_pnon s).
  Proof.
    intros HW Hc Hid Hb. unfold fully_written. rewrite Hc. unfold getop in Hid. rewrite Hid.
    assert (Hbound : needs_pid (op_packet o) = true -> exists p, op_pid o = Some p /\ pkt_pid (op_packet o) = Some p).
    { intros Hn. destruct (op_pid o) as [p|] eqn:Hp; [|exfalso; apply (Hb Hn); reflexivity].
      exists p. split; [reflexivity|]. apply (w_bound _ _ HW _ _ _ Hid Hp). }
    assert (Hpw : forall s' : state, needs_pid (op_packet o) = false ->
              core_of s' = mkCore (update id (fun o => o <| op_ext := Some now |>) (s_ops s)) (s_uq s) (s_rq s) (s_hq s) None
                                  (s_alloc s) (s_ppub s) (s_pnon s) (s_pwco s ++ [id]) (s_next_id s) (s_next_pid s) ->
              WFSx X s').
    { intros s' Hn E. eapply WFc_written_pwco; [exact HW|exact Hid|exact Hc|exact Hn|apply neutral_ext|exact E]. }
    assert (Hpp : forall (s' : state) p, op_pid o = Some p -> pubq (op_packet o) = true ->
              core_of s' = mkCore (update id (fun o => o <| op_ext := Some now |>) (s_ops s)) (s_uq s) (s_rq s) (s_hq s) None
                                  (s_alloc s) (insert p id (s_ppub s)) (s_pnon s) (s_pwco s) (s_next_id s) (s_next_pid s) ->
              WFSx X s').
    { intros s' p Hp Hk E. eapply WFc_written_ppub; [exact HW|exact Hid|exact Hc|exact Hp|exact Hk|apply neutral_ext|exact E]. }
    assert (Hpn : forall (s' : state) p, op_pid o = Some p -> nonk (op_packet o) = true ->
              core_of s' = mkCore (update id (fun o => o <| op_ext := Some now |>) (s_ops s)) (s_uq s) (s_rq s) (s_hq s) None
                                  (s_alloc s) (s_ppub s) (insert p id (s_pnon s)) (s_pwco s) (s_next_id s) (s_next_pid s) ->
              WFSx X s').
    { intros s' p Hp Hk E. eapply WFc_written_pnon; [exact HW|exact Hid|exact Hc|exact Hp|exact Hk|apply neutral_ext|exact E]. }
    clear Hb.
    destruct (op_user o) eqn:Eu; [destruct (op_timeout o) as [d|] eqn:Et; [destruct (IMAX <? now + d) eqn:El|]|];
    (destruct (op_packet o) as [c|c|pb|a|a|a|a|sb|a|un|a| | |dd|a] eqn:Ep;
     [ | |destruct (pub_qos pb =? 0) eqn:Eq| | | | | | | | | | | | ]);
    cbn [obind]; eexists; (split; [reflexivity|]); cbn [is_disconnect]; split.
    all: try (apply Hpw; [cbn; rewrite ?Eq; reflexivity|reflexivity]; fail).
    all: try (splits; try reflexivity; try discriminate;
              try (intros j Hj; cbn; first [exact Hj | apply in_or_app; left; exact Hj]; fail);
              cbn; rewrite ?Eq; cbn; try discriminate; intros _; splits; reflexivity).
    all: match type of Hbound with ?A -> _ => assert (Hn : A) by (cbn; rewrite ?Eq; reflexivity) end;
         destruct (Hbound Hn) as (p & Hp1 & Hp2); cbn in Hp2; inversion Hp2; subst p;
         first [ eapply Hpp; [exact Hp1|cbn; rewrite ?Eq; reflexivity|reflexivity]
               | eapply Hpn; [exact Hp1|reflexivity|reflexivity] ].
  Qed.
End Service.
