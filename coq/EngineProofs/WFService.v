(* Well-formedness through the service path, part 1: create_operation, dequeue, acquire_pid_for,
   fully_written. *)
From GM Require Import Base.Prelude Base.Outcome Codec.Packets Codec.Settings Engine.Model
  EngineProofs.AssocLemmas EngineProofs.PacketIds EngineProofs.WFLemmas EngineProofs.WFDefs EngineProofs.WFCore
  EngineProofs.WFComplete EngineProofs.WFClose.
From Coq Require Import Sorting.Sorted.
From RecordUpdate Require Import RecordSet.
Import RecordSetNotations.
Open Scope N_scope.

Section Service.
  Context {enc dec ores ires : Type}.
  Notation state := (state enc dec ores ires).
  Notation res := (res enc dec ores ires).
  Variable cfg : config.

  Ltac splits := repeat match goal with |- _ /\ _ => split end.
  Ltac core_cbn := unfold tracked, inq; cbn [core_of c_ops c_uq c_rq c_hq c_cur c_alloc c_ppub c_pnon c_pwco c_nid c_npid].

  (* everything but the operation table, the id counter *)
  Definition but_ops (s : state) :=
    (s_st s, s_pwc s, s_tmo s, s_uq s, s_rq s, s_hq s, s_cur s, s_enc s, s_q2in s, s_alloc s, s_ppub s, s_pnon s, s_pwco s,
     s_settings s, s_next_pid s, s_connected_before s, s_dec s, s_next_ping s, s_ping_to s, s_connack_to s, s_ores s,
     s_ires s, s_ss_count s).

  Lemma create_op_spec X (s : state) o :
    WFSx X s -> op_pid o = None -> op_pubrel o = None ->
    let s' := fst (create_operation s o) in
    snd (create_operation s o) = s_next_id s /\ WFSx X s' /\ but_ops s' = but_ops s /\
    s_next_id s' = s_next_id s + 1 /\ s_ops s' = s_ops s ++ [(s_next_id s, o)] /\
    getop s' (s_next_id s) = Some o /\ getop s (s_next_id s) = None /\
    (forall i o', getop s' i = Some o' -> getop s i = Some o' \/ (i = s_next_id s /\ o' = o)) /\
    (forall i o', getop s i = Some o' -> getop s' i = Some o') /\
    sumss (s_ops s') = sumss (s_ops s) + op_ss o.
  Proof.
    intros HW Hp Hr. cbn.
    assert (Hfresh : lookup (s_next_id s) (s_ops s) = None).
    { apply lookup_none_not_in. intros Hin. pose proof (w_lt _ _ HW _ Hin) as Hlt. cbn in Hlt. lia. }
    splits; try reflexivity.
    - eapply WFc_add_op; [exact HW|exact Hp|exact Hr|reflexivity].
    - unfold getop. cbn. rewrite lookup_app, Hfresh. cbn. rewrite N.eqb_refl. reflexivity.
    - exact Hfresh.
    - intros i o'. unfold getop. cbn. rewrite lookup_app. destruct (lookup i (s_ops s)); [tauto|]. cbn.
      destruct (s_next_id s =? i) eqn:E; [|discriminate]. intros Hx; inversion Hx. right. split; [lia|reflexivity].
    - intros i o'. unfold getop. cbn. rewrite lookup_app. intros ->. reflexivity.
    - rewrite sumss_app. rewrite sumss_cons. change (sumss []) with 0. lia.
  Qed.

  (* ---- dequeue ---- *)
  Definition but_queues (s : state) :=
    (s_st s, s_pwc s, s_ops s, s_tmo s, s_cur s, s_enc s, s_q2in s, s_alloc s, s_ppub s, s_pnon s, s_pwco s,
     s_settings s, s_next_id s, s_next_pid s, s_connected_before s, s_dec s, s_next_ping s, s_ping_to s, s_connack_to s,
     s_ores s, s_ires s, s_ss_count s).

  Definition qlen (s : state) : nat := (length (s_hq s) + length (s_rq s) + length (s_uq s))%nat.

  Lemma dequeue_none (s : state) m : snd (dequeue cfg s m) = None -> fst (dequeue cfg s m) = s.
  Proof.
    unfold dequeue. destruct (s_pwc s); [reflexivity|]. destruct (s_hq s); [|discriminate].
    destruct (negb m); [reflexivity|]. destruct (throttled cfg s && has_pending_ack s); [reflexivity|].
    destruct (s_rq s).
    - destruct (s_uq s); [reflexivity|]. destruct (passes_receive_max s n); [discriminate|reflexivity].
    - destruct (passes_receive_max s n); [discriminate|reflexivity].
  Qed.

  Lemma dequeue_some (s : state) m id :
    snd (dequeue cfg s m) = Some id ->
    let s' := fst (dequeue cfg s m) in
    but_queues s' = but_queues s /\ qlen s = S (qlen s') /\
    ((s_hq s = id :: s_hq s' /\ s_rq s' = s_rq s /\ s_uq s' = s_uq s) \/
     (m = true /\ s_hq s = [] /\ s_hq s' = [] /\
      ((s_rq s = id :: s_rq s' /\ s_uq s' = s_uq s) \/ (s_uq s = id :: s_uq s' /\ s_rq s' = s_rq s)))).
  Proof.
    unfold dequeue, qlen. destruct (s_pwc s); [discriminate|]. destruct (s_hq s) as [|h r] eqn:Eh.
    2:{ cbn. intros Hx; inversion Hx; subst. cbn. rewrite ?Eh, ?Er, ?Eu. cbn. splits; try reflexivity. left. auto. }
    destruct m; cbn [negb]; [|discriminate]. destruct (throttled cfg s && has_pending_ack s); [discriminate|].
    destruct (s_rq s) as [|h r] eqn:Er.
    - destruct (s_uq s) as [|h r] eqn:Eu; [discriminate|]. destruct (passes_receive_max s h); [|discriminate].
      cbn. intros Hx; inversion Hx; subst. cbn. rewrite ?Eh, ?Er, ?Eu. cbn. splits; try reflexivity; try lia. right. auto 10.
    - destruct (passes_receive_max s h); [|discriminate].
      cbn. intros Hx; inversion Hx; subst. cbn. rewrite ?Eh, ?Er, ?Eu. cbn. splits; try reflexivity; try lia. right. auto 10.
  Qed.

  Lemma but_queues_fields (s s' : state) : but_queues s' = but_queues s ->
    s_st s' = s_st s /\ s_ops s' = s_ops s /\ s_tmo s' = s_tmo s /\ s_cur s' = s_cur s /\ s_enc s' = s_enc s /\
    s_alloc s' = s_alloc s /\ s_ppub s' = s_ppub s /\ s_pnon s' = s_pnon s /\ s_pwco s' = s_pwco s /\
    s_settings s' = s_settings s /\ s_next_id s' = s_next_id s /\ s_next_pid s' = s_next_pid s /\
    s_connack_to s' = s_connack_to s /\ s_ss_count s' = s_ss_count s /\ s_pwc s' = s_pwc s.
  Proof.
    unfold but_queues. intros H. repeat (apply pair_equal_spec in H; destruct H as [H ?]). splits; assumption.
  Qed.
End Service.
