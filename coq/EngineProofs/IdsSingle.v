From GM Require Import Base.Prelude Base.Outcome Codec.Packets Codec.Settings Engine.Model EngineProofs.AssocLemmas EngineProofs.IdsFrame EngineProofs.IdsHelpers.
From RecordUpdate Require Import RecordSet.
From Coq Require Import Sorting.Sorted.
Import RecordSetNotations.
Open Scope N_scope.

  Definition user_done (e : errkind) (l : list (N * op)) : dones :=
    map (fun x => (fst x, CompErr e)) (filter (fun x => op_user (snd x) && negb (is_disconnect (op_packet (snd x)))) l).

  (* ---- what [user_done] contains ---- *)
  Lemma lookup_In_pair (l : list (N * op)) id o : lookup id l = Some o -> In (id, o) l.
  Proof.
    induction l as [|[k v] r IH]; cbn [lookup In]; [discriminate|]. destruct (k =? id) eqn:E; intros H.
    - left. inversion H; subst. f_equal. lia.
    - right. apply IH. exact H.
  Qed.

  Lemma In_pair_lookup (l : list (N * op)) id o : NoDup (keys l) -> In (id, o) l -> lookup id l = Some o.
  Proof.
    induction l as [|[k v] r IH]; cbn [lookup In keys map fst]; [intros _ []|]. intros Hnd [H|H].
    - inversion H; subst. rewrite N.eqb_refl. reflexivity.
    - inversion Hnd as [|? ? Hnin Hnd']; subst. destruct (k =? id) eqn:E; [|apply IH; assumption].
      exfalso. apply Hnin. assert (k = id) by lia. subst. apply (in_map fst) in H. exact H.
  Qed.

  Lemma user_done_in e l id c : NoDup (keys l) ->
    (In (id, c) (user_done e l) <->
     c = CompErr e /\ exists o, lookup id l = Some o /\ op_user o = true /\ is_disconnect (op_packet o) = false).
  Proof.
    intros Hnd. unfold user_done. rewrite in_map_iff. split.
    - intros ([k o] & Heq & Hin). cbn [fst] in Heq. inversion Heq; subst. apply filter_In in Hin. destruct Hin as [Hin Hf].
      cbn [snd] in Hf. split; [reflexivity|]. exists o. split; [apply In_pair_lookup; assumption|].
      destruct (op_user o); [|discriminate]. destruct (is_disconnect (op_packet o)); [discriminate|split; reflexivity].
    - intros (-> & o & Hl & Hu & Hd). exists (id, o). split; [reflexivity|]. apply filter_In. split; [apply lookup_In_pair; exact Hl|].
      cbn [snd]. rewrite Hu, Hd. reflexivity.
  Qed.

  Lemma user_done_nodup e l : NoDup (keys l) -> NoDup (map fst (user_done e l)).
  Proof.
    unfold user_done. rewrite map_map. cbn [fst]. induction l as [|[k v] r IH]; cbn [keys map fst filter]; [constructor|].
    intros Hnd. inversion Hnd as [|? ? Hnin Hnd']; subst. destruct (_ && _); cbn [map fst]; [|apply IH; exact Hnd'].
    constructor; [|apply IH; exact Hnd']. intros Hin. apply Hnin. apply in_map_iff in Hin. destruct Hin as (x & <- & Hx).
    apply filter_In in Hx. apply (in_map fst). tauto.
  Qed.


Set Default Proof Using "Type".
Section Engine.
  Variable enc : Type.
  Variable enc_reset : version -> packet -> resolution -> outcome enc.
  Variable enc_call : enc -> N -> N -> outcome (bytes * enc).
  Variable enc_done : enc -> bool.
  Variable dec : Type.
  Variable dec_init : dec.
  Variable dec_feed : version -> N -> dec -> bytes -> dec * list packet * outcome unit.
  Variable ores : Type.
  Variable ores_reset : ores -> N -> ores.
  Variable ores_resolve : ores -> option N -> bytes -> outcome (ores * resolution).
  Variable ires : Type.
  Variable ires_reset : ires -> ires.
  Variable ires_resolve : ires -> option N -> bytes -> outcome (ires * bytes).
  Variable v_out : option settings -> connect_opts -> resolution -> packet -> outcome unit.
  Variable v_in : option settings -> packet -> outcome unit.
  Variable cfg : config.

  Notation state := (Model.state enc dec ores ires).
  Notation init := (Model.init enc dec dec_init ores ires).
  Notation res := (Model.res enc dec ores ires).
  Notation release := (Model.release enc dec ores ires cfg).
  Notation disconnect_completion := (Model.disconnect_completion enc dec ores ires).
  Notation fail_op := (Model.fail_op enc dec ores ires cfg).
  Notation ping_extension := (Model.ping_extension enc dec ores ires).
  Notation succeed_op := (Model.succeed_op enc dec ores ires cfg).
  Notation fail_all := (Model.fail_all enc dec ores ires cfg).
  Notation succeed_all := (Model.succeed_all enc dec ores ires cfg).
  Notation andthen := (Model.andthen enc dec ores ires).
  Notation try_ := (Model.try_ enc dec ores ires).
  Notation pure := (Model.pure enc dec ores ires).
  Notation create_operation := (Model.create_operation enc dec ores ires).
  Notation passes_now := (Model.passes_now enc dec ores ires cfg).
  Notation user_event := (Model.user_event enc dec ores ires cfg).
  Notation create_connect := (Model.create_connect enc dec ores ires cfg).
  Notation net_opened := (Model.net_opened enc dec dec_init ores ires cfg).
  Notation op_exists := (Model.op_exists enc dec ores ires).
  Notation op_passes := (Model.op_passes enc dec ores ires cfg).
  Notation partition_policy := (Model.partition_policy enc dec ores ires cfg).
  Notation closed_current := (Model.closed_current enc dec ores ires cfg).
  Notation slow_start_init := (Model.slow_start_init enc dec ores ires cfg).
  Notation update_retries := (Model.update_retries enc dec ores ires cfg).
  Notation fail_exceeding := (Model.fail_exceeding enc dec ores ires cfg).
  Notation has_pubrel := (Model.has_pubrel enc dec ores ires).
  Notation net_closed_raw := (Model.net_closed_raw enc dec ores ires cfg).
  Notation net_closed := (Model.net_closed enc dec ores ires cfg).
  Notation net_write_completion := (Model.net_write_completion enc dec ores ires cfg).
  Notation acquire_free_pid := (Model.acquire_free_pid enc dec ores ires).
  Notation acquire_pid_for := (Model.acquire_pid_for enc dec ores ires).
  Notation unbind := (Model.unbind enc dec ores ires).
  Notation passes_receive_max := (Model.passes_receive_max enc dec ores ires).
  Notation throttled := (Model.throttled enc dec ores ires cfg).
  Notation has_pending_ack := (Model.has_pending_ack enc dec ores ires).
  Notation dequeue := (Model.dequeue enc dec ores ires cfg).
  Notation fully_written := (Model.fully_written enc dec ores ires).
  Notation sres := (Model.sres enc dec ores ires).
  Notation seat := (Model.seat enc dec ores ires).
  Notation seat_current := (Model.seat_current enc enc_reset dec ores ores_reset ores_resolve ires v_out cfg).
  Notation service_loop := (Model.service_loop enc enc_reset enc_call enc_done dec ores ores_reset ores_resolve ires v_out cfg).
  Notation service_queue := (Model.service_queue enc enc_reset enc_call enc_done dec ores ores_reset ores_resolve ires v_out cfg).
  Notation service_keep_alive := (Model.service_keep_alive enc dec ores ires cfg).
  Notation process_ack_timeouts := (Model.process_ack_timeouts enc dec ores ires cfg).
  Notation halt_on_error := (Model.halt_on_error enc dec ores ires).
  Notation service := (Model.service enc enc_reset enc_call enc_done dec ores ores_reset ores_resolve ires v_out cfg).
  Notation earliest_tmo := (Model.earliest_tmo enc dec ores ires).
  Notation nst_queue := (Model.nst_queue enc dec ores ires cfg).
  Notation next_service_time := (Model.next_service_time enc dec ores ires cfg).
  Notation build_settings := (Model.build_settings enc dec ores ires cfg).
  Notation apply_session := (Model.apply_session enc dec ores ires cfg).
  Notation hres := (Model.hres enc dec ores ires).
  Notation hres_of := (Model.hres_of enc dec ores ires).
  Notation pre_connack := (Model.pre_connack enc dec ores ires).
  Notation sum_ss := (Model.sum_ss enc dec ores ires).
  Notation handle_connack := (Model.handle_connack enc dec ores ores_reset ires ires_reset v_in cfg).
  Notation handle_pingresp := (Model.handle_pingresp enc dec ores ires).
  Notation handle_suback := (Model.handle_suback enc dec ores ires cfg).
  Notation handle_unsuback := (Model.handle_unsuback enc dec ores ires cfg).
  Notation publish_qos_of := (Model.publish_qos_of enc dec ores ires).
  Notation handle_puback := (Model.handle_puback enc dec ores ires cfg).
  Notation handle_pubrec := (Model.handle_pubrec enc dec ores ires cfg).
  Notation handle_pubrel := (Model.handle_pubrel enc dec ores ires).
  Notation handle_pubcomp := (Model.handle_pubcomp enc dec ores ires cfg).
  Notation handle_publish := (Model.handle_publish enc dec ores ires).
  Notation handle_disconnect := (Model.handle_disconnect enc dec ores ires cfg).
  Notation handle_packet := (Model.handle_packet enc dec ores ores_reset ires ires_reset v_in cfg).
  Notation handle_packets := (Model.handle_packets enc dec ores ores_reset ires ires_reset ires_resolve v_in cfg).
  Notation is_connect_op := (Model.is_connect_op enc dec ores ires).
  Notation connect_in_queue := (Model.connect_in_queue enc dec ores ires).
  Notation max_incoming_size := (Model.max_incoming_size cfg).
  Notation net_data := (Model.net_data enc dec dec_feed ores ores_reset ires ires_reset ires_resolve v_in cfg).
  Notation reset := (Model.reset enc dec ores ires cfg).
  Notation out_of_res := (Model.out_of_res enc dec ores ires).
  Notation step := (Model.step enc enc_reset enc_call enc_done dec dec_init dec_feed ores ores_reset ores_resolve ires ires_reset ires_resolve v_out v_in cfg).
  Notation run := (Model.run enc enc_reset enc_call enc_done dec dec_init dec_feed ores ores_reset ores_resolve ires ires_reset ires_resolve v_out v_in cfg).
  Notation SeatStop := (Model.SeatStop enc dec ores ires).
  Notation SeatContinue := (Model.SeatContinue enc dec ores ires).
  Notation SeatEncode := (Model.SeatEncode enc dec ores ires).
  Notation mkState := (Model.mkState enc dec ores ires).

  (* lia generalises over every hypothesis mentioning N, including the Section variables: clear them first *)
  Ltac slia := try clear v_in; try clear v_out; try clear ires_resolve; try clear ires_reset; try clear ores_resolve;
    try clear ores_reset; try clear dec_feed; try clear dec_init; try clear enc_done; try clear enc_call; try clear enc_reset; lia.
  Ltac dm := match goal with
    | |- context [match ?x with _ => _ end] => destruct x eqn:?
    end.

  (* ---- reset (protocol.rs 566-596) ---- *)
  (* fail_op outside the Connected state: never panics, removes exactly the operation, and fires
     the completion iff the operation is a user operation (that is not a DISCONNECT) *)
  Lemma fail_op_not_connected s id e o :
    lookup id (s_ops s) = Some o -> s_st s <> Connected ->
    let r := fail_op s id e in
    s_ops (r_s r) = remove id (s_ops s) /\ s_st (r_s r) <> Connected /\ is_panic (r_out r) = false /\
    r_done r = (if op_user o && negb (is_disconnect (op_packet o)) then [(id, CompErr e)] else []).
  Proof.
    intros Hl Hst. unfold Model.fail_op. rewrite Hl.
    assert (Hne : pstate_eqb (s_st s) Connected = false) by (destruct (s_st s); try reflexivity; congruence).
    assert (Hrel : exists s1, release s id o = Ok s1 /\ s_ops s1 = remove id (s_ops s) /\ s_st s1 = s_st s).
    { unfold Model.release. destruct (op_pid o); cbn; rewrite Hne, andb_false_r; cbn; eexists; repeat split. }
    destruct Hrel as (s1 & -> & Ho & Hs). unfold Model.disconnect_completion.
    destruct (is_disconnect (op_packet o)) eqn:Ed.
    - rewrite andb_false_r. destruct (pstate_eqb (s_st s1) PendingDisconnect); cbn; repeat split; try assumption; try congruence; discriminate.
    - rewrite andb_true_r. destruct (op_user o); cbn; repeat split; try assumption; congruence.
  Qed.

  Lemma fail_op_missing s id e : lookup id (s_ops s) = None -> fail_op s id e = Model.mkRes s [] (Ok tt).
  Proof. intros Hl. unfold Model.fail_op. rewrite Hl. reflexivity. Qed.

  Definition reset_step (acc : res) (id : N) : res :=
    if is_panic (r_out acc) then acc else
    let r1 := fail_op (r_s acc) id EClientClosed in
    Model.mkRes (r_s r1) (r_done acc ++ r_done r1) (if is_panic (r_out r1) then r_out r1 else Ok tt).
  Definition reset_fold (ids : list N) (acc : res) : res := fold_left reset_step ids acc.

  Lemma remove_head_nodup (k : N) (v : op) l : ~ In k (keys l) -> remove k ((k, v) :: l) = l.
  Proof. intros H. cbn [remove]. rewrite N.eqb_refl. apply remove_not_in. exact H. Qed.

  Lemma reset_fold_spec l : forall acc,
    s_ops (r_s acc) = l -> NoDup (keys l) -> s_st (r_s acc) <> Connected -> is_panic (r_out acc) = false ->
    is_panic (r_out (reset_fold (keys l) acc)) = false /\
    r_done (reset_fold (keys l) acc) = r_done acc ++ user_done EClientClosed l.
  Proof.
    induction l as [|[k v] rest IH]; intros acc Ho Hnd Hst Hp.
    - cbn. split; [exact Hp|]. rewrite app_nil_r. reflexivity.
    - change (reset_fold (keys ((k, v) :: rest)) acc) with (reset_fold (keys rest) (reset_step acc k)).
      inversion Hnd as [|? ? Hnin Hnd']; subst.
      assert (Hl : lookup k (s_ops (r_s acc)) = Some v) by (rewrite Ho; cbn [lookup]; rewrite N.eqb_refl; reflexivity).
      destruct (fail_op_not_connected (r_s acc) k EClientClosed v Hl Hst) as (Ho1 & Hst1 & Hp1 & Hd1).
      rewrite Ho, (remove_head_nodup _ _ _ Hnin) in Ho1.
      assert (Hstep : reset_step acc k = Model.mkRes (r_s (fail_op (r_s acc) k EClientClosed))
                 (r_done acc ++ r_done (fail_op (r_s acc) k EClientClosed)) (Ok tt)).
      { unfold reset_step. rewrite Hp, Hp1. reflexivity. }
      destruct (IH (reset_step acc k)) as [IH1 IH2];
        [rewrite Hstep; exact Ho1 | exact Hnd' | rewrite Hstep; exact Hst1 | rewrite Hstep; reflexivity |].
      split; [exact IH1|]. rewrite IH2, Hstep. cbn [r_done]. rewrite Hd1, <- app_assoc. f_equal.
      unfold user_done. cbn [filter snd fst]. destruct (op_user v && negb (is_disconnect (op_packet v))); reflexivity.
  Qed.

  (* reset never panics; it empties every table; its completions are exactly the user operations
     of the table, in id order, each failed with ClientClosed *)
  Theorem reset_spec s :
    NoDup (keys (s_ops s)) ->
    let r := reset s in
    r_out r = Ok tt /\ r_done r = user_done EClientClosed (s_ops s) /\
    s_ops (r_s r) = [] /\ s_uq (r_s r) = [] /\ s_rq (r_s r) = [] /\ s_hq (r_s r) = [] /\ s_cur (r_s r) = None /\
    s_ppub (r_s r) = [] /\ s_pnon (r_s r) = [] /\ s_pwco (r_s r) = [] /\ s_alloc (r_s r) = [] /\ s_tmo (r_s r) = [] /\
    s_q2in (r_s r) = [] /\ s_pwc (r_s r) = false /\ s_settings (r_s r) = None /\
    s_next_ping (r_s r) = None /\ s_ping_to (r_s r) = None /\ s_connack_to (r_s r) = None /\
    s_next_id (r_s r) = s_next_id s.
  Proof.
    intros Hnd. unfold Model.reset.
    set (s0 := if pstate_eqb (s_st s) Disconnected then s else s <| s_st := Halted |>).
    assert (Ho0 : s_ops s0 = s_ops s) by (unfold s0; destruct (pstate_eqb _ _); reflexivity).
    assert (Hst0 : s_st s0 <> Connected).
    { unfold s0. destruct (s_st s) eqn:E; cbn; rewrite ?E; discriminate. }
    rewrite Ho0.
    destruct (reset_fold_spec (s_ops s) (pure s0) Ho0 Hnd Hst0 eq_refl) as [Hp Hd].
    change (fold_left _ (map fst (s_ops s)) (pure s0)) with (reset_fold (keys (s_ops s)) (pure s0)).
    set (rv := reset_fold (keys (s_ops s)) (pure s0)) in *.
    rewrite Hp. cbn [r_s r_done r_out]. cbn [Model.pure r_done app] in Hd.
    split; [reflexivity|]. split; [exact Hd|]. cbn.
    repeat (split; [reflexivity|]).
    (* the id counter: fail_op never changes it *)
    clear Hp Hd. unfold rv. clear rv.
    assert (Hn : forall ids acc, s_next_id (r_s (reset_fold ids acc)) = s_next_id (r_s acc)).
    { induction ids as [|id r IH]; intros acc; [reflexivity|].
      change (reset_fold (id :: r) acc) with (reset_fold r (reset_step acc id)). rewrite IH. unfold reset_step.
      destruct (is_panic (r_out acc)); [reflexivity|]. cbn [r_s]. apply (fail_op_spec enc dec ores ires cfg). }
    rewrite Hn. cbn [Model.pure r_s]. unfold s0. destruct (pstate_eqb _ _); reflexivity.
  Qed.

  (* ---- own acknowledgement (single step) ---- *)
  (* succeed_op completes only the operation it is called for, with the value chosen by
     complete_operation_with_result from that operation's own packet *)
  Lemma succeed_op_value s id resp id' c :
    In (id', c) (r_done (succeed_op s id resp)) ->
    id' = id /\ exists o, lookup id (s_ops s) = Some o /\ op_user o = true /\ success_value o resp = Ok c.
  Proof.
    destruct (succeed_op_spec enc dec ores ires cfg s id resp) as [_ [[_ ->]|(o & Hl & _ & [->|(Hu & _ & c0 & Hc & ->)])]];
      try (intros []; fail).
    intros [H|[]]. inversion H; subst. split; [reflexivity|]. exists o. auto.
  Qed.

  (* the value handed to each kind of operation *)
  Lemma success_value_kind o resp c : success_value o resp = Ok c ->
    match op_packet o with
    | Publish _ => c = CompOk resp /\ (resp = None \/ (exists a, resp = Some (Puback a)) \/ (exists a, resp = Some (Pubrec a)) \/ (exists a, resp = Some (Pubcomp a)))
    | Subscribe _ => c = CompOk resp /\ exists a, resp = Some (Suback a)
    | Unsubscribe _ => c = CompOk resp /\ exists a, resp = Some (Unsuback a)
    | _ => False
    end.
  Proof.
    unfold success_value. destruct (op_packet o); try discriminate; destruct resp as [[]|]; intros H; inversion H; subst;
      (split; [reflexivity|]); eauto 6.
  Qed.

  Lemma handle_suback_own s a id c : In (id, c) (h_done (handle_suback s a)) ->
    lookup (sa_pid a) (s_pnon s) = Some id /\ c = CompOk (Some (Suback a)) /\
    exists o x, lookup id (s_ops s) = Some o /\ op_user o = true /\ op_packet o = Subscribe x /\ len (sa_codes a) = len (s_subs x).
  Proof.
    unfold Model.handle_suback. dm; [intros []|]. destruct (lookup (sa_pid a) (s_pnon s)) as [id0|]; [|intros []].
    destruct (lookup id0 (s_ops s)) as [o|] eqn:El; [|intros []]. destruct (op_packet o) eqn:Ep; try (intros []; fail).
    destruct (negb _) eqn:Ec; [intros []|]. cbn [hres_of Model.hres_of h_done]. intros Hin.
    destruct (succeed_op_value _ _ _ _ _ Hin) as (-> & o' & Hl & Hu & Hv). replace o' with o in * by congruence.
    split; [reflexivity|]. pose proof (success_value_kind _ _ _ Hv) as Hk. rewrite Ep in Hk. destruct Hk as [-> _].
    split; [reflexivity|]. exists o, p. repeat split; try assumption. slia.
  Qed.

  Lemma handle_unsuback_own s a id c : In (id, c) (h_done (handle_unsuback s a)) ->
    lookup (ua_pid a) (s_pnon s) = Some id /\
    exists o x a', lookup id (s_ops s) = Some o /\ op_user o = true /\ op_packet o = Unsubscribe x /\
      c = CompOk (Some (Unsuback a')) /\ len (ua_codes a') = len (u_filters x) /\ ua_pid a' = ua_pid a /\
      (cf_version cfg = V5 -> a' = a).
  Proof.
    unfold Model.handle_unsuback. dm; [intros []|]. destruct (lookup (ua_pid a) (s_pnon s)) as [id0|]; [|intros []].
    destruct (lookup id0 (s_ops s)) as [o|] eqn:El; [|intros []]. destruct (op_packet o) eqn:Ep; try (intros []; fail).
    destruct (version_eqb (cf_version cfg) V311) eqn:Ev.
    - cbn [hres_of Model.hres_of h_done]. intros Hin.
      destruct (succeed_op_value _ _ _ _ _ Hin) as (-> & o' & Hl & Hu & Hv). replace o' with o in * by congruence.
      split; [reflexivity|]. pose proof (success_value_kind _ _ _ Hv) as Hk. rewrite Ep in Hk. destruct Hk as [-> _].
      eexists o, p, _. repeat split; try eassumption; try reflexivity.
      + cbn [ua_codes]. unfold len. rewrite repeat_length. reflexivity.
      + intros E5. rewrite E5 in Ev. discriminate.
    - destruct (negb _) eqn:Ec; [intros []|]. cbn [hres_of Model.hres_of h_done]. intros Hin.
      destruct (succeed_op_value _ _ _ _ _ Hin) as (-> & o' & Hl & Hu & Hv). replace o' with o in * by congruence.
      split; [reflexivity|]. pose proof (success_value_kind _ _ _ Hv) as Hk. rewrite Ep in Hk. destruct Hk as [-> _].
      exists o, p, a. repeat split; try assumption; try reflexivity. slia.
  Qed.

  Lemma handle_puback_own s a id c : In (id, c) (h_done (handle_puback s a)) ->
    lookup (ack_pid a) (s_ppub s) = Some id /\ c = CompOk (Some (Puback a)) /\
    exists o pb, lookup id (s_ops s) = Some o /\ op_user o = true /\ op_packet o = Publish pb /\ pub_qos pb = 1.
  Proof.
    unfold Model.handle_puback, Model.publish_qos_of. dm; [intros []|]. destruct (lookup (ack_pid a) (s_ppub s)) as [id0|]; [|intros []].
    destruct (lookup id0 (s_ops s)) as [o|] eqn:El; [|intros []]. destruct (op_packet o) eqn:Ep; try (intros []; fail).
    destruct (pub_qos p) as [|[| |]] eqn:Eq; try (intros []; fail). cbn [hres_of Model.hres_of h_done]. intros Hin.
    destruct (succeed_op_value _ _ _ _ _ Hin) as (-> & o' & Hl & Hu & Hv). replace o' with o in * by congruence.
    split; [reflexivity|]. pose proof (success_value_kind _ _ _ Hv) as Hk. rewrite Ep in Hk. destruct Hk as [-> _].
    split; [reflexivity|]. exists o, p. repeat split; assumption.
  Qed.

  Lemma handle_pubrec_own s a id c : In (id, c) (h_done (handle_pubrec s a)) ->
    lookup (ack_pid a) (s_ppub s) = Some id /\ c = CompOk (Some (Pubrec a)) /\ 128 <= ack_rc a /\
    exists o pb, lookup id (s_ops s) = Some o /\ op_user o = true /\ op_packet o = Publish pb /\ pub_qos pb = 2.
  Proof.
    unfold Model.handle_pubrec. dm; [intros []|]. destruct (lookup (ack_pid a) (s_ppub s)) as [id0|]; [|intros []].
    destruct (lookup id0 (s_ops s)) as [o|] eqn:El; [|intros []]. destruct (op_packet o) eqn:Ep; try (intros []; fail).
    destruct (pub_qos p =? 2) eqn:Eq; [|intros []]. destruct (128 <=? ack_rc a) eqn:Erc; [|intros []].
    cbn [hres_of Model.hres_of h_done]. intros Hin.
    destruct (succeed_op_value _ _ _ _ _ Hin) as (-> & o' & Hl & Hu & Hv). replace o' with o in * by congruence.
    split; [reflexivity|]. pose proof (success_value_kind _ _ _ Hv) as Hk. rewrite Ep in Hk. destruct Hk as [-> _].
    split; [reflexivity|]. split; [slia|]. exists o, p. repeat split; try assumption. slia.
  Qed.

  Lemma handle_pubcomp_own s a id c : In (id, c) (h_done (handle_pubcomp s a)) ->
    lookup (ack_pid a) (s_ppub s) = Some id /\ c = CompOk (Some (Pubcomp a)) /\
    exists o pb, lookup id (s_ops s) = Some o /\ op_user o = true /\ op_packet o = Publish pb /\ pub_qos pb = 2 /\ op_pubrel o <> None.
  Proof.
    unfold Model.handle_pubcomp. dm; [intros []|]. destruct (lookup (ack_pid a) (s_ppub s)) as [id0|]; [|intros []].
    destruct (lookup id0 (s_ops s)) as [o|] eqn:El; [|intros []]. destruct (op_packet o) eqn:Ep; try (intros []; fail).
    destruct (pub_qos p =? 2) eqn:Eq; [|intros []]. destruct (op_pubrel o) eqn:Epr; [|intros []].
    cbn [hres_of Model.hres_of h_done]. intros Hin.
    destruct (succeed_op_value _ _ _ _ _ Hin) as (-> & o' & Hl & Hu & Hv). replace o' with o in * by congruence.
    split; [reflexivity|]. pose proof (success_value_kind _ _ _ Hv) as Hk. rewrite Ep in Hk. destruct Hk as [-> _].
    split; [reflexivity|]. exists o, p. repeat split; try assumption; [slia|congruence].
  Qed.

  (* write completion: the only other successes; QoS0-style completions carry no packet *)
  Lemma succeed_all_value ids : forall s id c, In (id, c) (r_done (succeed_all s ids)) ->
    In id ids /\ c = CompOk None.
  Proof.
    induction ids as [|k r IH]; intros s id c; cbn [Model.succeed_all]; [intros []|].
    assert (H1 : In (id, c) (r_done (succeed_op s k None)) -> In id (k :: r) /\ c = CompOk None).
    { intros Hin. destruct (succeed_op_value _ _ _ _ _ Hin) as (-> & o & Hl & Hu & Hv). split; [left; reflexivity|].
      pose proof (success_value_kind _ _ _ Hv) as Hk. destruct (op_packet o); try contradiction; destruct Hk as [-> _]; try reflexivity.
      all: destruct Hk as [_ (a & Ha)]; discriminate. }
    destruct (is_panic (r_out (succeed_op s k None))); [exact H1|].
    assert (H2 : In (id, c) (r_done (succeed_all (r_s (succeed_op s k None)) r)) -> In id (k :: r) /\ c = CompOk None).
    { intros Hin. destruct (IH _ _ _ Hin). split; [right; assumption|assumption]. }
    destruct (is_panic _); cbn [r_done]; intros Hin; apply in_app_or in Hin; tauto.
  Qed.

End Engine.
