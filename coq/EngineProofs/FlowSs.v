(* C09, part 6: the slow-start counter is exact: while Connected under the one-at-a-time drain policy,
   s_ss_count is the sum of the slow-start marks (op_ss) of the existing operations.
   [SR s s'] is the step relation used to carry it through every helper: operation ids stay
   well-formed; the state only becomes Connected in handle_connack; and if both states are
   Connected the equation is preserved. *)
From GM Require Import Base.Prelude Base.Outcome Codec.Packets Codec.Settings Engine.Model.
From GM Require Import EngineProofs.AssocLemmas EngineProofs.PacketIds EngineProofs.IdsFrame EngineProofs.IdsHelpers EngineProofs.IdsMain EngineProofs.SvcTimeout EngineProofs.Flow EngineProofs.FlowInv EngineProofs.FlowStep.
From RecordUpdate Require Import RecordSet.
From Coq Require Import Sorting.Sorted.
Import RecordSetNotations.
Open Scope N_scope.


Definition sumss (l : list (N * op)) : N := fold_right (fun x acc => op_ss (snd x) + acc) 0 l.

Lemma fold_left_sumss (l : list (N * op)) : forall a, fold_left (fun acc '(_, o) => acc + op_ss o) l a = a + sumss l.
Proof.
  induction l as [|[k o] r IH]; intros a; cbn [fold_left]; [cbn; lia|]. rewrite IH.
  change (sumss ((k, o) :: r)) with (op_ss o + sumss r). lia.
Qed.

Lemma sumss_app a b : sumss (a ++ b) = sumss a + sumss b.
Proof.
  induction a as [|x r IH]; cbn [app]; [cbn; lia|].
  change (sumss (x :: r ++ b)) with (op_ss (snd x) + sumss (r ++ b)). change (sumss (x :: r)) with (op_ss (snd x) + sumss r). rewrite IH. lia.
Qed.

Lemma sumss_remove (l : list (N * op)) id o : NoDup (keys l) -> lookup id l = Some o -> sumss (remove id l) + op_ss o = sumss l.
Proof.
  induction l as [|[k v] r IH]; cbn [keys map fst lookup remove]; [discriminate|]. intros Hnd Hl. inversion Hnd as [|? ? Hnin Hnd']; subst.
  destruct (k =? id) eqn:E.
  - inversion Hl; subst. assert (k = id) by lia. subst. rewrite remove_not_in by exact Hnin.
    change (sumss ((id, o) :: r)) with (op_ss o + sumss r). lia.
  - change (sumss ((k, v) :: remove id r)) with (op_ss v + sumss (remove id r)). change (sumss ((k, v) :: r)) with (op_ss v + sumss r).
    specialize (IH Hnd' Hl). lia.
Qed.

Lemma sumss_update (f : op -> op) id (l : list (N * op)) : (forall o, op_ss (f o) = op_ss o) -> sumss (update id f l) = sumss l.
Proof.
  intros Hf. induction l as [|[k v] r IH]; cbn [update]; [reflexivity|]. destruct (k =? id).
  - change (sumss ((k, f v) :: r)) with (op_ss (f v) + sumss r). change (sumss ((k, v) :: r)) with (op_ss v + sumss r). rewrite Hf. reflexivity.
  - change (sumss ((k, v) :: update id f r)) with (op_ss v + sumss (update id f r)). change (sumss ((k, v) :: r)) with (op_ss v + sumss r). rewrite IH. reflexivity.
Qed.

Lemma sumss_fold_update (f : op -> op) ids : (forall o, op_ss (f o) = op_ss o) -> forall l,
  sumss (fold_left (fun ops id => update id f ops) ids l) = sumss l.
Proof. intros Hf. induction ids as [|id r IH]; intros l; cbn [fold_left]; [reflexivity|]. rewrite IH. apply sumss_update. exact Hf. Qed.

Set Default Proof Using "Type".
Section Engine.
  Variable enc : Type.
  Variable enc_reset : version -> packet -> resolution -> outcome enc.
  Variable enc_call : enc -> N -> N -> outcome (bytes * enc).
  Variable enc_done : enc -> bool.
  Variable dec : Type.
  Variable dec_init : dec.
  Variable dec_feed : version -> N -> dec -> bytes -> dec * list packet * outcome unit.
  Variable ores : Type.
  Variable ores_reset : ores -> N -> ores.
  Variable ores_resolve : ores -> option N -> bytes -> outcome (ores * resolution).
  Variable ires : Type.
  Variable ires_reset : ires -> ires.
  Variable ires_resolve : ires -> option N -> bytes -> outcome (ires * bytes).
  Variable v_out : option settings -> connect_opts -> resolution -> packet -> outcome unit.
  Variable v_in : option settings -> packet -> outcome unit.
  Variable cfg : config.

  Notation state := (Model.state enc dec ores ires).
  Notation init := (Model.init enc dec dec_init ores ires).
  Notation res := (Model.res enc dec ores ires).
  Notation release := (Model.release enc dec ores ires cfg).
  Notation disconnect_completion := (Model.disconnect_completion enc dec ores ires).
  Notation fail_op := (Model.fail_op enc dec ores ires cfg).
  Notation ping_extension := (Model.ping_extension enc dec ores ires).
  Notation succeed_op := (Model.succeed_op enc dec ores ires cfg).
  Notation fail_all := (Model.fail_all enc dec ores ires cfg).
  Notation succeed_all := (Model.succeed_all enc dec ores ires cfg).
  Notation andthen := (Model.andthen enc dec ores ires).
  Notation try_ := (Model.try_ enc dec ores ires).
  Notation pure := (Model.pure enc dec ores ires).
  Notation create_operation := (Model.create_operation enc dec ores ires).
  Notation passes_now := (Model.passes_now enc dec ores ires cfg).
  Notation user_event := (Model.user_event enc dec ores ires cfg).
  Notation create_connect := (Model.create_connect enc dec ores ires cfg).
  Notation net_opened := (Model.net_opened enc dec dec_init ores ires cfg).
  Notation op_exists := (Model.op_exists enc dec ores ires).
  Notation op_passes := (Model.op_passes enc dec ores ires cfg).
  Notation partition_policy := (Model.partition_policy enc dec ores ires cfg).
  Notation closed_current := (Model.closed_current enc dec ores ires cfg).
  Notation slow_start_init := (Model.slow_start_init enc dec ores ires cfg).
  Notation update_retries := (Model.update_retries enc dec ores ires cfg).
  Notation fail_exceeding := (Model.fail_exceeding enc dec ores ires cfg).
  Notation has_pubrel := (Model.has_pubrel enc dec ores ires).
  Notation net_closed_raw := (Model.net_closed_raw enc dec ores ires cfg).
  Notation net_closed := (Model.net_closed enc dec ores ires cfg).
  Notation net_write_completion := (Model.net_write_completion enc dec ores ires cfg).
  Notation acquire_free_pid := (Model.acquire_free_pid enc dec ores ires).
  Notation acquire_pid_for := (Model.acquire_pid_for enc dec ores ires).
  Notation unbind := (Model.unbind enc dec ores ires).
  Notation passes_receive_max := (Model.passes_receive_max enc dec ores ires).
  Notation throttled := (Model.throttled enc dec ores ires cfg).
  Notation has_pending_ack := (Model.has_pending_ack enc dec ores ires).
  Notation dequeue := (Model.dequeue enc dec ores ires cfg).
  Notation fully_written := (Model.fully_written enc dec ores ires).
  Notation sres := (Model.sres enc dec ores ires).
  Notation seat := (Model.seat enc dec ores ires).
  Notation seat_current := (Model.seat_current enc enc_reset dec ores ores_reset ores_resolve ires v_out cfg).
  Notation service_loop := (Model.service_loop enc enc_reset enc_call enc_done dec ores ores_reset ores_resolve ires v_out cfg).
  Notation service_queue := (Model.service_queue enc enc_reset enc_call enc_done dec ores ores_reset ores_resolve ires v_out cfg).
  Notation service_keep_alive := (Model.service_keep_alive enc dec ores ires cfg).
  Notation process_ack_timeouts := (Model.process_ack_timeouts enc dec ores ires cfg).
  Notation halt_on_error := (Model.halt_on_error enc dec ores ires).
  Notation service := (Model.service enc enc_reset enc_call enc_done dec ores ores_reset ores_resolve ires v_out cfg).
  Notation earliest_tmo := (Model.earliest_tmo enc dec ores ires).
  Notation nst_queue := (Model.nst_queue enc dec ores ires cfg).
  Notation next_service_time := (Model.next_service_time enc dec ores ires cfg).
  Notation build_settings := (Model.build_settings enc dec ores ires cfg).
  Notation apply_session := (Model.apply_session enc dec ores ires cfg).
  Notation hres := (Model.hres enc dec ores ires).
  Notation hres_of := (Model.hres_of enc dec ores ires).
  Notation pre_connack := (Model.pre_connack enc dec ores ires).
  Notation sum_ss := (Model.sum_ss enc dec ores ires).
  Notation handle_connack := (Model.handle_connack enc dec ores ores_reset ires ires_reset v_in cfg).
  Notation handle_pingresp := (Model.handle_pingresp enc dec ores ires).
  Notation handle_suback := (Model.handle_suback enc dec ores ires cfg).
  Notation handle_unsuback := (Model.handle_unsuback enc dec ores ires cfg).
  Notation publish_qos_of := (Model.publish_qos_of enc dec ores ires).
  Notation handle_puback := (Model.handle_puback enc dec ores ires cfg).
  Notation handle_pubrec := (Model.handle_pubrec enc dec ores ires cfg).
  Notation handle_pubrel := (Model.handle_pubrel enc dec ores ires).
  Notation handle_pubcomp := (Model.handle_pubcomp enc dec ores ires cfg).
  Notation handle_publish := (Model.handle_publish enc dec ores ires).
  Notation handle_disconnect := (Model.handle_disconnect enc dec ores ires cfg).
  Notation handle_packet := (Model.handle_packet enc dec ores ores_reset ires ires_reset v_in cfg).
  Notation handle_packets := (Model.handle_packets enc dec ores ores_reset ires ires_reset ires_resolve v_in cfg).
  Notation is_connect_op := (Model.is_connect_op enc dec ores ires).
  Notation connect_in_queue := (Model.connect_in_queue enc dec ores ires).
  Notation max_incoming_size := (Model.max_incoming_size cfg).
  Notation net_data := (Model.net_data enc dec dec_feed ores ores_reset ires ires_reset ires_resolve v_in cfg).
  Notation reset := (Model.reset enc dec ores ires cfg).
  Notation out_of_res := (Model.out_of_res enc dec ores ires).
  Notation step := (Model.step enc enc_reset enc_call enc_done dec dec_init dec_feed ores ores_reset ores_resolve ires ires_reset ires_resolve v_out v_in cfg).
  Notation run := (Model.run enc enc_reset enc_call enc_done dec dec_init dec_feed ores ores_reset ores_resolve ires ires_reset ires_resolve v_out v_in cfg).
  Notation SeatStop := (Model.SeatStop enc dec ores ires).
  Notation SeatContinue := (Model.SeatContinue enc dec ores ires).
  Notation SeatEncode := (Model.SeatEncode enc dec ores ires).
  Notation mkState := (Model.mkState enc dec ores ires).
  (* lia generalises over every hypothesis mentioning N, including the Section variables: clear them first *)
  Ltac slia := try clear v_in; try clear v_out; try clear ires_resolve; try clear ires_reset; try clear ores_resolve;
    try clear ores_reset; try clear dec_feed; try clear dec_init; try clear enc_done; try clear enc_call; try clear enc_reset; lia.
  Ltac dm := match goal with
    | |- context [match ?x with _ => _ end] => destruct x eqn:?
    end.

  Lemma sum_ss_sumss (s : state) : sum_ss s = sumss (s_ops s).
  Proof. unfold Model.sum_ss. rewrite fold_left_sumss. slia. Qed.

  Definition ids_of (s : state) : Prop := ids_ok (s_ops s, s_next_id s).
  Definition ss_eq (s : state) : Prop := s_ss_count s = sumss (s_ops s).

  Definition SR (s s' : state) : Prop :=
    ids_of s -> ids_of s' /\ (s_st s' = Connected -> s_st s = Connected /\ (cf_drain_one cfg = true -> ss_eq s -> ss_eq s')).

  Lemma SR_refl s : SR s s.
  Proof. intros H. split; [exact H|]. intros Hst. split; [exact Hst|]. auto. Qed.

  Lemma SR_trans s s1 s2 : SR s s1 -> SR s1 s2 -> SR s s2.
  Proof.
    intros A B H0. destruct (A H0) as [H1 A1]. destruct (B H1) as [H2 B1]. split; [exact H2|].
    intros Hst. destruct (B1 Hst) as [Hst1 B2]. destruct (A1 Hst1) as [Hst0 A2]. split; [exact Hst0|]. auto.
  Qed.

  (* nothing relevant changes, or the state is not Connected afterwards *)
  Lemma SR_same (s s' : state) :
    s_ops s' = s_ops s -> s_next_id s' = s_next_id s -> s_ss_count s' = s_ss_count s ->
    (s_st s' = s_st s \/ s_st s' <> Connected) -> SR s s'.
  Proof.
    intros Ho Hn Hc Hst H0. unfold ids_of, ss_eq in *. rewrite Ho, Hn, Hc. split; [exact H0|].
    intros E. destruct Hst as [Hst|Hst]; [|contradiction]. split; [congruence|auto].
  Qed.

  Lemma SR_update (s s' : state) (f : op -> op) ids :
    (forall o, op_ss (f o) = op_ss o) ->
    s_ops s' = fold_left (fun ops id => update id f ops) ids (s_ops s) -> s_next_id s' = s_next_id s ->
    s_ss_count s' = s_ss_count s -> (s_st s' = s_st s \/ s_st s' <> Connected) -> SR s s'.
  Proof.
    intros Hf Ho Hn Hc Hst H0. unfold ids_of, ss_eq, ids_ok in *. cbn [fst snd] in *. rewrite Ho, Hn, Hc.
    assert (Hk : keys (fold_left (fun ops id => update id f ops) ids (s_ops s)) = keys (s_ops s)).
    { clear. generalize (s_ops s). induction ids as [|id r IH]; intros l; cbn [fold_left]; [reflexivity|]. rewrite IH. apply keys_update. }
    rewrite Hk. split; [exact H0|]. intros E. destruct Hst as [Hst|Hst]; [|contradiction]. split; [congruence|].
    intros _ He. rewrite sumss_fold_update by exact Hf. exact He.
  Qed.

  Lemma SR_update1 (s s' : state) (f : op -> op) id :
    (forall o, op_ss (f o) = op_ss o) -> s_ops s' = update id f (s_ops s) -> s_next_id s' = s_next_id s ->
    s_ss_count s' = s_ss_count s -> (s_st s' = s_st s \/ s_st s' <> Connected) -> SR s s'.
  Proof. intros Hf Ho. apply (SR_update s s' f [id] Hf). exact Ho. Qed.

  Lemma SR_create (s s' : state) (o : op) :
    op_ss o = 0 -> s_ops s' = s_ops s ++ [(s_next_id s, o)] -> s_next_id s' = s_next_id s + 1 ->
    s_ss_count s' = s_ss_count s -> (s_st s' = s_st s \/ s_st s' <> Connected) -> SR s s'.
  Proof.
    intros Hz Ho Hn Hc Hst H0. unfold ids_of, ss_eq in *. rewrite Ho, Hn, Hc. split; [apply ids_ok_create; exact H0|].
    intros E. destruct Hst as [Hst|Hst]; [|contradiction]. split; [congruence|].
    intros _ He. rewrite sumss_app. cbn [sumss fold_right snd]. rewrite Hz. slia.
  Qed.

  (* ---- release and the completions ---- *)
  Lemma SR_release s id o s1 : lookup id (s_ops s) = Some o -> release s id o = Ok s1 -> SR s s1.
  Proof.
    intros Hl Hr H0. pose proof H0 as [Hinc _]. cbn [fst] in Hinc.
    pose proof (sumss_remove _ _ _ (inc_NoDup _ Hinc) Hl) as Hsum.
    assert (Hcore : s_ops s1 = remove id (s_ops s) /\ s_next_id s1 = s_next_id s /\ s_st s1 = s_st s /\
              (cf_drain_one cfg = true -> s_st s = Connected -> ss_eq s -> s_ss_count s1 = s_ss_count s - op_ss o /\ op_ss o <= s_ss_count s)).
    { revert Hr. unfold Model.release, ss_eq. destruct (op_pid o); cbn; destruct (cf_drain_one cfg); cbn.
      all: destruct (pstate_eqb (s_st s) Connected) eqn:Ec; cbn.
      all: try (intros H; inversion H; subst; cbn; repeat split; try reflexivity; intros; try discriminate;
                exfalso; destruct (s_st s); discriminate).
      all: destruct (negb (op_ss o =? 0)) eqn:Ez; [destruct (op_ss o <=? s_ss_count s) eqn:El; [|discriminate]|];
           intros H; inversion H; subst; cbn; repeat split; try reflexivity; intros; slia. }
    destruct Hcore as (Ho & Hn & Hst & Hc). unfold ids_of, ss_eq in *. rewrite Ho, Hn. split; [apply ids_ok_remove; exact H0|].
    intros E. rewrite Hst in E. split; [exact E|]. intros Hd He. destruct (Hc Hd E He) as [Hc1 Hc2]. rewrite Hc1. slia.
  Qed.

  Lemma SR_disconnect_completion s o : SR s (fst (disconnect_completion s o)).
  Proof. unfold Model.disconnect_completion. repeat dm; cbn [fst]; apply SR_same; cbn; auto; right; discriminate. Qed.

  Lemma SR_fail_op s id e : SR s (r_s (fail_op s id e)).
  Proof.
    unfold Model.fail_op. destruct (lookup id (s_ops s)) as [o|] eqn:El; [|apply SR_refl].
    destruct (release s id o) as [s1| |] eqn:Er; [|apply SR_refl..].
    pose proof (SR_trans _ _ _ (SR_release _ _ _ _ El Er) (SR_disconnect_completion s1 o)) as H.
    destruct (disconnect_completion s1 o) as [s2 r]. cbn [fst] in H. repeat dm; cbn [r_s]; exact H.
  Qed.

  Lemma SR_ping_extension s o : SR s (ping_extension s o).
  Proof. unfold Model.ping_extension. repeat dm; try apply SR_refl; apply SR_same; cbn; auto. Qed.

  Lemma SR_succeed_op s id resp : SR s (r_s (succeed_op s id resp)).
  Proof.
    unfold Model.succeed_op. destruct (lookup id (s_ops s)) as [o|] eqn:El; [|apply SR_refl].
    destruct (release s id o) as [s1| |] eqn:Er; [|apply SR_refl..].
    pose proof (SR_trans _ _ _ (SR_trans _ _ _ (SR_release _ _ _ _ El Er) (SR_ping_extension s1 o)) (SR_disconnect_completion (ping_extension s1 o) o)) as H.
    destruct (disconnect_completion (ping_extension s1 o) o) as [s2 r]. cbn [fst] in H. repeat dm; cbn [r_s]; exact H.
  Qed.

  Lemma SR_fail_all ids : forall s e, SR s (r_s (fail_all s ids e)).
  Proof.
    induction ids as [|id r IH]; intros s e; cbn [Model.fail_all]; [apply SR_refl|].
    destruct (is_panic _); [apply SR_fail_op|]. destruct (is_panic _); cbn [r_s]; (eapply SR_trans; [apply SR_fail_op|apply IH]).
  Qed.

  Lemma SR_succeed_all ids : forall s, SR s (r_s (succeed_all s ids)).
  Proof.
    induction ids as [|id r IH]; intros s; cbn [Model.succeed_all]; [apply SR_refl|].
    destruct (is_panic _); [apply SR_succeed_op|]. destruct (is_panic _); cbn [r_s]; (eapply SR_trans; [apply SR_succeed_op|apply IH]).
  Qed.

  Lemma SR_andthen s (r : res) f : SR s (r_s r) -> (forall s1, SR s1 (r_s (f s1))) -> SR s (r_s (andthen r f)).
  Proof.
    intros H1 H2. unfold Model.andthen. destruct (is_panic (r_out r)); [exact H1|].
    destruct (is_panic _); cbn [r_s]; (eapply SR_trans; [exact H1|apply H2]).
  Qed.

  Lemma SR_try s (r : res) f : SR s (r_s r) -> (forall s1, SR s1 (r_s (f s1))) -> SR s (r_s (try_ r f)).
  Proof. intros H1 H2. unfold Model.try_. destruct (r_out r); [cbn [r_s]; eapply SR_trans; [exact H1|apply H2]|exact H1..]. Qed.

  Ltac srs := first [apply SR_refl | apply SR_same; cbn; auto; fail].

  (* ---- events other than data and service ---- *)
  Lemma SR_user_event s p t : SR s (r_s (user_event s p t)).
  Proof.
    unfold Model.user_event, Model.create_operation. cbn [fst snd].
    set (o := new_op p (negb (is_disconnect p)) (if is_disconnect p then None else t)).
    set (s1 := s <| s_next_id := s_next_id s + 1 |> <| s_ops := s_ops s ++ [(s_next_id s, o)] |>).
    assert (H1 : SR s s1) by (apply SR_create with (o := o); cbn; auto).
    dm; cbn [r_s]; [eapply SR_trans; [exact H1|apply SR_fail_op]|].
    dm; cbn [Model.pure r_s]; (eapply SR_trans; [exact H1|apply SR_same; cbn; auto]).
  Qed.

  Lemma SR_net_opened s d : SR s (r_s (net_opened s d)).
  Proof.
    unfold Model.net_opened. dm; cbn [r_s]; [apply SR_same; cbn; auto; right; discriminate|].
    unfold Model.create_operation, Model.pure. cbn.
    match goal with |- SR s ?s' => apply SR_create with (o := new_op (create_connect (s <| s_st := PendingConnack |> <| s_cur := None |> <| s_pwc := false |> <| s_dec := dec_init |>)) false None) end;
      cbn; auto. right. discriminate.
  Qed.

  Lemma SR_closed_current s : SR s (r_s (closed_current s)).
  Proof.
    unfold Model.closed_current. destruct (s_cur s) as [id|]; [|cbn; srs].
    apply SR_try; [|intros s1; cbn; srs].
    destruct (lookup id (s_ops s)) as [o|]; [|cbn; srs].
    destruct (op_packet o); try (cbn [r_s]; apply SR_fail_op); repeat dm; try (cbn; srs); apply SR_fail_op.
  Qed.

  Lemma SR_update_retries s s' : update_retries s = Ok s' -> SR s s'.
  Proof.
    unfold Model.update_retries. repeat dm; intros H; inversion H; subst; try apply SR_refl.
    eapply SR_update with (f := bump_intr); cbn; auto.
  Qed.

  Lemma SR_fail_exceeding s : SR s (r_s (fail_exceeding s)).
  Proof.
    unfold Model.fail_exceeding. destruct (cf_retry cfg); [|cbn; srs]. dm; [cbn; srs|].
    apply SR_andthen; [apply SR_fail_all|]. intros s1. dm; [cbn; srs|apply SR_fail_all].
  Qed.

  Lemma fail_op_st_nc s id e : s_st s <> Connected -> s_st (r_s (fail_op s id e)) <> Connected.
  Proof. intros Hst. destruct (fail_op_st enc dec ores ires cfg s id e) as [E|E]; rewrite E; [exact Hst|discriminate]. Qed.

  (* ---- connection closed: the state is never Connected afterwards; ids from the C01 frame ---- *)
  Definition NC (s : state) : Prop := s_st s <> Connected.

  Lemma NC_fail_all ids : forall s e, NC s -> NC (r_s (fail_all s ids e)).
  Proof.
    induction ids as [|id r IH]; intros s e H; cbn [Model.fail_all]; [exact H|].
    pose proof (fail_op_st_nc s id e H) as H1. destruct (is_panic _); [exact H1|]. destruct (is_panic _); cbn [r_s]; apply IH; exact H1.
  Qed.

  Lemma NC_closed_current s : NC s -> NC (r_s (closed_current s)).
  Proof.
    intros H. unfold Model.closed_current. destruct (s_cur s) as [id|]; [|exact H].
    apply (try_pres enc dec ores ires NC); [|intros s1 H1; exact H1].
    destruct (lookup id (s_ops s)) as [o|]; [|exact H].
    destruct (op_packet o); try (cbn [r_s]; apply fail_op_st_nc; exact H); repeat dm; try exact H; apply fail_op_st_nc; exact H.
  Qed.

  Lemma NC_fail_exceeding s : NC s -> NC (r_s (fail_exceeding s)).
  Proof.
    intros H. unfold Model.fail_exceeding. destruct (cf_retry cfg); [|exact H]. dm; [exact H|].
    apply (andthen_pres enc dec ores ires NC); [apply NC_fail_all; exact H|]. intros s1 H1. dm; [exact H1|apply NC_fail_all; exact H1].
  Qed.

  Lemma NC_net_closed_raw s : NC (r_s (net_closed_raw s)).
  Proof.
    unfold Model.net_closed_raw. destruct (pstate_eqb (s_st s) Disconnected) eqn:E.
    - cbn. unfold NC. destruct (s_st s); discriminate.
    - match goal with |- context [closed_current ?s0] => set (s0v := s0) end.
      assert (H0 : NC s0v) by (unfold NC; cbn; discriminate).
      apply (try_pres enc dec ores ires NC); [apply NC_closed_current; exact H0|]. intros s1 H1.
      destruct (slow_start_init s1) as [s2| |] eqn:E2; [|exact H1..].
      assert (H2 : NC s2) by (revert E2; unfold Model.slow_start_init; repeat dm; intros H; inversion H; subst; exact H1).
      destruct (update_retries s2) as [s3| |] eqn:E3; [|exact H2..].
      assert (H3 : NC s3) by (revert E3; unfold Model.update_retries; repeat dm; intros H; inversion H; subst; exact H2).
      cbv zeta. apply (andthen_pres enc dec ores ires NC); [apply NC_fail_all; exact H3|]. intros s5 H5.
      destruct (partition_policy s5 (s_pwco s5)) as [kept rejected].
      apply (andthen_pres enc dec ores ires NC); [apply NC_fail_all; exact H5|]. intros s7 H7.
      apply (andthen_pres enc dec ores ires NC); [apply NC_fail_exceeding; exact H7|]. intros s8 H8.
      match goal with |- context [partition_policy ?s10 ?q] => destruct (partition_policy s10 q) as [kept_u rejected_u] end.
      apply (andthen_pres enc dec ores ires NC); [apply NC_fail_all; exact H8|]. intros s12 H12. exact H12.
  Qed.

  Lemma SR_of_T (s s' : state) dn : IdsHelpers.Ts enc dec ores ires any_packet s s' dn -> NC s' -> SR s s'.
  Proof.
    intros HT Hnc H0. destruct (HT H0) as (H1 & _). split; [exact H1|]. intros E. contradiction.
  Qed.

  Lemma SR_net_closed s : SR s (r_s (net_closed s)).
  Proof.
    assert (H : SR s (r_s (net_closed_raw s))).
    { eapply SR_of_T; [apply (net_closed_raw_T enc dec ores ires cfg any_packet (any_policy cfg) s)|apply NC_net_closed_raw]. }
    unfold Model.net_closed. dm; [exact H|]. repeat dm; cbn [r_s]; exact H.
  Qed.

  Lemma SR_write_completion s : SR s (r_s (net_write_completion s)).
  Proof.
    unfold Model.net_write_completion. dm; [cbn; srs|]. dm; [cbn; apply SR_same; cbn; auto; right; discriminate|].
    eapply SR_trans; [|apply SR_succeed_all]. apply SR_same; cbn; auto.
  Qed.

  Lemma SR_halt s r : SR s (halt_on_error s r).
  Proof. destruct r; cbn; [apply SR_refl|apply SR_same; cbn; auto; right; discriminate..]. Qed.

  (* ---- service ---- *)
  Lemma SR_acquire_pid_for s id s' : acquire_pid_for s id = Ok s' -> SR s s'.
  Proof.
    unfold Model.acquire_pid_for. destruct (lookup id (s_ops s)) as [o|]; [|discriminate].
    destruct (op_pid o); [intros H; inversion H; apply SR_refl|]. dm; [intros H; inversion H; apply SR_refl|].
    destruct (acquire_free_pid s id) as [[s1 c]| |] eqn:Ea; cbn [obind]; try discriminate.
    assert (H1 : s_ops s1 = s_ops s /\ s_next_id s1 = s_next_id s /\ s_ss_count s1 = s_ss_count s /\ s_st s1 = s_st s).
    { revert Ea. unfold Model.acquire_free_pid. repeat dm; intros H; inversion H; subst; cbn; auto. }
    destruct H1 as (A & B & C & D).
    destruct (with_pid c (op_packet o)) as [p'| |]; cbn [obind]; try discriminate. intros H; inversion H; subst.
    eapply SR_update1 with (f := fun o0 : op => o0 <| op_pid := Some c |> <| op_packet := p' |>) (id := id); cbn; auto. rewrite A. reflexivity.
  Qed.

  Lemma SR_fully_written s now s' : fully_written s now = Ok s' -> SR s s'.
  Proof.
    unfold Model.fully_written. destruct (s_cur s) as [id|]; [|discriminate]. destruct (lookup id (s_ops s)) as [o|]; [|discriminate].
    match goal with |- context [update id ?f (s_ops ?s1)] => set (s1v := s1); set (fv := f) end.
    assert (H1 : s_ops s1v = s_ops s /\ s_next_id s1v = s_next_id s /\ s_ss_count s1v = s_ss_count s /\ (s_st s1v = s_st s \/ s_st s1v <> Connected)).
    { unfold s1v. repeat dm; cbn; repeat split; auto; right; discriminate. }
    destruct H1 as (A & B & C & D).
    intros H. eapply SR_update1 with (f := fv) (id := id); [intros x; reflexivity|..];
      revert H; repeat dm; cbn [obind]; intros H; inversion H; subst; cbn; rewrite ?A, ?B, ?C; auto.
  Qed.

  Lemma SR_dequeue s m : SR s (fst (dequeue s m)).
  Proof. unfold Model.dequeue. repeat dm; cbn [fst]; try apply SR_refl; apply SR_same; cbn; auto. Qed.

  Lemma SR_seat_current s m acc dn :
    match seat_current s m acc dn with
    | Model.SeatStop _ _ _ _ r => SR s (sr_s r)
    | Model.SeatContinue _ _ _ _ s5 _ => SR s s5
    | Model.SeatEncode _ _ _ _ s5 => SR s s5
    end.
  Proof.
    unfold Model.seat_current. destruct (s_cur s); [apply SR_refl|].
    pose proof (SR_dequeue s m) as H1. destruct (dequeue s m) as [s1 next]. cbn [fst] in H1.
    destruct next as [id|]; [|simpl; exact H1].
    assert (H2 : SR s (s1 <| s_cur := Some id |>)) by (eapply SR_trans; [exact H1|apply SR_same; cbn; auto]).
    destruct (negb (op_exists (s1 <| s_cur := Some id |>) id)); [simpl; eapply SR_trans; [exact H2|apply SR_same; cbn; auto]|].
    destruct (acquire_pid_for (s1 <| s_cur := Some id |>) id) as [s3| |] eqn:Ea; [|simpl; exact H2..].
    assert (H3 : SR s s3) by (eapply SR_trans; [exact H2|eapply SR_acquire_pid_for; exact Ea]).
    destruct (lookup id (s_ops s3)) as [o|]; [|simpl; exact H3].
    match goal with |- context [match ?res with Ok _ => _ | Err _ => _ | Panic _ => _ end] =>
      assert (Hres : forall s4 r, res = Ok (s4, r) -> SR s s4); [|destruct res as [[s4 r]| |] eqn:Eres] end.
    { intros s4 r. unfold obind. repeat dm; intros H; inversion H; subst; first [exact H3|eapply SR_trans; [exact H3|apply SR_same; cbn; auto]]. }
    2,3: simpl; exact H3.
    specialize (Hres s4 r eq_refl).
    match goal with |- context [v_out ?a ?b ?c ?d] => destruct (v_out a b c d) as [[]|k|site] end.
    - destruct (enc_reset _ _ _); simpl; first [exact Hres|eapply SR_trans; [exact Hres|apply SR_same; cbn; auto]].
    - match goal with |- context [fail_op ?sx id k] => set (sx' := sx) end.
      assert (Hx : SR s sx') by (unfold sx'; destruct (r_alias r); (eapply SR_trans; [exact Hres|apply SR_same; cbn; auto])).
      pose proof (SR_trans _ _ _ Hx (SR_fail_op sx' id k)) as Hf. destruct (r_out (fail_op sx' id k)); exact Hf.
    - simpl. exact Hres.
  Qed.

  Lemma SR_service_loop fuel : forall s m now cap fill acc dn, SR s (sr_s (service_loop fuel s m now cap fill acc dn)).
  Proof.
    induction fuel as [|f IH]; intros s m now cap fill acc dn; cbn [Model.service_loop]; [apply SR_refl|].
    destruct (negb _); [apply SR_refl|].
    pose proof (SR_seat_current s m acc dn) as Hs.
    destruct (seat_current s m acc dn) as [r|s5 dn'|s5]; [exact Hs|eapply SR_trans; [exact Hs|apply IH]|].
    destruct (s_cur s5); [|exact Hs]. destruct (negb _); [exact Hs|]. destruct (s_enc s5) as [e|]; [|exact Hs].
    destruct (enc_call e (fill + len acc) cap) as [[out e']| |]; [|exact Hs..].
    assert (H6 : SR s (s5 <| s_enc := Some e' |>)) by (eapply SR_trans; [exact Hs|apply SR_same; cbn; auto]).
    destruct (enc_done e'); [|exact H6].
    destruct (fully_written (s5 <| s_enc := Some e' |>) now) as [s7| |] eqn:Ef; [|exact H6..].
    eapply SR_trans; [exact H6|]. eapply SR_trans; [eapply SR_fully_written; exact Ef|apply IH].
  Qed.

  Lemma SR_service_queue s m now cap fill : SR s (sr_s (service_queue s m now cap fill)).
  Proof.
    unfold Model.service_queue.
    match goal with |- context [service_loop ?f s m now cap fill [] []] =>
      pose proof (SR_service_loop f s m now cap fill [] []) as H; destruct (sr_bytes (service_loop f s m now cap fill [] [])) end;
      [exact H|cbn [sr_s]; eapply SR_trans; [exact H|apply SR_same; cbn; auto]].
  Qed.

  Lemma SR_keep_alive s now s' : service_keep_alive s now = Ok s' -> SR s s'.
  Proof.
    unfold Model.service_keep_alive. destruct (s_ping_to s); [dm; intros H; inversion H; apply SR_refl|].
    destruct (s_next_ping s) as [np|]; [|intros H; inversion H; apply SR_refl]. destruct (np <=? now); [|intros H; inversion H; apply SR_refl].
    unfold Model.create_operation. cbn. destruct (s_settings s); [|discriminate]. destruct (add_time 1493 now _); cbn [obind]; [|discriminate..].
    dm; intros H; inversion H; subst; (apply SR_create with (o := new_op Pingreq false None); cbn; auto).
  Qed.

  Lemma SR_process_ack_timeouts s now : SR s (r_s (process_ack_timeouts s now)).
  Proof. unfold Model.process_ack_timeouts. eapply SR_trans; [|apply SR_fail_all]. apply SR_same; cbn; auto. Qed.

  Lemma SR_service s now cap fill : SR s (sr_s (service s now cap fill)).
  Proof.
    unfold Model.service. cbn [sr_s]. eapply SR_trans; [|apply SR_halt].
    destruct (s_st s); try apply SR_refl.
    - destruct (s_connack_to s); [|apply SR_refl]. dm; [apply SR_refl|apply SR_service_queue].
    - destruct (service_keep_alive s now) as [s1| |] eqn:Ek; [|apply SR_refl..].
      pose proof (SR_trans _ _ _ (SR_keep_alive _ _ _ Ek) (SR_service_queue s1 true now cap fill)) as Hq.
      destruct (sr_out (service_queue s1 true now cap fill)); [|exact Hq..].
      cbn [sr_s]. eapply SR_trans; [exact Hq|apply SR_process_ack_timeouts].
    - cbn [sr_s]. apply SR_process_ack_timeouts.
  Qed.

  (* ---- packets ---- *)
  Lemma SR_unbind s id : SR s (unbind s id).
  Proof.
    unfold Model.unbind. destruct (lookup id (s_ops s)) as [o|]; [|apply SR_refl].
    match goal with |- SR s (?s1 <| s_ops := update id ?f (s_ops ?s1') |>) => assert (H1 : SR s s1) end.
    { destruct (op_pid o) as [pid|]; [|apply SR_refl]. destruct (with_pid 0 (op_packet o)) as [p'| |]; [|apply SR_refl..].
      eapply SR_update1 with (f := fun o0 : op => o0 <| op_pid := None |> <| op_packet := p' |>) (id := id); cbn; auto. }
    eapply SR_trans; [exact H1|]. eapply SR_update1 with (f := fun o0 : op => o0 <| op_pubrel := None |>) (id := id); cbn; auto.
  Qed.

  Lemma SR_fold_unbind ids : forall s, SR s (fold_left unbind ids s).
  Proof. induction ids as [|id r IH]; intros s; cbn [fold_left]; [apply SR_refl|]. eapply SR_trans; [apply SR_unbind|apply IH]. Qed.

  Lemma set_dup_ss v o : op_ss (set_dup v o) = op_ss o.
  Proof. unfold set_dup. destruct (op_packet o); reflexivity. Qed.

  Lemma SR_apply_session s sp : SR s (r_s (apply_session s sp)).
  Proof.
    unfold Model.apply_session.
    match goal with |- context [if is_panic (r_out ?r1) then _ else _] => set (r1v := r1) end.
    assert (H1 : SR s (r_s r1v)).
    { unfold r1v. destruct sp; [cbn; apply SR_refl|]. destruct (partition_policy s (s_rq s)) as [kept rejected].
      match goal with |- context [fail_all ?s1 rejected _] => set (s1v := s1) end.
      assert (Hs1 : SR s s1v) by (eapply SR_update with (f := set_dup false) (ids := kept); cbn; auto; apply set_dup_ss).
      pose proof (SR_trans _ _ _ Hs1 (SR_fail_all rejected s1v EOfflineQueuePolicyFailed)) as Hf.
      destruct (is_panic _); [exact Hf|]. cbn [r_s]. eapply SR_trans; [exact Hf|apply SR_same; cbn; auto]. }
    destruct (is_panic (r_out r1v)); [exact H1|].
    match goal with |- context [Model.mkRes ?s3 (r_done r1v) (r_out r1v)] => set (s3v := s3) end.
    assert (H3 : SR s s3v).
    { eapply SR_trans; [exact H1|]. eapply SR_trans; [apply SR_fold_unbind|]. unfold s3v. apply SR_same; cbn; auto. }
    repeat dm; cbn [r_s]; exact H3.
  Qed.

  (* the invariant: ids, and the counter equation while Connected under the one-at-a-time policy *)
  Definition ss_inv (s : state) : Prop :=
    ids_of s /\ (cf_drain_one cfg = true -> s_st s = Connected -> s_ss_count s = sum_ss s).

  Lemma SR_inv s s' : SR s s' -> ss_inv s -> ss_inv s'.
  Proof.
    intros HR [H0 He]. destruct (HR H0) as [H1 Hc]. split; [exact H1|]. intros Hd Hst. destruct (Hc Hst) as [Hst0 Hk].
    rewrite sum_ss_sumss. apply Hk; [exact Hd|]. unfold ss_eq. rewrite <- sum_ss_sumss. apply He; assumption.
  Qed.

  Lemma ss_handle_connack s now c : ss_inv s -> ss_inv (h_s (handle_connack s now c)).
  Proof.
    intros Hi. unfold Model.handle_connack. dm; [exact Hi|]. dm; [exact Hi|]. destruct (v_in None (Connack c)); [|exact Hi..].
    match goal with |- context [apply_session ?s2 ?sp] => set (s2v := s2) end.
    assert (H2 : ss_inv s2v).
    { destruct Hi as [H0 _]. unfold s2v. destruct (cf_drain_one cfg) eqn:Ed; (split; [exact H0|]); cbn; [intros _ _; reflexivity|intros Hx; congruence]. }
    pose proof (SR_inv _ _ (SR_apply_session s2v (ca_session_present c)) H2) as H3.
    destruct (r_out (apply_session s2v (ca_session_present c))); cbn [h_s]; exact H3.
  Qed.

  Lemma ss_handle_packet s now p : ss_inv s -> ss_inv (h_s (handle_packet s now p)).
  Proof.
    intros Hi. destruct p; cbn [Model.handle_packet]; try exact Hi.
    - apply ss_handle_connack. exact Hi.
    - unfold Model.handle_publish. dm; [exact Hi|]. dm; [exact Hi|]. unfold Model.create_operation.
      dm; cbn [fst snd h_s]; [eapply SR_inv; [|exact Hi]; apply SR_create with (o := new_op (Puback (default_ack (pub_pid p))) false None); cbn; auto|].
      destruct (mem (pub_pid p) (s_q2in s)); cbn; (eapply SR_inv; [|exact Hi]; apply SR_create with (o := new_op (Pubrec (default_ack (pub_pid p))) false None); cbn; auto).
    - unfold Model.handle_puback. repeat dm; try exact Hi. eapply SR_inv; [apply SR_succeed_op|exact Hi].
    - unfold Model.handle_pubrec. repeat dm; try exact Hi; cbn [h_s hres_of Model.hres_of].
      + eapply SR_inv; [apply SR_succeed_op|exact Hi].
      + eapply SR_inv; [|exact Hi]. eapply SR_update1 with (f := fun o0 : op => o0 <| op_pubrel := Some (Pubrel (default_ack (ack_pid p))) |>); cbn; auto.
    - unfold Model.handle_pubrel. dm; [exact Hi|]. unfold Model.create_operation. cbn [fst snd h_s].
      eapply SR_inv; [|exact Hi]. apply SR_create with (o := new_op (Pubcomp (default_ack (ack_pid p))) false None); cbn; auto.
    - unfold Model.handle_pubcomp. repeat dm; try exact Hi. eapply SR_inv; [apply SR_succeed_op|exact Hi].
    - unfold Model.handle_suback. repeat dm; try exact Hi. eapply SR_inv; [apply SR_succeed_op|exact Hi].
    - unfold Model.handle_unsuback. repeat dm; try exact Hi; (eapply SR_inv; [apply SR_succeed_op|exact Hi]).
    - unfold Model.handle_pingresp. repeat dm; try exact Hi; (eapply SR_inv; [|exact Hi]; apply SR_same; cbn; auto).
    - unfold Model.handle_disconnect. repeat dm; exact Hi.
  Qed.

  Lemma ss_set_halted s : ss_inv s -> ss_inv (s <| s_st := Halted |>).
  Proof. apply SR_inv. apply SR_same; cbn; auto. right. discriminate. Qed.

  Lemma ss_handle_packets ps : forall s now dn ev, ss_inv s -> ss_inv (h_s (handle_packets s now ps dn ev)).
  Proof.
    induction ps as [|p rest IH]; intros s now dn ev Hi; cbn [Model.handle_packets]; [exact Hi|].
    match goal with |- context [match ?res with Ok _ => _ | Err _ => _ | Panic _ => _ end] =>
      assert (Hres : forall s1 p1, res = Ok (s1, p1) -> ss_inv s1); [|destruct res as [[s1 p1]| |] eqn:Eres] end.
    { intros s1 p1. unfold obind. repeat dm; intros E; inversion E; subst; first [exact Hi|eapply SR_inv; [|exact Hi]; apply SR_same; cbn; auto]. }
    2,3: exact Hi.
    specialize (Hres s1 p1 eq_refl).
    destruct (v_in (s_settings s1) p1); [|apply ss_set_halted; exact Hres|exact Hres].
    pose proof (ss_handle_packet s1 now p1 Hres) as Hh.
    destruct (h_out (handle_packet s1 now p1)); [apply IH; exact Hh|apply ss_set_halted; exact Hh|exact Hh].
  Qed.

  Lemma ss_net_data s now data : ss_inv s -> ss_inv (h_s (net_data s now data)).
  Proof.
    intros Hi. unfold Model.net_data. dm; [exact Hi|]. dm; [apply ss_set_halted; exact Hi|].
    destruct (dec_feed _ _ _ _) as [[d' ps] r].
    assert (H1 : ss_inv (s <| s_dec := d' |>)) by (eapply SR_inv; [|exact Hi]; apply SR_same; cbn; auto).
    destruct r; [apply ss_handle_packets; exact H1|apply ss_set_halted; exact H1|exact H1].
  Qed.

  Lemma SR_reset s : SR s (r_s (reset s)).
  Proof.
    eapply SR_of_T; [apply reset_T|].
    unfold Model.reset. set (s0 := if pstate_eqb (s_st s) Disconnected then s else s <| s_st := Halted |>).
    assert (H0 : NC s0) by (unfold NC, s0; destruct (s_st s) eqn:E; cbn; rewrite ?E; discriminate).
    match goal with |- context [fold_left ?f ?l ?a] => set (fv := f); set (lv := l) end.
    assert (Hfold : forall l acc, NC (r_s acc) -> NC (r_s (fold_left fv l acc))).
    { induction l as [|id r IH]; intros acc Ha; cbn [fold_left]; [exact Ha|]. apply IH. unfold fv.
      destruct (is_panic (r_out acc)); [exact Ha|]. cbn [r_s]. apply fail_op_st_nc. exact Ha. }
    specialize (Hfold lv (pure s0) H0). destruct (is_panic _); [exact Hfold|]. cbn [r_s]. unfold NC in *. cbn. exact Hfold.
  Qed.

  Theorem ss_step s e : ss_inv s -> ss_inv (fst (step s e)).
  Proof.
    intros Hi. destruct e; cbn [Model.step].
    - unfold Model.out_of_res. cbn [fst]. eapply SR_inv; [apply SR_user_event|exact Hi].
    - unfold Model.out_of_res. cbn [fst]. eapply SR_inv; [eapply SR_trans; [apply SR_net_opened|apply SR_halt]|exact Hi].
    - unfold Model.out_of_res. cbn [fst]. eapply SR_inv; [eapply SR_trans; [apply SR_net_closed|apply SR_halt]|exact Hi].
    - cbn [fst]. eapply SR_inv; [apply SR_halt|]. apply ss_net_data. exact Hi.
    - unfold Model.out_of_res. cbn [fst]. eapply SR_inv; [eapply SR_trans; [apply SR_write_completion|apply SR_halt]|exact Hi].
    - cbn [fst]. eapply SR_inv; [apply SR_service|exact Hi].
    - destruct (next_service_time s now); cbn [fst]; exact Hi.
    - unfold Model.out_of_res. cbn [fst]. eapply SR_inv; [apply SR_reset|exact Hi].
  Qed.

  Lemma ss_init o i : ss_inv (init o i).
  Proof. split; [split; cbn; constructor|]. cbn. intros _ H. discriminate. Qed.

  Lemma ss_run h : forall s, ss_inv s -> ss_inv (fst (run s h)).
  Proof.
    induction h as [|e r IH]; intros s Hi; [exact Hi|]. cbn [Model.run].
    pose proof (ss_step s e Hi) as H1. destruct (step s e) as [s1 o1]. cbn [fst] in H1.
    specialize (IH s1 H1). destruct (run s1 r). exact IH.
  Qed.

  (* in every reachable state: Connected under the one-at-a-time drain policy, the slow-start
     counter equals the sum of the marks of the existing operations *)
  Theorem ss_count_exact o i h :
    let s := fst (run (init o i) h) in
    cf_drain_one cfg = true -> s_st s = Connected -> s_ss_count s = sum_ss s.
  Proof. intros s. destruct (ss_run h (init o i) (ss_init o i)) as [_ H]. exact H. Qed.
End Engine.
