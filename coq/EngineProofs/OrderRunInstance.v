(* The run-level C10 theorems for the CONCRETE engine of Engine/Instance.v (i_init / i_step / i_run, the
   functions the correspondence check executes): the component hypotheses are discharged by
   WFInstance.instance_comps_ok, so the only hypotheses left are ok_cfg (finite ping timeout), ok_event
   (service times below 2^62 ms, buffer capacity >= 4) and, where CONNECT operations are counted, user_ok
   (no CONNECT packet submitted as a user operation). *)
From GM Require Import Base.Prelude Base.Outcome Codec.Packets Codec.Settings Codec.Steps Codec.ImplEncode
  Codec.Framing Alias.Outbound Alias.Inbound Validate.Rules Engine.Model Engine.Instance
  EngineProofs.AssocLemmas EngineProofs.WFDefs EngineProofs.WFInstance
  EngineProofs.HandshakeRunTrace EngineProofs.HandshakeRunFrame2 EngineProofs.HandshakeRunClose EngineProofs.HandshakeRunInv
  EngineProofs.HandshakeRun EngineProofs.OrderRunMain EngineProofs.OrderRunSeq EngineProofs.OrderRunStrict EngineProofs.OrderRunWitness.
Open Scope N_scope.

Definition i_order_facts : istate -> list seat_ev -> istate -> Prop := order_facts enc decoder ores ires.

Section Instance.
  Variable cfg : config.
  Hypothesis Hcfg : ok_cfg cfg.
  Variable k : resolver_kind.
  Variable h : list event.
  Hypothesis Hh : Forall ok_event h.

  Let o0 := ores_init k.
  Let i0 := ires_init (match co_tam (cf_connect cfg) with Some m => m | None => 0 end).
  Let s := fst (i_run cfg (i_init cfg k) h).

  (* ---- C10 ---- *)
  Theorem instance_queues_sorted_when_connected :
    s_st s = Connected -> sorted_le (s_rq s) /\ sorted_le (s_uq s).
  Proof.
    exact (queues_sorted_when_connected _ _ _ enc_done _ _ _ _ _ _ _ _ _ _ _ cfg instance_comps_ok Hcfg o0 i0 h I I Hh).
  Qed.

  Theorem instance_submission_order now cap fill :
    s_st s = Connected -> i_order_facts s (i_service_seats cfg s now cap fill) (sr_s (i_service cfg s now cap fill)).
  Proof.
    exact (submission_order _ _ _ enc_done _ _ _ _ _ _ _ _ _ _ _ cfg instance_comps_ok Hcfg o0 i0 h now cap fill I I Hh).
  Qed.

  Theorem instance_connected_segment_order h2 :
    Forall ok_event h2 -> s_st s = Connected -> i_stays_connected cfg s h2 ->
    sorted_le (ids_of QU (i_run_seats cfg s h2) ++ s_uq (fst (i_run cfg s h2))) /\
    s_rq s = ids_of QR (i_run_seats cfg s h2) ++ s_rq (fst (i_run cfg s h2)) /\
    sorted_le (s_rq s) /\
    (forall t1 j t2, i_run_seats cfg s h2 = t1 ++ (QU, j) :: t2 -> ids_of QR t1 = s_rq s /\ ids_of QR t2 = []).
  Proof.
    intros H2. exact (connected_segment_order _ _ _ enc_done _ _ _ _ _ _ _ _ _ _ _ cfg instance_comps_ok Hcfg o0 i0 h h2 I I Hh H2).
  Qed.

  Theorem instance_queues_strictly_sorted_first_connection :
    Forall no_close h -> s_st s = Connected ->
    sorted_lt (s_rq s) /\ sorted_lt (s_uq s) /\ NoDup (s_uq s ++ s_rq s).
  Proof.
    intros Hnc. exact (queues_strictly_sorted_first_connection _ _ _ enc_done _ _ _ _ _ _ _ _ _ _ _ cfg instance_comps_ok Hcfg o0 i0 h I I Hh Hnc).
  Qed.
End Instance.
