(* CONNACK events of one IncomingData call of the engine (what the client's dispatch_packet_events sees):
   at most one, only while the CONNACK is awaited, and a successful one leaves the engine Connected (or Halted by a
   later packet of the same call) -- never still awaiting the CONNACK.  On ARBITRARY engine states. *)
From GM Require Import Base.Prelude Base.Outcome Codec.Packets Codec.Settings Engine.Model
  EngineProofs.AssocLemmas EngineProofs.WFLemmas EngineProofs.HandshakeRunTrace EngineProofs.HandshakeRunSt.
From RecordUpdate Require Import RecordSet.
Import RecordSetNotations.
Open Scope N_scope.

(* the four component types are implicit in the engine functions, locally to this file *)
#[local] Arguments init {enc dec} _ {ores ires} _ _.
#[local] Arguments release {enc dec ores ires} _ _ _ _.
#[local] Arguments disconnect_completion {enc dec ores ires} _ _.
#[local] Arguments fail_op {enc dec ores ires} _ _ _ _.
#[local] Arguments ping_extension {enc dec ores ires} _ _.
#[local] Arguments succeed_op {enc dec ores ires} _ _ _ _.
#[local] Arguments fail_all {enc dec ores ires} _ _ _ _.
#[local] Arguments succeed_all {enc dec ores ires} _ _ _.
#[local] Arguments andthen {enc dec ores ires} _ _.
#[local] Arguments try_ {enc dec ores ires} _ _.
#[local] Arguments pure {enc dec ores ires} _.
#[local] Arguments create_operation {enc dec ores ires} _ _.
#[local] Arguments passes_now {enc dec ores ires} _ _ _.
#[local] Arguments user_event {enc dec ores ires} _ _ _ _.
#[local] Arguments create_connect {enc dec ores ires} _ _.
#[local] Arguments net_opened {enc dec} _ {ores ires} _ _ _.
#[local] Arguments op_exists {enc dec ores ires} _ _.
#[local] Arguments op_passes {enc dec ores ires} _ _ _.
#[local] Arguments partition_policy {enc dec ores ires} _ _ _.
#[local] Arguments closed_current {enc dec ores ires} _ _.
#[local] Arguments slow_start_init {enc dec ores ires} _ _.
#[local] Arguments update_retries {enc dec ores ires} _ _.
#[local] Arguments fail_exceeding {enc dec ores ires} _ _.
#[local] Arguments has_pubrel {enc dec ores ires} _ _.
#[local] Arguments net_closed_raw {enc dec ores ires} _ _.
#[local] Arguments net_closed {enc dec ores ires} _ _.
#[local] Arguments net_write_completion {enc dec ores ires} _ _.
#[local] Arguments acquire_free_pid {enc dec ores ires} _ _.
#[local] Arguments acquire_pid_for {enc dec ores ires} _ _.
#[local] Arguments unbind {enc dec ores ires} _ _.
#[local] Arguments passes_receive_max {enc dec ores ires} _ _.
#[local] Arguments throttled {enc dec ores ires} _ _.
#[local] Arguments has_pending_ack {enc dec ores ires} _.
#[local] Arguments dequeue {enc dec ores ires} _ _ _.
#[local] Arguments fully_written {enc dec ores ires} _ _.
#[local] Arguments service_keep_alive {enc dec ores ires} _ _ _.
#[local] Arguments process_ack_timeouts {enc dec ores ires} _ _ _.
#[local] Arguments halt_on_error {enc dec ores ires} _ _.
#[local] Arguments next_service_time {enc dec ores ires} _ _ _.
#[local] Arguments build_settings {enc dec ores ires} _ _ _.
#[local] Arguments apply_session {enc dec ores ires} _ _ _.
#[local] Arguments hres_of {enc dec ores ires} _ _.
#[local] Arguments pre_connack {enc dec ores ires} _.
#[local] Arguments sum_ss {enc dec ores ires} _.
#[local] Arguments handle_pingresp {enc dec ores ires} _.
#[local] Arguments handle_suback {enc dec ores ires} _ _ _.
#[local] Arguments handle_unsuback {enc dec ores ires} _ _ _.
#[local] Arguments publish_qos_of {enc dec ores ires} _ _.
#[local] Arguments handle_puback {enc dec ores ires} _ _ _.
#[local] Arguments handle_pubrec {enc dec ores ires} _ _ _.
#[local] Arguments handle_pubrel {enc dec ores ires} _ _.
#[local] Arguments handle_pubcomp {enc dec ores ires} _ _ _.
#[local] Arguments handle_publish {enc dec ores ires} _ _.
#[local] Arguments handle_disconnect {enc dec ores ires} _ _ _.
#[local] Arguments is_connect_op {enc dec ores ires} _ _.
#[local] Arguments connect_in_queue {enc dec ores ires} _.
#[local] Arguments reset {enc dec ores ires} _ _.
#[local] Arguments out_of_res {enc dec ores ires} _ _.
#[local] Arguments nst_queue {enc dec ores ires} _ _ _ _.
#[local] Arguments earliest_tmo {enc dec ores ires} _.
#[local] Arguments SeatStop {enc dec ores ires} _.
#[local] Arguments SeatContinue {enc dec ores ires} _ _.
#[local] Arguments SeatEncode {enc dec ores ires} _.



Definition connacks (l : list packet) : list connack :=
  flat_map (fun p => match p with Connack c => [c] | _ => [] end) l.

Lemma connacks_app a b : connacks (a ++ b) = connacks a ++ connacks b.
Proof. unfold connacks. apply flat_map_app. Qed.

Section CE.
  Context {enc dec ores ires : Type}.
  Variable dec_feed : version -> N -> dec -> bytes -> dec * list packet * outcome unit.
  Variable ores_reset : ores -> N -> ores.
  Variable ires_reset : ires -> ires.
  Variable ires_resolve : ires -> option N -> bytes -> outcome (ires * bytes).
  Variable v_in : option settings -> packet -> outcome unit.
  Variable cfg : config.

  Notation state := (state enc dec ores ires).
  Notation handle_connack := (handle_connack enc dec ores ores_reset ires ires_reset v_in cfg).
  Notation handle_packet := (handle_packet enc dec ores ores_reset ires ires_reset v_in cfg).
  Notation handle_packets := (handle_packets enc dec ores ores_reset ires ires_reset ires_resolve v_in cfg).
  Notation net_data := (net_data enc dec dec_feed ores ores_reset ires ires_reset ires_resolve v_in cfg).

  (* what one packet handler reports: nothing, or the CONNACK it was given while one was awaited *)
  Definition one_connack (s : state) (h : hres enc dec ores ires) : Prop :=
    connacks (h_ev h) = [] \/
    exists c, connacks (h_ev h) = [c] /\ s_st s = PendingConnack /\
              ((ca_rc c = 0 /\ h_out h = Ok tt /\ s_st (h_s h) = Connected) \/ (ca_rc c <> 0 /\ h_out h <> Ok tt)).

  Lemma handle_connack_connacks (s : state) now c : one_connack s (handle_connack s now c).
  Proof.
    unfold one_connack, Model.handle_connack.
    destruct (negb (pstate_eqb (s_st s) PendingConnack)) eqn:E1; [left; reflexivity|].
    assert (Hpc : s_st s = PendingConnack) by (destruct (s_st s); cbn in E1; congruence).
    destruct (negb (ca_rc c =? 0)) eqn:E2.
    { right. exists c. cbn. split; [reflexivity|]. split; [exact Hpc|]. right. split; [|discriminate].
      intros E. rewrite E in E2. discriminate. }
    assert (Hrc : ca_rc c = 0) by (destruct (ca_rc c =? 0) eqn:E; [apply N.eqb_eq in E; exact E|discriminate]).
    destruct (v_in None (Connack c)); [|left; reflexivity|left; reflexivity].
    cbv zeta.
    match goal with |- context [apply_session cfg ?sx ?sp] => pose proof (apply_session_ST enc dec ores ires cfg sx sp) as Ha; set (r := apply_session cfg sx sp) in Ha |- *;
      assert (Hx : s_st sx = Connected) by (destruct (cf_drain_one cfg); reflexivity) end.
    assert (H : s_st (r_s r) = Connected) by (destruct Ha as [Ha|[Ha _]]; congruence).
    destruct (r_out r) as [[]|k|site]; cbn [h_s h_ev h_out]; [|left; reflexivity|left; reflexivity].
    right. exists c. split; [reflexivity|]. split; [exact Hpc|]. left. auto.
  Qed.

  Lemma handle_packet_connacks (s : state) now p : one_connack s (handle_packet s now p).
  Proof.
    destruct p as [c|c|p|a|a|a|a|sb|s0|un|u| | |d|au]; cbn [Model.handle_packet]; try (left; reflexivity).
    - apply handle_connack_connacks.
    - left. unfold handle_publish. destruct (pre_connack s); [reflexivity|]. destruct (_ =? 0); [reflexivity|].
      destruct (_ =? 1); [reflexivity|]. destruct (mem _ _); reflexivity.
    - left. unfold handle_puback. destruct (pre_connack s); [reflexivity|]. destruct (lookup _ (s_ppub s)) as [id|]; [|reflexivity].
      destruct (publish_qos_of s id) as [q|]; [|reflexivity]. destruct q as [|q]; [reflexivity|].
      destruct q; reflexivity.
    - left. unfold handle_pubrec. destruct (pre_connack s); [reflexivity|]. destruct (lookup _ (s_ppub s)) as [id|]; [|reflexivity].
      destruct (lookup id (s_ops s)) as [o|]; [|reflexivity]. destruct (op_packet o); try reflexivity.
      destruct (_ =? 2); [|reflexivity]. destruct (128 <=? _); [reflexivity|reflexivity].
    - left. unfold handle_pubrel. destruct (pre_connack s); reflexivity.
    - left. unfold handle_pubcomp. destruct (pre_connack s); [reflexivity|]. destruct (lookup _ (s_ppub s)) as [id|]; [|reflexivity].
      destruct (lookup id (s_ops s)) as [o|]; [|reflexivity]. destruct (op_packet o); try reflexivity.
      destruct (_ =? 2); [|reflexivity]. destruct (op_pubrel o); [reflexivity|reflexivity].
    - left. unfold handle_suback. destruct (pre_connack s); [reflexivity|]. destruct (lookup _ (s_pnon s)) as [id|]; [|reflexivity].
      destruct (lookup id (s_ops s)) as [o|]; [|reflexivity]. destruct (op_packet o); try reflexivity.
      destruct (negb _); [reflexivity|]. reflexivity.
    - left. unfold handle_unsuback. destruct (pre_connack s); [reflexivity|]. destruct (lookup _ (s_pnon s)) as [id|]; [|reflexivity].
      destruct (lookup id (s_ops s)) as [o|]; [|reflexivity]. destruct (op_packet o); try reflexivity.
      destruct (version_eqb _ _); [reflexivity|]. destruct (negb _); [reflexivity|]. reflexivity.
    - left. unfold handle_pingresp. destruct (s_st s); try reflexivity; destruct (s_ping_to s); reflexivity.
    - left. unfold handle_disconnect. destruct (pre_connack s); [reflexivity|]. destruct (version_eqb _ _); reflexivity.
  Qed.

  Lemma handle_packets_connacks now : forall ps (s : state) dn ev,
    let h := handle_packets s now ps dn ev in
    exists nw, h_ev h = ev ++ nw /\
      (s_st s <> PendingConnack -> connacks nw = []) /\
      (length (connacks nw) <= 1)%nat /\
      (forall c, In c (connacks nw) -> ca_rc c = 0 -> s_st (h_s h) = Connected \/ s_st (h_s h) = Halted).
  Proof.
    induction ps as [|p rest IH]; intros s dn ev; cbn [Model.handle_packets]; cbv zeta.
    { exists []. cbn. rewrite app_nil_r. repeat split; auto. intros c []. }
    assert (Hnil : forall (s' : state) o, exists nw, h_ev (mkHres s' dn ev o) = ev ++ nw /\
              (s_st s <> PendingConnack -> connacks nw = []) /\ (length (connacks nw) <= 1)%nat /\
              (forall c, In c (connacks nw) -> ca_rc c = 0 -> s_st (h_s (mkHres s' dn ev o)) = Connected \/ s_st (h_s (mkHres s' dn ev o)) = Halted)).
    { intros s' o. exists []. cbn. rewrite app_nil_r. repeat split; auto. intros c []. }
    assert (Hres : forall x : outcome (state * packet),
              x = match p with
                  | Publish pb => do (i', t) <- ires_resolve (s_ires s) (pub_alias pb) (pub_topic pb) ;
                                  Ok (s <| s_ires := i' |>, Publish (with_topic pb t))
                  | _ => Ok (s, p) end ->
              match x with Ok (s1, _) => s_st s1 = s_st s | _ => True end).
    { intros x ->. destruct p; try reflexivity. destruct (ires_resolve _ _ _) as [[i' t]| |]; cbn; try exact I. reflexivity. }
    specialize (Hres _ eq_refl).
    destruct (match p with Publish pb => _ | _ => _ end) as [[s1 p1]|k|site]; [|apply Hnil|apply Hnil].
    destruct (v_in (s_settings s1) p1); [|apply Hnil|apply Hnil].
    pose proof (handle_packet_connacks s1 now p1) as Hk.
    destruct (handle_packet_HT enc dec ores ores_reset ires ires_reset v_in cfg s1 now p1) as [Hh _].
    set (h1 := handle_packet s1 now p1) in *.
    destruct (h_out h1) as [[]|k|site] eqn:Eo; cbn [h_s h_ev h_out].
    - (* handled: the rest of the batch *)
      destruct (IH (h_s h1) (dn ++ h_done h1) (ev ++ h_ev h1)) as (nw2 & E2 & A2 & B2 & C2). cbv zeta in E2, C2.
      exists (h_ev h1 ++ nw2). split; [rewrite E2, app_assoc; reflexivity|]. rewrite connacks_app.
      destruct Hk as [Hk|(c & Hk & Hpc & Hk2)].
      + rewrite Hk. cbn [app].
        assert (Hn : s_st s <> PendingConnack -> s_st (h_s h1) <> PendingConnack).
        { intros Hn E. apply Hn. rewrite <- Hres. destruct Hh as [[Hh|[Hh Hh']]|[Hh Hh']]; congruence. }
        split; [intros Hs; apply A2, Hn, Hs|]. split; [exact B2|exact C2].
      + destruct Hk2 as [(Hrc & _ & Hc)|(_ & Hno)]; [|congruence].
        assert (Hz : connacks nw2 = []) by (apply A2; congruence).
        rewrite Hk, Hz. cbn [app length]. split; [intros Hs; congruence|]. split; [lia|].
        intros c' _ _.
        destruct (handle_packets_DT enc dec ores ores_reset ires ires_reset ires_resolve v_in cfg now rest (h_s h1) (dn ++ h_done h1) (ev ++ h_ev h1)) as [[D|[D|[D _]]] _];
          [left; congruence|right; exact D|congruence].
    - (* the handler failed: the batch ends, the engine halts *)
      exists (h_ev h1). split; [reflexivity|].
      destruct Hk as [Hk|(c & Hk & Hpc & Hk2)].
      + rewrite Hk. cbn. repeat split; auto; try (intros c []); try contradiction.
      + rewrite Hk. cbn [length]. split; [intros Hs; congruence|]. split; [lia|]. intros c' _ _. right. reflexivity.
    - exists (h_ev h1). split; [reflexivity|].
      destruct Hk as [Hk|(c & Hk & Hpc & Hk2)].
      + rewrite Hk. cbn. repeat split; auto; try (intros c []); try contradiction.
      + destruct Hk2 as [(_ & Ho & _)|(Hrc & _)]; [congruence|].
        rewrite Hk. cbn [length]. split; [intros Hs; congruence|]. split; [lia|].
        intros c' [<-|[]] E. contradiction.
  Qed.

  (* one IncomingData call *)
  Theorem net_data_connacks (s : state) now data :
    let h := net_data s now data in
    (s_st s <> PendingConnack -> connacks (h_ev h) = []) /\
    (length (connacks (h_ev h)) <= 1)%nat /\
    (forall c, In c (connacks (h_ev h)) -> ca_rc c = 0 -> s_st (halt_on_error (h_s h) (h_out h)) <> PendingConnack).
  Proof.
    cbv zeta. unfold Model.net_data.
    destruct (_ || _); [cbn; repeat split; auto; intros c []|].
    destruct (_ && _); [cbn; repeat split; auto; intros c []|].
    destruct (dec_feed _ _ _ _) as [[d' ps] r]. destruct r as [u|k|site]; [|cbn; repeat split; auto; intros c []..].
    destruct (handle_packets_connacks now ps (s <| s_dec := d' |>) [] []) as (nw & E & A & B & C). cbv zeta in E, C.
    cbn [app] in E. rewrite E. split; [exact A|]. split; [exact B|].
    intros c Hc Hrc. specialize (C c Hc Hrc).
    match goal with |- s_st (halt_on_error ?a ?b) <> _ => destruct (halt_on_error_st enc dec ores ires a b) as [Hh|Hh]; rewrite Hh end;
      [destruct C; congruence|discriminate].
  Qed.
End CE.
