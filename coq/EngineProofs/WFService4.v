(* Well-formedness through the service path, part 4: service_queue, service_keep_alive,
   process_ack_timeouts, service. *)
From GM Require Import Base.Prelude Base.Outcome Codec.Packets Codec.Settings Engine.Model
  EngineProofs.AssocLemmas EngineProofs.PacketIds EngineProofs.WFLemmas EngineProofs.WFDefs EngineProofs.WFCore
  EngineProofs.WFComplete EngineProofs.WFClose EngineProofs.WFService EngineProofs.WFService2 EngineProofs.WFService3 EngineProofs.WFTrack.
From Coq Require Import Sorting.Sorted.
From RecordUpdate Require Import RecordSet.
Import RecordSetNotations.
Open Scope N_scope.

(* the four component types are implicit in the engine functions, locally to this file *)
#[local] Arguments init {enc dec} _ {ores ires} _ _.
#[local] Arguments release {enc dec ores ires} _ _ _ _.
#[local] Arguments disconnect_completion {enc dec ores ires} _ _.
#[local] Arguments fail_op {enc dec ores ires} _ _ _ _.
#[local] Arguments ping_extension {enc dec ores ires} _ _.
#[local] Arguments succeed_op {enc dec ores ires} _ _ _ _.
#[local] Arguments fail_all {enc dec ores ires} _ _ _ _.
#[local] Arguments succeed_all {enc dec ores ires} _ _ _.
#[local] Arguments andthen {enc dec ores ires} _ _.
#[local] Arguments try_ {enc dec ores ires} _ _.
#[local] Arguments pure {enc dec ores ires} _.
#[local] Arguments create_operation {enc dec ores ires} _ _.
#[local] Arguments passes_now {enc dec ores ires} _ _ _.
#[local] Arguments user_event {enc dec ores ires} _ _ _ _.
#[local] Arguments create_connect {enc dec ores ires} _ _.
#[local] Arguments net_opened {enc dec} _ {ores ires} _ _ _.
#[local] Arguments op_exists {enc dec ores ires} _ _.
#[local] Arguments op_passes {enc dec ores ires} _ _ _.
#[local] Arguments partition_policy {enc dec ores ires} _ _ _.
#[local] Arguments closed_current {enc dec ores ires} _ _.
#[local] Arguments slow_start_init {enc dec ores ires} _ _.
#[local] Arguments update_retries {enc dec ores ires} _ _.
#[local] Arguments fail_exceeding {enc dec ores ires} _ _.
#[local] Arguments has_pubrel {enc dec ores ires} _ _.
#[local] Arguments net_closed_raw {enc dec ores ires} _ _.
#[local] Arguments net_closed {enc dec ores ires} _ _.
#[local] Arguments net_write_completion {enc dec ores ires} _ _.
#[local] Arguments acquire_free_pid {enc dec ores ires} _ _.
#[local] Arguments acquire_pid_for {enc dec ores ires} _ _.
#[local] Arguments unbind {enc dec ores ires} _ _.
#[local] Arguments passes_receive_max {enc dec ores ires} _ _.
#[local] Arguments throttled {enc dec ores ires} _ _.
#[local] Arguments has_pending_ack {enc dec ores ires} _.
#[local] Arguments dequeue {enc dec ores ires} _ _ _.
#[local] Arguments fully_written {enc dec ores ires} _ _.
#[local] Arguments service_keep_alive {enc dec ores ires} _ _ _.
#[local] Arguments process_ack_timeouts {enc dec ores ires} _ _ _.
#[local] Arguments halt_on_error {enc dec ores ires} _ _.
#[local] Arguments next_service_time {enc dec ores ires} _ _ _.
#[local] Arguments build_settings {enc dec ores ires} _ _ _.
#[local] Arguments apply_session {enc dec ores ires} _ _ _.
#[local] Arguments hres_of {enc dec ores ires} _ _.
#[local] Arguments pre_connack {enc dec ores ires} _.
#[local] Arguments sum_ss {enc dec ores ires} _.
#[local] Arguments handle_pingresp {enc dec ores ires} _.
#[local] Arguments handle_suback {enc dec ores ires} _ _ _.
#[local] Arguments handle_unsuback {enc dec ores ires} _ _ _.
#[local] Arguments publish_qos_of {enc dec ores ires} _ _.
#[local] Arguments handle_puback {enc dec ores ires} _ _ _.
#[local] Arguments handle_pubrec {enc dec ores ires} _ _ _.
#[local] Arguments handle_pubrel {enc dec ores ires} _ _.
#[local] Arguments handle_pubcomp {enc dec ores ires} _ _ _.
#[local] Arguments handle_publish {enc dec ores ires} _ _.
#[local] Arguments handle_disconnect {enc dec ores ires} _ _ _.
#[local] Arguments is_connect_op {enc dec ores ires} _ _.
#[local] Arguments connect_in_queue {enc dec ores ires} _.
#[local] Arguments reset {enc dec ores ires} _ _.
#[local] Arguments out_of_res {enc dec ores ires} _ _.
#[local] Arguments nst_queue {enc dec ores ires} _ _ _ _.
#[local] Arguments earliest_tmo {enc dec ores ires} _.
#[local] Arguments SeatStop {enc dec ores ires} _.
#[local] Arguments SeatContinue {enc dec ores ires} _ _.
#[local] Arguments SeatEncode {enc dec ores ires} _.


Section Serve.
  Variable enc : Type.
  Variable enc_reset : version -> packet -> resolution -> outcome enc.
  Variable enc_call : enc -> N -> N -> outcome (bytes * enc).
  Variable enc_done : enc -> bool.
  Variable dec : Type.
  Variable dec_init : dec.
  Variable dec_feed : version -> N -> dec -> bytes -> dec * list packet * outcome unit.
  Variable ores : Type.
  Variable ores_reset : ores -> N -> ores.
  Variable ores_resolve : ores -> option N -> bytes -> outcome (ores * resolution).
  Variable ires : Type.
  Variable ires_reset : ires -> ires.
  Variable ires_resolve : ires -> option N -> bytes -> outcome (ires * bytes).
  Variable v_out : option settings -> connect_opts -> resolution -> packet -> outcome unit.
  Variable v_in : option settings -> packet -> outcome unit.
  Variable cfg : config.
  Variable HC : comps_ok enc enc_reset enc_call dec dec_init dec_feed ores ores_reset ores_resolve ires ires_reset ires_resolve v_out v_in.
  Hypothesis Hcfg : ok_cfg cfg.

  Notation state := (state enc dec ores ires).
  Notation service_loop := (service_loop enc enc_reset enc_call enc_done dec ores ores_reset ores_resolve ires v_out cfg).
  Notation service_queue := (service_queue enc enc_reset enc_call enc_done dec ores ores_reset ores_resolve ires v_out cfg).
  Notation service := (service enc enc_reset enc_call enc_done dec ores ores_reset ores_resolve ires v_out cfg).
  Notation lp := (lp cfg HC).

  Ltac splits := repeat match goal with |- _ /\ _ => split end.
  Ltac tuple_eqs H := repeat (apply pair_equal_spec in H; destruct H as [H ?]).
  Ltac core_cbn := unfold tracked, inq; cbn [core_of c_ops c_uq c_rq c_hq c_cur c_alloc c_ppub c_pnon c_pwco c_nid c_npid].

  Lemma service_queue_spec (s : state) m now cap fill :
    WF cfg s -> cinv HC s -> (s_st s = PendingConnack -> m = false) -> 4 <= cap ->
    lp (s_st s) (TR s) (service_queue s m now cap fill).
  Proof.
    intros HW HI Hm Hcap. unfold Model.service_queue.
    set (fuel := S (S (length (s_hq s) + length (s_rq s) + length (s_uq s)))).
    assert (L : lp (s_st s) (TR s) (service_loop (fuel + fuel) s m now cap fill [] [])).
    { apply (service_loop_spec _ _ _ _ _ _ _ _ _ _ _ _ _ _ _ _ HC); auto.
      unfold mu, qlen, fuel. destruct (s_cur s); lia. }
    set (r := service_loop (fuel + fuel) s m now cap fill [] []) in *.
    destruct (sr_bytes r); [exact L|].
    destruct L as (L1 & L2 & L3 & L4 & L5 & L6). unfold WFService3.lp. cbn. splits; auto.
  Qed.

  (* per-state facts when a fresh operation (no slow-start mark) is appended *)
  Lemma WFP_newop (s s' : state) o :
    WFS s -> WFP cfg s -> op_ss o = 0 ->
    s_ops s' = s_ops s ++ [(s_next_id s, o)] ->
    s_st s' = s_st s -> s_ppub s' = s_ppub s -> s_pnon s' = s_pnon s -> s_pwco s' = s_pwco s -> s_tmo s' = s_tmo s ->
    s_cur s' = s_cur s -> s_connack_to s' = s_connack_to s -> s_settings s' = s_settings s ->
    s_ss_count s' = s_ss_count s -> (s_enc s <> None -> s_enc s' <> None) ->
    (s_hq s' = s_hq s \/ (s_st s <> PendingConnack /\ s_st s <> Disconnected)) ->
    WFP cfg s'.
  Proof using.
    clear HC Hcfg. clear enc_reset enc_call enc_done dec_init dec_feed ores_reset ores_resolve ires_reset ires_resolve v_out v_in.
    intros HW HP Hss Eo E1 E2 E3 E4 E5 E6 E7 E8 E9 E10 Hhq.
    assert (Hfresh : lookup (s_next_id s) (s_ops s) = None).
    { apply lookup_none_not_in. intros Hin. pose proof (w_lt _ _ HW _ Hin) as Hlt. cbn in Hlt. lia. }
    assert (Hfwd : forall i o1, getop s i = Some o1 -> getop s' i = Some o1).
    { intros i o1 Hi. unfold getop in *. rewrite Eo, lookup_app, Hi. reflexivity. }
    assert (Hcur : forall i o1, s_cur s = Some i -> getop s' i = Some o1 -> getop s i = Some o1).
    { intros i o1 Hc Hi. unfold getop in *. rewrite Eo, lookup_app in Hi. destruct (lookup i (s_ops s)); [exact Hi|].
      cbn in Hi. destruct (s_next_id s =? i) eqn:E; [|discriminate].
      assert (Hlt : i < s_next_id s) by (apply (w_qlt _ _ HW); unfold inq; cbn; tauto). lia. }
    unfold WFP in *. rewrite E1. destruct (s_st s) eqn:Est.
    - destruct Hhq as [Hhq|[_ Hx]]; [|congruence]. destruct HP as (A1 & A2 & A3 & A4 & A5 & A6). splits; congruence.
    - destruct Hhq as [Hhq|[Hx _]]; [|congruence]. destruct HP as (A1 & A2 & A3 & A4 & A5 & A6 & A7 & A8).
      splits; try congruence.
      + intros i Hi. rewrite Hhq, E4 in Hi. destruct (A5 i Hi) as (o1 & Ho1 & C). exists o1. split; [apply Hfwd; exact Ho1|exact C].
      + intros i o1 Hc Hi. rewrite E6 in Hc. apply (A6 i o1 Hc). apply Hcur; assumption.
      + intros i o1 Hc Hi. rewrite E6 in Hc. destruct (A7 i o1 Hc (Hcur _ _ Hc Hi)). split; auto.
    - destruct HP as (A1 & A2 & A3). splits; try congruence.
      + intros i o1 Hc Hi. rewrite E6 in Hc. destruct (A2 i o1 Hc (Hcur _ _ Hc Hi)). split; auto.
      + unfold ss_ok in *. intros Hd. rewrite E9, Eo, sumss_app, sumss_cons, Hss. change (sumss []) with 0. rewrite (A3 Hd). lia.
    - congruence.
    - exact I.
  Qed.

  Lemma IMAX_big : 2 * TMAX <= IMAX.
  Proof. unfold TMAX, IMAX. lia. Qed.

  Lemma service_keep_alive_spec (s : state) now :
    WF cfg s -> s_st s = Connected -> now <= TMAX ->
    match service_keep_alive cfg s now with
    | Panic _ => False
    | Err _ => True
    | Ok s1 => WF cfg s1 /\ s_st s1 = Connected /\ comp_of s1 = comp_of s /\ (TR s -> TR s1)
    end.
  Proof.
    intros [HW HP] Hst Hnow. unfold service_keep_alive.
    destruct (s_ping_to s) as [pt|]; [destruct (pt <=? now); [exact I|split; [split|split; [|split]]; auto]|].
    destruct (s_next_ping s) as [np|]; [|split; [split|split; [|split]]; auto].
    destruct (np <=? now); [|split; [split|split; [|split]]; auto].
    set (o := new_op Pingreq false None).
    destruct (create_op_spec [] s o HW eq_refl eq_refl) as (C1 & C2 & C3 & C4 & C5 & C6 & C7 & C8 & C9 & C10).
    cbn [create_operation fst snd] in *. cbv zeta.
    assert (Hset : s_settings s <> None) by (unfold WFP in HP; rewrite Hst in HP; tauto).
    cbn. destruct (s_settings s) as [st|] eqn:Eset; [|congruence].
    unfold add_time.
    assert (Hfin : N.min (cf_ping_timeout cfg) (st_server_keep_alive st * 500) <= TMAX).
    { etransitivity; [apply N.le_min_l|exact Hcfg]. }
    pose proof IMAX_big as Hbig.
    destruct (IMAX <? now + N.min (cf_ping_timeout cfg) (st_server_keep_alive st * 500)) eqn:El; [lia|]. cbn [obind].
    assert (Hgen : forall sF : state,
              s_ops sF = s_ops s ++ [(s_next_id s, o)] -> s_next_id sF = s_next_id s + 1 ->
              s_hq sF = s_next_id s :: s_hq s -> s_uq sF = s_uq s -> s_rq sF = s_rq s -> s_cur sF = s_cur s ->
              s_alloc sF = s_alloc s -> s_ppub sF = s_ppub s -> s_pnon sF = s_pnon s -> s_pwco sF = s_pwco s ->
              s_next_pid sF = s_next_pid s -> s_st sF = s_st s -> s_tmo sF = s_tmo s -> s_connack_to sF = s_connack_to s ->
              s_settings sF = s_settings s -> s_ss_count sF = s_ss_count s -> s_enc sF = s_enc s -> comp_of sF = comp_of s ->
              WF cfg sF /\ s_st sF = Connected /\ comp_of sF = comp_of s /\ (TR s -> TR sF)).
    { intros sF F1 F2 F3 F4 F5 F6 F7 F8 F9 F10 F11 F12 F13 F14 F15 F16 F17 F18. split; [split|split; [congruence|split; [exact F18|]]].
      3:{ intros T. apply (TR_gen s sF T). intros i o1 Hi Hp. unfold getop in Hi. rewrite F1, lookup_app in Hi.
          destruct (lookup i (s_ops s)) as [o0|] eqn:E0.
          - right. inversion Hi; subst o1. exists o0. splits; auto. unfold inQ. rewrite F3, F4, F5, F6, F10. cbn. tauto.
          - left. cbn in Hi. destruct (s_next_id s =? i) eqn:E; [|discriminate]. inversion Hi; subst o1. assert (i = s_next_id s) by lia. subst i.
            split; [unfold inQ; rewrite F3; cbn; tauto|]. unfold unb_ok, o. cbn. split; [reflexivity|intros pb Hx; discriminate]. }
      - eapply WFS_queues; [exact C2| | | | | | | | | | |]; cbn; try congruence; auto.
        + core_cbn. cbn. rewrite F4, F5, F6, F8, F9. tauto.
        + core_cbn. cbn. rewrite F3, F4, F5, F6, F10. intros i. cbn. intros [H|[H|[[H|H]|[H|H]]]]; try tauto.
          right; right. lia.
        + rewrite F3. intros i [<-|H]; [|tauto]. right. intros o1 Ho1. unfold getop in Ho1. cbn in Ho1.
          unfold getop in C6. cbn in C6. assert (o1 = o) by congruence. subst o1. discriminate.
        + rewrite F10. auto.
      - eapply (WFP_newop s sF o); try eassumption; try reflexivity; try congruence. right. split; congruence. }
    destruct (0 <? st_server_keep_alive st); apply Hgen; reflexivity.
  Qed.

  (* per-state facts after completions, in a state where no queue discipline is at stake *)
  Lemma WFP_after_fail ids (s0 s' : state) :
    WFP cfg s0 -> s_st s0 = Connected \/ s_st s0 = PendingDisconnect \/ s_st s0 = Halted ->
    frame_c ids s0 s' -> W9 cfg s' -> WFP cfg s'.
  Proof.
    intros HP Hst F H9.
    destruct (rest_fields _ _ (fc_rest _ _ _ F)) as (R1 & R2 & R3 & R4 & R5 & R6 & R7 & R8 & R9 & R10 & R11 & R12 & R13).
    unfold WFP in *. destruct (fc_st _ _ _ F) as [E|[E1 E2]]; [|rewrite E2; exact I].
    rewrite E. destruct Hst as [Hst|[Hst|Hst]]; rewrite Hst in *; try exact I.
    - destruct HP as (A1 & A2 & A3). splits; try congruence.
      + intros i o Hc Hi. rewrite R4 in Hc. destruct (A2 i o Hc (fc_sub _ _ _ F _ _ Hi)). split; [rewrite R11; assumption|assumption].
      + apply H9. congruence.
    - congruence.
  Qed.

  Lemma process_ack_timeouts_spec (s : state) now :
    WF cfg s -> s_st s = Connected \/ s_st s = PendingDisconnect ->
    let t := process_ack_timeouts cfg s now in
    (forall site, r_out t <> Panic site) /\ WF cfg (r_s t) /\ comp_of (r_s t) = comp_of s /\ (TR s -> TR (r_s t)).
  Proof.
    intros [HW HP] Hst. unfold process_ack_timeouts.
    set (s1 := s <| s_tmo := filter (fun '(_, t) => negb (t <=? now)) (s_tmo s) |>).
    assert (HW1 : WFS s1) by exact HW.
    assert (HP1 : WFP cfg s1).
    { unfold WFP in *. change (s_st s1) with (s_st s). destruct Hst as [E|E]; rewrite E in *; exact HP. }
    assert (H91 : W9 cfg s1).
    { intros E. unfold WFP in HP1. rewrite E in HP1. tauto. }
    match goal with |- context [fail_all cfg s1 ?l ?e] => pose proof (fail_all_spec cfg [] l s1 e HW1 H91) as F end.
    cbv zeta. split; [apply F|]. split; [|split; [rewrite (rest_comp _ _ (fc_rest _ _ _ (fs_frame _ _ _ _ _ F))); reflexivity|]].
    2:{ intros T. eapply TR_frame_c; [apply F|]. apply (TR_queues s); [reflexivity|unfold inQ; cbn; tauto|exact T]. }
    split; [apply F|].
    eapply WFP_after_fail; [exact HP1| |apply F|apply F]. change (s_st s1) with (s_st s). tauto.
  Qed.

  Definition svc_post (T : Prop) (r : sres enc dec ores ires) : Prop :=
    (forall site, sr_out r <> Panic site) /\ WF cfg (sr_s r) /\ (forall k, sr_out r = Err k -> s_st (sr_s r) = Halted) /\
    cinv HC (sr_s r) /\ (T -> TR (sr_s r)).

  Lemma service_wrap (T : Prop) (r0 : sres enc dec ores ires) :
    (forall site, sr_out r0 <> Panic site) /\ WFS (sr_s r0) /\ (sr_out r0 = Ok tt -> WFP cfg (sr_s r0)) /\ cinv HC (sr_s r0) /\
    (T -> TR (sr_s r0)) ->
    svc_post T (mkSres (halt_on_error (sr_s r0) (sr_out r0)) (sr_bytes r0) (sr_done r0) (sr_out r0)).
  Proof.
    intros (N0 & W0 & P0 & I0 & T0). unfold svc_post. cbn [sr_s sr_out sr_bytes sr_done]. split; [exact N0|].
    destruct (sr_out r0) as [[]|k|site] eqn:Eo; cbn [halt_on_error].
    - split; [split; [exact W0|apply P0; reflexivity]|]. split; [intros k Hk; discriminate|split; [exact I0|exact T0]].
    - split; [split; [exact W0|exact I]|]. split; [intros; reflexivity|split; [exact I0|exact T0]].
    - exfalso. eapply N0. reflexivity.
  Qed.

  Theorem service_spec (s : state) now cap fill :
    WF cfg s -> cinv HC s -> now <= TMAX -> 4 <= cap -> svc_post (TR s) (service s now cap fill).
  Proof.
    intros HWF HI Hnow Hcap. pose proof HWF as [HW HP]. unfold Model.service. cbv zeta.
    match goal with |- svc_post _ (mkSres (halt_on_error (sr_s ?M) _) _ _ _) => apply (service_wrap (TR s) M) end.
    destruct (s_st s) eqn:Est.
    - cbn. splits; auto. intros; discriminate.
    - (* PendingConnack *)
      assert (Hto : s_connack_to s <> None) by (unfold WFP in HP; rewrite Est in HP; tauto).
      destruct (s_connack_to s) as [t|]; [|congruence].
      destruct (t <=? now).
      + cbn. splits; auto; intros; discriminate.
      + pose proof (service_queue_spec s false now cap fill HWF HI (fun _ => eq_refl) Hcap) as (L1 & L2 & L3 & _ & L5 & L6). auto.
    - (* Connected *)
      pose proof (service_keep_alive_spec s now HWF Est Hnow) as Hka.
      destruct (service_keep_alive cfg s now) as [s1|k|site]; [|cbn; splits; auto; intros; discriminate|destruct Hka].
      destruct Hka as (HWF1 & Hst1 & Hc1 & Ht1).
      assert (HI1 : cinv HC s1) by (eapply cinv_comp; [exact Hc1|exact HI]).
      pose proof (service_queue_spec s1 true now cap fill HWF1 HI1 (fun E => ltac:(congruence)) Hcap) as (L1 & L2 & L3 & L4 & L5 & L6).
      set (q := service_queue s1 true now cap fill) in *.
      destruct (sr_out q) as [[]|k|site] eqn:Eq.
      + assert (HWFq : WF cfg (sr_s q)) by (split; [exact L2|apply L3; reflexivity]).
        assert (Hstq : s_st (sr_s q) = Connected \/ s_st (sr_s q) = PendingDisconnect) by (rewrite Hst1 in L4; exact L4).
        destruct (process_ack_timeouts_spec (sr_s q) now HWFq Hstq) as (T1 & [T2 T3] & T4 & T5).
        cbn [sr_s sr_out]. splits; auto. eapply cinv_comp; [exact T4|exact L5].
      + splits; auto; rewrite Eq; intros; discriminate.
      + exfalso. eapply L1. reflexivity.
    - (* PendingDisconnect *)
      destruct (process_ack_timeouts_spec s now HWF (or_intror Est)) as (T1 & [T2 T3] & T4 & T5).
      cbn [sr_s sr_out]. splits; auto. eapply cinv_comp; [exact T4|exact HI].
    - cbn. splits; auto; intros; discriminate.
  Qed.
End Serve.


Arguments WFP_newop {enc dec ores ires} cfg s s' o _ _ _ _ _ _ _ _ _ _ _ _ _ _ _.
Arguments WFP_after_fail {enc dec ores ires} cfg ids s0 s' _ _ _ _.
Arguments svc_post {enc enc_reset enc_call dec dec_init dec_feed ores ores_reset ores_resolve ires ires_reset ires_resolve v_out v_in} cfg HC T r.
