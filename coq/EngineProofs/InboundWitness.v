(* Concrete witnesses (Engine/Instance.v: the real codec, validation and alias models) for the
   run-level C05 theorems of InboundRun.v: a history with a QoS 2 publish, a connection close, a
   reconnect that resumes the session, the duplicate of the publish, its PUBREL and a new message
   under the same packet id.  Everything by vm_compute. *)
From GM Require Import Base.Prelude Base.Outcome Codec.Packets Codec.Settings Codec.Steps Codec.ImplEncode
  Codec.Framing Alias.Outbound Alias.Inbound Validate.Rules Engine.Model Engine.Instance
  EngineProofs.IdsWitness EngineProofs.InboundSpec EngineProofs.InboundLoop EngineProofs.InboundRun.
Open Scope N_scope.

Definition i_run_log (cfg : config) : istate -> list event -> list entry :=
  InboundRun.run_log enc impl_steps encode_call enc_done decoder decoder_init decode_bytes
      ores ores_reset ores_resolve ires ires_reset ires_resolve
      validate_outbound_internal validate_inbound_internal cfg.

(* MQTT 5 wire images: PUBLISH QoS 2, packet id 5, topic "t", no payload; the same with DUP; PUBREL 5;
   CONNACK with session present *)
Definition w5_pub : bytes := [52; 6; 0; 1; 116; 0; 5; 0].
Definition w5_pub_dup : bytes := [60; 6; 0; 1; 116; 0; 5; 0].
Definition w5_pubrel : bytes := [98; 2; 0; 5].
Definition w5_connack_sp : bytes := [32; 3; 1; 0; 0].

Definition w5_cfg : config := x_cfg 0.
(* connect (session absent); the publish arrives; its PUBREC is written *)
Definition w5_h1 : list event :=
  x_connect_events x_connack_bytes ++ [EvData 1 w5_pub; EvService 1 4096 0; EvWriteComplete 1].
(* the connection closes; reconnect, the broker resumes the session and retransmits the publish *)
Definition w5_h2 : list event :=
  [EvClose 2; EvOpen 3 1000; EvService 3 4096 0; EvWriteComplete 3; EvData 3 w5_connack_sp; EvData 4 w5_pub_dup].
(* one read delivers the PUBREL and, under the same id, a NEW message *)
Definition w5_h3 : list event := [EvData 5 (w5_pubrel ++ w5_pub)].
Definition w5_hist : list event := w5_h1 ++ w5_h2 ++ w5_h3.

Definition w5_view (e : entry) : N * bool * bool :=
  match e with EPkt i => (packet_type (it_p i), it_ok i, it_sess i) | EReset => (0, false, false) end.

(* the premise of the run-level theorems holds and the log is the expected one: CONNACK (session
   rules applied), PUBLISH, CONNACK, PUBLISH, PUBREL, PUBLISH - all processed *)
Example w5_no_panic : no_panic (x_outs w5_cfg w5_hist).
Proof. unfold no_panic. vm_compute. repeat constructor. Qed.

Example w5_log :
  map w5_view (i_run_log w5_cfg (x_init w5_cfg) w5_hist) =
  [(2, true, true); (3, true, false); (2, true, true); (3, true, false); (6, true, false); (3, true, false)].
Proof. vm_compute. reflexivity. Qed.

(* A instantiated: the engine's set is the specification folded over the log; its value along the way *)
Example w5_refines :
  s_q2in (x_state w5_cfg w5_hist) = q2_spec [] (i_run_log w5_cfg (x_init w5_cfg) w5_hist).
Proof.
  exact (proj1 (q2in_refines_init enc impl_steps encode_call enc_done decoder decoder_init decode_bytes
      ores ores_reset ores_resolve ires ires_reset ires_resolve validate_outbound_internal validate_inbound_internal
      w5_cfg _ _ w5_hist w5_no_panic)).
Qed.

Example w5_set_values :
  s_q2in (x_state w5_cfg w5_h1) = [5] /\                    (* remembered *)
  s_q2in (x_state w5_cfg (w5_h1 ++ [EvClose 2])) = [5] /\    (* survives the close *)
  s_q2in (x_state w5_cfg (w5_h1 ++ w5_h2)) = [5] /\          (* and the session-present reconnect *)
  s_q2in (x_state w5_cfg w5_hist) = [5].                     (* released, then received again *)
Proof. vm_compute. repeat split; reflexivity. Qed.

(* B: over the close / session-resuming reconnect / duplicate stretch, started where id 5 is
   unreleased, the premises of qos2_surfaced_once hold and nothing with id 5 is surfaced; over the
   whole history id 5 is surfaced twice - two messages, separated by the PUBREL *)
Example w5_once_premises :
  let s1 := x_state w5_cfg w5_h1 in
  no_panic (snd (i_run w5_cfg s1 w5_h2)) /\
  forallb (fun e => negb (releases 5 e)) (i_run_log w5_cfg s1 w5_h2) = true /\
  mem 5 (s_q2in s1) = true /\
  count (surfaced 5) (all_events (snd (i_run w5_cfg s1 w5_h2))) = 0%nat /\
  map packet_type (all_events (snd (i_run w5_cfg s1 w5_h2))) = [2] /\
  count (surfaced 5) (all_events (x_outs w5_cfg w5_hist)) = 2%nat /\
  map packet_type (all_events (x_outs w5_cfg w5_hist)) = [2; 3; 2; 3].
Proof. cbv zeta. split; [unfold no_panic; vm_compute; repeat constructor|]. vm_compute. repeat split; reflexivity. Qed.

(* C: the last read appends PUBCOMP(5) then PUBREC(5), in packet order, behind the PUBREC of the
   duplicate that is still queued *)
Example w5_acks :
  let s2 := x_state w5_cfg (w5_h1 ++ w5_h2) in
  let s3 := x_state w5_cfg w5_hist in
  s_hq s3 = s_hq s2 ++ [s_next_id s2; s_next_id s2 + 1] /\
  map (fun id => option_map op_packet (lookup id (s_ops s3))) (s_hq s3) =
    [Some (Pubrec (default_ack 5)); Some (Pubcomp (default_ack 5)); Some (Pubrec (default_ack 5))].
Proof. vm_compute. repeat split; reflexivity. Qed.
