(* C10 strict order, conclusion: the placement invariant PL (PlaceRun.v) holds in the initial state and is
   preserved by every step (step_PL: PlaceRunEvents.v, PlaceRunData.v, PlaceRunService.v), hence in every
   reachable state (reachable_PL).  Consequences, for every history of ok_event events from the initial state:
   - reachable_CP: the premise of OrderRunStrict2.close_DQ holds unconditionally;
   - places_once: an operation id occurs at most once in user queue ++ resubmit queue ++ written list ++ pending
     tables; an id of the high-priority queue / the encoder seat is either a pending PUBREL carrier or in none
     of these places and (if its operation exists) only once in high-priority queue ++ seat;
   - queues_duplicate_free / queues_strictly_sorted: in every reachable Connected state s_rq and s_uq are
     strictly increasing and disjoint;
   - submission_order_strict: OrderRunMain.order_facts with 'strictly smaller', no id seated twice, and no
     seated id left in a queue;
   - connected_segment_order_strict: over a Connected segment, the user operations seated followed by the user
     queue at the end are strictly increasing. *)
From GM Require Import Base.Prelude Base.Outcome Codec.Packets Codec.Settings Engine.Model
  EngineProofs.AssocLemmas EngineProofs.WFLemmas EngineProofs.WFDefs EngineProofs.WFStep
  EngineProofs.HandshakeRunTrace EngineProofs.OrderRun EngineProofs.OrderRunMain EngineProofs.OrderRunSeq
  EngineProofs.OrderRunStrict EngineProofs.OrderRunStrict2
  EngineProofs.PlaceRun EngineProofs.PlaceRunEvents EngineProofs.PlaceRunData EngineProofs.PlaceRunService.
From Coq Require Import Sorting.Sorted.
From RecordUpdate Require Import RecordSet.
Import RecordSetNotations.
Open Scope N_scope.

(* the four component types are implicit in the engine functions, locally to this file *)
#[local] Arguments init {enc dec} _ {ores ires} _ _.
#[local] Arguments release {enc dec ores ires} _ _ _ _.
#[local] Arguments disconnect_completion {enc dec ores ires} _ _.
#[local] Arguments fail_op {enc dec ores ires} _ _ _ _.
#[local] Arguments ping_extension {enc dec ores ires} _ _.
#[local] Arguments succeed_op {enc dec ores ires} _ _ _ _.
#[local] Arguments fail_all {enc dec ores ires} _ _ _ _.
#[local] Arguments succeed_all {enc dec ores ires} _ _ _.
#[local] Arguments andthen {enc dec ores ires} _ _.
#[local] Arguments try_ {enc dec ores ires} _ _.
#[local] Arguments pure {enc dec ores ires} _.
#[local] Arguments create_operation {enc dec ores ires} _ _.
#[local] Arguments passes_now {enc dec ores ires} _ _ _.
#[local] Arguments user_event {enc dec ores ires} _ _ _ _.
#[local] Arguments create_connect {enc dec ores ires} _ _.
#[local] Arguments net_opened {enc dec} _ {ores ires} _ _ _.
#[local] Arguments op_exists {enc dec ores ires} _ _.
#[local] Arguments op_passes {enc dec ores ires} _ _ _.
#[local] Arguments partition_policy {enc dec ores ires} _ _ _.
#[local] Arguments closed_current {enc dec ores ires} _ _.
#[local] Arguments slow_start_init {enc dec ores ires} _ _.
#[local] Arguments update_retries {enc dec ores ires} _ _.
#[local] Arguments fail_exceeding {enc dec ores ires} _ _.
#[local] Arguments has_pubrel {enc dec ores ires} _ _.
#[local] Arguments net_closed_raw {enc dec ores ires} _ _.
#[local] Arguments net_closed {enc dec ores ires} _ _.
#[local] Arguments net_write_completion {enc dec ores ires} _ _.
#[local] Arguments acquire_free_pid {enc dec ores ires} _ _.
#[local] Arguments acquire_pid_for {enc dec ores ires} _ _.
#[local] Arguments unbind {enc dec ores ires} _ _.
#[local] Arguments passes_receive_max {enc dec ores ires} _ _.
#[local] Arguments throttled {enc dec ores ires} _ _.
#[local] Arguments has_pending_ack {enc dec ores ires} _.
#[local] Arguments dequeue {enc dec ores ires} _ _ _.
#[local] Arguments fully_written {enc dec ores ires} _ _.
#[local] Arguments service_keep_alive {enc dec ores ires} _ _ _.
#[local] Arguments process_ack_timeouts {enc dec ores ires} _ _ _.
#[local] Arguments halt_on_error {enc dec ores ires} _ _.
#[local] Arguments next_service_time {enc dec ores ires} _ _ _.
#[local] Arguments build_settings {enc dec ores ires} _ _ _.
#[local] Arguments apply_session {enc dec ores ires} _ _ _.
#[local] Arguments hres_of {enc dec ores ires} _ _.
#[local] Arguments pre_connack {enc dec ores ires} _.
#[local] Arguments sum_ss {enc dec ores ires} _.
#[local] Arguments handle_pingresp {enc dec ores ires} _.
#[local] Arguments handle_suback {enc dec ores ires} _ _ _.
#[local] Arguments handle_unsuback {enc dec ores ires} _ _ _.
#[local] Arguments publish_qos_of {enc dec ores ires} _ _.
#[local] Arguments handle_puback {enc dec ores ires} _ _ _.
#[local] Arguments handle_pubrec {enc dec ores ires} _ _ _.
#[local] Arguments handle_pubrel {enc dec ores ires} _ _.
#[local] Arguments handle_pubcomp {enc dec ores ires} _ _ _.
#[local] Arguments handle_publish {enc dec ores ires} _ _.
#[local] Arguments handle_disconnect {enc dec ores ires} _ _ _.
#[local] Arguments is_connect_op {enc dec ores ires} _ _.
#[local] Arguments connect_in_queue {enc dec ores ires} _.
#[local] Arguments reset {enc dec ores ires} _ _.
#[local] Arguments out_of_res {enc dec ores ires} _ _.
#[local] Arguments nst_queue {enc dec ores ires} _ _ _ _.
#[local] Arguments earliest_tmo {enc dec ores ires} _.
#[local] Arguments SeatStop {enc dec ores ires} _.
#[local] Arguments SeatContinue {enc dec ores ires} _ _.
#[local] Arguments SeatEncode {enc dec ores ires} _.

(* ---- strictly sorted lists ---- *)
Lemma sorted_lt_app a : forall b,
  sorted_lt (a ++ b) <-> sorted_lt a /\ sorted_lt b /\ (forall x y, In x a -> In y b -> x < y).
Proof.
  unfold sorted_lt. induction a as [|x a IH]; intros b; cbn [app].
  - split; [intros H; split; [constructor|split; [exact H|intros x y []]]|intros (_ & H & _); exact H].
  - split.
    + intros H. inversion H as [|? ? Hs Hf]; subst. apply IH in Hs. destruct Hs as (S1 & S2 & S3).
      apply Forall_app in Hf. destruct Hf as [F1 F2]. split; [constructor; assumption|]. split; [exact S2|].
      intros u v [<-|Hu] Hv; [rewrite Forall_forall in F2; apply F2; exact Hv|apply S3; assumption].
    + intros (S1 & S2 & S3). inversion S1 as [|? ? Hs Hf]; subst. constructor.
      * apply IH. split; [exact Hs|]. split; [exact S2|]. intros u v Hu Hv. apply S3; [right; exact Hu|exact Hv].
      * apply Forall_app. split; [exact Hf|]. apply Forall_forall. intros v Hv. apply S3; [left; reflexivity|exact Hv].
Qed.

Lemma sorted_lt_snoc l k : sorted_lt l -> (forall x, In x l -> x < k) -> sorted_lt (l ++ [k]).
Proof.
  intros H1 H2. apply sorted_lt_app. split; [exact H1|]. split; [repeat constructor|].
  intros x y Hx [<-|[]]. apply H2. exact Hx.
Qed.

Lemma sorted_lt_nodup l : sorted_lt l -> NoDup l.
Proof. apply inc_NoDup. Qed.

Section Main.
  Variable enc : Type.
  Variable enc_reset : version -> packet -> resolution -> outcome enc.
  Variable enc_call : enc -> N -> N -> outcome (bytes * enc).
  Variable enc_done : enc -> bool.
  Variable dec : Type.
  Variable dec_init : dec.
  Variable dec_feed : version -> N -> dec -> bytes -> dec * list packet * outcome unit.
  Variable ores : Type.
  Variable ores_reset : ores -> N -> ores.
  Variable ores_resolve : ores -> option N -> bytes -> outcome (ores * resolution).
  Variable ires : Type.
  Variable ires_reset : ires -> ires.
  Variable ires_resolve : ires -> option N -> bytes -> outcome (ires * bytes).
  Variable v_out : option settings -> connect_opts -> resolution -> packet -> outcome unit.
  Variable v_in : option settings -> packet -> outcome unit.
  Variable cfg : config.
  Variable HC : comps_ok enc enc_reset enc_call dec dec_init dec_feed ores ores_reset ores_resolve ires ires_reset ires_resolve v_out v_in.
  Hypothesis Hcfg : ok_cfg cfg.

  Notation state := (state enc dec ores ires).
  Notation step := (step enc enc_reset enc_call enc_done dec dec_init dec_feed ores ores_reset ores_resolve
                         ires ires_reset ires_resolve v_out v_in cfg).
  Notation run := (run enc enc_reset enc_call enc_done dec dec_init dec_feed ores ores_reset ores_resolve
                       ires ires_reset ires_resolve v_out v_in cfg).
  Notation init := (init (enc:=enc) dec_init).
  Notation service := (service enc enc_reset enc_call enc_done dec ores ores_reset ores_resolve ires v_out cfg).
  Notation service_seats := (service_seats enc enc_reset enc_call enc_done dec ores ores_reset ores_resolve ires v_out cfg).
  Notation run_seats := (run_seats enc enc_reset enc_call enc_done dec dec_init dec_feed ores ores_reset ores_resolve
                                   ires ires_reset ires_resolve v_out v_in cfg).
  Notation seats_of_step := (seats_of_step enc enc_reset enc_call enc_done dec ores ores_reset ores_resolve ires v_out cfg).
  Notation stays_connected := (stays_connected enc enc_reset enc_call enc_done dec dec_init dec_feed ores ores_reset ores_resolve
                                   ires ires_reset ires_resolve v_out v_in cfg).
  Notation WFX := (WFX enc enc_reset enc_call dec dec_init dec_feed ores ores_reset ores_resolve ires ires_reset ires_resolve v_out v_in cfg HC).
  Notation order_facts := (order_facts enc dec ores ires).
  Notation qlt := (WFX_qlt enc enc_reset enc_call dec dec_init dec_feed ores ores_reset ores_resolve ires ires_reset ires_resolve v_out v_in cfg HC).

  Ltac splits := repeat match goal with |- _ /\ _ => split end.

  (* ---- the placement invariant holds initially and is preserved by every step ---- *)
  Theorem PL_init (o : ores) (i : ires) : PL (init o i).
  Proof. apply PL_closed; cbn; try reflexivity. constructor. Qed.

  Theorem step_PL (s : state) e : WFX s -> ok_event e -> PL s -> PL (fst (step s e)).
  Proof.
    intros [HWF HI] Hev HP. pose proof HWF as [HW HP0].
    destruct e as [now p t|now dl|now|now data|now|now cap fill|now|now]; cbn [Model.step].
    - unfold out_of_res. cbn [fst]. apply user_event_PL; assumption.
    - unfold out_of_res. cbn [fst]. apply halt_PL. apply net_opened_PL; assumption.
    - unfold out_of_res. cbn [fst]. apply halt_PL. apply net_closed_PL; assumption.
    - cbn [fst]. apply halt_PL. apply (net_data_PL _ _ _ _ _ _ _ _ _ _ _ _ _ _ _ HC); assumption.
    - unfold out_of_res. cbn [fst]. apply halt_PL. apply net_write_completion_PL; assumption.
    - destruct Hev as [Hnow Hcap]. cbn [fst]. apply (service_PL _ _ _ _ _ _ _ _ _ _ _ _ _ _ _ _ HC Hcfg); assumption.
    - destruct (next_service_time cfg s now); exact HP.
    - unfold out_of_res. cbn [fst]. apply reset_PL. exact HW.
  Qed.

  Theorem run_PL : forall h (s : state), WFX s -> PL s -> Forall ok_event h -> PL (fst (run s h)).
  Proof.
    induction h as [|e r IH]; intros s HWF HP Hall; cbn [Model.run]; [exact HP|].
    inversion Hall as [|? ? He Hr]; subst.
    pose proof (WF_step _ _ _ enc_done _ _ _ _ _ _ _ _ _ _ _ _ HC Hcfg s e HWF He) as HW1.
    pose proof (step_PL s e HWF He HP) as HP1.
    destruct (step s e) as [s1 o]. cbn [fst] in *. specialize (IH s1 HW1 HP1 Hr).
    destruct (run s1 r) as [s2 os]. exact IH.
  Qed.

  Theorem reachable_PL (o : ores) (i : ires) h :
    ores_inv HC o -> ires_inv HC i -> Forall ok_event h -> PL (fst (run (init o i) h)).
  Proof.
    intros Ho Hi Hall. apply run_PL; [|apply PL_init|exact Hall].
    exact (WF_init _ _ _ _ _ _ _ _ _ _ _ _ _ _ cfg HC o i Ho Hi).
  Qed.

  (* ---- consequences in every reachable state ---- *)
  (* an operation id occurs at most once in the user queue, the resubmit queue, the written list and the two
     pending tables together; the seated operation is in none of them unless it is a pending PUBREL carrier:
     the premise CP of OrderRunStrict2.close_DQ, now unconditional *)
  Theorem reachable_CP (o : ores) (i : ires) h :
    ores_inv HC o -> ires_inv HC i -> Forall ok_event h -> CP enc dec ores ires (fst (run (init o i) h)).
  Proof. intros Ho Hi Hall. apply PL_CP. apply reachable_PL; assumption. Qed.

  Theorem places_once (o : ores) (i : ires) h :
    ores_inv HC o -> ires_inv HC i -> Forall ok_event h ->
    let s := fst (run (init o i) h) in
    NoDup (s_uq s ++ s_rq s ++ s_pwco s ++ map snd (s_pnon s) ++ map snd (s_ppub s)) /\
    (forall x, In x (s_hq s) \/ s_cur s = Some x ->
       (In x (map snd (s_ppub s)) /\
        forall op, lookup x (s_ops s) = Some op -> exists pb, op_packet op = Publish pb /\ pub_qos pb = 2 /\ op_pubrel op <> None) \/
       (~ In x (s_uq s ++ s_rq s ++ s_pwco s ++ map snd (s_pnon s) ++ map snd (s_ppub s)) /\
        (lookup x (s_ops s) <> None -> NoDup (filter (N.eqb x) (s_hq s ++ olist (s_cur s)))))).
  Proof.
    intros Ho Hi Hall s. pose proof (reachable_PL o i h Ho Hi Hall) as HP. fold s in HP.
    split; [apply (PL_CP s HP)|]. destruct HP as [A B]. intros x Hx.
    assert (Hax : In x (ax s)).
    { unfold ax. apply in_or_app. destruct Hx as [Hx|Hx]; [left; exact Hx|right; rewrite Hx; left; reflexivity]. }
    destruct (B x Hax) as [[P C]|(Z1 & Z2 & Z3)]; [left; split; [exact P|exact C]|right]. split.
    - rewrite !app_assoc. intros Hin. apply in_app_or in Hin. destruct Hin as [Hin|Hin].
      + rewrite <- !app_assoc in Hin. fold (mn1 s) in Hin. apply cn_in in Hin. lia.
      + apply cn_in in Hin. lia.
    - intros Hne. specialize (Z3 Hne). fold (ax s). revert Z3. generalize (ax s). intros l Hl. unfold cn in Hl.
      induction l as [|a l IH]; cbn [filter]; [constructor|]. cbn [count_occ] in Hl.
      destruct (N.eq_dec a x) as [->|Hne']; [rewrite N.eqb_refl|].
      + assert (Hz : count_occ N.eq_dec l x = 0%nat) by lia. constructor; [|apply IH; lia].
        intros Hin. apply filter_In in Hin. destruct Hin as [Hin _]. apply (count_occ_not_In N.eq_dec) in Hz. contradiction.
      + destruct (x =? a) eqn:E; [lia|]. apply IH. exact Hl.
  Qed.

  (* the intake queues never hold an operation id twice, in any reachable state *)
  Theorem queues_duplicate_free (o : ores) (i : ires) h :
    ores_inv HC o -> ires_inv HC i -> Forall ok_event h ->
    NoDup (s_uq (fst (run (init o i) h)) ++ s_rq (fst (run (init o i) h))).
  Proof.
    intros Ho Hi Hall. destruct (reachable_PL o i h Ho Hi Hall) as [A _]. apply cn_nodup. intros x. specialize (A x).
    unfold mn1 in A. rewrite !cn_app in *. lia.
  Qed.

  (* (e, strict) in every reachable Connected state the resubmit queue and the user queue are STRICTLY increasing
     in the operation id, and disjoint *)
  Theorem queues_strictly_sorted (o : ores) (i : ires) h :
    ores_inv HC o -> ires_inv HC i -> Forall ok_event h ->
    s_st (fst (run (init o i) h)) = Connected ->
    sorted_lt (s_rq (fst (run (init o i) h))) /\ sorted_lt (s_uq (fst (run (init o i) h))) /\
    NoDup (s_uq (fst (run (init o i) h)) ++ s_rq (fst (run (init o i) h))).
  Proof.
    intros Ho Hi Hall Hc. pose proof (queues_duplicate_free o i h Ho Hi Hall) as Hd.
    destruct (queues_sorted_when_connected enc enc_reset enc_call enc_done dec dec_init dec_feed ores ores_reset ores_resolve
                ires ires_reset ires_resolve v_out v_in cfg HC Hcfg o i h Ho Hi Hall Hc) as [Sr Su].
    pose proof Hd as Hd3. apply nodup_app_iff in Hd3. destruct Hd3 as (Nu & Nr & _).
    split; [apply sorted_le_nodup_lt; assumption|]. split; [apply sorted_le_nodup_lt; assumption|exact Hd].
  Qed.

  (* ---- (f, strict): one service call ---- *)
  Definition order_facts_strict (s : state) (t : list seat_ev) (s' : state) : Prop :=
    order_facts s t s' /\
    sorted_lt (ids_of QR t) /\ sorted_lt (ids_of QU t) /\
    (forall x y, In x (ids_of QR t) -> In y (s_rq s') -> x < y) /\
    (forall x y, In x (ids_of QU t) -> In y (s_uq s') -> x < y) /\
    NoDup (ids_of QU t ++ ids_of QR t) /\
    (forall x, In x (ids_of QR t) \/ In x (ids_of QU t) -> ~ In x (s_rq s') /\ ~ In x (s_uq s')).

  Theorem submission_order_strict (o : ores) (i : ires) h now cap fill :
    ores_inv HC o -> ires_inv HC i -> Forall ok_event h ->
    s_st (fst (run (init o i) h)) = Connected ->
    order_facts_strict (fst (run (init o i) h)) (service_seats (fst (run (init o i) h)) now cap fill)
                       (sr_s (service (fst (run (init o i) h)) now cap fill)).
  Proof.
    intros Ho Hi Hall Hc.
    pose proof (submission_order enc enc_reset enc_call enc_done dec dec_init dec_feed ores ores_reset ores_resolve
                  ires ires_reset ires_resolve v_out v_in cfg HC Hcfg o i h now cap fill Ho Hi Hall Hc) as HF.
    destruct (queues_strictly_sorted o i h Ho Hi Hall Hc) as (Sr & Su & Nd).
    set (s := fst (run (init o i) h)) in *. set (t := service_seats s now cap fill) in *. set (s' := sr_s (service s now cap fill)) in *.
    split; [exact HF|]. destruct HF as (R & U & _).
    rewrite R in Sr. rewrite U in Su. apply sorted_lt_app in Sr. apply sorted_lt_app in Su.
    destruct Sr as (R1 & R2 & R3). destruct Su as (U1 & U2 & U3).
    rewrite R, U in Nd. apply nodup_app_iff in Nd. destruct Nd as (N1 & N2 & N3).
    splits; auto.
    - apply nodup_app_iff. split; [apply sorted_lt_nodup; exact U1|]. split; [apply sorted_lt_nodup; exact R1|].
      intros x Hx Hx'. apply (N3 x); apply in_or_app; left; assumption.
    - intros x [Hx|Hx]; split; intros Hy.
      + specialize (R3 x x Hx Hy). lia.
      + apply (N3 x); apply in_or_app; [right|left]; assumption.
      + apply (N3 x); apply in_or_app; [left|right]; assumption.
      + specialize (U3 x x Hx Hy). lia.
  Qed.

  (* ---- a Connected segment, strictly ---- *)
  Theorem segment_order_strict : forall h (s : state) acc,
    WFX s -> s_st s = Connected -> Forall ok_event h -> stays_connected s h ->
    sorted_lt (acc ++ s_uq s) -> (forall x, In x acc -> x < s_next_id s) ->
    sorted_lt (acc ++ ids_of QU (run_seats s h) ++ s_uq (fst (run s h))).
  Proof.
    induction h as [|e r IH]; intros s acc HX Hc Hall Hstay Hs Hacc.
    { cbn. exact Hs. }
    inversion Hall as [|? ? He Hr]; subst. destruct Hstay as [Hc1 Hstay].
    pose proof (WF_step _ _ _ enc_done _ _ _ _ _ _ _ _ _ _ _ _ HC Hcfg s e HX He) as HX1.
    destruct (step_connected enc enc_reset enc_call enc_done dec dec_init dec_feed ores ores_reset ores_resolve
                ires ires_reset ires_resolve v_out v_in cfg HC s e HX He Hc Hc1) as [R U].
    pose proof (step_next_id enc enc_reset enc_call enc_done dec dec_init dec_feed ores ores_reset ores_resolve
                  ires ires_reset ires_resolve v_out v_in cfg HC s e HX) as Hn.
    set (s1 := fst (step s e)) in *. set (t := seats_of_step s e) in *.
    assert (Hs1 : sorted_lt ((acc ++ ids_of QU t) ++ s_uq s1)).
    { destruct U as [U|[U1 U2]].
      - rewrite <- app_assoc, <- U. exact Hs.
      - rewrite U1, U2. cbn. rewrite app_nil_r, app_assoc. apply sorted_lt_snoc; [exact Hs|].
        intros x Hx. apply in_app_or in Hx. destruct Hx as [Hx|Hx]; [specialize (Hacc x Hx); lia|].
        apply (qlt s HX). left. exact Hx. }
    assert (Hacc1 : forall x, In x (acc ++ ids_of QU t) -> x < s_next_id s1).
    { intros x Hx. apply in_app_or in Hx. destruct Hx as [Hx|Hx]; [specialize (Hacc x Hx); lia|].
      destruct U as [U|[U1 U2]]; [|rewrite U1 in Hx; destruct Hx].
      enough (x < s_next_id s) by lia. apply (qlt s HX). left. rewrite U. apply in_or_app. left. exact Hx. }
    pose proof (IH s1 (acc ++ ids_of QU t) HX1 Hc1 Hr Hstay Hs1 Hacc1) as I1.
    rewrite (run_cons enc enc_reset enc_call enc_done dec dec_init dec_feed ores ores_reset ores_resolve
               ires ires_reset ires_resolve v_out v_in cfg). cbn [OrderRunSeq.run_seats]. fold s1. fold t. rewrite !ids_of_app.
    rewrite <- !app_assoc in I1. rewrite <- !app_assoc. exact I1.
  Qed.

  Theorem connected_segment_order_strict (o : ores) (i : ires) h1 h2 :
    ores_inv HC o -> ires_inv HC i -> Forall ok_event h1 -> Forall ok_event h2 ->
    s_st (fst (run (init o i) h1)) = Connected -> stays_connected (fst (run (init o i) h1)) h2 ->
    sorted_lt (ids_of QU (run_seats (fst (run (init o i) h1)) h2) ++ s_uq (fst (run (fst (run (init o i) h1)) h2))) /\
    sorted_lt (s_rq (fst (run (init o i) h1))).
  Proof.
    intros Ho Hi H1 H2 Hc Hstay.
    destruct (reachable_WFX_OS enc enc_reset enc_call enc_done dec dec_init dec_feed ores ores_reset ores_resolve
                ires ires_reset ires_resolve v_out v_in cfg HC Hcfg o i h1 Ho Hi H1) as [HX _].
    destruct (queues_strictly_sorted o i h1 Ho Hi H1 Hc) as (Sr & Su & _).
    split; [|exact Sr].
    exact (segment_order_strict h2 _ [] HX Hc H2 Hstay Su (fun x (Hx : In x []) => match Hx with end)).
  Qed.
End Main.
