(* List-level lemmas used by the well-formedness proof of the engine (WF*.v): association
   lists seen as sets of pairs, iterated updates, slow-start sums. *)
From GM Require Import Base.Prelude Base.Outcome Codec.Packets Engine.Model EngineProofs.AssocLemmas.
From Coq Require Import Sorting.Sorted Sorting.Permutation.
Open Scope N_scope.

Section AssocMore.
  Context {A : Type}.
  Implicit Types (l : list (N * A)) (k : N) (v : A).

  Lemma lookup_In k l v : lookup k l = Some v -> In (k, v) l.
  Proof.
    induction l as [|[k' v'] r IH]; cbn [lookup In]; [discriminate|].
    destruct (k' =? k) eqn:E; intros H.
    - left. inversion H; subst. f_equal. lia.
    - right. auto.
  Qed.

  Lemma In_keys k v l : In (k, v) l -> In k (keys l).
  Proof. intros H. unfold keys. change k with (fst (k, v)). apply in_map. exact H. Qed.

  Lemma In_lookup k v l : inc (keys l) -> In (k, v) l -> lookup k l = Some v.
  Proof.
    induction l as [|[k' v'] r IH]; cbn [lookup In keys map fst]; [tauto|].
    intros Hinc [H|H].
    - inversion H; subst. rewrite N.eqb_refl. reflexivity.
    - inversion Hinc as [|? ? Hr Hall]; subst. destruct (k' =? k) eqn:E.
      + exfalso. rewrite Forall_forall in Hall. apply In_keys in H. specialize (Hall _ H). lia.
      + apply IH; assumption.
  Qed.

  Lemma In_remove k l k' v : In (k', v) (remove k l) <-> In (k', v) l /\ k' <> k.
  Proof.
    induction l as [|[k0 v0] r IH]; cbn [remove In]; [tauto|].
    destruct (k0 =? k) eqn:E; cbn [In]; rewrite IH.
    - split; [tauto|]. intros [[H|H] Hne]; [inversion H; subst; lia|tauto].
    - split; [intros [H|H]; [inversion H; subst; split; [tauto|lia]|tauto]|tauto].
  Qed.

  Lemma In_insert_same k v l : In (k, v) (insert k v l).
  Proof.
    induction l as [|[k0 v0] r IH]; cbn [insert In]; [tauto|].
    destruct (k <? k0); cbn [In]; [tauto|]. destruct (k0 =? k); cbn [In]; tauto.
  Qed.

  Lemma In_insert_other k v l k' v' : In (k', v') l -> k' <> k -> In (k', v') (insert k v l).
  Proof.
    induction l as [|[k0 v0] r IH]; cbn [insert In]; [tauto|].
    intros H Hne. destruct (k <? k0); cbn [In]; [tauto|]. destruct (k0 =? k) eqn:E; cbn [In].
    - destruct H as [H|H]; [inversion H; subst; lia|tauto].
    - destruct H as [H|H]; [tauto|right; auto].
  Qed.

  Lemma lookup_update_inv k f l i o' :
    lookup i (update k f l) = Some o' ->
    exists o, lookup i l = Some o /\ ((i <> k /\ o' = o) \/ (i = k /\ o' = f o)).
  Proof.
    destruct (N.eq_dec i k) as [->|Hne].
    - destruct (lookup k l) as [o|] eqn:E.
      + rewrite (lookup_update_eq _ _ _ _ E). intros H; inversion H; subst. eauto.
      + rewrite (lookup_update_none _ _ _ E). discriminate.
    - rewrite lookup_update_neq by exact Hne. intros H. eauto.
  Qed.

  Lemma lookup_update_fwd k f l i o :
    lookup i l = Some o -> lookup i (update k f l) = Some (if i =? k then f o else o).
  Proof.
    intros H. destruct (i =? k) eqn:E.
    - assert (i = k) by lia. subst. apply lookup_update_eq. exact H.
    - rewrite lookup_update_neq by lia. exact H.
  Qed.

  Lemma lookup_remove_inv k l i o : lookup i (remove k l) = Some o -> lookup i l = Some o /\ i <> k.
  Proof.
    destruct (N.eq_dec i k) as [->|Hne]; [rewrite lookup_remove_eq; discriminate|].
    rewrite lookup_remove_neq by exact Hne. tauto.
  Qed.

  Lemma lookup_app i l m : lookup i (l ++ m) = match lookup i l with Some v => Some v | None => lookup i m end.
  Proof.
    induction l as [|[k0 v0] r IH]; cbn [app lookup]; [reflexivity|]. destruct (k0 =? i); [reflexivity|exact IH].
  Qed.

  Lemma keys_app l m : keys (l ++ m) = keys l ++ keys m.
  Proof. unfold keys. apply map_app. Qed.

  Lemma inc_keys_update k f l : inc (keys l) -> inc (keys (update k f l)).
  Proof. rewrite keys_update. tauto. Qed.

  (* iterated update *)
  Definition upd_all (f : A -> A) (ids : list N) l : list (N * A) :=
    fold_left (fun ops id => update id f ops) ids l.

  Lemma keys_upd_all f ids : forall l, keys (upd_all f ids l) = keys l.
  Proof.
    unfold upd_all. induction ids as [|a r IH]; intros l; cbn [fold_left]; [reflexivity|].
    rewrite IH. apply keys_update.
  Qed.

  Lemma lookup_upd_all f ids : forall l i,
    exists n, lookup i (upd_all f ids l) = option_map (Nat.iter n f) (lookup i l) /\ (In i ids -> (0 < n)%nat)
              /\ (~ In i ids -> n = 0%nat).
  Proof.
    unfold upd_all. induction ids as [|a r IH]; intros l i; cbn [fold_left].
    - exists 0%nat. cbn. destruct (lookup i l); cbn; intuition.
    - destruct (IH (update a f l) i) as (n & Hn & Hpos & Hzero).
      destruct (N.eq_dec i a) as [->|Hne].
      + exists (S n). split; [|split; [lia|intros H; exfalso; apply H; left; reflexivity]].
        rewrite Hn. destruct (lookup a l) as [o|] eqn:E.
        * rewrite (lookup_update_eq _ _ _ _ E). cbn [option_map]. f_equal.
          clear. induction n as [|n IHn]; [reflexivity|]. change (f (Nat.iter n f (f o)) = f (Nat.iter (S n) f o)).
          rewrite IHn. reflexivity.
        * rewrite (lookup_update_none _ _ _ E). reflexivity.
      + exists n. rewrite lookup_update_neq in Hn by exact Hne. split; [exact Hn|]. split.
        * intros [H|H]; [congruence|auto].
        * intros H. apply Hzero. intros H2. apply H. right. exact H2.
  Qed.
End AssocMore.

Lemma inc_keys_app_last {A} (l : list (N * A)) k v :
  inc (keys l) -> (forall x, In x (keys l) -> x < k) -> inc (keys (l ++ [(k, v)])).
Proof.
  intros H1 H2. rewrite keys_app. cbn. apply inc_app_last; [exact H1|]. rewrite Forall_forall. exact H2.
Qed.

Lemma inc_keys_nil {A} : inc (keys (@nil (N * A))).
Proof. constructor. Qed.

(* values of an association list *)
Lemma In_snd {A} (k : N) (v : A) l : In (k, v) l -> In v (map snd l).
Proof. intros H. change v with (snd (k, v)). apply in_map. exact H. Qed.

Lemma In_snd_inv {A} (v : A) (l : list (N * A)) : In v (map snd l) -> exists k, In (k, v) l.
Proof. intros H. apply in_map_iff in H. destruct H as ([k v'] & Heq & Hin). cbn in Heq. subst. eauto. Qed.

(* existsb / forallb helpers *)
Lemma forallb_In {A} (f : A -> bool) l x : forallb f l = true -> In x l -> f x = true.
Proof. intros H Hin. rewrite forallb_forall in H. auto. Qed.

(* outcome helpers *)
Lemma is_panic_false_iff {A} (o : outcome A) : is_panic o = false <-> forall site, o <> Panic site.
Proof. destruct o; cbn; split; intros; try discriminate; try reflexivity. exfalso. eapply H. reflexivity. Qed.
