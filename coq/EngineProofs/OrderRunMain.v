(* C10 at run level, part 2: over every run of the engine from its initial state,
   (e) while Connected both intake queues are sorted by operation id (queues_sorted_when_connected);
   (f) one service call in a Connected state seats operations in submission order, retransmissions
       first (submission_order).  Uses the run-level well-formedness invariant (WFStep.WFX): every id in a
       queue is below the id counter, so a submission appended to the user queue keeps it sorted. *)
From GM Require Import Base.Prelude Base.Outcome Codec.Packets Codec.Settings Engine.Model
  EngineProofs.AssocLemmas EngineProofs.WFLemmas EngineProofs.WFDefs EngineProofs.WFClose2 EngineProofs.WFStep
  EngineProofs.HandshakeRunTrace EngineProofs.HandshakeRunSt EngineProofs.Order EngineProofs.OrderRun.
From Coq Require Import Sorting.Sorted.
From RecordUpdate Require Import RecordSet.
Import RecordSetNotations.
Open Scope N_scope.

(* the four component types are implicit in the engine functions, locally to this file *)
(* the four component types are implicit in the engine functions, locally to this file *)
#[local] Arguments init {enc dec} _ {ores ires} _ _.
#[local] Arguments release {enc dec ores ires} _ _ _ _.
#[local] Arguments disconnect_completion {enc dec ores ires} _ _.
#[local] Arguments fail_op {enc dec ores ires} _ _ _ _.
#[local] Arguments ping_extension {enc dec ores ires} _ _.
#[local] Arguments succeed_op {enc dec ores ires} _ _ _ _.
#[local] Arguments fail_all {enc dec ores ires} _ _ _ _.
#[local] Arguments succeed_all {enc dec ores ires} _ _ _.
#[local] Arguments andthen {enc dec ores ires} _ _.
#[local] Arguments try_ {enc dec ores ires} _ _.
#[local] Arguments pure {enc dec ores ires} _.
#[local] Arguments create_operation {enc dec ores ires} _ _.
#[local] Arguments passes_now {enc dec ores ires} _ _ _.
#[local] Arguments user_event {enc dec ores ires} _ _ _ _.
#[local] Arguments create_connect {enc dec ores ires} _ _.
#[local] Arguments net_opened {enc dec} _ {ores ires} _ _ _.
#[local] Arguments op_exists {enc dec ores ires} _ _.
#[local] Arguments op_passes {enc dec ores ires} _ _ _.
#[local] Arguments partition_policy {enc dec ores ires} _ _ _.
#[local] Arguments closed_current {enc dec ores ires} _ _.
#[local] Arguments slow_start_init {enc dec ores ires} _ _.
#[local] Arguments update_retries {enc dec ores ires} _ _.
#[local] Arguments fail_exceeding {enc dec ores ires} _ _.
#[local] Arguments has_pubrel {enc dec ores ires} _ _.
#[local] Arguments net_closed_raw {enc dec ores ires} _ _.
#[local] Arguments net_closed {enc dec ores ires} _ _.
#[local] Arguments net_write_completion {enc dec ores ires} _ _.
#[local] Arguments acquire_free_pid {enc dec ores ires} _ _.
#[local] Arguments acquire_pid_for {enc dec ores ires} _ _.
#[local] Arguments unbind {enc dec ores ires} _ _.
#[local] Arguments passes_receive_max {enc dec ores ires} _ _.
#[local] Arguments throttled {enc dec ores ires} _ _.
#[local] Arguments has_pending_ack {enc dec ores ires} _.
#[local] Arguments dequeue {enc dec ores ires} _ _ _.
#[local] Arguments fully_written {enc dec ores ires} _ _.
#[local] Arguments service_keep_alive {enc dec ores ires} _ _ _.
#[local] Arguments process_ack_timeouts {enc dec ores ires} _ _ _.
#[local] Arguments halt_on_error {enc dec ores ires} _ _.
#[local] Arguments next_service_time {enc dec ores ires} _ _ _.
#[local] Arguments build_settings {enc dec ores ires} _ _ _.
#[local] Arguments apply_session {enc dec ores ires} _ _ _.
#[local] Arguments hres_of {enc dec ores ires} _ _.
#[local] Arguments pre_connack {enc dec ores ires} _.
#[local] Arguments sum_ss {enc dec ores ires} _.
#[local] Arguments handle_pingresp {enc dec ores ires} _.
#[local] Arguments handle_suback {enc dec ores ires} _ _ _.
#[local] Arguments handle_unsuback {enc dec ores ires} _ _ _.
#[local] Arguments publish_qos_of {enc dec ores ires} _ _.
#[local] Arguments handle_puback {enc dec ores ires} _ _ _.
#[local] Arguments handle_pubrec {enc dec ores ires} _ _ _.
#[local] Arguments handle_pubrel {enc dec ores ires} _ _.
#[local] Arguments handle_pubcomp {enc dec ores ires} _ _ _.
#[local] Arguments handle_publish {enc dec ores ires} _ _.
#[local] Arguments handle_disconnect {enc dec ores ires} _ _ _.
#[local] Arguments is_connect_op {enc dec ores ires} _ _.
#[local] Arguments connect_in_queue {enc dec ores ires} _.
#[local] Arguments reset {enc dec ores ires} _ _.
#[local] Arguments out_of_res {enc dec ores ires} _ _.
#[local] Arguments nst_queue {enc dec ores ires} _ _ _ _.
#[local] Arguments earliest_tmo {enc dec ores ires} _.
#[local] Arguments SeatStop {enc dec ores ires} _.
#[local] Arguments SeatContinue {enc dec ores ires} _ _.
#[local] Arguments SeatEncode {enc dec ores ires} _.

Lemma ids_of_app q a b : ids_of q (a ++ b) = ids_of q a ++ ids_of q b.
Proof. unfold ids_of. rewrite filter_app, map_app. reflexivity. Qed.

Section Main.
  Variable enc : Type.
  Variable enc_reset : version -> packet -> resolution -> outcome enc.
  Variable enc_call : enc -> N -> N -> outcome (bytes * enc).
  Variable enc_done : enc -> bool.
  Variable dec : Type.
  Variable dec_init : dec.
  Variable dec_feed : version -> N -> dec -> bytes -> dec * list packet * outcome unit.
  Variable ores : Type.
  Variable ores_reset : ores -> N -> ores.
  Variable ores_resolve : ores -> option N -> bytes -> outcome (ores * resolution).
  Variable ires : Type.
  Variable ires_reset : ires -> ires.
  Variable ires_resolve : ires -> option N -> bytes -> outcome (ires * bytes).
  Variable v_out : option settings -> connect_opts -> resolution -> packet -> outcome unit.
  Variable v_in : option settings -> packet -> outcome unit.
  Variable cfg : config.
  Variable HC : comps_ok enc enc_reset enc_call dec dec_init dec_feed ores ores_reset ores_resolve ires ires_reset ires_resolve v_out v_in.
  Hypothesis Hcfg : ok_cfg cfg.

  Notation state := (state enc dec ores ires).
  Notation step := (step enc enc_reset enc_call enc_done dec dec_init dec_feed ores ores_reset ores_resolve
                         ires ires_reset ires_resolve v_out v_in cfg).
  Notation run := (run enc enc_reset enc_call enc_done dec dec_init dec_feed ores ores_reset ores_resolve
                       ires ires_reset ires_resolve v_out v_in cfg).
  Notation init := (init (enc:=enc) dec_init).
  Notation service := (service enc enc_reset enc_call enc_done dec ores ores_reset ores_resolve ires v_out cfg).
  Notation service_seats := (service_seats enc enc_reset enc_call enc_done dec ores ores_reset ores_resolve ires v_out cfg).
  Notation net_data := (net_data enc dec dec_feed ores ores_reset ires ires_reset ires_resolve v_in cfg).
  Notation WFX := (WFX enc enc_reset enc_call dec dec_init dec_feed ores ores_reset ores_resolve ires ires_reset ires_resolve v_out v_in cfg HC).
  Notation OS := (OS enc dec ores ires).
  Notation QF := (QF enc dec ores ires).

  Ltac splits := repeat match goal with |- _ /\ _ => split end.

  (* every id waiting in an intake queue was allocated before: it is below the id counter *)
  Lemma WFX_qlt (s : state) : WFX s -> forall i, In i (s_uq s) \/ In i (s_rq s) -> i < s_next_id s.
  Proof.
    intros [[HW _] _] i Hi. apply (w_qlt _ _ HW i). unfold inq. cbn. tauto.
  Qed.

  (* ---- (e): the order invariant is preserved by every step ---- *)
  Theorem step_OS (s : state) e : WFX s -> ok_event e -> OS s -> OS (fst (step s e)).
  Proof.
    intros HX Hev Ho. pose proof HX as [[HW HP] HI].
    destruct e as [now p t|now dl|now|now data|now|now cap fill|now|now]; cbn [Model.step].
    - (* a submission is appended under the next id, above every id in the queue *)
      unfold out_of_res. cbn [fst]. intros Hc.
      pose proof (user_event_ST enc dec ores ires cfg s p t) as Hst.
      pose proof (ST_connected _ _ _ _ _ _ Hst Hc) as Hc0. destruct (Ho Hc0) as [Sr Su].
      destruct (user_event_q enc dec ores ires cfg s p t) as (E1 & [E2|E2]); rewrite E1, E2; split; auto.
      apply sorted_le_snoc; [exact Su|]. intros x Hx. enough (x < s_next_id s) by lia. apply (WFX_qlt s HX). left. exact Hx.
    - unfold out_of_res. cbn [fst]. intros Hc. exfalso.
      pose proof (net_opened_st enc dec dec_init ores ires cfg s dl) as H. cbv zeta in H. rewrite H in Hc. destruct (s_st s); discriminate.
    - unfold out_of_res. cbn [fst]. intros Hc. exfalso. destruct (pstate_eqb (s_st s) Disconnected) eqn:Est.
      + apply pstate_eqb_eq in Est. rewrite (net_closed_disconnected cfg s Est) in Hc. cbn in Hc. discriminate.
      + apply pstate_eqb_neq in Est. destruct (net_closed_spec cfg s HW Est) as (E & _ & S1 & _).
        rewrite E in Hc. cbn [halt_on_error] in Hc. congruence.
    - cbn [fst]. apply net_data_OS. exact Ho.
    - unfold out_of_res. cbn [fst]. intros Hc.
      destruct (net_write_completion_QF enc dec ores ires cfg s) as [Hq|Hh].
      + destruct (r_out (net_write_completion cfg s)); cbn [halt_on_error] in *; [|cbn in Hc; discriminate|cbn in Hc; discriminate].
        exact (QF_OS _ _ _ _ _ _ Hq Ho Hc).
      + exfalso. destruct (r_out (net_write_completion cfg s)); cbn [halt_on_error] in Hc; cbn in Hc; congruence.
    - (* service only pops heads *)
      cbn [fst]. intros Hc.
      pose proof (service_st enc enc_reset enc_call enc_done dec ores ores_reset ores_resolve ires v_out cfg s now cap fill) as Hst.
      cbn [st_step] in Hst. rewrite Hc in Hst.
      assert (Hc0 : s_st s = Connected) by (destruct (s_st s); try reflexivity; exfalso; intuition discriminate).
      destruct (Ho Hc0) as [Sr Su].
      destruct (service_seats_legal enc enc_reset enc_call enc_done dec ores ores_reset ores_resolve ires v_out cfg s now cap fill) as (h & _ & Hs).
      apply seats_prefix in Hs. destruct Hs as (_ & R & U). rewrite R in Sr. rewrite U in Su.
      split; eapply sorted_le_suffix; eauto.
    - destruct (next_service_time cfg s now); cbn [fst]; exact Ho.
    - unfold out_of_res. cbn [fst]. intros Hc. exfalso. rewrite reset_st in Hc. destruct (s_st s); discriminate.
  Qed.

  Theorem run_OS : forall h (s : state), WFX s -> OS s -> Forall ok_event h -> OS (fst (run s h)).
  Proof.
    induction h as [|e r IH]; intros s HWF Ho Hall; cbn [Model.run]; [exact Ho|].
    inversion Hall as [|? ? He Hr]; subst.
    pose proof (WF_step _ _ _ enc_done _ _ _ _ _ _ _ _ _ _ _ _ HC Hcfg s e HWF He) as HW1.
    pose proof (step_OS s e HWF He Ho) as Ho1.
    destruct (step s e) as [s1 o]. cbn [fst] in *. specialize (IH s1 HW1 Ho1 Hr).
    destruct (run s1 r) as [s2 os]. exact IH.
  Qed.

  Lemma reachable_WFX_OS (o : ores) (i : ires) h :
    ores_inv HC o -> ires_inv HC i -> Forall ok_event h -> WFX (fst (run (init o i) h)) /\ OS (fst (run (init o i) h)).
  Proof.
    intros Ho Hi Hall.
    pose proof (WF_init _ _ _ _ _ _ _ _ _ _ _ _ _ _ cfg HC o i Ho Hi) as H0. split.
    - exact (WF_run _ _ _ enc_done _ _ _ _ _ _ _ _ _ _ _ _ HC Hcfg h _ H0 Hall).
    - apply run_OS; [exact H0| |exact Hall]. intros Hc. cbn in Hc. discriminate.
  Qed.

  (* (e) in every reachable Connected state the resubmit queue and the user queue are sorted by operation id *)
  Theorem queues_sorted_when_connected (o : ores) (i : ires) h :
    ores_inv HC o -> ires_inv HC i -> Forall ok_event h ->
    s_st (fst (run (init o i) h)) = Connected ->
    sorted_le (s_rq (fst (run (init o i) h))) /\ sorted_le (s_uq (fst (run (init o i) h))).
  Proof. intros Ho Hi Hall. exact (proj2 (reachable_WFX_OS o i h Ho Hi Hall)). Qed.

  (* ---- (f): one service call ---- *)
  (* what is seated is taken from the heads of the queues (any state, no hypothesis) *)
  Theorem service_seats_prefix (s : state) now cap fill :
    s_rq s = ids_of QR (service_seats s now cap fill) ++ s_rq (sr_s (service s now cap fill)) /\
    s_uq s = ids_of QU (service_seats s now cap fill) ++ s_uq (sr_s (service s now cap fill)).
  Proof.
    destruct (service_seats_legal enc enc_reset enc_call enc_done dec ores ores_reset ores_resolve ires v_out cfg s now cap fill) as (h & _ & Hs).
    apply seats_prefix in Hs. tauto.
  Qed.

  (* retransmissions first: when an operation of the user queue is seated, the whole resubmit queue
     has been seated before it and nothing of the resubmit queue follows (any state, no hypothesis) *)
  Theorem service_retransmissions_first (s : state) now cap fill t1 i t2 :
    service_seats s now cap fill = t1 ++ (QU, i) :: t2 -> ids_of QR t1 = s_rq s /\ ids_of QR t2 = [].
  Proof.
    intros E.
    destruct (service_seats_legal enc enc_reset enc_call enc_done dec ores ores_reset ores_resolve ires v_out cfg s now cap fill) as (h & _ & Hs).
    pose proof (seats_priority _ _ _ _ _ _ _ Hs t1 QU i t2 E) as H. cbv beta iota in H. tauto.
  Qed.

  Definition order_facts (s : state) (t : list seat_ev) (s' : state) : Prop :=
    s_rq s = ids_of QR t ++ s_rq s' /\ s_uq s = ids_of QU t ++ s_uq s' /\
    (forall t1 i t2, t = t1 ++ (QU, i) :: t2 -> ids_of QR t1 = s_rq s /\ ids_of QR t2 = []) /\
    sorted_le (ids_of QR t) /\ sorted_le (ids_of QU t) /\
    (forall x y, In x (ids_of QR t) -> In y (s_rq s') -> x <= y) /\
    (forall x y, In x (ids_of QU t) -> In y (s_uq s') -> x <= y) /\
    (forall x, In x (ids_of QR t) \/ In x (ids_of QU t) -> x < s_next_id s).

  Theorem service_order (s : state) now cap fill :
    WFX s -> OS s -> s_st s = Connected ->
    order_facts s (service_seats s now cap fill) (sr_s (service s now cap fill)).
  Proof.
    intros HX Ho Hc. destruct (Ho Hc) as [Sr Su]. destruct (service_seats_prefix s now cap fill) as [R U].
    unfold order_facts. split; [exact R|]. split; [exact U|]. split; [intros t1 i t2; apply service_retransmissions_first|].
    rewrite R in Sr. rewrite U in Su. apply sorted_le_app in Sr. apply sorted_le_app in Su.
    destruct Sr as (R1 & _ & R3). destruct Su as (U1 & _ & U3). splits; auto.
    intros x Hx. apply (WFX_qlt s HX). rewrite R, U. destruct Hx as [Hx|Hx]; [right|left]; apply in_or_app; left; exact Hx.
  Qed.

  (* (f) at every reachable Connected state, for every service call *)
  Theorem submission_order (o : ores) (i : ires) h now cap fill :
    ores_inv HC o -> ires_inv HC i -> Forall ok_event h ->
    s_st (fst (run (init o i) h)) = Connected ->
    order_facts (fst (run (init o i) h)) (service_seats (fst (run (init o i) h)) now cap fill)
                (sr_s (service (fst (run (init o i) h)) now cap fill)).
  Proof.
    intros Ho Hi Hall Hc. destruct (reachable_WFX_OS o i h Ho Hi Hall) as [HX HO]. apply service_order; assumption.
  Qed.
End Main.
