(* C02 / wire level for the CONCRETE engine of Engine/Instance.v (the functions the correspondence check executes):
   the step encoder of Codec/Steps.v + the packet encoders of Codec/ImplEncode.v satisfy the resumable-writer
   hypotheses of WireRun.v, so the byte stream of every connection of every history is the concatenation of the
   complete encodings (flatten of ImplEncode.impl_steps) of the packets the engine constructed an encoder for, in
   order, plus a prefix of the one being written; with C02's per-packet theorems: if the seated packets are valid for
   the wire specification, the independent specification decoder reads the completed part of the stream back as
   exactly their canonical forms, frame by frame, nothing left over. *)
From GM Require Import Base.Prelude Base.Outcome Codec.Prim Codec.Packets Codec.Settings Codec.Steps Codec.ImplEncode
  Codec.SpecDecodeC2S Codec.ValidC2S Codec.Framing Alias.Outbound Alias.Inbound Validate.Rules Engine.Model Engine.Instance
  CodecProofs.EncFrag EngineProofs.WFDefs EngineProofs.WFInstance EngineProofs.AliasRunLog EngineProofs.AliasRunInstance
  EngineProofs.HandshakeRunInv EngineProofs.WireRunLog EngineProofs.WireRun EngineProofs.WireRunConn EngineProofs.WireRunCodec
  EngineProofs.WireRunConnect.
Open Scope N_scope.

Definition i_wlog (cfg : config) : istate -> list event -> list wev :=
  run_wlog enc impl_steps encode_call enc_done decoder decoder_init decode_bytes ores ores_reset ores_resolve ires ires_reset ires_resolve
    validate_outbound_internal validate_inbound_internal cfg.

(* the complete encoding of a seated (packet, resolution) in the configured protocol version *)
Definition i_full (cfg : config) (x : pr) : bytes := full_encoding (cf_version cfg) (fst x) (snd x).

(* ---- the step encoder is a resumable writer of [flat] ---- *)
Definition steps_good (e : enc) : Prop := exists b, flatten e = Ok b.
Definition pkt_good (v : version) (p : packet) (r : resolution) : Prop := exists b, impl_encode_all v p r = Ok b.

Lemma i_reset_full v p r e : impl_steps v p r = Ok e -> flat e = full_encoding v p r.
Proof. unfold full_encoding. intros ->. reflexivity. Qed.
Lemma i_call_rem (e : enc) fill cap out e' : encode_call e fill cap = Ok (out, e') -> flat e = out ++ flat e'.
Proof. apply encode_call_flat. Qed.
Lemma i_done_rem (e : enc) : enc_done e = true -> flat e = [].
Proof. destruct e; [reflexivity|discriminate]. Qed.
Lemma i_reset_good v p r e : impl_steps v p r = Ok e -> steps_good e -> pkt_good v p r.
Proof. intros H [b Hb]. exists b. unfold impl_encode_all. rewrite H. exact Hb. Qed.
Lemma i_call_good (e : enc) fill cap out e' : encode_call e fill cap = Ok (out, e') -> steps_good e' -> steps_good e.
Proof. apply encode_call_flatten_ok. Qed.
Lemma i_done_good (e : enc) : enc_done e = true -> steps_good e.
Proof. destruct e; [exists []; reflexivity|discriminate]. Qed.

Lemma pkt_good_full cfg (x : pr) : pkt_good (cf_version cfg) (fst x) (snd x) ->
  impl_encode_all (cf_version cfg) (fst x) (snd x) = Ok (i_full cfg x).
Proof. intros [b Hb]. unfold i_full. rewrite (full_encoding_ok _ _ _ _ Hb). exact Hb. Qed.

Section Instance.
  Variable cfg : config.
  Hypothesis Hcfg : ok_cfg cfg.
  Variable k : resolver_kind.

  (* 1, run form: after every history, the bytes emitted since the last EvOpen *)
  Theorem instance_wire_stream h :
    Forall ok_event h ->
    let L := i_wlog cfg (i_init cfg k) h in
    let g := wfold wg0 L in
    conn_bytes h (snd (i_run cfg (i_init cfg k) h)) [] = concat (map (i_full cfg) (w_done g)) ++ w_part g /\
    match w_cur g with
    | None => w_part g = []
    | Some x => exists rest, i_full cfg x = w_part g ++ rest
    end /\
    conn_seated L [] = w_done g ++ olist (w_cur g) /\
    olog_of L = i_olog cfg (i_init cfg k) h /\
    Forall (fun x => impl_encode_all (cf_version cfg) (fst x) (snd x) = Ok (i_full cfg x)) (w_done g).
  Proof.
    intros Hh.
    destruct (wire_stream_run enc impl_steps encode_call enc_done decoder decoder_init decode_bytes ores ores_reset ores_resolve
                ires ires_reset ires_resolve validate_outbound_internal validate_inbound_internal cfg instance_comps_ok Hcfg
                flat full_encoding i_reset_full i_call_rem i_done_rem steps_good pkt_good i_reset_good i_call_good i_done_good
                (ores_init k) (ires_init (match co_tam (cf_connect cfg) with Some m => m | None => 0 end)) h I I Hh)
      as (A & B & C0 & D & E & _).
    repeat split; try assumption. eapply Forall_impl; [|exact E]. intros x Hx. apply pkt_good_full. exact Hx.
  Qed.

  (* 1, connection form: the outputs of one connection, from its EvOpen to the end of a history without further EvOpen.
     [packets_of] reads the completed packets and the held packet off the alias log of AliasRunLog.v. *)
  Theorem instance_wire_connection h1 now dl h2 :
    Forall ok_event (h1 ++ EvOpen now dl :: h2) -> Forall not_open h2 ->
    let s1 := fst (i_run cfg (i_init cfg k) (h1 ++ [EvOpen now dl])) in
    let L := i_olog cfg s1 h2 in
    exists part,
      concat (map o_bytes (snd (i_run cfg s1 h2))) = concat (map (i_full cfg) (fst (packets_of L))) ++ part /\
      match snd (packets_of L) with
      | None => part = []
      | Some x => exists rest, i_full cfg x = part ++ rest
      end /\
      encodes L = fst (packets_of L) ++ olist (snd (packets_of L)) /\
      Forall (fun x => impl_encode_all (cf_version cfg) (fst x) (snd x) = Ok (i_full cfg x)) (fst (packets_of L)).
  Proof.
    intros Hh Hno.
    destruct (wire_stream_connection enc impl_steps encode_call enc_done decoder decoder_init decode_bytes ores ores_reset ores_resolve
                ires ires_reset ires_resolve validate_outbound_internal validate_inbound_internal cfg instance_comps_ok Hcfg
                flat full_encoding i_reset_full i_call_rem i_done_rem steps_good pkt_good i_reset_good i_call_good i_done_good
                (ores_init k) (ires_init (match co_tam (cf_connect cfg) with Some m => m | None => 0 end)) h1 now dl h2 I I Hh Hno)
      as (part & A & B & C0 & D).
    exists part. repeat split; try assumption. eapply Forall_impl; [|exact D]. intros x Hx. apply pkt_good_full. exact Hx.
  Qed.

  (* nothing is emitted before the first EvOpen *)
  Theorem instance_wire_silent_before_open h :
    Forall ok_event h -> Forall not_open h -> concat (map o_bytes (snd (i_run cfg (i_init cfg k) h))) = [].
  Proof.
    intros Hh Hno.
    exact (wire_silent_before_open enc impl_steps encode_call enc_done decoder decoder_init decode_bytes ores ores_reset ores_resolve
             ires ires_reset ires_resolve validate_outbound_internal validate_inbound_internal cfg instance_comps_ok Hcfg
             (ores_init k) (ires_init (match co_tam (cf_connect cfg) with Some m => m | None => 0 end)) h I I Hh Hno).
  Qed.

  (* 2, with C02: if every (packet, resolution) an encoder was constructed for on the connection is valid for the wire
     specification, the specification decoder reads the completed part of the stream back, frame by frame, as exactly
     the canonical forms of the completed packets, in order, with nothing left over; what follows is a prefix of the
     encoding of the packet being written *)
  Theorem instance_wire_decodes h1 now dl h2 :
    Forall ok_event (h1 ++ EvOpen now dl :: h2) -> Forall not_open h2 ->
    let s1 := fst (i_run cfg (i_init cfg k) (h1 ++ [EvOpen now dl])) in
    let L := i_olog cfg s1 h2 in
    Forall (pr_valid (cf_version cfg)) (encodes L) ->
    exists frames part,
      concat (map o_bytes (snd (i_run cfg s1 h2))) = frames ++ part /\
      spec_decode_all (length (fst (packets_of L))) (cf_version cfg) frames = Some (map (pr_canon (cf_version cfg)) (fst (packets_of L))) /\
      match snd (packets_of L) with
      | None => part = []
      | Some x => exists bs rest, impl_encode_all (cf_version cfg) (fst x) (snd x) = Ok bs /\ bs = part ++ rest /\
                                  spec_decode (cf_version cfg) bs = Some (pr_canon (cf_version cfg) x, [])
      end.
  Proof.
    intros Hh Hno s1 L Hv.
    destruct (instance_wire_connection h1 now dl h2 Hh Hno) as (part & A & B & C0 & D). fold s1 L in A, B, C0, D.
    rewrite C0 in Hv. apply Forall_app in Hv. destruct Hv as [Hv1 Hv2].
    exists (concat (map (i_full cfg) (fst (packets_of L)))), part. split; [exact A|]. split; [apply spec_decode_stream; exact Hv1|].
    destruct (snd (packets_of L)) as [x|]; [|exact B]. destruct B as (rest & B).
    inversion Hv2 as [|? ? Hx _]; subst. destruct x as [p r]. destruct (roundtrip_all _ _ _ Hx) as (bs & E1 & E2).
    exists bs, rest. split; [exact E1|]. split; [|exact E2]. rewrite <- B. unfold i_full. symmetry. apply full_encoding_ok. exact E1.
  Qed.

  (* 3, with C07: the first packet an encoder is constructed for on a connection is the CONNECT [create_connect] of the
     state in which the connection opened, with no alias resolution, and no other packet an encoder is constructed for
     on the connection is a CONNECT *)
  Theorem instance_connect_first h1 now dl h2 :
    Forall ok_event (h1 ++ EvOpen now dl :: h2) -> Forall user_ok (h1 ++ EvOpen now dl :: h2) -> Forall not_open h2 ->
    let s0 := fst (i_run cfg (i_init cfg k) h1) in
    let s1 := fst (i_run cfg (i_init cfg k) (h1 ++ [EvOpen now dl])) in
    match encodes (i_olog cfg s1 h2) with
    | [] => True
    | x :: rest => x = (create_connect enc decoder ores ires cfg s0, no_resolution) /\ Forall nonconnect rest
    end.
  Proof.
    intros Hh Hu Hno.
    exact (connect_first enc impl_steps encode_call enc_done decoder decoder_init decode_bytes ores ores_reset ores_resolve
             ires ires_reset ires_resolve validate_outbound_internal validate_inbound_internal cfg instance_comps_ok Hcfg
             (fun _ _ _ => eq_refl)
             (ores_init k) (ires_init (match co_tam (cf_connect cfg) with Some m => m | None => 0 end)) h1 now dl h2 I I Hh Hu Hno).
  Qed.

  (* the byte stream of a connection: complete packets + a prefix of one, the CONNECT first and only once *)
  Theorem instance_wire_connection_connect h1 now dl h2 :
    Forall ok_event (h1 ++ EvOpen now dl :: h2) -> Forall user_ok (h1 ++ EvOpen now dl :: h2) -> Forall not_open h2 ->
    let s0 := fst (i_run cfg (i_init cfg k) h1) in
    let s1 := fst (i_run cfg (i_init cfg k) (h1 ++ [EvOpen now dl])) in
    let L := i_olog cfg s1 h2 in
    exists part,
      concat (map o_bytes (snd (i_run cfg s1 h2))) = concat (map (i_full cfg) (fst (packets_of L))) ++ part /\
      match snd (packets_of L) with
      | None => part = []
      | Some x => exists rest, i_full cfg x = part ++ rest
      end /\
      match fst (packets_of L) ++ olist (snd (packets_of L)) with
      | [] => True
      | x :: rest => x = (create_connect enc decoder ores ires cfg s0, no_resolution) /\ Forall nonconnect rest
      end.
  Proof.
    intros Hh Hu Hno s0 s1 L.
    destruct (instance_wire_connection h1 now dl h2 Hh Hno) as (part & A & B & C0 & _). fold s1 L in A, B, C0.
    exists part. split; [exact A|]. split; [exact B|]. rewrite <- C0. exact (instance_connect_first h1 now dl h2 Hh Hu Hno).
  Qed.
End Instance.
