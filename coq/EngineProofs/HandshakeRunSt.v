(* The protocol-state machine of the engine: which [s_st] a step can lead to (step_st), on ARBITRARY
   states except for close / reset, where the well-formedness specs are used.  [ST s s'] = the state
   is unchanged, or a failed user DISCONNECT halted a PendingDisconnect engine. *)
From GM Require Import Base.Prelude Base.Outcome Codec.Packets Codec.Settings Engine.Model
  EngineProofs.AssocLemmas EngineProofs.WFLemmas EngineProofs.HandshakeRunTrace.
From RecordUpdate Require Import RecordSet.
Import RecordSetNotations.
Open Scope N_scope.
#[local] Set Default Proof Using "Type".

(* the four component types are implicit in the engine functions, locally to this file *)
#[local] Arguments init {enc dec} _ {ores ires} _ _.
#[local] Arguments release {enc dec ores ires} _ _ _ _.
#[local] Arguments disconnect_completion {enc dec ores ires} _ _.
#[local] Arguments fail_op {enc dec ores ires} _ _ _ _.
#[local] Arguments ping_extension {enc dec ores ires} _ _.
#[local] Arguments succeed_op {enc dec ores ires} _ _ _ _.
#[local] Arguments fail_all {enc dec ores ires} _ _ _ _.
#[local] Arguments succeed_all {enc dec ores ires} _ _ _.
#[local] Arguments andthen {enc dec ores ires} _ _.
#[local] Arguments try_ {enc dec ores ires} _ _.
#[local] Arguments pure {enc dec ores ires} _.
#[local] Arguments create_operation {enc dec ores ires} _ _.
#[local] Arguments passes_now {enc dec ores ires} _ _ _.
#[local] Arguments user_event {enc dec ores ires} _ _ _ _.
#[local] Arguments create_connect {enc dec ores ires} _ _.
#[local] Arguments net_opened {enc dec} _ {ores ires} _ _ _.
#[local] Arguments op_exists {enc dec ores ires} _ _.
#[local] Arguments op_passes {enc dec ores ires} _ _ _.
#[local] Arguments partition_policy {enc dec ores ires} _ _ _.
#[local] Arguments closed_current {enc dec ores ires} _ _.
#[local] Arguments slow_start_init {enc dec ores ires} _ _.
#[local] Arguments update_retries {enc dec ores ires} _ _.
#[local] Arguments fail_exceeding {enc dec ores ires} _ _.
#[local] Arguments has_pubrel {enc dec ores ires} _ _.
#[local] Arguments net_closed_raw {enc dec ores ires} _ _.
#[local] Arguments net_closed {enc dec ores ires} _ _.
#[local] Arguments net_write_completion {enc dec ores ires} _ _.
#[local] Arguments acquire_free_pid {enc dec ores ires} _ _.
#[local] Arguments acquire_pid_for {enc dec ores ires} _ _.
#[local] Arguments unbind {enc dec ores ires} _ _.
#[local] Arguments passes_receive_max {enc dec ores ires} _ _.
#[local] Arguments throttled {enc dec ores ires} _ _.
#[local] Arguments has_pending_ack {enc dec ores ires} _.
#[local] Arguments dequeue {enc dec ores ires} _ _ _.
#[local] Arguments fully_written {enc dec ores ires} _ _.
#[local] Arguments service_keep_alive {enc dec ores ires} _ _ _.
#[local] Arguments process_ack_timeouts {enc dec ores ires} _ _ _.
#[local] Arguments halt_on_error {enc dec ores ires} _ _.
#[local] Arguments next_service_time {enc dec ores ires} _ _ _.
#[local] Arguments build_settings {enc dec ores ires} _ _ _.
#[local] Arguments apply_session {enc dec ores ires} _ _ _.
#[local] Arguments hres_of {enc dec ores ires} _ _.
#[local] Arguments pre_connack {enc dec ores ires} _.
#[local] Arguments sum_ss {enc dec ores ires} _.
#[local] Arguments handle_pingresp {enc dec ores ires} _.
#[local] Arguments handle_suback {enc dec ores ires} _ _ _.
#[local] Arguments handle_unsuback {enc dec ores ires} _ _ _.
#[local] Arguments publish_qos_of {enc dec ores ires} _ _.
#[local] Arguments handle_puback {enc dec ores ires} _ _ _.
#[local] Arguments handle_pubrec {enc dec ores ires} _ _ _.
#[local] Arguments handle_pubrel {enc dec ores ires} _ _.
#[local] Arguments handle_pubcomp {enc dec ores ires} _ _ _.
#[local] Arguments handle_publish {enc dec ores ires} _ _.
#[local] Arguments handle_disconnect {enc dec ores ires} _ _ _.
#[local] Arguments is_connect_op {enc dec ores ires} _ _.
#[local] Arguments connect_in_queue {enc dec ores ires} _.
#[local] Arguments reset {enc dec ores ires} _ _.
#[local] Arguments out_of_res {enc dec ores ires} _ _.
#[local] Arguments nst_queue {enc dec ores ires} _ _ _ _.
#[local] Arguments earliest_tmo {enc dec ores ires} _.
#[local] Arguments SeatStop {enc dec ores ires} _.
#[local] Arguments SeatContinue {enc dec ores ires} _ _.
#[local] Arguments SeatEncode {enc dec ores ires} _.


Section St.
  Variable enc : Type.
  Variable enc_reset : version -> packet -> resolution -> outcome enc.
  Variable enc_call : enc -> N -> N -> outcome (bytes * enc).
  Variable enc_done : enc -> bool.
  Variable dec : Type.
  Variable dec_init : dec.
  Variable dec_feed : version -> N -> dec -> bytes -> dec * list packet * outcome unit.
  Variable ores : Type.
  Variable ores_reset : ores -> N -> ores.
  Variable ores_resolve : ores -> option N -> bytes -> outcome (ores * resolution).
  Variable ires : Type.
  Variable ires_reset : ires -> ires.
  Variable ires_resolve : ires -> option N -> bytes -> outcome (ires * bytes).
  Variable v_out : option settings -> connect_opts -> resolution -> packet -> outcome unit.
  Variable v_in : option settings -> packet -> outcome unit.
  Variable cfg : config.

  Notation state := (state enc dec ores ires).
  Notation res := (res enc dec ores ires).
  Notation seat_current := (seat_current enc enc_reset dec ores ores_reset ores_resolve ires v_out cfg).
  Notation service_loop := (service_loop enc enc_reset enc_call enc_done dec ores ores_reset ores_resolve ires v_out cfg).
  Notation service_loop_t := (service_loop_t enc enc_reset enc_call enc_done dec ores ores_reset ores_resolve ires v_out cfg).
  Notation service_queue := (service_queue enc enc_reset enc_call enc_done dec ores ores_reset ores_resolve ires v_out cfg).
  Notation service := (service enc enc_reset enc_call enc_done dec ores ores_reset ores_resolve ires v_out cfg).
  Notation handle_connack := (handle_connack enc dec ores ores_reset ires ires_reset v_in cfg).
  Notation handle_packet := (handle_packet enc dec ores ores_reset ires ires_reset v_in cfg).
  Notation handle_packets := (handle_packets enc dec ores ores_reset ires ires_reset ires_resolve v_in cfg).
  Notation net_data := (net_data enc dec dec_feed ores ores_reset ires ires_reset ires_resolve v_in cfg).
  Notation encode_next := (encode_next enc enc_call enc_done dec ores ires).

  Definition ST (s s' : state) : Prop := s_st s' = s_st s \/ (s_st s = PendingDisconnect /\ s_st s' = Halted).

  Lemma ST_refl s : ST s s.
  Proof. left. reflexivity. Qed.
  Lemma ST_eq (s s' : state) : s_st s' = s_st s -> ST s s'.
  Proof. intros H. left. exact H. Qed.
  Lemma ST_trans s1 s2 s3 : ST s1 s2 -> ST s2 s3 -> ST s1 s3.
  Proof. unfold ST. intros [A|[A A']] [B|[B B']]; try (left; congruence); try (right; split; congruence). Qed.

  Ltac st_id := first [apply ST_refl | apply ST_eq; reflexivity].

  Lemma release_st (s s' : state) id o : release cfg s id o = Ok s' -> s_st s' = s_st s.
  Proof.
    unfold release. destruct (op_pid o); cbn;
      repeat match goal with |- context [if ?b then _ else _] => destruct b; cbn end; intros H; inversion H; reflexivity.
  Qed.

  Lemma disconnect_completion_ST (s : state) o : ST s (fst (disconnect_completion s o)).
  Proof.
    unfold disconnect_completion. destruct (is_disconnect (op_packet o)); [|st_id].
    unfold ST. destruct (s_st s) eqn:E; cbn; rewrite ?E; auto.
  Qed.

  Lemma fail_op_ST (s : state) id e : ST s (r_s (fail_op cfg s id e)).
  Proof.
    unfold fail_op. destruct (lookup id (s_ops s)) as [o|]; [|st_id].
    destruct (release cfg s id o) as [s1|k|site] eqn:Er; [|st_id|st_id].
    apply release_st in Er. pose proof (disconnect_completion_ST s1 o) as Hd.
    destruct (disconnect_completion s1 o) as [s2 r]. cbn [fst] in Hd.
    assert (H : ST s s2) by (eapply ST_trans; [apply ST_eq; exact Er|exact Hd]).
    destruct r; [destruct (op_user o)|..]; exact H.
  Qed.

  Lemma ping_extension_st (s : state) o : s_st (ping_extension s o) = s_st s.
  Proof.
    unfold ping_extension. destruct (match op_packet o with Subscribe _ | Unsubscribe _ => op_ext o | Publish pb => _ | _ => None end);
      [|reflexivity]. destruct (s_settings s); [|reflexivity]. destruct (s_next_ping s); [|reflexivity].
    destruct (_ <? _); reflexivity.
  Qed.

  Lemma succeed_op_ST (s : state) id resp : ST s (r_s (succeed_op cfg s id resp)).
  Proof.
    unfold succeed_op. destruct (lookup id (s_ops s)) as [o|]; [|st_id].
    destruct (release cfg s id o) as [s1|k|site] eqn:Er; [|st_id|st_id].
    apply release_st in Er. pose proof (disconnect_completion_ST (ping_extension s1 o) o) as Hd.
    destruct (disconnect_completion (ping_extension s1 o) o) as [s2 r]. cbn [fst] in Hd.
    assert (H : ST s s2). { eapply ST_trans; [apply ST_eq|exact Hd]. rewrite ping_extension_st. exact Er. }
    destruct r; [destruct (op_user o); [destruct (success_value o resp)|]|..]; exact H.
  Qed.

  Lemma fail_all_ST ids : forall (s : state) e, ST s (r_s (fail_all cfg s ids e)).
  Proof.
    induction ids as [|a r IH]; intros s e; cbn [fail_all]; [st_id|].
    pose proof (fail_op_ST s a e) as H1. destruct (is_panic (r_out (fail_op cfg s a e))); [exact H1|].
    specialize (IH (r_s (fail_op cfg s a e)) e).
    destruct (is_panic (r_out (fail_all cfg (r_s (fail_op cfg s a e)) r e))); cbn [r_s]; eapply ST_trans; eauto.
  Qed.

  Lemma succeed_all_ST ids : forall (s : state), ST s (r_s (succeed_all cfg s ids)).
  Proof.
    induction ids as [|a r IH]; intros s; cbn [succeed_all]; [st_id|].
    pose proof (succeed_op_ST s a None) as H1. destruct (is_panic (r_out (succeed_op cfg s a None))); [exact H1|].
    specialize (IH (r_s (succeed_op cfg s a None))).
    destruct (is_panic (r_out (succeed_all cfg (r_s (succeed_op cfg s a None)) r))); cbn [r_s]; eapply ST_trans; eauto.
  Qed.

  Lemma andthen_ST (s : state) (r : res) f : ST s (r_s r) -> (forall s1, ST s1 (r_s (f s1))) -> ST s (r_s (andthen r f)).
  Proof.
    intros H1 H2. unfold andthen. destruct (is_panic (r_out r)); [exact H1|].
    destruct (is_panic (r_out (f (r_s r)))); cbn [r_s]; eapply ST_trans; eauto.
  Qed.

  Lemma user_event_ST (s : state) p t : ST s (r_s (user_event cfg s p t)).
  Proof.
    unfold user_event, create_operation.
    set (o := new_op p _ _).
    set (s1 := s <| s_next_id := s_next_id s + 1 |> <| s_ops := s_ops s ++ [(s_next_id s, o)] |>).
    destruct (negb (passes_now cfg s1 p)).
    - cbn [r_s]. eapply ST_trans; [|apply fail_op_ST]. st_id.
    - destruct (is_disconnect p); st_id.
  Qed.

  (* ---- the service loop ---- *)
  Lemma acquire_pid_for_st (s s' : state) id : acquire_pid_for s id = Ok s' -> s_st s' = s_st s.
  Proof.
    unfold acquire_pid_for. destruct (lookup id (s_ops s)) as [o|]; [|discriminate].
    destruct (op_pid o); [intros H; inversion H; reflexivity|].
    destruct (negb (needs_pid (op_packet o))); [intros H; inversion H; reflexivity|].
    unfold acquire_free_pid. destruct (match first_gap _ _ _ with Some c => Some c | None => _ end) as [c|]; cbn; [|discriminate].
    destruct (with_pid c (op_packet o)); cbn; [|discriminate|discriminate]. intros H; inversion H; reflexivity.
  Qed.

  Lemma seat_current_ST (s : state) m acc dn : ST s (seat_state _ _ _ _ (seat_current s m acc dn)).
  Proof.
    unfold Model.seat_current. destruct (s_cur s); [st_id|].
    assert (Hd : s_st (fst (dequeue cfg s m)) = s_st s).
    { unfold dequeue. repeat match goal with |- context [if ?b then _ else _] => destruct b; cbn end;
        repeat match goal with |- context [match ?l with [] => _ | _ :: _ => _ end] => destruct l; cbn end;
        repeat match goal with |- context [if ?b then _ else _] => destruct b; cbn end; reflexivity. }
    destruct (dequeue cfg s m) as [s1 next]. cbn [fst] in Hd. destruct next as [id|]; [|cbn; apply ST_eq; exact Hd].
    destruct (negb (op_exists (s1 <| s_cur := Some id |>) id)); [cbn; apply ST_eq; exact Hd|].
    destruct (acquire_pid_for (s1 <| s_cur := Some id |>) id) as [s3|k|site] eqn:Ea; [|cbn; apply ST_eq; exact Hd|cbn; apply ST_eq; exact Hd].
    apply acquire_pid_for_st in Ea. cbn in Ea.
    assert (H3 : s_st s3 = s_st s) by congruence.
    destruct (lookup id (s_ops s3)) as [o|]; [|apply ST_eq; exact H3].
    set (packet := match op_pubrel o with Some pr => pr | None => op_packet o end).
    assert (Hres : forall x : outcome (state * resolution),
              x = match packet with
                  | Publish pb => do (o', r) <- ores_resolve (s_ores s3) (pub_alias pb) (pub_topic pb) ; Ok (s3 <| s_ores := o' |>, r)
                  | _ => Ok (s3, no_resolution) end ->
              match x with Ok (s4, _) => s_st s4 = s_st s3 | _ => True end).
    { intros x ->. destruct packet; try reflexivity.
      destruct (ores_resolve _ _ _) as [[o' r]| |]; cbn; try exact I. reflexivity. }
    specialize (Hres _ eq_refl).
    destruct (match packet with Publish pb => _ | _ => _ end) as [[s4 r]|k|site]; [|apply ST_eq; exact H3|apply ST_eq; exact H3].
    assert (H4 : s_st s4 = s_st s) by congruence.
    destruct (v_out (s_settings s4) (cf_connect cfg) r packet) as [u|k|site]; [| |apply ST_eq; exact H4].
    - destruct (enc_reset (cf_version cfg) packet r); cbn; apply ST_eq; exact H4.
    - match goal with |- context [fail_op cfg ?sx id k] => pose proof (fail_op_ST sx id k) as Hf; set (rf := fail_op cfg sx id k) in Hf |- * end.
      assert (Hq : ST s (r_s rf)).
      { eapply ST_trans; [|exact Hf]. apply ST_eq. destruct (r_alias r); cbn; exact H4. }
      destruct (r_out rf); cbn; exact Hq.
  Qed.

  (* only a completely written DISCONNECT changes the protocol state in the encode half *)
  Lemma fully_written_st (s s' : state) now :
    fully_written s now = Ok s' ->
    exists id o, s_cur s = Some id /\ lookup id (s_ops s) = Some o /\
      s_st s' = (if is_disconnect (op_packet o) then PendingDisconnect else s_st s).
  Proof.
    unfold fully_written. destruct (s_cur s) as [id|]; [|discriminate]. destruct (lookup id (s_ops s)) as [o|] eqn:El; [|discriminate].
    intros H. exists id, o. split; [reflexivity|]. split; [exact El|]. revert H.
    destruct (if op_user o then op_timeout o else None) as [d|]; [destruct (IMAX <? now + d)|];
      destruct (op_packet o) as [| |pb| | | | | | | | | | | |]; cbn; try destruct (pub_qos pb =? 0); cbn;
      intros H; inversion H; reflexivity.
  Qed.

  Lemma encode_next_st now cap fill (s5 : state) acc dn :
    match encode_next now cap fill s5 acc dn with
    | inl r => s_st (sr_s r) = s_st s5
    | inr (s7, _) => s_st s7 = s_st s5 \/ s_st s7 = PendingDisconnect
    end.
  Proof.
    unfold HandshakeRunTrace.encode_next. destruct (s_cur s5) as [id|]; [|reflexivity].
    destruct (negb (op_exists s5 id)); [reflexivity|]. destruct (s_enc s5) as [e|]; [|reflexivity].
    destruct (enc_call e (fill + len acc) cap) as [[out e']|k|site]; [|reflexivity|reflexivity].
    cbv zeta. destruct (enc_done e'); [|reflexivity].
    destruct (fully_written (s5 <| s_enc := Some e' |>) now) as [s7|k|site] eqn:Ef; [|reflexivity|reflexivity].
    apply fully_written_st in Ef. destruct Ef as (i & o & _ & _ & E). rewrite E. destruct (is_disconnect (op_packet o)); [right|left]; reflexivity.
  Qed.

  Lemma service_loop_st : forall f (s : state) m now cap fill acc dn,
    s_st (sr_s (service_loop f s m now cap fill acc dn)) = s_st s \/
    s_st (sr_s (service_loop f s m now cap fill acc dn)) = PendingDisconnect.
  Proof.
    intros f s m now cap fill acc dn. rewrite <- service_loop_t_fst. revert s m now cap fill acc dn.
    induction f as [|f IH]; intros s m now cap fill acc dn; cbn [HandshakeRunTrace.service_loop_t]; [left; reflexivity|].
    destruct (negb (pstate_eqb (s_st s) PendingConnack || pstate_eqb (s_st s) Connected)) eqn:Eg; [left; reflexivity|].
    assert (Hl : s_st s <> PendingDisconnect) by (destruct (s_st s); cbn in Eg; congruence).
    pose proof (seat_current_ST s m acc dn) as [Hs|[Hs _]]; [|contradiction].
    destruct (seat_current s m acc dn) as [r|s5 dn'|s5]; cbn [seat_state fst] in Hs |- *; [left; exact Hs|rewrite <- Hs; apply IH|].
    pose proof (encode_next_st now cap fill s5 acc dn) as He.
    destruct (encode_next now cap fill s5 acc dn) as [r|[s7 acc']]; cbn [fst]; [left; congruence|].
    destruct (IH s7 m now cap fill acc' dn) as [I1|I1]; [|right; exact I1]. destruct He as [He|He]; [left|right]; congruence.
  Qed.

  Lemma service_queue_st (s : state) m now cap fill :
    s_st (sr_s (service_queue s m now cap fill)) = s_st s \/ s_st (sr_s (service_queue s m now cap fill)) = PendingDisconnect.
  Proof.
    unfold Model.service_queue. cbv zeta.
    match goal with |- context [service_loop ?f s m now cap fill [] []] => pose proof (service_loop_st f s m now cap fill [] []) as H;
      destruct (sr_bytes (service_loop f s m now cap fill [] [])) end; exact H.
  Qed.

  Lemma service_keep_alive_st (s s' : state) now : service_keep_alive cfg s now = Ok s' -> s_st s' = s_st s.
  Proof.
    unfold service_keep_alive. destruct (s_ping_to s) as [pt|]; [destruct (pt <=? now); [discriminate|intros H; inversion H; reflexivity]|].
    destruct (s_next_ping s) as [np|]; [|intros H; inversion H; reflexivity].
    destruct (np <=? now); [|intros H; inversion H; reflexivity].
    unfold create_operation. cbn. destruct (s_settings s) as [st|]; [|discriminate].
    unfold add_time. destruct (IMAX <? _); cbn; [discriminate|].
    destruct (0 <? st_server_keep_alive st); intros H; inversion H; reflexivity.
  Qed.

  Lemma process_ack_timeouts_ST (s : state) now : ST s (r_s (process_ack_timeouts cfg s now)).
  Proof. unfold process_ack_timeouts. eapply ST_trans; [|apply fail_all_ST]. st_id. Qed.

  Lemma halt_on_error_st (s : state) r : s_st (halt_on_error s r) = s_st s \/ s_st (halt_on_error s r) = Halted.
  Proof. destruct r; cbn; auto. Qed.

  (* ---- the table ---- *)
  Definition st_step (st : pstate) (e : event) (st' : pstate) : Prop :=
    match e with
    | EvOpen _ _ => st' = (match st with Disconnected => PendingConnack | _ => Halted end)
    | EvClose _ => st' = (match st with Disconnected => Halted | _ => Disconnected end)
    | EvNextService _ => st' = st
    | EvReset _ => st' = (match st with Disconnected => Disconnected | _ => Halted end)
    | EvUser _ _ _ => st' = st \/ (st = PendingDisconnect /\ st' = Halted)
    | EvData _ _ =>
        match st with
        | Disconnected | Halted => st' = Halted
        | PendingConnack => st' = PendingConnack \/ st' = Connected \/ st' = Halted
        | _ => st' = st \/ st' = Halted
        end
    | EvWriteComplete _ =>
        match st with
        | Disconnected | Halted => st' = Halted
        | _ => st' = st \/ st' = Halted
        end
    | EvService _ _ _ =>
        match st with
        | Disconnected => st' = Disconnected
        | Halted => st' = Halted
        | Connected => st' = Connected \/ st' = PendingDisconnect \/ st' = Halted
        | PendingConnack => st' = PendingConnack \/ st' = PendingDisconnect \/ st' = Halted
        | PendingDisconnect => st' = PendingDisconnect \/ st' = Halted
        end
    end.

  Theorem service_st (s : state) now cap fill : st_step (s_st s) (EvService now cap fill) (s_st (sr_s (service s now cap fill))).
  Proof.
    unfold Model.service. cbv zeta. cbn [sr_s st_step].
    match goal with |- context [halt_on_error ?a ?b] => pose proof (halt_on_error_st a b) as Hh; revert Hh end.
    destruct (s_st s) eqn:Est.
    - cbn. rewrite Est. tauto.
    - destruct (s_connack_to s) as [t|]; [|cbn; rewrite Est; tauto]. destruct (t <=? now); [cbn; rewrite Est; tauto|].
      pose proof (service_queue_st s false now cap fill) as Hq. rewrite Est in Hq. intros [Hh|Hh]; rewrite Hh; tauto.
    - destruct (service_keep_alive cfg s now) as [s1|k|site] eqn:Ek; [|cbn; rewrite Est; tauto|cbn; rewrite Est; tauto].
      apply service_keep_alive_st in Ek. pose proof (service_queue_st s1 true now cap fill) as Hq. rewrite Ek, Est in Hq.
      destruct (sr_out (service_queue s1 true now cap fill)); cbn [sr_s sr_out]; [|intros [Hh|Hh]; rewrite Hh; tauto|intros [Hh|Hh]; rewrite Hh; tauto].
      pose proof (process_ack_timeouts_ST (sr_s (service_queue s1 true now cap fill)) now) as [Ht|[Ht Ht']];
        intros [Hh|Hh]; rewrite Hh; try tauto; rewrite ?Ht, ?Ht'; tauto.
    - cbn [sr_s sr_out]. pose proof (process_ack_timeouts_ST s now) as [Ht|[Ht Ht']];
        intros [Hh|Hh]; rewrite Hh; try tauto; rewrite ?Ht, ?Ht', ?Est; tauto.
    - cbn. rewrite Est. tauto.
  Qed.

  (* ---- session handling and the packet handlers ---- *)
  Lemma unbind_st (s : state) id : s_st (unbind s id) = s_st s.
  Proof.
    unfold unbind. destruct (lookup id (s_ops s)) as [o|]; [|reflexivity].
    destruct (op_pid o) as [pid|]; [|reflexivity]. destruct (with_pid 0 (op_packet o)); reflexivity.
  Qed.

  Lemma fold_unbind_st ids : forall s : state, s_st (fold_left unbind ids s) = s_st s.
  Proof. induction ids as [|a r IH]; intros s; cbn [fold_left]; [reflexivity|]. rewrite IH. apply unbind_st. Qed.

  Lemma apply_session_ST (s : state) sp : ST s (r_s (apply_session cfg s sp)).
  Proof.
    unfold apply_session.
    set (r1 := if sp then _ else _).
    assert (H1 : ST s (r_s r1)).
    { unfold r1. destruct sp; [st_id|].
      destruct (partition_policy cfg s (s_rq s)) as [kept rejected].
      match goal with |- context [fail_all cfg ?sx rejected ?e] => pose proof (fail_all_ST rejected sx e) as Hf;
        set (rf := fail_all cfg sx rejected e) in Hf |- * end.
      assert (Hq : ST s (r_s rf)) by (eapply ST_trans; [|exact Hf]; st_id).
      destruct (is_panic (r_out rf)); [exact Hq|]. cbn [r_s]. eapply ST_trans; [exact Hq|st_id]. }
    clearbody r1. destruct (is_panic (r_out r1)); [exact H1|].
    set (s2 := fold_left unbind (s_uq (r_s r1)) (r_s r1)).
    assert (H2 : ST s s2) by (eapply ST_trans; [exact H1|apply ST_eq; apply fold_unbind_st]).
    set (s3 := s2 <| s_rq := sort (s_rq s2) |> <| s_uq := sort (s_uq s2) |>).
    assert (H3 : ST s s3) by exact H2.
    cbv zeta.
    repeat match goal with |- context [if ?b then _ else _] => destruct b end; cbn [r_s]; exact H3.
  Qed.

  (* what a packet handler may do to the protocol state *)
  Definition HT (s s' : state) : Prop := ST s s' \/ (s_st s = PendingConnack /\ s_st s' = Connected).

  Lemma HT_refl s : HT s s.
  Proof. left. apply ST_refl. Qed.

  Lemma ST_connected (s s' : state) : ST s s' -> s_st s' = Connected -> s_st s = Connected.
  Proof. intros [H|[_ H]] E; congruence. Qed.

  (* the engine becomes Connected only by accepting a successful CONNACK while one is awaited *)
  Definition via_connack (s : state) (ev : list packet) : Prop :=
    s_st s = PendingConnack /\ exists c, In (Connack c) ev /\ ca_rc c = 0.

  Lemma handle_connack_HT (s : state) now c :
    HT s (h_s (handle_connack s now c)) /\
    (h_out (handle_connack s now c) = Ok tt -> s_st (h_s (handle_connack s now c)) = Connected -> s_st s <> Connected ->
     via_connack s (h_ev (handle_connack s now c))).
  Proof.
    unfold Model.handle_connack. destruct (negb (pstate_eqb (s_st s) PendingConnack)) eqn:E1; [split; [apply HT_refl|cbn; congruence]|].
    assert (Hpc : s_st s = PendingConnack) by (destruct (s_st s); cbn in E1; congruence).
    destruct (negb (ca_rc c =? 0)) eqn:E2; [split; [apply HT_refl|cbn; congruence]|].
    destruct (v_in None (Connack c)); [|split; [apply HT_refl|cbn; congruence]|split; [apply HT_refl|cbn; congruence]].
    cbv zeta.
    match goal with |- context [apply_session cfg ?sx ?sp] => pose proof (apply_session_ST sx sp) as Ha; set (r := apply_session cfg sx sp) in Ha |- *;
      assert (Hx : s_st sx = Connected) by (destruct (cf_drain_one cfg); reflexivity) end.
    assert (H : s_st (r_s r) = Connected) by (destruct Ha as [Ha|[Ha _]]; congruence).
    destruct (r_out r) as [[]|k|site]; cbn [h_s h_ev h_out]; (split; [right; split; assumption|]); intros Ho _ _; try discriminate.
    split; [exact Hpc|]. exists c. split; [left; reflexivity|]. destruct (ca_rc c =? 0) eqn:E; [apply N.eqb_eq in E; exact E|discriminate].
  Qed.

  Lemma hres_of_ST (s : state) (r : res) ev : ST s (r_s r) -> ST s (h_s (hres_of r ev)).
  Proof. intros H. exact H. Qed.

  Lemma handle_packet_HT (s : state) now p :
    HT s (h_s (handle_packet s now p)) /\
    (h_out (handle_packet s now p) = Ok tt -> s_st (h_s (handle_packet s now p)) = Connected -> s_st s <> Connected ->
     via_connack s (h_ev (handle_packet s now p))).
  Proof.
    assert (Hgen : forall h : hres enc dec ores ires, ST s (h_s h) ->
              HT s (h_s h) /\ (h_out h = Ok tt -> s_st (h_s h) = Connected -> s_st s <> Connected -> via_connack s (h_ev h))).
    { intros h Hst. split; [left; exact Hst|]. intros _ Hc Hn. exfalso. apply Hn. eapply ST_connected; eauto. }
    destruct p as [c|c|p|a|a|a|a|sb|s0|un|u| | |d|au]; cbn [Model.handle_packet]; try (apply Hgen; st_id).
    - apply handle_connack_HT.
    - apply Hgen. unfold handle_publish. destruct (pre_connack s); [st_id|]. destruct (pub_qos p =? 0); [st_id|].
      destruct (pub_qos p =? 1); unfold create_operation; cbn; [st_id|]. destruct (mem (pub_pid p) (s_q2in s)); st_id.
    - apply Hgen. unfold handle_puback. destruct (pre_connack s); [st_id|]. destruct (lookup (ack_pid a) (s_ppub s)) as [id|]; [|st_id].
      destruct (publish_qos_of s id) as [[|q]|]; try st_id. destruct q; try st_id. apply hres_of_ST, succeed_op_ST.
    - apply Hgen. unfold handle_pubrec. destruct (pre_connack s); [st_id|]. destruct (lookup (ack_pid a) (s_ppub s)) as [id|]; [|st_id].
      destruct (lookup id (s_ops s)) as [o|]; [|st_id]. destruct (op_packet o); try st_id.
      destruct (pub_qos p =? 2); [|st_id]. destruct (128 <=? ack_rc a); [apply hres_of_ST, succeed_op_ST|st_id].
    - apply Hgen. unfold handle_pubrel. destruct (pre_connack s); [st_id|]. unfold create_operation. cbn. st_id.
    - apply Hgen. unfold handle_pubcomp. destruct (pre_connack s); [st_id|]. destruct (lookup (ack_pid a) (s_ppub s)) as [id|]; [|st_id].
      destruct (lookup id (s_ops s)) as [o|]; [|st_id]. destruct (op_packet o); try st_id.
      destruct (pub_qos p =? 2); [|st_id]. destruct (op_pubrel o); [|st_id]. apply hres_of_ST, succeed_op_ST.
    - apply Hgen. unfold handle_suback. destruct (pre_connack s); [st_id|]. destruct (lookup (sa_pid s0) (s_pnon s)) as [id|]; [|st_id].
      destruct (lookup id (s_ops s)) as [o|]; [|st_id]. destruct (op_packet o); try st_id.
      destruct (negb _); [st_id|]. apply hres_of_ST, succeed_op_ST.
    - apply Hgen. unfold handle_unsuback. destruct (pre_connack s); [st_id|]. destruct (lookup (ua_pid u) (s_pnon s)) as [id|]; [|st_id].
      destruct (lookup id (s_ops s)) as [o|]; [|st_id]. destruct (op_packet o); try st_id.
      destruct (version_eqb _ _); [apply hres_of_ST, succeed_op_ST|]. destruct (negb _); [st_id|]. apply hres_of_ST, succeed_op_ST.
    - apply Hgen. unfold handle_pingresp. destruct (s_st s); try st_id; destruct (s_ping_to s); st_id.
    - apply Hgen. unfold handle_disconnect. destruct (pre_connack s); [st_id|]. destruct (version_eqb _ _); st_id.
  Qed.

  Lemma handle_packets_ev_mono now : forall ps (s : state) dn ev x, In x ev -> In x (h_ev (handle_packets s now ps dn ev)).
  Proof.
    induction ps as [|p rest IH]; intros s dn ev x Hx; cbn [Model.handle_packets]; [exact Hx|].
    destruct (match p with Publish pb => _ | _ => _ end) as [[s1 p1]|k|site]; [|exact Hx|exact Hx].
    destruct (v_in (s_settings s1) p1); [|exact Hx|exact Hx].
    destruct (h_out (handle_packet s1 now p1)); cbn [h_ev]; try (apply in_or_app; left; exact Hx).
    apply IH. apply in_or_app. left. exact Hx.
  Qed.

  (* closure of HT with halting *)
  Definition DT (s s' : state) : Prop :=
    s_st s' = s_st s \/ s_st s' = Halted \/ (s_st s = PendingConnack /\ s_st s' = Connected).

  Lemma DT_trans s1 s2 s3 : DT s1 s2 -> DT s2 s3 -> DT s1 s3.
  Proof.
    unfold DT. intros [A|[A|[A A']]] [B|[B|[B B']]]; try (left; congruence); try (right; left; congruence);
      try (right; right; split; congruence).
  Qed.
  Lemma HT_DT s s' : HT s s' -> DT s s'.
  Proof. unfold HT, ST, DT. intros [[H|[_ H]]|H]; auto. Qed.

  Lemma handle_packets_DT now : forall ps (s : state) dn ev,
    DT s (h_s (handle_packets s now ps dn ev)) /\
    (h_out (handle_packets s now ps dn ev) = Ok tt -> s_st (h_s (handle_packets s now ps dn ev)) = Connected ->
     s_st s <> Connected -> via_connack s (h_ev (handle_packets s now ps dn ev))).
  Proof.
    induction ps as [|p rest IH]; intros s dn ev; cbn [Model.handle_packets].
    { cbn. split; [left; reflexivity|]. intros _ A B. contradiction. }
    assert (Hres : forall x : outcome (state * packet),
              x = match p with
                  | Publish pb => do (i', t) <- ires_resolve (s_ires s) (pub_alias pb) (pub_topic pb) ;
                                  Ok (s <| s_ires := i' |>, Publish (with_topic pb t))
                  | _ => Ok (s, p) end ->
              match x with Ok (s1, _) => s_st s1 = s_st s | _ => True end).
    { intros x ->. destruct p; try reflexivity. destruct (ires_resolve _ _ _) as [[i' t]| |]; cbn; try exact I. reflexivity. }
    specialize (Hres _ eq_refl).
    destruct (match p with Publish pb => _ | _ => _ end) as [[s1 p1]|k|site];
      [|cbn; split; [left; reflexivity|intros; discriminate]|cbn; split; [left; reflexivity|intros; discriminate]].
    destruct (v_in (s_settings s1) p1); [|cbn; split; [right; left; reflexivity|intros; discriminate]|cbn; split; [left; exact Hres|intros; discriminate]].
    destruct (handle_packet_HT s1 now p1) as [Hh Hc].
    assert (Hh' : DT s (h_s (handle_packet s1 now p1))).
    { apply HT_DT in Hh. unfold DT in Hh |- *. rewrite Hres in Hh. exact Hh. }
    destruct (h_out (handle_packet s1 now p1)) as [[]|k|site] eqn:Eo; cbn [h_s h_ev h_out];
      [|split; [right; left; reflexivity|intros; discriminate]|split; [exact Hh'|intros; discriminate]].
    destruct (IH (h_s (handle_packet s1 now p1)) (dn ++ h_done (handle_packet s1 now p1)) (ev ++ h_ev (handle_packet s1 now p1))) as [I1 I2].
    split; [eapply DT_trans; eauto|]. intros Ho Hconn Hn.
    destruct (pstate_eqb (s_st (h_s (handle_packet s1 now p1))) Connected) eqn:Ec.
    - assert (Ec' : s_st (h_s (handle_packet s1 now p1)) = Connected) by (destruct (s_st (h_s (handle_packet s1 now p1))); cbn in Ec; congruence).
      rewrite <- Hres in Hn. destruct (Hc eq_refl Ec' Hn) as (V1 & c & V2 & V3). split; [congruence|].
      exists c. split; [|exact V3]. apply handle_packets_ev_mono. apply in_or_app. right. exact V2.
    - assert (Ec' : s_st (h_s (handle_packet s1 now p1)) <> Connected) by (intros E; rewrite E in Ec; discriminate).
      destruct (I2 Ho Hconn Ec') as (V1 & V2). split; [|exact V2].
      destruct Hh' as [A|[A|[A _]]]; congruence.
  Qed.

  Theorem net_data_st (s : state) now data :
    let h := net_data s now data in
    st_step (s_st s) (EvData now data) (s_st (halt_on_error (h_s h) (h_out h))) /\
    (s_st (halt_on_error (h_s h) (h_out h)) = Connected -> s_st s <> Connected ->
     via_connack s (h_ev h) /\ connect_in_queue s = false).
  Proof.
    cbv zeta. unfold Model.net_data.
    destruct (pstate_eqb (s_st s) Disconnected || pstate_eqb (s_st s) Halted) eqn:E1.
    { cbn. split; [destruct (s_st s); cbn in E1; cbn; try discriminate; auto|intros; discriminate]. }
    destruct (pstate_eqb (s_st s) PendingConnack && connect_in_queue s) eqn:E2.
    { cbn. split; [destruct (s_st s); cbn in E1; cbn; try discriminate; auto|intros; discriminate]. }
    destruct (dec_feed _ _ _ _) as [[d' ps] r]. destruct r as [u|k|site].
    - destruct (handle_packets_DT now ps (s <| s_dec := d' |>) [] []) as [D1 D2].
      set (h := handle_packets (s <| s_dec := d' |>) now ps [] []) in D1, D2 |- *. change (s_st (s <| s_dec := d' |>)) with (s_st s) in D1, D2 |- *.
      split.
      + destruct (h_out h); cbn [halt_on_error st_step]; [|destruct (s_st s); cbn in E1; cbn; try discriminate; auto..].
        unfold DT in D1. change (s_st (s <| s_dec := d' |>)) with (s_st s) in D1. destruct (s_st s) eqn:Es; cbn in E1; try discriminate; cbn; intuition congruence.
      + intros Hc Hn. destruct (h_out h) as [[]|k|site] eqn:Eo; cbn [halt_on_error] in Hc; try discriminate.
        split; [exact (D2 eq_refl Hc Hn)|]. destruct (D2 eq_refl Hc Hn) as (V1 & _).
        assert (V1' : s_st s = PendingConnack) by exact V1. rewrite V1' in E2. exact E2.
    - cbn. split; [destruct (s_st s); cbn in E1; cbn; try discriminate; auto|intros; discriminate].
    - cbn. split; [destruct (s_st s); cbn in E1; cbn; try discriminate; auto|intros; discriminate].
  Qed.

  (* ---- write completion, opening, reset ---- *)
  Theorem net_write_completion_st (s : state) :
    let r := net_write_completion cfg s in
    st_step (s_st s) (EvWriteComplete 0) (s_st (halt_on_error (r_s r) (r_out r))).
  Proof.
    cbv zeta. unfold net_write_completion.
    destruct (pstate_eqb (s_st s) Halted || pstate_eqb (s_st s) Disconnected) eqn:E1.
    { cbn. destruct (s_st s); cbn in E1; cbn; try discriminate; auto. }
    destruct (negb (s_pwc s)).
    { cbn. destruct (s_st s); cbn in E1; cbn; try discriminate; auto. }
    match goal with |- context [succeed_all cfg ?sx ?ids] => pose proof (succeed_all_ST ids sx) as Hs; set (r := succeed_all cfg sx ids) in Hs |- * end.
    unfold ST in Hs. change (s_st (s <| s_pwc := false |> <| s_pwco := [] |>)) with (s_st s) in Hs.
    pose proof (halt_on_error_st (r_s r) (r_out r)) as [Hh|Hh]; rewrite Hh; cbn [st_step];
      destruct (s_st s) eqn:Es; cbn in E1; try discriminate; auto; destruct Hs as [Hs|[Hs Hs']]; try congruence; auto.
  Qed.

  Theorem net_opened_st (s : state) dl :
    let r := net_opened dec_init cfg s dl in
    s_st (halt_on_error (r_s r) (r_out r)) = (match s_st s with Disconnected => PendingConnack | _ => Halted end).
  Proof. cbv zeta. unfold net_opened. destruct (s_st s); cbn; reflexivity. Qed.

  Theorem reset_st (s : state) :
    s_st (r_s (reset cfg s)) = (match s_st s with Disconnected => Disconnected | _ => Halted end).
  Proof.
    unfold reset.
    set (s0 := if pstate_eqb (s_st s) Disconnected then s else s <| s_st := Halted |>).
    set (st0 := match s_st s with Disconnected => Disconnected | _ => Halted end).
    assert (H0 : s_st s0 = st0) by (unfold s0, st0; destruct (s_st s) eqn:E; cbn; rewrite ?E; reflexivity).
    assert (Hn : st0 <> PendingDisconnect) by (unfold st0; destruct (s_st s); discriminate).
    assert (Hf : forall ids (acc : res), s_st (r_s acc) = st0 ->
              s_st (r_s (fold_left (fun (acc : res) (id : N) =>
                          if is_panic (r_out acc) then acc else
                          let r1 := fail_op cfg (r_s acc) id EClientClosed in
                          mkRes (r_s r1) (r_done acc ++ r_done r1) (if is_panic (r_out r1) then r_out r1 else Ok tt)) ids acc)) = st0).
    { induction ids as [|a r IH]; intros acc Ha; cbn [fold_left]; [exact Ha|]. apply IH.
      destruct (is_panic (r_out acc)); [exact Ha|]. cbn [r_s]. destruct (fail_op_ST (r_s acc) a EClientClosed) as [H|[H _]]; congruence. }
    specialize (Hf (map fst (s_ops s0)) (pure s0) H0). cbv zeta.
    destruct (is_panic _); [exact Hf|]. cbn. exact Hf.
  Qed.
End St.
