(* C04, connection close, continued: which completions the close fires (every state, no sampling).
   close_failures: every completion fired by net_closed is an ERROR delivered to a user operation of the
   old state, and it is ConnectionClosed, or OfflineQueuePolicyFailed for a packet the policy table
   rejects, or MaxInterruptedRetriesExceeded when a retry limit is configured.  In particular the close
   never reports a SUCCESS: an unacknowledged QoS 1/2 publish is either kept for retransmission
   (close_requeues) or failed with one of these three errors. *)
From GM Require Import Base.Prelude Base.Outcome Codec.Packets Codec.Settings Engine.Model
  EngineProofs.AssocLemmas EngineProofs.WFLemmas EngineProofs.SvcTimeout EngineProofs.DeliveryBase EngineProofs.DeliveryClose.
From RecordUpdate Require Import RecordSet.
Import RecordSetNotations.
Open Scope N_scope.

Section Close2.
  Variable enc : Type.
  Variable dec : Type.
  Variable ores : Type.
  Variable ires : Type.
  Variable cfg : config.
  Notation state := (Model.state enc dec ores ires).
  Notation res := (Model.res enc dec ores ires).
  Notation fail_op := (Model.fail_op enc dec ores ires cfg).
  Notation fail_all := (Model.fail_all enc dec ores ires cfg).
  Notation andthen := (Model.andthen enc dec ores ires).
  Notation try_ := (Model.try_ enc dec ores ires).
  Notation pure := (Model.pure enc dec ores ires).
  Notation closed_current := (Model.closed_current enc dec ores ires cfg).
  Notation fail_exceeding := (Model.fail_exceeding enc dec ores ires cfg).
  Notation partition_policy := (Model.partition_policy enc dec ores ires cfg).
  Notation net_closed_raw := (Model.net_closed_raw enc dec ores ires cfg).
  Notation net_closed := (Model.net_closed enc dec ores ires cfg).
  Notation gop := (DeliveryBase.gop enc dec ores ires).
  Notation pre := (DeliveryBase.pre enc dec ores ires).
  Notation close_tail := (DeliveryClose.close_tail enc dec ores ires cfg).
  Notation close_mid := (DeliveryClose.close_mid enc dec ores ires cfg).
  Notation close_head := (DeliveryClose.close_head enc dec ores ires cfg).
  Notation closing := (DeliveryClose.closing enc dec ores ires).

  Definition fail_kind (o : op) (c : completion) : Prop :=
    c = CompErr EConnectionClosed \/
    (c = CompErr EOfflineQueuePolicyFailed /\ passes_policy (cf_policy cfg) (op_packet o) = false) \/
    (c = CompErr EMaxInterruptedRetriesExceeded /\ cf_retry cfg <> None).
  Definition dones_ok (s : state) (d : dones) : Prop :=
    forall i c, In (i, c) d -> exists o, gop s i = Some o /\ op_user o = true /\ fail_kind o c.

  Lemma dones_ok_pre (s0 s : state) d : pre s0 s -> dones_ok s d -> dones_ok s0 d.
  Proof.
    intros P H i c Hin. destruct (H i c Hin) as (o' & Ho' & Hu & Hk).
    destruct (pr_ops _ _ _ _ _ _ P _ _ Ho') as (o & Ho & Hpk & _ & _ & Hus & _). exists o. split; [exact Ho|].
    split; [congruence|]. unfold fail_kind in *. rewrite <- Hpk. exact Hk.
  Qed.

  Lemma dones_ok_app (s : state) d1 d2 : dones_ok s d1 -> dones_ok s d2 -> dones_ok s (d1 ++ d2).
  Proof. intros H1 H2 i c Hin. apply in_app_or in Hin. destruct Hin; auto. Qed.

  Lemma dones_ok_ops (s s' : state) d : s_ops s' = s_ops s -> dones_ok s' d -> dones_ok s d.
  Proof. intros E H i c Hin. destruct (H i c Hin) as (o & Ho & R). exists o. unfold DeliveryBase.gop in *. rewrite <- E. auto. Qed.

  Lemma fail_op_sound (s : state) id e i c : In (i, c) (r_done (fail_op s id e)) ->
    i = id /\ c = CompErr e /\ exists o, gop s id = Some o /\ op_user o = true.
  Proof.
    intros H. assert (H' : In (i, c) (r_done (fail_all s [id] e))).
    { cbn [Model.fail_all]. destruct (is_panic (r_out (fail_op s id e))); [exact H|]. cbn. rewrite app_nil_r. exact H. }
    destruct (fail_all_sound enc dec ores ires cfg _ _ _ _ _ H') as (-> & [<-|[]] & Ho). auto.
  Qed.

  (* failures whose error is not the policy error *)
  Lemma fail_all_dones_cc (s : state) ids : dones_ok s (r_done (fail_all s ids EConnectionClosed)).
  Proof.
    intros i c Hin. destruct (fail_all_sound enc dec ores ires cfg _ _ _ _ _ Hin) as (-> & _ & o & Ho & Hu).
    exists o. split; [exact Ho|]. split; [exact Hu|]. left. reflexivity.
  Qed.

  (* failures of the operations that partition_policy rejects *)
  Lemma fail_all_dones_policy (s s' : state) q :
    s_ops s' = s_ops s ->
    dones_ok s (r_done (fail_all s' (snd (partition_policy s q)) EOfflineQueuePolicyFailed)).
  Proof.
    intros E i c Hin. destruct (fail_all_sound enc dec ores ires cfg _ _ _ _ _ Hin) as (-> & Hi & o & Ho & Hu).
    rewrite E in Ho. exists o. split; [exact Ho|]. split; [exact Hu|]. right; left. split; [reflexivity|].
    unfold Model.partition_policy in Hi. cbn [snd] in Hi. apply filter_In in Hi. destruct Hi as [_ Hp].
    unfold Model.op_passes in Hp. rewrite Ho in Hp. destruct (passes_policy _ _); [discriminate|reflexivity].
  Qed.

  Lemma fail_exceeding_dones (s : state) : dones_ok s (r_done (fail_exceeding s)).
  Proof.
    intros i c Hin. destruct (fail_exceeding_sound enc dec ores ires cfg _ _ _ Hin) as (limit & Hl & -> & _ & o & Ho & Hu & _).
    exists o. split; [exact Ho|]. split; [exact Hu|]. right; right. split; [reflexivity|congruence].
  Qed.

  Lemma andthen_pure_done (r : res) (g : state -> state) i c :
    In (i, c) (r_done (andthen r (fun s => pure (g s)))) -> In (i, c) (r_done r).
  Proof.
    unfold Model.andthen. destruct (is_panic (r_out r)); [exact (fun H => H)|]. cbn. rewrite app_nil_r. exact (fun H => H).
  Qed.

  Lemma close_tail_dones (s8 : state) : dones_ok s8 (r_done (close_tail s8)).
  Proof.
    unfold DeliveryClose.close_tail. cbv zeta.
    match goal with |- context [partition_policy ?s10 _] => set (s10v := s10) end.
    set (s11 := s10v <| s_uq := [] |>).
    pose proof (fail_all_dones_policy s10v s11 (s_uq s10v) eq_refl) as H.
    destruct (partition_policy s10v (s_uq s10v)) as [kept_u rejected_u]. cbn [snd] in H.
    intros i c Hin. apply andthen_pure_done in Hin. destruct (H i c Hin) as (o10 & Ho10 & Hu & Hk).
    unfold DeliveryBase.gop in Ho10. cbn in Ho10.
    destruct (lookup_upd_all (set_dup true) (map snd (s_ppub s8)) (s_ops s8) i) as (n & Hn & _).
    unfold upd_all in Hn. rewrite Hn in Ho10. unfold DeliveryBase.gop.
    destruct (lookup i (s_ops s8)) as [o|]; [|discriminate]. inversion Ho10; subst. exists o. split; [reflexivity|].
    destruct (iter_set_dup true n o) as [(_ & _ & Hus & _) M2]. split; [congruence|].
    unfold fail_kind in *. rewrite M2 in Hk. destruct n; [exact Hk|]. rewrite with_dup_policy in Hk. exact Hk.
  Qed.

  Lemma close_mid_dones (s5 : state) : is_panic (r_out (close_mid s5)) = false -> dones_ok s5 (r_done (close_mid s5)).
  Proof.
    intros H. destruct (close_mid_reaches enc dec ores ires cfg s5 H) as (s6 & s7 & s8 & rej & (R1 & _ & _ & R4 & _) & E6 & -> & P7 & E7 & _).
    rewrite R4. apply dones_ok_app; [apply dones_ok_app|].
    - apply fail_all_dones_policy. exact E6.
    - eapply dones_ok_pre; [exact P7|apply fail_exceeding_dones].
    - eapply dones_ok_pre; [exact R1|apply close_tail_dones].
  Qed.

  Lemma close_head_dones (s3 : state) : is_panic (r_out (close_head s3)) = false -> dones_ok s3 (r_done (close_head s3)).
  Proof.
    intros H. destruct (close_head_reaches enc dec ores ires cfg s3 H) as (s5 & s8 & d & (_ & _ & _ & R4 & _) & P5 & (_ & _ & _ & M4 & _) & Hp5 & _).
    rewrite R4, <- app_assoc, <- M4. apply dones_ok_app.
    - set (s4 := s3 <| s_hq := [] |>). eapply (dones_ok_ops s3 s4); [reflexivity|apply fail_all_dones_cc].
    - eapply dones_ok_pre; [exact P5|]. apply close_mid_dones. exact Hp5.
  Qed.

  Lemma closed_current_dones (s : state) : dones_ok s (r_done (closed_current s)).
  Proof.
    unfold Model.closed_current. destruct (s_cur s) as [id|]; [|intros i c []].
    destruct (lookup id (s_ops s)) as [o|] eqn:El; [|intros i c []].
    assert (Hf : forall e (r : res), r_done r = r_done (fail_op s id e) -> fail_kind o (CompErr e) ->
              dones_ok s (r_done (try_ r (fun s' => pure (s' <| s_cur := None |>))))).
    { intros e r Er Hk i c Hin. assert (Hin' : In (i, c) (r_done (fail_op s id e))).
      { rewrite <- Er. unfold Model.try_ in Hin. destruct (r_out r); [cbn in Hin; rewrite app_nil_r in Hin|..]; exact Hin. }
      destruct (fail_op_sound _ _ _ _ _ Hin') as (-> & -> & o' & Ho' & Hu). exists o'. split; [exact Ho'|]. split; [exact Hu|].
      unfold DeliveryBase.gop in Ho'. replace o' with o by congruence. exact Hk. }
    assert (Hq : forall s1 : state, dones_ok s (r_done (try_ (pure s1) (fun s' => pure (s' <| s_cur := None |>))))).
    { intros s1 i c []. }
    destruct (op_packet o) eqn:Ep;
      repeat match goal with
             | |- context [if ?b then _ else _] => destruct b eqn:?
             | |- context [match lookup ?k ?l with _ => _ end] => destruct (lookup k l)
             end; try apply Hq;
      try (apply (Hf EOfflineQueuePolicyFailed); [reflexivity|right; left; split; [reflexivity|rewrite Ep; assumption]]);
      try (apply (Hf EConnectionClosed); [reflexivity|left; reflexivity]).
  Qed.

  Theorem close_failures (s : state) :
    s_st s <> Disconnected -> is_panic (r_out (net_closed s)) = false ->
    forall i c, In (i, c) (r_done (net_closed s)) ->
      exists o, gop s i = Some o /\ op_user o = true /\ fail_kind o c.
  Proof.
    intros Hst Hp. destruct (net_closed_raw_s enc dec ores ires cfg s) as (_ & -> & Ep). rewrite Ep in Hp.
    destruct (net_closed_raw_reaches enc dec ores ires cfg s Hst Hp) as (s1 & s3 & s8 & d & _ & _ & _ & _ & _ & P3 & Hp3 & -> & _).
    apply dones_ok_app.
    - eapply (dones_ok_ops s (closing s)); [reflexivity|apply closed_current_dones].
    - eapply dones_ok_pre; [exact P3|apply close_head_dones; exact Hp3].
  Qed.
End Close2.
