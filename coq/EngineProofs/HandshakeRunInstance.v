(* The run-level C07 theorems for the CONCRETE engine of Engine/Instance.v (i_init / i_step / i_run, the
   functions the correspondence check executes): the component hypotheses are discharged by
   WFInstance.instance_comps_ok, so the only hypotheses left are ok_cfg (finite ping timeout), ok_event
   (service times below 2^62 ms, buffer capacity >= 4) and, where CONNECT operations are counted, user_ok
   (no CONNECT packet submitted as a user operation). *)
From GM Require Import Base.Prelude Base.Outcome Codec.Packets Codec.Settings Codec.Steps Codec.ImplEncode
  Codec.Framing Alias.Outbound Alias.Inbound Validate.Rules Engine.Model Engine.Instance
  EngineProofs.AssocLemmas EngineProofs.WFDefs EngineProofs.WFInstance
  EngineProofs.HandshakeRunTrace EngineProofs.HandshakeRunFrame2 EngineProofs.HandshakeRunClose EngineProofs.HandshakeRunInv
  EngineProofs.HandshakeRun EngineProofs.OrderRunMain EngineProofs.OrderRunSeq EngineProofs.OrderRunStrict EngineProofs.OrderRunWitness.
Open Scope N_scope.

Definition i_places : istate -> list N := places enc decoder ores ires.
Definition i_is_the_connect (cfg : config) : istate -> N -> Prop := is_the_connect enc decoder ores ires cfg.
Definition i_all_along (cfg : config) : (istate -> Prop) -> istate -> list event -> Prop :=
  all_along enc impl_steps encode_call enc_done decoder decoder_init decode_bytes ores ores_reset ores_resolve ires ires_reset ires_resolve
    validate_outbound_internal validate_inbound_internal cfg.

Section Instance.
  Variable cfg : config.
  Hypothesis Hcfg : ok_cfg cfg.
  Variable k : resolver_kind.
  Variable h : list event.
  Hypothesis Hh : Forall ok_event h.

  Let o0 := ores_init k.
  Let i0 := ires_init (match co_tam (cf_connect cfg) with Some m => m | None => 0 end).
  Let s := fst (i_run cfg (i_init cfg k) h).

  (* ---- C07 ---- *)
  Theorem instance_only_connect_before_connack now cap fill :
    Forall user_ok h -> s_st s = PendingConnack ->
    (i_service_seats cfg s now cap fill = [] \/
     exists c, i_service_seats cfg s now cap fill = [(QH, c)] /\ s_cur s = None /\ s_hq s = [c] /\ i_is_the_connect cfg s c) /\
    (forall c, s_cur s = Some c -> i_is_the_connect cfg s c) /\
    (forall c, s_st (sr_s (i_service cfg s now cap fill)) = PendingConnack -> s_cur (sr_s (i_service cfg s now cap fill)) = Some c ->
               i_is_the_connect cfg (sr_s (i_service cfg s now cap fill)) c) /\
    sr_done (i_service cfg s now cap fill) = [] /\
    (s_st (sr_s (i_service cfg s now cap fill)) = PendingConnack \/ s_st (sr_s (i_service cfg s now cap fill)) = Halted) /\
    (length (i_places s) <= 1)%nat /\
    (forall j oj, lookup j (s_ops s) = Some oj -> is_connect (op_packet oj) = true -> In j (i_places s)).
  Proof.
    intros Hu. exact (only_connect_before_connack _ _ _ enc_done _ _ _ _ _ _ _ _ _ _ _ cfg instance_comps_ok Hcfg o0 i0 h now cap fill I I Hh Hu).
  Qed.

  Theorem instance_no_connect_operation_once_connected :
    Forall user_ok h -> s_st s = Connected \/ s_st s = PendingDisconnect \/ s_st s = Disconnected ->
    forall j oj, lookup j (s_ops s) = Some oj -> is_connect (op_packet oj) = false.
  Proof.
    intros Hu. exact (no_connect_operation_once_connected _ _ _ enc_done _ _ _ _ _ _ _ _ _ _ _ cfg instance_comps_ok Hcfg o0 i0 h I I Hh Hu).
  Qed.

  Theorem instance_connected_only_after_connack :
    s_st s = Connected ->
    exists h1 now data h2, h = h1 ++ EvData now data :: h2 /\
      let s1 := fst (i_run cfg (i_init cfg k) h1) in
      s_st s1 = PendingConnack /\ connect_in_queue enc decoder ores ires s1 = false /\
      o_res (snd (i_step cfg s1 (EvData now data))) = Ok tt /\
      (exists c, In (Connack c) (o_events (snd (i_step cfg s1 (EvData now data)))) /\ ca_rc c = 0) /\
      i_all_along cfg (fun x => s_st x = Connected) (fst (i_step cfg s1 (EvData now data))) h2.
  Proof.
    exact (connected_only_after_connack _ _ _ enc_done _ _ _ _ _ _ _ _ _ _ _ cfg instance_comps_ok Hcfg o0 i0 h I I Hh).
  Qed.

  Theorem instance_nothing_after_disconnect h2 :
    Forall ok_event h2 -> Forall not_close h2 -> s_st s = PendingDisconnect \/ s_st s = Halted ->
    (s_st (fst (i_run cfg s h2)) = PendingDisconnect \/ s_st (fst (i_run cfg s h2)) = Halted) /\
    forall out, In out (snd (i_run cfg s h2)) -> o_bytes out = [].
  Proof.
    intros H2 Hnc. exact (nothing_after_disconnect _ _ _ enc_done _ _ _ _ _ _ _ _ _ _ _ cfg instance_comps_ok Hcfg o0 i0 h h2 I I Hh H2 Hnc).
  Qed.

End Instance.
