(* The strict run-level C10 theorems of PlaceRunMain.v for the CONCRETE engine of Engine/Instance.v (component
   hypotheses discharged by WFInstance.instance_comps_ok), and witnesses by computation:
   - pw_triple: the double placements the placement invariant allows do occur.  A QoS 2 publish (operation 2) is
     written; the broker sends PUBREC twice; a service call with a full write buffer seats the PUBREL carrier
     without writing a byte: operation 2 is then in the high-priority queue, in the encoder seat and in the
     pending-publish table at the same time;
   - pw_reconnect: the connection closes in that state and a session is resumed: operation 2 is in the
     resubmit queue exactly once, the run ends Connected (the premises of the strict theorems hold) and the
     next service call seats it first. *)
From GM Require Import Base.Prelude Base.Outcome Codec.Packets Codec.Settings Codec.Steps Codec.ImplEncode
  Codec.Framing Alias.Outbound Alias.Inbound Validate.Rules Engine.Model Engine.Instance
  EngineProofs.AssocLemmas EngineProofs.WFDefs EngineProofs.WFInstance
  EngineProofs.HandshakeRunTrace EngineProofs.IdsWitness EngineProofs.OrderRunMain EngineProofs.OrderRunSeq EngineProofs.OrderRunStrict
  EngineProofs.OrderRunStrict2 EngineProofs.OrderRunWitness EngineProofs.OrderRunInstance EngineProofs.PlaceRunMain.
Open Scope N_scope.

Definition i_order_facts_strict : istate -> list seat_ev -> istate -> Prop := order_facts_strict enc decoder ores ires.

Section Instance.
  Variable cfg : config.
  Hypothesis Hcfg : ok_cfg cfg.
  Variable k : resolver_kind.
  Variable h : list event.
  Hypothesis Hh : Forall ok_event h.

  Let o0 := ores_init k.
  Let i0 := ires_init (match co_tam (cf_connect cfg) with Some m => m | None => 0 end).
  Let s := fst (i_run cfg (i_init cfg k) h).

  Theorem instance_queues_duplicate_free : NoDup (s_uq s ++ s_rq s).
  Proof.
    exact (queues_duplicate_free _ _ _ enc_done _ _ _ _ _ _ _ _ _ _ _ cfg instance_comps_ok Hcfg o0 i0 h I I Hh).
  Qed.

  Theorem instance_queues_strictly_sorted :
    s_st s = Connected -> sorted_lt (s_rq s) /\ sorted_lt (s_uq s) /\ NoDup (s_uq s ++ s_rq s).
  Proof.
    exact (queues_strictly_sorted _ _ _ enc_done _ _ _ _ _ _ _ _ _ _ _ cfg instance_comps_ok Hcfg o0 i0 h I I Hh).
  Qed.

  Theorem instance_submission_order_strict now cap fill :
    s_st s = Connected -> i_order_facts_strict s (i_service_seats cfg s now cap fill) (sr_s (i_service cfg s now cap fill)).
  Proof.
    exact (submission_order_strict _ _ _ enc_done _ _ _ _ _ _ _ _ _ _ _ cfg instance_comps_ok Hcfg o0 i0 h now cap fill I I Hh).
  Qed.

  Theorem instance_places_once :
    NoDup (s_uq s ++ s_rq s ++ s_pwco s ++ map snd (s_pnon s) ++ map snd (s_ppub s)) /\
    (forall x, In x (s_hq s) \/ s_cur s = Some x ->
       (In x (map snd (s_ppub s)) /\
        forall op, lookup x (s_ops s) = Some op -> exists pb, op_packet op = Publish pb /\ pub_qos pb = 2 /\ op_pubrel op <> None) \/
       (~ In x (s_uq s ++ s_rq s ++ s_pwco s ++ map snd (s_pnon s) ++ map snd (s_ppub s)) /\
        (lookup x (s_ops s) <> None -> NoDup (filter (N.eqb x) (s_hq s ++ olist (s_cur s)))))).
  Proof.
    exact (places_once _ _ _ enc_done _ _ _ _ _ _ _ _ _ _ _ cfg instance_comps_ok Hcfg o0 i0 h I I Hh).
  Qed.

  Theorem instance_connected_segment_order_strict h2 :
    Forall ok_event h2 -> s_st s = Connected -> i_stays_connected cfg s h2 ->
    sorted_lt (ids_of QU (i_run_seats cfg s h2) ++ s_uq (fst (i_run cfg s h2))) /\ sorted_lt (s_rq s).
  Proof.
    intros H2. exact (connected_segment_order_strict _ _ _ enc_done _ _ _ _ _ _ _ _ _ _ _ cfg instance_comps_ok Hcfg o0 i0 h h2 I I Hh H2).
  Qed.
End Instance.

(* ---- witnesses ---- *)
Definition pw_pubrec2_bytes : bytes := [80; 2; 0; 1; 80; 2; 0; 1].        (* PUBREC packet id 1, twice *)

(* connect, CONNACK, a QoS 2 publish written and flushed, two PUBRECs, a service call whose buffer is full *)
Definition pw_hist1 : list event :=
  x_connect_events x_connack_bytes ++
  [EvUser 1 (x_pub 2) (Some 5000); EvService 1 4096 0; EvWriteComplete 1; EvData 2 pw_pubrec2_bytes; EvService 3 4 4].
Definition pw_s1 : istate := x_state ow_cfg pw_hist1.

Lemma pw_hist1_ok : Forall ok_event pw_hist1.
Proof. unfold pw_hist1, x_connect_events. cbn [app]. repeat constructor; cbn; unfold TMAX; lia. Qed.

Example pw_triple :
  Forall ok_event pw_hist1 /\ s_st pw_s1 = Connected /\
  s_hq pw_s1 = [2] /\ s_cur pw_s1 = Some 2 /\ s_ppub pw_s1 = [(1, 2)] /\ s_uq pw_s1 = [] /\ s_rq pw_s1 = [] /\
  map o_res (x_outs ow_cfg pw_hist1) = repeat (Ok tt) 9.
Proof.
  split; [exact pw_hist1_ok|]. vm_compute. repeat split; reflexivity.
Qed.

(* the connection closes in that state, the client reconnects, the server resumes the session *)
Definition pw_hist2 : list event :=
  pw_hist1 ++ [EvClose 4; EvOpen 5 1000; EvService 5 4096 0; EvWriteComplete 5; EvData 6 ow_connack_sp_bytes].
Definition pw_s2 : istate := x_state ow_cfg pw_hist2.

Lemma pw_hist2_ok : Forall ok_event pw_hist2.
Proof. unfold pw_hist2, pw_hist1, x_connect_events. cbn [app]. repeat constructor; cbn; unfold TMAX; lia. Qed.

Example pw_reconnect :
  Forall ok_event pw_hist2 /\ ok_cfg ow_cfg /\ s_st pw_s2 = Connected /\ s_rq pw_s2 = [2] /\ s_uq pw_s2 = [] /\ s_hq pw_s2 = [] /\
  s_cur pw_s2 = None /\ s_ppub pw_s2 = [] /\ map o_res (x_outs ow_cfg pw_hist2) = repeat (Ok tt) 14 /\
  i_service_seats ow_cfg pw_s2 7 4096 0 = [(QR, 2)].
Proof.
  split; [exact pw_hist2_ok|]. split; [exact ow_cfg_ok|]. vm_compute. repeat split; reflexivity.
Qed.
