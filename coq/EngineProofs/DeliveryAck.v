(* C04, the acknowledgement that ends a QoS 1/2 delivery (protocol.rs handle_puback / handle_pubrec /
   handle_pubcomp, complete_operation_as_success): for EVERY state in which the call does not panic,
   PUBACK(id) for a QoS 1 publish awaiting it, PUBREC(id) with a failure code (>= 128) for a QoS 2 publish,
   and PUBCOMP(id) for a QoS 2 publish whose PUBREC had been received complete EXACTLY that operation with
   EXACTLY that packet, remove it from the operation table, and release its packet id from the allocation
   table and the pending tables; no queue changes.  The ack-timeout heap is NOT cleaned (the code cleans
   it lazily: a due entry of a completed operation fails nothing, see IdsSingle.fail_op_missing). *)
From GM Require Import Base.Prelude Base.Outcome Codec.Packets Codec.Settings Engine.Model
  EngineProofs.AssocLemmas EngineProofs.SvcTimeout EngineProofs.DeliveryBase.
From RecordUpdate Require Import RecordSet.
Import RecordSetNotations.
Open Scope N_scope.

Definition rm {A} (p : option N) (l : list (N * A)) : list (N * A) := match p with Some k => remove k l | None => l end.

Section Ack.
  Variable enc : Type.
  Variable dec : Type.
  Variable ores : Type.
  Variable ires : Type.
  Variable cfg : config.
  Notation state := (Model.state enc dec ores ires).
  Notation release := (Model.release enc dec ores ires cfg).
  Notation ping_extension := (Model.ping_extension enc dec ores ires).
  Notation disconnect_completion := (Model.disconnect_completion enc dec ores ires).
  Notation succeed_op := (Model.succeed_op enc dec ores ires cfg).
  Notation handle_puback := (Model.handle_puback enc dec ores ires cfg).
  Notation handle_pubrec := (Model.handle_pubrec enc dec ores ires cfg).
  Notation handle_pubcomp := (Model.handle_pubcomp enc dec ores ires cfg).
  Notation pre_connack := (Model.pre_connack enc dec ores ires).
  Notation gop := (DeliveryBase.gop enc dec ores ires).

  (* the operation [id] (which was [o]) has left the state and its packet id is free again *)
  Definition released (s : state) (id : N) (o : op) (s' : state) : Prop :=
    s_ops s' = remove id (s_ops s) /\ s_alloc s' = rm (op_pid o) (s_alloc s) /\ s_ppub s' = rm (op_pid o) (s_ppub s) /\
    s_pnon s' = rm (op_pid o) (s_pnon s) /\
    s_uq s' = s_uq s /\ s_rq s' = s_rq s /\ s_hq s' = s_hq s /\ s_cur s' = s_cur s /\ s_pwco s' = s_pwco s /\
    s_tmo s' = s_tmo s /\ s_q2in s' = s_q2in s /\ s_st s' = s_st s.

  Lemma release_exact (s : state) id o s1 : release s id o = Ok s1 -> released s id o s1.
  Proof.
    unfold Model.release, released, rm. destruct (op_pid o); cbn;
      repeat match goal with |- context [if ?b then _ else _] => destruct b end;
      intros H; inversion H; subst; cbn; repeat split; reflexivity.
  Qed.

  Lemma ping_extension_released (s : state) id o0 o s1 : released s id o0 s1 -> released s id o0 (ping_extension s1 o).
  Proof.
    unfold Model.ping_extension.
    destruct (match op_packet o with Subscribe _ | Unsubscribe _ => op_ext o | Publish pb => _ | _ => None end); [|exact (fun H => H)].
    destruct (s_settings s1); [|exact (fun H => H)]. destruct (s_next_ping s1); [|exact (fun H => H)].
    destruct (_ <? _); [|exact (fun H => H)]. unfold released. cbn. exact (fun H => H).
  Qed.

  Lemma succeed_publish (s : state) id o pb (resp : packet) :
    gop s id = Some o -> op_packet o = Publish pb ->
    ((exists a, resp = Puback a) \/ (exists a, resp = Pubrec a) \/ (exists a, resp = Pubcomp a)) ->
    is_panic (r_out (succeed_op s id (Some resp))) = false ->
    let r := succeed_op s id (Some resp) in
    r_out r = Ok tt /\ r_done r = (if op_user o then [(id, CompOk (Some resp))] else []) /\ released s id o (r_s r).
  Proof.
    unfold DeliveryBase.gop, Model.succeed_op. intros -> Hp Hresp.
    destruct (release s id o) as [s1|k|site] eqn:Er; [|exfalso; exact (release_no_err _ _ _ _ _ _ _ _ _ Er)|cbn; discriminate].
    pose proof (ping_extension_released s id o o s1 (release_exact _ _ _ _ Er)) as Hrel.
    unfold Model.disconnect_completion. rewrite Hp. cbn [is_disconnect].
    destruct (op_user o).
    - unfold success_value. rewrite Hp. destruct Hresp as [(a & ->)|[(a & ->)|(a & ->)]]; intros _; cbn; auto.
    - intros _. cbn. auto.
  Qed.

  Definition ack_result (s : state) (id : N) (o : op) (resp : packet) (h : Model.hres enc dec ores ires) : Prop :=
    h_out h = Ok tt /\ h_ev h = [] /\ h_done h = (if op_user o then [(id, CompOk (Some resp))] else []) /\
    released s id o (h_s h).

  Theorem puback_completes (s : state) a id o pb :
    pre_connack s = false -> lookup (ack_pid a) (s_ppub s) = Some id -> gop s id = Some o ->
    op_packet o = Publish pb -> pub_qos pb = 1 -> is_panic (h_out (handle_puback s a)) = false ->
    ack_result s id o (Puback a) (handle_puback s a).
  Proof.
    intros Hc Hl Ho Hp Hq. unfold Model.handle_puback, Model.publish_qos_of. rewrite Hc, Hl.
    unfold DeliveryBase.gop in Ho. rewrite Ho, Hp, Hq. cbn [Model.hres_of h_out h_s h_done h_ev]. intros Hnp.
    destruct (succeed_publish s id o pb (Puback a) Ho Hp (or_introl (ex_intro _ a eq_refl)) Hnp) as (A & B & C).
    unfold ack_result. cbn [h_out h_s h_done h_ev]. auto.
  Qed.

  Theorem pubrec_failure_completes (s : state) a id o pb :
    pre_connack s = false -> lookup (ack_pid a) (s_ppub s) = Some id -> gop s id = Some o ->
    op_packet o = Publish pb -> pub_qos pb = 2 -> 128 <= ack_rc a -> is_panic (h_out (handle_pubrec s a)) = false ->
    ack_result s id o (Pubrec a) (handle_pubrec s a).
  Proof.
    intros Hc Hl Ho Hp Hq Hrc. unfold Model.handle_pubrec. rewrite Hc, Hl.
    unfold DeliveryBase.gop in Ho. rewrite Ho, Hp, Hq. change (2 =? 2) with true. cbv iota.
    assert (E : (128 <=? ack_rc a) = true) by lia. rewrite E. cbn [Model.hres_of h_out h_s h_done h_ev]. intros Hnp.
    destruct (succeed_publish s id o pb (Pubrec a) Ho Hp (or_intror (or_introl (ex_intro _ a eq_refl))) Hnp) as (A & B & C).
    unfold ack_result. cbn [h_out h_s h_done h_ev]. auto.
  Qed.

  Theorem pubcomp_completes (s : state) a id o pb :
    pre_connack s = false -> lookup (ack_pid a) (s_ppub s) = Some id -> gop s id = Some o ->
    op_packet o = Publish pb -> pub_qos pb = 2 -> op_pubrel o <> None -> is_panic (h_out (handle_pubcomp s a)) = false ->
    ack_result s id o (Pubcomp a) (handle_pubcomp s a).
  Proof.
    intros Hc Hl Ho Hp Hq Hpr. unfold Model.handle_pubcomp. rewrite Hc, Hl.
    unfold DeliveryBase.gop in Ho. rewrite Ho, Hp, Hq. change (2 =? 2) with true. cbv iota.
    destruct (op_pubrel o) as [pr|] eqn:Epr; [|congruence]. cbn [Model.hres_of h_out h_s h_done h_ev]. intros Hnp.
    destruct (succeed_publish s id o pb (Pubcomp a) Ho Hp (or_intror (or_intror (ex_intro _ a eq_refl))) Hnp) as (A & B & C).
    unfold ack_result. cbn [h_out h_s h_done h_ev]. auto.
  Qed.

  (* when the bound id is the acknowledged one (it is, in every well-formed state) the id is free afterwards
     and the operation is gone: nothing can retransmit it *)
  Corollary released_frees (s : state) id o s' p :
    released s id o s' -> op_pid o = Some p ->
    gop s' id = None /\ lookup p (s_ppub s') = None /\ lookup p (s_alloc s') = None /\ lookup p (s_pnon s') = None.
  Proof.
    intros (A & B & C & D & _) Hp. unfold DeliveryBase.gop. rewrite A, B, C, D, Hp. cbn [rm].
    repeat split; apply lookup_remove_eq.
  Qed.
End Ack.
