(* C07 (b): a connection close removes every CONNECT operation that sits in the high-priority queue,
   the encoder seat or the written-not-completed list; with "every CONNECT operation is in one of
   these places" (CP) no CONNECT operation survives a close (close_NC). *)
From GM Require Import Base.Prelude Base.Outcome Codec.Packets Codec.Settings Engine.Model
  EngineProofs.AssocLemmas EngineProofs.WFLemmas EngineProofs.WFDefs EngineProofs.WFCore EngineProofs.WFComplete
  EngineProofs.WFClose EngineProofs.WFClose2
  EngineProofs.HandshakeRunTrace EngineProofs.HandshakeRunFrame EngineProofs.HandshakeRunFrame2.
From RecordUpdate Require Import RecordSet.
Import RecordSetNotations.
Open Scope N_scope.
#[local] Set Default Proof Using "Type".

(* the four component types are implicit in the engine functions, locally to this file *)
#[local] Arguments init {enc dec} _ {ores ires} _ _.
#[local] Arguments release {enc dec ores ires} _ _ _ _.
#[local] Arguments disconnect_completion {enc dec ores ires} _ _.
#[local] Arguments fail_op {enc dec ores ires} _ _ _ _.
#[local] Arguments ping_extension {enc dec ores ires} _ _.
#[local] Arguments succeed_op {enc dec ores ires} _ _ _ _.
#[local] Arguments fail_all {enc dec ores ires} _ _ _ _.
#[local] Arguments succeed_all {enc dec ores ires} _ _ _.
#[local] Arguments andthen {enc dec ores ires} _ _.
#[local] Arguments try_ {enc dec ores ires} _ _.
#[local] Arguments pure {enc dec ores ires} _.
#[local] Arguments create_operation {enc dec ores ires} _ _.
#[local] Arguments passes_now {enc dec ores ires} _ _ _.
#[local] Arguments user_event {enc dec ores ires} _ _ _ _.
#[local] Arguments create_connect {enc dec ores ires} _ _.
#[local] Arguments net_opened {enc dec} _ {ores ires} _ _ _.
#[local] Arguments op_exists {enc dec ores ires} _ _.
#[local] Arguments op_passes {enc dec ores ires} _ _ _.
#[local] Arguments partition_policy {enc dec ores ires} _ _ _.
#[local] Arguments closed_current {enc dec ores ires} _ _.
#[local] Arguments slow_start_init {enc dec ores ires} _ _.
#[local] Arguments update_retries {enc dec ores ires} _ _.
#[local] Arguments fail_exceeding {enc dec ores ires} _ _.
#[local] Arguments has_pubrel {enc dec ores ires} _ _.
#[local] Arguments net_closed_raw {enc dec ores ires} _ _.
#[local] Arguments net_closed {enc dec ores ires} _ _.
#[local] Arguments net_write_completion {enc dec ores ires} _ _.
#[local] Arguments acquire_free_pid {enc dec ores ires} _ _.
#[local] Arguments acquire_pid_for {enc dec ores ires} _ _.
#[local] Arguments unbind {enc dec ores ires} _ _.
#[local] Arguments passes_receive_max {enc dec ores ires} _ _.
#[local] Arguments throttled {enc dec ores ires} _ _.
#[local] Arguments has_pending_ack {enc dec ores ires} _.
#[local] Arguments dequeue {enc dec ores ires} _ _ _.
#[local] Arguments fully_written {enc dec ores ires} _ _.
#[local] Arguments service_keep_alive {enc dec ores ires} _ _ _.
#[local] Arguments process_ack_timeouts {enc dec ores ires} _ _ _.
#[local] Arguments halt_on_error {enc dec ores ires} _ _.
#[local] Arguments next_service_time {enc dec ores ires} _ _ _.
#[local] Arguments build_settings {enc dec ores ires} _ _ _.
#[local] Arguments apply_session {enc dec ores ires} _ _ _.
#[local] Arguments hres_of {enc dec ores ires} _ _.
#[local] Arguments pre_connack {enc dec ores ires} _.
#[local] Arguments sum_ss {enc dec ores ires} _.
#[local] Arguments handle_pingresp {enc dec ores ires} _.
#[local] Arguments handle_suback {enc dec ores ires} _ _ _.
#[local] Arguments handle_unsuback {enc dec ores ires} _ _ _.
#[local] Arguments publish_qos_of {enc dec ores ires} _ _.
#[local] Arguments handle_puback {enc dec ores ires} _ _ _.
#[local] Arguments handle_pubrec {enc dec ores ires} _ _ _.
#[local] Arguments handle_pubrel {enc dec ores ires} _ _.
#[local] Arguments handle_pubcomp {enc dec ores ires} _ _ _.
#[local] Arguments handle_publish {enc dec ores ires} _ _.
#[local] Arguments handle_disconnect {enc dec ores ires} _ _ _.
#[local] Arguments is_connect_op {enc dec ores ires} _ _.
#[local] Arguments connect_in_queue {enc dec ores ires} _.
#[local] Arguments reset {enc dec ores ires} _ _.
#[local] Arguments out_of_res {enc dec ores ires} _ _.
#[local] Arguments nst_queue {enc dec ores ires} _ _ _ _.
#[local] Arguments earliest_tmo {enc dec ores ires} _.
#[local] Arguments SeatStop {enc dec ores ires} _.
#[local] Arguments SeatContinue {enc dec ores ires} _ _.
#[local] Arguments SeatEncode {enc dec ores ires} _.


Section Close.
  Variable enc : Type.
  Variable dec : Type.
  Variable ores : Type.
  Variable ires : Type.
  Variable cfg : config.

  Notation state := (state enc dec ores ires).
  Notation res := (res enc dec ores ires).
  Notation KF := (KF enc dec ores ires).
  Notation SUB := (SUB enc dec ores ires).

  Ltac kf_sub := apply SUB_KF.
  Ltac kf_id := first [apply KF_refl | apply KF_ops; reflexivity].

  (* where an operation that is being written, or about to be, sits *)
  Definition places (s : state) : list N := s_hq s ++ olist (s_cur s) ++ s_pwco s.
  (* no CONNECT operation exists *)
  Definition NC (s : state) : Prop := forall i o, getop s i = Some o -> is_connect (op_packet o) = false.
  (* every CONNECT operation is in one of the places *)
  Definition CP (s : state) : Prop := forall i o, getop s i = Some o -> is_connect (op_packet o) = true -> In i (places s).

  Lemma NC_CP s : NC s -> CP s.
  Proof. intros H i o Hi Hc. rewrite (H i o Hi) in Hc. discriminate. Qed.

  Lemma NC_KF s s' : NC s -> KF s s' -> NC s'.
  Proof.
    intros H K i o' Hi. destruct (is_connect (op_packet o')) eqn:E; [|reflexivity].
    destruct (K i o' Hi E) as (o & Ho & Hc). rewrite (H i o Ho) in Hc. discriminate.
  Qed.

  (* an id that names no CONNECT operation names none later *)
  Definition noconn (s : state) (i : N) : Prop := forall o, getop s i = Some o -> is_connect (op_packet o) = false.

  Lemma noconn_KF s s' i : noconn s i -> KF s s' -> noconn s' i.
  Proof.
    intros H K o' Hi. destruct (is_connect (op_packet o')) eqn:E; [|reflexivity].
    destruct (K i o' Hi E) as (o & Ho & Hc). rewrite (H o Ho) in Hc. discriminate.
  Qed.

  Lemma noconn_none (s : state) i : getop s i = None -> noconn s i.
  Proof. intros H o Ho. congruence. Qed.

  (* ---- failing operations: queue positions untouched, the operation is gone unless the call panicked ---- *)
  Definition pl (s : state) := (s_hq s, s_cur s, s_pwco s).

  Lemma fail_op_pl (s : state) id e : pl (r_s (fail_op cfg s id e)) = pl s.
  Proof.
    unfold fail_op. destruct (lookup id (s_ops s)) as [o|]; [|reflexivity].
    unfold release. destruct (op_pid o); cbn;
      repeat match goal with |- context [if ?b then _ else _] => destruct b; cbn end;
      unfold disconnect_completion; repeat match goal with |- context [if ?b then _ else _] => destruct b; cbn end; reflexivity.
  Qed.

  Lemma fail_all_pl ids : forall (s : state) e, pl (r_s (fail_all cfg s ids e)) = pl s.
  Proof.
    induction ids as [|a r IH]; intros s e; cbn [fail_all]; [reflexivity|].
    pose proof (fail_op_pl s a e) as H1. destruct (is_panic (r_out (fail_op cfg s a e))); [exact H1|].
    specialize (IH (r_s (fail_op cfg s a e)) e).
    destruct (is_panic (r_out (fail_all cfg (r_s (fail_op cfg s a e)) r e))); cbn [r_s]; congruence.
  Qed.

  Lemma pl_fields (s s' : state) : pl s' = pl s -> s_hq s' = s_hq s /\ s_cur s' = s_cur s /\ s_pwco s' = s_pwco s.
  Proof. unfold pl. intros H. inversion H. auto. Qed.

  Lemma fail_op_gone (s : state) id e : is_panic (r_out (fail_op cfg s id e)) = false -> getop (r_s (fail_op cfg s id e)) id = None.
  Proof.
    unfold fail_op, getop. destruct (lookup id (s_ops s)) as [o|] eqn:El; [|intros _; exact El].
    destruct (release cfg s id o) as [s1|k|site] eqn:Er; [| |cbn; discriminate].
    - intros _. apply release_sub in Er. pose proof (disconnect_completion_ops enc dec ores ires s1 o) as Hd.
      destruct (disconnect_completion s1 o) as [s2 r]. cbn [fst] in Hd.
      assert (H : lookup id (s_ops s2) = None) by (rewrite Hd, Er; apply lookup_remove_eq).
      destruct r; [destruct (op_user o)|..]; exact H.
    - exfalso. unfold release in Er. destruct (op_pid o); cbn in Er;
        repeat match type of Er with context [if ?b then _ else _] => destruct b; cbn in Er end; discriminate.
  Qed.

  Lemma SUB_none (s s' : state) i : SUB s s' -> getop s i = None -> getop s' i = None.
  Proof. intros S H. unfold getop in *. destruct (lookup i (s_ops s')) as [o|] eqn:E; [|reflexivity]. rewrite (S _ _ E) in H. discriminate. Qed.

  Lemma fail_all_gone ids : forall (s : state) e i,
    is_panic (r_out (fail_all cfg s ids e)) = false -> In i ids -> getop (r_s (fail_all cfg s ids e)) i = None.
  Proof.
    induction ids as [|a r IH]; intros s e i Hnp Hi; [destruct Hi|]. cbn [fail_all] in *.
    destruct (is_panic (r_out (fail_op cfg s a e))) eqn:E1; [congruence|].
    destruct (is_panic (r_out (fail_all cfg (r_s (fail_op cfg s a e)) r e))) eqn:E2; cbn [r_s r_out] in *; [congruence|].
    destruct Hi as [<-|Hi]; [|apply IH; assumption].
    eapply SUB_none; [apply fail_all_sub|]. apply fail_op_gone. exact E1.
  Qed.

  Lemma andthen_np (r : res) f : is_panic (r_out (andthen r f)) = false ->
    is_panic (r_out r) = false /\ is_panic (r_out (f (r_s r))) = false /\ r_s (andthen r f) = r_s (f (r_s r)).
  Proof.
    unfold andthen. destruct (is_panic (r_out r)) eqn:E1; [congruence|].
    destruct (is_panic (r_out (f (r_s r)))) eqn:E2; cbn [r_s r_out]; [congruence|]. auto.
  Qed.

  (* ---- KF of the phases of net_closed_raw (WFClose.phaseA/B/C) ---- *)
  Lemma phaseC_KF (s8 : state) : KF s8 (r_s (phaseC cfg s8)).
  Proof.
    unfold phaseC. cbv zeta.
    match goal with |- context [partition_policy cfg ?sx ?q] => destruct (partition_policy cfg sx q) as [kept_u rejected_u] end.
    apply andthen_KF.
    - eapply KF_trans; [|kf_sub; apply fail_all_sub]. unfold HandshakeRunFrame.KF. cbn. apply KT_fold_update. apply kindp_set_dup.
    - intros s12. kf_id.
  Qed.

  Lemma phaseB_KF (s5 : state) : KF s5 (r_s (phaseB cfg s5)).
  Proof.
    unfold phaseB. cbv zeta. destruct (partition_policy cfg s5 (s_pwco s5)) as [kept rejected].
    apply andthen_KF; [eapply KF_trans; [|kf_sub; apply fail_all_sub]; kf_id|]. intros s7.
    apply andthen_KF; [apply fail_exceeding_KF|]. intros s8. apply phaseC_KF.
  Qed.

  Lemma phaseA_KF (s3 : state) : KF s3 (r_s (phaseA cfg s3)).
  Proof.
    unfold phaseA. cbv zeta. apply andthen_KF; [eapply KF_trans; [|kf_sub; apply fail_all_sub]; kf_id|]. intros s5. apply phaseB_KF.
  Qed.

  (* ---- where the three places go during a close ---- *)
  Lemma closed_current_keeps (s : state) :
    s_pwco (r_s (closed_current cfg s)) = s_pwco s /\ forall i, In i (s_hq s) -> In i (s_hq (r_s (closed_current cfg s))).
  Proof.
    unfold closed_current. destruct (s_cur s) as [id|]; [|cbn; auto].
    match goal with |- context [try_ ?r _] => assert (Hin : s_pwco (r_s r) = s_pwco s /\ forall i, In i (s_hq s) -> In i (s_hq (r_s r)));
      [|set (r0 := r) in *; clearbody r0] end.
    2:{ unfold try_. destruct (r_out r0); cbn [r_s]; exact Hin. }
    destruct (lookup id (s_ops s)) as [o|]; [|cbn; auto].
    assert (Hf : forall e, s_pwco (r_s (fail_op cfg s id e)) = s_pwco s /\ forall i, In i (s_hq s) -> In i (s_hq (r_s (fail_op cfg s id e)))).
    { intros e. destruct (pl_fields _ _ (fail_op_pl s id e)) as (A & _ & C). rewrite A, C. auto. }
    destruct (op_packet o); cbn [r_s]; try apply Hf.
    - destruct (pub_dup p); [destruct (lookup (pub_pid p) (s_ppub s)); cbn; auto|].
      destruct (_ && _); [cbn; auto|]. destruct (passes_policy _ _); [cbn; auto|apply Hf].
    - destruct (passes_policy _ _); [cbn; auto|apply Hf].
    - destruct (passes_policy _ _); [cbn; auto|apply Hf].
  Qed.

  Lemma closed_current_cur_gone (s : state) i o :
    s_cur s = Some i -> getop s i = Some o -> is_connect (op_packet o) = true ->
    r_out (closed_current cfg s) = Ok tt -> getop (r_s (closed_current cfg s)) i = None.
  Proof.
    intros Hc Hi Hk. unfold closed_current. rewrite Hc. unfold getop in Hi. rewrite Hi.
    destruct (op_packet o); try discriminate. cbn [r_s r_out].
    pose proof (fail_op_gone s i EConnectionClosed) as Hg.
    destruct (is_panic (r_out (fail_op cfg s i EConnectionClosed))) eqn:Ep.
    - unfold try_. cbn [r_out]. destruct (r_out (fail_op cfg s i EConnectionClosed)); try discriminate.
    - unfold try_. cbn [r_out r_s]. intros _. exact (Hg eq_refl).
  Qed.

  Lemma slow_start_init_keeps (s s' : state) : slow_start_init cfg s = Ok s' -> pl s' = pl s /\ KF s s'.
  Proof.
    unfold slow_start_init. destruct (negb (cf_drain_one cfg)); [intros H; inversion H; split; [reflexivity|kf_id]|].
    destruct (forallb _ _); [|discriminate]. intros H; inversion H. split; [reflexivity|].
    unfold HandshakeRunFrame.KF. cbn. apply KT_fold_update. intros o. cbn. auto.
  Qed.

  Lemma update_retries_keeps (s s' : state) : update_retries cfg s = Ok s' -> pl s' = pl s /\ KF s s'.
  Proof.
    unfold update_retries. destruct (cf_retry cfg); [|intros H; inversion H; split; [reflexivity|kf_id]].
    destruct (forallb _ _); [|discriminate]. intros H; inversion H. split; [reflexivity|].
    unfold HandshakeRunFrame.KF. cbn. apply KT_fold_update. intros o. cbn. auto.
  Qed.

  (* phases A and B remove the CONNECT operations of the high-priority queue and of the written list *)
  Lemma phaseB_gone (s5 : state) i :
    is_panic (r_out (phaseB cfg s5)) = false -> In i (s_pwco s5) -> noconn (r_s (phaseB cfg s5)) i.
  Proof.
    unfold phaseB. cbv zeta. intros Hnp Hi.
    destruct (partition_policy cfg s5 (s_pwco s5)) as [kept rejected] eqn:Epart.
    apply andthen_np in Hnp. destruct Hnp as (N1 & N2 & ->).
    match type of N1 with context [fail_all cfg ?sx rejected ?e] => set (s6 := sx) in *; set (r6 := fail_all cfg sx rejected e) in * end.
    eapply noconn_KF; [|apply andthen_KF; [apply fail_exceeding_KF|intros; apply phaseC_KF]].
    destruct (getop s5 i) as [o|] eqn:Ho.
    2:{ apply noconn_none. eapply SUB_none; [apply fail_all_sub|]. exact Ho. }
    destruct (is_connect (op_packet o)) eqn:Ek.
    - apply noconn_none. apply fail_all_gone; [exact N1|].
      assert (Hr : In i (snd (partition_policy cfg s5 (s_pwco s5)))).
      { unfold partition_policy. cbn [snd]. apply filter_In. split.
        - apply filter_In. split; [exact Hi|]. unfold op_exists. unfold getop in Ho. rewrite Ho. reflexivity.
        - unfold op_passes. unfold getop in Ho. rewrite Ho. destruct (op_packet o); try discriminate. reflexivity. }
      rewrite Epart in Hr. exact Hr.
    - eapply noconn_KF; [|kf_sub; apply fail_all_sub]. intros o1 Ho1. unfold getop in *. cbn in Ho1. congruence.
  Qed.

  Lemma phaseA_gone (s3 : state) i :
    WFS s3 -> is_panic (r_out (phaseA cfg s3)) = false -> In i (s_hq s3) \/ In i (s_pwco s3) -> noconn (r_s (phaseA cfg s3)) i.
  Proof.
    unfold phaseA. cbv zeta. intros HW Hnp Hi. apply andthen_np in Hnp. destruct Hnp as (N1 & N2 & ->).
    match type of N1 with context [fail_all cfg ?sx ?l ?e] => set (s4 := sx) in *; set (r4 := fail_all cfg sx l e) in * end.
    destruct Hi as [Hi|Hi].
    - eapply noconn_KF; [|apply phaseB_KF].
      destruct (getop s3 i) as [o|] eqn:Ho.
      2:{ apply noconn_none. eapply SUB_none; [apply fail_all_sub|]. exact Ho. }
      destruct (is_connect (op_packet o)) eqn:Ek.
      + apply noconn_none. apply fail_all_gone; [exact N1|]. apply filter_In. split; [exact Hi|].
        unfold has_pubrel. unfold getop in Ho. cbn. rewrite Ho. destruct (op_pubrel o) eqn:Epr; [|reflexivity]. exfalso.
        assert (Hne : op_pubrel o <> None) by congruence.
        destruct (w_pubrel _ _ HW i o Ho Hne) as (pb & Hpb & _). rewrite Hpb in Ek. discriminate.
      + eapply noconn_KF; [|kf_sub; apply fail_all_sub]. intros o1 Ho1. unfold getop in *. cbn in Ho1. congruence.
    - apply phaseB_gone; [exact N2|].
      match goal with |- In i (s_pwco (r_s (fail_all cfg ?sx ?l ?e))) => destruct (pl_fields _ _ (fail_all_pl l sx e)) as (_ & _ & C) end.
      rewrite C. exact Hi.
  Qed.

  (* ---- the theorem ---- *)
  Theorem close_NC (s : state) : WFS s -> s_st s <> Disconnected -> CP s -> NC (r_s (net_closed cfg s)).
  Proof.
    intros HW Hst HCP.
    assert (Hraw : NC (r_s (net_closed_raw cfg s))).
    2:{ unfold net_closed. destruct (pstate_eqb (s_st s) Disconnected); [exact Hraw|].
        destruct (r_out (net_closed_raw cfg s)) as [u|k|site]; try exact Hraw. destruct k; exact Hraw. }
    pose proof (net_closed_raw_spec cfg s HW Hst) as Hcl. pose proof (okish_nopanic _ (cr_out _ _ Hcl)) as Hnp.
    apply nopanic_is_panic in Hnp.
    intros i o' Hi'. destruct (is_connect (op_packet o')) eqn:Ek'; [exfalso|reflexivity].
    destruct (net_closed_raw_KF enc dec ores ires cfg s i o' Hi' Ek') as (o & Ho & Ek).
    pose proof (HCP i o Ho Ek) as Hpl.
    (* follow the close *)
    revert Hi' Hnp. rewrite net_closed_raw_unfold. apply pstate_eqb_neq in Hst. rewrite Hst.
    set (s0 := s <| s_st := Disconnected |> <| s_connack_to := None |> <| s_next_ping := None |>
                 <| s_ping_to := None |> <| s_tmo := [] |>).
    assert (HW0 : WFS s0) by exact HW.
    destruct (closed_current_spec cfg s0 HW0 eq_refl) as (A1 & A2 & A3 & A4 & A5 & A6).
    cbv zeta. rewrite (try_ok _ _ A1).
    set (s1 := r_s (closed_current cfg s0)) in *.
    destruct (slow_start_init_spec cfg s1 A2) as (s2 & E2 & B1 & _). rewrite E2.
    destruct (update_retries_spec cfg s2 B1) as (s3 & E3 & C1 & _). rewrite E3.
    destruct (slow_start_init_keeps _ _ E2) as (P2 & K2). destruct (update_retries_keeps _ _ E3) as (P3 & K3).
    cbn [r_s r_out]. intros Hi' Hnp.
    assert (K13 : KF s1 s3) by (eapply KF_trans; eauto).
    assert (Hno : noconn (r_s (phaseA cfg s3)) i).
    2:{ rewrite (Hno o' Hi') in Ek'. discriminate. }
    destruct (closed_current_keeps s0) as (Q1 & Q2). fold s1 in Q1, Q2.
    destruct (pl_fields _ _ P2) as (F1 & _ & F3). destruct (pl_fields _ _ P3) as (G1 & _ & G3).
    unfold places in Hpl. apply in_app_or in Hpl. destruct Hpl as [Hpl|Hpl]; [|apply in_app_or in Hpl; destruct Hpl as [Hpl|Hpl]].
    - apply phaseA_gone; [exact C1|exact Hnp|]. left. rewrite G1, F1. apply Q2. exact Hpl.
    - destruct (s_cur s) as [c|] eqn:Ec; [|destruct Hpl]. destruct Hpl as [<-|[]].
      eapply noconn_KF; [|apply phaseA_KF]. eapply noconn_KF; [|exact K13]. apply noconn_none.
      apply (closed_current_cur_gone s0 c o); auto.
    - apply phaseA_gone; [exact C1|exact Hnp|]. right. rewrite G3, F3, Q1. exact Hpl.
  Qed.
End Close.
