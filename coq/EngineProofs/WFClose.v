(* Well-formedness through a connection close: closed_current, slow_start_init, update_retries,
   fail_exceeding, net_closed_raw, net_closed. *)
From GM Require Import Base.Prelude Base.Outcome Codec.Packets Codec.Settings Engine.Model
  EngineProofs.AssocLemmas EngineProofs.WFLemmas EngineProofs.WFDefs EngineProofs.WFCore EngineProofs.WFComplete
  EngineProofs.WFTrack.
From Coq Require Import Sorting.Sorted.
From RecordUpdate Require Import RecordSet.
Import RecordSetNotations.
Open Scope N_scope.

(* the four component types are implicit in the engine functions, locally to this file *)
#[local] Arguments init {enc dec} _ {ores ires} _ _.
#[local] Arguments release {enc dec ores ires} _ _ _ _.
#[local] Arguments disconnect_completion {enc dec ores ires} _ _.
#[local] Arguments fail_op {enc dec ores ires} _ _ _ _.
#[local] Arguments ping_extension {enc dec ores ires} _ _.
#[local] Arguments succeed_op {enc dec ores ires} _ _ _ _.
#[local] Arguments fail_all {enc dec ores ires} _ _ _ _.
#[local] Arguments succeed_all {enc dec ores ires} _ _ _.
#[local] Arguments andthen {enc dec ores ires} _ _.
#[local] Arguments try_ {enc dec ores ires} _ _.
#[local] Arguments pure {enc dec ores ires} _.
#[local] Arguments create_operation {enc dec ores ires} _ _.
#[local] Arguments passes_now {enc dec ores ires} _ _ _.
#[local] Arguments user_event {enc dec ores ires} _ _ _ _.
#[local] Arguments create_connect {enc dec ores ires} _ _.
#[local] Arguments net_opened {enc dec} _ {ores ires} _ _ _.
#[local] Arguments op_exists {enc dec ores ires} _ _.
#[local] Arguments op_passes {enc dec ores ires} _ _ _.
#[local] Arguments partition_policy {enc dec ores ires} _ _ _.
#[local] Arguments closed_current {enc dec ores ires} _ _.
#[local] Arguments slow_start_init {enc dec ores ires} _ _.
#[local] Arguments update_retries {enc dec ores ires} _ _.
#[local] Arguments fail_exceeding {enc dec ores ires} _ _.
#[local] Arguments has_pubrel {enc dec ores ires} _ _.
#[local] Arguments net_closed_raw {enc dec ores ires} _ _.
#[local] Arguments net_closed {enc dec ores ires} _ _.
#[local] Arguments net_write_completion {enc dec ores ires} _ _.
#[local] Arguments acquire_free_pid {enc dec ores ires} _ _.
#[local] Arguments acquire_pid_for {enc dec ores ires} _ _.
#[local] Arguments unbind {enc dec ores ires} _ _.
#[local] Arguments passes_receive_max {enc dec ores ires} _ _.
#[local] Arguments throttled {enc dec ores ires} _ _.
#[local] Arguments has_pending_ack {enc dec ores ires} _.
#[local] Arguments dequeue {enc dec ores ires} _ _ _.
#[local] Arguments fully_written {enc dec ores ires} _ _.
#[local] Arguments service_keep_alive {enc dec ores ires} _ _ _.
#[local] Arguments process_ack_timeouts {enc dec ores ires} _ _ _.
#[local] Arguments halt_on_error {enc dec ores ires} _ _.
#[local] Arguments next_service_time {enc dec ores ires} _ _ _.
#[local] Arguments build_settings {enc dec ores ires} _ _ _.
#[local] Arguments apply_session {enc dec ores ires} _ _ _.
#[local] Arguments hres_of {enc dec ores ires} _ _.
#[local] Arguments pre_connack {enc dec ores ires} _.
#[local] Arguments sum_ss {enc dec ores ires} _.
#[local] Arguments handle_pingresp {enc dec ores ires} _.
#[local] Arguments handle_suback {enc dec ores ires} _ _ _.
#[local] Arguments handle_unsuback {enc dec ores ires} _ _ _.
#[local] Arguments publish_qos_of {enc dec ores ires} _ _.
#[local] Arguments handle_puback {enc dec ores ires} _ _ _.
#[local] Arguments handle_pubrec {enc dec ores ires} _ _ _.
#[local] Arguments handle_pubrel {enc dec ores ires} _ _.
#[local] Arguments handle_pubcomp {enc dec ores ires} _ _ _.
#[local] Arguments handle_publish {enc dec ores ires} _ _.
#[local] Arguments handle_disconnect {enc dec ores ires} _ _ _.
#[local] Arguments is_connect_op {enc dec ores ires} _ _.
#[local] Arguments connect_in_queue {enc dec ores ires} _.
#[local] Arguments reset {enc dec ores ires} _ _.
#[local] Arguments out_of_res {enc dec ores ires} _ _.
#[local] Arguments nst_queue {enc dec ores ires} _ _ _ _.
#[local] Arguments earliest_tmo {enc dec ores ires} _.
#[local] Arguments SeatStop {enc dec ores ires} _.
#[local] Arguments SeatContinue {enc dec ores ires} _ _.
#[local] Arguments SeatEncode {enc dec ores ires} _.


Lemma iter_pres {A B} (f : A -> A) (g : A -> B) : (forall a, g (f a) = g a) -> forall n a, g (Nat.iter n f a) = g a.
Proof. intros H n a. induction n as [|n IH]; [reflexivity|]. cbn [Nat.iter nat_rect]. rewrite H. exact IH. Qed.

Section Close.
  Context {enc dec ores ires : Type}.
  Notation state := (state enc dec ores ires).
  Notation res := (res enc dec ores ires).
  Variable cfg : config.

  Lemma rest_fields (s s' : state) : rest_of s' = rest_of s ->
    s_uq s' = s_uq s /\ s_rq s' = s_rq s /\ s_hq s' = s_hq s /\ s_cur s' = s_cur s /\ s_pwco s' = s_pwco s /\
    s_tmo s' = s_tmo s /\ s_pwc s' = s_pwc s /\ s_settings s' = s_settings s /\ s_next_id s' = s_next_id s /\
    s_next_pid s' = s_next_pid s /\ s_enc s' = s_enc s /\ s_connack_to s' = s_connack_to s /\ s_ping_to s' = s_ping_to s.
  Proof. unfold rest_of. intros H. inversion H. repeat split; assumption. Qed.

  (* packet ids of surviving operations are unchanged, and so are the four component states *)
  Definition pidonly (s s' : state) : Prop :=
    forall i o', getop s' i = Some o' -> exists o, getop s i = Some o /\ op_pid o' = op_pid o.
  Definition pidpres (s s' : state) : Prop := pidonly s s' /\ comp_of s' = comp_of s.

  Lemma pidpres_refl s : pidpres s s.
  Proof. split; [intros i o H; eauto|reflexivity]. Qed.

  Lemma pidpres_trans s1 s2 s3 : pidpres s1 s2 -> pidpres s2 s3 -> pidpres s1 s3.
  Proof.
    intros [A A'] [B B']. split; [|congruence].
    intros i o3 H3. destruct (B _ _ H3) as (o2 & H2 & E2). destruct (A _ _ H2) as (o1 & H1 & E1).
    exists o1. split; [exact H1|congruence].
  Qed.

  Lemma pidpres_frame ids s s' : frame_c ids s s' -> pidpres s s'.
  Proof.
    intros F. split; [|apply rest_comp; apply F].
    intros i o H. exists o. split; [apply (fc_sub _ _ _ F); exact H|reflexivity].
  Qed.

  Lemma pidpres_ops (s s' : state) : s_ops s' = s_ops s -> comp_of s' = comp_of s -> pidpres s s'.
  Proof. intros E Ec. split; [|exact Ec]. intros i o H. unfold getop in *. rewrite E in H. eauto. Qed.

  Lemma pidpres_upd_all (s s' : state) f ids :
    (forall o, op_pid (f o) = op_pid o) -> s_ops s' = upd_all f ids (s_ops s) -> comp_of s' = comp_of s -> pidpres s s'.
  Proof.
    intros Hf E Ec. split; [|exact Ec]. intros i o' H. unfold getop in *. rewrite E in H.
    destruct (lookup_upd_all f ids (s_ops s) i) as (n & Hn & _). rewrite Hn in H.
    destruct (lookup i (s_ops s)) as [o|]; [|discriminate]. inversion H; subst. exists o. split; [reflexivity|].
    apply (iter_pres f op_pid Hf).
  Qed.

  Lemma disc_frame ids (s s' : state) : frame_c ids s s' -> s_st s = Disconnected -> s_st s' = Disconnected.
  Proof. intros F H. destruct (fc_st _ _ _ F) as [E|[E _]]; congruence. Qed.

  Lemma W9_disc (s : state) : s_st s = Disconnected -> W9 cfg s.
  Proof. intros H Hc. congruence. Qed.

  (* a state-level wrapper of WFc_mono for queue-only changes *)
  Lemma WFS_queues X X' (s s' : state) :
    WFSx X s ->
    s_ops s' = s_ops s -> s_alloc s' = s_alloc s -> s_ppub s' = s_ppub s -> s_next_id s' = s_next_id s ->
    s_next_pid s' = s_next_pid s -> s_pnon s' = s_pnon s \/ s_pnon s' = [] ->
    (forall p i o, getop s i = Some o -> op_pid o = Some p -> tracked X (core_of s) p i -> tracked X' (core_of s') p i) ->
    (forall i, In i X -> In i X') ->
    (forall i, inq (core_of s') i -> inq (core_of s) i \/ In i (keys (s_ops s)) \/ i < s_next_id s) ->
    (forall i, In i (s_hq s') -> In i (s_hq s) \/
               (forall o, getop s i = Some o -> needs_pid (op_packet o) = true -> exists p, In (p, i) (s_ppub s))) ->
    (forall i, In i (s_pwco s') -> In i (s_pwco s) \/ (forall o, getop s i = Some o -> needs_pid (op_packet o) = false)) ->
    WFSx X' s'.
  Proof.
    intros H E1 E2 E3 E4 E5 E6 Ht HX Hq Hh Hp. unfold WFSx.
    eapply WFc_mono; [exact H| | | | | | | | | | | |]; cbn [core_of c_ops c_alloc c_ppub c_nid c_npid c_pnon c_hq c_pwco];
      try assumption; try lia.
    - destruct E6 as [-> | ->]; [apply H|constructor].
    - destruct E6 as [-> | ->]; [tauto|intros p i []].
  Qed.

  Ltac splits := repeat match goal with |- _ /\ _ => split end.
  Ltac core_cbn := unfold tracked, inq; cbn [core_of c_ops c_uq c_rq c_hq c_cur c_alloc c_ppub c_pnon c_pwco c_nid c_npid].

  (* the current operation leaves the seat: it is re-queued, failed, or already pending *)
  Definition cc_spec (s : state) (r : res) : Prop :=
    r_out r = Ok tt /\ WFS (r_s r <| s_cur := None |>) /\ s_st (r_s r) = Disconnected /\ s_tmo (r_s r) = s_tmo s /\
    pidpres s (r_s r).

  Lemma cc_requeue (s s' : state) id :
    WFS s -> s_cur s = Some id -> s_st s = Disconnected ->
    s_ops s' = s_ops s -> s_alloc s' = s_alloc s -> s_ppub s' = s_ppub s -> s_pnon s' = s_pnon s -> s_next_id s' = s_next_id s ->
    s_next_pid s' = s_next_pid s -> s_pwco s' = s_pwco s -> s_hq s' = s_hq s -> s_st s' = s_st s -> s_tmo s' = s_tmo s ->
    comp_of s' = comp_of s ->
    (s_uq s' = id :: s_uq s /\ s_rq s' = s_rq s) \/ (s_uq s' = s_uq s /\ s_rq s' = id :: s_rq s) ->
    cc_spec s (mkRes s' [] (Ok tt)).
  Proof.
    intros HW Hc Hst E1 E2 E3 E4 E5 E6 E7 E8 E9 E10 Ecomp Hq. unfold cc_spec. cbn [r_s r_out].
    split; [reflexivity|]. split; [|split; [congruence|split; [exact E10|apply pidpres_ops; [exact E1|exact Ecomp]]]].
    eapply WFS_queues; [exact HW| | | | | | | | | | |]; cbn; try assumption; auto.
    - core_cbn. cbn. rewrite Hc. intros p i o Hi Hp T.
      destruct Hq as [[-> ->]|[-> ->]]; cbn; intuition (try congruence);
        match goal with H : Some _ = Some _ |- _ => inversion H; subst; auto end.
    - core_cbn. cbn. rewrite E8, E7, Hc. intros i. destruct Hq as [[-> ->]|[-> ->]]; cbn; intuition (subst; auto; try discriminate).
    - rewrite E8. auto.
    - rewrite E7. auto.
  Qed.

  Lemma cc_failed (s : state) id e :
    WFS s -> s_cur s = Some id -> s_st s = Disconnected ->
    let r := fail_op cfg s id e in
    WFS (r_s r <| s_cur := None |>) /\ s_st (r_s r) = Disconnected /\ s_tmo (r_s r) = s_tmo s /\ pidpres s (r_s r) /\
    (forall site, r_out r <> Panic site) /\
    ((forall o, getop s id = Some o -> is_disconnect (op_packet o) = false) -> r_out r = Ok tt).
  Proof.
    intros HW Hc Hst r. pose proof (fail_op_spec cfg [] s id e HW (W9_disc s Hst)) as F. fold r in F.
    destruct (rest_fields _ _ (fc_rest _ _ _ (fs_frame _ _ _ _ _ F))) as (R1 & R2 & R3 & R4 & R5 & R6 & _).
    split; [|split; [eapply disc_frame; [apply F|exact Hst]|split; [exact R6|split; [eapply pidpres_frame; apply F|split; [apply F|]]]]].
    - eapply WFS_queues; [apply F| | | | | | | | | | |]; cbn; auto.
      + core_cbn. cbn. rewrite R4, Hc. intros p i o Hi Hp T. destruct T as [T|[T|[T|[T|T]]]]; try tauto.
        inversion T; subst i. rewrite (fs_gone _ _ _ _ _ F id) in Hi; [discriminate|left; reflexivity].
      + core_cbn. cbn. intros i. intuition (try discriminate).
    - intros Hnd. destruct (fs_out _ _ _ _ _ F) as [E|[E (i & o & [<-|[]] & Ho & Hd)]]; [exact E|].
      rewrite (Hnd _ Ho) in Hd. discriminate.
  Qed.

  Lemma closed_current_spec (s : state) :
    WFS s -> s_st s = Disconnected ->
    let r := closed_current cfg s in
    r_out r = Ok tt /\ WFS (r_s r) /\ s_st (r_s r) = Disconnected /\ s_cur (r_s r) = None /\ s_tmo (r_s r) = s_tmo s /\
    pidpres s (r_s r).
  Proof.
    intros HW Hst. unfold closed_current. destruct (s_cur s) as [id|] eqn:Hc.
    2:{ cbn. splits; try assumption; try reflexivity; [|apply pidpres_ops; reflexivity].
        eapply WFS_queues; [exact HW| | | | | | | | | | |]; cbn; auto.
        - core_cbn. cbn. rewrite Hc. tauto.
        - core_cbn. cbn. rewrite Hc. tauto. }
    match goal with |- context [try_ ?r _] => assert (Hin : cc_spec s r); [|set (r0 := r) in *; clearbody r0] end.
    2:{ destruct Hin as (A1 & A2 & A3 & A4 & A5). rewrite (try_ok _ _ A1). cbn. splits; try assumption; try reflexivity. }
    assert (Hf : forall e, (forall o, getop s id = Some o -> is_disconnect (op_packet o) = false) -> cc_spec s (fail_op cfg s id e)).
    { intros e Hnd. destruct (cc_failed s id e HW Hc Hst) as (B1 & B2 & B3 & B4 & B5 & B6). unfold cc_spec. auto. }
    destruct (lookup id (s_ops s)) as [o|] eqn:Hid.
    2:{ unfold cc_spec. cbn. splits; try assumption; try reflexivity; [|apply pidpres_ops; reflexivity].
        eapply WFS_queues; [exact HW| | | | | | | | | | |]; cbn; auto.
        - core_cbn. cbn. rewrite Hc. intros p i o Hi Hp T. destruct T as [T|[T|[T|[T|T]]]]; try tauto.
          inversion T; subst i. unfold getop in Hi. congruence.
        - core_cbn. cbn. intros i. intuition (try discriminate). }
    assert (Hnd : forall k, op_packet o = k -> is_disconnect k = false ->
              forall o', getop s id = Some o' -> is_disconnect (op_packet o') = false).
    { intros k Ek Hk o' Ho'. unfold getop in Ho'. assert (o' = o) by congruence. subst o'. rewrite Ek. exact Hk. }
    destruct (op_packet o) as [c|c|pb|a|a|a|a|sb|a|un|a| | |d|a] eqn:Ep.
    all: try (destruct (cc_failed s id EConnectionClosed HW Hc Hst) as (B1 & B2 & B3 & B4 & B5 & B6);
              unfold cc_spec; cbn [r_s r_out r_done]; rewrite (nopanic_is_panic _ B5); auto; fail).
    - (* Publish *)
      destruct (pub_dup pb) eqn:Edup.
      + destruct (lookup (pub_pid pb) (s_ppub s)) as [i'|] eqn:Epp.
        * unfold cc_spec. cbn. splits; try assumption; try reflexivity; [|apply pidpres_ops; reflexivity].
          eapply WFS_queues; [exact HW| | | | | | | | | | |]; cbn; auto.
          -- core_cbn. cbn. rewrite Hc. intros p i o0 Hi Hp T. destruct T as [T|[T|[T|[T|T]]]]; try tauto.
             inversion T; subst i. unfold getop in Hi. assert (o0 = o) by congruence. subst o0.
             destruct (w_bound _ _ HW _ _ _ Hid Hp) as (_ & Bp & _). rewrite Ep in Bp. cbn in Bp. inversion Bp; subst p.
             apply lookup_In in Epp. assert (i' = id) by (eapply (wfc_ppub_owner _ _ _ _ _ _ HW); eauto). subst i'. tauto.
          -- core_cbn. cbn. intros i. intuition (try discriminate).
        * eapply (cc_requeue s _ id); try reflexivity; try assumption. right. split; reflexivity.
      + destruct ((pub_qos pb =? 2) && match op_pubrel o with Some _ => true | None => false end) eqn:Eq.
        * apply andb_prop in Eq. destruct Eq as [Eq2 Epr].
          assert (Hpr : op_pubrel o <> None) by (destruct (op_pubrel o); [discriminate|discriminate]).
          destruct (w_pubrel _ _ HW _ _ Hid Hpr) as (pb' & Epb' & Hd). rewrite Ep in Epb'. inversion Epb'; subst pb'.
          destruct Hd as [[]|[Hd|(p0 & Hp0)]]; [congruence|].
          unfold cc_spec. cbn. splits; try assumption; try reflexivity; [|apply pidpres_ops; reflexivity].
          eapply WFS_queues; [exact HW| | | | | | | | | | |]; cbn; auto.
          -- core_cbn. cbn. rewrite Hc. intros p i o0 Hi Hp T. destruct T as [T|[T|[T|[T|T]]]]; try tauto.
             inversion T; subst i. assert (p0 = p) by (eapply (wfc_ppub_pid _ _ _ _ _ _ HW); eauto). subst p0. tauto.
          -- core_cbn. cbn. rewrite Hc. intros i. intuition (subst; auto; try discriminate).
          -- intros i [<-|Hi]; [|auto]. right. intros o0 Ho0 Hn. eauto.
        * destruct (passes_policy (cf_policy cfg) (Publish pb)).
          -- eapply (cc_requeue s _ id); try reflexivity; try assumption. left. split; reflexivity.
          -- apply Hf. apply (Hnd _ eq_refl). reflexivity.
    - (* Subscribe *)
      destruct (passes_policy (cf_policy cfg) (Subscribe sb)).
      + eapply (cc_requeue s _ id); try reflexivity; try assumption. left. split; reflexivity.
      + apply Hf. apply (Hnd _ eq_refl). reflexivity.
    - (* Unsubscribe *)
      destruct (passes_policy (cf_policy cfg) (Unsubscribe un)).
      + eapply (cc_requeue s _ id); try reflexivity; try assumption. left. split; reflexivity.
      + apply Hf. apply (Hnd _ eq_refl). reflexivity.
  Qed.

  (* the current operation stays tracked across closed_current *)
  Lemma TR_drop_cur (s : state) id :
    s_cur s = Some id -> (forall o, getop s id = Some o -> op_pid o = None -> In id (s_uq s) \/ In id (s_rq s) \/ In id (s_hq s)) ->
    TR s -> TR (s <| s_cur := None |>).
  Proof.
    intros Hc Hid HT. apply (TR_gen s _ HT). intros i o' Hi Hp. right. exists o'. splits; auto.
    unfold inQ. cbn. rewrite Hc. intros [Q|[Q|[Q|[Q|Q]]]]; try tauto.
    inversion Q; subst i. destruct (Hid o' Hi Hp) as [H|[H|H]]; tauto.
  Qed.

  Lemma closed_current_tr (s : state) :
    WFS s -> s_st s = Disconnected -> TR s -> TR (r_s (closed_current cfg s)).
  Proof.
    intros HW Hst HT. unfold closed_current. destruct (s_cur s) as [id|] eqn:Hc.
    2:{ cbn. apply (TR_queues s); [reflexivity| |exact HT]. unfold inQ. cbn. rewrite Hc. tauto. }
    assert (Hfail : forall e, TR (r_s (fail_op cfg s id e) <| s_cur := None |>)).
    { intros e. pose proof (fail_op_spec cfg [] s id e HW (W9_disc s Hst)) as F.
      apply (TR_drop_cur _ id).
      - destruct (rest_fields _ _ (fc_rest _ _ _ (fs_frame _ _ _ _ _ F))) as (_ & _ & _ & R4 & _). congruence.
      - intros o Ho. rewrite (fs_gone _ _ _ _ _ F id) in Ho; [discriminate|left; reflexivity].
      - eapply TR_frame_c; [apply F|exact HT]. }
    assert (Hfo : forall e, r_out (fail_op cfg s id e) = Ok tt \/ exists k, r_out (fail_op cfg s id e) = Err k).
    { intros e. pose proof (fail_op_spec cfg [] s id e HW (W9_disc s Hst)) as F. destruct (fs_out _ _ _ _ _ F) as [E|[E _]]; eauto. }
    assert (Hq : forall s' : state, s_cur s' = Some id -> s_ops s' = s_ops s ->
                   (forall i, inQ s i -> inQ s' i) -> (In id (s_uq s') \/ In id (s_rq s') \/ In id (s_hq s')) ->
                   TR (r_s (try_ (pure s') (fun s'' => pure (s'' <| s_cur := None |>))))).
    { intros s' Hc' Eo Hmono Hin. cbn. apply (TR_drop_cur s' id Hc'); [tauto|]. apply (TR_queues s); auto. }
    assert (Hfe : forall e, TR (r_s (try_ (fail_op cfg s id e) (fun s'' => pure (s'' <| s_cur := None |>))))).
    { intros e. unfold try_. destruct (Hfo e) as [E|(k & E)]; rewrite E; cbn; [apply Hfail|].
      pose proof (fail_op_spec cfg [] s id e HW (W9_disc s Hst)) as F. eapply TR_frame_c; [apply F|exact HT]. }
    destruct (lookup id (s_ops s)) as [o|] eqn:Hid.
    2:{ cbn. apply (TR_drop_cur s id Hc); [|exact HT]. intros o Ho. unfold getop in Ho. congruence. }
    destruct (op_packet o) as [c|c|pb|a|a|a|a|sb|a|un|a| | |d|a] eqn:Ep.
    all: try (unfold try_; cbn [r_s r_out r_done];
              destruct (Hfo EConnectionClosed) as [E|(k & E)]; rewrite E; cbn; apply Hfail; fail).
    - destruct (pub_dup pb) eqn:Edup.
      + destruct (lookup (pub_pid pb) (s_ppub s)) as [i'|] eqn:Epp.
        * cbn. apply (TR_drop_cur s id Hc); [|exact HT]. intros o0 Ho0 Hp0. exfalso.
          unfold getop in Ho0. assert (o0 = o) by congruence. subst o0.
          destruct (HT id o Hid Hp0) as (_ & _ & Hd). destruct (Hd pb Ep) as [Hd'|Hd']; [congruence|].
          rewrite Hd' in Epp. apply lookup_In in Epp. pose proof (ppub_key_pos s 0 i' HW Epp). lia.
        * apply Hq; cbn; auto. unfold inQ. cbn. tauto.
      + destruct ((pub_qos pb =? 2) && match op_pubrel o with Some _ => true | None => false end).
        * apply Hq; cbn; auto. unfold inQ. cbn. tauto.
        * destruct (passes_policy (cf_policy cfg) (Publish pb)); [|apply Hfe]. apply Hq; cbn; auto. unfold inQ. cbn. tauto.
    - destruct (passes_policy (cf_policy cfg) (Subscribe sb)); [|apply Hfe]. apply Hq; cbn; auto. unfold inQ. cbn. tauto.
    - destruct (passes_policy (cf_policy cfg) (Unsubscribe un)); [|apply Hfe]. apply Hq; cbn; auto. unfold inQ. cbn. tauto.
  Qed.

  (* every operation named by the pending tables exists *)
  Lemma pend_exist X (s : state) :
    WFSx X s -> forall i, In i (map snd (s_pnon s) ++ map snd (s_ppub s)) -> exists o, getop s i = Some o.
  Proof.
    intros HW i Hi. apply in_app_or in Hi. destruct Hi as [Hi|Hi]; apply In_snd_inv in Hi; destruct Hi as (p & Hi).
    - destruct (w_pnon _ _ HW _ _ Hi) as (o & Ho & _). eauto.
    - destruct (w_ppub _ _ HW _ _ Hi) as (o & Ho & _). eauto.
  Qed.

  Lemma pend_forallb X (s : state) (l : list N) :
    WFSx X s -> (forall i, In i l -> In i (map snd (s_pnon s) ++ map snd (s_ppub s))) -> forallb (op_exists s) l = true.
  Proof.
    intros HW Hl. apply forallb_forall. intros i Hi. destruct (pend_exist X s HW i (Hl _ Hi)) as (o & Ho).
    unfold op_exists. unfold getop in Ho. rewrite Ho. reflexivity.
  Qed.

  (* result of a step that only rewrites slow-start / retry marks *)
  Definition mark_spec (s s' : state) : Prop :=
    WFS s' /\ s_st s' = s_st s /\ s_tmo s' = s_tmo s /\ s_cur s' = s_cur s /\ pidpres s s' /\ (TR s -> TR s').

  Lemma mark_upd (s : state) f ids :
    WFS s -> (forall o, op_pid (f o) = op_pid o /\ op_packet (f o) = op_packet o /\ op_pubrel (f o) = op_pubrel o) ->
    mark_spec s (s <| s_ops := upd_all f ids (s_ops s) |>).
  Proof.
    intros HW Hf. unfold mark_spec. cbn. splits; try reflexivity.
    - eapply WFc_upd_all; [exact HW| |reflexivity]. intros i o _. destruct (Hf o) as (F1 & F2 & F3). apply upd_ok_neutral; assumption.
    - eapply pidpres_upd_all; [|reflexivity|reflexivity]. intros o. apply Hf.
    - apply (TR_upd_all s _ f ids Hf); [reflexivity|]. intros i Q. exact Q.
  Qed.

  Lemma slow_start_init_spec (s : state) :
    WFS s -> exists s', slow_start_init cfg s = Ok s' /\ mark_spec s s'.
  Proof.
    intros HW. unfold slow_start_init. destruct (cf_drain_one cfg); cbn [negb].
    2:{ exists s. split; [reflexivity|]. unfold mark_spec. splits; auto. apply pidpres_refl. }
    pose proof (pend_forallb [] s _ HW (fun i H => H)) as Hall. unfold op_exists in Hall. rewrite Hall.
    eexists. split; [reflexivity|]. apply (mark_upd s (set_ss 1)); [exact HW|]. intros o. cbn. tauto.
  Qed.

  Lemma update_retries_spec (s : state) :
    WFS s -> exists s', update_retries cfg s = Ok s' /\ mark_spec s s'.
  Proof.
    intros HW. unfold update_retries. destruct (cf_retry cfg).
    2:{ exists s. split; [reflexivity|]. unfold mark_spec. splits; auto. apply pidpres_refl. }
    rewrite (pend_forallb [] s _ HW (fun i H => H)).
    eexists. split; [reflexivity|]. apply (mark_upd s bump_intr); [exact HW|]. intros o. cbn. tauto.
  Qed.

  Lemma fail_exceeding_spec X (s : state) :
    WFSx X s -> W9 cfg s -> exists ids, fail_spec cfg X ids s (fail_exceeding cfg s).
  Proof.
    intros HW H9. unfold fail_exceeding. destruct (cf_retry cfg) as [limit|].
    2:{ exists []. apply fail_spec_nil; assumption. }
    rewrite (pend_forallb X s _ HW) by (intros i Hi; apply in_or_app; tauto). cbn [negb].
    eexists. apply andthen_fail_spec.
    - apply fail_all_spec; assumption.
    - match goal with |- fail_spec _ _ _ ?s1 _ => set (s1' := s1) end.
      assert (F1 : WFSx X s1' /\ W9 cfg s1').
      { unfold s1'. match goal with |- context [fail_all cfg s ?l ?e] => pose proof (fail_all_spec cfg X l s e HW H9) as F end.
        split; apply F. }
      destruct F1 as [HW1 H91].
      rewrite (pend_forallb X s1' _ HW1) by (intros i Hi; apply in_or_app; tauto). cbn [negb].
      apply fail_all_spec; assumption.
  Qed.

  (* ---- the body of net_closed_raw cut into phases ---- *)
  Definition phaseC (s8 : state) : res :=
    let pubs := map snd (s_ppub s8) in
    let s9 := s8 <| s_ppub := [] |>
                 <| s_ops := fold_left (fun ops id => update id (set_dup true) ops) pubs (s_ops s8) |>
                 <| s_rq := s_rq s8 ++ pubs |> in
    let nons := map snd (s_pnon s9) in
    let s10 := s9 <| s_pnon := [] |> <| s_uq := rev nons ++ s_uq s9 |> in
    let (kept_u, rejected_u) := partition_policy cfg s10 (s_uq s10) in
    let s11 := s10 <| s_uq := [] |> in
    andthen (fail_all cfg s11 rejected_u EOfflineQueuePolicyFailed) (fun s12 =>
      pure (s12 <| s_uq := s_uq s12 ++ kept_u |>)).

  Definition phaseB (s5 : state) : res :=
    let pwco := s_pwco s5 in
    let (kept, rejected) := partition_policy cfg s5 pwco in
    let s6 := s5 <| s_pwco := [] |> <| s_uq := s_uq s5 ++ kept |> in
    andthen (fail_all cfg s6 rejected EOfflineQueuePolicyFailed) (fun s7 =>
      andthen (fail_exceeding cfg s7) phaseC).

  Definition phaseA (s3 : state) : res :=
    let hq := s_hq s3 in
    let s4 := s3 <| s_hq := [] |> in
    andthen (fail_all cfg s4 (filter (fun id => negb (has_pubrel s4 id)) hq) EConnectionClosed) phaseB.

  Lemma net_closed_raw_unfold (s : state) :
    net_closed_raw cfg s =
    if pstate_eqb (s_st s) Disconnected then mkRes s [] (Err EInternalStateError) else
    let s0 := s <| s_st := Disconnected |> <| s_connack_to := None |> <| s_next_ping := None |>
                <| s_ping_to := None |> <| s_tmo := [] |> in
    try_ (closed_current cfg s0) (fun s1 =>
      match slow_start_init cfg s1 with
      | Panic site => mkRes s1 [] (Panic site) | Err k => mkRes s1 [] (Err k)
      | Ok s2 =>
      match update_retries cfg s2 with
      | Panic site => mkRes s2 [] (Panic site) | Err k => mkRes s2 [] (Err k)
      | Ok s3 => phaseA s3
      end end).
  Proof. unfold net_closed_raw, phaseA, phaseB, phaseC. reflexivity. Qed.

  Definition closed_fields (s : state) : Prop :=
    s_ppub s = [] /\ s_pnon s = [] /\ s_pwco s = [] /\ s_hq s = [] /\ s_tmo s = [] /\ s_cur s = None.

  Record closed_res (s : state) (r : res) : Prop := mkClosedRes {
    cr_out : okish (r_out r);
    cr_wfs : WFS (r_s r);
    cr_st : s_st (r_s r) = Disconnected;
    cr_fields : closed_fields (r_s r);
    cr_pid : pidpres s (r_s r);
    cr_tr : TR s -> TR (r_s r) }.

  Lemma closed_res_andthen ids (s : state) (r : res) f :
    fail_spec cfg [] ids s r -> closed_res (r_s r) (f (r_s r)) -> closed_res s (andthen r f).
  Proof.
    intros F C. pose proof (fs_nopanic _ _ _ _ _ F) as N1. pose proof (okish_nopanic _ (cr_out _ _ C)) as N2.
    constructor; rewrite ?andthen_s, ?andthen_out by assumption; try apply C.
    - apply okish_fold; [eapply fail_spec_out; eauto|apply C].
    - eapply pidpres_trans; [eapply pidpres_frame; apply F|apply C].
    - intros HT. apply C. eapply TR_frame_c; [apply F|exact HT].
  Qed.

  Lemma partition_kept (s : state) q i : In i (fst (partition_policy cfg s q)) -> In i q /\ op_exists s i = true /\ op_passes cfg s i = true.
  Proof. unfold partition_policy. cbn [fst]. rewrite !filter_In. tauto. Qed.

  Lemma partition_cases (s : state) q i : In i q -> op_exists s i = true ->
    In i (fst (partition_policy cfg s q)) \/ In i (snd (partition_policy cfg s q)).
  Proof.
    intros Hi He. unfold partition_policy. cbn [fst snd]. rewrite !filter_In. destruct (op_passes cfg s i); cbn; tauto.
  Qed.

  Lemma set_dup_true_dup n o pb :
    (0 < n)%nat -> op_packet (Nat.iter n (set_dup true) o) = Publish pb -> pub_dup pb = true.
  Proof.
    destruct n as [|n]; [lia|]. intros _. cbn [Nat.iter nat_rect]. set (o1 := nat_rect _ _ _ n). intros H.
    destruct (set_dup_packet true o1) as [(pb1 & pb' & E1 & E2 & E3 & _)|[E1 E2]].
    - rewrite E2 in H. inversion H; subst. exact E3.
    - rewrite E2 in H. rewrite H in E1. discriminate.
  Qed.

  Lemma phaseC_s9 (s8 : state) :
    WFS s8 -> s_hq s8 = [] ->
    WFS (s8 <| s_ppub := [] |>
            <| s_ops := fold_left (fun ops id => update id (set_dup true) ops) (map snd (s_ppub s8)) (s_ops s8) |>
            <| s_rq := s_rq s8 ++ map snd (s_ppub s8) |>).
  Proof.
    intros HW Hhq.
    set (c1 := mkCore (upd_all (set_dup true) (map snd (s_ppub s8)) (s_ops s8)) (s_uq s8) (s_rq s8) (s_hq s8) (s_cur s8)
                      (s_alloc s8) (s_ppub s8) (s_pnon s8) (s_pwco s8) (s_next_id s8) (s_next_pid s8)).
    assert (H1 : WFc [] c1).
    { eapply WFc_upd_all; [exact HW| |reflexivity]. intros i o _. apply upd_ok_set_dup. left. reflexivity. }
    unfold WFS, WFSx, core_of. cbn. rewrite Hhq.
    eapply (WFc_clear_ppub [] c1); [exact H1| |reflexivity].
    intros p i o pb Hin Hi Hpb. unfold gop, c1 in Hi. cbn in Hi, Hin.
    destruct (lookup_upd_all (set_dup true) (map snd (s_ppub s8)) (s_ops s8) i) as (n & Hn & Hpos & _).
    rewrite Hn in Hi. destruct (lookup i (s_ops s8)) as [o0|]; [|discriminate]. inversion Hi; subst o.
    eapply set_dup_true_dup; [|exact Hpb]. apply Hpos. eapply In_snd; eauto.
  Qed.

  Lemma phaseC_spec (s8 : state) :
    WFS s8 -> s_st s8 = Disconnected -> s_hq s8 = [] -> s_pwco s8 = [] -> s_tmo s8 = [] -> s_cur s8 = None ->
    closed_res s8 (phaseC s8).
  Proof.
    intros HW Hst Hhq Hpw Htmo Hcur. unfold phaseC.
    pose proof (phaseC_s9 s8 HW Hhq) as HW9.
    set (s9 := s8 <| s_ppub := [] |>
                  <| s_ops := fold_left (fun ops id => update id (set_dup true) ops) (map snd (s_ppub s8)) (s_ops s8) |>
                  <| s_rq := s_rq s8 ++ map snd (s_ppub s8) |>) in *.
    assert (P9 : pidpres s8 s9).
    { eapply (pidpres_upd_all s8 s9 (set_dup true)); [|reflexivity|reflexivity]. intros o. apply set_dup_fields. }
    assert (Hst9 : s_st s9 = Disconnected) by exact Hst.
    assert (Hhq9 : s_hq s9 = []) by exact Hhq.
    assert (Hpw9 : s_pwco s9 = []) by exact Hpw.
    assert (Htmo9 : s_tmo s9 = []) by exact Htmo.
    assert (Hcur9 : s_cur s9 = None) by exact Hcur.
    assert (Hpp9 : s_ppub s9 = []) by reflexivity.
    assert (T9 : TR s8 -> TR s9).
    { intros HT. apply (TR_gen s8 s9 HT). intros i o' Hi Hp. right. unfold getop in Hi. cbn in Hi.
      change (fold_left _ (map snd (s_ppub s8)) (s_ops s8)) with (upd_all (set_dup true) (map snd (s_ppub s8)) (s_ops s8)) in Hi.
      destruct (lookup_upd_all (set_dup true) (map snd (s_ppub s8)) (s_ops s8) i) as (n & Hn & Hpos & Hzero).
      rewrite Hn in Hi. destruct (lookup i (s_ops s8)) as [o|] eqn:Ho; [|discriminate]. inversion Hi; subst o'.
      assert (Hpid : op_pid (Nat.iter n (set_dup true) o) = op_pid o) by (apply (iter_pres (set_dup true) op_pid); intros a; apply set_dup_fields).
      destruct (in_dec N.eq_dec i (map snd (s_ppub s8))) as [Hin|Hnin].
      - exfalso. apply In_snd_inv in Hin. destruct Hin as (p & Hin). destruct (w_ppub _ _ HW p i Hin) as (o2 & Ho2 & Hp2 & _).
        unfold gop in Ho2. cbn in Ho2. congruence.
      - rewrite (Hzero Hnin) in *. cbn in *. exists o. splits; auto. unfold inQ. cbn. intros [Q|[Q|Q]]; try tauto.
        right; left. apply in_or_app. tauto. }
    clearbody s9. clear HW Hst Hhq Hpw Htmo Hcur.
    set (s10 := s9 <| s_pnon := [] |> <| s_uq := rev (map snd (s_pnon s9)) ++ s_uq s9 |>).
    assert (HW10 : WFS s10).
    { eapply WFS_queues; [exact HW9| | | | | | | | | | |]; cbn; auto; try tauto.
      - core_cbn. cbn. intros p i o Hi Hp T. destruct T as [T|[T|[T|[T|[T|T]]]]]; try tauto.
        + right; left. apply in_or_app. right. exact T.
        + right; left. apply in_or_app. left. apply -> in_rev. eapply In_snd; exact T.
      - core_cbn. cbn. intros i [Hi|Hi]; [|tauto]. apply in_app_or in Hi. destruct Hi as [Hi|Hi]; [|tauto].
        right; left. apply in_rev in Hi. apply In_snd_inv in Hi. destruct Hi as (p & Hi).
        destruct (w_pnon _ _ HW9 _ _ Hi) as (o & Ho & _). eapply lookup_in_keys; eauto. }
    destruct (partition_policy cfg s10 (s_uq s10)) as [kept_u rejected_u] eqn:Epart.
    set (X := s_uq s10).
    set (s11 := s10 <| s_uq := [] |>).
    assert (HW11 : WFSx X s11).
    { eapply WFS_queues; [exact HW10| | | | | | | | | | |]; cbn; auto; try tauto.
      - core_cbn. cbn. intros p i o Hi Hp T. unfold X. tauto.
      - core_cbn. cbn. intros i. tauto. }
    assert (Hst11 : s_st s11 = Disconnected) by exact Hst9.
    pose proof (fail_all_spec cfg X rejected_u s11 EOfflineQueuePolicyFailed HW11 (W9_disc s11 Hst11)) as F.
    set (r := fail_all cfg s11 rejected_u EOfflineQueuePolicyFailed) in *.
    destruct (rest_fields _ _ (fc_rest _ _ _ (fs_frame _ _ _ _ _ F))) as (R1 & R2 & R3 & R4 & R5 & R6 & _ & _ & R9 & R10 & _).
    pose proof (fs_nopanic _ _ _ _ _ F) as N1.
    assert (Hpp : s_ppub (r_s r) = []) by (eapply subset_nil; [apply (fc_ppub _ _ _ (fs_frame _ _ _ _ _ F))|exact Hpp9]).
    assert (Hpn : s_pnon (r_s r) = []) by (eapply subset_nil; [apply (fc_pnon _ _ _ (fs_frame _ _ _ _ _ F))|reflexivity]).
    constructor; rewrite ?andthen_s, ?andthen_out by (try assumption; intros site; discriminate); cbn [pure r_s r_out r_done].
    - cbn [fold_result]. eapply fail_spec_out; eauto.
    - (* WFS of the final state *)
      assert (HWX : WFSx X (r_s r <| s_uq := s_uq (r_s r) ++ kept_u |>)).
      { eapply WFS_queues; [apply F| | | | | | | | | | |]; cbn; auto; try tauto.
        - core_cbn. cbn. intros p i o Hi Hp T. rewrite R1 in T |- *. cbn in T |- *. tauto.
        - core_cbn. cbn. rewrite R1. cbn. intros i [Hi|Hi]; [|tauto]. right; right. rewrite R9.
          assert (Hk : In i (fst (partition_policy cfg s10 (s_uq s10)))) by (rewrite Epart; exact Hi).
          apply partition_kept in Hk. apply (w_qlt _ _ HW10). core_cbn. tauto. }
      apply (WFc_unexempt X _ HWX).
      + intros i o p HiX Hi Hp. unfold gop in Hi. cbn in Hi.
        pose proof (fc_sub _ _ _ (fs_frame _ _ _ _ _ F) _ _ Hi) as Hi11.
        assert (He : op_exists s10 i = true) by (unfold op_exists; unfold getop in Hi11; cbn in Hi11 |- *; rewrite Hi11; reflexivity).
        destruct (partition_cases s10 (s_uq s10) i HiX He) as [Hk|Hk]; rewrite Epart in Hk; cbn [fst snd] in Hk.
        * core_cbn. cbn. right; left. apply in_or_app. tauto.
        * pose proof (fs_gone _ _ _ _ _ F _ Hk) as Hg. unfold getop in Hg. congruence.
      + intros i o HiX Hi Hpr. unfold gop in Hi. cbn in Hi.
        pose proof (fc_sub _ _ _ (fs_frame _ _ _ _ _ F) _ _ Hi) as Hi11.
        destruct (w_pubrel _ _ HW10 i o Hi11 Hpr) as (pb & Hpb & Hd). exists pb. split; [exact Hpb|].
        destruct Hd as [Hd|[Hd|Hd]]; [destruct Hd|left; exact Hd|].
        destruct Hd as (p & Hd). cbn in Hd. rewrite Hpp9 in Hd. destruct Hd.
    - cbn. eapply disc_frame; [apply (fs_frame _ _ _ _ _ F)|exact Hst11].
    - unfold closed_fields. cbn. rewrite R5, R3, R6, R4. cbn. tauto.
    - eapply pidpres_trans; [exact P9|]. split.
      + intros i o Hi. cbn in Hi. apply (fc_sub _ _ _ (fs_frame _ _ _ _ _ F)) in Hi. eauto.
      + transitivity (comp_of (r_s r)); [reflexivity|]. rewrite (rest_comp _ _ (fc_rest _ _ _ (fs_frame _ _ _ _ _ F))). reflexivity.
    - intros HT8. pose proof (T9 HT8) as HT9.
      assert (HT10 : TR s10).
      { apply (TR_queues s9); [reflexivity| |exact HT9]. unfold inQ. cbn. intros i [Q|Q] _; [|tauto]. left. apply in_or_app. tauto. }
      apply (TR_gen s10 _ HT10). intros i o' Hi Hp. right. exists o'. unfold getop in Hi. cbn in Hi.
      pose proof (fc_sub _ _ _ (fs_frame _ _ _ _ _ F) _ _ Hi) as Hi11.
      split; [exact Hi11|]. splits; auto.
      unfold inQ. cbn. rewrite R1, R2, R3, R4, R5. cbn. intros [Q|Q]; [|tauto]. left.
      assert (He : op_exists s10 i = true) by (unfold op_exists; unfold getop in Hi11; cbn in Hi11 |- *; rewrite Hi11; reflexivity).
      destruct (partition_cases s10 (s_uq s10) i Q He) as [Hk|Hk]; rewrite Epart in Hk; cbn [fst snd] in Hk; [exact Hk|].
      pose proof (fs_gone _ _ _ _ _ F _ Hk) as Hg. unfold getop in Hg. congruence.
  Qed.
End Close.
