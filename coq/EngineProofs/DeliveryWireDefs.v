(* C04, run level: the sequence of transmissions of ONE operation over a whole history.  Definitions.

   [dev]        the delivery log of a history: the encoder-construction log of AliasRunLog ([DO]: OPick .. OEncode id p r ok,
                ODone id, OOpen, OClose, OClear - every event carries the operation id), the processed-packet items of
                InboundLoop.data_log for the incoming-data calls ([DI]: which CONNACK ran the session rules, which PUBREC
                set the PUBREL slot of which operation) and the submissions ([DS id p]: the operation id a user packet got).
   [gst]/[gnext]/[gok]  the per-operation reference machine (the wire-level statement of C04 for operation i, phases
                GAbs (not a QoS 1/2 publish / not submitted yet), GNot (never transmitted, or restarted), GCur (PUBLISH handed
                to the encoder on this connection), GPend (completely written, unacknowledged), GInt (interrupted by a close
                after a complete transmission: the next transmission is a DUP with the same id on a session-present
                connection), GRel / GRelCur / GRelInt (PUBREC processed: only the PUBREL), and what it checks at every
                encoder construction for i.
   [J]          the relation between the engine state and the machine state (the invariant of DeliveryWire.v).
   [quiet]      the frame: what an engine function that does not take part in the delivery of i leaves alone. *)
From GM Require Import Base.Prelude Base.Outcome Codec.Packets Codec.Settings Engine.Model
  EngineProofs.AssocLemmas EngineProofs.WFLemmas EngineProofs.WFDefs EngineProofs.IdsFrame EngineProofs.SvcTimeout
  EngineProofs.InboundSpec EngineProofs.HandshakeRunTrace EngineProofs.AliasRunLog.
From RecordUpdate Require Import RecordSet.
Import RecordSetNotations.
Open Scope N_scope.


(* the four component types are implicit in the engine functions, locally to this file *)
#[local] Arguments init {enc dec} _ {ores ires} _ _.
#[local] Arguments release {enc dec ores ires} _ _ _ _.
#[local] Arguments disconnect_completion {enc dec ores ires} _ _.
#[local] Arguments fail_op {enc dec ores ires} _ _ _ _.
#[local] Arguments ping_extension {enc dec ores ires} _ _.
#[local] Arguments succeed_op {enc dec ores ires} _ _ _ _.
#[local] Arguments fail_all {enc dec ores ires} _ _ _ _.
#[local] Arguments succeed_all {enc dec ores ires} _ _ _.
#[local] Arguments andthen {enc dec ores ires} _ _.
#[local] Arguments try_ {enc dec ores ires} _ _.
#[local] Arguments pure {enc dec ores ires} _.
#[local] Arguments create_operation {enc dec ores ires} _ _.
#[local] Arguments passes_now {enc dec ores ires} _ _ _.
#[local] Arguments user_event {enc dec ores ires} _ _ _ _.
#[local] Arguments create_connect {enc dec ores ires} _ _.
#[local] Arguments net_opened {enc dec} _ {ores ires} _ _ _.
#[local] Arguments op_exists {enc dec ores ires} _ _.
#[local] Arguments op_passes {enc dec ores ires} _ _ _.
#[local] Arguments partition_policy {enc dec ores ires} _ _ _.
#[local] Arguments closed_current {enc dec ores ires} _ _.
#[local] Arguments slow_start_init {enc dec ores ires} _ _.
#[local] Arguments update_retries {enc dec ores ires} _ _.
#[local] Arguments fail_exceeding {enc dec ores ires} _ _.
#[local] Arguments has_pubrel {enc dec ores ires} _ _.
#[local] Arguments net_closed_raw {enc dec ores ires} _ _.
#[local] Arguments net_closed {enc dec ores ires} _ _.
#[local] Arguments net_write_completion {enc dec ores ires} _ _.
#[local] Arguments acquire_free_pid {enc dec ores ires} _ _.
#[local] Arguments acquire_pid_for {enc dec ores ires} _ _.
#[local] Arguments unbind {enc dec ores ires} _ _.
#[local] Arguments passes_receive_max {enc dec ores ires} _ _.
#[local] Arguments throttled {enc dec ores ires} _ _.
#[local] Arguments has_pending_ack {enc dec ores ires} _.
#[local] Arguments dequeue {enc dec ores ires} _ _ _.
#[local] Arguments fully_written {enc dec ores ires} _ _.
#[local] Arguments service_keep_alive {enc dec ores ires} _ _ _.
#[local] Arguments process_ack_timeouts {enc dec ores ires} _ _ _.
#[local] Arguments halt_on_error {enc dec ores ires} _ _.
#[local] Arguments next_service_time {enc dec ores ires} _ _ _.
#[local] Arguments build_settings {enc dec ores ires} _ _ _.
#[local] Arguments apply_session {enc dec ores ires} _ _ _.
#[local] Arguments hres_of {enc dec ores ires} _ _.
#[local] Arguments pre_connack {enc dec ores ires} _.
#[local] Arguments sum_ss {enc dec ores ires} _.
#[local] Arguments handle_pingresp {enc dec ores ires} _.
#[local] Arguments handle_suback {enc dec ores ires} _ _ _.
#[local] Arguments handle_unsuback {enc dec ores ires} _ _ _.
#[local] Arguments publish_qos_of {enc dec ores ires} _ _.
#[local] Arguments handle_puback {enc dec ores ires} _ _ _.
#[local] Arguments handle_pubrec {enc dec ores ires} _ _ _.
#[local] Arguments handle_pubrel {enc dec ores ires} _ _.
#[local] Arguments handle_pubcomp {enc dec ores ires} _ _ _.
#[local] Arguments handle_publish {enc dec ores ires} _ _.
#[local] Arguments handle_disconnect {enc dec ores ires} _ _ _.
#[local] Arguments is_connect_op {enc dec ores ires} _ _.
#[local] Arguments connect_in_queue {enc dec ores ires} _.
#[local] Arguments reset {enc dec ores ires} _ _.
#[local] Arguments out_of_res {enc dec ores ires} _ _.
#[local] Arguments nst_queue {enc dec ores ires} _ _ _ _.
#[local] Arguments earliest_tmo {enc dec ores ires} _.
#[local] Arguments SeatStop {enc dec ores ires} _.
#[local] Arguments SeatContinue {enc dec ores ires} _ _.
#[local] Arguments SeatEncode {enc dec ores ires} _.

(* ---- the delivery log ---- *)
Inductive dev := DO (e : oev) | DI (it : item) | DS (id : N) (p : packet).

(* ---- the reference machine of one operation ---- *)
Inductive phase :=
| GAbs | GNot | GCur (pid : N) (d : bool) | GPend (pid : N) | GInt (pid : N)
| GRel (pid : N) | GRelInt (pid : N) | GRelCur (pid : N) | GGone | GOther.
Record gst := mkG { g_sp : bool; g_sub : packet; g_ph : phase }.

(* a connection close (or a new connection): what was handed to the encoder / written is interrupted *)
Definition closed_ph (ph : phase) : phase :=
  match ph with
  | GCur pid true => GInt pid
  | GCur _ false => GNot
  | GPend pid => GInt pid
  | GRel pid | GRelCur pid => GRelInt pid
  | _ => ph
  end.
(* a CONNACK on which the session rules run.  While it is awaited nothing is seated and no publish is pending: an
   operation that the machine still has in one of those phases no longer exists (GGone).  An interrupted operation is
   kept when the session is present and restarts otherwise. *)
Definition sess_ph (sp : bool) (ph : phase) : phase :=
  match ph with
  | GCur _ _ | GPend _ | GRel _ | GRelCur _ => GGone
  | GInt _ | GRelInt _ => if sp then ph else GNot
  | _ => ph
  end.

Definition gnext (i : N) (g : gst) (e : dev) : gst :=
  match e with
  | DS id p =>
      match g_ph g with
      | GAbs => if (id =? i) && pubq p then mkG (g_sp g) (norm p) GNot else g
      | _ => g
      end
  | DO (OEncode id p _ true) =>
      if id =? i then
        match g_ph g, p with
        | GNot, Publish pb | GInt _, Publish pb => mkG (g_sp g) (g_sub g) (GCur (pub_pid pb) (pub_dup pb))
        | GRelInt pid, Pubrel _ => mkG (g_sp g) (g_sub g) (GRelCur pid)
        | GAbs, _ => mkG (g_sp g) (g_sub g) GOther
        | _, _ => g
        end
      else g
  | DO (ODone id) =>
      if id =? i then
        match g_ph g with
        | GCur pid _ => mkG (g_sp g) (g_sub g) (GPend pid)
        | GRelCur pid => mkG (g_sp g) (g_sub g) (GRel pid)
        | _ => g
        end
      else g
  | DO OOpen | DO OClose | DO OClear => mkG false (g_sub g) (closed_ph (g_ph g))
  | DI it =>
      match it_p it with
      | Connack c =>
          if it_sess it then
            mkG (ca_session_present c) (g_sub g) (sess_ph (ca_session_present c) (g_ph g))
          else g
      | Pubrec _ =>
          match it_rel it with
          | Some id => if id =? i then match g_ph g with GPend pid => mkG (g_sp g) (g_sub g) (GRel pid) | _ => g end else g
          | None => g
          end
      | _ => g
      end
  | _ => g
  end.

(* what the machine requires of an encoder construction for operation i *)
Definition gok (i : N) (g : gst) (e : dev) : Prop :=
  match e with
  | DO (OEncode id p _ true) =>
      id = i ->
      match g_ph g with
      | GAbs | GOther => True
      | GNot => exists pb, p = Publish pb /\ pub_dup pb = false /\ 1 <= pub_pid pb <= 65535 /\ pub_qos pb <> 0 /\ norm p = g_sub g
      | GInt pid => exists pb, p = Publish pb /\ pub_dup pb = true /\ pub_pid pb = pid /\ pub_qos pb <> 0 /\ norm p = g_sub g /\
                               g_sp g = true
      | GRel pid => p = Pubrel (default_ack pid)
      | GRelInt pid => p = Pubrel (default_ack pid) /\ g_sp g = true
      | GCur _ _ | GPend _ | GRelCur _ | GGone => False
      end
  | DI it =>
      (* a PUBREC sets the PUBREL slot of i only while its PUBLISH is pending, and acknowledges the identifier it was published with *)
      match it_p it, it_rel it with
      | Pubrec a, Some id => id = i -> match g_ph g with GPend pid | GRel pid => ack_pid a = pid | _ => False end
      | _, _ => True
      end
  (* an operation id is submitted before anything is handed to the encoder for it *)
  | DS id _ => id = i -> g_ph g = GAbs
  | _ => True
  end.

Fixpoint accepts (i : N) (g : gst) (l : list dev) : Prop :=
  match l with [] => True | e :: r => gok i g e /\ accepts i (gnext i g e) r end.
Definition grun (i : N) (g : gst) (l : list dev) : gst := fold_left (gnext i) l g.

Lemma accepts_app i l1 : forall g l2, accepts i g (l1 ++ l2) <-> accepts i g l1 /\ accepts i (grun i g l1) l2.
Proof.
  induction l1 as [|e l1 IH]; intros g l2; cbn [app accepts grun fold_left]; [tauto|].
  fold (grun i (gnext i g e) l1). rewrite IH. tauto.
Qed.
Lemma grun_app i l1 l2 g : grun i g (l1 ++ l2) = grun i (grun i g l1) l2.
Proof. unfold grun. apply fold_left_app. Qed.

Definition g0 : gst := mkG false Pingreq GAbs.

(* ---- the state side ---- *)
Section J.
  Context {enc dec ores ires : Type}.
  Notation state := (state enc dec ores ires).
  Variable i : N.

  Definition alive (s : state) : Prop := s_st s = PendingConnack \/ s_st s = Connected.
  Definition noppub (s : state) : Prop := forall p, ~ In (p, i) (s_ppub s).
  Definition onlyppub (s : state) (pid : N) : Prop := forall p, In (p, i) (s_ppub s) <-> p = pid.
  Definition dead_cur (s : state) : Prop := s_cur s = Some i -> ~ alive s.
  Definition parked (s : state) : Prop := In i (s_rq s) \/ (s_cur s = Some i /\ ~ alive s).
  Definition bnd (o : op) (pb : publish) (pid : N) : Prop := op_pid o = Some pid /\ pub_pid pb = pid /\ 1 <= pid <= 65535.
  Definition relof (pid : N) : option packet := Some (Pubrel (default_ack pid)).

  Definition PJ (s : state) (g : gst) (o : op) (pb : publish) : Prop :=
    match g_ph g with
    | GAbs => False
    | GNot => pub_dup pb = false /\ op_pubrel o = None /\ noppub s /\ dead_cur s /\
              (forall p, op_pid o = Some p -> pub_pid pb = p /\ 1 <= p <= 65535)
    | GCur pid d => s_cur s = Some i /\ pub_dup pb = d /\ op_pubrel o = None /\ noppub s /\ bnd o pb pid
    | GPend pid => onlyppub s pid /\ op_pubrel o = None /\ bnd o pb pid
    | GInt pid => pub_dup pb = true /\ op_pubrel o = None /\ noppub s /\ bnd o pb pid /\ parked s /\ dead_cur s /\
                  (s_st s = Connected -> g_sp g = true)
    | GRel pid => onlyppub s pid /\ op_pubrel o = relof pid /\ bnd o pb pid /\ pub_qos pb = 2
    | GRelInt pid => pub_dup pb = true /\ op_pubrel o = relof pid /\ noppub s /\ bnd o pb pid /\ parked s /\ dead_cur s /\
                     (s_st s = Connected -> g_sp g = true) /\ pub_qos pb = 2
    | GRelCur pid => s_cur s = Some i /\ pub_dup pb = true /\ op_pubrel o = relof pid /\ noppub s /\ bnd o pb pid /\ pub_qos pb = 2
    | GGone | GOther => False
    end.

  Definition JP (s : state) (g : gst) : Prop :=
    i < s_next_id s /\
    forall o, getop s i = Some o ->
      exists pb, op_packet o = Publish pb /\ pub_qos pb <> 0 /\ norm (Publish pb) = g_sub g /\ PJ s g o pb.

  Definition J (s : state) (g : gst) : Prop :=
    match g_ph g with
    | GAbs => forall o, getop s i = Some o -> pubq (op_packet o) = false
    | GOther => i < s_next_id s /\ forall o, getop s i = Some o -> pubq (op_packet o) = false
    | _ => JP s g
    end.

  Lemma J_abs s g : g_ph g = GAbs -> J s g = (forall o, getop s i = Some o -> pubq (op_packet o) = false).
  Proof. unfold J. intros ->. reflexivity. Qed.
  Lemma J_pub s g : g_ph g <> GAbs -> g_ph g <> GOther -> J s g = JP s g.
  Proof. unfold J. destruct (g_ph g); congruence. Qed.
  Lemma J_lt s g : g_ph g <> GAbs -> J s g -> i < s_next_id s.
  Proof. unfold J, JP. destruct (g_ph g); try congruence; intros _ [H _]; exact H. Qed.

  (* when the operation is gone nothing is claimed *)
  Lemma J_gone s g : (g_ph g <> GAbs -> i < s_next_id s) -> getop s i = None -> J s g.
  Proof.
    intros Hn Hg. unfold J, JP. destruct (g_ph g) eqn:E; try (split; [apply Hn; congruence|]); intros o Ho; congruence.
  Qed.

  (* ---- the frame ---- *)
  Definition ocore (o : op) := (op_packet o, op_pubrel o, op_pid o).

  Record quiet (s s' : state) : Prop := mkQuiet {
    q_op : forall o', getop s' i = Some o' ->
             (exists o, getop s i = Some o /\ ocore o' = ocore o) \/ (s_next_id s <= i /\ pubq (op_packet o') = false);
    q_pl : getop s' i <> None -> i < s_next_id s ->
             (forall p, In (p, i) (s_ppub s') <-> In (p, i) (s_ppub s)) /\
             (s_cur s' = Some i <-> s_cur s = Some i) /\ (In i (s_rq s') <-> In i (s_rq s));
    q_nid : s_next_id s <= s_next_id s';
    q_st : alive s' -> s_st s' = s_st s }.

  Lemma quiet_refl s : quiet s s.
  Proof.
    constructor; try tauto; [|lia]. intros o' H. left. exists o'. auto.
  Qed.

  Lemma quiet_trans s1 s2 s3 : quiet s1 s2 -> quiet s2 s3 -> quiet s1 s3.
  Proof.
    intros [A1 A2 A3 A4] [B1 B2 B3 B4]. constructor.
    - intros o3 H3. destruct (B1 _ H3) as [(o2 & H2 & E2)|[Hn Hq]].
      + destruct (A1 _ H2) as [(o1 & H1 & E1)|[Hn Hq]]; [left; exists o1; split; [exact H1|congruence]|right].
        split; [exact Hn|]. unfold ocore in E2. inversion E2. congruence.
      + right. split; [lia|exact Hq].
    - intros Hne Hlt. destruct (getop s3 i) as [o3|] eqn:E3; [|congruence].
      destruct (B1 _ eq_refl) as [(o2 & H2 & _)|[Hn _]]; [|lia].
      assert (N2 : getop s2 i <> None) by congruence. assert (L2 : i < s_next_id s2) by lia.
      destruct (A2 N2 Hlt) as (P1 & C1 & R1). destruct (B2 Hne L2) as (P2 & C2 & R2).
      split; [intros p; rewrite P2; apply P1|]. split; [rewrite C2; exact C1|rewrite R2; exact R1].
    - lia.
    - intros H3. rewrite (B4 H3). apply A4. unfold alive in *. rewrite <- (B4 H3). exact H3.
  Qed.

  Lemma alive_back s s' : (alive s' -> s_st s' = s_st s) -> ~ alive s -> ~ alive s'.
  Proof. intros H Hn Ha. apply Hn. unfold alive in *. rewrite <- (H Ha). exact Ha. Qed.

  Theorem quiet_J s s' g : quiet s s' -> J s g -> J s' g.
  Proof.
    intros [Q1 Q2 Q3 Q4] HJ. unfold J in *. destruct (g_ph g) eqn:Eph.
    { intros o' H'. destruct (Q1 _ H') as [(o & Ho & E)|[_ Hq]]; [|exact Hq]. unfold ocore in E. inversion E as [[E1 E2 E3]]. rewrite E1. eapply HJ; eauto. }
    9:{ destruct HJ as [Hlt HJ]. split; [lia|]. intros o' H'. destruct (Q1 _ H') as [(o & Ho & E)|[Hn _]]; [|lia].
        unfold ocore in E. inversion E as [[E1 E2 E3]]. rewrite E1. eapply HJ; eauto. }
    all: destruct HJ as [Hlt HJ]; (split; [lia|]); intros o' H'; destruct (Q1 _ H') as [(o & Ho & E)|[Hn _]]; [|lia];
      unfold ocore in E; inversion E as [[E1 E2 E3]]; destruct (HJ _ Ho) as (pb & Hp & Hq & Hs & HP);
      exists pb; (split; [congruence|]); (split; [exact Hq|]); (split; [exact Hs|]);
      assert (Hne : getop s' i <> None) by congruence; destruct (Q2 Hne Hlt) as (P & C & R);
      unfold PJ, noppub, onlyppub, dead_cur, parked, bnd in *; rewrite Eph in *; rewrite ?E2, ?E3.
    all: repeat match goal with H : _ /\ _ |- _ => destruct H end.
    all: repeat match goal with |- _ /\ _ => split end; try assumption; try tauto.
    all: try (intros p Hin; match goal with H : forall p, ~ In _ _ |- _ => apply (H p); apply P; exact Hin end).
    all: try (intros Hc; apply (alive_back _ _ Q4); match goal with H : s_cur _ = Some _ -> ~ alive _ |- _ => apply H; apply C; exact Hc end).
    all: try (intros Hx; match goal with H : forall p, In _ _ <-> _ |- _ => first [apply H, P, Hx|apply P, H, Hx] end).
    all: try (intros Hc; match goal with H : s_st _ = Connected -> _ |- _ => apply H; rewrite <- Q4; [exact Hc|right; exact Hc] end).
    all: try (match goal with H : In _ (s_rq _) \/ _ |- _ => destruct H as [Pk|[Pk1 Pk2]]; [left; apply R; exact Pk|right; split; [apply C; exact Pk1|apply (alive_back _ _ Q4); exact Pk2]] end).
    all: try (match goal with H : forall p, op_pid _ = Some p -> _ |- _ => eapply H; eassumption end).
    all: intros p; rewrite P; match goal with H : forall p, In _ _ <-> _ |- _ => apply H end.
  Qed.
End J.
