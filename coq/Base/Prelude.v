(* Common imports and settings for every file of the development.
   Stdlib only.  N for all protocol quantities, nat only for fuel / lengths. *)
From Coq Require Export List NArith ZArith Bool Lia Arith PeanoNat.
From Coq Require Export ZifyBool ZifyNat ZifyN.
Export ListNotations.

Global Arguments N.add : simpl never.
Global Arguments N.sub : simpl never.
Global Arguments N.mul : simpl never.
Global Arguments N.div : simpl never.
Global Arguments N.modulo : simpl never.
Global Arguments N.eqb : simpl never.
Global Arguments N.ltb : simpl never.
Global Arguments N.leb : simpl never.
Global Arguments N.min : simpl never.
Global Arguments N.max : simpl never.
Global Arguments N.pow : simpl never.
Global Arguments N.shiftl : simpl never.
Global Arguments N.shiftr : simpl never.
Global Arguments N.land : simpl never.
Global Arguments N.lor : simpl never.

Ltac Zify.zify_post_hook ::= Z.div_mod_to_equations.

(* bytes: list of N, each < 256 (side condition [bytes_ok]) *)
Definition bytes := list N.
Definition byte_ok (b : N) : bool := N.ltb b 256.
Definition bytes_ok (l : bytes) : bool := forallb byte_ok l.

(* length as N *)
Definition len {A} (l : list A) : N := N.of_nat (length l).

Lemma len_app {A} (a b : list A) : len (a ++ b) = (len a + len b)%N.
Proof. unfold len. rewrite app_length. lia. Qed.

Lemma len_nil {A} : len (@nil A) = 0%N.
Proof. reflexivity. Qed.

Lemma len_cons {A} (x : A) l : len (x :: l) = (1 + len l)%N.
Proof. unfold len. cbn [length]. lia. Qed.

(* Outcome of an entry point: Ok / Err kind / Panic site.  Kinds are the GneissError
   constructor names as small numbers; see Base/Outcome.v *)
