(* Outcomes of implementation entry points: Ok / Err kind / Panic.  Kinds are the GneissError
   constructors (messages are never modelled or compared). *)
From GM Require Import Base.Prelude.

Inductive errkind :=
| EUnimplemented | EOperationChannelFailure | EEncodingFailure | EDecodingFailure | EProtocolError
| EInvalidInboundTopicAlias | EInternalStateError | EConnectionClosed | EOfflineQueuePolicyFailed
| EAckTimeout | EClientClosed | EUserInitiatedDisconnect | EConnectionEstablishmentFailure
| EStdIoError | ETlsError | ETransportError | EPacketValidationFailure | EOtherError
| EMaxInterruptedRetriesExceeded.

Definition errkind_eqb (a b : errkind) : bool :=
  match a, b with
  | EUnimplemented, EUnimplemented | EOperationChannelFailure, EOperationChannelFailure
  | EEncodingFailure, EEncodingFailure | EDecodingFailure, EDecodingFailure
  | EProtocolError, EProtocolError | EInvalidInboundTopicAlias, EInvalidInboundTopicAlias
  | EInternalStateError, EInternalStateError | EConnectionClosed, EConnectionClosed
  | EOfflineQueuePolicyFailed, EOfflineQueuePolicyFailed | EAckTimeout, EAckTimeout
  | EClientClosed, EClientClosed | EUserInitiatedDisconnect, EUserInitiatedDisconnect
  | EConnectionEstablishmentFailure, EConnectionEstablishmentFailure | EStdIoError, EStdIoError
  | ETlsError, ETlsError | ETransportError, ETransportError
  | EPacketValidationFailure, EPacketValidationFailure | EOtherError, EOtherError
  | EMaxInterruptedRetriesExceeded, EMaxInterruptedRetriesExceeded => true
  | _, _ => false
  end.

(* Panic sites are identified by a small number documented where they are raised. *)
Inductive outcome (A : Type) :=
| Ok (a : A)
| Err (k : errkind)
| Panic (site : N).
Arguments Ok {A} a.
Arguments Err {A} k.
Arguments Panic {A} site.

Definition obind {A B} (o : outcome A) (f : A -> outcome B) : outcome B :=
  match o with Ok a => f a | Err k => Err k | Panic s => Panic s end.

Notation "'do' x <- o ; f" := (obind o (fun x => f)) (at level 200, x pattern, o at level 100, f at level 200).

Definition is_ok {A} (o : outcome A) : bool := match o with Ok _ => true | _ => false end.
Definition is_panic {A} (o : outcome A) : bool := match o with Panic _ => true | _ => false end.
