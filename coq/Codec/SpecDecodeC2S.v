(* Reference decoder for CLIENT -> SERVER control packets, written from the OASIS texts
   (MQTT Version 5.0, OASIS Standard 07 March 2019; MQTT Version 3.1.1, OASIS Standard 29 October 2014).
   It is NOT derived from the crate's (test-only) decoders: the wire knowledge lives in
     (1) [prop_type]      — MQTT5 Table 2-4 "Properties": identifier -> data type,
     (2) [allowed_*]      — the property lists of sections 3.1.2.11, 3.1.3.2, 3.3.2.3, 3.4.2.2, 3.5.2.2, 3.6.2.2,
                            3.7.2.2, 3.8.2.1, 3.10.2.1, 3.14.2.2, 3.15.2.2; only User Property (38) may repeat
                            in client->server packets (Subscription Identifier repeats only server->client),
     (3) [value_ok]       — the value restrictions attached to individual properties,
     (4) the fixed-header rules of Table 2-2 / 2-3 and the variable-header / payload layouts of section 3,
   plus three generic functions: [parse_items] (a property section is any sequence of
   identifier ‖ value(prop_type identifier)), [props] (length prefix, allowed keys, at-most-once) and the
   frame first byte ‖ VBI(remaining length) ‖ body with the body consumed exactly.

   Scope: wire well-formedness (what the specifications call a Malformed Packet) and the field-range
   rules stated for a single packet.  NOT checked: topic / topic-filter grammar (C16) and rules that relate
   a packet to session state or to other packets.

   Conventions of the shared packet records (Codec/Packets.v): what the wire cannot distinguish is
   normalised: an absent and an empty payload / will payload / client identifier decode to None, an empty
   user-property list decodes to None; fields the protocol version cannot express decode to None / defaults. *)
From GM Require Import Base.Prelude Codec.Prim Codec.Packets.
Open Scope N_scope.

Notation "'let?' x := e 'in' f" := (match e with Some x => f | None => None end)
  (at level 200, x pattern, e at level 100, f at level 200).
Notation "'check' c ; f" := (if c then f else None) (at level 200, c at level 100, f at level 200).

(* ---------- 1.5 data representation ---------- *)

(* 1.5.2 Two Byte Integer, 1.5.3 Four Byte Integer: big-endian *)
Definition p_u8 (b : bytes) : option (N * bytes) :=
  match b with x :: r => Some (x, r) | [] => None end.
Definition p_u16 (b : bytes) : option (N * bytes) :=
  match b with x1 :: x0 :: r => Some (x1 * 256 + x0, r) | _ => None end.
Definition p_u32 (b : bytes) : option (N * bytes) :=
  match b with x3 :: x2 :: x1 :: x0 :: r => Some (((x3 * 256 + x2) * 256 + x1) * 256 + x0, r) | _ => None end.

(* 1.5.5 Variable Byte Integer: 7 data bits per byte, least significant group first, bit 7 = "more";
   at most four bytes; "the encoded value MUST use the minimum number of bytes necessary" [MQTT-1.5.5-1],
   i.e. the most significant group is non-zero unless it is the only one. *)
Fixpoint p_vbi_n (n : nat) (b : bytes) : option (N * bytes) :=
  match n, b with
  | S n', x :: r =>
      if x <? 128 then Some (x, r)
      else let? (hi, r') := p_vbi_n n' r in
           check negb (hi =? 0) ; Some ((x - 128) + 128 * hi, r')
  | _, _ => None
  end.
Definition p_vbi (b : bytes) : option (N * bytes) := p_vbi_n 4 b.

(* exactly n bytes *)
Definition p_take (n : N) (b : bytes) : option (bytes * bytes) :=
  check n <=? len b ; Some (take n b, drop n b).

(* 1.5.6 Binary Data: two byte length, then that many bytes *)
Definition p_bin (b : bytes) : option (bytes * bytes) :=
  let? (n, r) := p_u16 b in p_take n r.

(* 1.5.4 UTF-8 Encoded String: well-formed UTF-8 (no surrogates) [MQTT-1.5.4-1], no U+0000 [MQTT-1.5.4-2] *)
Definition no_nul (s : bytes) : bool := forallb (fun x => negb (x =? 0)) s.
Definition str_ok (s : bytes) : bool := utf8_ok s && no_nul s.
Definition p_str (b : bytes) : option (bytes * bytes) :=
  let? (s, r) := p_bin b in check str_ok s ; Some (s, r).

(* ---------- 2.2.2 properties ---------- *)

Inductive ptype := TByte | TU16 | TU32 | TVbi | TStr | TBin | TPair.

(* Table 2-4 *)
Definition prop_type (k : N) : option ptype :=
  match k with
  | 1 => Some TByte    (* Payload Format Indicator *)
  | 2 => Some TU32     (* Message Expiry Interval *)
  | 3 => Some TStr     (* Content Type *)
  | 8 => Some TStr     (* Response Topic *)
  | 9 => Some TBin     (* Correlation Data *)
  | 11 => Some TVbi    (* Subscription Identifier *)
  | 17 => Some TU32    (* Session Expiry Interval *)
  | 18 => Some TStr    (* Assigned Client Identifier *)
  | 19 => Some TU16    (* Server Keep Alive *)
  | 21 => Some TStr    (* Authentication Method *)
  | 22 => Some TBin    (* Authentication Data *)
  | 23 => Some TByte   (* Request Problem Information *)
  | 24 => Some TU32    (* Will Delay Interval *)
  | 25 => Some TByte   (* Request Response Information *)
  | 26 => Some TStr    (* Response Information *)
  | 28 => Some TStr    (* Server Reference *)
  | 31 => Some TStr    (* Reason String *)
  | 33 => Some TU16    (* Receive Maximum *)
  | 34 => Some TU16    (* Topic Alias Maximum *)
  | 35 => Some TU16    (* Topic Alias *)
  | 36 => Some TByte   (* Maximum QoS *)
  | 37 => Some TByte   (* Retain Available *)
  | 38 => Some TPair   (* User Property *)
  | 39 => Some TU32    (* Maximum Packet Size *)
  | 40 => Some TByte   (* Wildcard Subscription Available *)
  | 41 => Some TByte   (* Subscription Identifier Available *)
  | 42 => Some TByte   (* Shared Subscription Available *)
  | _ => None
  end.

Inductive pval := VNum (n : N) | VData (d : bytes) | VPair (a b : bytes).
Definition item : Type := N * pval.

Definition p_value (t : ptype) (b : bytes) : option (pval * bytes) :=
  match t with
  | TByte => let? (x, r) := p_u8 b in Some (VNum x, r)
  | TU16 => let? (x, r) := p_u16 b in Some (VNum x, r)
  | TU32 => let? (x, r) := p_u32 b in Some (VNum x, r)
  | TVbi => let? (x, r) := p_vbi b in Some (VNum x, r)
  | TStr => let? (s, r) := p_str b in Some (VData s, r)
  | TBin => let? (s, r) := p_bin b in Some (VData s, r)
  | TPair => let? (a, r) := p_str b in let? (c, r') := p_str r in Some (VPair a c, r')
  end.

(* restrictions on individual property values:
   1 (3.3.2.3.2) 0 or 1; 23 (3.1.2.11.7), 25 (3.1.2.11.6) 0 or 1; 33 (3.1.2.11.3) not 0;
   39 (3.1.2.11.4) not 0; 35 (3.3.2.3.4) not 0; 11 (3.8.2.1.2) 1..268435455 *)
Definition value_ok (k : N) (v : pval) : bool :=
  match v with
  | VNum n =>
      if (k =? 1) || (k =? 23) || (k =? 25) then n <=? 1
      else if (k =? 33) || (k =? 39) || (k =? 35) || (k =? 11) then negb (n =? 0)
      else true
  | _ => true
  end.

(* the identifier is a Variable Byte Integer (2.2.2.2); all defined identifiers are below 128 *)
Definition p_item (b : bytes) : option (item * bytes) :=
  let? (k, r) := p_vbi b in
  let? t := prop_type k in
  let? (v, r') := p_value t r in
  check value_ok k v ; Some ((k, v), r').

(* every item takes at least 2 bytes, so |b| + 1 iterations always suffice *)
Fixpoint parse_items (fuel : nat) (b : bytes) : option (list item) :=
  match b with
  | [] => Some []
  | _ =>
      match fuel with
      | O => None
      | S f => let? (it, r) := p_item b in let? its := parse_items f r in Some (it :: its)
      end
  end.

Definition USER_PROPERTY : N := 38.
Fixpoint count_key (k : N) (its : list item) : N :=
  match its with [] => 0 | (k', _) :: r => (if k' =? k then 1 else 0) + count_key k r end.
Definition mem (k : N) (l : list N) : bool := existsb (N.eqb k) l.

(* 2.2.2.1 Property Length ‖ properties; every identifier allowed for this packet; "It is a Protocol
   Error to include [it] more than once" for every property except User Property *)
Definition p_props (allowed : list N) (b : bytes) : option (list item * bytes) :=
  let? (n, r) := p_vbi b in
  let? (sec, rest) := p_take n r in
  let? its := parse_items (S (length sec)) sec in
  check forallb (fun it => mem (fst it) allowed) its ;
  check forallb (fun k => (k =? USER_PROPERTY) || (count_key k its <=? 1)) allowed ;
  Some (its, rest).

Fixpoint get_num (k : N) (its : list item) : option N :=
  match its with
  | [] => None
  | (k', VNum n) :: r => if k' =? k then Some n else get_num k r
  | _ :: r => get_num k r
  end.
Fixpoint get_data (k : N) (its : list item) : option bytes :=
  match its with
  | [] => None
  | (k', VData d) :: r => if k' =? k then Some d else get_data k r
  | _ :: r => get_data k r
  end.
Fixpoint get_pairs (its : list item) : list user_property :=
  match its with
  | [] => []
  | (_, VPair a c) :: r => {| up_name := a; up_value := c |} :: get_pairs r
  | _ :: r => get_pairs r
  end.
Definition get_bool (k : N) (its : list item) : option bool :=
  match get_num k its with Some n => Some (negb (n =? 0)) | None => None end.
(* the records keep "no user property" as None *)
Definition get_ups (its : list item) : option (list user_property) :=
  match get_pairs its with [] => None | l => Some l end.
Definition nonempty (d : bytes) : option bytes := match d with [] => None | _ => Some d end.

Definition allowed_connect : list N := [17; 33; 39; 34; 25; 23; 38; 21; 22].   (* 3.1.2.11 *)
Definition allowed_will : list N := [24; 1; 2; 3; 8; 9; 38].                   (* 3.1.3.2 *)
(* 3.3.2.3 without Subscription Identifier: "A PUBLISH packet sent from a Client to a Server MUST NOT
   contain a Subscription Identifier" [MQTT-3.3.4-6] *)
Definition allowed_publish : list N := [1; 2; 35; 8; 9; 38; 3].
Definition allowed_ack : list N := [31; 38].                                    (* 3.4.2.2, 3.5.2.2, 3.6.2.2, 3.7.2.2 *)
Definition allowed_subscribe : list N := [11; 38].                             (* 3.8.2.1 *)
Definition allowed_unsubscribe : list N := [38].                               (* 3.10.2.1 *)
Definition allowed_disconnect : list N := [17; 31; 38; 28].                    (* 3.14.2.2 *)
Definition allowed_auth : list N := [21; 22; 31; 38].                          (* 3.15.2.2 *)

(* ---------- reason codes ---------- *)
Definition rc_puback : list N := [0; 16; 128; 131; 135; 144; 145; 151; 153].   (* Table 3-4; PUBREC Table 3-5 is the same *)
Definition rc_pubrel : list N := [0; 146].                                     (* Tables 3-6, 3-7 *)
Definition rc_disconnect : list N :=                                           (* Table 3-13 *)
  [0; 4; 128; 129; 130; 131; 135; 137; 139; 141; 142; 143; 144; 147; 148; 149; 150; 151; 152; 153;
   154; 155; 156; 157; 158; 159; 160; 161; 162].
Definition rc_auth : list N := [0; 24; 25].                                    (* Table 3-14 *)

(* ---------- packet bodies ---------- *)

(* 3.3 PUBLISH.  flags: bit 3 DUP, bits 2-1 QoS, bit 0 RETAIN *)
Definition d_publish (v : version) (flags : N) (b : bytes) : option packet :=
  let retain := flags mod 2 in
  let qos := flags / 2 mod 4 in
  let dup := flags / 8 in
  check negb (qos =? 3) ;                                   (* [MQTT-3.3.1-4] *)
  check negb ((qos =? 0) && (dup =? 1)) ;                   (* [MQTT-3.3.1-2] *)
  let? (topic, b1) := p_str b in
  let? (pid, b2) := (if qos =? 0 then Some (0, b1) else p_u16 b1) in
  check (qos =? 0) || negb (pid =? 0) ;                     (* [MQTT-2.2.1-3] *)
  let? (its, b3) := (match v with V5 => p_props allowed_publish b2 | V311 => Some ([], b2) end) in
  (* a topic name is at least one character [MQTT-4.7.3-1] unless (MQTT5) a Topic Alias stands for it (3.3.2.3.4) *)
  check negb (len topic =? 0) || (match get_num 35 its with Some _ => true | None => false end) ;
  Some (Publish {| pub_pid := pid; pub_topic := topic; pub_qos := qos; pub_dup := (dup =? 1); pub_retain := (retain =? 1);
                   pub_payload := nonempty b3; pub_pfi := get_num 1 its; pub_mei := get_num 2 its;
                   pub_alias := get_num 35 its; pub_response_topic := get_data 8 its;
                   pub_correlation := get_data 9 its; pub_subids := None; pub_content_type := get_data 3 its;
                   pub_up := get_ups its |}).

(* 3.4-3.7 PUBACK PUBREC PUBREL PUBCOMP.  MQTT5: "The Reason Code and Property Length can be omitted if the
   Reason Code is 0x00 (Success) and there are no Properties"; a remaining length below 4 means no properties *)
Definition d_ack (v : version) (codes : list N) (b : bytes) : option ack :=
  let? (pid, b1) := p_u16 b in
  check negb (pid =? 0) ;
  match v with
  | V311 => match b1 with [] => Some (default_ack pid) | _ => None end
  | V5 =>
      match b1 with
      | [] => Some (default_ack pid)
      | _ =>
          let? (rc, b2) := p_u8 b1 in
          check mem rc codes ;
          match b2 with
          | [] => Some {| ack_pid := pid; ack_rc := rc; ack_reason := None; ack_up := None |}
          | _ =>
              let? (its, b3) := p_props allowed_ack b2 in
              match b3 with
              | [] => Some {| ack_pid := pid; ack_rc := rc; ack_reason := get_data 31 its; ack_up := get_ups its |}
              | _ => None
              end
          end
      end
  end.

(* 3.8.3 SUBSCRIBE payload: Topic Filter ‖ options byte, at least one pair [MQTT-3.8.3-2].
   MQTT5 options: bits 1-0 QoS (not 3), bit 2 No Local, bit 3 Retain As Published, bits 5-4 Retain Handling
   (not 3), bits 7-6 reserved 0 [MQTT-3.8.3-5].  MQTT 3.1.1: bits 1-0 QoS, upper six bits 0 [MQTT-3-8.3-4]. *)
Definition d_subscription (v : version) (b : bytes) : option (subscription * bytes) :=
  let? (f, b1) := p_str b in
  check negb (len f =? 0) ;                                 (* [MQTT-4.7.3-1] *)
  let? (o, b2) := p_u8 b1 in
  let qos := o mod 4 in
  check negb (qos =? 3) ;
  match v with
  | V5 =>
      let rh := o / 16 mod 4 in
      check negb (rh =? 3) ;
      check o / 64 =? 0 ;
      Some ({| sub_filter := f; sub_qos := qos; sub_no_local := (o / 4 mod 2 =? 1); sub_rap := (o / 8 mod 2 =? 1);
               sub_rh := rh |}, b2)
  | V311 =>
      check o / 4 =? 0 ;
      Some ({| sub_filter := f; sub_qos := qos; sub_no_local := false; sub_rap := false; sub_rh := 0 |}, b2)
  end.

Fixpoint d_subscriptions (fuel : nat) (v : version) (b : bytes) : option (list subscription) :=
  match b with
  | [] => Some []
  | _ =>
      match fuel with
      | O => None
      | S f => let? (s, r) := d_subscription v b in let? l := d_subscriptions f v r in Some (s :: l)
      end
  end.

Definition d_subscribe (v : version) (b : bytes) : option packet :=
  let? (pid, b1) := p_u16 b in
  check negb (pid =? 0) ;                                   (* [MQTT-2.2.1-3] *)
  let? (its, b2) := (match v with V5 => p_props allowed_subscribe b1 | V311 => Some ([], b1) end) in
  let? subs := d_subscriptions (S (length b2)) v b2 in
  check negb (len subs =? 0) ;
  Some (Subscribe {| s_pid := pid; s_subs := subs; s_subid := get_num 11 its; s_up := get_ups its |}).

(* 3.10.3 UNSUBSCRIBE payload: at least one Topic Filter [MQTT-3.10.3-2] *)
Fixpoint d_filters (fuel : nat) (b : bytes) : option (list bytes) :=
  match b with
  | [] => Some []
  | _ =>
      match fuel with
      | O => None
      | S f =>
          let? (s, r) := p_str b in
          check negb (len s =? 0) ;
          let? l := d_filters f r in Some (s :: l)
      end
  end.

Definition d_unsubscribe (v : version) (b : bytes) : option packet :=
  let? (pid, b1) := p_u16 b in
  check negb (pid =? 0) ;
  let? (its, b2) := (match v with V5 => p_props allowed_unsubscribe b1 | V311 => Some ([], b1) end) in
  let? fs := d_filters (S (length b2)) b2 in
  check negb (len fs =? 0) ;
  Some (Unsubscribe {| u_pid := pid; u_filters := fs; u_up := get_ups its |}).

(* 3.14 DISCONNECT.  MQTT 3.1.1: no variable header, no payload.  MQTT5: reason code (0 if the remaining
   length is 0), properties (none if the remaining length is below 2) *)
Definition default_disconnect : disconnect :=
  {| d_rc := 0; d_sei := None; d_reason := None; d_up := None; d_server_ref := None |}.
Definition d_disconnect (v : version) (b : bytes) : option packet :=
  match v with
  | V311 => match b with [] => Some (Disconnect default_disconnect) | _ => None end
  | V5 =>
      match b with
      | [] => Some (Disconnect default_disconnect)
      | _ =>
          let? (rc, b1) := p_u8 b in
          check mem rc rc_disconnect ;
          match b1 with
          | [] => Some (Disconnect {| d_rc := rc; d_sei := None; d_reason := None; d_up := None; d_server_ref := None |})
          | _ =>
              let? (its, b2) := p_props allowed_disconnect b1 in
              match b2 with
              | [] => Some (Disconnect {| d_rc := rc; d_sei := get_num 17 its; d_reason := get_data 31 its;
                                          d_up := get_ups its; d_server_ref := get_data 28 its |})
              | _ => None
              end
          end
      end
  end.

(* 3.15 AUTH (MQTT5 only).  Remaining length 0 = Success without properties; otherwise reason code and
   property section *)
Definition d_auth (v : version) (b : bytes) : option packet :=
  match v with
  | V311 => None
  | V5 =>
      match b with
      | [] => Some (Auth {| au_rc := 0; au_method := None; au_data := None; au_reason := None; au_up := None |})
      | _ =>
          let? (rc, b1) := p_u8 b in
          check mem rc rc_auth ;
          let? (its, b2) := p_props allowed_auth b1 in
          match b2 with
          | [] => Some (Auth {| au_rc := rc; au_method := get_data 21 its; au_data := get_data 22 its;
                                au_reason := get_data 31 its; au_up := get_ups its |})
          | _ => None
          end
      end
  end.

(* 3.1 CONNECT.  Protocol Name "MQTT", Protocol Level 5 / 4, Connect Flags:
   bit 7 User Name, bit 6 Password, bit 5 Will Retain, bits 4-3 Will QoS, bit 2 Will Flag, bit 1 Clean Start,
   bit 0 reserved = 0 [MQTT-3.1.2-3]; Will QoS / Will Retain are 0 without Will Flag [MQTT-3.1.2-11, -13],
   Will QoS is not 3 [MQTT-3.1.2-12].  MQTT 3.1.1 only: Password requires User Name [MQTT-3.1.2-22]; an empty
   Client Identifier requires CleanSession [MQTT-3.1.3-7].  MQTT5: Authentication Data requires
   Authentication Method (3.1.2.11.10).
   Payload order: Client Identifier, Will Properties (5), Will Topic, Will Payload, User Name, Password. *)
Definition MQTT_NAME : bytes := [77; 81; 84; 84].
Fixpoint bytes_eqb (a b : bytes) : bool :=
  match a, b with
  | [], [] => true
  | x :: a', y :: b' => (x =? y) && bytes_eqb a' b'
  | _, _ => false
  end.

Definition d_connect (v : version) (b : bytes) : option packet :=
  let? (name, b1) := p_str b in
  check bytes_eqb name MQTT_NAME ;
  let? (level, b2) := p_u8 b1 in
  check level =? (match v with V5 => 5 | V311 => 4 end) ;
  let? (f, b3) := p_u8 b2 in
  let clean := f / 2 mod 2 in
  let willf := f / 4 mod 2 in
  let wqos := f / 8 mod 4 in
  let wret := f / 32 mod 2 in
  let passf := f / 64 mod 2 in
  let userf := f / 128 in
  check f mod 2 =? 0 ;
  check negb (wqos =? 3) ;
  check (willf =? 1) || ((wqos =? 0) && (wret =? 0)) ;
  check (match v with V311 => (passf =? 0) || (userf =? 1) | V5 => true end) ;
  let? (ka, b4) := p_u16 b3 in
  let? (its, b5) := (match v with V5 => p_props allowed_connect b4 | V311 => Some ([], b4) end) in
  check (match get_data 22 its, get_data 21 its with Some _, None => false | _, _ => true end) ;
  let? (cid, b6) := p_str b5 in
  check (match v with V311 => negb (len cid =? 0) || (clean =? 1) | V5 => true end) ;
  let? (will, b7) :=
    (if willf =? 1 then
       let? (wits, c1) := (match v with V5 => p_props allowed_will b6 | V311 => Some ([], b6) end) in
       let? (wtopic, c2) := p_str c1 in
       let? (wpayload, c3) := p_bin c2 in
       Some (Some (wits,
                   {| pub_pid := 0; pub_topic := wtopic; pub_qos := wqos; pub_dup := false; pub_retain := (wret =? 1);
                      pub_payload := nonempty wpayload; pub_pfi := get_num 1 wits; pub_mei := get_num 2 wits;
                      pub_alias := None; pub_response_topic := get_data 8 wits; pub_correlation := get_data 9 wits;
                      pub_subids := None; pub_content_type := get_data 3 wits; pub_up := get_ups wits |}), c3)
     else Some (None, b6)) in
  let? (user, b8) := (if userf =? 1 then let? (s, r) := p_str b7 in Some (Some s, r) else Some (None, b7)) in
  let? (pass, b9) := (if passf =? 1 then let? (s, r) := p_bin b8 in Some (Some s, r) else Some (None, b8)) in
  match b9 with
  | [] =>
      Some (Connect {| con_keep_alive := ka; con_clean_start := (clean =? 1); con_client_id := nonempty cid;
                       con_username := user; con_password := pass; con_sei := get_num 17 its;
                       con_rri := get_bool 25 its; con_rpi := get_bool 23 its; con_receive_max := get_num 33 its;
                       con_tam := get_num 34 its; con_max_packet := get_num 39 its;
                       con_auth_method := get_data 21 its; con_auth_data := get_data 22 its;
                       con_will_delay := (match will with Some (wits, _) => get_num 24 wits | None => None end);
                       con_will := (match will with Some (_, w) => Some w | None => None end);
                       con_up := get_ups its |})
  | _ => None
  end.

(* ---------- 2.1 fixed header ---------- *)

(* Table 2-2 flag bits: PUBLISH carries DUP/QoS/RETAIN; PUBREL, SUBSCRIBE, UNSUBSCRIBE must be 0010; all other
   types 0000 [MQTT-2.1.3-1] *)
Definition d_body (v : version) (ptype flags : N) (body : bytes) : option packet :=
  match ptype with
  | 1 => check flags =? 0 ; d_connect v body
  | 3 => d_publish v flags body
  | 4 => check flags =? 0 ; let? a := d_ack v rc_puback body in Some (Puback a)
  | 5 => check flags =? 0 ; let? a := d_ack v rc_puback body in Some (Pubrec a)
  | 6 => check flags =? 2 ; let? a := d_ack v rc_pubrel body in Some (Pubrel a)
  | 7 => check flags =? 0 ; let? a := d_ack v rc_pubrel body in Some (Pubcomp a)
  | 8 => check flags =? 2 ; d_subscribe v body
  | 10 => check flags =? 2 ; d_unsubscribe v body
  | 12 => check flags =? 0 ; match body with [] => Some Pingreq | _ => None end
  | 14 => check flags =? 0 ; d_disconnect v body
  | 15 => check flags =? 0 ; d_auth v body
  | _ => None     (* 0 reserved; 2, 9, 11, 13 are server -> client only *)
  end.

(* One control packet from the front of [b]: byte 1 = type (bits 7-4) and flags (bits 3-0), then the
   Remaining Length as a Variable Byte Integer, then exactly that many bytes of variable header + payload *)
Definition spec_decode (v : version) (b : bytes) : option (packet * bytes) :=
  let? (first, b1) := p_u8 b in
  let? (rl, b2) := p_vbi b1 in
  let? (body, rest) := p_take rl b2 in
  let? p := d_body v (first / 16) (first mod 16) body in
  Some (p, rest).
