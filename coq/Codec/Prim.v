(* Byte-level primitives shared by every codec model: big-endian integers, the variable-length
   integer of MQTT (encode.rs encode_vli 573-596, compute_variable_length_integer_encode_size
   557-571; decode.rs decode_vli 370-394), length-prefixed strings, and a UTF-8 validity
   check equivalent to Rust's str::from_utf8 (well-formed UTF-8 per Unicode Table 3-7). *)
From GM Require Import Base.Prelude Base.Outcome.
Open Scope N_scope.

Definition VLI_MAX : N := 268435455.  (* 2^28 - 1 *)

(* Rust `x as u16`, `x as u32` *)
Definition u16 (x : N) : N := x mod 65536.
Definition u32 (x : N) : N := x mod 4294967296.

Definition be16 (x : N) : bytes := [x / 256 mod 256; x mod 256].
Definition be32 (x : N) : bytes := [x / 16777216 mod 256; x / 65536 mod 256; x / 256 mod 256; x mod 256].

(* encode_vli: value <= VLI_MAX is checked by the caller ([encode_vli] below) *)
Fixpoint vli_bytes_fuel (fuel : nat) (v : N) : bytes :=
  match fuel with
  | O => []
  | S f => if v / 128 =? 0 then [v mod 128] else (v mod 128 + 128) :: vli_bytes_fuel f (v / 128)
  end.
Definition vli_bytes (v : N) : bytes := vli_bytes_fuel 5 v.

Definition encode_vli (v : N) : outcome bytes :=
  if VLI_MAX <? v then Err EEncodingFailure else Ok (vli_bytes v).

(* compute_variable_length_integer_encode_size *)
Definition vli_size (v : N) : outcome N :=
  if v <? 128 then Ok 1 else if v <? 16384 then Ok 2 else if v <? 2097152 then Ok 3
  else if v <? 268435456 then Ok 4 else Err EEncodingFailure.

(* decode_vli: Ok None = InsufficientData, Ok (Some (value, rest)), Err = 4 continuation bytes *)
Inductive vli_result := VliInsufficient | VliValue (v : N) (rest : bytes) | VliError.

Fixpoint decode_vli_aux (n : nat) (shift value : N) (b : bytes) : vli_result :=
  match n with
  | O => VliError
  | S n' =>
      match b with
      | [] => VliInsufficient
      | x :: rest =>
          let value' := value + (x mod 128) * shift in
          if x <? 128 then VliValue value' rest else decode_vli_aux n' (shift * 128) value' rest
      end
  end.
Definition decode_vli (b : bytes) : vli_result := decode_vli_aux 4 1 0 b.

(* ---- UTF-8 well-formedness (Rust from_utf8) ---- *)
Definition cont (b : N) : bool := (128 <=? b) && (b <=? 191).

Fixpoint utf8_ok_fuel (fuel : nat) (l : bytes) : bool :=
  match fuel with
  | O => match l with [] => true | _ => false end
  | S f =>
    match l with
    | [] => true
    | b0 :: r =>
      if b0 <? 128 then utf8_ok_fuel f r
      else if (194 <=? b0) && (b0 <=? 223) then
        match r with b1 :: r' => cont b1 && utf8_ok_fuel f r' | _ => false end
      else if b0 =? 224 then
        match r with b1 :: b2 :: r' => (160 <=? b1) && (b1 <=? 191) && cont b2 && utf8_ok_fuel f r' | _ => false end
      else if ((225 <=? b0) && (b0 <=? 236)) || (b0 =? 238) || (b0 =? 239) then
        match r with b1 :: b2 :: r' => cont b1 && cont b2 && utf8_ok_fuel f r' | _ => false end
      else if b0 =? 237 then
        match r with b1 :: b2 :: r' => (128 <=? b1) && (b1 <=? 159) && cont b2 && utf8_ok_fuel f r' | _ => false end
      else if b0 =? 240 then
        match r with b1 :: b2 :: b3 :: r' => (144 <=? b1) && (b1 <=? 191) && cont b2 && cont b3 && utf8_ok_fuel f r' | _ => false end
      else if (241 <=? b0) && (b0 <=? 243) then
        match r with b1 :: b2 :: b3 :: r' => cont b1 && cont b2 && cont b3 && utf8_ok_fuel f r' | _ => false end
      else if b0 =? 244 then
        match r with b1 :: b2 :: b3 :: r' => (128 <=? b1) && (b1 <=? 143) && cont b2 && cont b3 && utf8_ok_fuel f r' | _ => false end
      else false
    end
  end.
Definition utf8_ok (l : bytes) : bool := utf8_ok_fuel (S (length l)) l.

(* list helpers with N indices *)
Definition take (n : N) (l : bytes) : bytes := firstn (N.to_nat n) l.
Definition drop (n : N) (l : bytes) : bytes := skipn (N.to_nat n) l.
