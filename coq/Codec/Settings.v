(* Records shared by the validation model and the engine model (owned by the main builder).
   [settings] mirrors NegotiatedSettings (client/mod.rs:287-324), [connect_opts] mirrors
   ConnectOptions (client/config.rs:497-525), field for field, in declaration order. *)
From GM Require Import Base.Prelude Codec.Packets.
Open Scope N_scope.

Record settings := {
  st_maximum_qos : N;
  st_session_expiry_interval : N;
  st_receive_maximum_from_server : N;
  st_maximum_packet_size_to_server : N;
  st_topic_alias_maximum_to_server : N;
  st_server_keep_alive : N;
  st_retain_available : bool;
  st_wildcard_subscriptions_available : bool;
  st_subscription_identifiers_available : bool;
  st_shared_subscriptions_available : bool;
  st_rejoined_session : bool;
  st_client_id : bytes }.

(* rejoin_session_policy: 0 = PostSuccess, 1 = Always, 2 = Never *)
Record connect_opts := {
  co_keep_alive : option N;
  co_rejoin : N;
  co_client_id : option bytes;
  co_username : option bytes;
  co_password : option bytes;
  co_sei : option N;
  co_rri : option bool;
  co_rpi : option bool;
  co_receive_max : option N;
  co_tam : option N;
  co_max_packet : option N;
  co_will_delay : option N;
  co_will : option publish;
  co_up : option (list user_property) }.

(* ConnectOptions::to_connect_packet (client/config.rs:549-581) *)
Definition to_connect_packet (o : connect_opts) (connected_previously : bool) : connect :=
  let clean_start :=
    if co_rejoin o =? 0 then negb connected_previously
    else if co_rejoin o =? 1 then false else true in
  {| con_keep_alive := match co_keep_alive o with Some k => k | None => 0 end;
     con_clean_start := clean_start;
     con_client_id := co_client_id o;
     con_username := co_username o;
     con_password := co_password o;
     con_sei := co_sei o;
     con_rri := co_rri o;
     con_rpi := co_rpi o;
     con_receive_max := co_receive_max o;
     con_tam := co_tam o;
     con_max_packet := co_max_packet o;
     con_auth_method := None;
     con_auth_data := None;
     con_will_delay := co_will_delay o;
     con_will := co_will o;
     con_up := co_up o |}.
