(* Implementation model: the per-packet decoders of gneiss-mqtt (NON-test build).

   Transcribed from
     decode.rs   167-228  decode_packet5 / decode_packet311 / decode_packet
                 32-131   the three ack macros (PUBACK / PUBREC / PUBREL / PUBCOMP)
                 370-678  decode_vli_into_mutable, decode_length_prefixed_string,
                          decode_optional_length_prefixed_string / _bytes, decode_user_property,
                          decode_optional_u8_as_bool, decode_u8_as_enum, decode_optional_u8_as_enum,
                          decode_u16, decode_optional_u16, decode_optional_u32
     mqtt/connack.rs 151-273, publish.rs 223-331, suback.rs 105-191, unsuback.rs 88-171,
     pingresp.rs 30-44, disconnect.rs 93-167, auth.rs 86-135, and the non-test stubs
     connect.rs 506-509 / 604-607, subscribe.rs 208-211 / 254-257, unsubscribe.rs 159-162 /
     192-195, pingreq.rs 42-45 (all `Err(Unimplemented)`).

   Conventions.
   * Every Rust slice expression that can panic (`b[0]`, `&b[n..]`, `&b[..n]`,
     `try_into().unwrap()`) is an explicit checked operation returning [Panic site]; the checks
     the Rust code performs BEFORE the access are transcribed as they are, so that "the decoder
     never panics" is a theorem (CodecProofs/DecNoPanic.v) and not an assumption.
   * `while !bytes.is_empty()` loops run on explicit fuel = length of the property section
     (every iteration consumes the key byte); exhaustion is [Panic 98], proved unreachable.
   * Errors are the GneissError constructor the code returns: DecodingFailure everywhere
     (`std::str::from_utf8(..)?` converts through `From<Utf8Error>`, error.rs:498, also to
     DecodingFailure); Unimplemented for the four stubs.
   * The trailing `panic!("... internal error")` after each `if let MqttPacket::X(packet) =
     box_packet.as_mut()` is not modelled: the box was constructed as that variant two lines
     earlier, the pattern cannot fail.
   * Enum-typed fields are stored as their wire value (what `TryFrom<u8>` accepted); the 3.1.1
     CONNACK return code is stored as the MQTT 5 reason code it is converted to. *)
From GM Require Import Base.Prelude Base.Outcome Codec.Packets Codec.Prim Codec.ReasonCodes.
Open Scope N_scope.

Definition dfail {A} : outcome A := Err EDecodingFailure.

(* ---- Rust slice operations (panic sites) ---- *)
(* b[0] *)
Definition index0 (site : N) (b : bytes) : outcome N :=
  match b with x :: _ => Ok x | [] => Panic site end.
(* &b[n..] *)
Definition slice_from (site n : N) (b : bytes) : outcome bytes :=
  if n <=? len b then Ok (drop n b) else Panic site.
(* &b[..n] *)
Definition slice_to (site n : N) (b : bytes) : outcome bytes :=
  if n <=? len b then Ok (take n b) else Panic site.
(* u16::from_be_bytes(slice.try_into().unwrap()) *)
Definition be16_of (site : N) (h : bytes) : outcome N :=
  match h with [x; y] => Ok (x * 256 + y) | _ => Panic site end.
(* u32::from_be_bytes(slice.try_into().unwrap()) *)
Definition be32_of (site : N) (h : bytes) : outcome N :=
  match h with [a; b; c; d] => Ok (((a * 256 + b) * 256 + c) * 256 + d) | _ => Panic site end.

(* converter argument of decode_u8_as_enum: a TryFrom<u8> table *)
Definition conv_table (ok : N -> bool) (x : N) : outcome N := if ok x then Ok x else dfail.
Definition conv_connack311 (x : N) : outcome N :=
  match impl_connack311_convert x with Some v => Ok v | None => dfail end.

(* ---- decode.rs 396-411 decode_vli_into_mutable (decode_vli itself: Prim.decode_vli) ---- *)
Definition decode_vli_into_mutable (b : bytes) : outcome (N * bytes) :=
  match decode_vli b with
  | VliError => dfail                       (* decode_vli(buffer)? *)
  | VliInsufficient => dfail
  | VliValue v rest => Ok (v, rest)
  end.

(* `str::contains('\0')` on the result of a successful `from_utf8`: in well-formed UTF-8 the only
   code point whose encoding contains a zero byte is U+0000 itself, so the test is "some byte is 0"
   (fix a42e3b8, MQTT-1.5.4-2: a decoded string containing U+0000 is a decoding failure). *)
Definition str_contains_nul (s : bytes) : bool := existsb (fun x => x =? 0) s.

(* ---- decode.rs 413-436 decode_length_prefixed_string ---- *)
Definition decode_length_prefixed_string (b : bytes) : outcome (bytes * bytes) :=
  if len b <? 2 then dfail else
  do h <- slice_to 10 2 b;
  do value_length <- be16_of 11 h;
  do mutable_bytes <- slice_from 12 2 b;
  if len mutable_bytes <? value_length then dfail else
  do s <- slice_to 13 value_length mutable_bytes;
  if negb (utf8_ok s) then dfail else
  if str_contains_nul s then dfail else
  do rest <- slice_from 14 value_length mutable_bytes;
  Ok (s, rest).

(* ---- decode.rs 438-467 decode_optional_length_prefixed_string ---- *)
Definition decode_optional_length_prefixed_string (b : bytes) (value : option bytes) : outcome (option bytes * bytes) :=
  if len b <? 2 then dfail else
  match value with Some _ => dfail | None =>
  do h <- slice_to 15 2 b;
  do value_length <- be16_of 16 h;
  do mutable_bytes <- slice_from 17 2 b;
  if len mutable_bytes <? value_length then dfail else
  do s <- slice_to 18 value_length mutable_bytes;
  if negb (utf8_ok s) then dfail else
  if str_contains_nul s then dfail else
  do rest <- slice_from 19 value_length mutable_bytes;
  Ok (Some s, rest)
  end.

(* ---- decode.rs 491-514 decode_optional_length_prefixed_bytes ---- *)
Definition decode_optional_length_prefixed_bytes (b : bytes) (value : option bytes) : outcome (option bytes * bytes) :=
  if len b <? 2 then dfail else
  match value with Some _ => dfail | None =>
  do h <- slice_to 20 2 b;
  do value_length <- be16_of 21 h;
  do mutable_bytes <- slice_from 22 2 b;
  if len mutable_bytes <? value_length then dfail else
  do s <- slice_to 23 value_length mutable_bytes;
  do rest <- slice_from 24 value_length mutable_bytes;
  Ok (Some s, rest)
  end.

(* ---- decode.rs 548-562 decode_user_property ---- *)
Definition decode_user_property (b : bytes) (properties : option (list user_property))
  : outcome (option (list user_property) * bytes) :=
  do (name, b1) <- decode_length_prefixed_string b;
  do (value, b2) <- decode_length_prefixed_string b1;
  let l := match properties with None => [] | Some l => l end in
  Ok (Some (l ++ [{| up_name := name; up_value := value |}]), b2).

(* ---- decode.rs 577-601 decode_optional_u8_as_bool ---- *)
Definition decode_optional_u8_as_bool (b : bytes) (value : option bool) : outcome (option bool * bytes) :=
  if len b =? 0 then dfail else
  match value with Some _ => dfail | None =>
  do x <- index0 25 b;
  if x =? 0 then (do rest <- slice_from 26 1 b; Ok (Some false, rest))
  else if x =? 1 then (do rest <- slice_from 26 1 b; Ok (Some true, rest))
  else dfail
  end.

(* ---- decode.rs 603-613 decode_u8_as_enum ---- *)
Definition decode_u8_as_enum (b : bytes) (converter : N -> outcome N) : outcome (N * bytes) :=
  if len b =? 0 then dfail else
  do x <- index0 27 b;
  do v <- converter x;
  do rest <- slice_from 28 1 b;
  Ok (v, rest).

(* ---- decode.rs 615-631 decode_optional_u8_as_enum ---- *)
Definition decode_optional_u8_as_enum (b : bytes) (value : option N) (converter : N -> outcome N)
  : outcome (option N * bytes) :=
  if len b =? 0 then dfail else
  match value with Some _ => dfail | None =>
  do x <- index0 29 b;
  do v <- converter x;
  do rest <- slice_from 30 1 b;
  Ok (Some v, rest)
  end.

(* ---- decode.rs 633-643 decode_u16 ---- *)
Definition decode_u16 (b : bytes) : outcome (N * bytes) :=
  if len b <? 2 then dfail else
  do h <- slice_to 31 2 b;
  do v <- be16_of 32 h;
  do rest <- slice_from 33 2 b;
  Ok (v, rest).

(* ---- decode.rs 645-661 decode_optional_u16 ---- *)
Definition decode_optional_u16 (b : bytes) (value : option N) : outcome (option N * bytes) :=
  if len b <? 2 then dfail else
  match value with Some _ => dfail | None =>
  do h <- slice_to 34 2 b;
  do v <- be16_of 35 h;
  do rest <- slice_from 36 2 b;
  Ok (Some v, rest)
  end.

(* ---- decode.rs 663-679 decode_optional_u32 ---- *)
Definition decode_optional_u32 (b : bytes) (value : option N) : outcome (option N * bytes) :=
  if len b <? 4 then dfail else
  match value with Some _ => dfail | None =>
  do h <- slice_to 37 4 b;
  do v <- be32_of 38 h;
  do rest <- slice_from 39 4 b;
  Ok (Some v, rest)
  end.

(* ---- the property loops: `while !bytes.is_empty() { key = bytes[0]; bytes = &bytes[1..]; match key {..} }` ---- *)
Section PropLoop.
  Context {St : Type}.
  Variable arm : N -> bytes -> St -> outcome (St * bytes).
  Fixpoint prop_loop (fuel : nat) (b : bytes) (s : St) : outcome St :=
    match b with
    | [] => Ok s
    | _ :: _ =>
      match fuel with
      | O => Panic 98
      | S f =>
        do key <- index0 40 b;
        do rest <- slice_from 41 1 b;
        do (s', rest') <- arm key rest s;
        prop_loop f rest' s'
      end
    end.
  Definition decode_properties (b : bytes) (s : St) : outcome St := prop_loop (length b) b s.
End PropLoop.

(* ---- record updates (Rust field assignments) ---- *)
Definition ack_set_reason (a : ack) v := {| ack_pid := ack_pid a; ack_rc := ack_rc a; ack_reason := v; ack_up := ack_up a |}.
Definition ack_set_up (a : ack) v := {| ack_pid := ack_pid a; ack_rc := ack_rc a; ack_reason := ack_reason a; ack_up := v |}.

(* decode.rs 32-56 define_ack_packet_decode_properties_function *)
Definition ack_arm (key : N) (b : bytes) (a : ack) : outcome (ack * bytes) :=
  if key =? 38 then (do (v, r) <- decode_user_property b (ack_up a); Ok (ack_set_up a v, r))
  else if key =? 31 then (do (v, r) <- decode_optional_length_prefixed_string b (ack_reason a); Ok (ack_set_reason a v, r))
  else dfail.

(* decode.rs 60-103 define_ack_packet_decode_function5 *)
Definition decode_ack5 (expected_first_byte : N) (code_ok : N -> bool) (first_byte : N) (body : bytes) : outcome ack :=
  if negb (first_byte =? expected_first_byte) then dfail else
  do (pid, b1) <- decode_u16 body;
  if len b1 =? 0 then Ok {| ack_pid := pid; ack_rc := 0; ack_reason := None; ack_up := None |} else
  do (rc, b2) <- decode_u8_as_enum b1 (conv_table code_ok);
  if len b2 =? 0 then Ok {| ack_pid := pid; ack_rc := rc; ack_reason := None; ack_up := None |} else
  do (properties_length, b3) <- decode_vli_into_mutable b2;
  if negb (properties_length =? len b3) then dfail else
  decode_properties ack_arm b3 {| ack_pid := pid; ack_rc := rc; ack_reason := None; ack_up := None |}.

(* decode.rs 107-131 define_ack_packet_decode_function311 *)
Definition decode_ack311 (expected_first_byte : N) (first_byte : N) (body : bytes) : outcome ack :=
  if negb (first_byte =? expected_first_byte) then dfail else
  if negb (len body =? 2) then dfail else
  do (pid, _) <- decode_u16 body;
  Ok {| ack_pid := pid; ack_rc := 0; ack_reason := None; ack_up := None |}.

(* ---- CONNACK (connack.rs) ---- *)
Definition ca_default : connack :=
  {| ca_session_present := false; ca_rc := 0; ca_sei := None; ca_receive_max := None; ca_max_qos := None;
     ca_retain_avail := None; ca_max_packet := None; ca_assigned_id := None; ca_tam := None; ca_reason := None;
     ca_up := None; ca_wildcard := None; ca_subid_avail := None; ca_shared := None; ca_server_keep_alive := None;
     ca_response_info := None; ca_server_ref := None; ca_auth_method := None; ca_auth_data := None |}.

Definition ca_with (c : connack)
  (sp : bool) (rc : N) (sei rm : option N) (mq : option N) (ra : option bool) (mp : option N)
  (aid : option bytes) (tam : option N) (reason : option bytes) (up : option (list user_property))
  (wc sia sh : option bool) (ska : option N) (ri sr am ad : option bytes) : connack :=
  {| ca_session_present := sp; ca_rc := rc; ca_sei := sei; ca_receive_max := rm; ca_max_qos := mq;
     ca_retain_avail := ra; ca_max_packet := mp; ca_assigned_id := aid; ca_tam := tam; ca_reason := reason;
     ca_up := up; ca_wildcard := wc; ca_subid_avail := sia; ca_shared := sh; ca_server_keep_alive := ska;
     ca_response_info := ri; ca_server_ref := sr; ca_auth_method := am; ca_auth_data := ad |}.

Definition ca_set_session_present c v := ca_with c v (ca_rc c) (ca_sei c) (ca_receive_max c) (ca_max_qos c) (ca_retain_avail c) (ca_max_packet c) (ca_assigned_id c) (ca_tam c) (ca_reason c) (ca_up c) (ca_wildcard c) (ca_subid_avail c) (ca_shared c) (ca_server_keep_alive c) (ca_response_info c) (ca_server_ref c) (ca_auth_method c) (ca_auth_data c).
Definition ca_set_rc c v := ca_with c (ca_session_present c) v (ca_sei c) (ca_receive_max c) (ca_max_qos c) (ca_retain_avail c) (ca_max_packet c) (ca_assigned_id c) (ca_tam c) (ca_reason c) (ca_up c) (ca_wildcard c) (ca_subid_avail c) (ca_shared c) (ca_server_keep_alive c) (ca_response_info c) (ca_server_ref c) (ca_auth_method c) (ca_auth_data c).
Definition ca_set_sei c v := ca_with c (ca_session_present c) (ca_rc c) v (ca_receive_max c) (ca_max_qos c) (ca_retain_avail c) (ca_max_packet c) (ca_assigned_id c) (ca_tam c) (ca_reason c) (ca_up c) (ca_wildcard c) (ca_subid_avail c) (ca_shared c) (ca_server_keep_alive c) (ca_response_info c) (ca_server_ref c) (ca_auth_method c) (ca_auth_data c).
Definition ca_set_receive_max c v := ca_with c (ca_session_present c) (ca_rc c) (ca_sei c) v (ca_max_qos c) (ca_retain_avail c) (ca_max_packet c) (ca_assigned_id c) (ca_tam c) (ca_reason c) (ca_up c) (ca_wildcard c) (ca_subid_avail c) (ca_shared c) (ca_server_keep_alive c) (ca_response_info c) (ca_server_ref c) (ca_auth_method c) (ca_auth_data c).
Definition ca_set_max_qos c v := ca_with c (ca_session_present c) (ca_rc c) (ca_sei c) (ca_receive_max c) v (ca_retain_avail c) (ca_max_packet c) (ca_assigned_id c) (ca_tam c) (ca_reason c) (ca_up c) (ca_wildcard c) (ca_subid_avail c) (ca_shared c) (ca_server_keep_alive c) (ca_response_info c) (ca_server_ref c) (ca_auth_method c) (ca_auth_data c).
Definition ca_set_retain_avail c v := ca_with c (ca_session_present c) (ca_rc c) (ca_sei c) (ca_receive_max c) (ca_max_qos c) v (ca_max_packet c) (ca_assigned_id c) (ca_tam c) (ca_reason c) (ca_up c) (ca_wildcard c) (ca_subid_avail c) (ca_shared c) (ca_server_keep_alive c) (ca_response_info c) (ca_server_ref c) (ca_auth_method c) (ca_auth_data c).
Definition ca_set_max_packet c v := ca_with c (ca_session_present c) (ca_rc c) (ca_sei c) (ca_receive_max c) (ca_max_qos c) (ca_retain_avail c) v (ca_assigned_id c) (ca_tam c) (ca_reason c) (ca_up c) (ca_wildcard c) (ca_subid_avail c) (ca_shared c) (ca_server_keep_alive c) (ca_response_info c) (ca_server_ref c) (ca_auth_method c) (ca_auth_data c).
Definition ca_set_assigned_id c v := ca_with c (ca_session_present c) (ca_rc c) (ca_sei c) (ca_receive_max c) (ca_max_qos c) (ca_retain_avail c) (ca_max_packet c) v (ca_tam c) (ca_reason c) (ca_up c) (ca_wildcard c) (ca_subid_avail c) (ca_shared c) (ca_server_keep_alive c) (ca_response_info c) (ca_server_ref c) (ca_auth_method c) (ca_auth_data c).
Definition ca_set_tam c v := ca_with c (ca_session_present c) (ca_rc c) (ca_sei c) (ca_receive_max c) (ca_max_qos c) (ca_retain_avail c) (ca_max_packet c) (ca_assigned_id c) v (ca_reason c) (ca_up c) (ca_wildcard c) (ca_subid_avail c) (ca_shared c) (ca_server_keep_alive c) (ca_response_info c) (ca_server_ref c) (ca_auth_method c) (ca_auth_data c).
Definition ca_set_reason c v := ca_with c (ca_session_present c) (ca_rc c) (ca_sei c) (ca_receive_max c) (ca_max_qos c) (ca_retain_avail c) (ca_max_packet c) (ca_assigned_id c) (ca_tam c) v (ca_up c) (ca_wildcard c) (ca_subid_avail c) (ca_shared c) (ca_server_keep_alive c) (ca_response_info c) (ca_server_ref c) (ca_auth_method c) (ca_auth_data c).
Definition ca_set_up c v := ca_with c (ca_session_present c) (ca_rc c) (ca_sei c) (ca_receive_max c) (ca_max_qos c) (ca_retain_avail c) (ca_max_packet c) (ca_assigned_id c) (ca_tam c) (ca_reason c) v (ca_wildcard c) (ca_subid_avail c) (ca_shared c) (ca_server_keep_alive c) (ca_response_info c) (ca_server_ref c) (ca_auth_method c) (ca_auth_data c).
Definition ca_set_wildcard c v := ca_with c (ca_session_present c) (ca_rc c) (ca_sei c) (ca_receive_max c) (ca_max_qos c) (ca_retain_avail c) (ca_max_packet c) (ca_assigned_id c) (ca_tam c) (ca_reason c) (ca_up c) v (ca_subid_avail c) (ca_shared c) (ca_server_keep_alive c) (ca_response_info c) (ca_server_ref c) (ca_auth_method c) (ca_auth_data c).
Definition ca_set_subid_avail c v := ca_with c (ca_session_present c) (ca_rc c) (ca_sei c) (ca_receive_max c) (ca_max_qos c) (ca_retain_avail c) (ca_max_packet c) (ca_assigned_id c) (ca_tam c) (ca_reason c) (ca_up c) (ca_wildcard c) v (ca_shared c) (ca_server_keep_alive c) (ca_response_info c) (ca_server_ref c) (ca_auth_method c) (ca_auth_data c).
Definition ca_set_shared c v := ca_with c (ca_session_present c) (ca_rc c) (ca_sei c) (ca_receive_max c) (ca_max_qos c) (ca_retain_avail c) (ca_max_packet c) (ca_assigned_id c) (ca_tam c) (ca_reason c) (ca_up c) (ca_wildcard c) (ca_subid_avail c) v (ca_server_keep_alive c) (ca_response_info c) (ca_server_ref c) (ca_auth_method c) (ca_auth_data c).
Definition ca_set_server_keep_alive c v := ca_with c (ca_session_present c) (ca_rc c) (ca_sei c) (ca_receive_max c) (ca_max_qos c) (ca_retain_avail c) (ca_max_packet c) (ca_assigned_id c) (ca_tam c) (ca_reason c) (ca_up c) (ca_wildcard c) (ca_subid_avail c) (ca_shared c) v (ca_response_info c) (ca_server_ref c) (ca_auth_method c) (ca_auth_data c).
Definition ca_set_response_info c v := ca_with c (ca_session_present c) (ca_rc c) (ca_sei c) (ca_receive_max c) (ca_max_qos c) (ca_retain_avail c) (ca_max_packet c) (ca_assigned_id c) (ca_tam c) (ca_reason c) (ca_up c) (ca_wildcard c) (ca_subid_avail c) (ca_shared c) (ca_server_keep_alive c) v (ca_server_ref c) (ca_auth_method c) (ca_auth_data c).
Definition ca_set_server_ref c v := ca_with c (ca_session_present c) (ca_rc c) (ca_sei c) (ca_receive_max c) (ca_max_qos c) (ca_retain_avail c) (ca_max_packet c) (ca_assigned_id c) (ca_tam c) (ca_reason c) (ca_up c) (ca_wildcard c) (ca_subid_avail c) (ca_shared c) (ca_server_keep_alive c) (ca_response_info c) v (ca_auth_method c) (ca_auth_data c).
Definition ca_set_auth_method c v := ca_with c (ca_session_present c) (ca_rc c) (ca_sei c) (ca_receive_max c) (ca_max_qos c) (ca_retain_avail c) (ca_max_packet c) (ca_assigned_id c) (ca_tam c) (ca_reason c) (ca_up c) (ca_wildcard c) (ca_subid_avail c) (ca_shared c) (ca_server_keep_alive c) (ca_response_info c) (ca_server_ref c) v (ca_auth_data c).
Definition ca_set_auth_data c v := ca_with c (ca_session_present c) (ca_rc c) (ca_sei c) (ca_receive_max c) (ca_max_qos c) (ca_retain_avail c) (ca_max_packet c) (ca_assigned_id c) (ca_tam c) (ca_reason c) (ca_up c) (ca_wildcard c) (ca_subid_avail c) (ca_shared c) (ca_server_keep_alive c) (ca_response_info c) (ca_server_ref c) (ca_auth_method c) v.

(* connack.rs 151-185 decode_connack_properties (arms in source order) *)
Definition connack_arm (key : N) (b : bytes) (c : connack) : outcome (connack * bytes) :=
  if key =? 17 then (do (v, r) <- decode_optional_u32 b (ca_sei c); Ok (ca_set_sei c v, r))
  else if key =? 33 then (do (v, r) <- decode_optional_u16 b (ca_receive_max c); Ok (ca_set_receive_max c v, r))
  else if key =? 36 then (do (v, r) <- decode_optional_u8_as_enum b (ca_max_qos c) (conv_table impl_qos_ok); Ok (ca_set_max_qos c v, r))
  else if key =? 37 then (do (v, r) <- decode_optional_u8_as_bool b (ca_retain_avail c); Ok (ca_set_retain_avail c v, r))
  else if key =? 39 then (do (v, r) <- decode_optional_u32 b (ca_max_packet c); Ok (ca_set_max_packet c v, r))
  else if key =? 18 then (do (v, r) <- decode_optional_length_prefixed_string b (ca_assigned_id c); Ok (ca_set_assigned_id c v, r))
  else if key =? 34 then (do (v, r) <- decode_optional_u16 b (ca_tam c); Ok (ca_set_tam c v, r))
  else if key =? 31 then (do (v, r) <- decode_optional_length_prefixed_string b (ca_reason c); Ok (ca_set_reason c v, r))
  else if key =? 38 then (do (v, r) <- decode_user_property b (ca_up c); Ok (ca_set_up c v, r))
  else if key =? 40 then (do (v, r) <- decode_optional_u8_as_bool b (ca_wildcard c); Ok (ca_set_wildcard c v, r))
  else if key =? 41 then (do (v, r) <- decode_optional_u8_as_bool b (ca_subid_avail c); Ok (ca_set_subid_avail c v, r))
  else if key =? 42 then (do (v, r) <- decode_optional_u8_as_bool b (ca_shared c); Ok (ca_set_shared c v, r))
  else if key =? 19 then (do (v, r) <- decode_optional_u16 b (ca_server_keep_alive c); Ok (ca_set_server_keep_alive c v, r))
  else if key =? 26 then (do (v, r) <- decode_optional_length_prefixed_string b (ca_response_info c); Ok (ca_set_response_info c v, r))
  else if key =? 28 then (do (v, r) <- decode_optional_length_prefixed_string b (ca_server_ref c); Ok (ca_set_server_ref c v, r))
  else if key =? 21 then (do (v, r) <- decode_optional_length_prefixed_string b (ca_auth_method c); Ok (ca_set_auth_method c v, r))
  else if key =? 22 then (do (v, r) <- decode_optional_length_prefixed_bytes b (ca_auth_data c); Ok (ca_set_auth_data c v, r))
  else dfail.

(* connack.rs 187-232 decode_connack_packet5 *)
Definition decode_connack_packet5 (first_byte : N) (body : bytes) : outcome packet :=
  if negb (first_byte =? 32) then dfail else
  if len body =? 0 then dfail else
  do flags <- index0 50 body;
  do b1 <- slice_from 51 1 body;
  if negb (flags =? 1) && negb (flags =? 0) then dfail else
  let c0 := ca_set_session_present ca_default (flags =? 1) in
  do (rc, b2) <- decode_u8_as_enum b1 (conv_table impl_connack_code_ok);
  let c1 := ca_set_rc c0 rc in
  do (properties_length, b3) <- decode_vli_into_mutable b2;
  if negb (properties_length =? len b3) then dfail else
  do c <- decode_properties connack_arm b3 c1;
  Ok (Connack c).

(* connack.rs 234-273 decode_connack_packet311 *)
Definition decode_connack_packet311 (first_byte : N) (body : bytes) : outcome packet :=
  if negb (first_byte =? 32) then dfail else
  if negb (len body =? 2) then dfail else
  do flags <- index0 52 body;
  do b1 <- slice_from 53 1 body;
  if negb (flags =? 1) && negb (flags =? 0) then dfail else
  let c0 := ca_set_session_present ca_default (flags =? 1) in
  do (rc, _) <- decode_u8_as_enum b1 conv_connack311;
  Ok (Connack (ca_set_rc c0 rc)).

(* ---- PUBLISH (publish.rs) ---- *)
Definition pub_default : publish :=
  {| pub_pid := 0; pub_topic := []; pub_qos := 0; pub_dup := false; pub_retain := false; pub_payload := None;
     pub_pfi := None; pub_mei := None; pub_alias := None; pub_response_topic := None; pub_correlation := None;
     pub_subids := None; pub_content_type := None; pub_up := None |}.

Definition pub_with (pid : N) (topic : bytes) (qos : N) (dup retain : bool) (payload : option bytes)
  (pfi mei alias : option N) (rt corr : option bytes) (subids : option (list N)) (ct : option bytes)
  (up : option (list user_property)) : publish :=
  {| pub_pid := pid; pub_topic := topic; pub_qos := qos; pub_dup := dup; pub_retain := retain; pub_payload := payload;
     pub_pfi := pfi; pub_mei := mei; pub_alias := alias; pub_response_topic := rt; pub_correlation := corr;
     pub_subids := subids; pub_content_type := ct; pub_up := up |}.

Definition pub_set_pid p v := pub_with v (pub_topic p) (pub_qos p) (pub_dup p) (pub_retain p) (pub_payload p) (pub_pfi p) (pub_mei p) (pub_alias p) (pub_response_topic p) (pub_correlation p) (pub_subids p) (pub_content_type p) (pub_up p).
Definition pub_set_topic p v := pub_with (pub_pid p) v (pub_qos p) (pub_dup p) (pub_retain p) (pub_payload p) (pub_pfi p) (pub_mei p) (pub_alias p) (pub_response_topic p) (pub_correlation p) (pub_subids p) (pub_content_type p) (pub_up p).
Definition pub_set_qos p v := pub_with (pub_pid p) (pub_topic p) v (pub_dup p) (pub_retain p) (pub_payload p) (pub_pfi p) (pub_mei p) (pub_alias p) (pub_response_topic p) (pub_correlation p) (pub_subids p) (pub_content_type p) (pub_up p).
Definition pub_set_dup p v := pub_with (pub_pid p) (pub_topic p) (pub_qos p) v (pub_retain p) (pub_payload p) (pub_pfi p) (pub_mei p) (pub_alias p) (pub_response_topic p) (pub_correlation p) (pub_subids p) (pub_content_type p) (pub_up p).
Definition pub_set_retain p v := pub_with (pub_pid p) (pub_topic p) (pub_qos p) (pub_dup p) v (pub_payload p) (pub_pfi p) (pub_mei p) (pub_alias p) (pub_response_topic p) (pub_correlation p) (pub_subids p) (pub_content_type p) (pub_up p).
Definition pub_set_payload p v := pub_with (pub_pid p) (pub_topic p) (pub_qos p) (pub_dup p) (pub_retain p) v (pub_pfi p) (pub_mei p) (pub_alias p) (pub_response_topic p) (pub_correlation p) (pub_subids p) (pub_content_type p) (pub_up p).
Definition pub_set_pfi p v := pub_with (pub_pid p) (pub_topic p) (pub_qos p) (pub_dup p) (pub_retain p) (pub_payload p) v (pub_mei p) (pub_alias p) (pub_response_topic p) (pub_correlation p) (pub_subids p) (pub_content_type p) (pub_up p).
Definition pub_set_mei p v := pub_with (pub_pid p) (pub_topic p) (pub_qos p) (pub_dup p) (pub_retain p) (pub_payload p) (pub_pfi p) v (pub_alias p) (pub_response_topic p) (pub_correlation p) (pub_subids p) (pub_content_type p) (pub_up p).
Definition pub_set_alias p v := pub_with (pub_pid p) (pub_topic p) (pub_qos p) (pub_dup p) (pub_retain p) (pub_payload p) (pub_pfi p) (pub_mei p) v (pub_response_topic p) (pub_correlation p) (pub_subids p) (pub_content_type p) (pub_up p).
Definition pub_set_response_topic p v := pub_with (pub_pid p) (pub_topic p) (pub_qos p) (pub_dup p) (pub_retain p) (pub_payload p) (pub_pfi p) (pub_mei p) (pub_alias p) v (pub_correlation p) (pub_subids p) (pub_content_type p) (pub_up p).
Definition pub_set_correlation p v := pub_with (pub_pid p) (pub_topic p) (pub_qos p) (pub_dup p) (pub_retain p) (pub_payload p) (pub_pfi p) (pub_mei p) (pub_alias p) (pub_response_topic p) v (pub_subids p) (pub_content_type p) (pub_up p).
Definition pub_set_subids p v := pub_with (pub_pid p) (pub_topic p) (pub_qos p) (pub_dup p) (pub_retain p) (pub_payload p) (pub_pfi p) (pub_mei p) (pub_alias p) (pub_response_topic p) (pub_correlation p) v (pub_content_type p) (pub_up p).
Definition pub_set_content_type p v := pub_with (pub_pid p) (pub_topic p) (pub_qos p) (pub_dup p) (pub_retain p) (pub_payload p) (pub_pfi p) (pub_mei p) (pub_alias p) (pub_response_topic p) (pub_correlation p) (pub_subids p) v (pub_up p).
Definition pub_set_up p v := pub_with (pub_pid p) (pub_topic p) (pub_qos p) (pub_dup p) (pub_retain p) (pub_payload p) (pub_pfi p) (pub_mei p) (pub_alias p) (pub_response_topic p) (pub_correlation p) (pub_subids p) (pub_content_type p) v.

(* publish.rs 223-257 decode_publish_properties (arms in source order) *)
Definition publish_arm (key : N) (b : bytes) (p : publish) : outcome (publish * bytes) :=
  if key =? 1 then (do (v, r) <- decode_optional_u8_as_enum b (pub_pfi p) (conv_table impl_pfi_ok); Ok (pub_set_pfi p v, r))
  else if key =? 2 then (do (v, r) <- decode_optional_u32 b (pub_mei p); Ok (pub_set_mei p v, r))
  else if key =? 35 then (do (v, r) <- decode_optional_u16 b (pub_alias p); Ok (pub_set_alias p v, r))
  else if key =? 8 then (do (v, r) <- decode_optional_length_prefixed_string b (pub_response_topic p); Ok (pub_set_response_topic p v, r))
  else if key =? 9 then (do (v, r) <- decode_optional_length_prefixed_bytes b (pub_correlation p); Ok (pub_set_correlation p v, r))
  else if key =? 11 then
    (do (subscription_id, r) <- decode_vli_into_mutable b;
     let ids := match pub_subids p with None => [] | Some l => l end in
     Ok (pub_set_subids p (Some (ids ++ [subscription_id])), r))
  else if key =? 38 then (do (v, r) <- decode_user_property b (pub_up p); Ok (pub_set_up p v, r))
  else if key =? 3 then (do (v, r) <- decode_optional_length_prefixed_string b (pub_content_type p); Ok (pub_set_content_type p v, r))
  else dfail.

(* the fixed-header flag handling shared by decode_publish_packet5 / 311 (publish.rs 264-272, 310-318):
   `first_byte & 8 != 0`, `first_byte & 1 != 0`, `QualityOfService::try_from((first_byte >> 1) & 3)?` *)
Definition publish_flags (first_byte : N) : outcome publish :=
  let p1 := pub_set_dup pub_default ((first_byte / 8) mod 2 =? 1) in
  let p2 := pub_set_retain p1 (first_byte mod 2 =? 1) in
  do qos <- conv_table impl_qos_ok ((first_byte / 2) mod 4);
  Ok (pub_set_qos p2 qos).

(* publish.rs 259-303 decode_publish_packet5 *)
Definition decode_publish_packet5 (first_byte : N) (body : bytes) : outcome packet :=
  do p0 <- publish_flags first_byte;
  do (topic, b1) <- decode_length_prefixed_string body;
  let p1 := pub_set_topic p0 topic in
  do (p2, b2) <- (if negb (pub_qos p1 =? 0) then (do (pid, r) <- decode_u16 b1; Ok (pub_set_pid p1 pid, r)) else Ok (p1, b1));
  do (properties_length, b3) <- decode_vli_into_mutable b2;
  if len b3 <? properties_length then dfail else
  do properties_bytes <- slice_to 54 properties_length b3;
  do payload_bytes <- slice_from 55 properties_length b3;
  do p3 <- decode_properties publish_arm properties_bytes p2;
  Ok (Publish (if negb (len payload_bytes =? 0) then pub_set_payload p3 (Some payload_bytes) else p3)).

(* publish.rs 305-331 decode_publish_packet311 *)
Definition decode_publish_packet311 (first_byte : N) (body : bytes) : outcome packet :=
  do p0 <- publish_flags first_byte;
  do (topic, b1) <- decode_length_prefixed_string body;
  let p1 := pub_set_topic p0 topic in
  do (p2, b2) <- (if negb (pub_qos p1 =? 0) then (do (pid, r) <- decode_u16 b1; Ok (pub_set_pid p1 pid, r)) else Ok (p1, b1));
  Ok (Publish (if negb (len b2 =? 0) then pub_set_payload p2 (Some b2) else p2)).

(* ---- SUBACK / UNSUBACK (suback.rs, unsuback.rs) ---- *)
Definition sa_set_reason (s : suback) v := {| sa_pid := sa_pid s; sa_reason := v; sa_up := sa_up s; sa_codes := sa_codes s |}.
Definition sa_set_up (s : suback) v := {| sa_pid := sa_pid s; sa_reason := sa_reason s; sa_up := v; sa_codes := sa_codes s |}.
Definition sa_set_codes (s : suback) v := {| sa_pid := sa_pid s; sa_reason := sa_reason s; sa_up := sa_up s; sa_codes := v |}.
Definition ua_set_reason (s : unsuback) v := {| ua_pid := ua_pid s; ua_reason := v; ua_up := ua_up s; ua_codes := ua_codes s |}.
Definition ua_set_up (s : unsuback) v := {| ua_pid := ua_pid s; ua_reason := ua_reason s; ua_up := v; ua_codes := ua_codes s |}.
Definition ua_set_codes (s : unsuback) v := {| ua_pid := ua_pid s; ua_reason := ua_reason s; ua_up := ua_up s; ua_codes := v |}.

(* suback.rs 105-124 decode_suback_properties *)
Definition suback_arm (key : N) (b : bytes) (s : suback) : outcome (suback * bytes) :=
  if key =? 31 then (do (v, r) <- decode_optional_length_prefixed_string b (sa_reason s); Ok (sa_set_reason s v, r))
  else if key =? 38 then (do (v, r) <- decode_user_property b (sa_up s); Ok (sa_set_up s v, r))
  else dfail.

(* unsuback.rs 88-107 decode_unsuback_properties *)
Definition unsuback_arm (key : N) (b : bytes) (s : unsuback) : outcome (unsuback * bytes) :=
  if key =? 31 then (do (v, r) <- decode_optional_length_prefixed_string b (ua_reason s); Ok (ua_set_reason s v, r))
  else if key =? 38 then (do (v, r) <- decode_user_property b (ua_up s); Ok (ua_set_up s v, r))
  else dfail.

(* `for payload_byte in payload_bytes.iter() { codes.push(T::try_from( *payload_byte )?) }` *)
Fixpoint decode_codes (conv : N -> outcome N) (payload : bytes) : outcome (list N) :=
  match payload with
  | [] => Ok []
  | x :: r => do v <- conv x; do l <- decode_codes conv r; Ok (v :: l)
  end.

(* suback.rs 126-163 decode_suback_packet5 *)
Definition decode_suback_packet5 (first_byte : N) (body : bytes) : outcome packet :=
  if negb (first_byte =? 144) then dfail else
  do (pid, b1) <- decode_u16 body;
  do (properties_length, b2) <- decode_vli_into_mutable b1;
  if len b2 <? properties_length then dfail else
  do properties_bytes <- slice_to 56 properties_length b2;
  do payload_bytes <- slice_from 57 properties_length b2;
  do s <- decode_properties suback_arm properties_bytes {| sa_pid := pid; sa_reason := None; sa_up := None; sa_codes := [] |};
  do codes <- decode_codes (conv_table impl_suback_code_ok) payload_bytes;
  Ok (Suback (sa_set_codes s codes)).

(* suback.rs 165-191 decode_suback_packet311 *)
Definition decode_suback_packet311 (first_byte : N) (body : bytes) : outcome packet :=
  if negb (first_byte =? 144) then dfail else
  do (pid, b1) <- decode_u16 body;
  do codes <- decode_codes (conv_table impl_suback311_code_ok) b1;
  Ok (Suback {| sa_pid := pid; sa_reason := None; sa_up := None; sa_codes := codes |}).

(* unsuback.rs 109-147 decode_unsuback_packet5 *)
Definition decode_unsuback_packet5 (first_byte : N) (body : bytes) : outcome packet :=
  if negb (first_byte =? 176) then dfail else
  do (pid, b1) <- decode_u16 body;
  do (properties_length, b2) <- decode_vli_into_mutable b1;
  if len b2 <? properties_length then dfail else
  do properties_bytes <- slice_to 58 properties_length b2;
  do payload_bytes <- slice_from 59 properties_length b2;
  do s <- decode_properties unsuback_arm properties_bytes {| ua_pid := pid; ua_reason := None; ua_up := None; ua_codes := [] |};
  do codes <- decode_codes (conv_table impl_unsuback_code_ok) payload_bytes;
  Ok (Unsuback (ua_set_codes s codes)).

(* unsuback.rs 149-171 decode_unsuback_packet311 *)
Definition decode_unsuback_packet311 (first_byte : N) (body : bytes) : outcome packet :=
  if negb (first_byte =? 176) then dfail else
  if negb (len body =? 2) then dfail else
  do (pid, _) <- decode_u16 body;
  Ok (Unsuback {| ua_pid := pid; ua_reason := None; ua_up := None; ua_codes := [] |}).

(* ---- PINGRESP (pingresp.rs 30-44) ---- *)
Definition decode_pingresp_packet (first_byte : N) (body : bytes) : outcome packet :=
  if negb (len body =? 0) then dfail else
  if negb (first_byte =? 208) then dfail else
  Ok Pingresp.

(* ---- DISCONNECT (disconnect.rs) ---- *)
Definition d_set_rc (d : disconnect) v := {| d_rc := v; d_sei := d_sei d; d_reason := d_reason d; d_up := d_up d; d_server_ref := d_server_ref d |}.
Definition d_set_sei (d : disconnect) v := {| d_rc := d_rc d; d_sei := v; d_reason := d_reason d; d_up := d_up d; d_server_ref := d_server_ref d |}.
Definition d_set_reason (d : disconnect) v := {| d_rc := d_rc d; d_sei := d_sei d; d_reason := v; d_up := d_up d; d_server_ref := d_server_ref d |}.
Definition d_set_up (d : disconnect) v := {| d_rc := d_rc d; d_sei := d_sei d; d_reason := d_reason d; d_up := v; d_server_ref := d_server_ref d |}.
Definition d_set_server_ref (d : disconnect) v := {| d_rc := d_rc d; d_sei := d_sei d; d_reason := d_reason d; d_up := d_up d; d_server_ref := v |}.
Definition d_default : disconnect := {| d_rc := 0; d_sei := None; d_reason := None; d_up := None; d_server_ref := None |}.

(* disconnect.rs 93-114 decode_disconnect_properties *)
Definition disconnect_arm (key : N) (b : bytes) (d : disconnect) : outcome (disconnect * bytes) :=
  if key =? 17 then (do (v, r) <- decode_optional_u32 b (d_sei d); Ok (d_set_sei d v, r))
  else if key =? 31 then (do (v, r) <- decode_optional_length_prefixed_string b (d_reason d); Ok (d_set_reason d v, r))
  else if key =? 38 then (do (v, r) <- decode_user_property b (d_up d); Ok (d_set_up d v, r))
  else if key =? 28 then (do (v, r) <- decode_optional_length_prefixed_string b (d_server_ref d); Ok (d_set_server_ref d v, r))
  else dfail.

(* disconnect.rs 116-150 decode_disconnect_packet5 *)
Definition decode_disconnect_packet5 (first_byte : N) (body : bytes) : outcome packet :=
  if negb (first_byte =? 224) then dfail else
  if len body =? 0 then Ok (Disconnect d_default) else
  do (rc, b1) <- decode_u8_as_enum body (conv_table impl_disconnect_code_ok);
  let d1 := d_set_rc d_default rc in
  if len b1 =? 0 then Ok (Disconnect d1) else
  do (properties_length, b2) <- decode_vli_into_mutable b1;
  if negb (properties_length =? len b2) then dfail else
  do d <- decode_properties disconnect_arm b2 d1;
  Ok (Disconnect d).

(* disconnect.rs 152-169 decode_disconnect_packet311 (body length is tested first) *)
Definition decode_disconnect_packet311 (first_byte : N) (body : bytes) : outcome packet :=
  if negb (len body =? 0) then dfail else
  if negb (first_byte =? 224) then dfail else
  Ok (Disconnect d_default).

(* ---- AUTH (auth.rs) ---- *)
Definition au_set_rc (a : auth) v := {| au_rc := v; au_method := au_method a; au_data := au_data a; au_reason := au_reason a; au_up := au_up a |}.
Definition au_set_method (a : auth) v := {| au_rc := au_rc a; au_method := v; au_data := au_data a; au_reason := au_reason a; au_up := au_up a |}.
Definition au_set_data (a : auth) v := {| au_rc := au_rc a; au_method := au_method a; au_data := v; au_reason := au_reason a; au_up := au_up a |}.
Definition au_set_reason (a : auth) v := {| au_rc := au_rc a; au_method := au_method a; au_data := au_data a; au_reason := v; au_up := au_up a |}.
Definition au_set_up (a : auth) v := {| au_rc := au_rc a; au_method := au_method a; au_data := au_data a; au_reason := au_reason a; au_up := v |}.
Definition au_default : auth := {| au_rc := 0; au_method := None; au_data := None; au_reason := None; au_up := None |}.

(* auth.rs 86-107 decode_auth_properties *)
Definition auth_arm (key : N) (b : bytes) (a : auth) : outcome (auth * bytes) :=
  if key =? 21 then (do (v, r) <- decode_optional_length_prefixed_string b (au_method a); Ok (au_set_method a v, r))
  else if key =? 22 then (do (v, r) <- decode_optional_length_prefixed_bytes b (au_data a); Ok (au_set_data a v, r))
  else if key =? 31 then (do (v, r) <- decode_optional_length_prefixed_string b (au_reason a); Ok (au_set_reason a v, r))
  else if key =? 38 then (do (v, r) <- decode_user_property b (au_up a); Ok (au_set_up a v, r))
  else dfail.

(* auth.rs 109-135 decode_auth_packet5 (no "reason code only" form: the property length is required) *)
Definition decode_auth_packet5 (first_byte : N) (body : bytes) : outcome packet :=
  if negb (first_byte =? 240) then dfail else
  if len body =? 0 then Ok (Auth au_default) else
  do (rc, b1) <- decode_u8_as_enum body (conv_table impl_auth_code_ok);
  let a1 := au_set_rc au_default rc in
  do (properties_length, b2) <- decode_vli_into_mutable b1;
  if negb (properties_length =? len b2) then dfail else
  do a <- decode_properties auth_arm b2 a1;
  Ok (Auth a).

(* ---- decode.rs 167-228 decode_packet5 / decode_packet311 / decode_packet ---- *)
Definition unimplemented {A} : outcome A := Err EUnimplemented.
Definition omap {A B} (f : A -> B) (o : outcome A) : outcome B := do x <- o; Ok (f x).

Definition decode_packet5 (first_byte : N) (body : bytes) : outcome packet :=
  let packet_type := first_byte / 16 in
  if packet_type =? 1 then unimplemented                                    (* decode_connect_packet5 stub *)
  else if packet_type =? 2 then decode_connack_packet5 first_byte body
  else if packet_type =? 3 then decode_publish_packet5 first_byte body
  else if packet_type =? 4 then omap Puback (decode_ack5 64 impl_puback_code_ok first_byte body)
  else if packet_type =? 5 then omap Pubrec (decode_ack5 80 impl_pubrec_code_ok first_byte body)
  else if packet_type =? 6 then omap Pubrel (decode_ack5 98 impl_pubrel_code_ok first_byte body)
  else if packet_type =? 7 then omap Pubcomp (decode_ack5 112 impl_pubcomp_code_ok first_byte body)
  else if packet_type =? 8 then unimplemented                               (* decode_subscribe_packet5 stub *)
  else if packet_type =? 9 then decode_suback_packet5 first_byte body
  else if packet_type =? 10 then unimplemented                              (* decode_unsubscribe_packet5 stub *)
  else if packet_type =? 11 then decode_unsuback_packet5 first_byte body
  else if packet_type =? 12 then unimplemented                              (* decode_pingreq_packet stub *)
  else if packet_type =? 13 then decode_pingresp_packet first_byte body
  else if packet_type =? 14 then decode_disconnect_packet5 first_byte body
  else if packet_type =? 15 then decode_auth_packet5 first_byte body
  else dfail.

Definition decode_packet311 (first_byte : N) (body : bytes) : outcome packet :=
  let packet_type := first_byte / 16 in
  if packet_type =? 1 then unimplemented
  else if packet_type =? 2 then decode_connack_packet311 first_byte body
  else if packet_type =? 3 then decode_publish_packet311 first_byte body
  else if packet_type =? 4 then omap Puback (decode_ack311 64 first_byte body)
  else if packet_type =? 5 then omap Pubrec (decode_ack311 80 first_byte body)
  else if packet_type =? 6 then omap Pubrel (decode_ack311 98 first_byte body)
  else if packet_type =? 7 then omap Pubcomp (decode_ack311 112 first_byte body)
  else if packet_type =? 8 then unimplemented
  else if packet_type =? 9 then decode_suback_packet311 first_byte body
  else if packet_type =? 10 then unimplemented
  else if packet_type =? 11 then decode_unsuback_packet311 first_byte body
  else if packet_type =? 12 then unimplemented
  else if packet_type =? 13 then decode_pingresp_packet first_byte body
  else if packet_type =? 14 then decode_disconnect_packet311 first_byte body
  else if packet_type =? 15 then dfail                                      (* "Auth packets are not allowed in MQTT 311" *)
  else dfail.

Definition impl_decode_packet (v : version) (first_byte : N) (body : bytes) : outcome packet :=
  match v with
  | V5 => decode_packet5 first_byte body
  | V311 => decode_packet311 first_byte body
  end.
