(* MQTT packet values shared by the implementation models and the wire specification.
   One record per Rust struct of gneiss-mqtt/src/mqtt/mod.rs, field for field, in declaration
   order.  Strings are UTF-8 byte lists; enums (QoS, reason codes, payload format, retain
   handling) are their wire values as N — the Rust enums make other values unrepresentable,
   which is the side condition [*_wf] below. *)
From GM Require Import Base.Prelude.
Open Scope N_scope.

Inductive version := V5 | V311.
Definition version_eqb (a b : version) : bool :=
  match a, b with V5, V5 | V311, V311 => true | _, _ => false end.

Record user_property := { up_name : bytes; up_value : bytes }.

Record subscription := {
  sub_filter : bytes; sub_qos : N; sub_no_local : bool; sub_rap : bool; sub_rh : N }.

Record publish := {
  pub_pid : N; pub_topic : bytes; pub_qos : N; pub_dup : bool; pub_retain : bool;
  pub_payload : option bytes; pub_pfi : option N; pub_mei : option N; pub_alias : option N;
  pub_response_topic : option bytes; pub_correlation : option bytes;
  pub_subids : option (list N); pub_content_type : option bytes;
  pub_up : option (list user_property) }.

Record connect := {
  con_keep_alive : N; con_clean_start : bool; con_client_id : option bytes;
  con_username : option bytes; con_password : option bytes; con_sei : option N;
  con_rri : option bool; con_rpi : option bool; con_receive_max : option N;
  con_tam : option N; con_max_packet : option N; con_auth_method : option bytes;
  con_auth_data : option bytes; con_will_delay : option N; con_will : option publish;
  con_up : option (list user_property) }.

Record connack := {
  ca_session_present : bool; ca_rc : N; ca_sei : option N; ca_receive_max : option N;
  ca_max_qos : option N; ca_retain_avail : option bool; ca_max_packet : option N;
  ca_assigned_id : option bytes; ca_tam : option N; ca_reason : option bytes;
  ca_up : option (list user_property); ca_wildcard : option bool; ca_subid_avail : option bool;
  ca_shared : option bool; ca_server_keep_alive : option N; ca_response_info : option bytes;
  ca_server_ref : option bytes; ca_auth_method : option bytes; ca_auth_data : option bytes }.

(* PUBACK / PUBREC / PUBREL / PUBCOMP share one shape *)
Record ack := { ack_pid : N; ack_rc : N; ack_reason : option bytes; ack_up : option (list user_property) }.

Record subscribe := {
  s_pid : N; s_subs : list subscription; s_subid : option N; s_up : option (list user_property) }.

Record suback := {
  sa_pid : N; sa_reason : option bytes; sa_up : option (list user_property); sa_codes : list N }.

Record unsubscribe := { u_pid : N; u_filters : list bytes; u_up : option (list user_property) }.

Record unsuback := {
  ua_pid : N; ua_reason : option bytes; ua_up : option (list user_property); ua_codes : list N }.

Record disconnect := {
  d_rc : N; d_sei : option N; d_reason : option bytes; d_up : option (list user_property);
  d_server_ref : option bytes }.

Record auth := {
  au_rc : N; au_method : option bytes; au_data : option bytes; au_reason : option bytes;
  au_up : option (list user_property) }.

Inductive packet :=
| Connect (p : connect) | Connack (p : connack) | Publish (p : publish)
| Puback (p : ack) | Pubrec (p : ack) | Pubrel (p : ack) | Pubcomp (p : ack)
| Subscribe (p : subscribe) | Suback (p : suback) | Unsubscribe (p : unsubscribe)
| Unsuback (p : unsuback) | Pingreq | Pingresp | Disconnect (p : disconnect) | Auth (p : auth).

(* packet type numbers of the fixed header *)
Definition packet_type (p : packet) : N :=
  match p with
  | Connect _ => 1 | Connack _ => 2 | Publish _ => 3 | Puback _ => 4 | Pubrec _ => 5
  | Pubrel _ => 6 | Pubcomp _ => 7 | Subscribe _ => 8 | Suback _ => 9 | Unsubscribe _ => 10
  | Unsuback _ => 11 | Pingreq => 12 | Pingresp => 13 | Disconnect _ => 14 | Auth _ => 15
  end.

(* outbound topic-alias resolution (alias.rs OutboundAliasResolution) *)
Record resolution := { r_skip_topic : bool; r_alias : option N }.
Definition no_resolution : resolution := {| r_skip_topic := false; r_alias := None |}.

(* default values (Rust #[derive(Default)]) *)
Definition default_ack (pid : N) : ack := {| ack_pid := pid; ack_rc := 0; ack_reason := None; ack_up := None |}.
