(* Implementation model: the incremental framing decoder, decode.rs 133-165 (types) and
   230-362 (Decoder::new, process_read_packet_type, process_read_total_remaining_length,
   process_read_packet_body, decode_bytes, reset_for_new_packet, reset).

   The per-packet body decoder is a Section variable: the framing theorems (chunking
   invariance, size gate, absence of panics — CodecProofs/Framing*.v) hold for ANY body decoder;
   the exported [decode_bytes] instantiates it with [ImplDecode.impl_decode_packet].

   Panic sites: 60 `self.remaining_length.unwrap()`, 61 usize underflow in
   `remaining_length - read_so_far` (debug builds panic, release builds wrap and then
   over-read), 62 `&bytes[..bytes_needed]`, 63 `self.first_byte.unwrap()`,
   64 `&bytes[bytes_needed..]`, 99 loop fuel exhausted (not a Rust site; proved unreachable). *)
From GM Require Import Base.Prelude Base.Outcome Codec.Packets Codec.Prim Codec.ImplDecode.
Open Scope N_scope.

Inductive dstate := ReadPacketType | ReadTotalRemainingLength | ReadPacketBody | TerminalError.

Definition dstate_eqb (a b : dstate) : bool :=
  match a, b with
  | ReadPacketType, ReadPacketType | ReadTotalRemainingLength, ReadTotalRemainingLength
  | ReadPacketBody, ReadPacketBody | TerminalError, TerminalError => true
  | _, _ => false
  end.

Record decoder := {
  d_state : dstate;
  d_scratch : bytes;
  d_first_byte : option N;
  d_remaining_length : option N }.

(* Decoder::new / reset (decode.rs 231-242, 355-360) *)
Definition decoder_init : decoder :=
  {| d_state := ReadPacketType; d_scratch := []; d_first_byte := None; d_remaining_length := None |}.
Definition decoder_reset (_ : decoder) : decoder := decoder_init.

Definition set_state (d : decoder) (s : dstate) : decoder :=
  {| d_state := s; d_scratch := d_scratch d; d_first_byte := d_first_byte d; d_remaining_length := d_remaining_length d |}.
Definition set_scratch (d : decoder) (s : bytes) : decoder :=
  {| d_state := d_state d; d_scratch := s; d_first_byte := d_first_byte d; d_remaining_length := d_remaining_length d |}.

Inductive directive := OutOfData | Continue | Terminal (k : errkind) | DPanic (site : N).

(* `if maximum_size == 0 { maximum_size = MAXIMUM_VARIABLE_LENGTH_INTEGER }` *)
Definition effective_max (max_size : N) : N := if max_size =? 0 then VLI_MAX else max_size.

Definition is_empty (b : bytes) : bool := match b with [] => true | _ => false end.

Section Framing.
  Variable body : N -> bytes -> outcome packet.   (* decode_packet(first_byte, packet_slice, version) *)
  Variable max_size : N.                          (* context.maximum_packet_size *)

  (* decode.rs 248-257 *)
  Definition process_read_packet_type (d : decoder) (b : bytes) : decoder * directive * bytes :=
    match b with
    | [] => (d, OutOfData, b)
    | x :: rest =>
      ({| d_state := ReadTotalRemainingLength; d_scratch := d_scratch d; d_first_byte := Some x;
          d_remaining_length := d_remaining_length d |}, Continue, rest)
    end.

  (* decode.rs 259-293 *)
  Definition process_read_total_remaining_length (d : decoder) (b : bytes) : decoder * directive * bytes :=
    match b with
    | [] => (d, OutOfData, b)
    | x :: remaining_bytes =>
      let scratch := d_scratch d ++ [x] in                   (* self.scratch.push(bytes[0]) *)
      let d1 := set_scratch d scratch in
      match decode_vli scratch with
      | VliValue remaining_length _ =>
        let total_packet_size := remaining_length + 1 + len scratch in
        if total_packet_size <=? effective_max max_size then
          ({| d_state := ReadPacketBody; d_scratch := []; d_first_byte := d_first_byte d;
              d_remaining_length := Some remaining_length |}, Continue, remaining_bytes)
        else (d1, Terminal EDecodingFailure, remaining_bytes)   (* "packet size exceeds negotiated maximum" *)
      | _ =>
        if 4 <=? len scratch then (d1, Terminal EDecodingFailure, remaining_bytes)
        else if negb (is_empty remaining_bytes) then (d1, Continue, remaining_bytes)
        else (d1, OutOfData, remaining_bytes)
      end
    end.

  (* decode.rs 295-326; the fourth component is the packet pushed on context.decoded_packets *)
  Definition process_read_packet_body (d : decoder) (b : bytes) : decoder * directive * bytes * option packet :=
    let read_so_far := len (d_scratch d) in
    match d_remaining_length d with
    | None => (d, DPanic 60, b, None)
    | Some remaining_length =>
      if remaining_length <? read_so_far then (d, DPanic 61, b, None) else
      let bytes_needed := remaining_length - read_so_far in
      if len b <? bytes_needed then (set_scratch d (d_scratch d ++ b), OutOfData, [], None)
      else
        match slice_to 62 bytes_needed b with
        | Panic s => (d, DPanic s, b, None) | Err k => (d, DPanic 62, b, None)
        | Ok head =>
          let '(d1, packet_slice) :=
            if negb (is_empty (d_scratch d)) then (set_scratch d (d_scratch d ++ head), d_scratch d ++ head)
            else (d, head) in
          match d_first_byte d with
          | None => (d1, DPanic 63, b, None)
          | Some first_byte =>
            match body first_byte packet_slice with
            | Ok packet =>
              match slice_from 64 bytes_needed b with
              | Ok rest => (decoder_init, Continue, rest, Some packet)     (* reset_for_new_packet *)
              | _ => (decoder_init, DPanic 64, b, Some packet)
              end
            | Err k => (d1, Terminal k, [], None)
            | Panic s => (d1, DPanic s, [], None)
            end
          end
        end
    end.

  (* decode.rs 328-348: one turn of the `while let Continue` loop *)
  Definition turn (d : decoder) (b : bytes) : decoder * directive * bytes * option packet :=
    match d_state d with
    | ReadPacketType => let '(d', dir, b') := process_read_packet_type d b in (d', dir, b', None)
    | ReadTotalRemainingLength => let '(d', dir, b') := process_read_total_remaining_length d b in (d', dir, b', None)
    | ReadPacketBody => process_read_packet_body d b
    | TerminalError => (d, Terminal EDecodingFailure, b, None)   (* "decoder already in a terminal failure state" *)
    end.

  Definition cons_opt (o : option packet) (l : list packet) : list packet :=
    match o with Some p => p :: l | None => l end.

  Fixpoint loop (fuel : nat) (d : decoder) (b : bytes) : decoder * list packet * outcome unit :=
    match fuel with
    | O => (d, [], Panic 99)
    | S f =>
      let '(d', dir, b', pk) := turn d b in
      match dir with
      | Continue => let '(d2, ps, r) := loop f d' b' in (d2, cons_opt pk ps, r)
      | OutOfData => (d', cons_opt pk [], Ok tt)
      | Terminal k => (set_state d' TerminalError, cons_opt pk [], Err k)   (* decode.rs 350-353 *)
      | DPanic s => (d', cons_opt pk [], Panic s)
      end
    end.

  (* every Continue turn strictly decreases 2*|bytes| + [state = ReadPacketBody] *)
  Definition fuel_for (data : bytes) : nat := 2 * length data + 2.

  Definition decode_bytes_with (d : decoder) (data : bytes) : decoder * list packet * outcome unit :=
    loop (fuel_for data) d data.

  (* ---- vocabulary of the theorems (CodecProofs/FramingP.v, Properties/C03.v) ---- *)
  (* two results agree: same packets, same verdict, and the same decoder state — where, after an
     error, "same state" means "both terminal" (the scratch buffer of a failed decoder is dead) *)
  Definition result_equiv (x y : decoder * list packet * outcome unit) : Prop :=
    let '(d1, p1, r1) := x in
    let '(d2, p2, r2) := y in
    p1 = p2 /\ r1 = r2 /\
    match r1 with
    | Ok _ => d1 = d2
    | Err _ => d_state d1 = TerminalError /\ d_state d2 = TerminalError
    | Panic _ => True
    end.

  (* feeding [a], then (unless that call failed) [b] *)
  Definition feed2 (d : decoder) (a b : bytes) : decoder * list packet * outcome unit :=
    let '(d1, ps1, r1) := decode_bytes_with d a in
    match r1 with
    | Ok _ => let '(d2, ps2, r2) := decode_bytes_with d1 b in (d2, ps1 ++ ps2, r2)
    | _ => (d1, ps1, r1)
    end.

  (* feeding a non-empty sequence of reads, stopping at the first failing call *)
  Fixpoint feed (d : decoder) (chunks : list bytes) : decoder * list packet * outcome unit :=
    match chunks with
    | [] => (d, [], Ok tt)
    | [c] => decode_bytes_with d c
    | c :: rest =>
      let '(d1, ps1, r1) := decode_bytes_with d c in
      match r1 with
      | Ok _ => let '(d2, ps2, r2) := feed d1 rest in (d2, ps1 ++ ps2, r2)
      | _ => (d1, ps1, r1)
      end
    end.

  (* decoder states from which the `unwrap`s and slice expressions of process_read_packet_body
     are safe; [decoder_init] satisfies it and every call preserves it *)
  Definition wf (d : decoder) : Prop :=
    match d_state d with
    | ReadPacketType => True
    | ReadTotalRemainingLength => d_first_byte d <> None
    | ReadPacketBody =>
      d_first_byte d <> None /\ exists n, d_remaining_length d = Some n /\ len (d_scratch d) <= n
    | TerminalError => True
    end.
End Framing.

(* Decoder::decode_bytes with decode_packet as the body decoder: new decoder state, packets
   pushed by THIS call in order (including those decoded before an error), verdict. *)
Definition decode_bytes (v : version) (max_size : N) (d : decoder) (data : bytes)
  : decoder * list packet * outcome unit :=
  decode_bytes_with (impl_decode_packet v) max_size d data.

(* feeding a sequence of reads to one decoder, stopping at the first error like a caller would
   (the facade's `decode`): packets of all calls, verdict, index of the failing chunk *)
Fixpoint decode_chunks (v : version) (max_size : N) (d : decoder) (chunks : list bytes) (index : N)
  : decoder * list packet * outcome unit * N :=
  match chunks with
  | [] => (d, [], Ok tt, index)
  | c :: rest =>
    let '(d', ps, r) := decode_bytes v max_size d c in
    match r with
    | Ok _ => let '(d2, ps2, r2, i2) := decode_chunks v max_size d' rest (index + 1) in (d2, ps ++ ps2, r2, i2)
    | _ => (d', ps, r, index)
    end
  end.
