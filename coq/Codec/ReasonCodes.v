(* Reason-code tables.

   spec_*  : the SPECIFICATION's tables, written from the OASIS documents
             (MQTT 5.0: CONNACK 3.2.2.2, PUBACK 3.4.2.1, PUBREC 3.5.2.1, PUBREL 3.6.2.1,
              PUBCOMP 3.7.2.1, SUBACK 3.9.3, UNSUBACK 3.11.3, DISCONNECT 3.14.2.1, AUTH 3.15.2.1;
              MQTT 3.1.1: CONNACK return codes Table 3.1, SUBACK return codes 3.9.3).
   impl_*  : the implementation's acceptance functions, transcribed arm by arm from the
             `TryFrom<u8>` implementations of gneiss-mqtt/src/mqtt/mod.rs (line numbers given).

   The two families are kept apart on purpose: their comparison is a theorem
   (CodecProofs/DecReasonCodes.v), and both are compared with the 256-entry tables computed
   from the COMPILED implementation on every check run (harness command TABLE). *)
From GM Require Import Base.Prelude.
Open Scope N_scope.

Definition code_in (l : list N) (b : N) : bool := existsb (N.eqb b) l.

(* ------------------------------------------------------------------------------------------ *)
(* Specification                                                                               *)
(* ------------------------------------------------------------------------------------------ *)

(* MQTT 5.0, 3.2.2.2 Connect Reason Code *)
Definition spec_connack_codes : list N :=
  [ 0   (* 0x00 Success *);
    128 (* 0x80 Unspecified error *);
    129 (* 0x81 Malformed Packet *);
    130 (* 0x82 Protocol Error *);
    131 (* 0x83 Implementation specific error *);
    132 (* 0x84 Unsupported Protocol Version *);
    133 (* 0x85 Client Identifier not valid *);
    134 (* 0x86 Bad User Name or Password *);
    135 (* 0x87 Not authorized *);
    136 (* 0x88 Server unavailable *);
    137 (* 0x89 Server busy *);
    138 (* 0x8A Banned *);
    140 (* 0x8C Bad authentication method *);
    144 (* 0x90 Topic Name invalid *);
    149 (* 0x95 Packet too large *);
    151 (* 0x97 Quota exceeded *);
    153 (* 0x99 Payload format invalid *);
    154 (* 0x9A Retain not supported *);
    155 (* 0x9B QoS not supported *);
    156 (* 0x9C Use another server *);
    157 (* 0x9D Server moved *);
    159 (* 0x9F Connection rate exceeded *) ].
Definition spec_connack_code_ok : N -> bool := code_in spec_connack_codes.

(* MQTT 5.0, 3.4.2.1 PUBACK Reason Code *)
Definition spec_puback_codes : list N :=
  [ 0   (* 0x00 Success *);
    16  (* 0x10 No matching subscribers *);
    128 (* 0x80 Unspecified error *);
    131 (* 0x83 Implementation specific error *);
    135 (* 0x87 Not authorized *);
    144 (* 0x90 Topic Name invalid *);
    145 (* 0x91 Packet identifier in use *);
    151 (* 0x97 Quota exceeded *);
    153 (* 0x99 Payload format invalid *) ].
Definition spec_puback_code_ok : N -> bool := code_in spec_puback_codes.

(* MQTT 5.0, 3.5.2.1 PUBREC Reason Code: the same nine values *)
Definition spec_pubrec_codes : list N := [0; 16; 128; 131; 135; 144; 145; 151; 153].
Definition spec_pubrec_code_ok : N -> bool := code_in spec_pubrec_codes.

(* MQTT 5.0, 3.6.2.1 PUBREL Reason Code: 0x00 Success, 0x92 Packet Identifier not found *)
Definition spec_pubrel_codes : list N := [0; 146].
Definition spec_pubrel_code_ok : N -> bool := code_in spec_pubrel_codes.

(* MQTT 5.0, 3.7.2.1 PUBCOMP Reason Code: 0x00 Success, 0x92 Packet Identifier not found *)
Definition spec_pubcomp_codes : list N := [0; 146].
Definition spec_pubcomp_code_ok : N -> bool := code_in spec_pubcomp_codes.

(* MQTT 5.0, 3.9.3 SUBACK Payload *)
Definition spec_suback_codes : list N :=
  [ 0   (* 0x00 Granted QoS 0 *);
    1   (* 0x01 Granted QoS 1 *);
    2   (* 0x02 Granted QoS 2 *);
    128 (* 0x80 Unspecified error *);
    131 (* 0x83 Implementation specific error *);
    135 (* 0x87 Not authorized *);
    143 (* 0x8F Topic Filter invalid *);
    145 (* 0x91 Packet Identifier in use *);
    151 (* 0x97 Quota exceeded *);
    158 (* 0x9E Shared Subscriptions not supported *);
    161 (* 0xA1 Subscription Identifiers not supported *);
    162 (* 0xA2 Wildcard Subscriptions not supported *) ].
Definition spec_suback_code_ok : N -> bool := code_in spec_suback_codes.

(* MQTT 5.0, 3.11.3 UNSUBACK Payload *)
Definition spec_unsuback_codes : list N :=
  [ 0   (* 0x00 Success *);
    17  (* 0x11 No subscription existed *);
    128 (* 0x80 Unspecified error *);
    131 (* 0x83 Implementation specific error *);
    135 (* 0x87 Not authorized *);
    143 (* 0x8F Topic Filter invalid *);
    145 (* 0x91 Packet Identifier in use *) ].
Definition spec_unsuback_code_ok : N -> bool := code_in spec_unsuback_codes.

(* MQTT 5.0, 3.14.2.1 Disconnect Reason Code (0x04 is sent by clients only; it is part of the
   packet's table and therefore of this function; [spec_disconnect_server_code_ok] excludes it) *)
Definition spec_disconnect_codes : list N :=
  [ 0   (* 0x00 Normal disconnection *);
    4   (* 0x04 Disconnect with Will Message (client only) *);
    128 (* 0x80 Unspecified error *);
    129 (* 0x81 Malformed Packet *);
    130 (* 0x82 Protocol Error *);
    131 (* 0x83 Implementation specific error *);
    135 (* 0x87 Not authorized *);
    137 (* 0x89 Server busy *);
    139 (* 0x8B Server shutting down *);
    141 (* 0x8D Keep Alive timeout *);
    142 (* 0x8E Session taken over *);
    143 (* 0x8F Topic Filter invalid *);
    144 (* 0x90 Topic Name invalid *);
    147 (* 0x93 Receive Maximum exceeded *);
    148 (* 0x94 Topic Alias invalid *);
    149 (* 0x95 Packet too large *);
    150 (* 0x96 Message rate too high *);
    151 (* 0x97 Quota exceeded *);
    152 (* 0x98 Administrative action *);
    153 (* 0x99 Payload format invalid *);
    154 (* 0x9A Retain not supported *);
    155 (* 0x9B QoS not supported *);
    156 (* 0x9C Use another server *);
    157 (* 0x9D Server moved *);
    158 (* 0x9E Shared Subscriptions not supported *);
    159 (* 0x9F Connection rate exceeded *);
    160 (* 0xA0 Maximum connect time *);
    161 (* 0xA1 Subscription Identifiers not supported *);
    162 (* 0xA2 Wildcard Subscriptions not supported *) ].
Definition spec_disconnect_code_ok : N -> bool := code_in spec_disconnect_codes.
Definition spec_disconnect_server_code_ok (b : N) : bool := spec_disconnect_code_ok b && negb (b =? 4).

(* MQTT 5.0, 3.15.2.1 Authenticate Reason Code (0x19 Re-authenticate is sent by clients only) *)
Definition spec_auth_codes : list N :=
  [ 0  (* 0x00 Success *); 24 (* 0x18 Continue authentication *); 25 (* 0x19 Re-authenticate *) ].
Definition spec_auth_code_ok : N -> bool := code_in spec_auth_codes.

(* MQTT 5.0, 4.3 / 3.3.1.2: QoS 0, 1, 2; 3 is reserved.  3.3.2.3.2: Payload Format Indicator 0, 1 *)
Definition spec_qos_ok : N -> bool := code_in [0; 1; 2].
Definition spec_pfi_ok : N -> bool := code_in [0; 1].

(* MQTT 3.1.1, Table 3.1 Connect Return code values: 0 accepted, 1 unacceptable protocol version,
   2 identifier rejected, 3 server unavailable, 4 bad user name or password, 5 not authorized *)
Definition spec_connack311_codes : list N := [0; 1; 2; 3; 4; 5].
Definition spec_connack311_code_ok : N -> bool := code_in spec_connack311_codes.

(* MQTT 3.1.1, 3.9.3 SUBACK return codes: 0x00, 0x01, 0x02 maximum QoS granted, 0x80 failure *)
Definition spec_suback311_codes : list N := [0; 1; 2; 128].
Definition spec_suback311_code_ok : N -> bool := code_in spec_suback311_codes.

(* The packet values (Packets.v) carry a CONNACK reason as its MQTT 5 number also for 3.1.1
   connections.  Correspondence of the 3.1.1 return codes with the MQTT 5 reason codes, by the
   names the two documents give them: *)
Definition spec_connack311_of_v5 (rc : N) : option N :=
  if rc =? 0 then Some 0            (* Connection accepted            = Success *)
  else if rc =? 132 then Some 1     (* unacceptable protocol version  = Unsupported Protocol Version *)
  else if rc =? 133 then Some 2     (* identifier rejected            = Client Identifier not valid *)
  else if rc =? 136 then Some 3     (* Server unavailable             = Server unavailable *)
  else if rc =? 134 then Some 4     (* bad user name or password      = Bad User Name or Password *)
  else if rc =? 135 then Some 5     (* not authorized                 = Not authorized *)
  else None.

(* ------------------------------------------------------------------------------------------ *)
(* Implementation (mqtt/mod.rs)                                                                *)
(* ------------------------------------------------------------------------------------------ *)

(* mod.rs:67-82 QualityOfService::try_from *)
Definition impl_qos_ok (b : N) : bool := code_in [0; 1; 2] b.
(* mod.rs:111-125 PayloadFormatIndicator::try_from *)
Definition impl_pfi_ok (b : N) : bool := code_in [0; 1] b.

(* mod.rs:279-314 ConnectReasonCode::try_from *)
Definition impl_connack_code_ok (b : N) : bool :=
  code_in [0; 128; 129; 130; 131; 132; 133; 134; 135; 136; 137; 138; 140; 144; 149; 151; 153; 154; 155; 156; 157; 159] b.

(* mod.rs:360-370 convert_311_encoding_to_connect_reason_code: the value stored in the packet *)
Definition impl_connack311_convert (b : N) : option N :=
  if b =? 0 then Some 0 else if b =? 1 then Some 132 else if b =? 2 then Some 133
  else if b =? 3 then Some 136 else if b =? 4 then Some 134 else if b =? 5 then Some 135 else None.
Definition impl_connack311_code_ok (b : N) : bool :=
  match impl_connack311_convert b with Some _ => true | None => false end.

(* mod.rs:435-456 PubackReasonCode::try_from *)
Definition impl_puback_code_ok (b : N) : bool := code_in [0; 16; 128; 131; 135; 144; 145; 151; 153] b.
(* mod.rs:540-561 PubrecReasonCode::try_from *)
Definition impl_pubrec_code_ok (b : N) : bool := code_in [0; 16; 128; 131; 135; 144; 145; 151; 153] b.
(* mod.rs:607-621 PubrelReasonCode::try_from *)
Definition impl_pubrel_code_ok (b : N) : bool := code_in [0; 146] b.
(* mod.rs:662-676 PubcompReasonCode::try_from *)
Definition impl_pubcomp_code_ok (b : N) : bool := code_in [0; 146] b.

(* mod.rs:864-905 DisconnectReasonCode::try_from *)
Definition impl_disconnect_code_ok (b : N) : bool :=
  code_in [0; 4; 128; 129; 130; 131; 135; 137; 139; 141; 142; 143; 144; 147; 148; 149; 150; 151; 152; 153;
           154; 155; 156; 157; 158; 159; 160; 161; 162] b.

(* mod.rs:1002-1026 SubackReasonCode::try_from *)
Definition impl_suback_code_ok (b : N) : bool := code_in [0; 1; 2; 128; 131; 135; 143; 145; 151; 158; 161; 162] b.

(* mod.rs:1060-1073 convert_311_encoding_to_suback_reason_code (the value is kept) *)
Definition impl_suback311_code_ok (b : N) : bool := code_in [0; 1; 2; 128] b.

(* mod.rs:1118-1139 UnsubackReasonCode::try_from.  143 (TopicFilterInvalid) was added by fix commit
   4bdb294; 144 (TopicNameInvalid, not an UNSUBACK code of the specification) is still accepted for
   API compatibility: the implementation is more lenient than the specification on this one value. *)
Definition impl_unsuback_code_ok (b : N) : bool := code_in [0; 17; 128; 131; 135; 143; 144; 145] b.

(* mod.rs:1173-1187 AuthenticateReasonCode::try_from *)
Definition impl_auth_code_ok (b : N) : bool := code_in [0; 24; 25] b.

(* 256-entry table of a predicate as a list of booleans (what the harness command TABLE prints) *)
Definition table256 (f : N -> bool) : list bool := map (fun i => f (N.of_nat i)) (seq 0 256).
