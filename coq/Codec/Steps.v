(* The data-driven encoder of gneiss-mqtt/src/encode.rs: a packet is first turned into a queue of
   encoding steps (Encoder::reset), then Encoder::encode (111-136) pops steps while the destination
   buffer has at least 4 free bytes (process_encoding_step 598-670).

   A slice step (StringSlice / BytesSlice / IndexedString / UserPropertyName / UserPropertyValue
   with a resume offset) is modelled as [SBytes b] where [b] is what is STILL to be written:
   the Rust resume offset is modelled by dropping the prefix already written. *)
From GM Require Import Base.Prelude Base.Outcome Codec.Prim.
Open Scope N_scope.

Inductive step :=
| SU8 (v : N)       (* EncodingStep::Uint8(u8): holds a value < 256 *)
| SU16 (v : N)      (* EncodingStep::Uint16(u16): already truncated by `as u16` where the code casts *)
| SU32 (v : N)      (* EncodingStep::Uint32(u32) *)
| SVli (v : N)      (* EncodingStep::Vli(u32): range-checked only when processed (encode_vli 573-596) *)
| SBytes (b : bytes).

(* bytes one step produces when space is not an issue *)
Definition step_bytes (s : step) : outcome bytes :=
  match s with
  | SU8 v => Ok [v]
  | SU16 v => Ok (be16 v)
  | SU32 v => Ok (be32 v)
  | SVli v => encode_vli v
  | SBytes b => Ok b
  end.

(* The loop of Encoder::encode, [l] = dest.len(), [cap] = dest.capacity():
     while !steps.is_empty() && dest.len() + 4 <= dest.capacity() { pop_front; process_encoding_step? }
   Integral steps (at most 4 bytes) are written whole.  A slice step writes
   n = min(cap - l, remaining) bytes (process_byte_slice_encoding 598-612); when n < remaining it is
   pushed back at the FRONT with the new offset.  In that case n = cap - l, so dest is full and the
   loop condition fails at the next test (lemma Steps_requeue_exits in CodecProofs/EncFrag.v), which
   is why the recursion can stop there and stay structural.
   (The Rust code re-queues only when the new offset is > 0; inside the loop cap - l >= 4, so
   n < remaining implies n >= 4 and the offset is positive.)
   An error of encode_vli aborts the call with `?`: the call returns Err. *)
Fixpoint encode_loop (steps : list step) (l cap : N) : outcome (bytes * list step) :=
  match steps with
  | [] => Ok ([], [])
  | s :: rest =>
      if l + 4 <=? cap then
        match s with
        | SBytes b =>
            let space := cap - l in
            let remaining := len b in
            let n := N.min space remaining in
            if n <? remaining then Ok (take n b, SBytes (drop n b) :: rest)
            else
              do (out, rest') <- encode_loop rest (l + n) cap ;
              Ok (b ++ out, rest')
        | _ =>
            do bs <- step_bytes s ;
            do (out, rest') <- encode_loop rest (l + len bs) cap ;
            Ok (bs ++ out, rest')
        end
      else Ok ([], steps)
  end.

(* The drain after the loop (encode.rs 125-133, /repo commit 00b5d35): every LEADING step with nothing left to
   write (is_encoding_step_empty 608-617: a slice step whose remaining length is 0) is popped, whatever room is
   left, so that a packet whose bytes are all written is reported Complete.  Integral steps are never empty. *)
Fixpoint drop_empty (steps : list step) : list step :=
  match steps with
  | SBytes [] :: rest => drop_empty rest
  | _ => steps
  end.

(* One call of Encoder::encode on a destination of capacity [cap] already holding [fill] bytes.
   Returns the bytes appended by this call and the remaining steps ([] = EncodeResult::Complete,
   otherwise EncodeResult::Full).  Panic 1 = "Encoder::encode - target buffer too small".
   The drain runs after every loop exit except an error (`?` returns before it). *)
Definition encode_call (steps : list step) (fill cap : N) : outcome (bytes * list step) :=
  if cap <? 4 then Panic 1
  else do (out, rest) <- encode_loop steps fill cap ; Ok (out, drop_empty rest).

(* all bytes the steps produce with unlimited space *)
Fixpoint flatten (steps : list step) : outcome bytes :=
  match steps with
  | [] => Ok []
  | s :: rest => do b <- step_bytes s ; do t <- flatten rest ; Ok (b ++ t)
  end.

(* Drive the encoder over a sequence of (capacity, prefill) buffers, reusing the last one until
   completion, exactly like the facade's `encode` (gneiss-mqtt/src/verif/codec.rs); used by the
   correspondence driver and by C02_fragmentation's corollary.  Fuel bounds the number of calls. *)
Fixpoint encode_seq (fuel : nat) (steps : list step) (bufs : list (N * N)) (last : N * N) : outcome (option bytes) :=
  match fuel with
  | O => Ok None
  | S f =>
      let '(cap, fill) := match bufs with b :: _ => b | [] => last end in
      let fill := N.min fill cap in
      do (out, rest) <- encode_call steps fill cap ;
      match rest with
      | [] => Ok (Some out)
      | _ => do r <- encode_seq f rest (tl bufs) last ;
             match r with Some t => Ok (Some (out ++ t)) | None => Ok None end
      end
  end.
