(* Reference ENCODER for the packets a server sends to a client, written from the OASIS
   specifications (MQTT Version 5.0, OASIS Standard, 7 March 2019; MQTT Version 3.1.1, OASIS
   Standard, 29 October 2014) — NOT from the crate (whose own encoders of CONNACK / SUBACK /
   UNSUBACK / PINGRESP are test-only).  Section numbers refer to the MQTT 5.0 document unless
   marked 3.1.1.

   Shape: data tables plus generic functions.
     [prop_wire_type]   Table 2-4  property identifier -> data type
     [allowed_props]    the per-packet property lists of 3.2.2.3, 3.3.2.3, 3.4.2.2 ... 3.15.2.2
     [print_items]      a property section is any sequence of  identifier ++ value
     [items_of]         the properties a packet VALUE carries, as items, in a canonical order
     [spec_encode_items] fixed header ++ variable header ++ Property Length ++ items ++ payload
   "Any legal property order" is any item list [its] with [same_per_id (items_of p) its]: for
   every identifier the items carrying it are the same and in the same relative order (different
   identifiers commute freely; repeated User Properties / Subscription Identifiers keep their
   order, 3.3.2.3.7 / 3.3.2.3.8).  [spec_encode_with] takes the order as a list of positions in
   [items_of p] and rejects lists that are not such a rearrangement.

   A second degree of freedom of the wire format is covered by [compact]: 3.4.2.1 (and 3.5-3.7,
   3.14.2.1, 3.15.2.1) allow the Reason Code and the Property Length to be omitted; see
   [ack_body].

   Shared with the implementation model: only the packet VALUE types (Packets.v), [utf8_ok] and
   the reason-code tables of the specification (the spec_ functions of ReasonCodes). *)
From GM Require Import Base.Prelude Codec.Packets Codec.Prim Codec.ReasonCodes.
Open Scope N_scope.

Notation "'let?' x := e 'in' f" := (match e with Some x => f | None => None end)
  (at level 200, x pattern, e at level 100, f at level 200).
Notation "'require' c ; f" := (if c then f else None) (at level 200, c at level 100, f at level 200).

(* ---- 1.5 data representation ---- *)
(* 1.5.2 Two Byte Integer, 1.5.3 Four Byte Integer: big-endian *)
Definition w_u8 (n : N) : option bytes := require (n <? 256); Some [n].
Definition w_u16 (n : N) : option bytes := require (n <? 65536); Some [n / 256; n mod 256].
Definition w_u32 (n : N) : option bytes :=
  require (n <? 4294967296); Some [n / 16777216; (n / 65536) mod 256; (n / 256) mod 256; n mod 256].

(* 1.5.5 Variable Byte Integer: "do encodedByte = X MOD 128; X = X DIV 128; if X > 0 then
   encodedByte = encodedByte OR 128; output encodedByte while X > 0"; maximum 268,435,455, four bytes *)
Fixpoint w_vbi_digits (n : nat) (x : N) : bytes :=
  match n with
  | O => []
  | S n' => if x / 128 =? 0 then [x mod 128] else (x mod 128 + 128) :: w_vbi_digits n' (x / 128)
  end.
Definition w_vbi (x : N) : option bytes := require (x <=? 268435455); Some (w_vbi_digits 4 x).

(* 1.5.4 UTF-8 Encoded String: two byte length, well-formed UTF-8 without surrogates (utf8_ok),
   no U+0000 [MQTT-1.5.4-2]; at most 65,535 bytes *)
Definition no_null (s : bytes) : bool := forallb (fun x => negb (x =? 0)) s.
Definition string_ok (s : bytes) : bool := (len s <? 65536) && utf8_ok s && no_null s.
Definition w_string (s : bytes) : option bytes :=
  require (string_ok s); let? l := w_u16 (len s) in Some (l ++ s).

(* 1.5.6 Binary Data: two byte length followed by that many bytes *)
Definition binary_ok (b : bytes) : bool := (len b <? 65536) && bytes_ok b.
Definition w_binary (b : bytes) : option bytes :=
  require (binary_ok b); let? l := w_u16 (len b) in Some (l ++ b).

(* ---- 2.2.2 properties ---- *)
Inductive wire_type := WByte | WU16 | WU32 | WVbi | WString | WBinary | WPair.

(* Table 2-4 Properties: identifier, type *)
Definition prop_table : list (N * wire_type) :=
  [ (1,  WByte)    (* Payload Format Indicator *);
    (2,  WU32)     (* Message Expiry Interval *);
    (3,  WString)  (* Content Type *);
    (8,  WString)  (* Response Topic *);
    (9,  WBinary)  (* Correlation Data *);
    (11, WVbi)     (* Subscription Identifier *);
    (17, WU32)     (* Session Expiry Interval *);
    (18, WString)  (* Assigned Client Identifier *);
    (19, WU16)     (* Server Keep Alive *);
    (21, WString)  (* Authentication Method *);
    (22, WBinary)  (* Authentication Data *);
    (23, WByte)    (* Request Problem Information *);
    (24, WU32)     (* Will Delay Interval *);
    (25, WByte)    (* Request Response Information *);
    (26, WString)  (* Response Information *);
    (28, WString)  (* Server Reference *);
    (31, WString)  (* Reason String *);
    (33, WU16)     (* Receive Maximum *);
    (34, WU16)     (* Topic Alias Maximum *);
    (35, WU16)     (* Topic Alias *);
    (36, WByte)    (* Maximum QoS *);
    (37, WByte)    (* Retain Available *);
    (38, WPair)    (* User Property *);
    (39, WU32)     (* Maximum Packet Size *);
    (40, WByte)    (* Wildcard Subscription Available *);
    (41, WByte)    (* Subscription Identifier Available *);
    (42, WByte)    (* Shared Subscription Available *) ].

Fixpoint lookup {A} (k : N) (l : list (N * A)) : option A :=
  match l with [] => None | (k', a) :: r => if k =? k' then Some a else lookup k r end.
Definition prop_wire_type (id : N) : option wire_type := lookup id prop_table.

Inductive pvalue :=
| PByte (n : N) | PU16 (n : N) | PU32 (n : N) | PVbi (n : N)
| PString (s : bytes) | PBinary (b : bytes) | PPair (name value : bytes).
Definition pitem : Type := N * pvalue.          (* identifier, value *)

Definition pvalue_type (v : pvalue) : wire_type :=
  match v with PByte _ => WByte | PU16 _ => WU16 | PU32 _ => WU32 | PVbi _ => WVbi
             | PString _ => WString | PBinary _ => WBinary | PPair _ _ => WPair end.
Definition wire_type_eqb (a b : wire_type) : bool :=
  match a, b with WByte, WByte | WU16, WU16 | WU32, WU32 | WVbi, WVbi | WString, WString
                | WBinary, WBinary | WPair, WPair => true | _, _ => false end.

Definition print_value (v : pvalue) : option bytes :=
  match v with
  | PByte n => w_u8 n | PU16 n => w_u16 n | PU32 n => w_u32 n | PVbi n => w_vbi n
  | PString s => w_string s | PBinary b => w_binary b
  | PPair k x => let? a := w_string k in let? b := w_string x in Some (a ++ b)
  end.

(* value restrictions the specification attaches to single-byte properties: 3.3.2.3.2 (0 or 1),
   3.2.2.3.4 Maximum QoS (0 or 1), 3.2.2.3.5 / .11 / .12 / .13 availability flags (0 or 1) *)
Definition byte_prop_ok (id n : N) : bool :=
  if (id =? 1) || (id =? 36) || (id =? 37) || (id =? 40) || (id =? 41) || (id =? 42) || (id =? 23) || (id =? 25)
  then n <? 2 else true.

Definition print_item (it : pitem) : option bytes :=
  let '(id, v) := it in
  let? t := prop_wire_type id in
  require (wire_type_eqb t (pvalue_type v));
  require (match v with PByte n => byte_prop_ok id n | _ => true end);
  let? vb := print_value v in
  let? idb := w_vbi id in          (* 2.2.2.2: the identifier is a Variable Byte Integer; all are < 128 *)
  Some (idb ++ vb).

Fixpoint print_items (its : list pitem) : option bytes :=
  match its with
  | [] => Some []
  | it :: r => let? a := print_item it in let? b := print_items r in Some (a ++ b)
  end.

(* 2.2.2.1 Property Length ++ properties *)
Definition print_properties (its : list pitem) : option bytes :=
  let? ps := print_items its in let? l := w_vbi (len ps) in Some (l ++ ps).

(* ---- property lists per packet type (control packet type number -> identifiers) ---- *)
Definition allowed_props (packet_type : N) : list N :=
  if packet_type =? 2 then [17; 33; 36; 37; 39; 18; 34; 31; 38; 40; 41; 42; 19; 26; 28; 21; 22]  (* CONNACK 3.2.2.3 *)
  else if packet_type =? 3 then [1; 2; 35; 8; 9; 38; 11; 3]                                      (* PUBLISH 3.3.2.3 *)
  else if (4 <=? packet_type) && (packet_type <=? 7) then [31; 38]                                (* PUBACK..PUBCOMP *)
  else if packet_type =? 9 then [31; 38]                                                          (* SUBACK 3.9.2.1 *)
  else if packet_type =? 11 then [31; 38]                                                         (* UNSUBACK 3.11.2.1 *)
  else if packet_type =? 14 then [17; 31; 38; 28]                                                 (* DISCONNECT 3.14.2.2 *)
  else if packet_type =? 15 then [21; 22; 31; 38]                                                 (* AUTH 3.15.2.2 *)
  else [].

(* may appear more than once: User Property everywhere; Subscription Identifier in PUBLISH (3.3.2.3.8) *)
Definition repeatable (packet_type id : N) : bool := (id =? 38) || ((packet_type =? 3) && (id =? 11)).

Definition id_mem (k : N) (l : list N) : bool := existsb (N.eqb k) l.
Fixpoint count_id (k : N) (its : list pitem) : nat :=
  match its with [] => O | (k', _) :: r => (if k =? k' then S (count_id k r) else count_id k r) end.

(* a property section is legal for a packet type: every identifier allowed, non-repeatable ones at most once *)
Definition items_allowed (packet_type : N) (its : list pitem) : bool :=
  forallb (fun it => id_mem (fst it) (allowed_props packet_type)) its
  && forallb (fun k => repeatable packet_type k || (count_id k its <=? 1)%nat) (allowed_props packet_type).

(* ---- the properties carried by a packet value, canonical order = order of [allowed_props] ---- *)
Definition opt_item {A} (id : N) (f : A -> pvalue) (o : option A) : list pitem :=
  match o with Some x => [(id, f x)] | None => [] end.
Definition bool_byte (b : bool) : N := if b then 1 else 0.
Definition PBool (b : bool) : pvalue := PByte (bool_byte b).
Definition up_items (o : option (list user_property)) : list pitem :=
  match o with Some l => map (fun u => (38, PPair (up_name u) (up_value u))) l | None => [] end.
Definition subid_items (o : option (list N)) : list pitem :=
  match o with Some l => map (fun i => (11, PVbi i)) l | None => [] end.

Definition items_connack (c : connack) : list pitem :=
  opt_item 17 PU32 (ca_sei c) ++ opt_item 33 PU16 (ca_receive_max c) ++ opt_item 36 PByte (ca_max_qos c)
  ++ opt_item 37 PBool (ca_retain_avail c) ++ opt_item 39 PU32 (ca_max_packet c)
  ++ opt_item 18 PString (ca_assigned_id c) ++ opt_item 34 PU16 (ca_tam c) ++ opt_item 31 PString (ca_reason c)
  ++ up_items (ca_up c) ++ opt_item 40 PBool (ca_wildcard c) ++ opt_item 41 PBool (ca_subid_avail c)
  ++ opt_item 42 PBool (ca_shared c) ++ opt_item 19 PU16 (ca_server_keep_alive c)
  ++ opt_item 26 PString (ca_response_info c) ++ opt_item 28 PString (ca_server_ref c)
  ++ opt_item 21 PString (ca_auth_method c) ++ opt_item 22 PBinary (ca_auth_data c).

Definition items_publish (p : publish) : list pitem :=
  opt_item 1 PByte (pub_pfi p) ++ opt_item 2 PU32 (pub_mei p) ++ opt_item 35 PU16 (pub_alias p)
  ++ opt_item 8 PString (pub_response_topic p) ++ opt_item 9 PBinary (pub_correlation p)
  ++ up_items (pub_up p) ++ subid_items (pub_subids p) ++ opt_item 3 PString (pub_content_type p).

Definition items_ack (a : ack) : list pitem := opt_item 31 PString (ack_reason a) ++ up_items (ack_up a).
Definition items_suback (s : suback) : list pitem := opt_item 31 PString (sa_reason s) ++ up_items (sa_up s).
Definition items_unsuback (s : unsuback) : list pitem := opt_item 31 PString (ua_reason s) ++ up_items (ua_up s).
Definition items_disconnect (d : disconnect) : list pitem :=
  opt_item 17 PU32 (d_sei d) ++ opt_item 31 PString (d_reason d) ++ up_items (d_up d) ++ opt_item 28 PString (d_server_ref d).
Definition items_auth (a : auth) : list pitem :=
  opt_item 21 PString (au_method a) ++ opt_item 22 PBinary (au_data a) ++ opt_item 31 PString (au_reason a) ++ up_items (au_up a).

Definition items_of (p : packet) : list pitem :=
  match p with
  | Connack c => items_connack c | Publish q => items_publish q
  | Puback a | Pubrec a | Pubrel a | Pubcomp a => items_ack a
  | Suback s => items_suback s | Unsuback s => items_unsuback s
  | Disconnect d => items_disconnect d | Auth a => items_auth a
  | _ => []
  end.

(* ---- which packet values are expressible / in canonical form ----
   Representation conventions of Packets.v that are not wire matters: an absent user-property /
   subscription-identifier list is None (never Some []), an absent payload is None (never
   Some []), a QoS 0 PUBLISH has packet identifier 0 (it has none on the wire), MQTT 3.1.1
   packets carry no properties and the reason code the version implies. *)
Definition nonempty_list {A} (o : option (list A)) : bool := match o with Some [] => false | _ => true end.
Definition is_none {A} (o : option A) : bool := match o with None => true | Some _ => false end.
Definition is_nil {A} (l : list A) : bool := match l with [] => true | _ => false end.

Definition legal_connack (v : version) (c : connack) : bool :=
  match v with
  | V5 => spec_connack_code_ok (ca_rc c) && nonempty_list (ca_up c)
  | V311 =>
    match spec_connack311_of_v5 (ca_rc c) with Some _ => true | None => false end
    && is_none (ca_sei c) && is_none (ca_receive_max c) && is_none (ca_max_qos c) && is_none (ca_retain_avail c)
    && is_none (ca_max_packet c) && is_none (ca_assigned_id c) && is_none (ca_tam c) && is_none (ca_reason c)
    && is_none (ca_up c) && is_none (ca_wildcard c) && is_none (ca_subid_avail c) && is_none (ca_shared c)
    && is_none (ca_server_keep_alive c) && is_none (ca_response_info c) && is_none (ca_server_ref c)
    && is_none (ca_auth_method c) && is_none (ca_auth_data c)
  end.

Definition legal_publish (v : version) (p : publish) : bool :=
  spec_qos_ok (pub_qos p) && ((0 <? pub_qos p) || (pub_pid p =? 0))
  && nonempty_list (pub_payload p)
  && match pub_payload p with Some b => bytes_ok b | None => true end
  && match v with
     | V5 => nonempty_list (pub_up p) && nonempty_list (pub_subids p)
     | V311 => is_none (pub_pfi p) && is_none (pub_mei p) && is_none (pub_alias p) && is_none (pub_response_topic p)
               && is_none (pub_correlation p) && is_none (pub_subids p) && is_none (pub_content_type p) && is_none (pub_up p)
     end.

Definition legal_ack (v : version) (code_ok : N -> bool) (a : ack) : bool :=
  match v with
  | V5 => code_ok (ack_rc a) && nonempty_list (ack_up a)
  | V311 => (ack_rc a =? 0) && is_none (ack_reason a) && is_none (ack_up a)
  end.

Definition legal_suback (v : version) (s : suback) : bool :=
  match v with
  | V5 => forallb spec_suback_code_ok (sa_codes s) && nonempty_list (sa_up s)
  | V311 => forallb spec_suback311_code_ok (sa_codes s) && is_none (sa_reason s) && is_none (sa_up s)
  end.

Definition legal_unsuback (v : version) (s : unsuback) : bool :=
  match v with
  | V5 => forallb spec_unsuback_code_ok (ua_codes s) && nonempty_list (ua_up s)
  | V311 => is_nil (ua_codes s) && is_none (ua_reason s) && is_none (ua_up s)
  end.

Definition legal_disconnect (v : version) (d : disconnect) : bool :=
  match v with
  | V5 => spec_disconnect_code_ok (d_rc d) && nonempty_list (d_up d)
  | V311 => (d_rc d =? 0) && is_none (d_sei d) && is_none (d_reason d) && is_none (d_up d) && is_none (d_server_ref d)
  end.

Definition legal_auth (v : version) (a : auth) : bool :=
  match v with
  | V5 => spec_auth_code_ok (au_rc a) && nonempty_list (au_up a)
  | V311 => false                     (* there is no AUTH packet in MQTT 3.1.1 *)
  end.

Definition legal_packet (v : version) (p : packet) : bool :=
  match p with
  | Connack c => legal_connack v c
  | Publish q => legal_publish v q
  | Puback a => legal_ack v spec_puback_code_ok a
  | Pubrec a => legal_ack v spec_pubrec_code_ok a
  | Pubrel a => legal_ack v spec_pubrel_code_ok a
  | Pubcomp a => legal_ack v spec_pubcomp_code_ok a
  | Suback s => legal_suback v s
  | Unsuback s => legal_unsuback v s
  | Pingresp => true
  | Disconnect d => legal_disconnect v d
  | Auth a => legal_auth v a
  | Connect _ | Subscribe _ | Unsubscribe _ | Pingreq => false    (* client-to-server only *)
  end.

(* ---- packet bodies (variable header ++ payload) for a GIVEN property item list ---- *)
Fixpoint w_codes (l : list N) : option bytes :=
  match l with [] => Some [] | c :: r => let? a := w_u8 c in let? b := w_codes r in Some (a ++ b) end.

(* 3.4.2.1 (PUBACK; likewise 3.5.2.1, 3.6.2.1, 3.7.2.1): "The Reason Code and Property Length can
   be omitted if the Reason Code is 0x00 (Success) and there are no Properties.  In this case the
   PUBACK has a Remaining Length of 2."  3.4.2.2.1: "If the Remaining Length is less than 4 there
   is no Property Length and the value of 0 is used."
   compact = 0: everything written; 1: Property Length omitted when there are no properties;
   >= 2: additionally the Reason Code omitted when it is 0 and there are no properties. *)
Definition ack_body (pid rc : N) (its : list pitem) (compact : N) : option bytes :=
  let? pidb := w_u16 pid in
  let? rcb := w_u8 rc in
  match its with
  | [] =>
    if (2 <=? compact) && (rc =? 0) then Some pidb
    else if 1 <=? compact then Some (pidb ++ rcb)
    else Some (pidb ++ rcb ++ [0])
  | _ => let? props := print_properties its in Some (pidb ++ rcb ++ props)
  end.

(* 3.14.2.1: "The Reason Code and Property Length can be omitted if the Reason Code is 0x00
   (Normal disconnecton) and there are no Properties.  In this case the DISCONNECT has a Remaining
   Length of 0."  3.14.2.2.1: "If the Remaining Length is less than 2, a value of 0 is used." *)
Definition disconnect_body (rc : N) (its : list pitem) (compact : N) : option bytes :=
  let? rcb := w_u8 rc in
  match its with
  | [] =>
    if (2 <=? compact) && (rc =? 0) then Some []
    else if 1 <=? compact then Some rcb
    else Some (rcb ++ [0])
  | _ => let? props := print_properties its in Some (rcb ++ props)
  end.

(* 3.15.2.1: "The Reason Code and Property Length can be omitted if the Reason Code is 0x00
   (Success) and there are no Properties.  In this case the AUTH has a Remaining Length of 0."
   (there is no form with a Reason Code but without Property Length) *)
Definition auth_body (rc : N) (its : list pitem) (compact : N) : option bytes :=
  let? rcb := w_u8 rc in
  match its with
  | [] => if (2 <=? compact) && (rc =? 0) then Some [] else Some (rcb ++ [0])
  | _ => let? props := print_properties its in Some (rcb ++ props)
  end.

(* 3.3.1: PUBLISH fixed header flags: bit 3 DUP, bits 2-1 QoS, bit 0 RETAIN *)
Definition publish_first_byte (p : publish) : N :=
  48 + 8 * bool_byte (pub_dup p) + 2 * pub_qos p + bool_byte (pub_retain p).

Definition payload_bytes (o : option bytes) : bytes := match o with Some b => b | None => [] end.

(* first byte and body of a packet, property section given as [its] (ignored for 3.1.1) *)
Definition spec_body (v : version) (p : packet) (its : list pitem) (compact : N) : option (N * bytes) :=
  match p, v with
  | Connack c, V5 =>                                   (* 3.2: flags, reason code, properties *)
    require (items_allowed 2 its);
    let? rcb := w_u8 (ca_rc c) in
    let? props := print_properties its in
    Some (32, [bool_byte (ca_session_present c)] ++ rcb ++ props)
  | Connack c, V311 =>                                 (* 3.1.1 3.2: flags, return code *)
    let? code := spec_connack311_of_v5 (ca_rc c) in
    Some (32, [bool_byte (ca_session_present c); code])
  | Publish q, _ =>                                    (* 3.3: topic, [packet id], [properties], payload *)
    let? topic := w_string (pub_topic q) in
    let? pidb := (if 0 <? pub_qos q then w_u16 (pub_pid q) else Some []) in
    let? props := (match v with
                   | V5 => require (items_allowed 3 its); print_properties its
                   | V311 => Some [] end) in
    Some (publish_first_byte q, topic ++ pidb ++ props ++ payload_bytes (pub_payload q))
  | Puback a, V5 => require (items_allowed 4 its); let? b := ack_body (ack_pid a) (ack_rc a) its compact in Some (64, b)
  | Pubrec a, V5 => require (items_allowed 5 its); let? b := ack_body (ack_pid a) (ack_rc a) its compact in Some (80, b)
  | Pubrel a, V5 => require (items_allowed 6 its); let? b := ack_body (ack_pid a) (ack_rc a) its compact in Some (98, b)   (* 3.6.1: flags 0010 *)
  | Pubcomp a, V5 => require (items_allowed 7 its); let? b := ack_body (ack_pid a) (ack_rc a) its compact in Some (112, b)
  | Puback a, V311 => let? b := w_u16 (ack_pid a) in Some (64, b)
  | Pubrec a, V311 => let? b := w_u16 (ack_pid a) in Some (80, b)
  | Pubrel a, V311 => let? b := w_u16 (ack_pid a) in Some (98, b)
  | Pubcomp a, V311 => let? b := w_u16 (ack_pid a) in Some (112, b)
  | Suback s, V5 =>                                    (* 3.9: packet id, properties; payload = reason codes *)
    require (items_allowed 9 its);
    let? pidb := w_u16 (sa_pid s) in let? props := print_properties its in let? codes := w_codes (sa_codes s) in
    Some (144, pidb ++ props ++ codes)
  | Suback s, V311 =>
    let? pidb := w_u16 (sa_pid s) in let? codes := w_codes (sa_codes s) in Some (144, pidb ++ codes)
  | Unsuback s, V5 =>                                  (* 3.11 *)
    require (items_allowed 11 its);
    let? pidb := w_u16 (ua_pid s) in let? props := print_properties its in let? codes := w_codes (ua_codes s) in
    Some (176, pidb ++ props ++ codes)
  | Unsuback s, V311 => let? pidb := w_u16 (ua_pid s) in Some (176, pidb)      (* 3.1.1 3.11: no payload *)
  | Pingresp, _ => Some (208, [])                      (* 3.13 *)
  | Disconnect d, V5 => require (items_allowed 14 its); let? b := disconnect_body (d_rc d) its compact in Some (224, b)
  | Disconnect d, V311 => Some (224, [])               (* 3.1.1 3.14 (sent by clients; the format is the same) *)
  | Auth a, V5 => require (items_allowed 15 its); let? b := auth_body (au_rc a) its compact in Some (240, b)
  | _, _ => None
  end.

(* 2.1 fixed header: first byte, Remaining Length as a Variable Byte Integer, then the body *)
Definition frame (first_byte : N) (body : bytes) : option bytes :=
  let? l := w_vbi (len body) in Some (first_byte :: l ++ body).

Definition spec_encode_items (v : version) (p : packet) (its : list pitem) (compact : N) : option bytes :=
  require (legal_packet v p);
  let? fb := spec_body v p its compact in
  frame (fst fb) (snd fb).

(* ---- property orders ---- *)
Fixpoint bytes_eqb (a b : bytes) : bool :=
  match a, b with [], [] => true | x :: a', y :: b' => (x =? y) && bytes_eqb a' b' | _, _ => false end.
Definition pvalue_eqb (a b : pvalue) : bool :=
  match a, b with
  | PByte x, PByte y | PU16 x, PU16 y | PU32 x, PU32 y | PVbi x, PVbi y => x =? y
  | PString x, PString y | PBinary x, PBinary y => bytes_eqb x y
  | PPair k x, PPair k' y => bytes_eqb k k' && bytes_eqb x y
  | _, _ => false
  end.
Definition pitem_eqb (a b : pitem) : bool := (fst a =? fst b) && pvalue_eqb (snd a) (snd b).
Fixpoint pitems_eqb (a b : list pitem) : bool :=
  match a, b with [], [] => true | x :: a', y :: b' => pitem_eqb x y && pitems_eqb a' b' | _, _ => false end.

Definition with_id (k : N) (its : list pitem) : list pitem := filter (fun it => fst it =? k) its.

(* the legal rearrangements of a property list: for every identifier, the same items in the same order *)
Definition same_per_id (a b : list pitem) : Prop := forall k, with_id k a = with_id k b.

Definition all_ids : list N := map fst prop_table.
Definition same_per_id_b (a b : list pitem) : bool :=
  forallb (fun k => pitems_eqb (with_id k a) (with_id k b)) all_ids
  && forallb (fun it => id_mem (fst it) all_ids) a && forallb (fun it => id_mem (fst it) all_ids) b.

Fixpoint pick_items (its : list pitem) (order : list N) : option (list pitem) :=
  match order with
  | [] => Some []
  | i :: r => let? x := nth_error its (N.to_nat i) in let? l := pick_items its r in Some (x :: l)
  end.

(* [order] lists positions of [its]; the result is defined iff it is a legal rearrangement *)
Definition reorder (its : list pitem) (order : list N) : option (list pitem) :=
  let? its' := pick_items its order in
  require (same_per_id_b its its'); Some its'.

Definition identity_order (n : nat) : list N := map N.of_nat (seq 0 n).

(* ---- the reference encoder ---- *)
Definition spec_encode_with (v : version) (p : packet) (order : list N) (compact : N) : option bytes :=
  let? its := reorder (items_of p) order in
  spec_encode_items v p its compact.

Definition spec_encode (v : version) (p : packet) : option bytes :=
  spec_encode_with v p (identity_order (length (items_of p))) 0.

(* number of property items of a packet (the length an [order] must have) *)
Definition item_count (p : packet) : N := len (items_of p).
