(* Model of the implementation's packet encoders: Encoder::reset (encode.rs:98-109) ->
   write_encoding_steps5 / write_encoding_steps311 (encode.rs:37-81) -> the per-packet
   write_*_encoding_steps* and compute_*_packet_length_properties* functions of
   gneiss-mqtt/src/mqtt/*.rs, transcribed line by line, as they are compiled in a NON-test build
   (CONNACK / SUBACK / UNSUBACK / PINGRESP encoders are `#[cfg(not(test))]` stubs returning
   GneissError::Unimplemented).

   The length computations stay separate from the emitted steps and every `as u16` / `as u32`
   cast is a [u16] / [u32] truncation, so "remaining length = length of the body" and
   "length prefix = string length" are proof obligations (CodecProofs/Enc*.v).
   usize arithmetic is unbounded N (64-bit usize cannot overflow on lengths of in-memory data).
   Flag bytes are written arithmetically; the Rust code builds them with `|` and `<<` from
   disjoint bit fields, which is the same number. *)
From GM Require Import Base.Prelude Base.Outcome Codec.Prim Codec.Packets Codec.Steps.
Open Scope N_scope.

(* ---- property keys (mqtt/utils.rs:30-56) ---- *)
Definition K_PAYLOAD_FORMAT : N := 1.
Definition K_MESSAGE_EXPIRY : N := 2.
Definition K_CONTENT_TYPE : N := 3.
Definition K_RESPONSE_TOPIC : N := 8.
Definition K_CORRELATION_DATA : N := 9.
Definition K_SUBSCRIPTION_ID : N := 11.
Definition K_SESSION_EXPIRY : N := 17.
Definition K_AUTH_METHOD : N := 21.
Definition K_AUTH_DATA : N := 22.
Definition K_REQUEST_PROBLEM_INFO : N := 23.
Definition K_WILL_DELAY : N := 24.
Definition K_REQUEST_RESPONSE_INFO : N := 25.
Definition K_SERVER_REFERENCE : N := 28.
Definition K_REASON_STRING : N := 31.
Definition K_RECEIVE_MAXIMUM : N := 33.
Definition K_TOPIC_ALIAS_MAXIMUM : N := 34.
Definition K_TOPIC_ALIAS : N := 35.
Definition K_USER_PROPERTY : N := 38.
Definition K_MAXIMUM_PACKET_SIZE : N := 39.

(* ---- length helpers (encode.rs:446-555) ---- *)

(* compute_user_properties_length 541-555 *)
Fixpoint up_sum (l : list user_property) : N :=
  match l with [] => 0 | p :: r => len (up_name p) + len (up_value p) + up_sum r end.
Definition up_length (o : option (list user_property)) : N :=
  match o with None => 0 | Some l => len l * 5 + up_sum l end.

(* add_optional_u8/u16/u32_property_length, add_optional_string/bytes_property_length *)
Definition opt_fixed_len {A} (n : N) (o : option A) : N := match o with Some _ => n | None => 0 end.
Definition opt_data_prop_len (o : option bytes) : N := match o with Some s => 3 + len s | None => 0 end.
(* add_optional_string_length / add_optional_bytes_length *)
Definition opt_data_len (o : option bytes) : N := 2 + match o with Some s => len s | None => 0 end.

(* ---- step helpers (the encode_* macros, encode.rs:174-366) ---- *)
Definition bool_n (b : bool) : N := if b then 1 else 0.

(* encode_optional_property!(steps, Uint8/Uint16/Uint32, key, value) *)
Definition opt_u8_prop (k : N) (o : option N) : list step :=
  match o with Some v => [SU8 k; SU8 v] | None => [] end.
Definition opt_u16_prop (k : N) (o : option N) : list step :=
  match o with Some v => [SU8 k; SU16 v] | None => [] end.
Definition opt_u32_prop (k : N) (o : option N) : list step :=
  match o with Some v => [SU8 k; SU32 v] | None => [] end.
Definition opt_vli_prop (k : N) (o : option N) : list step :=
  match o with Some v => [SU8 k; SVli v] | None => [] end.
(* encode_optional_boolean_property! *)
Definition opt_bool_prop (k : N) (o : option bool) : list step :=
  match o with Some v => [SU8 k; SU8 (bool_n v)] | None => [] end.
(* encode_length_prefixed_string! / encode_indexed_string! *)
Definition lp_data (s : bytes) : list step := [SU16 (u16 (len s)); SBytes s].
(* encode_length_prefixed_optional_string! / encode_length_prefixed_optional_bytes! *)
Definition lp_opt_data (o : option bytes) : list step :=
  match o with Some s => [SU16 (u16 (len s)); SBytes s] | None => [SU16 0] end.
(* encode_optional_string_property! / encode_optional_bytes_property! *)
Definition opt_data_prop (k : N) (o : option bytes) : list step :=
  match o with Some s => [SU8 k; SU16 (u16 (len s)); SBytes s] | None => [] end.
(* encode_user_property! / encode_user_properties! *)
Definition up_steps1 (p : user_property) : list step :=
  [SU8 K_USER_PROPERTY; SU16 (u16 (len (up_name p))); SBytes (up_name p);
   SU16 (u16 (len (up_value p))); SBytes (up_value p)].
Definition up_steps (o : option (list user_property)) : list step :=
  match o with Some l => flat_map up_steps1 l | None => [] end.

(* ================= PUBACK / PUBREC / PUBREL / PUBCOMP ================= *)

(* define_ack_packet_lengths_function! (encode.rs:392-411); every *ReasonCode::Success is 0 *)
Definition ack_lengths (a : ack) : outcome (N * N) :=
  let pl := up_length (ack_up a) + opt_data_prop_len (ack_reason a) in
  if pl =? 0 then
    if ack_rc a =? 0 then Ok (2, 0) else Ok (3, 0)
  else
    do sz <- vli_size pl ;
    Ok (u32 (3 + pl + sz), u32 pl).

(* define_ack_packet_encoding_impl5! (encode.rs:437-468); the two assert_eq! are Panic 10 / 11 *)
Definition ack_steps5 (first_byte : N) (a : ack) : outcome (list step) :=
  do (total, pl) <- ack_lengths a ;
  let hd := [SU8 first_byte; SVli total; SU16 (ack_pid a)] in
  if (ack_rc a =? 0) && (pl =? 0) then
    if total =? 2 then Ok hd else Panic 10
  else
    let hd := hd ++ [SU8 (ack_rc a)] in
    if pl =? 0 then
      if total =? 3 then Ok hd else Panic 11
    else
      Ok (hd ++ [SVli pl] ++ opt_data_prop K_REASON_STRING (ack_reason a) ++ up_steps (ack_up a)).

(* define_ack_packet_encoding_impl311! (encode.rs:472-487) *)
Definition ack_steps311 (first_byte : N) (a : ack) : outcome (list step) :=
  Ok [SU8 first_byte; SU8 2; SU16 (ack_pid a)].

Definition PUBACK_FIRST_BYTE : N := 64.    (* 4 << 4 *)
Definition PUBREC_FIRST_BYTE : N := 80.    (* 5 << 4 *)
Definition PUBREL_FIRST_BYTE : N := 98.    (* 6 << 4 | 2 *)
Definition PUBCOMP_FIRST_BYTE : N := 112.  (* 7 << 4 *)
Definition SUBSCRIBE_FIRST_BYTE : N := 130.   (* 8 << 4 | 2 *)
Definition UNSUBSCRIBE_FIRST_BYTE : N := 162. (* 10 << 4 | 2 *)

(* ================= PUBLISH (mqtt/publish.rs) ================= *)

(* subscription identifiers loop of compute_publish_packet_length_properties5 29-35 *)
Fixpoint subid_lengths (l : list N) (acc : N) : outcome N :=
  match l with
  | [] => Ok acc
  | v :: r => do sz <- vli_size v ; subid_lengths r (acc + (1 + sz))
  end.

(* compute_publish_packet_length_properties5 19-66 *)
Definition publish_lengths5 (p : publish) (r : resolution) : outcome (N * N) :=
  let pl := up_length (pub_up p) in
  let pl := pl + opt_fixed_len 2 (pub_pfi p) in
  let pl := pl + opt_fixed_len 5 (pub_mei p) in
  let pl := pl + opt_fixed_len 3 (r_alias r) in
  let pl := pl + opt_data_prop_len (pub_content_type p) in
  let pl := pl + opt_data_prop_len (pub_response_topic p) in
  let pl := pl + opt_data_prop_len (pub_correlation p) in
  do pl <- match pub_subids p with Some ids => subid_lengths ids pl | None => Ok pl end ;
  do total <- vli_size pl ;
  let total := total + 2 in
  let total := if r_skip_topic r then total else total + len (pub_topic p) in
  let total := if pub_qos p =? 0 then total else total + 2 in
  let total := total + pl in
  let total := match pub_payload p with Some d => total + len d | None => total end in
  Ok (u32 total, u32 pl).

(* compute_publish_fixed_header_first_byte 78-92 *)
Definition publish_first_byte (p : publish) : N :=
  48 + (if pub_dup p then 8 else 0) + pub_qos p * 2 + (if pub_retain p then 1 else 0).

Definition subid_steps (o : option (list N)) : list step :=
  match o with Some l => flat_map (fun v => [SU8 K_SUBSCRIPTION_ID; SVli v]) l | None => [] end.

(* write_publish_encoding_steps5 131-174 *)
Definition publish_steps5 (p : publish) (r : resolution) : outcome (list step) :=
  do (total, pl) <- publish_lengths5 p r ;
  Ok ([SU8 (publish_first_byte p); SVli total]
      ++ (if r_skip_topic r then [SU16 0] else lp_data (pub_topic p))
      ++ (if pub_qos p =? 0 then [] else [SU16 (pub_pid p)])
      ++ [SVli pl]
      ++ opt_u8_prop K_PAYLOAD_FORMAT (pub_pfi p)
      ++ opt_u32_prop K_MESSAGE_EXPIRY (pub_mei p)
      ++ opt_u16_prop K_TOPIC_ALIAS (r_alias r)
      ++ opt_data_prop K_RESPONSE_TOPIC (pub_response_topic p)
      ++ opt_data_prop K_CORRELATION_DATA (pub_correlation p)
      ++ subid_steps (pub_subids p)
      ++ opt_data_prop K_CONTENT_TYPE (pub_content_type p)
      ++ up_steps (pub_up p)
      ++ match pub_payload p with Some d => [SBytes d] | None => [] end).

(* compute_publish_packet_length_properties311 176-201 *)
Definition publish_length311 (p : publish) : N :=
  let total := 0 + 2 + len (pub_topic p) in
  let total := if pub_qos p =? 0 then total else total + 2 in
  let total := match pub_payload p with Some d => total + len d | None => total end in
  u32 total.

(* write_publish_encoding_steps311 203-220: the alias resolution is not consulted *)
Definition publish_steps311 (p : publish) : outcome (list step) :=
  Ok ([SU8 (publish_first_byte p); SVli (publish_length311 p)]
      ++ lp_data (pub_topic p)
      ++ (if pub_qos p =? 0 then [] else [SU16 (pub_pid p)])
      ++ match pub_payload p with Some d => [SBytes d] | None => [] end).

(* ================= CONNECT (mqtt/connect.rs) ================= *)

Definition CONNECT_PROTOCOL_BYTES5 : bytes := [0; 4; 77; 81; 84; 84; 5].
Definition CONNECT_PROTOCOL_BYTES311 : bytes := [0; 4; 77; 81; 84; 84; 4].

(* compute_connect_flags 128-151 *)
Definition connect_flags (c : connect) : N :=
  (if con_clean_start c then 2 else 0)
  + match con_will c with
    | Some w => 4 + pub_qos w * 8 + (if pub_retain w then 32 else 0)
    | None => 0
    end
  + (match con_password c with Some _ => 64 | None => 0 end)
  + (match con_username c with Some _ => 128 | None => 0 end).

(* compute_connect_packet_length_properties5 154-213: (total, connect properties, will properties) *)
Definition connect_lengths5 (c : connect) : outcome (N * N * N) :=
  let cpl := up_length (con_up c) in
  let cpl := cpl + opt_fixed_len 5 (con_sei c) in
  let cpl := cpl + opt_fixed_len 3 (con_receive_max c) in
  let cpl := cpl + opt_fixed_len 5 (con_max_packet c) in
  let cpl := cpl + opt_fixed_len 3 (con_tam c) in
  let cpl := cpl + opt_fixed_len 2 (con_rri c) in
  let cpl := cpl + opt_fixed_len 2 (con_rpi c) in
  let cpl := cpl + opt_data_prop_len (con_auth_method c) in
  let cpl := cpl + opt_data_prop_len (con_auth_data c) in
  do vh <- vli_size cpl ;
  let vh := vh + (10 + cpl) in
  let payload := 0 + opt_data_len (con_client_id c) in
  do (payload, wpl) <-
    match con_will c with
    | Some w =>
        let wpl := up_length (pub_up w) in
        let wpl := wpl + opt_fixed_len 5 (con_will_delay c) in
        let wpl := wpl + opt_fixed_len 2 (pub_pfi w) in
        let wpl := wpl + opt_fixed_len 5 (pub_mei w) in
        let wpl := wpl + opt_data_prop_len (pub_content_type w) in
        let wpl := wpl + opt_data_prop_len (pub_response_topic w) in
        let wpl := wpl + opt_data_prop_len (pub_correlation w) in
        do wsz <- vli_size wpl ;
        let payload := payload + wpl in
        let payload := payload + wsz in
        let payload := payload + (2 + len (pub_topic w)) in
        let payload := payload + opt_data_len (pub_payload w) in
        Ok (payload, wpl)
    | None => Ok (payload, 0)
    end ;
  let payload := match con_username c with Some u => payload + (2 + len u) | None => payload end in
  let payload := match con_password c with Some u => payload + (2 + len u) | None => payload end in
  let total := payload + vh in
  if VLI_MAX <? total then Err EEncodingFailure
  else Ok (u32 total, u32 cpl, u32 wpl).

(* write_connect_encoding_steps5 216-261 *)
Definition connect_steps5 (c : connect) : outcome (list step) :=
  do (total, cpl, wpl) <- connect_lengths5 c ;
  Ok ([SU8 16; SVli total; SBytes CONNECT_PROTOCOL_BYTES5; SU8 (connect_flags c); SU16 (con_keep_alive c);
       SVli cpl]
      ++ opt_u32_prop K_SESSION_EXPIRY (con_sei c)
      ++ opt_u16_prop K_RECEIVE_MAXIMUM (con_receive_max c)
      ++ opt_u32_prop K_MAXIMUM_PACKET_SIZE (con_max_packet c)
      ++ opt_u16_prop K_TOPIC_ALIAS_MAXIMUM (con_tam c)
      ++ opt_bool_prop K_REQUEST_RESPONSE_INFO (con_rri c)
      ++ opt_bool_prop K_REQUEST_PROBLEM_INFO (con_rpi c)
      ++ opt_data_prop K_AUTH_METHOD (con_auth_method c)
      ++ opt_data_prop K_AUTH_DATA (con_auth_data c)
      ++ up_steps (con_up c)
      ++ lp_opt_data (con_client_id c)
      ++ match con_will c with
         | Some w =>
             [SVli wpl]
             ++ opt_u32_prop K_WILL_DELAY (con_will_delay c)
             ++ opt_u8_prop K_PAYLOAD_FORMAT (pub_pfi w)
             ++ opt_u32_prop K_MESSAGE_EXPIRY (pub_mei w)
             ++ opt_data_prop K_CONTENT_TYPE (pub_content_type w)
             ++ opt_data_prop K_RESPONSE_TOPIC (pub_response_topic w)
             ++ opt_data_prop K_CORRELATION_DATA (pub_correlation w)
             ++ up_steps (pub_up w)
             ++ lp_data (pub_topic w)
             ++ lp_opt_data (pub_payload w)
         | None => []
         end
      ++ match con_username c with Some _ => lp_opt_data (con_username c) | None => [] end
      ++ match con_password c with Some _ => lp_opt_data (con_password c) | None => [] end).

(* compute_connect_packet_length_properties311 263-296 *)
Definition connect_length311 (c : connect) : outcome N :=
  let vh := 10 in
  let payload := 0 + opt_data_len (con_client_id c) in
  let payload := match con_will c with
                 | Some w => payload + (2 + len (pub_topic w)) + opt_data_len (pub_payload w)
                 | None => payload end in
  let payload := match con_username c with Some u => payload + (2 + len u) | None => payload end in
  let payload := match con_password c with Some u => payload + (2 + len u) | None => payload end in
  let total := payload + vh in
  if VLI_MAX <? total then Err EEncodingFailure else Ok (u32 total).

(* write_connect_encoding_steps311 298-323 *)
Definition connect_steps311 (c : connect) : outcome (list step) :=
  do total <- connect_length311 c ;
  Ok ([SU8 16; SVli total; SBytes CONNECT_PROTOCOL_BYTES311; SU8 (connect_flags c); SU16 (con_keep_alive c)]
      ++ lp_opt_data (con_client_id c)
      ++ match con_will c with
         | Some w => lp_data (pub_topic w) ++ lp_opt_data (pub_payload w)
         | None => []
         end
      ++ match con_username c with Some _ => lp_opt_data (con_username c) | None => [] end
      ++ match con_password c with Some _ => lp_opt_data (con_password c) | None => [] end).

(* ================= SUBSCRIBE (mqtt/subscribe.rs) ================= *)

Fixpoint filters_sum (l : list bytes) : N :=
  match l with [] => 0 | f :: r => len f + filters_sum r end.

(* compute_subscribe_packet_length_properties5 19-34 (after the repair of D3: the subscription identifier is
   sized as identifier byte + variable byte integer) *)
Definition subscribe_lengths5 (s : subscribe) : outcome (N * N) :=
  let pl := up_length (s_up s) in
  do pl <- match s_subid s with
           | Some id => do sz <- vli_size id ; Ok (pl + (1 + sz))
           | None => Ok pl
           end ;
  do sz <- vli_size pl ;
  let total := 2 + sz in
  let total := total + pl in
  let total := total + len (s_subs s) * 3 in
  let total := total + filters_sum (map sub_filter (s_subs s)) in
  Ok (u32 total, u32 pl).

(* compute_subscription_options_byte5 52-66 *)
Definition subscription_options5 (x : subscription) : N :=
  sub_qos x + (if sub_no_local x then 4 else 0) + (if sub_rap x then 8 else 0) + sub_rh x * 16.

(* write_subscribe_encoding_steps5 71-89: the subscription identifier is emitted as a Vli step (D3 repaired;
   it used to be Uint32) *)
Definition subscribe_steps5 (s : subscribe) : outcome (list step) :=
  do (total, pl) <- subscribe_lengths5 s ;
  Ok ([SU8 SUBSCRIBE_FIRST_BYTE; SVli total; SU16 (s_pid s); SVli pl]
      ++ opt_vli_prop K_SUBSCRIPTION_ID (s_subid s)
      ++ up_steps (s_up s)
      ++ flat_map (fun x => lp_data (sub_filter x) ++ [SU8 (subscription_options5 x)]) (s_subs s)).

(* compute_subscribe_packet_length_properties311 89-98 *)
Definition subscribe_length311 (s : subscribe) : N :=
  u32 (2 + len (s_subs s) * 3 + filters_sum (map sub_filter (s_subs s))).

(* write_subscribe_encoding_steps311 100-115 *)
Definition subscribe_steps311 (s : subscribe) : outcome (list step) :=
  Ok ([SU8 SUBSCRIBE_FIRST_BYTE; SVli (subscribe_length311 s); SU16 (s_pid s)]
      ++ flat_map (fun x => lp_data (sub_filter x) ++ [SU8 (sub_qos x)]) (s_subs s)).

(* ================= UNSUBSCRIBE (mqtt/unsubscribe.rs) ================= *)

(* compute_unsubscribe_packet_length_properties5 19-31 *)
Definition unsubscribe_lengths5 (u : unsubscribe) : outcome (N * N) :=
  let pl := up_length (u_up u) in
  do sz <- vli_size pl ;
  let total := 2 + sz in
  let total := total + pl in
  let total := total + len (u_filters u) * 2 in
  let total := total + filters_sum (u_filters u) in
  Ok (u32 total, u32 pl).

(* write_unsubscribe_encoding_steps5 52-68 *)
Definition unsubscribe_steps5 (u : unsubscribe) : outcome (list step) :=
  do (total, pl) <- unsubscribe_lengths5 u ;
  Ok ([SU8 UNSUBSCRIBE_FIRST_BYTE; SVli total; SU16 (u_pid u); SVli pl]
      ++ up_steps (u_up u)
      ++ flat_map lp_data (u_filters u)).

(* compute_unsubscribe_packet_length_properties311 70-79 *)
Definition unsubscribe_length311 (u : unsubscribe) : N :=
  u32 (2 + len (u_filters u) * 2 + filters_sum (u_filters u)).

(* write_unsubscribe_encoding_steps311 81-95 *)
Definition unsubscribe_steps311 (u : unsubscribe) : outcome (list step) :=
  Ok ([SU8 UNSUBSCRIBE_FIRST_BYTE; SVli (unsubscribe_length311 u); SU16 (u_pid u)]
      ++ flat_map lp_data (u_filters u)).

(* ================= DISCONNECT (mqtt/disconnect.rs) ================= *)

(* compute_disconnect_packet_length_properties 18-37; NormalDisconnection = 0 *)
Definition disconnect_lengths (d : disconnect) : outcome (N * N) :=
  let pl := up_length (d_up d) in
  let pl := pl + opt_fixed_len 5 (d_sei d) in
  let pl := pl + opt_data_prop_len (d_reason d) in
  let pl := pl + opt_data_prop_len (d_server_ref d) in
  if pl =? 0 then
    if d_rc d =? 0 then Ok (0, 0) else Ok (1, 0)
  else
    do sz <- vli_size pl ;
    let total := 1 + sz in
    let total := total + pl in
    Ok (u32 total, u32 pl).

(* write_disconnect_encoding_steps5 58-84; the two assert_eq! are Panic 12 / 13 *)
Definition disconnect_steps5 (d : disconnect) : outcome (list step) :=
  do (total, pl) <- disconnect_lengths d ;
  let hd := [SU8 224; SVli total] in
  if (pl =? 0) && (d_rc d =? 0) then
    if total =? 0 then Ok hd else Panic 12
  else
    let hd := hd ++ [SU8 (d_rc d)] in
    if pl =? 0 then
      if total =? 1 then Ok hd else Panic 13
    else
      Ok (hd ++ [SVli pl]
          ++ opt_u32_prop K_SESSION_EXPIRY (d_sei d)
          ++ opt_data_prop K_REASON_STRING (d_reason d)
          ++ opt_data_prop K_SERVER_REFERENCE (d_server_ref d)
          ++ up_steps (d_up d)).

(* write_disconnect_encoding_steps311 86-91 *)
Definition disconnect_steps311 (d : disconnect) : outcome (list step) := Ok [SU8 224; SU8 0].

(* ================= AUTH (mqtt/auth.rs) ================= *)

(* compute_auth_packet_length_properties 20-36; AuthenticateReasonCode::Success = 0 *)
Definition auth_lengths (a : auth) : outcome (N * N) :=
  let pl := up_length (au_up a) in
  let pl := pl + opt_data_prop_len (au_method a) in
  let pl := pl + opt_data_prop_len (au_data a) in
  let pl := pl + opt_data_prop_len (au_reason a) in
  if (pl =? 0) && (au_rc a =? 0) then Ok (0, 0)
  else
    do sz <- vli_size pl ;
    let total := 1 + sz in
    let total := total + pl in
    Ok (u32 total, u32 pl).

(* write_auth_encoding_steps5 61-80 *)
Definition auth_steps5 (a : auth) : outcome (list step) :=
  do (total, pl) <- auth_lengths a ;
  let hd := [SU8 240; SVli total] in
  if total =? 0 then Ok hd
  else
    Ok (hd ++ [SU8 (au_rc a); SVli pl]
        ++ opt_data_prop K_AUTH_METHOD (au_method a)
        ++ opt_data_prop K_AUTH_DATA (au_data a)
        ++ opt_data_prop K_REASON_STRING (au_reason a)
        ++ up_steps (au_up a)).

(* write_auth_encoding_steps311 82-84 *)
Definition auth_steps311 (a : auth) : outcome (list step) := Err EEncodingFailure.

(* ================= PINGREQ (mqtt/pingreq.rs 15-20) ================= *)
Definition pingreq_steps : outcome (list step) := Ok [SU8 192; SU8 0].

(* ================= dispatch: Encoder::reset ================= *)

(* write_encoding_steps5 (encode.rs:37-58) *)
Definition impl_steps5 (p : packet) (r : resolution) : outcome (list step) :=
  match p with
  | Connect c => connect_steps5 c
  | Connack _ => Err EUnimplemented        (* connack.rs:130-133 *)
  | Publish x => publish_steps5 x r
  | Puback a => ack_steps5 PUBACK_FIRST_BYTE a
  | Pubrec a => ack_steps5 PUBREC_FIRST_BYTE a
  | Pubrel a => ack_steps5 PUBREL_FIRST_BYTE a
  | Pubcomp a => ack_steps5 PUBCOMP_FIRST_BYTE a
  | Subscribe s => subscribe_steps5 s
  | Suback _ => Err EUnimplemented         (* suback.rs:69-72 *)
  | Unsubscribe u => unsubscribe_steps5 u
  | Unsuback _ => Err EUnimplemented       (* unsuback.rs:69-72 *)
  | Pingreq => pingreq_steps
  | Pingresp => Err EUnimplemented         (* pingresp.rs:23-26 *)
  | Disconnect d => disconnect_steps5 d
  | Auth a => auth_steps5 a
  end.

(* write_encoding_steps311 (encode.rs:60-81) *)
Definition impl_steps311 (p : packet) (r : resolution) : outcome (list step) :=
  match p with
  | Connect c => connect_steps311 c
  | Connack _ => Err EUnimplemented        (* connack.rs:146-149 *)
  | Publish x => publish_steps311 x
  | Puback a => ack_steps311 PUBACK_FIRST_BYTE a
  | Pubrec a => ack_steps311 PUBREC_FIRST_BYTE a
  | Pubrel a => ack_steps311 PUBREL_FIRST_BYTE a
  | Pubcomp a => ack_steps311 PUBCOMP_FIRST_BYTE a
  | Subscribe s => subscribe_steps311 s
  | Suback _ => Err EUnimplemented         (* suback.rs:100-103 *)
  | Unsubscribe u => unsubscribe_steps311 u
  | Unsuback _ => Err EUnimplemented       (* unsuback.rs:83-86 *)
  | Pingreq => pingreq_steps
  | Pingresp => Err EUnimplemented
  | Disconnect d => disconnect_steps311 d
  | Auth a => auth_steps311 a
  end.

Definition impl_steps (v : version) (p : packet) (r : resolution) : outcome (list step) :=
  match v with V5 => impl_steps5 p r | V311 => impl_steps311 p r end.

Definition impl_encode_all (v : version) (p : packet) (r : resolution) : outcome bytes :=
  do s <- impl_steps v p r ; flatten s.

(* ---- the MQTT5 length pairs (total_remaining_length, property_length) as the
   compute_*_packet_length_properties[5] functions return them; the outbound validation
   (validate_*_packet_outbound_internal) uses these regardless of the protocol version.
   Packet kinds whose length function exists only in test builds, or that have none: Err EUnimplemented. *)
Definition impl_lengths5 (p : packet) (r : resolution) : outcome (N * N) :=
  match p with
  | Connect c => do (total, cpl, _) <- connect_lengths5 c ; Ok (total, cpl)
  | Publish x => publish_lengths5 x r
  | Puback a | Pubrec a | Pubrel a | Pubcomp a => ack_lengths a
  | Subscribe s => subscribe_lengths5 s
  | Unsubscribe u => unsubscribe_lengths5 u
  | Disconnect d => disconnect_lengths d
  | Auth a => auth_lengths a
  | Connack _ | Suback _ | Unsuback _ | Pingreq | Pingresp => Err EUnimplemented
  end.

(* 1 + total_remaining_length + compute_variable_length_integer_encode_size(total_remaining_length)
   (e.g. publish.rs:393-394) *)
Definition impl_total_size5 (p : packet) (r : resolution) : outcome N :=
  do (rem, _) <- impl_lengths5 p r ;
  do sz <- vli_size rem ;
  Ok (1 + rem + sz).
