(* Vocabulary of C03_strings_no_nul (MQTT-1.5.4-2): every UTF-8 string field of a packet is free of
   U+0000 ([no_null]: no zero byte — in well-formed UTF-8 only U+0000 is encoded with a zero byte).
   Binary fields (payload, correlation data, authentication data, password) are not strings. *)
From GM Require Import Base.Prelude Codec.Packets Codec.SpecEncodeS2C.
Open Scope N_scope.

Definition ostr_nn (o : option bytes) : bool := match o with Some s => no_null s | None => true end.
Definition up_nn (u : user_property) : bool := no_null (up_name u) && no_null (up_value u).
Definition ups_nn (o : option (list user_property)) : bool :=
  match o with Some l => forallb up_nn l | None => true end.

Definition publish_nn (q : publish) : bool :=
  no_null (pub_topic q) && ostr_nn (pub_response_topic q) && ostr_nn (pub_content_type q) && ups_nn (pub_up q).
Definition connack_nn (c : connack) : bool :=
  ostr_nn (ca_assigned_id c) && ostr_nn (ca_reason c) && ups_nn (ca_up c) && ostr_nn (ca_response_info c) &&
  ostr_nn (ca_server_ref c) && ostr_nn (ca_auth_method c).
Definition ack_nn (a : ack) : bool := ostr_nn (ack_reason a) && ups_nn (ack_up a).
Definition suback_nn (s : suback) : bool := ostr_nn (sa_reason s) && ups_nn (sa_up s).
Definition unsuback_nn (s : unsuback) : bool := ostr_nn (ua_reason s) && ups_nn (ua_up s).
Definition disconnect_nn (d : disconnect) : bool := ostr_nn (d_reason d) && ups_nn (d_up d) && ostr_nn (d_server_ref d).
Definition auth_nn (a : auth) : bool := ostr_nn (au_method a) && ostr_nn (au_reason a) && ups_nn (au_up a).
Definition connect_nn (c : connect) : bool :=
  ostr_nn (con_client_id c) && ostr_nn (con_username c) && ostr_nn (con_auth_method c) && ups_nn (con_up c) &&
  match con_will c with Some w => publish_nn w | None => true end.

Definition packet_strings_no_nul (p : packet) : bool :=
  match p with
  | Connect c => connect_nn c
  | Connack c => connack_nn c
  | Publish q => publish_nn q
  | Puback a | Pubrec a | Pubrel a | Pubcomp a => ack_nn a
  | Subscribe s => forallb (fun x => no_null (sub_filter x)) (s_subs s) && ups_nn (s_up s)
  | Suback s => suback_nn s
  | Unsubscribe u => forallb no_null (u_filters u) && ups_nn (u_up u)
  | Unsuback s => unsuback_nn s
  | Pingreq | Pingresp => true
  | Disconnect d => disconnect_nn d
  | Auth a => auth_nn a
  end.

