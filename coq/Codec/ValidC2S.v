(* C02: what "the logical content the application supplied" means on the wire, and which packets the
   property quantifies over.  Executable (used by the theorems of Properties/C02.v AND, extracted, by the
   monitor of the correspondence driver ocaml/driver/area_c02.ml).

   [canon v r p]  erases from the user-level packet [p] what protocol version [v] cannot express and what the
                  wire cannot distinguish (empty payload = no payload, empty user-property list = none, ...),
                  and applies the outbound alias resolution [r] to a PUBLISH.
   [valid v r p]  the packets outbound validation is supposed to let through: strings / binary fields at most
                  65535 bytes, strings well-formed UTF-8 without U+0000, integers in their wire ranges, the
                  per-field rules of section 3 of the specifications, remaining length at most 2^28-1. *)
From GM Require Import Base.Prelude Codec.Prim Codec.Packets Codec.SpecDecodeC2S.
Open Scope N_scope.

(* ---------- canonical form ---------- *)
Definition norm_up (o : option (list user_property)) : option (list user_property) :=
  match o with Some [] => None | _ => o end.
Definition norm_data (o : option bytes) : option bytes :=
  match o with Some [] => None | _ => o end.

Definition canon_ack (v : version) (a : ack) : ack :=
  match v with
  | V5 => {| ack_pid := ack_pid a; ack_rc := ack_rc a; ack_reason := ack_reason a; ack_up := norm_up (ack_up a) |}
  | V311 => default_ack (ack_pid a)
  end.

Definition canon_publish (v : version) (r : resolution) (p : publish) : publish :=
  match v with
  | V5 =>
      {| pub_pid := if pub_qos p =? 0 then 0 else pub_pid p;
         pub_topic := if r_skip_topic r then [] else pub_topic p;
         pub_qos := pub_qos p; pub_dup := pub_dup p; pub_retain := pub_retain p;
         pub_payload := norm_data (pub_payload p); pub_pfi := pub_pfi p; pub_mei := pub_mei p;
         pub_alias := r_alias r; pub_response_topic := pub_response_topic p;
         pub_correlation := pub_correlation p; pub_subids := None; pub_content_type := pub_content_type p;
         pub_up := norm_up (pub_up p) |}
  | V311 =>
      {| pub_pid := if pub_qos p =? 0 then 0 else pub_pid p;
         pub_topic := pub_topic p;
         pub_qos := pub_qos p; pub_dup := pub_dup p; pub_retain := pub_retain p;
         pub_payload := norm_data (pub_payload p); pub_pfi := None; pub_mei := None;
         pub_alias := None; pub_response_topic := None;
         pub_correlation := None; pub_subids := None; pub_content_type := None; pub_up := None |}
  end.

(* a will is a PUBLISH of which CONNECT carries topic, payload, QoS, retain and (MQTT5) the will properties *)
Definition canon_will (v : version) (w : publish) : publish :=
  match v with
  | V5 =>
      {| pub_pid := 0; pub_topic := pub_topic w; pub_qos := pub_qos w; pub_dup := false; pub_retain := pub_retain w;
         pub_payload := norm_data (pub_payload w); pub_pfi := pub_pfi w; pub_mei := pub_mei w; pub_alias := None;
         pub_response_topic := pub_response_topic w; pub_correlation := pub_correlation w; pub_subids := None;
         pub_content_type := pub_content_type w; pub_up := norm_up (pub_up w) |}
  | V311 =>
      {| pub_pid := 0; pub_topic := pub_topic w; pub_qos := pub_qos w; pub_dup := false; pub_retain := pub_retain w;
         pub_payload := norm_data (pub_payload w); pub_pfi := None; pub_mei := None; pub_alias := None;
         pub_response_topic := None; pub_correlation := None; pub_subids := None;
         pub_content_type := None; pub_up := None |}
  end.

Definition canon_connect (v : version) (c : connect) : connect :=
  match v with
  | V5 =>
      {| con_keep_alive := con_keep_alive c; con_clean_start := con_clean_start c;
         con_client_id := norm_data (con_client_id c); con_username := con_username c; con_password := con_password c;
         con_sei := con_sei c; con_rri := con_rri c; con_rpi := con_rpi c; con_receive_max := con_receive_max c;
         con_tam := con_tam c; con_max_packet := con_max_packet c; con_auth_method := con_auth_method c;
         con_auth_data := con_auth_data c;
         con_will_delay := (match con_will c with Some _ => con_will_delay c | None => None end);
         con_will := option_map (canon_will V5) (con_will c);
         con_up := norm_up (con_up c) |}
  | V311 =>
      {| con_keep_alive := con_keep_alive c; con_clean_start := con_clean_start c;
         con_client_id := norm_data (con_client_id c); con_username := con_username c; con_password := con_password c;
         con_sei := None; con_rri := None; con_rpi := None; con_receive_max := None;
         con_tam := None; con_max_packet := None; con_auth_method := None; con_auth_data := None;
         con_will_delay := None;
         con_will := option_map (canon_will V311) (con_will c);
         con_up := None |}
  end.

Definition canon_subscription (v : version) (x : subscription) : subscription :=
  match v with
  | V5 => x
  | V311 => {| sub_filter := sub_filter x; sub_qos := sub_qos x; sub_no_local := false; sub_rap := false; sub_rh := 0 |}
  end.

Definition canon_subscribe (v : version) (s : subscribe) : subscribe :=
  match v with
  | V5 => {| s_pid := s_pid s; s_subs := s_subs s; s_subid := s_subid s; s_up := norm_up (s_up s) |}
  | V311 => {| s_pid := s_pid s; s_subs := map (canon_subscription V311) (s_subs s); s_subid := None; s_up := None |}
  end.

Definition canon_unsubscribe (v : version) (u : unsubscribe) : unsubscribe :=
  match v with
  | V5 => {| u_pid := u_pid u; u_filters := u_filters u; u_up := norm_up (u_up u) |}
  | V311 => {| u_pid := u_pid u; u_filters := u_filters u; u_up := None |}
  end.

Definition canon_disconnect (v : version) (d : disconnect) : disconnect :=
  match v with
  | V5 => {| d_rc := d_rc d; d_sei := d_sei d; d_reason := d_reason d; d_up := norm_up (d_up d); d_server_ref := d_server_ref d |}
  | V311 => default_disconnect
  end.

Definition canon_auth (a : auth) : auth :=
  {| au_rc := au_rc a; au_method := au_method a; au_data := au_data a; au_reason := au_reason a; au_up := norm_up (au_up a) |}.

Definition canon (v : version) (r : resolution) (p : packet) : packet :=
  match p with
  | Connect c => Connect (canon_connect v c)
  | Publish x => Publish (canon_publish v r x)
  | Puback a => Puback (canon_ack v a)
  | Pubrec a => Pubrec (canon_ack v a)
  | Pubrel a => Pubrel (canon_ack v a)
  | Pubcomp a => Pubcomp (canon_ack v a)
  | Subscribe s => Subscribe (canon_subscribe v s)
  | Unsubscribe u => Unsubscribe (canon_unsubscribe v u)
  | Disconnect d => Disconnect (canon_disconnect v d)
  | Auth a => Auth (canon_auth a)
  | _ => p
  end.

(* ---------- validity ---------- *)
Definition U16_MAX : N := 65535.
Definition U32_MAX : N := 4294967295.

Definition str_valid (s : bytes) : bool := (len s <=? U16_MAX) && str_ok s.
Definition bin_valid (d : bytes) : bool := len d <=? U16_MAX.
Definition opt_ok {A} (f : A -> bool) (o : option A) : bool := match o with Some x => f x | None => true end.
Definition is_some {A} (o : option A) : bool := match o with Some _ => true | None => false end.
Definition up_valid (p : user_property) : bool := str_valid (up_name p) && str_valid (up_value p).
Definition ups_valid (o : option (list user_property)) : bool := opt_ok (forallb up_valid) o.
Definition pid_ok (pid : N) : bool := (1 <=? pid) && (pid <=? U16_MAX).

(* sizes on the wire, from the layouts of the specification: a property = identifier byte + value *)
Definition fsz {A} (n : N) (o : option A) : N := match o with Some _ => n | None => 0 end.
Definition dsz (o : option bytes) : N := match o with Some s => 3 + len s | None => 0 end.
Fixpoint upsz (l : list user_property) : N :=
  match l with [] => 0 | p :: r => 5 + len (up_name p) + len (up_value p) + upsz r end.
Definition oupsz (o : option (list user_property)) : N := match o with Some l => upsz l | None => 0 end.
Definition vbisz (n : N) : N := if n <? 128 then 1 else if n <? 16384 then 2 else if n <? 2097152 then 3 else 4.
Definition osz (o : option bytes) : N := match o with Some s => len s | None => 0 end.
Fixpoint strsz (l : list bytes) : N := match l with [] => 0 | s :: r => 2 + len s + strsz r end.

(* --- acks --- *)
Definition ack_props_size (a : ack) : N := dsz (ack_reason a) + oupsz (ack_up a).
Definition valid_ack (v : version) (codes : list N) (a : ack) : bool :=
  pid_ok (ack_pid a) &&
  match v with
  | V311 => true
  | V5 => mem (ack_rc a) codes && opt_ok str_valid (ack_reason a) && ups_valid (ack_up a)
          && (3 + vbisz (ack_props_size a) + ack_props_size a <=? VLI_MAX)
  end.

(* --- publish --- *)
Definition publish_props_size (r : resolution) (p : publish) : N :=
  fsz 2 (pub_pfi p) + fsz 5 (pub_mei p) + fsz 3 (r_alias r) + dsz (pub_response_topic p)
  + dsz (pub_correlation p) + dsz (pub_content_type p) + oupsz (pub_up p).
Definition valid_publish (v : version) (r : resolution) (p : publish) : bool :=
  (pub_qos p <=? 2)
  && ((pub_qos p =? 0) && negb (pub_dup p) || negb (pub_qos p =? 0) && pid_ok (pub_pid p))
  && match v with
     | V5 =>
         let topic := if r_skip_topic r then [] else pub_topic p in
         str_valid topic
         && (negb (len topic =? 0) || is_some (r_alias r))
         && opt_ok (fun a => (1 <=? a) && (a <=? U16_MAX)) (r_alias r)
         && opt_ok (fun x => x <=? 1) (pub_pfi p)
         && opt_ok (fun x => x <=? U32_MAX) (pub_mei p)
         && opt_ok str_valid (pub_response_topic p)
         && opt_ok bin_valid (pub_correlation p)
         && opt_ok str_valid (pub_content_type p)
         && ups_valid (pub_up p)
         && (match pub_subids p with None | Some [] => true | _ => false end)     (* [MQTT-3.3.4-6] *)
         && (2 + len topic + (if pub_qos p =? 0 then 0 else 2) + vbisz (publish_props_size r p)
             + publish_props_size r p + osz (pub_payload p) <=? VLI_MAX)
     | V311 =>
         str_valid (pub_topic p) && negb (len (pub_topic p) =? 0)
         && (2 + len (pub_topic p) + (if pub_qos p =? 0 then 0 else 2) + osz (pub_payload p) <=? VLI_MAX)
     end.

(* --- connect --- *)
Definition will_props_size (c : connect) (w : publish) : N :=
  fsz 5 (con_will_delay c) + fsz 2 (pub_pfi w) + fsz 5 (pub_mei w) + dsz (pub_content_type w)
  + dsz (pub_response_topic w) + dsz (pub_correlation w) + oupsz (pub_up w).
Definition connect_props_size (c : connect) : N :=
  fsz 5 (con_sei c) + fsz 3 (con_receive_max c) + fsz 5 (con_max_packet c) + fsz 3 (con_tam c)
  + fsz 2 (con_rri c) + fsz 2 (con_rpi c) + dsz (con_auth_method c) + dsz (con_auth_data c) + oupsz (con_up c).
Definition lpsz (o : option bytes) : N := match o with Some s => 2 + len s | None => 0 end.

Definition valid_will (v : version) (c : connect) (w : publish) : bool :=
  (pub_qos w <=? 2) && str_valid (pub_topic w) && opt_ok bin_valid (pub_payload w)
  && match v with
     | V5 =>
         opt_ok (fun x => x <=? U32_MAX) (con_will_delay c)
         && opt_ok (fun x => x <=? 1) (pub_pfi w)
         && opt_ok (fun x => x <=? U32_MAX) (pub_mei w)
         && opt_ok str_valid (pub_content_type w)
         && opt_ok str_valid (pub_response_topic w)
         && opt_ok bin_valid (pub_correlation w)
         && ups_valid (pub_up w)
     | V311 => true
     end.

Definition valid_connect (v : version) (c : connect) : bool :=
  (con_keep_alive c <=? U16_MAX)
  && opt_ok str_valid (con_client_id c)
  && opt_ok str_valid (con_username c)
  && opt_ok bin_valid (con_password c)
  && opt_ok (valid_will v c) (con_will c)
  && match v with
     | V5 =>
         opt_ok (fun x => x <=? U32_MAX) (con_sei c)
         && opt_ok (fun x => (1 <=? x) && (x <=? U16_MAX)) (con_receive_max c)
         && opt_ok (fun x => (1 <=? x) && (x <=? U32_MAX)) (con_max_packet c)
         && opt_ok (fun x => x <=? U16_MAX) (con_tam c)
         && opt_ok str_valid (con_auth_method c)
         && opt_ok bin_valid (con_auth_data c)
         && (is_some (con_auth_method c) || negb (is_some (con_auth_data c)))
         && ups_valid (con_up c)
         && (10 + vbisz (connect_props_size c) + connect_props_size c
             + 2 + osz (con_client_id c)
             + (match con_will c with
                | Some w => vbisz (will_props_size c w) + will_props_size c w + 2 + len (pub_topic w) + 2 + osz (pub_payload w)
                | None => 0 end)
             + lpsz (con_username c) + lpsz (con_password c) <=? VLI_MAX)
     | V311 =>
         (is_some (con_username c) || negb (is_some (con_password c)))                       (* [MQTT-3.1.2-22] *)
         && (negb (osz (con_client_id c) =? 0) || con_clean_start c)                         (* [MQTT-3.1.3-7] *)
         && (10 + 2 + osz (con_client_id c)
             + (match con_will c with Some w => 2 + len (pub_topic w) + 2 + osz (pub_payload w) | None => 0 end)
             + lpsz (con_username c) + lpsz (con_password c) <=? VLI_MAX)
     end.

(* --- subscribe / unsubscribe --- *)
Definition filter_valid (f : bytes) : bool := str_valid f && negb (len f =? 0).
Definition subscription_valid (v : version) (x : subscription) : bool :=
  filter_valid (sub_filter x) && (sub_qos x <=? 2)
  && match v with V5 => sub_rh x <=? 2 | V311 => true end.
(* the Subscription Identifier is a Variable Byte Integer (3.8.2.1.2) *)
Definition subscribe_props_size (s : subscribe) : N :=
  (match s_subid s with Some x => 1 + vbisz x | None => 0 end) + oupsz (s_up s).
Definition valid_subscribe (v : version) (s : subscribe) : bool :=
  pid_ok (s_pid s)
  && negb (len (s_subs s) =? 0)
  && forallb (subscription_valid v) (s_subs s)
  && match v with
     | V5 =>
         opt_ok (fun x => (1 <=? x) && (x <=? VLI_MAX)) (s_subid s)
         && ups_valid (s_up s)
         && (2 + vbisz (subscribe_props_size s) + subscribe_props_size s
             + strsz (map sub_filter (s_subs s)) + len (s_subs s) <=? VLI_MAX)
     | V311 => 2 + strsz (map sub_filter (s_subs s)) + len (s_subs s) <=? VLI_MAX
     end.

Definition valid_unsubscribe (v : version) (u : unsubscribe) : bool :=
  pid_ok (u_pid u)
  && negb (len (u_filters u) =? 0)
  && forallb filter_valid (u_filters u)
  && match v with
     | V5 => ups_valid (u_up u) && (2 + vbisz (oupsz (u_up u)) + oupsz (u_up u) + strsz (u_filters u) <=? VLI_MAX)
     | V311 => 2 + strsz (u_filters u) <=? VLI_MAX
     end.

(* --- disconnect / auth --- *)
Definition disconnect_props_size (d : disconnect) : N :=
  fsz 5 (d_sei d) + dsz (d_reason d) + dsz (d_server_ref d) + oupsz (d_up d).
Definition valid_disconnect (v : version) (d : disconnect) : bool :=
  match v with
  | V311 => true
  | V5 =>
      mem (d_rc d) rc_disconnect
      && opt_ok (fun x => x <=? U32_MAX) (d_sei d)
      && opt_ok str_valid (d_reason d)
      && opt_ok str_valid (d_server_ref d)
      && ups_valid (d_up d)
      && (1 + vbisz (disconnect_props_size d) + disconnect_props_size d <=? VLI_MAX)
  end.

Definition auth_props_size (a : auth) : N :=
  dsz (au_method a) + dsz (au_data a) + dsz (au_reason a) + oupsz (au_up a).
Definition valid_auth (v : version) (a : auth) : bool :=
  match v with
  | V311 => false          (* MQTT 3.1.1 has no AUTH packet; the encoder refuses *)
  | V5 =>
      mem (au_rc a) rc_auth
      && opt_ok str_valid (au_method a)
      && opt_ok bin_valid (au_data a)
      && opt_ok str_valid (au_reason a)
      && ups_valid (au_up a)
      && (1 + vbisz (auth_props_size a) + auth_props_size a <=? VLI_MAX)
  end.

Definition valid (v : version) (r : resolution) (p : packet) : bool :=
  match p with
  | Connect c => valid_connect v c
  | Publish x => valid_publish v r x
  | Puback a | Pubrec a => valid_ack v rc_puback a
  | Pubrel a | Pubcomp a => valid_ack v rc_pubrel a
  | Subscribe s => valid_subscribe v s
  | Unsubscribe u => valid_unsubscribe v u
  | Pingreq => true
  | Disconnect d => valid_disconnect v d
  | Auth a => valid_auth v a
  | Connack _ | Suback _ | Unsuback _ | Pingresp => false      (* server -> client packets *)
  end.
