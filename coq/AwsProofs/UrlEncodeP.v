(* Proofs about percent-encoding, the reference decoder and the query-string parser. *)
From GM Require Import Base.Prelude Aws.UrlEncode.
Open Scope N_scope.

Ltac unf := unfold base64_char, safe_char, qchar, unreserved, sub_delim, mem_n, is_hex, is_digit, is_upper, is_lower,
            between, byte_ok, PCT, AMP, EQS, QM in *; cbn [existsb] in *.

(* ---- exhaustive reasoning over the 256 byte values ---- *)

Lemma in_range (k : nat) (b : N) : b < N.of_nat k -> In b (map N.of_nat (seq 0 k)).
Proof.
  intros H. apply in_map_iff. exists (N.to_nat b). split; [lia|]. apply in_seq. lia.
Qed.

Lemma byte_cases (P : N -> bool) :
  forallb P (map N.of_nat (seq 0 256)) = true -> forall b, b < 256 -> P b = true.
Proof.
  intros H b Hb. rewrite forallb_forall in H. apply H. apply (in_range 256). exact Hb.
Qed.

Definition opt_n_eqb (a b : option N) : bool :=
  match a, b with Some x, Some y => x =? y | None, None => true | _, _ => false end.

(* what one encoded byte looks like *)
Definition enc_byte_shape (b : N) : bool :=
  if unreserved b then negb (b =? PCT)
  else match enc_byte b with
       | [p; h; l] => (p =? PCT) && opt_n_eqb (hex_val h) (Some (b / 16)) && opt_n_eqb (hex_val l) (Some (b mod 16))
                      && unreserved h && unreserved l
       | _ => false
       end.

Lemma enc_byte_shape_all : forall b, b < 256 -> enc_byte_shape b = true.
Proof. apply byte_cases. vm_compute. reflexivity. Qed.

Lemma enc_byte_cases b : b < 256 ->
  (unreserved b = true /\ enc_byte b = [b] /\ (b =? PCT) = false) \/
  (unreserved b = false /\ exists h l, enc_byte b = [PCT; h; l] /\ hex_val h = Some (b / 16) /\ hex_val l = Some (b mod 16)
                                       /\ unreserved h = true /\ unreserved l = true).
Proof.
  intros Hb. pose proof (enc_byte_shape_all b Hb) as H. unfold enc_byte_shape in H. unfold enc_byte in *.
  destruct (unreserved b) eqn:U.
  - left. repeat split; auto. destruct (b =? PCT); [discriminate|reflexivity].
  - right. split; [reflexivity|]. exists (hex_digit (b / 16)), (hex_digit (b mod 16)).
    apply andb_prop in H. destruct H as [H Ul]. apply andb_prop in H. destruct H as [H Uh].
    apply andb_prop in H. destruct H as [H Hl]. apply andb_prop in H. destruct H as [_ Hh].
    repeat split; auto.
    + destruct (hex_val (hex_digit (b / 16))); cbn in Hh; [|discriminate]. f_equal. lia.
    + destruct (hex_val (hex_digit (b mod 16))); cbn in Hl; [|discriminate]. f_equal. lia.
Qed.

Lemma enc_cons a s : enc (a :: s) = enc_byte a ++ enc s.
Proof. reflexivity. Qed.

Lemma bytes_ok_cons a s : bytes_ok (a :: s) = true -> a < 256 /\ bytes_ok s = true.
Proof. unfold bytes_ok. cbn [forallb]. intros H. apply andb_prop in H. destruct H as [H1 H2]. unfold byte_ok in H1. split; [lia|exact H2]. Qed.

(* ---- decode inverts encode ---- *)

Lemma pct_decode_enc_byte b r : b < 256 -> pct_decode (enc_byte b ++ r) = b :: pct_decode r.
Proof.
  intros Hb. destruct (enc_byte_cases b Hb) as [[_ [E N]] | [_ [h [l [E [Hh [Hl _]]]]]]]; rewrite E.
  - cbn [app pct_decode]. rewrite N. reflexivity.
  - cbn [app pct_decode]. replace (PCT =? PCT) with true by reflexivity. rewrite Hh, Hl. f_equal. lia.
Qed.

Theorem pct_decode_enc s : bytes_ok s = true -> pct_decode (enc s) = s.
Proof.
  induction s as [|a s IH]; intros H; [reflexivity|].
  apply bytes_ok_cons in H. destruct H as [Ha Hs]. rewrite enc_cons, pct_decode_enc_byte by exact Ha.
  rewrite IH by exact Hs. reflexivity.
Qed.

Lemma pct_decode_no_pct s : contains PCT s = false -> pct_decode s = s.
Proof.
  induction s as [|a s IH]; intros H; [reflexivity|].
  unfold contains in *. cbn [existsb] in H. apply orb_false_elim in H. destruct H as [H1 H2].
  cbn [pct_decode]. rewrite N.eqb_sym, H1. rewrite IH by exact H2. reflexivity.
Qed.

(* ---- encode is the identity exactly on strings without reserved bytes ---- *)

Lemma enc_unreserved_id s : forallb unreserved s = true -> enc s = s.
Proof.
  induction s as [|a s IH]; intros H; [reflexivity|]. cbn [forallb] in H. apply andb_prop in H. destruct H as [Ha Hs].
  rewrite enc_cons. unfold enc_byte. rewrite Ha. cbn [app]. rewrite IH by exact Hs. reflexivity.
Qed.

Lemma contains_app b x y : contains b (x ++ y) = contains b x || contains b y.
Proof. unfold contains. apply existsb_app. Qed.

Lemma enc_no_pct_unreserved s : contains PCT (enc s) = false -> forallb unreserved s = true.
Proof.
  induction s as [|a s IH]; intros H; [reflexivity|].
  rewrite enc_cons, contains_app in H. apply orb_false_elim in H. destruct H as [H1 H2].
  cbn [forallb]. rewrite IH by exact H2. unfold enc_byte in H1. destruct (unreserved a); [reflexivity|].
  unfold contains in H1. cbn [existsb] in H1. replace (PCT =? PCT) with true in H1 by reflexivity. discriminate.
Qed.

Lemma enc_no_pct_id s : contains PCT (enc s) = false -> enc s = s.
Proof. intros H. apply enc_unreserved_id, enc_no_pct_unreserved, H. Qed.

(* re-encoding an encoded string that shows no escape changes nothing: enc is idempotent there *)
Lemma enc_enc_no_pct s : contains PCT (enc s) = false -> enc (enc s) = enc s.
Proof. intros H. pose proof (enc_no_pct_id s H) as E. rewrite E. exact E. Qed.

(* ---- alphabets ---- *)

Lemma base64_char_props b : base64_char b = true -> b < 256 /\ (b =? PCT) = false.
Proof. unf. lia. Qed.

Lemma base64_bytes_ok s : base64 s = true -> bytes_ok s = true.
Proof.
  unfold base64, bytes_ok. intros H. rewrite forallb_forall in *. intros x Hx. apply H in Hx.
  apply base64_char_props in Hx. unfold byte_ok. lia.
Qed.

Lemma base64_no_pct s : base64 s = true -> contains PCT s = false.
Proof.
  induction s as [|a s IH]; intros H; [reflexivity|]. unfold base64 in H. cbn [forallb] in H. apply andb_prop in H.
  destruct H as [Ha Hs]. unfold contains. cbn [existsb]. apply base64_char_props in Ha. destruct Ha as [_ Ha].
  rewrite N.eqb_sym, Ha. apply IH, Hs.
Qed.

Lemma safe_char_props b : safe_char b = true ->
  qchar b = true /\ (b =? PCT) = false /\ (b =? AMP) = false /\ (b =? EQS) = false /\ b < 256.
Proof. unf. lia. Qed.

Lemma unreserved_props b : unreserved b = true ->
  qchar b = true /\ (b =? PCT) = false /\ (b =? AMP) = false /\ (b =? EQS) = false.
Proof. unf. lia. Qed.

Lemma query_safe_contains v : query_safe v = true ->
  contains PCT v = false /\ contains AMP v = false /\ contains EQS v = false.
Proof.
  induction v as [|a v IH]; intros H; [repeat split; reflexivity|].
  unfold query_safe in H. cbn [forallb] in H. apply andb_prop in H. destruct H as [Ha Hv].
  destruct (IH Hv) as [I1 [I2 I3]]. apply safe_char_props in Ha. destruct Ha as [_ [A1 [A2 [A3 _]]]].
  unfold contains in *. cbn [existsb]. rewrite I1, I2, I3.
  rewrite (N.eqb_sym PCT a), (N.eqb_sym AMP a), (N.eqb_sym EQS a), A1, A2, A3. repeat split; reflexivity.
Qed.

(* the encoder's output alphabet: unreserved bytes and % only, so never & or = *)
Lemma enc_contains b s : bytes_ok s = true -> (b =? AMP) || (b =? EQS) = true -> contains b (enc s) = false.
Proof.
  intros Hs Hb. induction s as [|a s IH]; [reflexivity|].
  apply bytes_ok_cons in Hs. destruct Hs as [Ha Hs]. rewrite enc_cons, contains_app, (IH Hs), orb_false_r.
  destruct (enc_byte_cases a Ha) as [[U [E _]] | [_ [h [l [E [_ [_ [Uh Ul]]]]]]]]; rewrite E; unfold contains; cbn [existsb].
  - apply unreserved_props in U. destruct U as [_ [_ [U1 U2]]].
    destruct (N.eqb_spec b AMP); [subst; rewrite N.eqb_sym, U1; reflexivity|].
    destruct (N.eqb_spec b EQS); [subst; rewrite N.eqb_sym, U2; reflexivity|]. discriminate.
  - apply unreserved_props in Uh. apply unreserved_props in Ul.
    destruct Uh as [_ [_ [H1 H2]]]. destruct Ul as [_ [_ [L1 L2]]].
    destruct (N.eqb_spec b AMP); [subst; rewrite (N.eqb_sym AMP h), (N.eqb_sym AMP l), H1, L1; reflexivity|].
    destruct (N.eqb_spec b EQS); [subst; rewrite (N.eqb_sym EQS h), (N.eqb_sym EQS l), H2, L2; reflexivity|]. discriminate.
Qed.

(* ---- splitting ---- *)

Lemma split_on_nonempty sep s : split_on sep s <> [].
Proof.
  induction s as [|c s IH]; cbn [split_on]; [discriminate|].
  destruct (c =? sep); [discriminate|]. destruct (split_on sep s); [contradiction|discriminate].
Qed.

Lemma split_on_none sep x : contains sep x = false -> split_on sep x = [x].
Proof.
  induction x as [|c x IH]; intros H; [reflexivity|].
  unfold contains in H. cbn [existsb] in H. apply orb_false_elim in H. destruct H as [H1 H2].
  cbn [split_on]. rewrite N.eqb_sym, H1. rewrite (IH H2). reflexivity.
Qed.

Lemma split_on_app sep x r : contains sep x = false -> split_on sep (x ++ sep :: r) = x :: split_on sep r.
Proof.
  induction x as [|c x IH]; intros H.
  - cbn [app split_on]. rewrite N.eqb_refl. reflexivity.
  - unfold contains in H. cbn [existsb] in H. apply orb_false_elim in H. destruct H as [H1 H2].
    cbn [app split_on]. rewrite N.eqb_sym, H1. rewrite (IH H2). reflexivity.
Qed.

Lemma split_first_app sep k v : contains sep k = false -> split_first sep (k ++ sep :: v) = (k, Some v).
Proof.
  induction k as [|c k IH]; intros H.
  - cbn [app split_first]. rewrite N.eqb_refl. reflexivity.
  - unfold contains in H. cbn [existsb] in H. apply orb_false_elim in H. destruct H as [H1 H2].
    cbn [app split_first]. rewrite N.eqb_sym, H1. rewrite (IH H2). reflexivity.
Qed.

Lemma split_first_none sep k : contains sep k = false -> split_first sep k = (k, None).
Proof.
  induction k as [|c k IH]; intros H; [reflexivity|].
  unfold contains in H. cbn [existsb] in H. apply orb_false_elim in H. destruct H as [H1 H2].
  cbn [split_first]. rewrite N.eqb_sym, H1. rewrite (IH H2). reflexivity.
Qed.

(* ---- well-formedness of concatenations ---- *)

Lemma query_wf_plain_app a b : forallb (fun c => qchar c && negb (c =? PCT)) a = true -> query_wf (a ++ b) = query_wf b.
Proof.
  induction a as [|c a IH]; intros H; [reflexivity|]. cbn [forallb] in H. apply andb_prop in H. destruct H as [Hc Ha].
  apply andb_prop in Hc. destruct Hc as [Q P]. cbn [app query_wf]. destruct (c =? PCT); [discriminate|].
  rewrite Q, (IH Ha). reflexivity.
Qed.

Lemma query_wf_enc_app s b : bytes_ok s = true -> query_wf (enc s ++ b) = query_wf b.
Proof.
  induction s as [|a s IH]; intros H; [reflexivity|]. apply bytes_ok_cons in H. destruct H as [Ha Hs].
  rewrite enc_cons, <- app_assoc.
  destruct (enc_byte_cases a Ha) as [[U [E N]] | [_ [h [l [E [Hh [Hl _]]]]]]]; rewrite E.
  - cbn [app query_wf]. rewrite N. apply unreserved_props in U. destruct U as [Q _]. rewrite Q. apply IH, Hs.
  - cbn [app query_wf]. replace (PCT =? PCT) with true by reflexivity. unfold is_hex. rewrite Hh, Hl. apply IH, Hs.
Qed.

Lemma safe_plain v : query_safe v = true -> forallb (fun c => qchar c && negb (c =? PCT)) v = true.
Proof.
  unfold query_safe. intros H. rewrite forallb_forall in *. intros x Hx. apply H in Hx. apply safe_char_props in Hx.
  destruct Hx as [Q [P _]]. rewrite Q, P. reflexivity.
Qed.

(* general form: a well-formed piece can be followed by anything *)
Lemma query_wf_app_len n : forall a b, (length a <= n)%nat -> query_wf a = true -> query_wf (a ++ b) = query_wf b.
Proof.
  induction n as [|n IH]; intros a b L H.
  - destruct a; [reflexivity|cbn [length] in L; lia].
  - destruct a as [|c rest]; [reflexivity|]. cbn [length] in L. cbn [query_wf] in H. cbn [app query_wf].
    destruct (c =? PCT).
    + destruct rest as [|h [|l rest']]; try discriminate. cbn [app].
      apply andb_prop in H. destruct H as [H W]. rewrite H. cbn [andb]. apply IH; [cbn [length] in L; lia|exact W].
    + apply andb_prop in H. destruct H as [Q W]. rewrite Q. cbn [andb]. apply IH; [lia|exact W].
Qed.

Lemma query_wf_app a b : query_wf a = true -> query_wf (a ++ b) = query_wf b.
Proof. apply (query_wf_app_len (length a)). lia. Qed.
