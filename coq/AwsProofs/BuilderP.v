(* Proofs about the AWS builder model (Aws/Builder.v). *)
From GM Require Import Base.Prelude Codec.Packets Aws.UrlEncode Aws.Builder AwsProofs.UrlEncodeP.
Open Scope N_scope.

(* ================= signature: percent-encoded exactly once ================= *)

Lemma final_sig_raw s : contains PCT s = false -> final_sig s = enc s.
Proof. intros H. unfold final_sig. rewrite H. reflexivity. Qed.

(* an already encoded signature is never encoded again — for ANY byte string, also when its
   encoding shows no escape at all (then encoding again is the identity) *)
Lemma final_sig_enc s : final_sig (enc s) = enc s.
Proof.
  unfold final_sig. destruct (contains PCT (enc s)) eqn:E; [reflexivity|]. apply enc_enc_no_pct, E.
Qed.

Theorem signature_once s : base64 s = true ->
  final_sig s = enc s /\ final_sig (enc s) = enc s /\
  pct_decode (final_sig s) = s /\ pct_decode (final_sig (enc s)) = s.
Proof.
  intros B. pose proof (base64_no_pct s B) as NP. pose proof (base64_bytes_ok s B) as OK.
  rewrite final_sig_enc, (final_sig_raw s NP). repeat split; apply pct_decode_enc, OK.
Qed.

(* whatever the caller passes — raw, encoded in any letter case, or a mixture — the final signature
   decodes to what the input decodes to: nothing is ever encoded twice, nothing is left unencoded
   that the input did not already present as text to be taken literally *)
Theorem signature_decodes e : bytes_ok e = true -> pct_decode (final_sig e) = pct_decode e.
Proof.
  intros OK. unfold final_sig. destruct (contains PCT e) eqn:C; [reflexivity|].
  rewrite pct_decode_enc by exact OK. symmetry. apply pct_decode_no_pct, C.
Qed.

Theorem signature_wf e : bytes_ok e = true -> contains PCT e = false \/ query_wf e = true ->
  query_wf (final_sig e) = true.
Proof.
  intros OK H. unfold final_sig. destruct (contains PCT e) eqn:C.
  - destruct H as [H|H]; [discriminate|exact H].
  - rewrite <- (app_nil_r (enc e)). rewrite query_wf_enc_app by exact OK. reflexivity.
Qed.

(* ================= query string ================= *)

Definition kv_param (kv : bytes * bytes) : bytes := param (fst kv) (snd kv).

Definition kv_list (a : auth_input) : list (bytes * bytes) :=
  (match a_name a with Some n => [(NAME_PARAM, n)] | None => [] end) ++
  (match a_signed a with
   | Some (sg, k, v) => [(SIG_PARAM, final_sig sg); (k, v)]
   | None => []
   end).

Lemma build_query_params_kv a : build_query_params a = map kv_param (kv_list a).
Proof.
  unfold build_query_params, kv_list. destruct (a_name a); destruct (a_signed a) as [[[sg k] v]|]; reflexivity.
Qed.

Lemma join_cons2 sep x y r : join sep (x :: y :: r) = x ++ sep ++ join sep (y :: r).
Proof. reflexivity. Qed.

(* splitting a joined list of &-free parameters gives the parameters back *)
Lemma split_on_join ps : ps <> [] -> Forall (fun p => contains AMP p = false) ps ->
  split_on AMP (join [AMP] ps) = ps.
Proof.
  induction ps as [|x [|y r] IH]; intros NE F; [contradiction| |].
  - cbn [join]. inversion F; subst. apply split_on_none; assumption.
  - rewrite join_cons2. inversion F; subst. cbn [app]. rewrite split_on_app by assumption.
    f_equal. apply IH; [discriminate|assumption].
Qed.

Lemma join_nonempty ps : ps <> [] -> Forall (fun p => p <> []) ps -> join [AMP] ps <> [].
Proof.
  destruct ps as [|x [|y r]]; intros NE F; [contradiction| |].
  - cbn [join]. inversion F; assumption.
  - rewrite join_cons2. inversion F; subst. destruct x; [contradiction|discriminate].
Qed.

Definition kv_ok (kv : bytes * bytes) : Prop :=
  contains AMP (fst kv) = false /\ contains EQS (fst kv) = false /\ contains AMP (snd kv) = false.

Lemma kv_param_no_amp kv : kv_ok kv -> contains AMP (kv_param kv) = false.
Proof.
  intros [H1 [_ H3]]. unfold kv_param, param. rewrite !contains_app, H1, H3. reflexivity.
Qed.

Lemma kv_param_nonempty kv : kv_param kv <> [].
Proof. unfold kv_param, param. destruct (fst kv); discriminate. Qed.

Lemma split_kv_param kv : kv_ok kv ->
  (match split_first EQS (kv_param kv) with (k, Some v) => (k, v) | (k, None) => (k, []) end) = kv.
Proof.
  intros [_ [H2 _]]. unfold kv_param, param. cbn [app]. rewrite split_first_app by exact H2. destruct kv; reflexivity.
Qed.

Lemma split_query_join kvs : Forall kv_ok kvs ->
  split_query (join [AMP] (map kv_param kvs)) = kvs.
Proof.
  intros F. destruct kvs as [|kv0 kvs0]; [reflexivity|]. set (kvs := kv0 :: kvs0) in *.
  assert (NE : map kv_param kvs <> []) by (unfold kvs; discriminate).
  assert (FA : Forall (fun p => contains AMP p = false) (map kv_param kvs)).
  { apply Forall_map. eapply Forall_impl; [|exact F]. intros kv H. apply kv_param_no_amp, H. }
  assert (FN : Forall (fun p => p <> []) (map kv_param kvs)).
  { apply Forall_map. apply Forall_forall. intros kv _. apply kv_param_nonempty. }
  pose proof (join_nonempty _ NE FN) as JN. unfold split_query.
  destruct (join [AMP] (map kv_param kvs)) eqn:J; [contradiction|]. rewrite <- J.
  rewrite split_on_join by assumption. rewrite map_map.
  clear -F. induction F as [|kv l H _ IH]; [reflexivity|]. cbn [map]. rewrite split_kv_param by exact H. f_equal. exact IH.
Qed.

(* pieces after which well-formedness of the rest decides well-formedness of the whole *)
Definition closed (x : bytes) : Prop := forall r, query_wf (x ++ r) = query_wf r.

Lemma closed_app x y : closed x -> closed y -> closed (x ++ y).
Proof. intros Hx Hy r. rewrite <- app_assoc, Hx, Hy. reflexivity. Qed.

Lemma closed_nil : closed [].
Proof. intros r. reflexivity. Qed.

Lemma closed_plain x : forallb (fun c => qchar c && negb (c =? PCT)) x = true -> closed x.
Proof. intros H r. apply query_wf_plain_app, H. Qed.

Lemma closed_safe x : query_safe x = true -> closed x.
Proof. intros H. apply closed_plain, safe_plain, H. Qed.

Lemma closed_enc s : bytes_ok s = true -> closed (enc s).
Proof. intros H r. apply query_wf_enc_app, H. Qed.

Lemma closed_join kvs : Forall (fun kv => closed (fst kv) /\ closed (snd kv)) kvs ->
  closed (join [AMP] (map kv_param kvs)).
Proof.
  assert (P : forall kv, closed (fst kv) /\ closed (snd kv) -> closed (kv_param kv)).
  { intros kv [H1 H2]. unfold kv_param, param. apply closed_app; [exact H1|]. apply closed_app; [|exact H2].
    apply closed_plain. vm_compute. reflexivity. }
  induction kvs as [|x [|y r] IH]; intros F.
  - apply closed_nil.
  - cbn [map join]. inversion F; subst. apply P; assumption.
  - cbn [map]. rewrite join_cons2. inversion F; subst. apply closed_app; [apply P; assumption|].
    apply closed_app; [apply closed_plain; vm_compute; reflexivity|]. apply IH. assumption.
Qed.

Lemma closed_wf x : closed x -> query_wf x = true.
Proof. intros H. rewrite <- (app_nil_r x), H. reflexivity. Qed.

(* facts about the two fixed parameter names *)
Lemma NAME_PARAM_facts :
  contains AMP NAME_PARAM = false /\ contains EQS NAME_PARAM = false /\ contains PCT NAME_PARAM = false /\ query_safe NAME_PARAM = true.
Proof. vm_compute. repeat split; reflexivity. Qed.

Lemma SIG_PARAM_facts :
  contains AMP SIG_PARAM = false /\ contains EQS SIG_PARAM = false /\ contains PCT SIG_PARAM = false /\ query_safe SIG_PARAM = true.
Proof. vm_compute. repeat split; reflexivity. Qed.

Lemma final_sig_of a s sg k v : sig_is a s -> a_signed a = Some (sg, k, v) ->
  base64 s = true /\ final_sig sg = enc s.
Proof.
  intros H E. destruct (H sg k v E) as [B [-> | ->]]; split; auto.
  - apply final_sig_raw, base64_no_pct, B.
  - apply final_sig_enc.
Qed.

Lemma kv_list_raw a s : sig_is a s -> kv_list a = raw_pairs a (enc s).
Proof.
  intros H. unfold kv_list, raw_pairs. destruct (a_signed a) as [[[sg k] v]|] eqn:E; [|reflexivity].
  destruct (final_sig_of a s sg k v H E) as [_ ->]. reflexivity.
Qed.

Lemma strip_prefix_app p r : strip_prefix p (p ++ r) = Some r.
Proof. induction p as [|x p IH]; [reflexivity|]. cbn [app strip_prefix]. rewrite N.eqb_refl. exact IH. Qed.

Lemma bytes_eqb_refl a : bytes_eqb a a = true.
Proof.
  unfold bytes_eqb. rewrite Nat.eqb_refl. cbn [andb]. induction a as [|x a IH]; [reflexivity|].
  cbn [combine forallb fst snd]. rewrite N.eqb_refl. exact IH.
Qed.

Lemma pairs_eqb_refl l : pairs_eqb l l = true.
Proof.
  unfold pairs_eqb. rewrite Nat.eqb_refl. cbn [andb]. induction l as [|x l IH]; [reflexivity|].
  cbn [combine forallb fst snd]. rewrite !bytes_eqb_refl. exact IH.
Qed.

Theorem query_wellformed a s : auth_safe a = true -> sig_is a s ->
  build_username a = opt_bytes (a_user a) ++ [QM] ++ query_of a /\
  query_wf (query_of a) = true /\
  split_query (query_of a) = raw_pairs a (enc s) /\
  parse_query (query_of a) = raw_pairs a s /\
  monitor_username a s (build_username a) = true.
Proof.
  intros SAFE SIG.
  assert (Q : query_of a = join [AMP] (map kv_param (raw_pairs a (enc s)))).
  { unfold query_of. rewrite build_query_params_kv, (kv_list_raw a s SIG). reflexivity. }
  destruct NAME_PARAM_facts as [NA [NE [NP NS]]]. destruct SIG_PARAM_facts as [SA [SE [SP SS]]].
  unfold auth_safe in SAFE. apply andb_prop in SAFE. destruct SAFE as [SN SK].
  (* facts about every pair *)
  assert (OKS : Forall kv_ok (raw_pairs a (enc s)) /\
                Forall (fun kv => closed (fst kv) /\ closed (snd kv)) (raw_pairs a (enc s)) /\
                map (fun kv => (pct_decode (fst kv), pct_decode (snd kv))) (raw_pairs a (enc s)) = raw_pairs a s /\
                raw_pairs a s = expected_pairs a s).
  { unfold raw_pairs, expected_pairs.
    destruct (a_name a) as [n|]; destruct (a_signed a) as [[[sg k] v]|] eqn:E; cbn [app map fst snd].
    - destruct (final_sig_of a s sg k v SIG E) as [B _]. apply andb_prop in SK. destruct SK as [Sk Sv].
      destruct (query_safe_contains n SN) as [n1 [n2 n3]]. destruct (query_safe_contains k Sk) as [k1 [k2 k3]].
      destruct (query_safe_contains v Sv) as [v1 [v2 v3]]. pose proof (base64_bytes_ok s B) as OK.
      repeat split.
      + repeat constructor; cbn [fst snd]; auto; apply enc_contains; auto.
      + repeat constructor; cbn [fst snd]; try (apply closed_safe; assumption). apply closed_enc, OK.
      + rewrite pct_decode_enc by exact OK. rewrite !pct_decode_no_pct by assumption. reflexivity.
      + rewrite !pct_decode_no_pct by assumption. reflexivity.
    - destruct (query_safe_contains n SN) as [n1 [n2 n3]]. repeat split.
      + repeat constructor; cbn [fst snd]; auto.
      + repeat constructor; cbn [fst snd]; apply closed_safe; assumption.
      + rewrite !pct_decode_no_pct by assumption. reflexivity.
      + rewrite !pct_decode_no_pct by assumption. reflexivity.
    - destruct (final_sig_of a s sg k v SIG E) as [B _]. apply andb_prop in SK. destruct SK as [Sk Sv].
      destruct (query_safe_contains k Sk) as [k1 [k2 k3]].
      destruct (query_safe_contains v Sv) as [v1 [v2 v3]]. pose proof (base64_bytes_ok s B) as OK.
      repeat split.
      + repeat constructor; cbn [fst snd]; auto; apply enc_contains; auto.
      + repeat constructor; cbn [fst snd]; try (apply closed_safe; assumption). apply closed_enc, OK.
      + rewrite pct_decode_enc by exact OK. rewrite !pct_decode_no_pct by assumption. reflexivity.
      + rewrite !pct_decode_no_pct by assumption. reflexivity.
    - repeat split; constructor. }
  destruct OKS as [F1 [F2 [F3 F4]]].
  assert (WF : query_wf (query_of a) = true) by (rewrite Q; apply closed_wf, closed_join, F2).
  assert (SQ : split_query (query_of a) = raw_pairs a (enc s)) by (rewrite Q; apply split_query_join, F1).
  assert (PQ : parse_query (query_of a) = raw_pairs a s) by (unfold parse_query; rewrite SQ; exact F3).
  repeat split; auto.
  unfold monitor_username, build_username. rewrite app_assoc, strip_prefix_app, WF, PQ, F4. apply pairs_eqb_refl.
Qed.

Lemma closed_of_wf x : query_wf x = true -> closed x.
Proof. intros H r. apply query_wf_app, H. Qed.

Lemma uri_encoded_props x : uri_encoded x = true -> closed x /\ contains AMP x = false /\ contains EQS x = false.
Proof.
  unfold uri_encoded. intros H. apply andb_prop in H. destruct H as [H E]. apply andb_prop in H. destruct H as [W A].
  split; [apply closed_of_wf, W|]. split; [destruct (contains AMP x)|destruct (contains EQS x)]; auto; discriminate.
Qed.

(* the same under the documented precondition only: name and key may carry their own escapes; they
   are then judged after decoding (expected_pairs) *)
Theorem query_wellformed_encoded a s : auth_encoded a = true -> sig_is a s ->
  query_wf (query_of a) = true /\
  split_query (query_of a) = raw_pairs a (enc s) /\
  parse_query (query_of a) = expected_pairs a s /\
  monitor_username a s (build_username a) = true.
Proof.
  intros SAFE SIG.
  assert (Q : query_of a = join [AMP] (map kv_param (raw_pairs a (enc s)))).
  { unfold query_of. rewrite build_query_params_kv, (kv_list_raw a s SIG). reflexivity. }
  destruct NAME_PARAM_facts as [NA [NE [NP NS]]]. destruct SIG_PARAM_facts as [SA [SE [SP SS]]].
  unfold auth_encoded in SAFE. apply andb_prop in SAFE. destruct SAFE as [SN SK].
  assert (OKS : Forall kv_ok (raw_pairs a (enc s)) /\
                Forall (fun kv => closed (fst kv) /\ closed (snd kv)) (raw_pairs a (enc s)) /\
                map (fun kv => (pct_decode (fst kv), pct_decode (snd kv))) (raw_pairs a (enc s)) = expected_pairs a s).
  { unfold raw_pairs, expected_pairs.
    destruct (a_name a) as [n|]; destruct (a_signed a) as [[[sg k] v]|] eqn:E; cbn [app map fst snd].
    - destruct (final_sig_of a s sg k v SIG E) as [B _]. apply andb_prop in SK. destruct SK as [Sk Sv].
      destruct (uri_encoded_props n SN) as [n1 [n2 n3]]. destruct (uri_encoded_props k Sk) as [k1 [k2 k3]].
      destruct (query_safe_contains v Sv) as [v1 [v2 v3]]. pose proof (base64_bytes_ok s B) as OK.
      repeat split.
      + repeat constructor; cbn [fst snd]; auto; apply enc_contains; auto.
      + repeat constructor; cbn [fst snd]; auto; try (apply closed_safe; assumption). apply closed_enc, OK.
      + rewrite pct_decode_enc by exact OK. rewrite (pct_decode_no_pct v), (pct_decode_no_pct NAME_PARAM), (pct_decode_no_pct SIG_PARAM) by assumption. reflexivity.
    - destruct (uri_encoded_props n SN) as [n1 [n2 n3]]. repeat split.
      + repeat constructor; cbn [fst snd]; auto.
      + repeat constructor; cbn [fst snd]; auto; apply closed_safe; assumption.
    - destruct (final_sig_of a s sg k v SIG E) as [B _]. apply andb_prop in SK. destruct SK as [Sk Sv].
      destruct (uri_encoded_props k Sk) as [k1 [k2 k3]].
      destruct (query_safe_contains v Sv) as [v1 [v2 v3]]. pose proof (base64_bytes_ok s B) as OK.
      repeat split.
      + repeat constructor; cbn [fst snd]; auto; apply enc_contains; auto.
      + repeat constructor; cbn [fst snd]; auto; try (apply closed_safe; assumption). apply closed_enc, OK.
      + rewrite pct_decode_enc by exact OK. rewrite (pct_decode_no_pct v), (pct_decode_no_pct SIG_PARAM) by assumption. reflexivity.
    - repeat split; constructor. }
  destruct OKS as [F1 [F2 F3]].
  assert (WF : query_wf (query_of a) = true) by (rewrite Q; apply closed_wf, closed_join, F2).
  assert (SQ : split_query (query_of a) = raw_pairs a (enc s)) by (rewrite Q; apply split_query_join, F1).
  assert (PQ : parse_query (query_of a) = expected_pairs a s) by (unfold parse_query; rewrite SQ; exact F3).
  repeat split; auto.
  unfold monitor_username, build_username. rewrite app_assoc, strip_prefix_app, WF, PQ. apply pairs_eqb_refl.
Qed.

(* the split between username and query is found by the first '?' when the user's part has none *)
Theorem username_split a : contains QM (opt_bytes (a_user a)) = false ->
  split_first QM (build_username a) = (opt_bytes (a_user a), Some (query_of a)).
Proof. intros H. unfold build_username. cbn [app]. apply split_first_app, H. Qed.

(* D20: the token value (documented as an arbitrary string) is inserted raw *)
Definition d20_witness : auth_input :=
  {| a_name := Some [97; 117; 116; 104];                                   (* auth *)
     a_signed := Some ([99; 50; 108; 110], [116; 111; 107], [118; 38; 120; 61; 49]);   (* c2ln, tok, v&x=1 *)
     a_user := Some [117]; a_pass := None |}.

Theorem query_wellformed_refuted :
  exists a s, sig_is a s /\ base64 s = true /\
    (exists n sg k v, a_name a = Some n /\ a_signed a = Some (sg, k, v) /\ query_safe n = true /\ query_safe k = true) /\
    parse_query (query_of a) <> expected_pairs a s /\
    length (parse_query (query_of a)) = 4%nat /\
    monitor_username a s (build_username a) = false.
Proof.
  exists d20_witness, [99; 50; 108; 110]. split.
  - intros sg k v E. inversion E; subst. split; [reflexivity|left; reflexivity].
  - split; [reflexivity|]. split.
    + do 4 eexists. repeat split; reflexivity.
    + split; [vm_compute; discriminate|]. split; vm_compute; reflexivity.
Qed.

(* ================= client id ================= *)

Theorem client_id uuid auth o : uuid <> [] ->
  exists c, co_client_id (final_connect_options uuid auth o) = Some c /\ c <> [] /\
    (forall u, co_client_id o = Some u -> u <> [] -> c = u) /\
    (co_client_id o = None \/ co_client_id o = Some [] -> c = uuid) /\
    monitor_client_id (co_client_id o) (Some c) = true.
Proof.
  intros NE. unfold final_connect_options.
  destruct auth as [[u [p|]]|]; destruct (co_client_id o) as [[|x cid]|] eqn:E; cbn;
    try rewrite E;
    first [ exists uuid; repeat split; auto;
            [ intros u' Hu Hne; inversion Hu; subst; contradiction
            | destruct uuid; [contradiction|reflexivity] ]
          | exists uuid; repeat split; auto;
            [ intros u' Hu; discriminate
            | destruct uuid; [contradiction|reflexivity] ]
          | exists (x :: cid); repeat split; auto;
            [ discriminate
            | intros u' Hu _; inversion Hu; reflexivity
            | intros [H|H]; discriminate
            | apply (bytes_eqb_refl (x :: cid)) ] ].
Qed.

(* regression witness of D19 (fixed by /repo commit cf4ca1c): an empty user-supplied client id *)
Example client_id_empty_replaced :
  co_client_id (final_connect_options [117; 49] None
    {| co_keep_alive := None; co_rejoin := Never; co_client_id := Some []; co_username := None; co_password := None;
       co_sei := None; co_rri := None; co_rpi := None; co_receive_max := None; co_tam := None; co_max_packet := None;
       co_will_delay := None; co_will := None; co_up := None |}) = Some [117; 49].
Proof. reflexivity. Qed.

(* ================= options preserved ================= *)

Theorem connect_options_preserved uuid auth o :
  let r := final_connect_options uuid auth o in
  co_keep_alive r = co_keep_alive o /\ co_rejoin r = co_rejoin o /\ co_sei r = co_sei o /\ co_rri r = co_rri o /\
  co_rpi r = co_rpi o /\ co_receive_max r = co_receive_max o /\ co_tam r = co_tam o /\
  co_max_packet r = co_max_packet o /\ co_will_delay r = co_will_delay o /\ co_will r = co_will o /\
  co_up r = co_up o /\
  co_username r = match auth with Some (u, _) => Some u | None => co_username o end /\
  co_password r = match auth with Some (_, Some p) => Some p | _ => co_password o end.
Proof.
  unfold final_connect_options.
  destruct auth as [[u [p|]]|]; destruct (co_client_id o) as [[|x cid]|]; cbn; repeat split; reflexivity.
Qed.

Theorem client_options_preserved o :
  let r := apply_aws_defaults o in
  cl_offline r = cl_offline o /\ cl_connect_timeout r = cl_connect_timeout o /\ cl_ping_timeout r = cl_ping_timeout o /\
  cl_resolver r = cl_resolver o /\ cl_jitter r = cl_jitter o /\ cl_base r = cl_base o /\ cl_max r = cl_max o /\
  cl_stability r = cl_stability o /\ cl_protocol r = cl_protocol o /\
  (cl_drain o <> None -> cl_drain r = cl_drain o) /\ (cl_retries o <> None -> cl_retries r = cl_retries o).
Proof.
  unfold apply_aws_defaults, defaults_apply.
  destruct (cl_protocol o) eqn:P; destruct (cl_drain o) eqn:D; destruct (cl_retries o) eqn:R; cbn;
    rewrite ?P, ?D, ?R; repeat split; try reflexivity; intros H; contradiction.
Qed.

(* ================= defaults iff ================= *)

Theorem defaults_iff o :
  let r := apply_aws_defaults o in
  ((cl_protocol o = V311 /\ cl_drain o = None /\ cl_retries o = None) ->
     cl_drain r = Some OneAtATime /\ cl_retries r = Some 2) /\
  (~ (cl_protocol o = V311 /\ cl_drain o = None /\ cl_retries o = None) -> r = o).
Proof.
  unfold apply_aws_defaults, defaults_apply.
  destruct (cl_protocol o) eqn:P; destruct (cl_drain o) eqn:D; destruct (cl_retries o) eqn:R; cbn; split;
    try (intros [H1 [H2 H3]]; discriminate); try (intros _; reflexivity); try (intros; split; reflexivity).
  intros H. exfalso. apply H. repeat split; reflexivity.
Qed.

(* ================= the whole builder ================= *)

Theorem aws_build_client_id uuid auth uc ucl : uuid <> [] ->
  exists c, co_client_id (fst (aws_build uuid auth uc ucl)) = Some c /\ c <> [].
Proof.
  intros NE. unfold aws_build. cbn [fst].
  destruct (client_id uuid (option_map build_auth auth) (match uc with Some o => o | None => default_connect_options end) NE)
    as [c [H1 [H2 _]]]. exists c. split; assumption.
Qed.

Theorem aws_build_custom_auth uuid a uc ucl :
  let o := match uc with Some o => o | None => default_connect_options end in
  let r := fst (aws_build uuid (Some a) uc ucl) in
  co_username r = Some (build_username a) /\
  co_password r = match a_pass a with Some p => Some p | None => co_password o end.
Proof.
  cbn zeta. unfold aws_build, final_connect_options. cbn [fst option_map build_auth].
  destruct (a_pass a);
    destruct (co_client_id (match uc with Some o => o | None => default_connect_options end)) as [[|x c]|];
    cbn; split; reflexivity.
Qed.
